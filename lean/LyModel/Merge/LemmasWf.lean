import LyModel.Merge.LemmasAbsorb4
/-!
# From the well-formedness predicate of the theorems (`wfForest`) to the invariants the proofs carry
-/
namespace LyModel.Merge
open LyModel LyModel.Tree

theorem pairwiseB_mono {α : Type} (r r' : α → α → Bool) (h : ∀ a b, r a b = true → r' a b = true) :
    ∀ l : List α, pairwiseB r l = true → pairwiseB r' l = true
  | [], _ => rfl
  | x :: xs, hp => by
    rw [pairwiseB_cons] at hp ⊢
    exact ⟨fun y hy => h x y (hp.1 y hy), pairwiseB_mono r r' h xs hp.2⟩

theorem sidSorted_of_okPair (S : Schema) (l : List DNode) (h : pairwiseB (okPair S) l = true) : sidSorted l = true :=
  pairwiseB_mono _ _ (fun a b hab => by simpa [sidLe] using okPair_le hab) l h

theorem keysSeq_le (S : Schema) (s : Nat) : ∀ (l : List DNode) (i : Nat), keysSeq S s i l = true →
    ∀ k ∈ l, k.sid ≤ s + listKeys S s
  | [], _, _ => by simp
  | k :: ks, i, h => by
    simp only [keysSeq, Bool.and_eq_true, beq_iff_eq] at h
    have hlen : ∀ (l : List DNode) (j : Nat), keysSeq S s j l = true → j + l.length = listKeys S s := by
      intro l
      induction l with
      | nil => intro j hj; simpa [keysSeq] using hj
      | cons a as ih =>
        intro j hj
        simp only [keysSeq, Bool.and_eq_true] at hj
        have := ih (j + 1) hj.2
        simp only [List.length_cons]; omega
    have hl := hlen ks (i + 1) h.2
    intro z hz
    rcases List.mem_cons.1 hz with rfl | hz
    · rw [h.1.2]; omega
    · exact keysSeq_le S s ks (i + 1) h.2 z hz

mutual
theorem lvlOk_of_wf (S : Schema) : ∀ (p : Option Nat) (n : DNode), shapeNode S p n = true → ordNode S n = true →
    lvlOk S n = true
  | p, .term s f m v, hs, _ => by
    simp only [shapeNode, Bool.and_eq_true] at hs
    simpa [lvlOk] using hs.1
  | p, .inner s f m ks, hs, ho => by
    simp only [shapeNode, Bool.and_eq_true, List.all_eq_true, Bool.not_eq_true', decide_eq_true_eq] at hs
    simp only [ordNode, Bool.and_eq_true] at ho
    obtain ⟨⟨⟨⟨hi, _⟩, hk⟩, hd⟩, hall⟩ := hs
    simp only [lvlOk, Bool.and_eq_true, List.all_eq_true]
    refine ⟨⟨⟨hi, sidSorted_of_okPair S ks ho.1⟩, ?_⟩, lvlOkL_of_wf S (some s) ks hall ho.2⟩
    intro c hc
    have hsplit : c ∈ keysOf S ks ∨ c ∈ noKeys S ks := by
      rw [← List.mem_append]; simpa [keysOf, noKeys, List.takeWhile_append_dropWhile] using hc
    rcases hsplit with h1 | h1
    · have hkey : S.isKey c.sid = true := mem_takeWhile_p _ _ c h1
      have := keysSeq_le S s _ 0 hk c h1
      simp [keyQ, hkey, this]
    · have := hd c h1
      simp only [keyQ, this.1]
      have : ¬ c.sid ≤ s + listKeys S s := by omega
      simp [this]
theorem lvlOkL_of_wf (S : Schema) : ∀ (p : Option Nat) (l : List DNode), shapeAll S p l = true → ordAll S l = true →
    lvlOkL S l = true
  | _, [], _, _ => rfl
  | p, n :: ns, hs, ho => by
    simp only [shapeAll, Bool.and_eq_true] at hs
    simp only [ordAll, Bool.and_eq_true] at ho
    simp only [lvlOkL, Bool.and_eq_true]
    exact ⟨lvlOk_of_wf S p n hs.1 ho.1, lvlOkL_of_wf S p ns hs.2 ho.2⟩
end

/-- what a well-formed sibling list provides -/
theorem wfSibs_parts {S : Schema} {p : Option Nat} {l : List DNode} (h : wfSibs S p l = true) :
    lvlOkL S l = true ∧ pairwiseB (okPair S) l = true ∧ ordAll S l = true ∧ flagsOkL l = true ∧
      (∀ c ∈ l, S.isKey c.sid = false) := by
  simp only [wfSibs, Bool.and_eq_true, List.all_eq_true, Bool.not_eq_true'] at h
  obtain ⟨⟨⟨⟨h1, h2⟩, h3⟩, h4⟩, h5⟩ := h
  exact ⟨lvlOkL_of_wf S p l h1 h4, h3, h4, h5, h2⟩

theorem srcOk_of_wf {S : Schema} {p : Option Nat} {l : List DNode} (h : wfSibs S p l = true)
    (hd : noDupInstL S l = true) : ∀ y ∈ l, SrcOk S y := by
  obtain ⟨h1, _, h3, h4, _⟩ := wfSibs_parts h
  intro y hy
  exact ⟨(lvlOkL_iff S l).1 h1 y hy, (flagsOkL_iff l).1 h4 y hy, (ordAll_iff S l).1 h3 y hy,
    (noDupInstL_iff S l).1 hd y hy⟩

end LyModel.Merge
