import LyModel.Merge.LemmasEmpty2
/-!
# The lookup of `lyd_merge_sibling_r` for a source node that is no duplicate-instance node: `matchP`, and one merge
  step described through it
-/
namespace LyModel.Merge
open LyModel LyModel.Tree

/-- the predicate the lookup at the head of `lyd_merge_sibling_r` evaluates on the target siblings -/
def matchP (S : Schema) (src : DNode) : DNode → Bool :=
  if S.isKind src.sid .list || S.isKind src.sid .leaflist then instMatch S src else fun x => x.sid == src.sid

theorem findMatch_nodup (S : Schema) (st : St) (src : DNode) (h : S.isDupInst src.sid = false) :
    findMatch S st src = (firstIdx (matchP S src) st.cur, (firstIdx (matchP S src) st.cur).isNone, st.cache) := by
  simp only [findMatch, matchP]
  split
  · cases hf : firstIdx (instMatch S src) st.cur <;> simp [h]
  · cases hf : firstIdx (fun x => x.sid == src.sid) st.cur <;> simp

theorem matchP_sid {S : Schema} {src x : DNode} (h : matchP S src x = true) : x.sid = src.sid := by
  simp only [matchP] at h
  split at h
  · exact instMatch_sid h
  · simpa using h

theorem keysEq_refl : ∀ l : List DNode, keysEq l l = true
  | [] => by simp [keysEq]
  | a :: as => by simp [keysEq, keysEq_refl as]

theorem keysEq_symm : ∀ a b : List DNode, keysEq a b = true → keysEq b a = true
  | [], [], _ => by simp [keysEq]
  | [], _ :: _, h => by simp [keysEq] at h
  | _ :: _, [], h => by simp [keysEq] at h
  | a :: as, b :: bs, h => by
    simp only [keysEq, Bool.and_eq_true, beq_iff_eq] at *
    exact ⟨⟨h.1.1.symm, h.1.2.symm⟩, keysEq_symm as bs h.2⟩

theorem keysEq_trans : ∀ a b c : List DNode, keysEq a b = true → keysEq b c = true → keysEq a c = true
  | [], [], [], _, _ => by simp [keysEq]
  | [], [], _ :: _, _, h => by simp [keysEq] at h
  | [], _ :: _, _, h, _ => by simp [keysEq] at h
  | _ :: _, [], _, h, _ => by simp [keysEq] at h
  | _ :: _, _ :: _, [], _, h => by simp [keysEq] at h
  | a :: as, b :: bs, c :: cs, h1, h2 => by
    simp only [keysEq, Bool.and_eq_true, beq_iff_eq] at *
    exact ⟨⟨h1.1.1.trans h2.1.1, h1.1.2.trans h2.1.2⟩, keysEq_trans as bs cs h1.2 h2.2⟩

theorem instMatch_refl (S : Schema) (x : DNode) : instMatch S x x = true := by
  simp only [instMatch, beq_self_eq_true, Bool.true_and]
  split
  · exact eqContent_refl x
  · split
    · rename_i h; simp [h]
    · exact keysEq_refl _

theorem matchP_refl (S : Schema) (x : DNode) : matchP S x x = true := by
  simp only [matchP]
  split
  · exact instMatch_refl S x
  · simp

theorem matchP_relabel_right (S : Schema) (ff : Flags → Flags) (fm : List Meta → List Meta) (src x : DNode) :
    matchP S src (relabel ff fm x) = matchP S src x := by
  simp only [matchP]
  split
  · exact instMatch_relabel_right S ff fm src x
  · simp

theorem matchP_relabel_left (S : Schema) (ff : Flags → Flags) (fm : List Meta → List Meta) (src x : DNode) :
    matchP S (relabel ff fm src) x = matchP S src x := by
  simp only [matchP, sid_relabel]
  split
  · exact instMatch_relabel_left S ff fm src x
  · rfl

/-- two source nodes of the same shape that match the same target node match each other -/
theorem matchP_trans {S : Schema} {x y t : DNode} (hx : matchP S x t = true) (hy : matchP S y t = true)
    (hd : S.isDupInst x.sid = false) (hs : x.isTerm = y.isTerm) : matchP S x y = true := by
  have e1 := matchP_sid hx
  have e2 := matchP_sid hy
  have e : y.sid = x.sid := by rw [← e2, e1]
  have hdy : S.isDupInst y.sid = false := by rw [e]; exact hd
  simp only [matchP, e] at hx hy ⊢
  split
  · rename_i hk
    simp only [hk, if_true] at hx hy
    rw [instMatch_nodup S x t hd] at hx
    rw [instMatch_nodup S y t hdy] at hy
    rw [instMatch_nodup S x y hd]
    simp only [Bool.and_eq_true, beq_iff_eq] at hx hy ⊢
    refine ⟨e, ?_⟩
    cases hxt : x.isTerm with
    | true =>
      have hyt : y.isTerm = true := by rw [← hs]; exact hxt
      simp only [hxt, hyt, if_true, Bool.and_eq_true, beq_iff_eq] at hx hy ⊢
      exact ⟨trivial, by rw [← hy.2.2, hx.2.2]⟩
    | false =>
      have hyt : y.isTerm = false := by rw [← hs]; exact hxt
      simp only [hxt, hyt, Bool.false_eq_true, if_false] at hx hy ⊢
      exact keysEq_trans _ _ _ (keysEq_symm _ _ hy.2) hx.2
  · rename_i hk
    simp [e]

/-! ## one step, source node no duplicate-instance node -/

theorem mergeNode_unmatched (S : Schema) (o : MergeOpts) (ctx : List Ctx) (x : DNode) (st : St)
    (hd : S.isDupInst x.sid = false) (hf : firstIdx (matchP S x) st.cur = none) :
    mergeNode S o ctx x st = insertSrc S o st st.cache true x := by
  apply mergeNode_of_none
  rw [findMatch_nodup S st x hd, hf]
  rfl

theorem mergeNode_term_matched (S : Schema) (o : MergeOpts) (ctx : List Ctx) (ss : Nat) (sf : Flags) (sm : List Meta)
    (sv : Bytes) (st : St) (i : Nat) (trg : DNode) (hd : S.isDupInst ss = false)
    (hf : firstIdx (matchP S (.term ss sf sm sv)) st.cur = some i) (hg : st.cur[i]? = some trg) :
    mergeNode S o ctx (.term ss sf sm sv) st =
      if S.isKind trg.sid .leaf && (o.defaults || !sf.dflt) then changeTerm o ctx st st.cache i trg sf sv else st := by
  have hd' : S.isDupInst (DNode.term ss sf sm sv).sid = false := hd
  simp only [mergeNode, findMatch_nodup S st _ hd', hf, hg]

theorem mergeNode_inner_matched (S : Schema) (o : MergeOpts) (ctx : List Ctx) (ss : Nat) (sf : Flags) (sm : List Meta)
    (sks : List DNode) (st : St) (i : Nat) (trg : DNode) (hd : S.isDupInst ss = false)
    (hf : firstIdx (matchP S (.inner ss sf sm sks)) st.cur = some i) (hg : st.cur[i]? = some trg) :
    mergeNode S o ctx (.inner ss sf sm sks) st =
      (let sub := mergeKids S o ({ np := S.isNpCont trg.sid, others := allDfltExcept st.cur i } :: ctx) true sks
          { cur := trg.kids, cache := [], anc := trg.flags.dflt :: st.anc }
       { cur := st.cur.set i ((trg.setKids sub.cur).setDflt (sub.anc.headD trg.flags.dflt)), cache := st.cache,
         anc := sub.anc.tail }) := by
  have hd' : S.isDupInst (DNode.inner ss sf sm sks).sid = false := hd
  simp only [mergeNode, findMatch_nodup S st _ hd', hf, hg]

end LyModel.Merge
