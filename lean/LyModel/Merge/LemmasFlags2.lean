import LyModel.Merge.LemmasFlags
/-!
# The default flags of the merged tree are consistent downwards: the induction
-/
namespace LyModel.Merge
open LyModel LyModel.Tree

theorem dflt_setFlags_setVal (t : DNode) (v : Bytes) (f : Flags) : ((t.setVal v).setFlags f).flags.dflt = f.dflt := by
  simp

theorem fi_insert (S : Schema) (o : MergeOpts) (ctx : List Ctx) (st : St) (cache : Cache) (fi : Bool) (x : DNode)
    (hx : flagsOk x = true) (h : FI st ctx) : FI (insertSrc S o st cache fi x) ctx := by
  rw [insertSrc_eq S o st cache fi x hx]
  cases hz : (cp o x).flags.dflt with
  | true =>
    simp only [if_true]
    exact ⟨flagsOkL_insertNode S _ _ h.ok (by rw [flagsOk_cp]; exact hx),
      fun hh => by simp only [allD_insertNode, hz, h.head hh]; rfl, h.chain, h.len⟩
  | false =>
    simp only [Bool.false_eq_true, if_false]
    exact ⟨flagsOkL_insertNode S _ _ h.ok (by rw [flagsOk_cp]; exact hx),
      fun hh => absurd hh (ancDel_head _), chainOkF_ancDel _ _ h.chain, by simp [ancDel_length, h.len]⟩

theorem fi_changeTerm (o : MergeOpts) (ctx : List Ctx) (st : St) (cache : Cache) (i : Nat) (t : DNode) (sf : Flags)
    (sv : Bytes) (hg : st.cur[i]? = some t) (htt : t.isTerm = true) (h : FI st ctx) :
    FI (changeTerm o ctx st cache i t sf sv) ctx := by
  -- the flags the leaf ends up with carry the source's default bit
  have hd1 : ∀ g : Flags, g.dflt = sf.dflt →
      allD (st.cur.set i ((t.setVal sv).setFlags g)) = (sf.dflt && allDfltExcept st.cur i) := by
    intro g hgd
    rw [allD_set_of _ _ t _ hg, dflt_setFlags_setVal, hgd]
  have hok : ∀ g : Flags, flagsOkL (st.cur.set i ((t.setVal sv).setFlags g)) = true := by
    intro g
    apply flagsOkL_set _ _ _ h.ok
    cases t with
    | inner => simp [DNode.isTerm] at htt
    | term => simp [DNode.setVal, DNode.setFlags, flagsOk]
  have hcur := allD_eq_of _ _ t hg
  rw [changeTerm_eq]
  by_cases hA : (t.flags.dflt && !sf.dflt) = true
  · simp only [hA, if_true]
    exact ⟨hok _, fun hh => absurd hh (ancDel_head _), chainOkF_ancDel _ _ h.chain, by simp [ancDel_length, h.len]⟩
  · simp only [hA, Bool.false_eq_true, if_false]
    by_cases hB : (!t.flags.dflt && sf.dflt) = true
    · simp only [hB, if_true]
      simp only [Bool.and_eq_true, Bool.not_eq_true'] at hB
      have hpre : st.anc.head? = some true →
          allD (st.cur.set i ((t.setVal sv).setFlags (leafFlags2 t sf sv))) = true := by
        intro hh
        have := h.head hh
        rw [hcur, hB.1] at this
        simp at this
      have hspec := ancSet_spec ctx st.anc _ h.chain hpre
      refine ⟨hok _, fun hh => ?_, hspec.1, by rw [hspec.2.2, h.len]⟩
      have := hspec.2.1 hh
      rw [hd1 _ (leafFlags2_dflt t sf sv)] at this
      show allD (st.cur.set i ((t.setVal sv).setFlags (leafFlags o t sf sv))) = true
      rw [hd1 _ (leafFlags_dflt o t sf sv)]
      exact this
    · simp only [hB, Bool.false_eq_true, if_false]
      have hsame : sf.dflt = t.flags.dflt := by
        cases h1 : t.flags.dflt <;> cases h2 : sf.dflt <;> simp_all
      refine ⟨hok _, fun hh => ?_, h.chain, h.len⟩
      show allD (st.cur.set i ((t.setVal sv).setFlags (leafFlags o t sf sv))) = true
      rw [hd1 _ (leafFlags_dflt o t sf sv), hsame, ← hcur]
      exact h.head hh

mutual
theorem fi_mergeNode (S : Schema) (o : MergeOpts) : ∀ (x : DNode) (ctx : List Ctx) (st : St), flagsOk x = true →
    lvlOk S x = true → lvlOkL S st.cur = true → FI st ctx → FI (mergeNode S o ctx x st) ctx
  | .term ss sf sm sv, ctx, st, hx, hlx, hlc, h => by
    simp only [mergeNode]
    split
    · rename_i i fi c hfm
      obtain ⟨t, hg, hs⟩ := findMatch_sid S st _ i fi c hfm
      simp only [hg]
      split
      · rename_i hcond
        simp only [Bool.and_eq_true] at hcond
        have htl : lvlOk S t = true := (lvlOkL_iff S _).1 hlc t (List.mem_of_getElem? hg)
        have htt : t.isTerm = true := by
          rw [lvlOk_isTerm_iff htl]; simp [Schema.isTerm, hcond.1]
        exact fi_changeTerm o ctx st c i t sf sv hg htt h
      · exact ⟨h.ok, h.head, h.chain, h.len⟩
    · exact fi_insert S o ctx st _ _ _ hx h
  | .inner ss sf sm sks, ctx, st, hx, hlx, hlc, h => by
    simp only [mergeNode]
    split
    · rename_i i fi c hfm
      obtain ⟨t, hg, hs⟩ := findMatch_sid S st _ i fi c hfm
      simp only [hg]
      have htl : lvlOk S t = true := (lvlOkL_iff S _).1 hlc t (List.mem_of_getElem? hg)
      have htt : t.isTerm = false := by
        rw [sameShape htl hlx hs]; rfl
      have htf : flagsOk t = true := (flagsOkL_iff _).1 h.ok t (List.mem_of_getElem? hg)
      cases t with
      | term => simp [DNode.isTerm] at htt
      | inner ts tf tm tk =>
        simp only [flagsOk, Bool.and_eq_true] at htf hx
        obtain ⟨_, _, hlk⟩ := lvlOk_kids htl
        obtain ⟨_, _, hlsk⟩ := lvlOk_kids hlx
        have hcur := allD_eq_of _ _ _ hg
        -- the level below
        have hstart : FI { cur := tk, cache := [], anc := (DNode.inner ts tf tm tk).flags.dflt :: st.anc }
            ({ np := S.isNpCont (DNode.inner ts tf tm tk).sid, others := allDfltExcept st.cur i } :: ctx) := by
          refine ⟨htf.2, ?_, ?_, by simp [h.len]⟩
          · intro hh
            simp only [List.head?_cons, Option.some.injEq, DNode.flags] at hh
            have := htf.1
            rw [hh] at this
            simpa [allD] using this
          · cases ha : st.anc with
            | nil => exact chainOkF_single _ _
            | cons a0 as =>
              refine ⟨fun ha0 => ?_, by rw [← ha]; exact h.chain⟩
              have := h.head (by rw [ha, ha0]; rfl)
              rw [hcur] at this
              simpa using this
        have hsub := fi_mergeKids S o sks
          ({ np := S.isNpCont (DNode.inner ts tf tm tk).sid, others := allDfltExcept st.cur i } :: ctx) true _
          hx.2 hlsk hlk hstart
        simp only [kids_inner] at hsub ⊢
        -- its result: the new flag of the matched node and the flags above
        cases hanc : (mergeKids S o
            ({ np := S.isNpCont (DNode.inner ts tf tm tk).sid, others := allDfltExcept st.cur i } :: ctx) true sks
            { cur := tk, cache := [], anc := (DNode.inner ts tf tm tk).flags.dflt :: st.anc }).anc with
        | nil =>
          have := hsub.len
          rw [hanc] at this
          simp at this
        | cons d' outer =>
          have hsubh := hsub.head
          have hsubc := hsub.chain
          have hsubl := hsub.len
          rw [hanc] at hsubh hsubc hsubl
          simp only [List.headD_cons, List.tail_cons, setKids_setDflt_inner]
          refine ⟨?_, ?_, chainOkF_tail _ _ _ _ hsubc, by simpa using hsubl⟩
          · apply flagsOkL_set _ _ _ h.ok
            simp only [flagsOk, Bool.and_eq_true]
            refine ⟨?_, hsub.ok⟩
            cases hd' : d' with
            | false => simp
            | true =>
              have := hsubh (by rw [hd']; rfl)
              simpa [allD] using this
          · intro hh
            rw [allD_set_of _ _ _ _ hg]
            cases outer with
            | nil => simp at hh
            | cons a1 as =>
              simp only [List.head?_cons, Option.some.injEq] at hh
              have := hsubc.1 hh
              have h2 : allDfltExcept st.cur i = true := this.2
              simp [DNode.flags, this.1, h2]
    · exact fi_insert S o ctx st _ _ _ hx h
theorem fi_mergeKids (S : Schema) (o : MergeOpts) : ∀ (l : List DNode) (ctx : List Ctx) (ld : Bool) (st : St),
    flagsOkL l = true → lvlOkL S l = true → lvlOkL S st.cur = true → FI st ctx → FI (mergeKids S o ctx ld l st) ctx
  | [], _, _, _, _, _, _, h => by simpa [mergeKids] using h
  | c :: cs, ctx, ld, st, hf, hl, hlc, h => by
    simp only [flagsOkL, Bool.and_eq_true] at hf
    simp only [lvlOkL, Bool.and_eq_true] at hl
    simp only [mergeKids]
    split
    · exact fi_mergeKids S o cs ctx true st hf.2 hl.2 hlc h
    · exact fi_mergeKids S o cs ctx false _ hf.2 hl.2 (lvlOk_mergeNode S o c ctx st hl.1 hf.1 hlc)
        (fi_mergeNode S o c ctx st hf.1 hl.1 hlc h)
end

end LyModel.Merge
