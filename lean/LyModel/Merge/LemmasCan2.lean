import LyModel.Merge.LemmasCan1
import LyModel.Merge.LemmasKeep
/-!
# The merged tree is in canonical order with unique instances (`merge_result_canonical`): invariance under relabelling,
  the two kinds of update, the induction over the source
-/
namespace LyModel.Merge
open LyModel LyModel.Tree

/-! ## relabelling -/

theorem keysSeq_map (S : Schema) (s : Nat) (f : DNode → DNode) (hf : ∀ n, (f n).sid = n.sid ∧ (f n).isTerm = n.isTerm) :
    ∀ (l : List DNode) (i : Nat), keysSeq S s i (l.map f) = keysSeq S s i l
  | [], _ => rfl
  | k :: ks, i => by simp only [List.map_cons, keysSeq, (hf k).1, (hf k).2, keysSeq_map S s f hf ks (i + 1)]

theorem shapeAll_iff (S : Schema) (p : Option Nat) : ∀ l : List DNode, shapeAll S p l = true ↔ ∀ n ∈ l, shapeNode S p n = true
  | [] => by simp [shapeAll]
  | n :: ns => by simp [shapeAll, shapeAll_iff S p ns]

mutual
theorem shapeNode_relabel (S : Schema) (ff : Flags → Flags) (fm : List Meta → List Meta) :
    ∀ (p : Option Nat) (n : DNode), shapeNode S p (relabel ff fm n) = shapeNode S p n
  | _, .term .. => by simp [relabel, shapeNode]
  | p, .inner s f m ks => by
    have ih := shapeAll_relabel S ff fm (some s) ks
    simp only [relabel, shapeNode, ih]
    rw [relabelL_eq_map, keysOf_map S _ (sid_relabel ff fm), noKeys_map S _ (sid_relabel ff fm),
      keysSeq_map S s _ (fun n => ⟨sid_relabel ff fm n, isTerm_relabel ff fm n⟩),
      all_sid_map (fun c => !S.isKey c && decide (s + listKeys S s < c)) _ (sid_relabel ff fm)]
theorem shapeAll_relabel (S : Schema) (ff : Flags → Flags) (fm : List Meta → List Meta) :
    ∀ (p : Option Nat) (l : List DNode), shapeAll S p (relabelL ff fm l) = shapeAll S p l
  | _, [] => by simp [relabelL]
  | p, n :: ns => by simp [relabelL, shapeAll, shapeNode_relabel S ff fm p n, shapeAll_relabel S ff fm p ns]
end

theorem okPair_relabel (S : Schema) (f1 f2 : Flags → Flags) (m1 m2 : List Meta → List Meta) (a b : DNode) :
    okPair S (relabel f1 m1 a) (relabel f2 m2 b) = okPair S a b := by
  simp only [okPair, distinctInst, sid_relabel, instMatch_relabel, cmpInst_relabel]

theorem pairwiseB_map {α : Type} (r : α → α → Bool) (f : α → α) (h : ∀ a b, r (f a) (f b) = r a b) :
    ∀ l : List α, pairwiseB r (l.map f) = pairwiseB r l
  | [] => rfl
  | x :: xs => by
    simp only [List.map_cons, pairwiseB, List.all_map, pairwiseB_map r f h xs]
    congr 2
    funext y
    simp [h]

mutual
theorem ordNode_relabel (S : Schema) (ff : Flags → Flags) (fm : List Meta → List Meta) :
    ∀ n : DNode, ordNode S (relabel ff fm n) = ordNode S n
  | .term .. => by simp [relabel, ordNode]
  | .inner s f m ks => by
    simp only [relabel, ordNode, ordAll_relabel S ff fm ks]
    rw [relabelL_eq_map, pairwiseB_map _ _ (okPair_relabel S ff ff fm fm)]
theorem ordAll_relabel (S : Schema) (ff : Flags → Flags) (fm : List Meta → List Meta) :
    ∀ l : List DNode, ordAll S (relabelL ff fm l) = ordAll S l
  | [] => by simp [relabelL]
  | n :: ns => by simp [relabelL, ordAll, ordNode_relabel S ff fm n, ordAll_relabel S ff fm ns]
end

/-! ## the invariant -/

/-- shape, canonical order and unique instances, at this level and below -/
def Can (S : Schema) (p : Option Nat) (cur : List DNode) : Prop :=
  shapeAll S p cur = true ∧ pairwiseB (okPair S) cur = true ∧ ordAll S cur = true

/-- what is asked of a source node -/
def SrcC (S : Schema) (p : Option Nat) (x : DNode) : Prop :=
  shapeNode S p x = true ∧ ordNode S x = true ∧ flagsOk x = true

theorem Can.lvlOkL {S : Schema} {p : Option Nat} {cur : List DNode} (h : Can S p cur) : lvlOkL S cur = true :=
  lvlOkL_of_wf S p cur h.1 h.2.2

theorem can_set (S : Schema) (p : Option Nat) (cur : List DNode) (i : Nat) (t t' : DNode) (h : Can S p cur)
    (hg : cur[i]? = some t) (hs : shapeNode S p t' = true) (ho : ordNode S t' = true)
    (h1 : ∀ y, okPair S t' y = okPair S t y) (h2 : ∀ y, okPair S y t' = okPair S y t) : Can S p (cur.set i t') := by
  obtain ⟨c1, c2, c3⟩ := h
  refine ⟨?_, pairwiseB_set _ cur i t t' hg (fun y hy => by rw [h1]; exact hy) (fun y hy => by rw [h2]; exact hy) c2, ?_⟩
  · rw [shapeAll_iff] at c1 ⊢
    intro n hn
    rcases List.mem_or_eq_of_mem_set hn with hn | rfl
    · exact c1 n hn
    · exact hs
  · rw [ordAll_iff] at c3 ⊢
    intro n hn
    rcases List.mem_or_eq_of_mem_set hn with hn | rfl
    · exact c3 n hn
    · exact ho

theorem can_insert (S : Schema) (p : Option Nat) (cur : List DNode) (z : DNode) (h : Can S p cur)
    (hs : shapeNode S p z = true) (ho : ordNode S z = true) (hf : Fresh S cur z) : Can S p (insertNode S cur z) := by
  obtain ⟨c1, c2, c3⟩ := h
  have hsig : ∀ y ∈ cur, y.sid = z.sid → SameSig S y z := fun y hy e =>
    sameSig_of_shape ((shapeAll_iff S p cur).1 c1 y hy) hs e
  refine ⟨?_, pairwise_insertNode S cur z c2 hf hsig, ?_⟩
  · obtain ⟨a, b, e1, e2⟩ := insertNode_shape S cur z
    rw [e2]
    rw [e1, shapeAll_iff] at c1
    rw [shapeAll_iff]
    intro n hn
    rcases List.mem_append.1 hn with hn | hn
    · exact c1 n (List.mem_append_left _ hn)
    · rcases List.mem_cons.1 hn with rfl | hn
      · exact hs
      · exact c1 n (List.mem_append_right _ hn)
  · obtain ⟨a, b, e1, e2⟩ := insertNode_shape S cur z
    rw [e2]
    rw [e1, ordAll_iff] at c3
    rw [ordAll_iff]
    intro n hn
    rcases List.mem_append.1 hn with hn | hn
    · exact c3 n (List.mem_append_left _ hn)
    · rcases List.mem_cons.1 hn with rfl | hn
      · exact ho
      · exact c3 n (List.mem_append_right _ hn)

/-! ## the updates of a matched node -/

theorem isKind_leaf_not_dup {S : Schema} {s : Nat} (h : S.isKind s .leaf = true) : S.isDupInst s = false := by
  cases hd : S.isDupInst s with
  | false => rfl
  | true =>
    have := isDupInst_listKind S s hd
    rw [isKind_leaf_not_list h] at this
    exact absurd this (by simp)

theorem okPair_leaf_left (S : Schema) (t y : DNode) (v : Bytes) (f : Flags) (hk : S.isKind t.sid .leaf = true) :
    okPair S ((t.setVal v).setFlags f) y = okPair S t y := by
  simp only [okPair, distinctInst, sid_setFlags, sid_setVal, isKind_leaf_not_dup hk, isKind_leaf_not_list hk]
  simp

theorem okPair_leaf_right (S : Schema) (t y : DNode) (v : Bytes) (f : Flags) (hk : S.isKind t.sid .leaf = true) :
    okPair S y ((t.setVal v).setFlags f) = okPair S y t := by
  simp only [okPair, distinctInst, sid_setFlags, sid_setVal]
  split
  · rename_i e
    have e' : y.sid = t.sid := by simpa using e
    simp [e', isKind_leaf_not_dup hk, isKind_leaf_not_list hk]
  · rfl

theorem sid_inner (s : Nat) (f : Flags) (m : List Meta) (k : List DNode) : (DNode.inner s f m k).sid = s := rfl
theorem isTerm_inner (s : Nat) (f : Flags) (m : List Meta) (k : List DNode) : (DNode.inner s f m k).isTerm = false := rfl
theorem val_inner (s : Nat) (f : Flags) (m : List Meta) (k : List DNode) : (DNode.inner s f m k).val = [] := rfl
theorem kids_inner (s : Nat) (f : Flags) (m : List Meta) (k : List DNode) : (DNode.inner s f m k).kids = k := rfl

theorem setKids_setDflt_inner (ts : Nat) (tf : Flags) (tm : List Meta) (tk ks' : List DNode) (b : Bool) :
    ((DNode.inner ts tf tm tk).setKids ks').setDflt b = .inner ts { tf with dflt := b } tm ks' := rfl

theorem distinctInst_inner_congr (S : Schema) (ts : Nat) (f1 f2 : Flags) (m1 m2 : List Meta) (k1 k2 : List DNode)
    (y : DNode) (e : y.sid = ts) (hk : keysOf S k1 = keysOf S k2) :
    distinctInst S (.inner ts f1 m1 k1) y = distinctInst S (.inner ts f2 m2 k2) y ∧
    distinctInst S y (.inner ts f1 m1 k1) = distinctInst S y (.inner ts f2 m2 k2) := by
  by_cases hd : S.isDupInst ts = true
  · simp [distinctInst, sid_inner, e, hd]
  · have hd' : S.isDupInst ts = false := by simpa using hd
    have hdy : S.isDupInst y.sid = false := by rw [e]; exact hd'
    have hd1 : S.isDupInst (DNode.inner ts f1 m1 k1).sid = false := hd'
    have hd2 : S.isDupInst (DNode.inner ts f2 m2 k2).sid = false := hd'
    have i1 : instMatch S (.inner ts f1 m1 k1) y = instMatch S (.inner ts f2 m2 k2) y := by
      rw [instMatch_nodup S _ y hd1, instMatch_nodup S _ y hd2]
      simp [sid_inner, isTerm_inner, kids_inner, val_inner, hk]
    have i2 : instMatch S y (.inner ts f1 m1 k1) = instMatch S y (.inner ts f2 m2 k2) := by
      rw [instMatch_nodup S y _ hdy, instMatch_nodup S y _ hdy]
      simp [sid_inner, isTerm_inner, kids_inner, val_inner, hk]
    simp only [distinctInst, sid_inner, i1, i2]
    refine ⟨?_, ?_⟩ <;> first | rfl | trivial

theorem cmpInst_inner_congr (S : Schema) (ts : Nat) (f1 f2 : Flags) (m1 m2 : List Meta) (k1 k2 : List DNode) (y : DNode)
    (hk : keysOf S k1 = keysOf S k2) :
    cmpInst S y (.inner ts f1 m1 k1) = cmpInst S y (.inner ts f2 m2 k2) ∧
    cmpInst S (.inner ts f1 m1 k1) y = cmpInst S (.inner ts f2 m2 k2) y := by
  constructor
  · simp [cmpInst, kids_inner, val_inner, hk]
  · simp [cmpInst, sid_inner, isTerm_inner, kids_inner, hk]

/-- `okPair` of an inner node looks at its schema node and its leading keys only — unless it is an instance of a
key-less list, and then not even at those -/
theorem okPair_inner_congr_left (S : Schema) (ts : Nat) (f1 f2 : Flags) (m1 m2 : List Meta) (k1 k2 : List DNode)
    (y : DNode) (hk : keysOf S k1 = keysOf S k2) :
    okPair S (.inner ts f1 m1 k1) y = okPair S (.inner ts f2 m2 k2) y := by
  unfold okPair
  by_cases e : y.sid = ts
  · rw [(distinctInst_inner_congr S ts f1 f2 m1 m2 k1 k2 y e hk).1, (cmpInst_inner_congr S ts f1 f2 m1 m2 k1 k2 y hk).1]
    rfl
  · have h1 : ((DNode.inner ts f1 m1 k1).sid == y.sid) = false := by
      simp only [sid_inner]; simp; exact fun h => e h.symm
    have h2 : ((DNode.inner ts f2 m2 k2).sid == y.sid) = false := h1
    rw [if_neg (by rw [h1]; simp), if_neg (by rw [h2]; simp)]
    rfl

theorem okPair_inner_congr_right (S : Schema) (ts : Nat) (f1 f2 : Flags) (m1 m2 : List Meta) (k1 k2 : List DNode)
    (y : DNode) (hk : keysOf S k1 = keysOf S k2) :
    okPair S y (.inner ts f1 m1 k1) = okPair S y (.inner ts f2 m2 k2) := by
  unfold okPair
  by_cases e : y.sid = ts
  · rw [(distinctInst_inner_congr S ts f1 f2 m1 m2 k1 k2 y e hk).2, (cmpInst_inner_congr S ts f1 f2 m1 m2 k1 k2 y hk).2]
    rfl
  · have h1 : (y.sid == (DNode.inner ts f1 m1 k1).sid) = false := by
      simp only [sid_inner]; simp; exact e
    have h2 : (y.sid == (DNode.inner ts f2 m2 k2).sid) = false := h1
    rw [if_neg (by rw [h1]; simp), if_neg (by rw [h2]; simp)]
    rfl

/-! ## an unmatched source node is fresh -/

theorem findMatch_none (S : Schema) (st : St) (x : DNode) (fi : Bool) (c : Cache)
    (h : findMatch S st x = (none, fi, c)) : S.isDupInst x.sid = true ∨ ∀ y ∈ st.cur, matchP S x y = false := by
  simp only [findMatch] at h
  simp only [matchP]
  split at h
  · rename_i hk
    simp only [hk, if_true]
    split at h
    · rename_i hn
      exact Or.inr (firstIdx_none_all _ _ hn)
    · split at h
      · simp at h
      · rename_i hd
        left
        simpa using hd
  · rename_i hk
    simp only [hk, Bool.false_eq_true, if_false]
    split at h
    · rename_i hn
      exact Or.inr (firstIdx_none_all _ _ hn)
    · simp at h

theorem fresh_of_unmatched (S : Schema) (o : MergeOpts) (p : Option Nat) (st : St) (x : DNode) (fi : Bool) (c : Cache)
    (h : findMatch S st x = (none, fi, c)) (hc : Can S p st.cur) (hx : SrcC S p x) : Fresh S st.cur (cp o x) := by
  intro y hy e
  have e' : y.sid = x.sid := by simpa [cp] using e
  have hlx : lvlOk S x = true := lvlOk_of_wf S p x hx.1 hx.2.1
  have hly : lvlOk S y = true := (lvlOkL_iff S _).1 hc.lvlOkL y hy
  cases hd : S.isDupInst x.sid with
  | true => simp [distinctInst, e', hd, cp]
  | false =>
    rcases findMatch_none S st x fi c h with h1 | h1
    · rw [hd] at h1; exact absurd h1 (by simp)
    · have hxy := h1 y hy
      have hyx : matchP S y x = false := by
        rw [← matchP_symm hlx hly hd]; exact hxy
      simp only [matchP, e'] at hxy hyx
      simp only [distinctInst, cp, sid_relabel, e', hd, Bool.false_eq_true, if_false]
      split
      · rename_i hk
        simp only [hk, if_true] at hxy hyx
        rw [instMatch_relabel_right, instMatch_relabel_left, hxy, hyx]
        simp
      · rename_i hk
        simp only [hk, Bool.false_eq_true, if_false] at hxy
        simp [e'] at hxy

end LyModel.Merge
