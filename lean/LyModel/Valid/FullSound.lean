import LyModel.Valid.FullUB
/-!
# C02, full schema language: soundness of everything `lyd_validate` logs for one sibling level and below

`level_main_sound`: on a fresh sibling list `ks` of a sane schema level `sk`, every error of `lyd_validate_new`, of the walk of
`lyd_validate_subtree` and of `lyd_validate_final_r` (`pipeErrs`) names a constraint family that the specification lists for the
explicit data (`specL X o sk (explicitL ks)`).  Induction on the fuel of the walk = the height of the schema.
-/
namespace LyModel.Valid
open LyModel LyModel.Tree

/-! ## helpers -/

mutual
theorem below_sheight : ∀ {k t : STree}, Below k t → sheight k ≤ sheight t
  | _, _, .self _ => Nat.le_refl _
  | _, _, .kid _ s i ks hb => by
    have := belowL_sheight hb
    rw [sheight.eq_1 s i ks]
    omega
theorem belowL_sheight : ∀ {k : STree} {l : List STree}, BelowL k l → sheight k ≤ sheightL l
  | _, _, .head _ t ts hb => by
    have := below_sheight hb
    rw [sheightL.eq_2 t ts]
    exact Nat.le_trans this (Nat.le_max_left ..)
  | _, _, .tail _ t ts hb => by
    have := belowL_sheight hb
    rw [sheightL.eq_2 t ts]
    exact Nat.le_trans this (Nat.le_max_right ..)
end

/-- the statement fields of two nodes of the schema tree with the same id are the same -/
theorem info_eq_of_sid {X : SchemaX} (hio : InfoOk X) {k k0 : STree} (hk : BelowL k X.top) (hk0 : BelowL k0 X.top)
    (h : k.sid = k0.sid) : k.info = k0.info := by
  have h1 := hio k hk
  have h2 := hio k0 hk0
  rw [h, h2] at h1
  injection h1 with h1
  exact h1.symm

theorem belowL_kids_top {X : SchemaX} {k : STree} (hk : BelowL k X.top) : ∀ k', BelowL k' k.kids → BelowL k' X.top :=
  fun _ h => belowL_trans hk (below_of_kids h)

theorem goodN_inner_kind {X : SchemaX} {n : DNode} (h : goodN X n = true) (hi : n.isTerm = false) :
    X.base.isKind n.sid .leaf = false ∧ X.base.isKind n.sid .leaflist = false := by
  cases n with
  | inner s f m ks => rw [goodN_inner] at h; exact ⟨h.2.1, h.2.2.1⟩
  | term s f m v => cases hi

/-- the schema node of an inner data node is a container or a list -/
theorem inner_kind {X : SchemaX} {k : STree} (hi : InfoFacts X.base k) (h1 : k.info.kind ≠ .choice) (h2 : k.info.kind ≠ .case)
    (hl : X.base.isKind k.sid .leaf = false) (hll : X.base.isKind k.sid .leaflist = false) :
    k.info.kind = .container ∨ k.info.kind = .list := by
  unfold Schema.isKind at hl hll
  rw [hi.kind] at hl hll
  cases hk : k.info.kind with
  | container => exact Or.inl rfl
  | list => exact Or.inr rfl
  | leaf => rw [hk] at hl; simp at hl
  | leaflist => rw [hk] at hll; simp at hll
  | choice => exact absurd hk h1
  | case => exact absurd hk h2

theorem instsOf_nil_of_noInst {E : List DNode} {sid : Nat} (h : hasInst E sid = false) : instsOf E sid = [] :=
  List.length_eq_zero_iff.1 (instsOf_len_zero h)

/-- a constraint on the content of an instance of a visited container / list is a constraint of the level -/
theorem lift_inst (X : SchemaX) (o : VOpts) (E : List DNode) {sk : List STree} {k : STree} (hr : Reach (hasInst E) sk k)
    (hkind : k.info.kind = .container ∨ k.info.kind = .list) {x : DNode} (hx : x ∈ instsOf E k.sid) {K : EKind}
    (hK : K ∈ specL X o k.kids x.kids) : K ∈ specL X o sk E := by
  apply spec_lift_reach X o E hr
  cases k with
  | mk s i kk =>
    rcases hkind with hkind | hkind
    · have hkind : i.kind = .container := hkind
      rw [specNode_container_mem X o E K hkind]
      exact Or.inr (Or.inr (Or.inl ⟨x, hx, hK⟩))
    · have hkind : i.kind = .list := hkind
      rw [specNode_list_mem X o E K hkind]
      exact Or.inr (Or.inr (Or.inr (Or.inr (Or.inr (Or.inr ⟨x, hx, hK⟩)))))

/-- a constraint on the empty content of a visited non-presence container without instance is a constraint of the level -/
theorem lift_npcont (X : SchemaX) (o : VOpts) (E : List DNode) {sk : List STree} {k : STree} (hr : Reach (hasInst E) sk k)
    (hnp : k.isNpCont = true) (hno : hasInst E k.sid = false) {K : EKind} (hK : K ∈ specL X o k.kids []) : K ∈ specL X o sk E := by
  apply spec_lift_reach X o E hr
  cases k with
  | mk s i kk =>
    unfold STree.isNpCont at hnp
    simp only [STree.info, Bool.and_eq_true, beq_iff_eq, Bool.not_eq_eq_eq_not, Bool.not_true] at hnp
    rw [specNode_container_mem X o E K hnp.1]
    exact Or.inr (Or.inr (Or.inr ⟨hnp.2, instsOf_nil_of_noInst hno, hK⟩))

/-! ## the statement of the induction -/

/-- the claim for one value of the fuel -/
def PipeSound (X : SchemaX) (o : VOpts) (fuel : Nat) : Prop :=
  ∀ (sk : List STree) (ks : List DNode) (cx1 cx2 cx3 cxF : Cx),
    sheightL sk ≤ fuel → (∀ k, BelowL k sk → BelowL k X.top) → LevelSane sk → X.kidsOf cx1.parent = sk → X.kidsOf cxF.parent = sk →
    goodL X sk ks = true → ks.length ≤ uint32Max →
    ∀ e ∈ pipeErrs X o fuel cx1 cx2 cx3 cxF sk ks, e.kind ∈ specL X o sk (explicitL ks)

/-- what is logged for an inner node with schema node `k`: the induction hypothesis on its children -/
theorem elem_descend (X : SchemaX) (o : VOpts) (hl : KidsLookupOk X) (hs : FullSane X o) (fuel : Nat)
    (ih : ∀ f, f < fuel → PipeSound X o f) {k : STree} (hbk : BelowL k X.top) (h1 : k.info.kind ≠ .choice)
    (h2 : k.info.kind ≠ .case) (hh : sheight k ≤ fuel) (cx3 cxF : Cx) (b bF : List DNode) (fl : Flags) (m : List Meta)
    (kk : List DNode) (hg : goodL X k.kids kk = true) (hlen : kk.length ≤ uint32Max) (e : VErr)
    (he : e ∈ (subtreeNode X o fuel cx3 b (.inner k.sid fl m kk)).2.errs ∨
      e ∈ (finalNode X o cxF bF (subtreeNode X o fuel cx3 b (.inner k.sid fl m kk)).1).2.errs) :
    e.kind ∈ specL X o k.kids (explicitL kk) := by
  have hk1 := sheight_kids k
  cases fuel with
  | zero => omega
  | succ f =>
    rw [elem_pipe, hl k hbk] at he
    refine ih f (Nat.lt_succ_self f) k.kids kk _ _ _ _ (by omega) (belowL_kids_top hbk) (hs.data k hbk h1 h2).1 ?_ ?_ hg hlen e he
    · rw [Cx.descend_parent]
      exact hl k hbk
    · rw [Cx.descend_parent, subtreeNode_sid]
      exact hl k hbk

/-! ## one node of the completed level -/

theorem elem_sound (X : SchemaX) (o : VOpts) (hl : KidsLookupOk X) (hio : InfoOk X) (hs : FullSane X o) (fuel : Nat)
    (ih : ∀ f, f < fuel → PipeSound X o f) (sk : List STree) (ks : List DNode) (hfuel : sheightL sk ≤ fuel)
    (hb : ∀ k, BelowL k sk → BelowL k X.top) (hls : LevelSane sk) (hg : goodL X sk ks = true)
    (a : DNode)
    (hcase : (∃ y ∈ ks, a = normNew y) ∨
      (hasInst ks a.sid = false ∧ wantL o (hasInst (explicitL ks)) sk a.sid = true ∧ ∃ k0, BelowL k0 sk ∧ ImplNodeOf k0 a))
    (cx3 cxF : Cx) (b bF : List DNode) (e : VErr)
    (he : e ∈ (subtreeNode X o fuel cx3 b a).2.errs ∨ e ∈ (finalNode X o cxF bF (subtreeNode X o fuel cx3 b a).1).2.errs) :
    e.kind ∈ specL X o sk (explicitL ks) := by
  have hfr : isFreshL ks = true := goodL_fresh X sk ks hg
  have hio' : ∀ k, BelowL k sk → X.base.get? k.sid = some k.info := fun k hk => hio k (hb k hk)
  have hall := (goodL_all X sk ks).1 hg
  cases a with
  | term s f m v =>
    exfalso
    simp only [subtreeNode_term, finalNode_term, Out.empty_errs, List.not_mem_nil, or_self] at he
  | inner s fl m kk =>
    rcases hcase with ⟨y, hy, hay⟩ | ⟨hno, hw, k0, hk0, himp⟩
    · -- an explicit node
      have hsid : y.sid = s := by rw [← normNew_sid y, ← hay]; rfl
      have hkids : y.kids = kk := by rw [← normNew_kids y, ← hay]; rfl
      have hterm : y.isTerm = false := by rw [← normNew_isTerm y, ← hay]; rfl
      have hgy := (hall y hy).2
      have hgk := goodN_kids hgy hterm
      have hkd := goodN_inner_kind hgy hterm
      obtain ⟨k, hr, hks, hi, h1, h2⟩ := reach_of_inst X sk ks hls.kinds hls.noCase hio' hfr (fun n hn => (hall n hn).1) hy
      have hbk := hb k hr.belowL
      have hkind := inner_kind hi h1 h2 (by rw [hks]; exact hkd.1) (by rw [hks]; exact hkd.2)
      have hh : sheight k ≤ fuel := Nat.le_trans (belowL_sheight hr.belowL) hfuel
      rw [← hks, hl k hbk, hkids] at hgk
      have hks' : k.sid = s := hks.trans hsid
      subst hks'
      have hK := elem_descend X o hl hs fuel ih hbk h1 h2 hh cx3 cxF b bF fl m kk hgk.1 hgk.2 e he
      have hx : exN y ∈ instsOf (explicitL ks) k.sid := by
        rw [explicitL_fresh ks hfr]
        exact mem_instsOf.2 ⟨List.mem_map_of_mem hy, by rw [exN_sid]; exact hsid⟩
      refine lift_inst X o _ hr hkind hx ?_
      rw [exN_kids, hkids]
      exact hK
    · -- an implicit non-presence container
      obtain ⟨hsid0, _, hkk, hshape⟩ := himp
      have hkk : kk = [] := hkk
      have hsid0 : s = k0.sid := hsid0
      have hnp0 : k0.isNpCont = true := by
        rcases hshape with h | h
        · exact h.2
        · exact absurd h.1 (by simp [DNode.isTerm])
      obtain ⟨k, hks, hwk, hbks, hr⟩ := want_reach o (hasInst (explicitL ks)) fuel sk hfuel hls.kinds _ hw
      have hks : k.sid = s := hks
      have hbk := hb k hbks
      have hinfo : k.info = k0.info := info_eq_of_sid hio hbk (hb k0 hk0) (hks.trans hsid0)
      have hnp : k.isNpCont = true := by
        unfold STree.isNpCont at hnp0 ⊢
        rw [hinfo]; exact hnp0
      have hkk' := wants_kind hwk
      have hh : sheight k ≤ fuel := Nat.le_trans (belowL_sheight hbks) hfuel
      subst hks
      subst hkk
      have hK := elem_descend X o hl hs fuel ih hbk hkk'.1 hkk'.2 hh cx3 cxF b bF fl m [] (by unfold goodL; rfl)
        (Nat.zero_le _) e he
      have hex : explicitL [] = [] := by unfold explicitL; rfl
      rw [hex] at hK
      rcases hr with hr | ⟨ch, c, hbch, hchk, hc, hd, hkc⟩
      · refine lift_npcont X o _ hr hnp ?_ hK
        rw [hasInst_explicit_fresh hfr]
        exact hno
      · exfalso
        rw [hs.dflt ch (hb ch hbch) hchk c hc hd k hkc hnp] at hK
        cases hK

/-! ## the level -/

theorem level_main_step (X : SchemaX) (o : VOpts) (hop : o.operational = false) (hU : UniqBridge X o)
    (hq : X.q.implicitInnerCase = false) (hl : KidsLookupOk X) (hio : InfoOk X) (hs : FullSane X o) (fuel : Nat)
    (ih : ∀ f, f < fuel → PipeSound X o f) : PipeSound X o fuel := by
  intro sk ks cx1 cx2 cx3 cxF hfuel hb hls hcx1 hcxF hg hlen e he
  have hio' : ∀ k, BelowL k sk → X.base.get? k.sid = some k.info := fun k hk => hio k (hb k hk)
  have F := level_facts X o hop hq fuel cx1 cx2 cx3 sk ks hls hg hlen hio'
  have hfr : isFreshL ks = true := goodL_fresh X sk ks hg
  have hall := (goodL_all X sk ks).1 hg
  have hpl : ∀ n ∈ ks, n.sid ∈ dataSidsL sk := fun n hn => (hall n hn).1
  have helem := elem_sound X o hl hio hs fuel ih sk ks hfuel hb hls hg
  unfold pipeErrs at he
  rw [List.mem_append, List.mem_append, List.mem_append] at he
  rcases he with ((he | he) | he) | he
  · -- `lyd_validate_new`
    have hv := (validateNew_fresh_full X o cx1 hop ks hfr).2.2 e he
    rw [hcx1] at hv
    rcases hv with ⟨hk, hv⟩ | ⟨hk, hv⟩
    · rw [hk]
      exact dup_sound X o sk ks hls.kinds hls.noCase hio' hfr hpl hv
    · rw [hk]
      rw [← F.hE] at hv
      exact card_sub_spec X o _ sk _ (dupCaseL_imp_card o _ sk hls.kinds hv)
  · -- the walk
    rw [F.r1tree] at he
    obtain ⟨a, ha, b, he'⟩ := walkList_errs_mem _ _ _ e he
    exact helem a (F.cases a ha) cx3 cxF b [] e (Or.inl he')
  · -- the checks of the level
    unfold levelChecks at he
    rw [Out.append_errs, List.mem_append] at he
    rcases he with he | he
    · obtain ⟨hk, hns, n3, hn3, hcf⟩ := nodeChecks_mem X.base o cxF _ _ e he
      rw [F.tree] at hn3
      obtain ⟨a, ha, b, hn3a⟩ := walkList_res_mem _ _ _ n3 hn3
      have hsid : n3.sid = a.sid := by rw [hn3a]; exact subtreeNode_sid X o fuel cx3 b a
      rw [hsid] at hcf
      rw [hk]
      rcases F.cases a ha with ⟨y, hy, hay⟩ | ⟨_, hw, _⟩
      · have hys : a.sid = y.sid := by rw [hay]; exact normNew_sid y
        rw [hys] at hcf
        exact state_sound X o sk ks hls.kinds hls.noCase hio' hfr hpl hns hy hcf
      · exfalso
        obtain ⟨k, hks, hwk, hbks, _⟩ := want_reach o (hasInst (explicitL ks)) fuel sk hfuel hls.kinds _ hw
        have hi := infoFacts_of_get X.base k (hio' k hbks)
        have hc := hi.cfg
        rw [hks, hcf] at hc
        have := wants_not_state hwk
        rw [hns, ← hc] at this
        cases this
    · rw [hcxF] at he
      rcases level_sound X o cxF hop F.cnt fuel sk hfuel hls.kinds hls.nodup hls.sane F.sel hio' e he with
        h | ⟨hkd, k, hr, hkind, hst, hne⟩
      · exact card_sub_spec X o _ sk _ h
      · -- `lyd_validate_unique` on a visited list: the `unique` clause of the specification is violated
        rw [hkd]
        apply spec_lift_reach X o _ hr
        cases k with
        | mk s i kk =>
          have hkind : i.kind = .list := hkind
          have hst : (o.noState && !i.config) = false := hst
          have hviol := (hU fuel sk ks cx1 cx2 cx3 cxF hfuel hb hls hg hlen s i kk hr.belowL hkind).1 hne
          rw [specNode_list_mem X o _ _ hkind]
          exact Or.inr (Or.inr (Or.inr (Or.inr (Or.inr (Or.inl ⟨rfl, hst, hviol⟩)))))
  · -- the final phase below the level
    obtain ⟨n3, hn3, bF, he'⟩ := finalKids_errs_mem X o cxF _ _ e he
    rw [F.tree] at hn3
    obtain ⟨a, ha, b, hn3a⟩ := walkList_res_mem _ _ _ n3 hn3
    rw [hn3a] at he'
    exact helem a (F.cases a ha) cx3 cxF b bF e (Or.inr he')

/-- **soundness of one sibling level of `lyd_validate` and everything below it** -/
theorem level_main_sound (X : SchemaX) (o : VOpts) (hop : o.operational = false) (hU : UniqBridge X o)
    (hq : X.q.implicitInnerCase = false) (hl : KidsLookupOk X) (hio : InfoOk X) (hs : FullSane X o) :
    ∀ (fuel : Nat) (sk : List STree) (ks : List DNode) (cx1 cx2 cx3 cxF : Cx),
      sheightL sk ≤ fuel → (∀ k, BelowL k sk → BelowL k X.top) → LevelSane sk → X.kidsOf cx1.parent = sk → X.kidsOf cxF.parent = sk →
      goodL X sk ks = true → ks.length ≤ uint32Max →
      ∀ e ∈ pipeErrs X o fuel cx1 cx2 cx3 cxF sk ks, e.kind ∈ specL X o sk (explicitL ks) := by
  intro fuel
  induction fuel using Nat.strongRecOn with
  | _ fuel ih => exact level_main_step X o hop hU hq hl hio hs fuel ih

end LyModel.Valid
