import LyModel.Valid.LemmasFixG
import LyModel.Valid.LemmasCaseExact
/-!
# C07 idempotence for the repaired `lyd_validate_cases`, part 2: what `lyd_new_implicit` creates inside a choice lies in the selected case
-/
namespace LyModel.Valid
open LyModel LyModel.Tree

theorem fxChL_mem : ∀ (ks : List STree) (ch : STree), ch ∈ fxChL ks → ∃ k ∈ ks, ch ∈ fxChT k
  | [], ch, h => by rw [fxChL] at h; cases h
  | k :: ks, ch, h => by
    rw [fxChL] at h
    rcases List.mem_append.1 h with h | h
    · exact ⟨k, List.mem_cons_self .., h⟩
    · obtain ⟨k', hk', h'⟩ := fxChL_mem ks ch h
      exact ⟨k', List.mem_cons_of_mem _ hk', h'⟩

theorem fxChCases_mem : ∀ (cs : List STree) (ch : STree), ch ∈ fxChCases cs → ∃ c ∈ cs, ch ∈ fxChL c.kids
  | [], ch, h => by rw [fxChCases] at h; cases h
  | c :: cs, ch, h => by
    rw [fxChCases] at h
    rcases List.mem_append.1 h with h | h
    · refine ⟨c, List.mem_cons_self .., ?_⟩
      cases c with
      | mk s i ks => rw [fxChCase] at h; exact h
    · obtain ⟨c', hc', h'⟩ := fxChCases_mem cs ch h
      exact ⟨c', List.mem_cons_of_mem _ hc', h'⟩

theorem fxChT_mem (s : Nat) (i : SNode) (cs : List STree) (ch : STree) (h : ch ∈ fxChT (.mk s i cs)) :
    i.kind = .choice ∧ (ch = .mk s i cs ∨ ∃ c ∈ cs, ch ∈ fxChL c.kids) := by
  rw [fxChT] at h
  by_cases hk : (i.kind == .choice) = true
  · simp only [hk, if_true] at h
    refine ⟨by simpa using hk, ?_⟩
    rcases List.mem_cons.1 h with h | h
    · exact Or.inl h
    · exact Or.inr (fxChCases_mem cs ch h)
  · have hk' : (i.kind == .choice) = false := by simpa using hk
    simp [hk'] at h

theorem fxWantChoices_mem (o : VOpts) (H : Nat → Bool) (sid : Nat) : ∀ (ks : List STree), wantChoices o H sid ks = true →
    ∃ k ∈ ks, wantChoice o H sid k = true
  | [], h => by rw [wantChoices] at h; cases h
  | k :: ks, h => by
    rw [wantChoices, Bool.or_eq_true] at h
    rcases h with h | h
    · exact ⟨k, List.mem_cons_self .., h⟩
    · obtain ⟨k', hk', h'⟩ := fxWantChoices_mem o H sid ks h
      exact ⟨k', List.mem_cons_of_mem _ hk', h'⟩

/-- the pieces of `LevelOk` that go down to the cases of a choice of the level -/
theorem sub_level {s : Nat} {i : SNode} {cs ks : List STree} {c1 : STree} (hk : STree.mk s i cs ∈ ks) (hkind : i.kind = .choice)
    (hc1 : c1 ∈ cs) (hko : kindsOkL ks = true) (hnd : (dataSidsL ks).Nodup) :
    c1.info.kind = .case ∧ kindsOkL c1.kids = true ∧ (dataSidsL c1.kids).Nodup ∧ (dataSidsL cs).Nodup ∧
      sheightL c1.kids + 2 ≤ sheightL ks := by
  have hk1 := kindsOkL_mem hko hk
  have hcase := choice_cases_kind hk1 hkind c1 hc1
  rw [kindsOk_mk, Bool.and_eq_true] at hk1
  have hkc := kindsOkL_mem hk1.2 hc1
  have hndk : (STree.mk s i cs).dataSids.Nodup := nodup_of_mem_cases hnd hk
  rw [dataSids_choice hkind] at hndk
  have hnc := nodup_of_mem_cases hndk hc1
  rw [dataSids_case hcase] at hnc
  refine ⟨hcase, ?_, hnc, hndk, ?_⟩
  · cases c1 with
    | mk s' i' ks' => rw [kindsOk_mk, Bool.and_eq_true] at hkc; exact hkc.2
  · have a := sheightL_mem hk
    have b := sheightL_mem hc1
    have c := sheight_kids c1
    simp only [sheight] at a
    omega

/-- **what is wanted inside a choice is wanted in its selected case** (and the data ids of a visited choice are data ids of the level,
without repetition) -/
theorem want_sel (o : VOpts) (H : Nat → Bool) : ∀ (n : Nat) (ks : List STree), sheightL ks ≤ n → kindsOkL ks = true → (dataSidsL ks).Nodup →
    (∀ ch ∈ fxChL ks, (dataSidsL ch.kids).Nodup ∧ ∀ c ∈ ch.kids, ∀ sid ∈ c.dataSids, sid ∈ dataSidsL ks) ∧
    (∀ sid, wantL o H ks sid = true → sid ∈ dataSidsL ks ∧
      ∀ ch ∈ fxChL ks, ∀ c ∈ ch.kids, sid ∈ c.dataSids → selCase ch.info ch.kids H = some c) := by
  intro n
  induction n with
  | zero =>
    intro ks hh _ _
    have : ks = [] := by
      cases ks with
      | nil => rfl
      | cons t ts =>
        exfalso
        cases t with
        | mk s i kk =>
          simp only [sheightL, sheight] at hh
          have : sheightL kk + 1 ≤ Nat.max (sheightL kk + 1) (sheightL ts) := Nat.le_max_left ..
          omega
    subst this
    refine ⟨fun ch hch => (by rw [fxChL] at hch; cases hch), ?_⟩
    intro sid hw
    simp [wantL, wantChoices, wantNodes] at hw
  | succ n ih =>
    intro ks hh hko hnd
    have partA : ∀ ch ∈ fxChL ks, (dataSidsL ch.kids).Nodup ∧ ∀ c ∈ ch.kids, ∀ sid ∈ c.dataSids, sid ∈ dataSidsL ks := by
      intro ch hch
      obtain ⟨k, hk, hck⟩ := fxChL_mem ks ch hch
      cases k with
      | mk s i cs =>
        obtain ⟨hkind, hor⟩ := fxChT_mem s i cs ch hck
        rcases hor with rfl | ⟨c1, hc1, hin⟩
        · have hndk : (STree.mk s i cs).dataSids.Nodup := nodup_of_mem_cases hnd hk
          rw [dataSids_choice hkind] at hndk
          refine ⟨hndk, ?_⟩
          intro c hc sid hsid
          apply dataSids_sub_L hk
          rw [dataSids_choice hkind]
          exact dataSids_sub_L hc sid hsid
        · obtain ⟨hcase, hko1, hnd1, _, hh1⟩ := sub_level hk hkind hc1 hko hnd
          obtain ⟨a, _⟩ := ih c1.kids (by omega) hko1 hnd1
          obtain ⟨a1, a2⟩ := a ch hin
          refine ⟨a1, ?_⟩
          intro c hc sid hsid
          apply dataSids_sub_L hk
          rw [dataSids_choice hkind]
          apply dataSids_sub_L hc1
          rw [dataSids_case hcase]
          exact a2 c hc sid hsid
    refine ⟨partA, ?_⟩
    intro sid hw
    unfold wantL at hw
    rw [Bool.or_eq_true] at hw
    rcases hw with hw | hw
    · -- wanted through a choice `k` of the level: in its selected case `c0`
      obtain ⟨k, hk, hwk⟩ := fxWantChoices_mem o H sid ks hw
      cases k with
      | mk s i cs =>
        rw [wantChoice_sel] at hwk
        split at hwk
        · cases hwk
        · rename_i hskip
          have hkind : i.kind = .choice := by
            simp only [Bool.or_eq_true, bne_iff_ne, ne_eq, not_or, Decidable.not_not] at hskip
            exact hskip.1
          cases hs : selCase i cs H with
          | none => rw [hs] at hwk; cases hwk
          | some c0 =>
            rw [hs] at hwk
            have hc0 := selCase_mem hs
            obtain ⟨hcase0, hko0, hnd0, hndcs, hh0⟩ := sub_level hk hkind hc0 hko hnd
            have hw0 : wantL o H c0.kids sid = true := by
              cases c0 with
              | mk s' i' ks' => simp only [wantCase_mk] at hwk; exact hwk
            obtain ⟨_, b⟩ := ih c0.kids (by omega) hko0 hnd0
            obtain ⟨b1, b2⟩ := b sid hw0
            have hsid0 : sid ∈ c0.dataSids := by rw [dataSids_case hcase0]; exact b1
            have hsidk : sid ∈ (STree.mk s i cs).dataSids := by
              rw [dataSids_choice hkind]; exact dataSids_sub_L hc0 sid hsid0
            refine ⟨dataSids_sub_L hk sid hsidk, ?_⟩
            intro ch hch c hc hsc
            obtain ⟨k', hk', hck'⟩ := fxChL_mem ks ch hch
            -- `k'` is `k`: both hold `sid`
            have hsk' : sid ∈ k'.dataSids := by
              cases k' with
              | mk s2 i2 cs2 =>
                obtain ⟨hkind2, hor⟩ := fxChT_mem s2 i2 cs2 ch hck'
                rw [dataSids_choice hkind2]
                rcases hor with rfl | ⟨c1, hc1, hin⟩
                · exact dataSids_sub_L hc sid hsc
                · obtain ⟨hcase1, hko1, hnd1, _, hh1⟩ := sub_level hk' hkind2 hc1 hko hnd
                  obtain ⟨a, _⟩ := ih c1.kids (by omega) hko1 hnd1
                  apply dataSids_sub_L hc1
                  rw [dataSids_case hcase1]
                  exact (a ch hin).2 c hc sid hsc
            have hkk : k' = STree.mk s i cs := case_unique hnd hk' hk hsk' hsidk
            subst hkk
            obtain ⟨_, hor⟩ := fxChT_mem s i cs ch hck'
            rcases hor with rfl | ⟨c1, hc1, hin⟩
            · -- the choice itself
              simp only [STree.kids] at hc
              have : c = c0 := case_unique hndcs hc hc0 hsc hsid0
              rw [this]; exact hs
            · obtain ⟨hcase1, hko1, hnd1, _, hh1⟩ := sub_level hk hkind hc1 hko hnd
              obtain ⟨a, _⟩ := ih c1.kids (by omega) hko1 hnd1
              have hs1 : sid ∈ c1.dataSids := by
                rw [dataSids_case hcase1]; exact (a ch hin).2 c hc sid hsc
              have : c1 = c0 := case_unique hndcs hc1 hc0 hs1 hsid0
              subst this
              exact b2 ch hin c hc hsc
    · -- wanted as a data node `k` of the level: in no choice
      unfold wantNodes at hw
      obtain ⟨k, hk, hkw⟩ := List.any_eq_true.1 hw
      simp only [Bool.and_eq_true, beq_iff_eq] at hkw
      have hsidk : sid ∈ k.dataSids := by
        rw [dataSids_data (wants_kind hkw.1).1 (wants_kind hkw.1).2, ← hkw.2]; exact List.mem_singleton.2 rfl
      refine ⟨dataSids_sub_L hk sid hsidk, ?_⟩
      intro ch hch c hc hsc
      exfalso
      obtain ⟨k', hk', hck'⟩ := fxChL_mem ks ch hch
      cases k' with
      | mk s2 i2 cs2 =>
        obtain ⟨hkind2, hor⟩ := fxChT_mem s2 i2 cs2 ch hck'
        have hsk' : sid ∈ (STree.mk s2 i2 cs2).dataSids := by
          rw [dataSids_choice hkind2]
          rcases hor with rfl | ⟨c1, hc1, hin⟩
          · exact dataSids_sub_L hc sid hsc
          · obtain ⟨hcase1, hko1, hnd1, _, hh1⟩ := sub_level hk' hkind2 hc1 hko hnd
            obtain ⟨a, _⟩ := ih c1.kids (by omega) hko1 hnd1
            apply dataSids_sub_L hc1
            rw [dataSids_case hcase1]
            exact (a ch hin).2 c hc sid hsc
        have hkk : STree.mk s2 i2 cs2 = k := case_unique hnd hk' hk hsk' hsidk
        rw [← hkk] at hkw
        exact (wants_kind hkw.1).1 hkind2

end LyModel.Valid

namespace LyModel.Valid
open LyModel LyModel.Tree

theorem selCase_data {i : SNode} {cs : List STree} {H : Nat → Bool} {c2 : STree} (hc2 : c2 ∈ cs) (hd : c2.dataSids.any H = true) :
    ∃ cf, selCase i cs H = some cf ∧ cf.dataSids.any H = true := by
  unfold selCase
  cases hf : cs.find? (fun c => c.dataSids.any H) with
  | some cf => exact ⟨cf, rfl, by simpa using List.find?_some hf⟩
  | none => exact absurd hd (by simpa using List.find?_eq_none.1 hf c2 hc2)

theorem hasInst_of_mem {l : List DNode} {n : DNode} (h : n ∈ l) : hasInst l n.sid = true := by
  simp only [hasInst, List.any_eq_true, beq_iff_eq]; exact ⟨n, h, rfl⟩

theorem mem_of_hasInst {l : List DNode} {sid : Nat} (h : hasInst l sid = true) : ∃ y ∈ l, y.sid = sid := by
  simp only [hasInst, List.any_eq_true, beq_iff_eq] at h; exact h

/-- **`lyd_new_implicit` keeps the invariant**: what it creates inside a choice lies in the selected case -/
theorem implL_fxG (X : SchemaX) (o : VOpts) (cx : Cx) (hq : X.q.implicitInnerCase = false) (ks : List STree) (hko : kindsOkL ks = true)
    (hnd : (dataSidsL ks).Nodup) (l : List DNode) (ch : STree) (hch : ch ∈ fxChL ks) (hg : fxG ch l) : fxG ch (implL X o cx ks l).1 := by
  have hadds := implL_onlyAdds X o cx ks l
  obtain ⟨pa, pw⟩ := want_sel o (hasInst l) (sheightL ks) ks (Nat.le_refl _) hko hnd
  obtain ⟨hndc, _⟩ := pa ch hch
  rcases hg with hg | hg
  · left
    -- every node of the choice after the call: an old schema id, or wanted (then in the selected case)
    have cls : ∀ x ∈ (implL X o cx ks l).1, ∀ c ∈ ch.kids, inSids c.dataSids x = true →
        (∃ y ∈ l, y.sid = x.sid) ∨ selCase ch.info ch.kids (hasInst l) = some c := by
      intro x hx c hc hin
      cases hh : hasInst l x.sid with
      | true => exact Or.inl (mem_of_hasInst hh)
      | false =>
        right
        have h3 := implL_exact X o cx hq ks hko hnd l x.sid
        rw [hasInst_of_mem hx, hh, Bool.false_or] at h3
        exact (pw x.sid h3.symm).2 ch hch c hc (List.contains_iff_mem.1 hin)
    intro c hc n hn hin n' hn' hin'
    obtain ⟨c', hc', hin''⟩ := mem_dataSidsL (List.contains_iff_mem.1 hin')
    have hin2 : inSids c'.dataSids n' = true := List.contains_iff_mem.2 hin''
    rcases cls n hn c hc hin with ⟨y, hy, ey⟩ | hsel
    · rw [inSids_congr ey] at hin
      rcases cls n' hn' c' hc' hin2 with ⟨y', hy', ey'⟩ | hsel'
      · rw [inSids_congr ey'] at hin' ⊢
        exact hg c hc y hy hin y' hy' hin'
      · -- `n'` is new, in the selected case `c'`; `c` has data, so the selected case is the first with data
        have hd : c.dataSids.any (hasInst l) = true :=
          List.any_eq_true.2 ⟨y.sid, List.contains_iff_mem.1 hin, hasInst_of_mem hy⟩
        obtain ⟨cf, hcf, hcfd⟩ := selCase_data (i := ch.info) hc hd
        rw [hcf] at hsel'
        have e : cf = c' := Option.some.inj hsel'
        subst e
        obtain ⟨sz, hsz, hz⟩ := List.any_eq_true.1 hcfd
        obtain ⟨z, hz', ez⟩ := mem_of_hasInst hz
        have hzin : inSids cf.dataSids z = true := by unfold inSids; rw [ez]; exact List.contains_iff_mem.2 hsz
        have hyL : inSids (dataSidsL ch.kids) y = true :=
          List.contains_iff_mem.2 (dataSids_sub_L hc _ (List.contains_iff_mem.1 hin))
        have hycf := hg cf hc' z hz' hzin y hy hyL
        have : c = cf := case_unique hndc hc hc' (List.contains_iff_mem.1 hin) (List.contains_iff_mem.1 hycf)
        rw [this]; exact hin2
    · -- `n` is new: `c` is the selected case
      rcases cls n' hn' c' hc' hin2 with ⟨y', hy', ey'⟩ | hsel'
      · rw [inSids_congr ey'] at hin' hin2 ⊢
        have hd : c'.dataSids.any (hasInst l) = true :=
          List.any_eq_true.2 ⟨y'.sid, List.contains_iff_mem.1 hin2, hasInst_of_mem hy'⟩
        obtain ⟨cf, hcf, hcfd⟩ := selCase_data (i := ch.info) hc' hd
        rw [hcf] at hsel
        have e : cf = c := Option.some.inj hsel
        subst e
        obtain ⟨sz, hsz, hz⟩ := List.any_eq_true.1 hcfd
        obtain ⟨z, hz', ez⟩ := mem_of_hasInst hz
        have hzin : inSids cf.dataSids z = true := by unfold inSids; rw [ez]; exact List.contains_iff_mem.2 hsz
        exact hg cf hc z hz' hzin y' hy' hin'
      · rw [hsel] at hsel'
        have e : c = c' := Option.some.inj hsel'
        rw [e]; exact hin2
  · right
    intro n hn hin
    rcases hadds n hn with h | h
    · exact hg n h hin
    · rw [h.1]; rfl

end LyModel.Valid
