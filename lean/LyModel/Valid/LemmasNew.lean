import LyModel.Valid.New
/-! Helper lemmas about `lyd_validate_new` (C02, C07): duplicates (hash branch = scan), the case scan, sequential deletion. -/
namespace LyModel.Valid
open LyModel LyModel.Tree

/-! ## duplicates -/

theorem dupOf_self (S : Schema) (n : DNode) : dupOf S n n = true := by
  unfold dupOf
  cases S.kind? n.sid with
  | none => simp
  | some k => cases k <;> simp

/-- "the first matching record has another matching record behind it" = at least two matching records -/
theorem firstHasNext_iff {α : Type} (p : α → Bool) : ∀ (l : List α),
    firstHasNext p l = decide (2 ≤ (l.filter p).length) := by
  unfold firstHasNext
  intro l
  induction l with
  | nil => simp
  | cons x xs ih =>
    rw [List.dropWhile_cons]
    by_cases hx : p x = true
    · simp only [hx, Bool.not_true, Bool.false_eq_true, if_false, List.filter_cons_of_pos, List.length_cons]
      rw [Bool.eq_iff_iff]
      simp only [List.any_eq_true, decide_eq_true_eq]
      constructor
      · rintro ⟨y, hy, hp⟩
        have : y ∈ xs.filter p := List.mem_filter.2 ⟨hy, hp⟩
        have := List.length_pos_of_mem this
        omega
      · intro h
        have hpos : 0 < (xs.filter p).length := by omega
        obtain ⟨y, hy⟩ := List.exists_mem_of_length_pos hpos
        exact ⟨y, (List.mem_filter.1 hy).1, (List.mem_filter.1 hy).2⟩
    · have hx' : p x = false := by simpa using hx
      simp only [hx', Bool.not_false, if_true, List.filter_cons_of_neg (by simp [hx'] : ¬ p x = true)]
      exact ih

/-- **hash branch = linear scan.**  `h` is any hash function under which equal instances collide (`hcong`); the chain holds
`node` and the siblings with `node`'s hash, in any order. -/
theorem dupHash_eq_dupScan (S : Schema) (h : DNode → Nat) (others chain : List DNode) (node : DNode)
    (hperm : chain.Perm (node :: others.filter (fun x => h x == h node)))
    (hcong : ∀ x ∈ others, dupOf S node x = true → h x = h node) :
    dupHash S chain node = dupScan S others node := by
  unfold dupHash dupScan
  congr 1
  rw [firstHasNext_iff (dupOf S node) chain]
  have hlen : (chain.filter (dupOf S node)).length = ((node :: others.filter (fun x => h x == h node)).filter (dupOf S node)).length :=
    (hperm.filter _).length_eq
  rw [hlen, List.filter_cons_of_pos (dupOf_self S node), List.length_cons, List.filter_filter]
  have hf : others.filter (fun a => dupOf S node a && (h a == h node)) = others.filter (dupOf S node) := by
    apply List.filter_congr
    intro x hx
    by_cases hd : dupOf S node x = true
    · simp [hd, hcong x hx hd]
    · simp [hd]
  rw [hf, Bool.eq_iff_iff]
  simp only [decide_eq_true_eq, List.any_eq_true]
  constructor
  · intro hl
    have hpos : 0 < (others.filter (dupOf S node)).length := by omega
    obtain ⟨y, hy⟩ := List.exists_mem_of_length_pos hpos
    exact ⟨y, (List.mem_filter.1 hy).1, (List.mem_filter.1 hy).2⟩
  · rintro ⟨y, hy, hp⟩
    have : y ∈ others.filter (dupOf S node) := List.mem_filter.2 ⟨hy, hp⟩
    have := List.length_pos_of_mem this
    omega

/-! ## the case scan -/

def optCount {α : Type} (o : Option α) : Nat := if o.isSome then 1 else 0

/-- the scan fails exactly when, counting what it was started with, two cases have only old data or two have new data -/
theorem scanCases_none_iff (sibs : List DNode) : ∀ (cases : List STree) (old new : Option STree),
    scanCases sibs cases old new = none ↔
      2 ≤ optCount old + (cases.filter (fun c => caseFound sibs c == 1)).length ∨
      2 ≤ optCount new + (cases.filter (fun c => caseFound sibs c == 2)).length := by
  intro cases
  induction cases with
  | nil =>
    intro old new
    simp only [scanCases, List.filter_nil, List.length_nil, Nat.add_zero, reduceCtorEq, false_iff, optCount]
    split <;> split <;> omega
  | cons c cs ih =>
    intro old new
    unfold scanCases
    by_cases h1 : caseFound sibs c = 1
    · simp only [h1]
      have f1 : (List.filter (fun c => caseFound sibs c == 1) (c :: cs)).length = (List.filter (fun c => caseFound sibs c == 1) cs).length + 1 := by
        simp [h1]
      have f2 : (List.filter (fun c => caseFound sibs c == 2) (c :: cs)).length = (List.filter (fun c => caseFound sibs c == 2) cs).length := by
        simp [h1]
      rw [f1, f2]
      cases old with
      | some o => simp [optCount]; omega
      | none =>
        simp only [Option.isSome_none, Bool.false_eq_true, if_false]
        rw [ih]
        simp [optCount]
        omega
    · by_cases h2 : caseFound sibs c = 2
      · simp only [h2]
        have f1 : (List.filter (fun c => caseFound sibs c == 1) (c :: cs)).length = (List.filter (fun c => caseFound sibs c == 1) cs).length := by
          simp [h2]
        have f2 : (List.filter (fun c => caseFound sibs c == 2) (c :: cs)).length = (List.filter (fun c => caseFound sibs c == 2) cs).length + 1 := by
          simp [h2]
        rw [f1, f2]
        cases new with
        | some o => simp [optCount]; omega
        | none =>
          simp only [Option.isSome_none, Bool.false_eq_true, if_false]
          rw [ih]
          simp [optCount]
          omega
      · have f1 : (List.filter (fun c => caseFound sibs c == 1) (c :: cs)).length = (List.filter (fun c => caseFound sibs c == 1) cs).length := by
          simp [h1]
        have f2 : (List.filter (fun c => caseFound sibs c == 2) (c :: cs)).length = (List.filter (fun c => caseFound sibs c == 2) cs).length := by
          simp [h2]
        rw [f1, f2]
        have : scanCases sibs cs old new = none ↔ _ := ih old new
        rw [← this]
        split
        · exact absurd ‹_› h1
        · exact absurd ‹_› h2
        · rfl

/-! ## sequential deletion -/

theorem delSeq_fst (X : SchemaX) (cx : Cx) (np : Bool) (victim : DNode → Bool) : ∀ (rest kept : List DNode),
    (delSeq X cx np victim kept rest).1 = kept ++ rest.filter (fun x => !victim x) := by
  intro rest
  induction rest with
  | nil => intro kept; simp [delSeq]
  | cons n ns ih =>
    intro kept
    unfold delSeq
    by_cases hv : victim n = true
    · simp [hv, ih]
    · have hv' : victim n = false := by simpa using hv
      simp [hv', ih]

end LyModel.Valid
