import LyModel.Valid.LemmasNew
/-! The loop of `lyd_validate_new` on siblings without default-flagged nodes (freshly built / parsed data): no auto-deletion,
every new node is checked for duplicates against all its siblings and loses `LYD_NEW` (C02: duplicate family). -/
namespace LyModel.Valid
open LyModel LyModel.Tree

/-- what the loop leaves of a node that is not deleted -/
def normNew (n : DNode) : DNode := if n.flags.new then clearNew n else n

@[simp] theorem clearNew_dflt (n : DNode) : (clearNew n).flags.dflt = n.flags.dflt := by
  cases n <;> rfl
@[simp] theorem clearNew_sid (n : DNode) : (clearNew n).sid = n.sid := by
  cases n <;> rfl
@[simp] theorem normNew_dflt (n : DNode) : (normNew n).flags.dflt = n.flags.dflt := by
  unfold normNew; split <;> simp
@[simp] theorem normNew_sid (n : DNode) : (normNew n).sid = n.sid := by
  unfold normNew; split <;> simp

/-- the duplicate errors of the loop, in order -/
def loopErrs (X : SchemaX) (o : VOpts) (cx : Cx) : (done rest : List DNode) → Out
  | _, [] => {}
  | done, n :: tl => dupErr X o cx done tl n ++ loopErrs X o cx (done ++ [normNew n]) tl

theorem delSeq_no_victims (X : SchemaX) (cx : Cx) (np : Bool) (victim : DNode → Bool) : ∀ (rest kept : List DNode),
    (∀ x ∈ rest, victim x = false) → delSeq X cx np victim kept rest = (kept ++ rest, []) := by
  intro rest
  induction rest with
  | nil => intro kept _; simp [delSeq]
  | cons n ns ih =>
    intro kept h
    unfold delSeq
    have hn : victim n = false := h n (List.mem_cons_self ..)
    simp only [hn, Bool.false_eq_true, if_false]
    rw [ih (kept ++ [n]) (fun x hx => h x (List.mem_cons_of_mem _ hx))]
    simp

/-- without default-flagged siblings the auto-deletion of old defaults finds nothing to delete -/
theorem autodelStep_noDflt (X : SchemaX) (cx : Cx) (done tl : List DNode) (node : DNode)
    (h : ∀ n ∈ done ++ node :: tl, n.flags.dflt = false) :
    autodelStep X cx done node tl = (done, false, tl, []) := by
  unfold autodelStep
  have hnode : node.flags.dflt = false := h node (by simp)
  have hfound : ((done ++ node :: tl).any fun x => x.sid == node.sid && !x.flags.dflt) = true := by
    apply List.any_eq_true.2
    exact ⟨node, by simp, by simp [hnode]⟩
  have hv : ∀ x ∈ done ++ node :: tl, (x.sid == node.sid && x.flags.dflt) = false := by
    intro x hx; simp [h x hx]
  simp only [hfound, if_true]
  rw [delSeq_no_victims X cx false _ done [] (fun x hx => hv x (by simp [hx]))]
  simp only [List.nil_append]
  rw [delSeq_no_victims X cx false _ [node] done (fun x hx => hv x (by simp at hx; simp [hx]))]
  rw [delSeq_no_victims X cx false _ tl (done ++ [node]) (fun x hx => hv x (by simp [hx]))]
  simp [hnode]

/-- **the loop on siblings without default-flagged nodes**: nothing is deleted, `LYD_NEW` is cleared, the errors are the
duplicate errors of the new nodes -/
theorem newLoop_noDflt (X : SchemaX) (o : VOpts) (cx : Cx) : ∀ (fuel : Nat) (rest done : List DNode) (last : Option Nat),
    rest.length < fuel → (∀ n ∈ done ++ rest, n.flags.dflt = false) →
      newLoop X o cx fuel done rest last = (done ++ rest.map normNew, loopErrs X o cx done rest) := by
  intro fuel
  induction fuel with
  | zero => intro rest done last h; omega
  | succ fuel ih =>
    intro rest done last hlen hnd
    cases rest with
    | nil => simp [newLoop, loopErrs]
    | cons node tl =>
      have hnode : node.flags.dflt = false := hnd node (by simp)
      have hlen' : tl.length < fuel := by simp at hlen; omega
      unfold newLoop
      by_cases hnew : node.flags.new = true
      · -- a new node
        have hc : (!(node.flags.new || node.flags.dflt)) = false := by simp [hnew]
        simp only [hc, Bool.false_eq_true, if_false]
        have hr : (if (hasDefault X.base node.sid && last != some node.sid && node.flags.new) = true then autodelStep X cx done node tl
            else (done, false, tl, [])) = (done, false, tl, []) := by
          split
          · exact autodelStep_noDflt X cx done tl node hnd
          · rfl
        simp only [hr]
        simp only [Out.ofEvs_nil, Bool.false_eq_true, if_false, hnew, if_true, clearNew_dflt, hnode, Bool.false_and,
          Out.empty_append]
        rw [ih tl (done ++ [clearNew node]) _ hlen' (by
          intro n hn
          simp only [List.append_assoc, List.mem_append, List.mem_cons, List.not_mem_nil, or_false] at hn
          rcases hn with hn | hn | hn
          · exact hnd n (by simp [hn])
          · subst hn; simp [hnode]
          · exact hnd n (by simp [hn]))]
        simp [loopErrs, normNew, hnew]
      · -- an old explicit node: passed over
        have hnew' : node.flags.new = false := by simpa using hnew
        have hc : (!(node.flags.new || node.flags.dflt)) = true := by simp [hnew', hnode]
        simp only [hc, if_true]
        rw [ih tl (done ++ [node]) last hlen' (by
          intro n hn
          simp only [List.append_assoc, List.mem_append, List.mem_cons, List.not_mem_nil, or_false] at hn
          rcases hn with hn | hn | hn
          · exact hnd n (by simp [hn])
          · exact hnd n (by simp [hn])
          · exact hnd n (by simp [hn]))]
        have hd : dupErr X o cx done tl node = {} := by simp [dupErr, hnew']
        simp [loopErrs, normNew, hnew', hd]

end LyModel.Valid
