import LyModel.Valid.FullLevel
/-!
# C02, full schema language: the interface between the `unique` check of the model and of the specification

`UniqBridge X o`: on every completed level, `lyd_validate_unique` logs an error for a list iff the specification's `unique`
clause of that list is violated on the explicit data.  Trivial without `unique` statements (`uniqBridge_of_nil`); for schemas
with `unique` it is `uniq_bridge` of FullUniq.lean.
-/
namespace LyModel.Valid
open LyModel LyModel.Tree

def UniqBridge (X : SchemaX) (o : VOpts) : Prop :=
  ∀ (fuel : Nat) (sk : List STree) (ks : List DNode) (cx1 cx2 cx3 cx : Cx), sheightL sk ≤ fuel → (∀ k, BelowL k sk → BelowL k X.top) →
    LevelSane sk → goodL X sk ks = true → ks.length ≤ uint32Max →
    ∀ (s : Nat) (i : SNode) (kk : List STree), BelowL (.mk s i kk) sk → i.kind = .list →
      ((uniqueOut X o cx (pipeTree X o fuel cx1 cx2 cx3 sk ks) (.mk s i kk)).errs ≠ [] ↔
        ¬ ∀ u ∈ X.uniquesOf s, uniqueOk (.mk s i kk) u (instsOf (explicitL ks) s) = true)

theorem uniqBridge_of_nil (X : SchemaX) (o : VOpts) (hu : X.uniques = []) : UniqBridge X o := by
  intro fuel sk ks cx1 cx2 cx3 cx _ _ _ _ _ s i kk _ _
  have h1 : X.uniquesOf s = [] := by unfold SchemaX.uniquesOf; simp [hu]
  rw [uniqueOut_nil X o cx _ _ hu, h1]
  simp

end LyModel.Valid
