import LyModel.Valid.LemmasIff2
import LyModel.Valid.LemmasCaseExact
/-!
# C02 for the full schema language of the model: shared definitions

`cardL` is the level-local part of the specification `specL` (LyModel/Valid/Spec.lean): the cardinality constraints of the schema
children of one data level on one explicit sibling list — mandatory leaf, min- and max-elements, mandatory choice, one case per
choice — through choices and cases exactly as the specification recurses (a case constrains the data only when some node of it
exists), without the recursion into the instances.  `dupCaseL` is what `lyd_validate_choice_r` looks for: a choice of the level,
searched through ALL cases, with data of two cases.
-/
namespace LyModel.Valid
open LyModel LyModel.Tree

mutual
/-- level-local cardinality constraints of schema node `k` on the explicit siblings `E` -/
def cardNode (o : VOpts) (E : List DNode) : STree → List EKind
  | .mk s i ks =>
    let st := o.noState && !i.config
    match i.kind with
    | .leaf => if !st && i.mandatory && (instsOf E s).isEmpty then [.noMand] else []
    | .leaflist =>
      (if !st && (instsOf E s).length < i.min then [.noMin] else [])
        ++ (if !st && i.max != 0 && (instsOf E s).length > i.max then [.noMax] else [])
    | .list =>
      (if !st && (instsOf E s).length < i.min then [.noMin] else [])
        ++ (if !st && i.max != 0 && (instsOf E s).length > i.max then [.noMax] else [])
    | .container => []
    | .choice =>
      (if (ks.filter fun cs => hasData E cs.dataSids).length > 1 then [.dupCase] else [])
        ++ (if !st && i.mandatory && (ks.filter fun cs => hasData E cs.dataSids).isEmpty then [.noMandChoice] else [])
        ++ cardCases o E ks
    | .case => cardL o E ks
def cardL (o : VOpts) (E : List DNode) : List STree → List EKind
  | [] => []
  | k :: ks => cardNode o E k ++ cardL o E ks
def cardCases (o : VOpts) (E : List DNode) : List STree → List EKind
  | [] => []
  | cs :: rest => (if hasData E cs.dataSids then cardNode o E cs else []) ++ cardCases o E rest
end

mutual
/-- `lyd_validate_choice_r` finds a choice with data of two cases: the node itself, or a choice nested in any of its cases -/
def dupCaseT (H : Nat → Bool) : STree → Bool
  | .mk _ i ks => i.kind == .choice && (decide (1 < (ks.filter fun cs => cs.dataSids.any H).length) || dupCaseCs H ks)
def dupCaseL (H : Nat → Bool) : List STree → Bool
  | [] => false
  | k :: ks => dupCaseT H k || dupCaseL H ks
/-- the choices directly inside the cases `cs` -/
def dupCaseCs (H : Nat → Bool) : List STree → Bool
  | [] => false
  | c :: rest => dupCaseK H c || dupCaseCs H rest
def dupCaseK (H : Nat → Bool) : STree → Bool
  | .mk _ _ ks => dupCaseL H ks
end

theorem hasData_eq_any (E : List DNode) (ds : List Nat) : hasData E ds = ds.any (hasInst E) := by
  unfold hasData hasInst inSids
  rw [Bool.eq_iff_iff]
  simp only [List.any_eq_true, List.contains_iff_mem, beq_iff_eq]
  constructor
  · rintro ⟨n, hn, hs⟩; exact ⟨n.sid, hs, n, hn, rfl⟩
  · rintro ⟨s, hs, n, hn, rfl⟩; exact ⟨n, hn, hs⟩

end LyModel.Valid
