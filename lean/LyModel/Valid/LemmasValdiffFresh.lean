import LyModel.Valid.LemmasValdiffLevel
import LyModel.Valid.LemmasValdiff
import LyModel.Valid.LemmasLoop
import LyModel.Valid.LemmasCasesFix
/-!
# Lemmas for C07 `valdiff_exact`, part 5: the validation of freshly built / parsed explicit data

On siblings that are all new and not default-flagged `lyd_validate_new` deletes nothing (it clears `LYD_NEW`), so every change
event is a creation of `lyd_new_implicit`; below the top level every event has a non-empty ancestor path; where no event is
recorded nothing changes (up to `obsL`); `lyd_validate_final_r` only sets default flags of non-presence containers.
-/
namespace LyModel.Valid
open LyModel LyModel.Tree

/-! ## `lyd_validate_choice_r` on new nodes only -/

theorem caseFound_ne1 (sibs : List DNode) (cs : STree) (hn : ∀ n ∈ sibs, n.flags.new = true) : caseFound sibs cs ≠ 1 := by
  unfold caseFound
  by_cases h : ((sibs.filter (inSids cs.dataSids)).any (·.flags.new)) = true
  · simp [h]
  · have he : (sibs.filter (inSids cs.dataSids)) = [] := by
      cases hf : sibs.filter (inSids cs.dataSids) with
      | nil => rfl
      | cons x xs =>
        exfalso
        apply h
        have hx : x ∈ sibs.filter (inSids cs.dataSids) := by rw [hf]; exact List.mem_cons_self ..
        exact List.any_eq_true.2 ⟨x, hx, hn x (List.mem_filter.1 hx).1⟩
    simp [he]

theorem scanCases_allNew (sibs : List DNode) (hn : ∀ n ∈ sibs, n.flags.new = true) : ∀ (cases : List STree) (new : Option STree),
    scanCases sibs cases none new = none ∨ ∃ new', scanCases sibs cases none new = some (none, new') := by
  intro cases
  induction cases with
  | nil => intro new; exact Or.inr ⟨new, by rw [scanCases]⟩
  | cons c rest ih =>
    intro new
    rw [scanCases]
    have h1 := caseFound_ne1 sibs c hn
    split
    · rename_i h; exact absurd h h1
    · split
      · exact Or.inl rfl
      · exact ih _
    · exact ih _

theorem casesStep_allNew (X : SchemaX) (cx : Cx) (choice : STree) (sibs : List DNode) (hn : ∀ n ∈ sibs, n.flags.new = true) :
    (casesStep X cx choice sibs).1 = sibs ∧ (casesStep X cx choice sibs).2.evs = [] := by
  unfold casesStep
  rcases scanCases_allNew sibs hn choice.kids none with h | ⟨new', h⟩
  · rw [h]; exact ⟨rfl, rfl⟩
  · rw [h]; exact ⟨rfl, rfl⟩

mutual
theorem choiceR_allNew_T (X : SchemaX) (cx : Cx) : ∀ (t : STree) (sibs : List DNode), (∀ n ∈ sibs, n.flags.new = true) →
    (∀ n ∈ sibs, n.flags.dflt = false) →
    ((choiceRNode X cx t sibs).1 = sibs ∧ (choiceRNode X cx t sibs).2.evs = []) ∧
    ((choiceRCase X cx t sibs).1 = sibs ∧ (choiceRCase X cx t sibs).2.evs = [])
  | .mk s i ks, sibs, hn, hd => by
    have ihL := choiceR_allNew_L X cx ks sibs hn hd
    constructor
    · rw [choiceRNode]
      split
      · split
        · exact ⟨rfl, rfl⟩
        · obtain ⟨h1, h2⟩ := casesStep_allNew X cx (.mk s i ks) sibs hn
          dsimp only
          rw [casesStepQ_fresh X cx _ sibs hn hd, h1, Out.append_evs, h2, ihL.2.1, ihL.2.2]
          exact ⟨rfl, rfl⟩
      · exact ⟨rfl, rfl⟩
    · rw [choiceRCase]
      exact ihL.1
theorem choiceR_allNew_L (X : SchemaX) (cx : Cx) : ∀ (ks : List STree) (sibs : List DNode), (∀ n ∈ sibs, n.flags.new = true) →
    (∀ n ∈ sibs, n.flags.dflt = false) →
    ((choiceRL X cx ks sibs).1 = sibs ∧ (choiceRL X cx ks sibs).2.evs = []) ∧
    ((choiceRCases X cx ks sibs).1 = sibs ∧ (choiceRCases X cx ks sibs).2.evs = [])
  | [], sibs, _, _ => by
    rw [choiceRL, choiceRCases]
    exact ⟨⟨rfl, rfl⟩, ⟨rfl, rfl⟩⟩
  | k :: rest, sibs, hn, hd => by
    have ihT := choiceR_allNew_T X cx k sibs hn hd
    have ihL := choiceR_allNew_L X cx rest sibs hn hd
    constructor
    · rw [choiceRL]
      dsimp only
      rw [ihT.1.1, Out.append_evs, ihT.1.2, ihL.1.1, ihL.1.2]
      exact ⟨rfl, rfl⟩
    · rw [choiceRCases]
      dsimp only
      rw [ihT.2.1, Out.append_evs, ihT.2.2, ihL.2.1, ihL.2.2]
      exact ⟨rfl, rfl⟩
end

theorem dupErr_evs (X : SchemaX) (o : VOpts) (cx : Cx) (done tl : List DNode) (n : DNode) : (dupErr X o cx done tl n).evs = [] := by
  unfold dupErr
  dsimp only
  split <;> rfl

theorem loopErrs_evs (X : SchemaX) (o : VOpts) (cx : Cx) : ∀ (rest done : List DNode), (loopErrs X o cx done rest).evs = []
  | [], _ => rfl
  | n :: tl, done => by
    rw [loopErrs, Out.append_evs, dupErr_evs, loopErrs_evs X o cx tl]; rfl

/-- the flags of freshly built explicit data, on one sibling level -/
def FreshLevel (sibs : List DNode) : Prop := ∀ n ∈ sibs, n.flags.new = true ∧ n.flags.dflt = false

/-- **`lyd_validate_new` on fresh siblings**: nothing is deleted, nothing recorded, `LYD_NEW` is cleared -/
theorem validateNew_freshLevel (X : SchemaX) (o : VOpts) (cx : Cx) (sibs : List DNode) (h : FreshLevel sibs) :
    (validateNew X o cx sibs).1 = sibs.map normNew ∧ (validateNew X o cx sibs).2.evs = [] := by
  unfold validateNew
  obtain ⟨h1, h2⟩ := (choiceR_allNew_L X cx (X.kidsOf cx.parent) sibs (fun n hn => (h n hn).1) (fun n hn => (h n hn).2)).1
  dsimp only
  rw [h1, newLoop_noDflt X o cx.keysOld (sibs.length + 1) sibs [] none (by omega) (by
    intro n hn; exact (h n (by simpa using hn)).2)]
  simp only [List.nil_append, Out.append_evs, h2, loopErrs_evs, List.append_nil, and_self]

/-! ## the observation ignores `LYD_NEW` and the default flag of non-presence containers -/

theorem obsN_normNew (S : Schema) (n : DNode) : obsN S (normNew n) = obsN S n := by
  unfold normNew
  split
  · cases n <;> rfl
  · rfl

theorem obsL_map_normNew (S : Schema) : ∀ l, obsL S (l.map normNew) = obsL S l
  | [] => rfl
  | x :: xs => by simp [obsL, obsN_normNew, obsL_map_normNew S xs]

theorem obsN_npSet (S : Schema) (s : Nat) (f : Flags) (m : List Meta) (ks : List DNode) :
    obsN S (npSet S (.inner s f m ks)) = obsN S (.inner s f m ks) := by
  simp only [npSet]
  split
  · rename_i h
    simp only [Bool.and_eq_true] at h
    simp [obsN, h.1.1]
  · rfl

mutual
theorem finalNode_obs (X : SchemaX) (o : VOpts) : ∀ (n : DNode) (cx : Cx) (before : List DNode),
    obsN X.base (finalNode X o cx before n).1 = obsN X.base n
  | .term .., _, _ => by simp [finalNode]
  | .inner s f m ks, cx, before => by
    rw [finalNode]
    dsimp only
    rw [obsN_npSet]
    simp only [obsN, finalKids_obs X o ks]
theorem finalKids_obs (X : SchemaX) (o : VOpts) : ∀ (ns : List DNode) (cx : Cx) (before : List DNode),
    obsL X.base (finalKids X o cx before ns).1 = obsL X.base ns
  | [], _, _ => by simp [finalKids]
  | n :: ns, cx, before => by
    rw [finalKids]
    dsimp only
    simp only [obsL, finalNode_obs X o n, finalKids_obs X o ns]
end

theorem finalR_obs (X : SchemaX) (o : VOpts) (cx : Cx) (sibs : List DNode) : obsL X.base (finalR X o cx sibs).1 = obsL X.base sibs := by
  unfold finalR
  exact finalKids_obs X o sibs cx []

/-! ## the subtree walk on fresh data -/

theorem okBelowL_kidsOf (X : SchemaX) (hok : OkBelowL X.base X.top) (p : Option Nat) : OkBelowL X.base (X.kidsOf p) := by
  cases p with
  | none => exact hok
  | some s =>
    have hk : X.kidsOf (some s) = match findL? X.top s with | some t => t.kids | none => [] := rfl
    rw [hk]
    cases hf : findL? X.top s with
    | none => intro k hk; cases hk
    | some t =>
      intro k hk
      cases t with
      | mk s' i ks =>
        exact hok k (belowL_trans (findL?_below X.top s _ hf) (Below.kid _ _ _ _ hk))

theorem freshLevel_of (l : List DNode) (h : freshExplL l = true) : FreshLevel l ∧ ∀ n ∈ l, freshExplL n.kids = true := by
  induction l with
  | nil => exact ⟨(by intro n hn; cases hn), (by intro n hn; cases hn)⟩
  | cons x xs ih =>
    rw [freshExplL, Bool.and_eq_true] at h
    obtain ⟨a, b⟩ := ih h.2
    have hx : (x.flags.new = true ∧ x.flags.dflt = false) ∧ freshExplL x.kids = true := by
      cases x with
      | term s f m v =>
        have := h.1
        simp only [freshExplN, Bool.and_eq_true, Bool.not_eq_true'] at this
        exact ⟨this, rfl⟩
      | inner s f m ks =>
        have := h.1
        simp only [freshExplN, Bool.and_eq_true, Bool.not_eq_true'] at this
        exact ⟨this.1, this.2⟩
    constructor
    · intro n hn
      rcases List.mem_cons.1 hn with rfl | hn
      · exact hx.1
      · exact a n hn
    · intro n hn
      rcases List.mem_cons.1 hn with rfl | hn
      · exact hx.2
      · exact b n hn

theorem keysOld_anc_ne (cx : Cx) (h : cx.anc ≠ []) : cx.keysOld.anc ≠ [] := by
  unfold Cx.keysOld
  split
  · simp
  · exact h

/-- the walk over a sibling list, given the statement for every node -/
theorem walkList_fresh (S : Schema) (f : List DNode → DNode → DNode × Out) :
    ∀ (l before : List DNode),
      (∀ n ∈ l, ∀ before, (∀ e ∈ (f before n).2.evs, e.anc ≠ []) ∧ ((f before n).2.evs = [] → obsN S (f before n).1 = obsN S n)) →
      (∀ e ∈ (walkList f before l).2.evs, e.anc ≠ []) ∧ ((walkList f before l).2.evs = [] → obsL S (walkList f before l).1 = obsL S l)
  | [], _, _ => by simp [walkList, obsL]
  | n :: ns, before, h => by
    rw [walkList]
    dsimp only
    obtain ⟨a1, a2⟩ := h n (List.mem_cons_self ..) before
    obtain ⟨b1, b2⟩ := walkList_fresh S f ns (before ++ [(f before n).1]) (fun k hk => h k (List.mem_cons_of_mem _ hk))
    constructor
    · intro e he
      simp only [Out.append_evs, List.mem_append] at he
      rcases he with he | he
      · exact a1 e he
      · exact b1 e he
    · intro he
      simp only [Out.append_evs, List.append_eq_nil_iff] at he
      simp only [obsL, a2 he.1, b2 he.2]

/-- **the subtree walk on fresh data**: every recorded change has a non-empty ancestor path, and where nothing is recorded nothing
changes (up to `obsN`) -/
theorem subtreeNode_fresh (X : SchemaX) (o : VOpts) (hok : OkBelowL X.base X.top) : ∀ (fuel : Nat) (n : DNode) (cx : Cx) (before : List DNode),
    freshExplL n.kids = true →
    (∀ e ∈ (subtreeNode X o fuel cx before n).2.evs, e.anc ≠ []) ∧
    ((subtreeNode X o fuel cx before n).2.evs = [] → obsN X.base (subtreeNode X o fuel cx before n).1 = obsN X.base n)
  | 0, n, _, _, _ => by simp [subtreeNode]
  | fuel + 1, .term s f m v, _, _, _ => by simp [subtreeNode]
  | fuel + 1, .inner s f m ks, cx, before, hf => by
    rw [subtreeNode]
    dsimp only
    obtain ⟨hlev, hkids⟩ := freshLevel_of ks hf
    obtain ⟨n1, n2⟩ := validateNew_freshLevel X o (cx.descend X.base before (.inner s f m ks)) ks hlev
    have hanc : (cx.descend X.base before (.inner s f m ks)).keysOld.anc ≠ [] := by
      apply keysOld_anc_ne
      simp [Cx.descend]
    have tr := implL_tr X o (cx.descend X.base before (.inner s f m ks)).keysOld (X.kidsOf (some s))
      (validateNew X o (cx.descend X.base before (.inner s f m ks)) ks).1 (okBelowL_kidsOf X hok (some s))
    have hw := walkList_fresh X.base (subtreeNode X o fuel (cx.descend X.base before (.inner s f m ks)).keysOld)
    constructor
    · intro e he
      simp only [Out.append_evs, n2, List.nil_append, List.mem_append] at he
      rcases he with he | he
      · rw [(tr.at_ e he).1]; exact hanc
      · -- the nodes walked: the children (without `LYD_NEW`) and the created default nodes (without children)
        refine (hw _ [] ?_).1 e he
        intro k hk bf
        apply subtreeNode_fresh X o hok fuel k _ bf
        rw [tr.tree] at hk
        exact kids_fresh_of_replay X.base _ _ k hk (by
          intro y hy
          rw [n1] at hy
          obtain ⟨z, hz, rfl⟩ := List.mem_map.1 hy
          rw [normNew_kids]; exact hkids z hz) (by
          intro e' he'
          obtain ⟨k', _, _, _, _, _, h5, _, _⟩ := implL_below X o _ _ _ e' he'
          rw [h5]; rfl)
    · intro he
      simp only [Out.append_evs, n2, List.nil_append, List.append_eq_nil_iff] at he
      have h2 : (implL X o (cx.descend X.base before (.inner s f m ks)).keysOld (X.kidsOf (some s))
          (validateNew X o (cx.descend X.base before (.inner s f m ks)) ks).1).1 = ks.map normNew := by
        rw [tr.tree, he.1, n1]; rfl
      have h3 := (hw (ks.map normNew) [] (by
        intro k hk bf
        apply subtreeNode_fresh X o hok fuel k _ bf
        obtain ⟨z, hz, rfl⟩ := List.mem_map.1 hk
        rw [normNew_kids]; exact hkids z hz)).2
      rw [h2] at he
      simp only [obsN, h2, h3 he.2, obsL_map_normNew]
where
  /-- every node of a replayed level has fresh children when the old nodes have and the created ones have none -/
  kids_fresh_of_replay (S : Schema) : ∀ (es : List Ev) (sibs : List DNode) (k : DNode), k ∈ replay S sibs es →
      (∀ y ∈ sibs, freshExplL y.kids = true) → (∀ e ∈ es, freshExplL e.node.kids = true) → freshExplL k.kids = true
    | [], sibs, k, hk, h1, _ => h1 k hk
    | e :: es, sibs, k, hk, h1, h2 => by
      apply kids_fresh_of_replay S es (insertNode S sibs e.node) k hk
      · intro y hy
        rcases (mem_insertNode S sibs e.node y).1 hy with rfl | hy
        · exact h2 _ (List.mem_cons_self ..)
        · exact h1 y hy
      · intro e' he'; exact h2 e' (List.mem_cons_of_mem _ he')

end LyModel.Valid

namespace LyModel.Valid
open LyModel LyModel.Tree

/-! ## the caller's view: `judge` over a log of change events = `valDiff` -/

theorem log_all_evs : ∀ (l : List Item), (l.filterMap fun | .err e => some e | .ev _ => none) = [] →
    l = (l.filterMap fun | .ev e => some e | .err _ => none).map Item.ev
  | [], _ => rfl
  | it :: rest, h => by
    cases it with
    | ev e =>
      simp only [List.filterMap_cons] at h ⊢
      rw [List.map_cons, ← log_all_evs rest h]
    | err e => simp at h

/-- one step of `judge` -/
def judgeStep (S : Schema) (multi : Bool) (v : Verdict) (it : Item) : Verdict :=
  if v.stop then v else
  match it with
  | .err e => { v with errs := v.errs ++ [e.tok], stop := !multi }
  | .ev e =>
    let c := evChain S e
    match mergeR S (c.height + 2) v.diff .none c .none with
    | some d => { v with diff := d }
    | none =>
      if e.src == .autodel then { v with lost := true }
      else { v with errs := v.errs ++ ["Other:-:-", "Other:-:-"], stop := true }

theorem judge_eq (S : Schema) (multi : Bool) (log : List Item) : judge S multi log = log.foldl (judgeStep S multi) {} := rfl

theorem judgeStep_ev (S : Schema) (multi : Bool) (v : Verdict) (e : Ev) (d : List DNode) (hs : v.stop = false)
    (hm : mergeR S ((evChain S e).height + 2) v.diff .none (evChain S e) .none = some d) :
    judgeStep S multi v (.ev e) = { v with diff := d } := by
  unfold judgeStep
  simp only [hs, Bool.false_eq_true, if_false, hm]

theorem judge_fold (S : Schema) (multi : Bool) : ∀ (evs : List Ev) (v : Verdict) (D : List DNode), v.stop = false →
    evs.foldlM (fun acc e => let c := evChain S e; mergeR S (c.height + 2) acc .none c .none) v.diff = some D →
    (evs.map Item.ev).foldl (judgeStep S multi) v = { v with diff := D }
  | [], v, D, _, h => by
    simp only [List.foldlM_nil, Option.pure_def, Option.some.injEq] at h
    subst h; rfl
  | e :: es, v, D, hs, h => by
    simp only [List.foldlM_cons, Option.bind_eq_bind] at h
    cases hm : mergeR S ((evChain S e).height + 2) v.diff .none (evChain S e) .none with
    | none => rw [hm] at h; simp at h
    | some d =>
      rw [hm, Option.bind_some] at h
      rw [List.map_cons, List.foldl_cons, judgeStep_ev S multi v e d hs hm]
      exact judge_fold S multi es { v with diff := d } D hs h

theorem judge_of_valDiff (S : Schema) (multi : Bool) (evs : List Ev) (D : List DNode) (h : valDiff S evs = some D) :
    judge S multi (evs.map Item.ev) = { diff := D } := by
  rw [judge_eq]
  exact judge_fold S multi evs {} D rfl h

theorem validateDiff_of_valDiff (X : SchemaX) (o : VOpts) (t : List DNode) (D : List DNode)
    (hv : (validate X o t).errs = []) (h : valDiff X.base (validate X o t).evs = some D) : validateDiff X o t = some D := by
  unfold validateDiff
  have hl := log_all_evs (validate X o t).log hv
  have : judge X.base o.multiError (validate X o t).log = { diff := D } := by
    rw [hl]; exact judge_of_valDiff X.base o.multiError _ D h
  rw [this]
  rfl

/-- **`valdiff_exact` on freshly built / parsed explicit data whose validation only adds top-level defaults** -/
theorem valdiff_fresh_top (X : SchemaX) (o : VOpts) (fx : Diff.Fixes) (t : List DNode)
    (hok : OkBelowL X.base X.top) (hf : freshExplL t = true) (htop : topOnly X o t = true)
    (hv : (validate X o t).errs = []) (hpe : (o.present && t.isEmpty) = false) :
    valdiffExact X o fx t = true ∧ ∃ D, validateDiff X o t = some D ∧ D.length = (validate X o t).evs.length := by
  obtain ⟨htree, hevs⟩ := validate_evs_eq X o t hpe
  obtain ⟨hlev, hkids⟩ := freshLevel_of t hf
  obtain ⟨n1, n2⟩ := validateNew_freshLevel X o {} t hlev
  have tr := implL_tr X o {} X.top (validateNew X o {} t).1 hok
  -- the walk below the top level records nothing (every event there has a non-empty ancestor path)
  have hw := walkList_fresh X.base (subtreeNode X o (walkFuel X t) {}) (implL X o {} X.top (validateNew X o {} t).1).1 []
    (by
      intro k hk bf
      apply subtreeNode_fresh X o hok (walkFuel X t) k _ bf
      rw [tr.tree] at hk
      exact subtreeNode_fresh.kids_fresh_of_replay X.base _ _ k hk (by
        intro y hy
        rw [n1] at hy
        obtain ⟨z, hz, rfl⟩ := List.mem_map.1 hy
        rw [normNew_kids]; exact hkids z hz) (by
        intro e' he'
        obtain ⟨k', _, _, _, _, _, h5, _, _⟩ := implL_below X o _ _ _ e' he'
        rw [h5]; rfl))
  have htop' : ∀ e ∈ (validate X o t).evs, e.anc = [] ∧ X.base.isUserOrd e.node.sid = false := by
    intro e he
    have := List.all_eq_true.1 htop e he
    simp only [Bool.and_eq_true, List.isEmpty_iff, Bool.not_eq_true'] at this
    exact this
  have h3 : (subtreeKids X o (walkFuel X t) {} [] (implL X o {} X.top (validateNew X o {} t).1).1).2.evs = [] := by
    cases hc : (subtreeKids X o (walkFuel X t) {} [] (implL X o {} X.top (validateNew X o {} t).1).1).2.evs with
    | nil => rfl
    | cons e es =>
      exfalso
      have he : e ∈ (subtreeKids X o (walkFuel X t) {} [] (implL X o {} X.top (validateNew X o {} t).1).1).2.evs := by
        rw [hc]; exact List.mem_cons_self ..
      have hne := hw.1 e he
      apply hne
      apply (htop' e _).1
      rw [hevs]
      simp only [Out.append_evs, List.mem_append]
      exact Or.inl (Or.inr he)
  have hevs' : (validate X o t).evs = (implL X o {} X.top (validateNew X o {} t).1).2.evs := by
    rw [hevs]
    simp only [Out.append_evs, n2, h3, finalR_evs, List.nil_append, List.append_nil]
  obtain ⟨D, r, hD, hap, hobs, hlen⟩ := implL_valdiff X o fx {} X.top (validateNew X o {} t).1 t rfl hok
    (by intro e he; exact (htop' e (by rw [hevs']; exact he)).2) (by rw [n1, obsL_map_normNew])
  have hvd : validateDiff X o t = some D := validateDiff_of_valDiff X o t D hv (by rw [hevs']; exact hD)
  refine ⟨?_, D, hvd, by rw [hevs']; exact hlen⟩
  unfold valdiffExact valdiffApply
  rw [hvd]
  simp only [hap]
  have : obsL X.base (validate X o t).tree = obsL X.base r := by
    rw [htree, finalR_obs, hobs]
    exact hw.2 h3
  rw [this]
  exact beqL_refl' _

end LyModel.Valid

namespace LyModel.Valid
open LyModel LyModel.Tree

/-- decidable `OkBelowL`: the row of every schema node in the flat table is its statement record, no leaf-list has two equal defaults -/
def okBelowB (X : SchemaX) : Bool :=
  allBelowL (fun k => decide (X.base.get? k.sid = some k.info) && decide k.info.dflts.Nodup) X.top

theorem okBelowL_of_B (X : SchemaX) (h : okBelowB X = true) : OkBelowL X.base X.top := by
  intro k hk
  have := allBelowL_spec _ hk h
  simpa [NodeOk] using this

end LyModel.Valid
