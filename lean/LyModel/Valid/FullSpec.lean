import LyModel.Valid.FullReach
import LyModel.Valid.LemmasTag
import LyModel.Valid.Ops
/-!
# The specification `specNode / specL / specCases` over the full schema language

The specification of one data level decomposes into the level-local cardinality part `cardL` (FullDefs.lean) and the constraints
of the data nodes the specification visits (`Reach`): the data nodes of the level itself and, through choices, those of the cases
that have data.
-/
namespace LyModel.Valid
open LyModel LyModel.Tree

/-! ## unfolding -/

theorem specL_cons (X : SchemaX) (o : VOpts) (k : STree) (ks : List STree) (E : List DNode) :
    specL X o (k :: ks) E = specNode X o k E ++ specL X o ks E := by
  rw [specL]

theorem specCases_cons (X : SchemaX) (o : VOpts) (c : STree) (cs : List STree) (E : List DNode) :
    specCases X o (c :: cs) E = (if hasData E c.dataSids then specNode X o c E else []) ++ specCases X o cs E := by
  rw [specCases]

theorem specNode_case (X : SchemaX) (o : VOpts) (E : List DNode) {s : Nat} {i : SNode} {ks : List STree} (hk : i.kind = .case) :
    specNode X o (.mk s i ks) E = specL X o ks E := by
  rw [specNode]
  simp only [hk]

theorem specNode_case' (X : SchemaX) (o : VOpts) (E : List DNode) {c : STree} (hk : c.info.kind = .case) :
    specNode X o c E = specL X o c.kids E := by
  cases c with
  | mk s i ks => exact specNode_case X o E hk

theorem cardNode_case' (o : VOpts) (E : List DNode) {c : STree} (hk : c.info.kind = .case) :
    cardNode o E c = cardL o E c.kids := by
  cases c with
  | mk s i ks => exact cardNode_case o E hk

theorem specNode_choice (X : SchemaX) (o : VOpts) (E : List DNode) {s : Nat} {i : SNode} {ks : List STree} (hk : i.kind = .choice) :
    specNode X o (.mk s i ks) E =
      (if (ks.filter fun cs => hasData E cs.dataSids).length > 1 then [.dupCase] else [])
        ++ (if !(o.noState && !i.config) && i.mandatory && (ks.filter fun cs => hasData E cs.dataSids).isEmpty then [.noMandChoice]
            else [])
        ++ specCases X o ks E := by
  rw [specNode]
  simp only [hk]

theorem cardNode_choice (o : VOpts) (E : List DNode) {s : Nat} {i : SNode} {ks : List STree} (hk : i.kind = .choice) :
    cardNode o E (.mk s i ks) =
      (if (ks.filter fun cs => hasData E cs.dataSids).length > 1 then [.dupCase] else [])
        ++ (if !(o.noState && !i.config) && i.mandatory && (ks.filter fun cs => hasData E cs.dataSids).isEmpty then [.noMandChoice]
            else [])
        ++ cardCases o E ks := by
  rw [cardNode]
  simp only [hk]

theorem mem_specCases (X : SchemaX) (o : VOpts) (E : List DNode) (K : EKind) : ∀ (cs : List STree),
    K ∈ specCases X o cs E ↔ ∃ c ∈ cs, hasData E c.dataSids = true ∧ K ∈ specNode X o c E := by
  intro cs
  induction cs with
  | nil => simp [specCases]
  | cons c rest ih =>
    rw [specCases_cons, List.mem_append, ih]
    constructor
    · rintro (h | ⟨c', hc', h⟩)
      · split at h
        · rename_i hd; exact ⟨c, List.mem_cons_self .., hd, h⟩
        · cases h
      · exact ⟨c', List.mem_cons_of_mem _ hc', h⟩
    · rintro ⟨c', hc', hd, h⟩
      cases hc' with
      | head => left; rw [if_pos hd]; exact h
      | tail _ hc' => exact Or.inr ⟨c', hc', hd, h⟩

theorem mem_cardL (o : VOpts) (E : List DNode) (K : EKind) : ∀ (sk : List STree),
    K ∈ cardL o E sk ↔ ∃ k ∈ sk, K ∈ cardNode o E k := by
  intro sk
  induction sk with
  | nil => simp [cardL]
  | cons k ks ih => rw [cardL_cons]; simp [List.mem_append, ih]

theorem mem_cardCases (o : VOpts) (E : List DNode) (K : EKind) : ∀ (cs : List STree),
    K ∈ cardCases o E cs ↔ ∃ c ∈ cs, hasData E c.dataSids = true ∧ K ∈ cardNode o E c := by
  intro cs
  induction cs with
  | nil => simp [cardCases]
  | cons c rest ih =>
    rw [cardCases_cons, List.mem_append, ih]
    constructor
    · rintro (h | ⟨c', hc', h⟩)
      · split at h
        · rename_i hd; exact ⟨c, List.mem_cons_self .., hd, h⟩
        · cases h
      · exact ⟨c', List.mem_cons_of_mem _ hc', h⟩
    · rintro ⟨c', hc', hd, h⟩
      cases hc' with
      | head => left; rw [if_pos hd]; exact h
      | tail _ hc' => exact Or.inr ⟨c', hc', hd, h⟩

/-! ## the data nodes the specification visits on one level -/

theorem Reach.data {H : Nat → Bool} {sk : List STree} {k : STree} (h : Reach H sk k) :
    k.info.kind ≠ .choice ∧ k.info.kind ≠ .case := by
  induction h with
  | here _ h1 h2 => exact ⟨h1, h2⟩
  | through _ _ _ _ _ _ ih => exact ih

theorem Reach.mono {H : Nat → Bool} {sk sk' : List STree} {k : STree} (hs : ∀ x ∈ sk, x ∈ sk') (h : Reach H sk k) : Reach H sk' k := by
  cases h with
  | here hm h1 h2 => exact Reach.here (hs _ hm) h1 h2
  | through hm hch hc hck hd hr => exact Reach.through (hs _ hm) hch hc hck hd hr

/-- **S1**: the constraints of a visited node are constraints of the level -/
theorem spec_lift_reach (X : SchemaX) (o : VOpts) (E : List DNode) {sk : List STree} {k : STree} (h : Reach (hasInst E) sk k) :
    ∀ K ∈ specNode X o k E, K ∈ specL X o sk E := by
  induction h with
  | here hm _ _ => intro K hK; exact (mem_specL X o E K _).2 ⟨_, hm, hK⟩
  | @through sk ch c k hm hch hc hck hd _ ih =>
    intro K hK
    have h1 : K ∈ specNode X o c E := by rw [specNode_case' X o E hck]; exact ih K hK
    have h2 : K ∈ specNode X o ch E := by
      cases ch with
      | mk s i ks =>
        have hch : i.kind = .choice := hch
        rw [specNode_choice X o E hch, List.mem_append]
        right
        exact (mem_specCases X o E K ks).2 ⟨c, hc, by rw [hasData_eq_any]; exact hd, h1⟩
    exact (mem_specL X o E K _).2 ⟨ch, hm, h2⟩

/-- the cardinality constraints of a visited node are cardinality constraints of the level -/
theorem cardL_of_reach (o : VOpts) (E : List DNode) {sk : List STree} {k : STree} (h : Reach (hasInst E) sk k) :
    ∀ K ∈ cardNode o E k, K ∈ cardL o E sk := by
  induction h with
  | here hm _ _ => intro K hK; exact (mem_cardL o E K _).2 ⟨_, hm, hK⟩
  | @through sk ch c k hm hch hc hck hd _ ih =>
    intro K hK
    have h1 : K ∈ cardNode o E c := by rw [cardNode_case' o E hck]; exact ih K hK
    have h2 : K ∈ cardNode o E ch := by
      cases ch with
      | mk s i ks =>
        have hch : i.kind = .choice := hch
        rw [cardNode_choice o E hch, List.mem_append]
        right
        exact (mem_cardCases o E K ks).2 ⟨c, hc, by rw [hasData_eq_any]; exact hd, h1⟩
    exact (mem_cardL o E K _).2 ⟨ch, hm, h2⟩

/-! ## S3: the cardinality part is part of the specification -/

mutual
theorem card_sub_spec_T (X : SchemaX) (o : VOpts) (E : List DNode) : ∀ (t : STree), ∀ K ∈ cardNode o E t, K ∈ specNode X o t E
  | .mk s i ks => by
    intro K h
    cases hk : i.kind with
    | leaf =>
      rw [cardNode] at h; rw [specNode]
      simp only [hk] at h ⊢
      simp only [List.mem_append]
      exact Or.inl (Or.inr h)
    | leaflist =>
      rw [cardNode] at h; rw [specNode]
      simp only [hk] at h ⊢
      simp only [List.mem_append] at h ⊢
      rcases h with h | h
      · exact Or.inl (Or.inl (Or.inr h))
      · exact Or.inl (Or.inr h)
    | list =>
      rw [cardNode] at h; rw [specNode]
      simp only [hk] at h ⊢
      simp only [List.mem_append] at h ⊢
      rcases h with h | h
      · exact Or.inl (Or.inl (Or.inl (Or.inr h)))
      · exact Or.inl (Or.inl (Or.inr h))
    | container =>
      rw [cardNode] at h
      simp only [hk] at h
      cases h
    | choice =>
      rw [cardNode_choice o E hk] at h
      rw [specNode_choice X o E hk]
      simp only [List.mem_append] at h ⊢
      rcases h with h | h
      · exact Or.inl h
      · exact Or.inr (card_sub_spec_Cs X o E ks K h)
    | case =>
      rw [cardNode_case o E hk] at h
      rw [specNode_case X o E hk]
      exact card_sub_spec X o E ks K h
/-- **S3** -/
theorem card_sub_spec (X : SchemaX) (o : VOpts) (E : List DNode) : ∀ (sk : List STree), ∀ K ∈ cardL o E sk, K ∈ specL X o sk E
  | [] => by intro K h; rw [cardL] at h; cases h
  | k :: ks => by
    intro K h
    rw [cardL_cons, List.mem_append] at h
    rw [specL_cons, List.mem_append]
    rcases h with h | h
    · exact Or.inl (card_sub_spec_T X o E k K h)
    · exact Or.inr (card_sub_spec X o E ks K h)
theorem card_sub_spec_Cs (X : SchemaX) (o : VOpts) (E : List DNode) : ∀ (cs : List STree), ∀ K ∈ cardCases o E cs, K ∈ specCases X o cs E
  | [] => by intro K h; rw [cardCases] at h; cases h
  | c :: rest => by
    intro K h
    rw [cardCases_cons, List.mem_append] at h
    rw [specCases_cons, List.mem_append]
    rcases h with h | h
    · left
      split at h
      · rename_i hd; rw [if_pos hd]; exact card_sub_spec_T X o E c K h
      · cases h
    · exact Or.inr (card_sub_spec_Cs X o E rest K h)
end

/-! ## S6: the constraints of a data node, clause by clause -/

theorem mem_if_pos {c : Prop} [Decidable c] {a K : EKind} : K ∈ (if c then [a] else []) ↔ K = a ∧ c := by
  split
  · rename_i h; simp [h]
  · rename_i h; simp [h]

theorem mem_if_neg {c : Prop} [Decidable c] {a K : EKind} : K ∈ (if c then [] else [a]) ↔ K = a ∧ ¬ c := by
  split
  · rename_i h; simp [h]
  · rename_i h; simp [h]

theorem specNode_leaf_mem (X : SchemaX) (o : VOpts) (E : List DNode) (K : EKind) {s : Nat} {i : SNode} {ks : List STree}
    (h : i.kind = .leaf) :
    K ∈ specNode X o (.mk s i ks) E ↔
      (K = .unexpState ∧ (o.noState && !i.config) = true ∧ instsOf E s ≠ []) ∨
      (K = .dup ∧ 1 < (instsOf E s).length) ∨
      (K = .noMand ∧ (o.noState && !i.config) = false ∧ i.mandatory = true ∧ instsOf E s = []) ∨
      (K = .badValue ∧ ¬ ∀ n ∈ instsOf E s, typeOk i.ty n.val = true) := by
  rw [specNode]
  simp only [h, List.mem_append, mem_if_pos, mem_if_neg, or_assoc]
  generalize (o.noState && !i.config) = st
  refine or_congr (and_congr_right fun _ => ?_) (or_congr Iff.rfl (or_congr (and_congr_right fun _ => ?_)
    (and_congr_right fun _ => ?_)))
  · simp
  · simp [and_assoc]
  · simp

theorem specNode_leaflist_mem (X : SchemaX) (o : VOpts) (E : List DNode) (K : EKind) {s : Nat} {i : SNode} {ks : List STree}
    (h : i.kind = .leaflist) :
    K ∈ specNode X o (.mk s i ks) E ↔
      (K = .unexpState ∧ (o.noState && !i.config) = true ∧ instsOf E s ≠ []) ∨
      (K = .dup ∧ i.config = true ∧ pairwiseNe (fun a b : DNode => a.val == b.val) (instsOf E s) = false) ∨
      (K = .noMin ∧ (o.noState && !i.config) = false ∧ (instsOf E s).length < i.min) ∨
      (K = .noMax ∧ (o.noState && !i.config) = false ∧ i.max ≠ 0 ∧ i.max < (instsOf E s).length) ∨
      (K = .badValue ∧ ¬ ∀ n ∈ instsOf E s, typeOk i.ty n.val = true) := by
  rw [specNode]
  simp only [h, List.mem_append, mem_if_pos, mem_if_neg, or_assoc]
  generalize (o.noState && !i.config) = st
  refine or_congr (and_congr_right fun _ => ?_) (or_congr (and_congr_right fun _ => ?_) (or_congr (and_congr_right fun _ => ?_)
    (or_congr (and_congr_right fun _ => ?_) (and_congr_right fun _ => ?_))))
  · simp
  · simp
  · simp
  · simp [and_assoc]
  · simp

theorem specNode_container_mem (X : SchemaX) (o : VOpts) (E : List DNode) (K : EKind) {s : Nat} {i : SNode} {ks : List STree}
    (h : i.kind = .container) :
    K ∈ specNode X o (.mk s i ks) E ↔
      (K = .unexpState ∧ (o.noState && !i.config) = true ∧ instsOf E s ≠ []) ∨
      (K = .dup ∧ 1 < (instsOf E s).length) ∨
      (∃ e ∈ instsOf E s, K ∈ specL X o ks e.kids) ∨
      (i.presence = false ∧ instsOf E s = [] ∧ K ∈ specL X o ks []) := by
  rw [specNode]
  simp only [h, List.mem_append, mem_if_pos, or_assoc]
  generalize (o.noState && !i.config) = st
  refine or_congr (and_congr_right fun _ => ?_) (or_congr Iff.rfl ?_)
  · simp
  · cases hp : i.presence with
    | true => simp [List.mem_flatMap]
    | false =>
      by_cases he : instsOf E s = []
      · simp [he]
      · have he' : (instsOf E s).isEmpty = false := by simpa using he
        simp [he, he', List.mem_flatMap]

theorem specNode_list_mem (X : SchemaX) (o : VOpts) (E : List DNode) (K : EKind) {s : Nat} {i : SNode} {ks : List STree}
    (h : i.kind = .list) :
    K ∈ specNode X o (.mk s i ks) E ↔
      (K = .unexpState ∧ (o.noState && !i.config) = true ∧ instsOf E s ≠ []) ∨
      (K = .noKey ∧ ¬ ∀ e ∈ instsOf E s, keysPresent X.base s e.kids = true) ∨
      (K = .dup ∧ i.nkeys ≠ 0 ∧ pairwiseNe (fun a b : DNode => keyVals X.base a == keyVals X.base b) (instsOf E s) = false) ∨
      (K = .noMin ∧ (o.noState && !i.config) = false ∧ (instsOf E s).length < i.min) ∨
      (K = .noMax ∧ (o.noState && !i.config) = false ∧ i.max ≠ 0 ∧ i.max < (instsOf E s).length) ∨
      (K = .noUniq ∧ (o.noState && !i.config) = false ∧ ¬ ∀ u ∈ X.uniquesOf s, uniqueOk (.mk s i ks) u (instsOf E s) = true) ∨
      (∃ e ∈ instsOf E s, K ∈ specL X o ks e.kids) := by
  rw [specNode]
  simp only [h, List.mem_append, mem_if_pos, mem_if_neg, or_assoc]
  generalize (o.noState && !i.config) = st
  refine or_congr (and_congr_right fun _ => ?_) (or_congr (and_congr_right fun _ => ?_) (or_congr (and_congr_right fun _ => ?_)
    (or_congr (and_congr_right fun _ => ?_) (or_congr (and_congr_right fun _ => ?_) (or_congr (and_congr_right fun _ => ?_) ?_)))))
  · simp
  · simp [keysOk, STree.sid]
  · simp
  · simp
  · simp [and_assoc]
  · simp
  · simp [List.mem_flatMap]

theorem cardNode_leaf_mem (o : VOpts) (E : List DNode) (K : EKind) {s : Nat} {i : SNode} {ks : List STree} (h : i.kind = .leaf) :
    K ∈ cardNode o E (.mk s i ks) ↔
      (K = .noMand ∧ (o.noState && !i.config) = false ∧ i.mandatory = true ∧ instsOf E s = []) := by
  rw [cardNode]
  simp only [h, mem_if_pos]
  generalize (o.noState && !i.config) = st
  refine and_congr_right fun _ => ?_
  simp [and_assoc]

theorem cardNode_leaflist_mem (o : VOpts) (E : List DNode) (K : EKind) {s : Nat} {i : SNode} {ks : List STree}
    (h : i.kind = .leaflist) :
    K ∈ cardNode o E (.mk s i ks) ↔
      (K = .noMin ∧ (o.noState && !i.config) = false ∧ (instsOf E s).length < i.min) ∨
      (K = .noMax ∧ (o.noState && !i.config) = false ∧ i.max ≠ 0 ∧ i.max < (instsOf E s).length) := by
  rw [cardNode]
  simp only [h, List.mem_append, mem_if_pos]
  generalize (o.noState && !i.config) = st
  refine or_congr (and_congr_right fun _ => ?_) (and_congr_right fun _ => ?_)
  · simp
  · simp [and_assoc]

theorem cardNode_list_mem (o : VOpts) (E : List DNode) (K : EKind) {s : Nat} {i : SNode} {ks : List STree} (h : i.kind = .list) :
    K ∈ cardNode o E (.mk s i ks) ↔
      (K = .noMin ∧ (o.noState && !i.config) = false ∧ (instsOf E s).length < i.min) ∨
      (K = .noMax ∧ (o.noState && !i.config) = false ∧ i.max ≠ 0 ∧ i.max < (instsOf E s).length) := by
  rw [cardNode]
  simp only [h, List.mem_append, mem_if_pos]
  generalize (o.noState && !i.config) = st
  refine or_congr (and_congr_right fun _ => ?_) (and_congr_right fun _ => ?_)
  · simp
  · simp [and_assoc]

theorem cardNode_container (o : VOpts) (E : List DNode) {s : Nat} {i : SNode} {ks : List STree} (h : i.kind = .container) :
    cardNode o E (.mk s i ks) = [] := by
  rw [cardNode]
  simp only [h]

/-! ## S2: the specification of a level = cardinality part + the visited data nodes -/

theorem kindsOk_kids {t : STree} (h : kindsOk t = true) : kindsOkL t.kids = true := by
  cases t with
  | mk s i ks =>
    rw [kindsOk_mk] at h
    simp only [Bool.and_eq_true] at h
    exact h.2

theorem Reach.of_singleton {H : Nat → Bool} {t k : STree} {sk : List STree} (ht : t ∈ sk) (h : Reach H [t] k) : Reach H sk k :=
  h.mono (fun x hx => by rw [List.mem_singleton] at hx; rw [hx]; exact ht)

mutual
theorem spec_decomp_T (X : SchemaX) (o : VOpts) (E : List DNode) : ∀ (t : STree), kindsOk t = true →
    (noCaseT t = true → ∀ K ∈ specNode X o t E,
      K ∈ cardNode o E t ∨ ∃ k, Reach (hasInst E) [t] k ∧ K ∈ specNode X o k E) ∧
    (t.info.kind = .case → noCaseK t = true → ∀ K ∈ specNode X o t E,
      K ∈ cardNode o E t ∨ ∃ k, Reach (hasInst E) t.kids k ∧ K ∈ specNode X o k E)
  | .mk s i ks, hk => by
    have hk0 := hk
    rw [kindsOk_mk] at hk
    simp only [Bool.and_eq_true] at hk
    have ihL := spec_decomp_L X o E ks hk.2
    constructor
    · intro hnc K h
      rw [noCaseT] at hnc
      simp only [Bool.and_eq_true, bne_iff_ne, ne_eq, Bool.or_eq_true] at hnc
      by_cases hch : i.kind = .choice
      · rw [specNode_choice X o E hch] at h
        rw [cardNode_choice o E hch]
        simp only [List.mem_append] at h ⊢
        rcases h with h | h
        · exact Or.inl (Or.inl h)
        · rcases ihL.2 (choice_cases_kind hk0 hch) (hnc.2.resolve_left (fun hne => hne hch)) K h with h | ⟨c, hc, hd, k, hr, hK⟩
          · exact Or.inl (Or.inr h)
          · exact Or.inr ⟨k, Reach.through (List.mem_singleton.2 rfl) hch hc (choice_cases_kind hk0 hch c hc) hd hr, hK⟩
      · exact Or.inr ⟨_, Reach.here (List.mem_singleton.2 rfl) hch hnc.1, h⟩
    · intro hc hnc K h
      have hc : i.kind = .case := hc
      rw [noCaseK] at hnc
      rw [specNode_case X o E hc] at h
      rw [cardNode_case o E hc]
      exact ihL.1 hnc K h
theorem spec_decomp_L (X : SchemaX) (o : VOpts) (E : List DNode) : ∀ (ks : List STree), kindsOkL ks = true →
    (noCaseL ks = true → ∀ K ∈ specL X o ks E,
      K ∈ cardL o E ks ∨ ∃ k, Reach (hasInst E) ks k ∧ K ∈ specNode X o k E) ∧
    ((∀ c ∈ ks, c.info.kind = .case) → noCaseCs ks = true → ∀ K ∈ specCases X o ks E,
      K ∈ cardCases o E ks ∨
        ∃ c ∈ ks, c.dataSids.any (hasInst E) = true ∧ ∃ k, Reach (hasInst E) c.kids k ∧ K ∈ specNode X o k E)
  | [], _ => by
    constructor
    · intro _ K h; rw [specL] at h; cases h
    · intro _ _ K h; rw [specCases] at h; cases h
  | t :: rest, hk => by
    rw [kindsOkL_cons] at hk
    simp only [Bool.and_eq_true] at hk
    have ihT := spec_decomp_T X o E t hk.1
    have ihL := spec_decomp_L X o E rest hk.2
    constructor
    · intro hnc K h
      rw [noCaseL, Bool.and_eq_true] at hnc
      rw [specL_cons, List.mem_append] at h
      rw [cardL_cons, List.mem_append]
      rcases h with h | h
      · rcases ihT.1 hnc.1 K h with h | ⟨k, hr, hK⟩
        · exact Or.inl (Or.inl h)
        · exact Or.inr ⟨k, hr.of_singleton (List.mem_cons_self ..), hK⟩
      · rcases ihL.1 hnc.2 K h with h | ⟨k, hr, hK⟩
        · exact Or.inl (Or.inr h)
        · exact Or.inr ⟨k, hr.mono (fun x hx => List.mem_cons_of_mem _ hx), hK⟩
    · intro hc hnc K h
      rw [noCaseCs, Bool.and_eq_true] at hnc
      rw [specCases_cons, List.mem_append] at h
      rw [cardCases_cons, List.mem_append]
      rcases h with h | h
      · split at h
        · rename_i hd
          rcases ihT.2 (hc t (List.mem_cons_self ..)) hnc.1 K h with h | ⟨k, hr, hK⟩
          · left; left; rw [if_pos hd]; exact h
          · exact Or.inr ⟨t, List.mem_cons_self .., by rw [← hasData_eq_any]; exact hd, k, hr, hK⟩
        · cases h
      · rcases ihL.2 (fun c hcm => hc c (List.mem_cons_of_mem _ hcm)) hnc.2 K h with h | ⟨c, hcm, hd, k, hr, hK⟩
        · exact Or.inl (Or.inr h)
        · exact Or.inr ⟨c, List.mem_cons_of_mem _ hcm, hd, k, hr, hK⟩
end

/-- **S2**: a violated constraint of a level (well-kinded, every `case` the child of a `choice`) is a cardinality constraint of the
level or a constraint of a data node the specification visits -/
theorem spec_decomp (X : SchemaX) (o : VOpts) (E : List DNode) {sk : List STree} (hk : kindsOkL sk = true) (hnc : noCaseL sk = true) :
    ∀ K ∈ specL X o sk E, K ∈ cardL o E sk ∨
      ∃ k, Reach (hasInst E) sk k ∧ K ∈ specNode X o k E ∧ k.info.kind ≠ .choice ∧ k.info.kind ≠ .case := by
  intro K h
  rcases (spec_decomp_L X o E sk hk).1 hnc K h with h | ⟨k, hr, hK⟩
  · exact Or.inl h
  · exact Or.inr ⟨k, hr, hK, hr.data⟩

/-- S1 + S2 + S3: membership in the specification of a level -/
theorem mem_specL_iff (X : SchemaX) (o : VOpts) (E : List DNode) {sk : List STree} (hk : kindsOkL sk = true) (hnc : noCaseL sk = true)
    (K : EKind) : K ∈ specL X o sk E ↔ K ∈ cardL o E sk ∨ ∃ k, Reach (hasInst E) sk k ∧ K ∈ specNode X o k E := by
  constructor
  · intro h
    rcases spec_decomp X o E hk hnc K h with h | ⟨k, hr, hK, _⟩
    · exact Or.inl h
    · exact Or.inr ⟨k, hr, hK⟩
  · rintro (h | ⟨k, hr, hK⟩)
    · exact card_sub_spec X o E sk K h
    · exact spec_lift_reach X o E hr K hK

/-! ## S4: the instances of a level are instances of visited nodes -/

mutual
theorem reach_of_mem_T (H : Nat → Bool) : ∀ (t : STree), kindsOk t = true →
    (noCaseT t = true → ∀ sid ∈ t.dataSids, H sid = true → ∃ k, Reach H [t] k ∧ k.sid = sid) ∧
    (t.info.kind = .case → noCaseK t = true → ∀ sid ∈ dataSidsL t.kids, H sid = true → ∃ k, Reach H t.kids k ∧ k.sid = sid)
  | .mk s i ks, hk => by
    have hk0 := hk
    rw [kindsOk_mk] at hk
    simp only [Bool.and_eq_true] at hk
    have ihL := reach_of_mem_L H ks hk.2
    constructor
    · intro hnc sid hs hH
      rw [noCaseT] at hnc
      simp only [Bool.and_eq_true, bne_iff_ne, ne_eq, Bool.or_eq_true] at hnc
      by_cases hch : i.kind = .choice
      · rw [dataSids_choice hch] at hs
        obtain ⟨c, hc, hd, k, hr, hks⟩ := ihL.2 (choice_cases_kind hk0 hch) (hnc.2.resolve_left (fun hne => hne hch)) sid hs hH
        exact ⟨k, Reach.through (List.mem_singleton.2 rfl) hch hc (choice_cases_kind hk0 hch c hc) hd hr, hks⟩
      · have hd : (STree.mk s i ks).dataSids = [s] := dataSids_data (k := .mk s i ks) hch hnc.1
        rw [hd, List.mem_singleton] at hs
        exact ⟨_, Reach.here (List.mem_singleton.2 rfl) hch hnc.1, hs.symm⟩
    · intro _ hnc sid hs hH
      rw [noCaseK] at hnc
      exact ihL.1 hnc sid hs hH
theorem reach_of_mem_L (H : Nat → Bool) : ∀ (ks : List STree), kindsOkL ks = true →
    (noCaseL ks = true → ∀ sid ∈ dataSidsL ks, H sid = true → ∃ k, Reach H ks k ∧ k.sid = sid) ∧
    ((∀ c ∈ ks, c.info.kind = .case) → noCaseCs ks = true → ∀ sid ∈ dataSidsL ks, H sid = true →
      ∃ c ∈ ks, c.dataSids.any H = true ∧ ∃ k, Reach H c.kids k ∧ k.sid = sid)
  | [], _ => by
    constructor
    · intro _ sid hs; rw [dataSidsL_nil] at hs; cases hs
    · intro _ _ sid hs; rw [dataSidsL_nil] at hs; cases hs
  | t :: rest, hk => by
    rw [kindsOkL_cons] at hk
    simp only [Bool.and_eq_true] at hk
    have ihT := reach_of_mem_T H t hk.1
    have ihL := reach_of_mem_L H rest hk.2
    constructor
    · intro hnc sid hs hH
      rw [noCaseL, Bool.and_eq_true] at hnc
      rw [dataSidsL_cons, List.mem_append] at hs
      rcases hs with hs | hs
      · obtain ⟨k, hr, hks⟩ := ihT.1 hnc.1 sid hs hH
        exact ⟨k, hr.of_singleton (List.mem_cons_self ..), hks⟩
      · obtain ⟨k, hr, hks⟩ := ihL.1 hnc.2 sid hs hH
        exact ⟨k, hr.mono (fun x hx => List.mem_cons_of_mem _ hx), hks⟩
    · intro hc hnc sid hs hH
      rw [noCaseCs, Bool.and_eq_true] at hnc
      rw [dataSidsL_cons, List.mem_append] at hs
      rcases hs with hs | hs
      · have htc := hc t (List.mem_cons_self ..)
        obtain ⟨k, hr, hks⟩ := ihT.2 htc hnc.1 sid (by rw [← dataSids_case htc]; exact hs) hH
        exact ⟨t, List.mem_cons_self .., List.any_eq_true.2 ⟨sid, hs, hH⟩, k, hr, hks⟩
      · obtain ⟨c, hcm, hd, k, hr, hks⟩ := ihL.2 (fun c hcm => hc c (List.mem_cons_of_mem _ hcm)) hnc.2 sid hs hH
        exact ⟨c, List.mem_cons_of_mem _ hcm, hd, k, hr, hks⟩
end

/-- **S4**: an instance of a data node of the level (inside any number of cases) makes every case around it have data, so the
specification visits the node -/
theorem reach_of_mem (E : List DNode) {sk : List STree} (hk : kindsOkL sk = true) (hnc : noCaseL sk = true) :
    ∀ sid ∈ dataSidsL sk, hasInst E sid = true → ∃ k, Reach (hasInst E) sk k ∧ k.sid = sid :=
  (reach_of_mem_L (hasInst E) sk hk).1 hnc

mutual
theorem Below.trans' : ∀ {k a : STree}, Below k a → ∀ {l : List STree}, BelowL a l → BelowL k l
  | _, _, .self _, _, h => h
  | _, _, .kid _ s i ks hb, _, h => BelowL.trans' hb (fun _ ha' => BelowL.kid_of_below h ha')
theorem BelowL.trans' : ∀ {k : STree} {as : List STree}, BelowL k as → ∀ {l : List STree}, (∀ a ∈ as, BelowL a l) → BelowL k l
  | _, _, .head _ t ts hb, _, h => Below.trans' hb (h t (List.mem_cons_self ..))
  | _, _, .tail _ t ts hb, _, h => BelowL.trans' hb (fun a ha => h a (List.mem_cons_of_mem _ ha))
end

theorem Reach.belowL {H : Nat → Bool} {sk : List STree} {k : STree} (h : Reach H sk k) : BelowL k sk := by
  induction h with
  | here hm _ _ => exact BelowL.of_mem hm
  | @through sk ch c k hm _ hc _ _ _ ih =>
    have hcb : BelowL c sk := BelowL.kid_of_below (BelowL.of_mem hm) hc
    exact BelowL.trans' ih (fun a ha => BelowL.kid_of_below hcb ha)

theorem Reach.sid_mem {H : Nat → Bool} {sk : List STree} {k : STree} (hk : kindsOkL sk = true) (h : Reach H sk k) :
    k.sid ∈ dataSidsL sk := by
  induction h with
  | here hm h1 h2 =>
    apply dataSids_sub_L hm
    rw [dataSids_data h1 h2]
    exact List.mem_singleton.2 rfl
  | @through sk ch c k hm hch hc hck _ _ ih =>
    have hkch : kindsOk ch = true := kindsOkL_mem hk hm
    have hkc : kindsOk c = true := kindsOkL_mem (kindsOk_kids hkch) hc
    have h1 := ih (kindsOk_kids hkc)
    rw [← dataSids_case hck] at h1
    have h2 : k.sid ∈ ch.dataSids := by
      cases ch with
      | mk s i ks =>
        have hch : i.kind = .choice := hch
        rw [dataSids_choice hch]
        exact dataSids_sub_L hc _ h1
    exact dataSids_sub_L hm _ h2

/-! ## S5: an all-state level asks nothing of an empty sibling list when the content is configuration -/

theorem instsOf_nil (s : Nat) : instsOf [] s = [] := rfl

mutual
theorem spec_state_empty_T (X : SchemaX) (o : VOpts) (hns : o.noState = true) : ∀ (t : STree), t.allState = true →
    specNode X o t [] = []
  | .mk s i ks, ha => by
    rw [STree.allState] at ha
    simp only [Bool.and_eq_true, Bool.not_eq_eq_eq_not, Bool.not_true] at ha
    have ihL := spec_state_empty_L X o hns ks ha.2
    cases hk : i.kind with
    | leaf => rw [specNode]; simp [hk, hns, ha.1, instsOf_nil]
    | leaflist => rw [specNode]; simp [hk, hns, ha.1, instsOf_nil, pairwiseNe]
    | container => rw [specNode]; simp [hk, hns, ha.1, instsOf_nil, ihL.1]
    | list => rw [specNode]; simp [hk, hns, ha.1, instsOf_nil, pairwiseNe, keysOk]
    | choice =>
      have hf : (ks.filter fun cs => hasData [] cs.dataSids) = [] :=
        List.filter_eq_nil_iff.2 (fun c _ => by simp [hasData])
      rw [specNode_choice X o [] hk, ihL.2, hf]
      simp [hns, ha.1]
    | case => rw [specNode_case X o [] hk]; exact ihL.1
theorem spec_state_empty_L (X : SchemaX) (o : VOpts) (hns : o.noState = true) : ∀ (ks : List STree), allStateL ks = true →
    specL X o ks [] = [] ∧ specCases X o ks [] = []
  | [], _ => by rw [specL, specCases]; exact ⟨rfl, rfl⟩
  | t :: rest, ha => by
    rw [allStateL] at ha
    simp only [Bool.and_eq_true] at ha
    have ihT := spec_state_empty_T X o hns t ha.1
    have ihL := spec_state_empty_L X o hns rest ha.2
    rw [specL_cons, specCases_cons, ihT, ihL.1, ihL.2]
    simp
end

/-- **S5** -/
theorem spec_state_empty (X : SchemaX) (o : VOpts) (hns : o.noState = true) : ∀ (ks : List STree), allStateL ks = true →
    specL X o ks [] = [] :=
  fun ks ha => (spec_state_empty_L X o hns ks ha).1

end LyModel.Valid
