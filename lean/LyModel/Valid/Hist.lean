import LyModel.Valid.ValDiff
import LyModel.Valid.WD
/-!
# Histories edit → validate → edit → validate (C07)

The flags `LYD_NEW` / `LYD_DEFAULT` are state carried from one call to the next, so the model runs whole histories:
`Step.create` (nodes built with `lyd_new_*` below an existing node: `LYD_NEW`, `lyd_np_cont_dflt_del` up the parents),
`Step.delete` (`lyd_free_tree`: `lyd_np_cont_dflt_set` on the parent chain), `Step.validate`.
Core Lean only.
-/
namespace LyModel.Valid
open LyModel LyModel.Tree

/-- one step of an address: which child of the current level -/
inductive AStep where
  | plain (sid : Nat)
  | value (sid : Nat) (v : Bytes)
  | keys (sid : Nat) (ks : List Bytes)
  | pos (sid : Nat) (p : Nat)
  deriving Repr, BEq

abbrev Addr := List AStep

inductive Step where
  | create (under : Addr) (sub : List DNode)
  | delete (at_ : Addr)
  | validate
  deriving Repr

def AStep.sid : AStep → Nat
  | .plain s => s | .value s _ => s | .keys s _ => s | .pos s _ => s

/-- index of the child the step names -/
def findStep (S : Schema) (sibs : List DNode) (a : AStep) : Option Nat :=
  match a with
  | .plain s => sibs.findIdx? (·.sid == s)
  | .value s v => sibs.findIdx? fun n => n.sid == s && n.val == v
  | .keys s ks => sibs.findIdx? fun n => n.sid == s && keyVals S n == ks
  | .pos s p =>
    let idxs := (sibs.zipIdx.filter (·.1.sid == s)).map (·.2)
    if p == 0 then none else idxs[p - 1]?

/-- apply `f` to the sibling list at `addr` (`[]` = the top level).  On the way back up `fix` sees every node of the path,
innermost first, as long as the previous one asked to go on (the `while (parent …)` loops of `lyd_np_cont_dflt_set/del`) -/
def atAddr (S : Schema) (fix : DNode → DNode × Bool) (f : List DNode → Option (List DNode × Bool)) :
    Addr → List DNode → Option (List DNode × Bool)
  | [], sibs => f sibs
  | a :: rest, sibs =>
    match findStep S sibs a with
    | none => none
    | some i =>
      match sibs[i]? with
      | some (.inner s fl m ks) =>
        match atAddr S fix f rest ks with
        | some (ks', go) =>
          let n := DNode.inner s fl m ks'
          if go then
            let r := fix n
            some (sibs.set i r.1, r.2)
          else some (sibs.set i n, false)
        | none => none
      | _ => none

/-- `lyd_np_cont_dflt_del(parent)`: clear the flag while the parents have it -/
def npDel (n : DNode) : DNode × Bool := if n.flags.dflt then (n.setDflt false, true) else (n, false)

/-- `lyd_np_cont_dflt_set(parent)`: a non-presence container without the flag all of whose children are default gets it, and
its parent is looked at next -/
def npSetUp (S : Schema) (n : DNode) : DNode × Bool :=
  if S.isNpCont n.sid && !n.flags.dflt && n.kids.all (·.flags.dflt) then (n.setDflt true, true) else (n, false)

/-- `lyd_new_*` of a whole subtree below a parent: the parent chain loses its default flag when something explicit arrives -/
def applyCreate (S : Schema) (under : Addr) (sub : List DNode) (t : List DNode) : Option (List DNode) :=
  let fresh := freshL S sub
  let explicit := fresh.any (!·.flags.dflt)
  (atAddr S npDel (fun sibs => some (fresh.foldl (fun acc n => insertNode S acc n) sibs, explicit)) under t).map (·.1)

/-- `lyd_free_tree(node)`: unlink, `lyd_np_cont_dflt_set` on the parent chain -/
def applyDelete (S : Schema) (addr : Addr) (t : List DNode) : Option (List DNode) :=
  match addr.getLast? with
  | some last =>
    (atAddr S (npSetUp S) (fun sibs => (findStep S sibs last).map fun i => (sibs.eraseIdx i, true)) addr.dropLast t).map (·.1)
  | none => none

/-! ## parsing the protocol tokens -/

def parseAStep (s : String) : Option AStep :=
  match s.splitOn "=" with
  | [a, v] => do pure (.value (← a.toNat?) (← Hex.dec v))
  | _ =>
    match s.splitOn "#" with
    | [a, p] => do pure (.pos (← a.toNat?) (← p.toNat?))
    | _ =>
      match s.splitOn "[" with
      | [a, ks] => do
        let body := (ks.splitOn "]").headD ""
        pure (.keys (← a.toNat?) (← (body.splitOn ",").mapM Hex.dec))
      | _ => (s.toNat?).map .plain

def parseAddr (s : String) : Option Addr :=
  if s == "-" then some [] else (s.splitOn "/").mapM parseAStep

def parseStep (S : Schema) (tok : String) : Option Step :=
  if tok == "V" then some .validate
  else match tok.splitOn ":" with
    | ["C", a, d] => do pure (.create (← parseAddr a) (← forestOfHex S d))
    | ["D", a] => do
      let ad ← parseAddr a
      if ad.isEmpty then none else pure (.delete ad)
    | _ => none

/-! ## observations of one validation -/

mutual
def isDefaultBitsN (S : Schema) : DNode → String
  | .inner _ _ _ ks => "0" ++ isDefaultBitsL S ks
  | .term s f m v => if isDefault S (.term s f m v) then "1" else "0"
def isDefaultBitsL (S : Schema) : List DNode → String
  | [] => ""
  | n :: ns => isDefaultBitsN S n ++ isDefaultBitsL S ns
end

def printModes : List Nat := [0, 16, 32, 64, 128].flatMap fun m => [m, m + 4]

/-- the observation tokens of validation number `i` -/
def observe (X : SchemaX) (o : VOpts) (i : Nat) (r : VResult) (v : Verdict) : List String :=
  let S := X.base
  let si := toString i
  if !v.errs.isEmpty then ["E" ++ si ++ "=" ++ ";".intercalate v.errs]
  else
    let bits := isDefaultBitsL S r.tree
    ["T" ++ si ++ "=" ++ dumpTok r.tree,
     "D" ++ si ++ "=" ++ dumpTok (Diff.stripNpL S v.diff),
     "F" ++ si ++ "=" ++ (if bits.isEmpty then "-" else bits)]
    ++ printModes.map fun m => "W" ++ si ++ "." ++ toString m ++ "=" ++ dumpTok (printedL S (POpts.ofNat m) r.tree)

/-- run the history; the observation tokens, or `BadStep<k>` where a step cannot be carried out -/
def runHist (X : SchemaX) (o : VOpts) : (steps : List Step) → (k vi : Nat) → (t : List DNode) → List String
  | [], _, _, _ => []
  | st :: rest, k, vi, t =>
    match st with
    | .create under sub =>
      match applyCreate X.base under sub t with
      | some t' => runHist X o rest (k + 1) vi t'
      | none => ["BadStep" ++ toString k]
    | .delete a =>
      match applyDelete X.base a t with
      | some t' => runHist X o rest (k + 1) vi t'
      | none => ["BadStep" ++ toString k]
    | .validate =>
      let r := validate X o t
      let v := judge X.base o.multiError r.log
      let obs := observe X o vi r v
      if v.errs.isEmpty then obs ++ runHist X o rest (k + 1) (vi + 1) r.tree else obs

end LyModel.Valid
