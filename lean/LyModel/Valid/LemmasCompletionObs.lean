import LyModel.Valid.LemmasCompletionNoChoice
/-!
# Lemmas for C07 `implicit_exact_tree`: the RFC completion respects the observation `obsL` (every schema, choices included), and the
explicit part of fresh data is the data itself up to `obsL`
-/
namespace LyModel.Valid
open LyModel LyModel.Tree

theorem obsL_cons_inj (S : Schema) {x y : DNode} {xs ys : List DNode} (h : obsL S (x :: xs) = obsL S (y :: ys)) :
    obsN S x = obsN S y ∧ obsL S xs = obsL S ys := by
  simp only [obsL, List.cons.injEq] at h
  exact h

theorem obs_sid_eq (S : Schema) {x y : DNode} (h : obsN S x = obsN S y) : x.sid = y.sid := by
  have := congrArg DNode.sid h
  simpa using this

theorem hasInst_obs (S : Schema) : ∀ (l l' : List DNode), obsL S l = obsL S l' → ∀ sid, hasInst l sid = hasInst l' sid
  | [], [], _, _ => rfl
  | [], _ :: _, h, _ => by simp [obsL] at h
  | _ :: _, [], h, _ => by simp [obsL] at h
  | x :: xs, y :: ys, h, sid => by
    obtain ⟨h1, h2⟩ := obsL_cons_inj S h
    simp only [hasInst, List.any_cons, obs_sid_eq S h1]
    have := hasInst_obs S xs ys h2 sid
    simp only [hasInst] at this
    rw [this]

theorem hasData_obs (S : Schema) : ∀ (l l' : List DNode), obsL S l = obsL S l' → ∀ ds, hasData l ds = hasData l' ds
  | [], [], _, _ => rfl
  | [], _ :: _, h, _ => by simp [obsL] at h
  | _ :: _, [], h, _ => by simp [obsL] at h
  | x :: xs, y :: ys, h, ds => by
    obtain ⟨h1, h2⟩ := obsL_cons_inj S h
    simp only [hasData, List.any_cons, inSids, obs_sid_eq S h1]
    have := hasData_obs S xs ys h2 ds
    simp only [hasData, inSids] at this
    rw [this]

theorem obsL_map_congr (S : Schema) (F G : DNode → DNode) : ∀ (l l' : List DNode), obsL S l = obsL S l' →
    (∀ x y, obsN S x = obsN S y → obsN S (F x) = obsN S (G y)) → obsL S (l.map F) = obsL S (l'.map G)
  | [], [], _, _ => rfl
  | [], _ :: _, h, _ => by simp [obsL] at h
  | _ :: _, [], h, _ => by simp [obsL] at h
  | x :: xs, y :: ys, h, hf => by
    obtain ⟨h1, h2⟩ := obsL_cons_inj S h
    simp only [List.map_cons, obsL, hf x y h1, obsL_map_congr S F G xs ys h2 hf]

theorem obsN_setKids_congr (S : Schema) {x y : DNode} (h : obsN S x = obsN S y) {K K' : List DNode} (hK : obsL S K = obsL S K') :
    obsN S (x.setKids K) = obsN S (y.setKids K') := by
  cases x with
  | term s f m v =>
    cases y with
    | term => exact h
    | inner => simp [obsN] at h
  | inner s f m ks =>
    cases y with
    | term => simp [obsN] at h
    | inner s' f' m' ks' =>
      simp only [obsN, DNode.inner.injEq] at h
      obtain ⟨h1, h2, _, _⟩ := h
      subst h1
      simp only [DNode.setKids, obsN, hK]
      rw [h2]

theorem obs_kids_eq (S : Schema) {x y : DNode} (h : obsN S x = obsN S y) : obsL S x.kids = obsL S y.kids := by
  have := congrArg DNode.kids h
  simpa using this

theorem foldl_insert_obs (S : Schema) (sid : Nat) : ∀ (ds : List Bytes) (l l' : List DNode), obsL S l = obsL S l' →
    obsL S (ds.foldl (fun acc d => insertNode S acc (.term sid dfltFlags [] d)) l) =
      obsL S (ds.foldl (fun acc d => insertNode S acc (.term sid dfltFlags [] d)) l')
  | [], _, _, h => h
  | d :: ds, l, l', h => by
    simp only [List.foldl_cons]
    apply foldl_insert_obs S sid ds
    rw [obsL_insertNode, obsL_insertNode, h]

mutual
theorem rfcNode_obs (X : SchemaX) (o : VOpts) : ∀ (k : STree) (l l' : List DNode), obsL X.base l = obsL X.base l' →
    obsL X.base (rfcNode X o k l) = obsL X.base (rfcNode X o k l')
  | .mk s i ks, l, l', h => by
    rw [rfcNode, rfcNode]
    split
    · exact h
    · cases hk : i.kind with
      | leaf =>
        simp only
        rw [hasInst_obs X.base l l' h s]
        cases i.dflts with
        | nil => exact h
        | cons d ds =>
          cases hasInst l' s with
          | true => exact h
          | false => simp only; rw [obsL_insertNode, obsL_insertNode, h]
      | leaflist =>
        simp only
        rw [hasInst_obs X.base l l' h s]
        split
        · exact h
        · exact foldl_insert_obs X.base s _ l l' h
      | container =>
        simp only
        rw [hasInst_obs X.base l l' h s]
        split
        · apply obsL_map_congr X.base _ _ l l' h
          intro x y hxy
          rw [obs_sid_eq X.base hxy]
          split
          · rw [obsN_npSet', obsN_npSet']
            exact obsN_setKids_congr X.base hxy (rfcL_obs X o ks _ _ (obs_kids_eq X.base hxy))
          · exact hxy
        · split
          · exact h
          · rw [obsL_insertNode, obsL_insertNode, h]
      | list =>
        simp only
        apply obsL_map_congr X.base _ _ l l' h
        intro x y hxy
        rw [obs_sid_eq X.base hxy]
        split
        · exact obsN_setKids_congr X.base hxy (rfcL_obs X o ks _ _ (obs_kids_eq X.base hxy))
        · exact hxy
      | choice =>
        simp only
        rw [hasData_obs X.base l l' h]
        exact rfcCases_obs X o i.dfltCase _ ks l l' h
      | case =>
        simp only
        exact rfcL_obs X o ks l l' h
theorem rfcL_obs (X : SchemaX) (o : VOpts) : ∀ (ks : List STree) (l l' : List DNode), obsL X.base l = obsL X.base l' →
    obsL X.base (rfcL X o ks l) = obsL X.base (rfcL X o ks l')
  | [], _, _, h => by rw [rfcL, rfcL]; exact h
  | k :: ks, l, l', h => by
    rw [rfcL, rfcL]
    exact rfcL_obs X o ks _ _ (rfcNode_obs X o k l l' h)
theorem rfcCases_obs (X : SchemaX) (o : VOpts) (dflt : Option String) (anyData : Bool) : ∀ (cs : List STree) (l l' : List DNode),
    obsL X.base l = obsL X.base l' → obsL X.base (rfcCases X o dflt anyData cs l) = obsL X.base (rfcCases X o dflt anyData cs l')
  | [], _, _, h => by rw [rfcCases, rfcCases]; exact h
  | c :: rest, l, l', h => by
    rw [rfcCases, rfcCases, hasData_obs X.base l l' h]
    by_cases hc : (if anyData = true then hasData l' c.dataSids else dflt == some c.info.name) = true
    · simp only [hc, if_true]
      exact rfcNode_obs X o c l l' h
    · simp only [hc, if_false]
      exact rfcCases_obs X o dflt anyData rest l l' h
end

/-- the explicit part of fresh data is the data itself, up to `obsL` -/
theorem obsL_explicitL_fresh (S : Schema) : ∀ (l : List DNode), freshExplL l = true → obsL S (explicitL l) = obsL S l
  | [], _ => rfl
  | .term s f m v :: xs, h => by
    rw [freshExplL, Bool.and_eq_true] at h
    have hf := h.1
    simp only [freshExplN, Bool.and_eq_true, Bool.not_eq_true'] at hf
    rw [explicitL]
    simp only [explicitNode, hf.2, Bool.false_eq_true, if_false, obsL, obsN, obsL_explicitL_fresh S xs h.2]
  | .inner s f m ks :: xs, h => by
    rw [freshExplL, Bool.and_eq_true] at h
    have hf := h.1
    simp only [freshExplN, Bool.and_eq_true, Bool.not_eq_true'] at hf
    rw [explicitL]
    simp only [explicitNode, hf.1.2, Bool.false_eq_true, if_false, obsL, obsN, obsL_explicitL_fresh S xs h.2,
      obsL_explicitL_fresh S ks hf.2, Bool.and_false]

/-- **`implicit_exact_tree` for schemas without `choice`**: the validated tree of fresh data = `rfcComplete` of the input -/
theorem validate_rfcComplete_nochoice (X : SchemaX) (o : VOpts) (t : List DNode) (hno : o.noState = false) (hD : DataSchema X)
    (hf : freshExplL t = true) (hp : placedL X X.top t = true) (hs : cShapedL X.base t = true)
    (hh : sheightL X.top ≤ walkFuel X t) (hpe : (o.present && t.isEmpty) = false) :
    obsL X.base (validate X o t).tree = obsL X.base (rfcComplete X o t) := by
  rw [validate_rfc_nochoice X o t hno hD hf hp hs hh hpe]
  unfold rfcComplete
  exact rfcL_obs X o X.top _ _ (obsL_explicitL_fresh X.base t hf).symm

end LyModel.Valid
