import LyModel.Valid.FullMain
import LyModel.Valid.FullFinalX
/-!
# C02, full schema language: kind-exact completeness (multi-error statement)

`level_main_exact_of`: when the instance can be built and no choice has data of two cases, every violated constraint FAMILY of the
specification of a level is the kind of an error `lyd_validate` logs for the level or below.  Same induction as
`level_main_complete` (FullComplete.lean), every case producing an error of the kind in question.  The kind-exact completeness of
the schema-based checks of a completed level (`lyd_validate_final_r`) enters as `ExFinal` (proved in FullFinalX.lean: `ex_final`).
-/
namespace LyModel.Valid
open LyModel LyModel.Tree

/-- kind-exact completeness of the schema-based checks of one completed level (cardinality constraints and `unique`) -/
structure ExFinal (X : SchemaX) (o : VOpts) : Prop where
  card : ∀ (cx : Cx) {E L : List DNode}, o.operational = false → LvCnt X.base E L → ∀ (n : Nat) (cks : List STree),
    sheightL cks ≤ n → kindsOkL cks = true → (dataSidsL cks).Nodup → saneL cks = true → Sel o (hasInst E) (hasInst L) cks →
    ∀ K ∈ cardL o E cks, K ≠ .dupCase → (∃ e ∈ (schemaRL X o cx L cks).errs, e.kind = K) ∨ EKind.dupCase ∈ cardL o E cks
  uniq : ∀ (cx : Cx) {E L : List DNode} (n : Nat) (cks : List STree),
    sheightL cks ≤ n → kindsOkL cks = true → (dataSidsL cks).Nodup → saneL cks = true → Sel o (hasInst E) (hasInst L) cks →
    (∀ ch k', BelowL ch cks → Below k' ch → ch.info.config = false → k'.info.config = false) →
    ∀ k, Reach (hasInst E) cks k → k.info.kind = .list → (o.noState && !k.info.config) = false →
    (uniqueOut X o cx L k).errs ≠ [] → (∃ e ∈ (schemaRL X o cx L cks).errs, e.kind = .noUniq) ∨ EKind.dupCase ∈ cardL o E cks

/-! ## which part of `pipeErrs` -/

section parts
variable {X : SchemaX} {o : VOpts} {fuel : Nat} {cx1 cx2 cx3 cxF : Cx} {sk : List STree} {ks : List DNode}

theorem ex_pipe_new {e : VErr} (h : e ∈ (validateNew X o cx1 ks).2.errs) : e ∈ pipeErrs X o fuel cx1 cx2 cx3 cxF sk ks := by
  unfold pipeErrs
  simp only [List.mem_append]
  exact Or.inl (Or.inl (Or.inl h))

theorem ex_pipe_walk {e : VErr}
    (h : e ∈ (walkList (subtreeNode X o fuel cx3) [] (implL X o cx2 sk (validateNew X o cx1 ks).1).1).2.errs) :
    e ∈ pipeErrs X o fuel cx1 cx2 cx3 cxF sk ks := by
  unfold pipeErrs
  simp only [List.mem_append]
  exact Or.inl (Or.inl (Or.inr h))

theorem ex_pipe_level {e : VErr} (h : e ∈ (levelChecks X o cxF (pipeTree X o fuel cx1 cx2 cx3 sk ks)).errs) :
    e ∈ pipeErrs X o fuel cx1 cx2 cx3 cxF sk ks := by
  unfold pipeErrs
  simp only [List.mem_append]
  exact Or.inl (Or.inr h)

theorem ex_pipe_final {e : VErr} (h : e ∈ (finalKids X o cxF [] (pipeTree X o fuel cx1 cx2 cx3 sk ks)).2.errs) :
    e ∈ pipeErrs X o fuel cx1 cx2 cx3 cxF sk ks := by
  unfold pipeErrs
  simp only [List.mem_append]
  exact Or.inr h

end parts

/-- a state node among the siblings under `LYD_VALIDATE_NO_STATE`: an `UnexpState` error -/
theorem ex_nodeChecks_exists (S : Schema) (o : VOpts) (cx : Cx) (hns : o.noState = true) (rest before : List DNode) {n : DNode}
    (hn : n ∈ rest) (hc : S.config n.sid = false) : ∃ e ∈ (nodeChecks S o cx before rest).errs, e.kind = .unexpState := by
  have hne : (nodeChecks S o cx before rest).errs ≠ [] := by
    intro h0
    have := (nodeChecks_nil_iff S o cx rest before).1 h0 hns n hn
    rw [hc] at this
    cases this
  obtain ⟨e, he⟩ := List.exists_mem_of_ne_nil _ hne
  exact ⟨e, he, (nodeChecks_mem S o cx rest before e he).1⟩

/-! ## the statement at one fuel, and the hypotheses about one level -/

/-- `level_main_exact` at fuel `fuel` -/
def ExAt (X : SchemaX) (o : VOpts) (fuel : Nat) : Prop :=
  ∀ (sk : List STree) (ks : List DNode) (cx1 cx2 cx3 cxF : Cx),
    sheightL sk ≤ fuel → (∀ k, BelowL k sk → BelowL k X.top) → LevelSane sk → X.kidsOf cx1.parent = sk → X.kidsOf cxF.parent = sk →
    goodL X sk ks = true → ks.length ≤ uint32Max → buildL X.base ks = none → EKind.dupCase ∉ specL X o sk (explicitL ks) →
    ∀ K ∈ specL X o sk (explicitL ks), ∃ e ∈ pipeErrs X o fuel cx1 cx2 cx3 cxF sk ks, e.kind = K

section level
variable {X : SchemaX} {o : VOpts} {fuel : Nat} {sk : List STree} {ks : List DNode} {cx1 cx2 cx3 cxF : Cx}
  (C : CplLv X o fuel sk ks cx1 cx2 cx3 cxF) (LX : ExFinal X o) (hb0 : buildL X.base ks = none)
  (hdc : EKind.dupCase ∉ specL X o sk (explicitL ks))
include C hdc

/-- no choice of the level has data of two cases -/
theorem ex_noDupCase : dupCaseL (hasInst ks) sk = false := by
  cases h : dupCaseL (hasInst ks) sk with
  | false => rfl
  | true =>
    exfalso
    rw [← hasInst_explicit_fresh_fun (cpl_fresh C)] at h
    exact hdc (card_sub_spec X o _ sk _ (dupCaseL_imp_card o _ sk C.hls.kinds h))

omit C in
theorem ex_card_noDupCase : EKind.dupCase ∉ cardL o (explicitL ks) sk :=
  fun h => hdc (card_sub_spec X o _ sk _ h)

/-- a forbidden pair of siblings: a `Dup` error of `lyd_validate_new` -/
theorem ex_dup (h : ¬ NoPair X.base ks) : ∃ e ∈ pipeErrs X o fuel cx1 cx2 cx3 cxF sk ks, e.kind = .dup := by
  obtain ⟨_, h2, h3⟩ := validateNew_fresh_full X o cx1 C.hop ks (cpl_fresh C)
  have hne : (validateNew X o cx1 ks).2.errs ≠ [] := fun h0 => h (h2.1 h0).1
  obtain ⟨e, he⟩ := List.exists_mem_of_ne_nil _ hne
  refine ⟨e, ex_pipe_new he, ?_⟩
  rcases h3 e he with ⟨hk, _⟩ | ⟨_, hd⟩
  · exact hk
  · exfalso
    rw [C.hk1, ex_noDupCase C hdc] at hd
    cases hd

include LX

/-- (i) a violated cardinality constraint of the level -/
theorem ex_card {K : EKind} (hK : K ∈ cardL o (explicitL ks) sk) : ∃ e ∈ pipeErrs X o fuel cx1 cx2 cx3 cxF sk ks, e.kind = K := by
  have F := cpl_facts C
  have hne : K ≠ .dupCase := fun h => ex_card_noDupCase hdc (h ▸ hK)
  rcases LX.card cxF C.hop F.cnt fuel sk C.hh C.hls.kinds C.hls.nodup C.hls.sane F.sel K hK hne with ⟨e, he, hk⟩ | h
  · refine ⟨e, ex_pipe_level ?_, hk⟩
    unfold levelChecks
    rw [C.hkF, Out.append_errs]
    exact List.mem_append_right _ he
  · exact absurd h (ex_card_noDupCase hdc)

omit LX hdc in
/-- a state node under `LYD_VALIDATE_NO_STATE` -/
theorem ex_state (hns : o.noState = true) {y : DNode} (hy : y ∈ ks) (hc : X.base.config y.sid = false) :
    ∃ e ∈ pipeErrs X o fuel cx1 cx2 cx3 cxF sk ks, e.kind = .unexpState := by
  have F := cpl_facts C
  obtain ⟨b, hb1, _⟩ := walkList_elem (subtreeNode X o fuel cx3) _ [] _ (F.keeps y hy)
  rw [← F.tree] at hb1
  obtain ⟨e, he, hk⟩ := ex_nodeChecks_exists X.base o cxF hns _ [] hb1 (by rw [subtreeNode_sid, normNew_sid]; exact hc)
  refine ⟨e, ex_pipe_level ?_, hk⟩
  unfold levelChecks
  rw [Out.append_errs]
  exact List.mem_append_left _ he

omit LX hdc in
/-- the pipeline of the children of an inner node of the completed level is part of the pipeline of the level -/
theorem ex_inner {a : DNode} (ha : a ∈ (implL X o cx2 sk (ks.map normNew)).1) {s : Nat} {fl : Flags} {m : List Meta}
    {akids : List DNode} (hshape : a = .inner s fl m akids) {f : Nat} (hf : fuel = f + 1) {K : EKind}
    (H : ∀ c1 cF : Cx, c1.parent = some s → cF.parent = some s →
      ∃ e ∈ pipeErrs X o f c1 c1.keysOld c1.keysOld cF (X.kidsOf (some s)) akids, e.kind = K) :
    ∃ e ∈ pipeErrs X o fuel cx1 cx2 cx3 cxF sk ks, e.kind = K := by
  have F := cpl_facts C
  subst hf
  subst hshape
  obtain ⟨b, hb1, hb2⟩ := walkList_elem (subtreeNode X o (f + 1) cx3) _ [] _ ha
  have hmem3 : (subtreeNode X o (f + 1) cx3 b (.inner s fl m akids)).1 ∈ pipeTree X o (f + 1) cx1 cx2 cx3 sk ks := by
    rw [F.tree]; exact hb1
  obtain ⟨bF, hbF⟩ := finalKids_elem X o cxF _ [] _ hmem3
  obtain ⟨e, he, hk⟩ := H (cx3.descend X.base b (.inner s fl m akids))
    (cxF.descend X.base bF (subtreeNode X o (f + 1) cx3 b (.inner s fl m akids)).1) rfl
    (by show some _ = some s; rw [subtreeNode_sid]; rfl)
  rcases (elem_pipe X o f cx3 cxF b bF s fl m akids e).2 he with h | h
  · refine ⟨e, ex_pipe_walk ?_, hk⟩
    rw [F.r1tree]
    exact hb2 e h
  · exact ⟨e, ex_pipe_final (hbF e h), hk⟩

omit LX hdc in
/-- the induction step into the children of an inner node of the completed level that instantiates the data node `k` -/
theorem ex_rec (IH : ∀ f, fuel = f + 1 → ExAt X o f) {s : Nat} {i : SNode} {kk : List STree} (hbel : BelowL (.mk s i kk) sk)
    (h1 : i.kind ≠ .choice) (h2 : i.kind ≠ .case) {a : DNode} (ha : a ∈ (implL X o cx2 sk (ks.map normNew)).1) {fl : Flags}
    {m : List Meta} {akids : List DNode} (hshape : a = .inner s fl m akids) (hga : goodL X kk akids = true)
    (hla : akids.length ≤ uint32Max) (hba : buildL X.base akids = none) (hdca : EKind.dupCase ∉ specL X o kk (explicitL akids))
    {K : EKind} (hK : K ∈ specL X o kk (explicitL akids)) :
    ∃ e ∈ pipeErrs X o fuel cx1 cx2 cx3 cxF sk ks, e.kind = K := by
  have hbt : BelowL (.mk s i kk) X.top := C.hb _ hbel
  have hkids : X.kidsOf (some s) = kk := C.hl _ hbt
  have hsh : sheightL kk + 1 ≤ fuel := by
    have h3 := cpl_belowL_sheight hbel
    rw [sheight.eq_def (.mk s i kk)] at h3
    simp only at h3
    have := C.hh
    omega
  obtain ⟨f, hf⟩ : ∃ f, fuel = f + 1 := ⟨fuel - 1, by omega⟩
  have hlsk : LevelSane kk := (C.hs.data _ hbt h1 h2).1
  have hbk : ∀ k', BelowL k' kk → BelowL k' X.top := fun k' hk' =>
    BelowL.trans' hk' (fun a' ha' => BelowL.kid_of_below hbt ha')
  apply ex_inner C ha hshape hf
  intro c1 cF hc1 hcF
  rw [hkids]
  exact IH f hf kk akids c1 c1.keysOld c1.keysOld cF (by omega) hbk hlsk (by rw [hc1]; exact hkids) (by rw [hcF]; exact hkids)
    hga hla hba hdca K hK

omit LX in
include hb0 in
/-- the induction step into an explicit instance of a container / list -/
theorem ex_rec_expl (IH : ∀ f, fuel = f + 1 → ExAt X o f) {s : Nat} {i : SNode} {kk : List STree}
    (hr : Reach (hasInst (explicitL ks)) sk (.mk s i kk))
    (hkind : i.kind = .container ∨ i.kind = .list) {y : DNode} (hy : y ∈ ks) (hys : y.sid = s) (hgy : goodN X y = true)
    {K : EKind} (hK : K ∈ specL X o kk (exN y).kids) :
    ∃ e ∈ pipeErrs X o fuel cx1 cx2 cx3 cxF sk ks, e.kind = K := by
  have F := cpl_facts C
  have hbel := hr.belowL
  have hbt : BelowL (.mk s i kk) X.top := C.hb _ hbel
  have hi : InfoFacts X.base (.mk s i kk) := infoFacts_of_get _ _ (C.hio _ hbt)
  have hkids : X.kidsOf (some s) = kk := C.hl _ hbt
  have h1 : i.kind ≠ .choice := by rcases hkind with h | h <;> simp [h]
  have h2 : i.kind ≠ .case := by rcases hkind with h | h <;> simp [h]
  have h3 : i.kind ≠ .leaf := by rcases hkind with h | h <;> simp [h]
  have h4 : i.kind ≠ .leaflist := by rcases hkind with h | h <;> simp [h]
  have hnt : y.isTerm = false :=
    cpl_inner_of_good hgy (by rw [hys]; exact cpl_isKind_false hi _ h3) (by rw [hys]; exact cpl_isKind_false hi _ h4)
  -- data of two cases below the instance would be data of two cases for the level
  have hdcy : EKind.dupCase ∉ specL X o kk (exN y).kids := by
    intro h
    apply hdc
    have hx : exN y ∈ instsOf (explicitL ks) (STree.mk s i kk).sid := by
      have := cpl_inst_mem C.hg hy
      rw [hys] at this
      exact this
    exact lift_inst X o (explicitL ks) hr hkind hx h
  have hby : buildL X.base y.kids = none := (build_none_facts X ks hb0 y hy).2.2
  cases y with
  | term s' f0 m v => cases hnt
  | inner s' f0 m ykids =>
    have hys : s' = s := hys
    subst hys
    obtain ⟨fl, hfl⟩ := cpl_normNew_inner s' f0 m ykids
    rw [goodN_inner, hkids] at hgy
    have hK' : K ∈ specL X o kk (explicitL ykids) := hK
    exact ex_rec C IH hbel h1 h2 (F.keeps _ hy) hfl hgy.2.2.2.2 hgy.2.2.2.1 hby hdcy hK'

omit LX hdc in
/-- the `unexpState` clause of a data node -/
theorem ex_unexp {s : Nat} {i : SNode} {kk : List STree} (hi : InfoFacts X.base (.mk s i kk))
    (hst : (o.noState && !i.config) = true) (hne : instsOf (explicitL ks) s ≠ []) :
    ∃ e ∈ pipeErrs X o fuel cx1 cx2 cx3 cxF sk ks, e.kind = .unexpState := by
  obtain ⟨e, he⟩ := List.exists_mem_of_ne_nil _ hne
  obtain ⟨y, hy, hys, _, _⟩ := cpl_inst_of C.hg he
  simp only [Bool.and_eq_true, Bool.not_eq_eq_eq_not, Bool.not_true] at hst
  have hc := hi.cfg
  simp only [STree.sid, STree.info] at hc
  exact ex_state C hst.1 hy (by rw [hys, hc]; exact hst.2)

/-- a cardinality clause of a visited data node -/
theorem ex_card_node {k : STree} (hr : Reach (hasInst (explicitL ks)) sk k) {K : EKind} (hK : K ∈ cardNode o (explicitL ks) k) :
    ∃ e ∈ pipeErrs X o fuel cx1 cx2 cx3 cxF sk ks, e.kind = K :=
  ex_card C LX hdc (cardL_of_reach o (explicitL ks) hr K hK)

/-! ### by the kind of the visited node -/

include hb0

theorem ex_leaf {s : Nat} {i : SNode} {kk : List STree} (hr : Reach (hasInst (explicitL ks)) sk (.mk s i kk)) (hkind : i.kind = .leaf)
    {K : EKind} (hK : K ∈ specNode X o (.mk s i kk) (explicitL ks)) :
    ∃ e ∈ pipeErrs X o fuel cx1 cx2 cx3 cxF sk ks, e.kind = K := by
  have hi : InfoFacts X.base (.mk s i kk) := infoFacts_of_get _ _ (C.hio _ (C.hb _ hr.belowL))
  rw [specNode_leaf_mem X o _ _ hkind] at hK
  rcases hK with ⟨rfl, hst, hne⟩ | ⟨rfl, hlen⟩ | hm | ⟨_, hbv⟩
  · exact ex_unexp C hi hst hne
  · exact ex_dup C hdc (dup_complete_short X hi (cpl_fresh C) (Or.inl hkind) hlen)
  · exact ex_card_node C LX hdc hr ((cardNode_leaf_mem o _ K hkind).2 hm)
  · exact absurd hb0 (cpl_badValue C hi (Or.inl hkind) hbv)

theorem ex_leaflist {s : Nat} {i : SNode} {kk : List STree} (hr : Reach (hasInst (explicitL ks)) sk (.mk s i kk))
    (hkind : i.kind = .leaflist) {K : EKind} (hK : K ∈ specNode X o (.mk s i kk) (explicitL ks)) :
    ∃ e ∈ pipeErrs X o fuel cx1 cx2 cx3 cxF sk ks, e.kind = K := by
  have hi : InfoFacts X.base (.mk s i kk) := infoFacts_of_get _ _ (C.hio _ (C.hb _ hr.belowL))
  rw [specNode_leaflist_mem X o _ _ hkind] at hK
  rcases hK with ⟨rfl, hst, hne⟩ | ⟨rfl, hc, hpw⟩ | hm | hm | ⟨_, hbv⟩
  · exact ex_unexp C hi hst hne
  · exact ex_dup C hdc (dup_complete_ll X hi (cpl_fresh C) hkind hc hpw)
  · exact ex_card_node C LX hdc hr ((cardNode_leaflist_mem o _ K hkind).2 (Or.inl hm))
  · exact ex_card_node C LX hdc hr ((cardNode_leaflist_mem o _ K hkind).2 (Or.inr hm))
  · exact absurd hb0 (cpl_badValue C hi (Or.inr hkind) hbv)

theorem ex_list (IH : ∀ f, fuel = f + 1 → ExAt X o f) {s : Nat} {i : SNode} {kk : List STree}
    (hr : Reach (hasInst (explicitL ks)) sk (.mk s i kk)) (hkind : i.kind = .list)
    {K : EKind} (hK : K ∈ specNode X o (.mk s i kk) (explicitL ks)) :
    ∃ e ∈ pipeErrs X o fuel cx1 cx2 cx3 cxF sk ks, e.kind = K := by
  have hi : InfoFacts X.base (.mk s i kk) := infoFacts_of_get _ _ (C.hio _ (C.hb _ hr.belowL))
  rw [specNode_list_mem X o _ _ hkind] at hK
  rcases hK with ⟨rfl, hst, hne⟩ | ⟨_, hnk⟩ | ⟨rfl, hc, hpw⟩ | hm | hm | ⟨rfl, hstu, hun⟩ | ⟨e, he, hKe⟩
  · exact ex_unexp C hi hst hne
  · exfalso
    obtain ⟨e, hne⟩ := Classical.not_forall.1 hnk
    obtain ⟨he, hv⟩ := Classical.not_imp.1 hne
    obtain ⟨y, hy, hys, hgy, rfl⟩ := cpl_inst_of C.hg he
    have hnt : y.isTerm = false :=
      cpl_inner_of_good hgy (by rw [hys]; exact cpl_isKind_false hi _ (by simp [hkind]))
        (by rw [hys]; exact cpl_isKind_false hi _ (by simp [hkind]))
    apply build_of_noKey X hy hnt (by rw [hys]; exact (cpl_isKind hi _).2 hkind) _ hb0
    rw [keysPresent_exN _ _ _ (isFreshN_kids (goodN_fresh X y hgy))] at hv
    rw [hys]
    simpa using hv
  · exact ex_dup C hdc (dup_complete_list X hi (cpl_fresh C) hkind hc hpw)
  · exact ex_card_node C LX hdc hr ((cardNode_list_mem o _ K hkind).2 (Or.inl hm))
  · exact ex_card_node C LX hdc hr ((cardNode_list_mem o _ K hkind).2 (Or.inr hm))
  · have F := cpl_facts C
    have hne := (C.hU fuel sk ks cx1 cx2 cx3 cxF C.hh C.hb C.hls C.hg C.hlen s i kk hr.belowL hkind).2 hun
    have hcfg : ∀ ch k', BelowL ch sk → Below k' ch → ch.info.config = false → k'.info.config = false :=
      fun ch k' hb hb' => C.hs.cfg ch k' (C.hb ch hb) hb'
    rcases LX.uniq cxF fuel sk C.hh C.hls.kinds C.hls.nodup C.hls.sane F.sel hcfg (.mk s i kk) hr hkind hstu hne with ⟨e, he, hk⟩ | h
    · refine ⟨e, ex_pipe_level ?_, hk⟩
      unfold levelChecks
      rw [C.hkF, Out.append_errs]
      exact List.mem_append_right _ he
    · exact absurd h (ex_card_noDupCase hdc)
  · obtain ⟨y, hy, hys, hgy, rfl⟩ := cpl_inst_of C.hg he
    exact ex_rec_expl C hb0 hdc IH hr (Or.inr hkind) hy hys hgy hKe

omit LX hb0 in
/-- the virtual non-presence container: no instance, the specification looks through it -/
theorem ex_virtual (IH : ∀ f, fuel = f + 1 → ExAt X o f) {s : Nat} {i : SNode} {kk : List STree}
    (hr : Reach (hasInst (explicitL ks)) sk (.mk s i kk)) (hkind : i.kind = .container) (hp : i.presence = false)
    (hemp : instsOf (explicitL ks) s = []) {K : EKind} (hK : K ∈ specL X o kk []) :
    ∃ e ∈ pipeErrs X o fuel cx1 cx2 cx3 cxF sk ks, e.kind = K := by
  have F := cpl_facts C
  have hbel := hr.belowL
  have hbt : BelowL (.mk s i kk) X.top := C.hb _ hbel
  have hdcv : EKind.dupCase ∉ specL X o kk [] := by
    intro h
    apply hdc
    apply spec_lift_reach X o _ hr
    rw [specNode_container_mem X o _ _ hkind]
    exact Or.inr (Or.inr (Or.inr ⟨hp, hemp, h⟩))
  cases hst : (o.noState && !i.config) with
  | true =>
    exfalso
    simp only [Bool.and_eq_true, Bool.not_eq_eq_eq_not, Bool.not_true] at hst
    have hall : allStateL kk = true := by
      rw [allStateL_iff_below]
      intro k' hk'
      exact C.hs.cfg _ k' hbt (Below.kid _ _ _ _ hk') hst.2
    rw [spec_state_empty X o hst.1 kk hall] at hK
    cases hK
  | false =>
    have hw : wantsImplicit o (.mk s i kk) = true := by
      unfold wantsImplicit
      simp only [STree.info, hkind, hp, hst]
      rfl
    rcases reach_want o (hasInst (explicitL ks)) C.hls.kinds (fun ch k' hch => C.hs.cfg ch k' (C.hb ch hch)) hr hw with h | h
    · obtain ⟨a, ha, has⟩ := F.wanted s h
      have has : a.sid = s := has
      rcases F.cases a ha with ⟨y, hy, rfl⟩ | ⟨_, _, k0, hk0, hk0s, hk0f, hk0k, hk0t⟩
      · exfalso
        have := cpl_inst_mem C.hg hy
        rw [normNew_sid] at has
        rw [has, hemp] at this
        cases this
      · have hinfo : k0.info = i := by
          have e1 := C.hio k0 (C.hb k0 hk0)
          have e2 := C.hio _ hbt
          simp only [STree.sid, STree.info] at e2
          rw [← hk0s, has, e2] at e1
          exact (Option.some.inj e1).symm
        have hat : a.isTerm = false := by
          rcases hk0t with h | h
          · exact h.1
          · exfalso
            rw [hinfo, hkind] at h
            rcases h.2 with h | h <;> cases h
        cases a with
        | term s' f0 m v => cases hat
        | inner s' f0 m akids =>
          have hk0k : akids = [] := hk0k
          have has : s' = s := has
          subst hk0k
          subst has
          exact ex_rec C IH hbel (by simp [hkind]) (by simp [hkind]) ha rfl (by unfold goodL; rfl) (by simp) (by rw [buildL]) hdcv hK
    · exfalso
      rw [hasInst_explicit_fresh_fun (cpl_fresh C), ex_noDupCase C hdc] at h
      cases h

omit LX in
theorem ex_container (IH : ∀ f, fuel = f + 1 → ExAt X o f) {s : Nat} {i : SNode} {kk : List STree}
    (hr : Reach (hasInst (explicitL ks)) sk (.mk s i kk)) (hkind : i.kind = .container)
    {K : EKind} (hK : K ∈ specNode X o (.mk s i kk) (explicitL ks)) :
    ∃ e ∈ pipeErrs X o fuel cx1 cx2 cx3 cxF sk ks, e.kind = K := by
  have hi : InfoFacts X.base (.mk s i kk) := infoFacts_of_get _ _ (C.hio _ (C.hb _ hr.belowL))
  rw [specNode_container_mem X o _ _ hkind] at hK
  rcases hK with ⟨rfl, hst, hne⟩ | ⟨rfl, hlen⟩ | ⟨e, he, hKe⟩ | ⟨hp, hemp, hK⟩
  · exact ex_unexp C hi hst hne
  · exact ex_dup C hdc (dup_complete_short X hi (cpl_fresh C) (Or.inr hkind) hlen)
  · obtain ⟨y, hy, hys, hgy, rfl⟩ := cpl_inst_of C.hg he
    exact ex_rec_expl C hb0 hdc IH hr (Or.inl hkind) hy hys hgy hKe
  · exact ex_virtual C hdc IH hr hkind hp hemp hK

/-- (ii) a violated constraint of a data node the specification visits -/
theorem ex_node (IH : ∀ f, fuel = f + 1 → ExAt X o f) {k : STree} (hr : Reach (hasInst (explicitL ks)) sk k)
    {K : EKind} (hK : K ∈ specNode X o k (explicitL ks)) :
    ∃ e ∈ pipeErrs X o fuel cx1 cx2 cx3 cxF sk ks, e.kind = K := by
  have hd := hr.data
  cases k with
  | mk s i kk =>
    cases hkind : i.kind with
    | choice => exact absurd hkind hd.1
    | case => exact absurd hkind hd.2
    | leaf => exact ex_leaf C LX hb0 hdc hr hkind hK
    | leaflist => exact ex_leaflist C LX hb0 hdc hr hkind hK
    | container => exact ex_container C hb0 hdc IH hr hkind hK
    | list => exact ex_list C LX hb0 hdc IH hr hkind hK

theorem ex_step (IH : ∀ f, fuel = f + 1 → ExAt X o f) {K : EKind} (hK : K ∈ specL X o sk (explicitL ks)) :
    ∃ e ∈ pipeErrs X o fuel cx1 cx2 cx3 cxF sk ks, e.kind = K := by
  rcases spec_decomp X o (explicitL ks) C.hls.kinds C.hls.noCase K hK with h | ⟨k, hr, hKk, _⟩
  · exact ex_card C LX hdc h
  · exact ex_node C LX hb0 hdc IH hr hKk

end level

/-- **kind-exact completeness of one sibling level and everything below**, given the kind-exact completeness of the schema-based
checks of a completed level (`ExFinal`) -/
theorem level_main_exact_of (X : SchemaX) (o : VOpts) (LX : ExFinal X o) (hop : o.operational = false) (hU : UniqBridge X o)
    (hq : X.q.implicitInnerCase = false) (hl : KidsLookupOk X) (hio : InfoOk X) (hs : FullSane X o) :
    ∀ (fuel : Nat) (sk : List STree) (ks : List DNode) (cx1 cx2 cx3 cxF : Cx),
      sheightL sk ≤ fuel → (∀ k, BelowL k sk → BelowL k X.top) → LevelSane sk → X.kidsOf cx1.parent = sk → X.kidsOf cxF.parent = sk →
      goodL X sk ks = true → ks.length ≤ uint32Max → buildL X.base ks = none → EKind.dupCase ∉ specL X o sk (explicitL ks) →
      ∀ K ∈ specL X o sk (explicitL ks), ∃ e ∈ pipeErrs X o fuel cx1 cx2 cx3 cxF sk ks, e.kind = K := by
  intro fuel
  induction fuel with
  | zero =>
    intro sk ks cx1 cx2 cx3 cxF hh hb hls hk1 hkF hg hlen hb0 hdc K hK
    exact ex_step ⟨hop, hU, hq, hl, hio, hs, hh, hb, hls, hk1, hkF, hg, hlen⟩ LX hb0 hdc (fun f hf => by omega) hK
  | succ n ih =>
    intro sk ks cx1 cx2 cx3 cxF hh hb hls hk1 hkF hg hlen hb0 hdc K hK
    exact ex_step ⟨hop, hU, hq, hl, hio, hs, hh, hb, hls, hk1, hkF, hg, hlen⟩ LX hb0 hdc
      (fun f hf => by
        have : f = n := by omega
        subst this
        exact ih) hK

/-- **multi-error exactness at the top level**, given `ExFinal`: when the instance can be built and no choice has data of two cases,
the violated constraint families are exactly the kinds of the logged errors -/
theorem validate_multi_exact_of (X : SchemaX) (o : VOpts) (LX : ExFinal X o) (hop : o.operational = false) (hU : UniqBridge X o)
    (hq : X.q.implicitInnerCase = false) (hl : KidsLookupOk X) (hio : InfoOk X) (hs : FullSane X o) (t : List DNode)
    (hg : goodL X X.top t = true) (hlen0 : t.length ≤ uint32Max) (hh : sheightL X.top ≤ walkFuel X t) (hb : buildL X.base t = none)
    (hdc : EKind.dupCase ∉ violations X o t) (K : EKind) :
    K ∈ violations X o t ↔ ∃ e ∈ (validate X o t).errs, e.kind = K := by
  constructor
  · intro hK
    by_cases hpe : (o.present && t.isEmpty) = true
    · unfold violations at hK
      simp only [hpe, if_true] at hK
      cases hK
    · have hpe' : (o.present && t.isEmpty) = false := by simpa using hpe
      have hfr : isFreshL t = true := goodL_fresh X X.top t hg
      have hviol : violations X o t = specL X o X.top (explicitL t) := by
        unfold violations
        simp only [hpe', Bool.false_eq_true, if_false, dfltStateL_fresh X.base t hfr, Bool.and_false, List.append_nil]
      rw [hviol] at hK hdc
      rw [validate_errs_pipe X o t hpe']
      exact level_main_exact_of X o LX hop hU hq hl hio hs (walkFuel X t) X.top t {} {} {} {} hh (belowL_top_id X) hs.top rfl rfl hg
        hlen0 hb hdc K hK
  · rintro ⟨e, he, rfl⟩
    exact validate_full_sound X o hop hU hq hl hio hs t hg hlen0 hh e he

/-- FullFinalX.lean: the schema-based checks of a completed level log an error of the violated kind -/
theorem ex_final (X : SchemaX) (o : VOpts) : ExFinal X o :=
  ⟨fun cx _ _ hop hc => level_complete_x X o cx hop hc, fun cx _ _ => level_complete_uniq_x X o cx⟩

/-- **kind-exact completeness of one sibling level and everything below**: when the instance can be built and no choice has data
of two cases, every violated constraint family of the specification is the kind of an error `lyd_validate` logs for the level or below -/
theorem level_main_exact (X : SchemaX) (o : VOpts) (hop : o.operational = false) (hU : UniqBridge X o) (hq : X.q.implicitInnerCase = false)
    (hl : KidsLookupOk X) (hio : InfoOk X) (hs : FullSane X o) :
    ∀ (fuel : Nat) (sk : List STree) (ks : List DNode) (cx1 cx2 cx3 cxF : Cx),
      sheightL sk ≤ fuel → (∀ k, BelowL k sk → BelowL k X.top) → LevelSane sk → X.kidsOf cx1.parent = sk → X.kidsOf cxF.parent = sk →
      goodL X sk ks = true → ks.length ≤ uint32Max → buildL X.base ks = none → EKind.dupCase ∉ specL X o sk (explicitL ks) →
      ∀ K ∈ specL X o sk (explicitL ks), ∃ e ∈ pipeErrs X o fuel cx1 cx2 cx3 cxF sk ks, e.kind = K :=
  level_main_exact_of X o (ex_final X o) hop hU hq hl hio hs

/-- **multi-error exactness**: for an instance that can be built and in which no choice has data of two cases, the set of violated
constraint families = the set of kinds of the errors `lyd_validate` logs -/
theorem validate_multi_exact (X : SchemaX) (o : VOpts) (hop : o.operational = false) (hU : UniqBridge X o)
    (hq : X.q.implicitInnerCase = false) (hl : KidsLookupOk X) (hio : InfoOk X) (hs : FullSane X o) (t : List DNode)
    (hg : goodL X X.top t = true) (hlen0 : t.length ≤ uint32Max) (hh : sheightL X.top ≤ walkFuel X t) (hb : buildL X.base t = none)
    (hdc : EKind.dupCase ∉ violations X o t) (K : EKind) :
    K ∈ violations X o t ↔ ∃ e ∈ (validate X o t).errs, e.kind = K :=
  validate_multi_exact_of X o (ex_final X o) hop hU hq hl hio hs t hg hlen0 hh hb hdc K

end LyModel.Valid
