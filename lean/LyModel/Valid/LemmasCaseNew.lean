import LyModel.Valid.LemmasCaseImpl
import LyModel.Valid.LemmasCasesFix
/-! `validate_idempotent` (C07) for schemas WITH `choice` / `case`, part 2: `lyd_validate_new`.  On siblings none of which is new,
`lyd_validate_choice_r` changes nothing; the node loop changes nothing when moreover no default node is a leftover of a dead
case (`NV`); and the first run establishes both. -/
namespace LyModel.Valid
open LyModel LyModel.Tree

/-! ## `lyd_validate_choice_r` without new nodes -/

theorem caseFound_ne2 (sibs : List DNode) (cs : STree) (hn : ∀ n ∈ sibs, n.flags.new = false) : caseFound sibs cs ≠ 2 := by
  unfold caseFound
  have : ((sibs.filter (inSids cs.dataSids)).any (·.flags.new)) = false := by
    rw [List.any_eq_false]
    intro x hx
    rw [hn x (List.mem_filter.1 hx).1]
    simp
  simp only [this, Bool.false_eq_true, if_false]
  split <;> omega

theorem scanCases_noNew (sibs : List DNode) (hn : ∀ n ∈ sibs, n.flags.new = false) : ∀ (cases : List STree) (old : Option STree),
    scanCases sibs cases old none = none ∨ ∃ old', scanCases sibs cases old none = some (old', none) := by
  intro cases
  induction cases with
  | nil => intro old; exact Or.inr ⟨old, by rw [scanCases]⟩
  | cons c rest ih =>
    intro old
    rw [scanCases]
    have h2 := caseFound_ne2 sibs c hn
    split
    · split
      · exact Or.inl rfl
      · exact ih _
    · rename_i h; exact absurd h h2
    · exact ih _

theorem Out.err_evs (k : EKind) (p : Bytes) : (Out.err k p).evs = [] := rfl

theorem casesStep_noNew (X : SchemaX) (cx : Cx) (choice : STree) (sibs : List DNode) (hn : ∀ n ∈ sibs, n.flags.new = false) :
    (casesStep X cx choice sibs).1 = sibs ∧ (casesStep X cx choice sibs).2.evs = [] := by
  unfold casesStep
  rcases scanCases_noNew sibs hn choice.kids none with h | ⟨old', h⟩
  · rw [h]; exact ⟨rfl, rfl⟩
  · rw [h]
    cases old' <;> exact ⟨rfl, rfl⟩

mutual
theorem choiceR_noNew_T (X : SchemaX) (hq : X.q.casesCountDefault = true) (cx : Cx) : ∀ (t : STree) (sibs : List DNode), (∀ n ∈ sibs, n.flags.new = false) →
    ((choiceRNode X cx t sibs).1 = sibs ∧ (choiceRNode X cx t sibs).2.evs = []) ∧
    ((choiceRCase X cx t sibs).1 = sibs ∧ (choiceRCase X cx t sibs).2.evs = [])
  | .mk s i ks, sibs, hn => by
    have ihL := choiceR_noNew_L X hq cx ks sibs hn
    constructor
    · rw [choiceRNode]
      split
      · split
        · exact ⟨rfl, rfl⟩
        · obtain ⟨h1, h2⟩ := casesStep_noNew X cx (.mk s i ks) sibs hn
          dsimp only
          rw [casesStepQ_defect hq, h1, Out.append_evs, h2, ihL.2.1, ihL.2.2]
          exact ⟨rfl, rfl⟩
      · exact ⟨rfl, rfl⟩
    · rw [choiceRCase]
      exact ihL.1
theorem choiceR_noNew_L (X : SchemaX) (hq : X.q.casesCountDefault = true) (cx : Cx) : ∀ (ks : List STree) (sibs : List DNode), (∀ n ∈ sibs, n.flags.new = false) →
    ((choiceRL X cx ks sibs).1 = sibs ∧ (choiceRL X cx ks sibs).2.evs = []) ∧
    ((choiceRCases X cx ks sibs).1 = sibs ∧ (choiceRCases X cx ks sibs).2.evs = [])
  | [], sibs, _ => by
    rw [choiceRL, choiceRCases]
    exact ⟨⟨rfl, rfl⟩, ⟨rfl, rfl⟩⟩
  | k :: rest, sibs, hn => by
    have ihT := choiceR_noNew_T X hq cx k sibs hn
    have ihL := choiceR_noNew_L X hq cx rest sibs hn
    constructor
    · rw [choiceRL]
      dsimp only
      rw [ihT.1.1, Out.append_evs, ihT.1.2, ihL.1.1, ihL.1.2]
      exact ⟨rfl, rfl⟩
    · rw [choiceRCases]
      dsimp only
      rw [ihT.2.1, Out.append_evs, ihT.2.2, ihL.2.1, ihL.2.2]
      exact ⟨rfl, rfl⟩
end

/-! ## `lyd_validate_choice_r` only removes nodes -/

theorem casesStep_sub (X : SchemaX) (cx : Cx) (choice : STree) (sibs : List DNode) : ∀ x ∈ (casesStep X cx choice sibs).1, x ∈ sibs := by
  intro x hx
  unfold casesStep at hx
  split at hx
  · exact hx
  · simp only [delSeq_fst, List.nil_append] at hx
    exact (List.mem_filter.1 hx).1
  · exact hx

mutual
theorem choiceR_sub_T (X : SchemaX) (cx : Cx) : ∀ (t : STree) (sibs : List DNode),
    (∀ x ∈ (choiceRNode X cx t sibs).1, x ∈ sibs) ∧ (∀ x ∈ (choiceRCase X cx t sibs).1, x ∈ sibs)
  | .mk s i ks, sibs => by
    constructor
    · rw [choiceRNode]
      split
      · split
        · exact fun _ h => h
        · intro x hx
          dsimp only at hx
          exact casesStepQ_sub X cx _ sibs x ((choiceR_sub_L X cx ks _).2 x hx)
      · exact fun _ h => h
    · rw [choiceRCase]
      exact (choiceR_sub_L X cx ks sibs).1
theorem choiceR_sub_L (X : SchemaX) (cx : Cx) : ∀ (ks : List STree) (sibs : List DNode),
    (∀ x ∈ (choiceRL X cx ks sibs).1, x ∈ sibs) ∧ (∀ x ∈ (choiceRCases X cx ks sibs).1, x ∈ sibs)
  | [], sibs => by
    rw [choiceRL, choiceRCases]
    exact ⟨fun _ h => h, fun _ h => h⟩
  | k :: rest, sibs => by
    constructor
    · rw [choiceRL]
      intro x hx
      dsimp only at hx
      exact (choiceR_sub_T X cx k sibs).1 x ((choiceR_sub_L X cx rest _).1 x hx)
    · rw [choiceRCases]
      intro x hx
      dsimp only at hx
      exact (choiceR_sub_T X cx k sibs).2 x ((choiceR_sub_L X cx rest _).2 x hx)
end

/-! ## leftover defaults of dead cases: the verdict looks at the explicit siblings only -/

/-- the schema ids of the explicit (not default-flagged) siblings, in order -/
def expl (l : List DNode) : List Nat := (l.filter (fun x => !x.flags.dflt)).map (·.sid)

theorem expl_append (a b : List DNode) : expl (a ++ b) = expl a ++ expl b := by
  simp [expl, List.filter_append]

theorem expl_nil : expl [] = [] := rfl

theorem expl_cons_dflt {n : DNode} (l : List DNode) (h : n.flags.dflt = true) : expl (n :: l) = expl l := by
  simp [expl, h]

theorem expl_singleton_normNew (n : DNode) : expl [normNew n] = expl [n] := by
  simp only [expl, List.filter_cons, normNew_dflt, List.filter_nil]
  split <;> simp

theorem any_expl (ds : List Nat) (all : List DNode) :
    (all.any fun x => inSids ds x && !x.flags.dflt) = (expl all).any (fun s => ds.contains s) := by
  unfold expl inSids
  induction all with
  | nil => rfl
  | cons x xs ih =>
    rw [List.any_cons, ih, List.filter_cons]
    cases x.flags.dflt <;> simp

theorem victim_congr (X : SchemaX) (all all' : List DNode) (n : DNode) (h : expl all = expl all') :
    caseDfltVictim X all n = caseDfltVictim X all' n := by
  unfold caseDfltVictim
  simp only [any_expl, h]

/-- no default-flagged sibling is the leftover of a case that no longer exists -/
def NV (X : SchemaX) (sibs : List DNode) : Prop := ∀ x ∈ sibs, x.flags.dflt = true → caseDfltVictim X sibs x = false

/-! ## the node loop, second run -/

theorem newLoop_id2 (X : SchemaX) (o : VOpts) (cx : Cx) : ∀ (fuel : Nat) (rest done : List DNode) (last : Option Nat),
    (∀ n ∈ rest, n.flags.new = false) → (∀ n ∈ rest, n.flags.dflt = true → caseDfltVictim X (done ++ rest) n = false) →
    newLoop X o cx fuel done rest last = (done ++ rest, {}) := by
  intro fuel
  induction fuel with
  | zero => intro rest done last _ _; simp [newLoop]
  | succ fuel ih =>
    intro rest done last hn hv
    cases rest with
    | nil => simp [newLoop]
    | cons node tl =>
      have hnode : node.flags.new = false := hn node (List.mem_cons_self ..)
      have htl : ∀ n ∈ tl, n.flags.new = false := fun n hx => hn n (List.mem_cons_of_mem _ hx)
      have happ : done ++ [node] ++ tl = done ++ node :: tl := by simp
      have hvtl : ∀ n ∈ tl, n.flags.dflt = true → caseDfltVictim X (done ++ [node] ++ tl) n = false := by
        intro n hx hd; rw [happ]; exact hv n (List.mem_cons_of_mem _ hx) hd
      unfold newLoop
      split
      · rw [ih tl _ _ htl hvtl, happ]
      · rename_i hc
        have hd : node.flags.dflt = true := by
          simp only [hnode, Bool.false_or, Bool.not_eq_eq_eq_not, Bool.not_true] at hc
          simpa using hc
        have hr : (if (hasDefault X.base node.sid && last != some node.sid && node.flags.new) = true then autodelStep X cx done node tl
            else (done, false, tl, [])) = (done, false, tl, []) := by
          simp [hnode]
        simp only [hr]
        have hde : dupErr X o cx done tl node = {} := by simp [dupErr, hnode]
        have hvn : caseDfltVictim X (done ++ node :: tl) node = false := hv node (List.mem_cons_self ..) hd
        simp only [Out.ofEvs_nil, Bool.false_eq_true, if_false, hnode, hde, hvn, Bool.and_false, Out.empty_append]
        rw [ih tl _ _ htl hvtl, happ]

theorem validateNew_id2 (X : SchemaX) (hq : X.q.casesCountDefault = true) (o : VOpts) (cx : Cx) (sibs : List DNode) (hn : ∀ n ∈ sibs, n.flags.new = false)
    (hv : NV X sibs) : (validateNew X o cx sibs).1 = sibs ∧ (validateNew X o cx sibs).2.evs = [] := by
  unfold validateNew
  obtain ⟨h1, h2⟩ := (choiceR_noNew_L X hq cx (X.kidsOf cx.parent) sibs hn).1
  dsimp only
  rw [h1, Out.append_evs, h2, newLoop_id2 X o cx.keysOld _ sibs [] none hn (by simpa [NV] using hv)]
  exact ⟨rfl, rfl⟩

/-! ## the node loop, first run -/

theorem expl_filter_dflt (p : DNode → Bool) (hp : ∀ x, p x = false → x.flags.dflt = true) (l : List DNode) :
    expl (l.filter p) = expl l := by
  unfold expl
  rw [List.filter_filter]
  congr 1
  apply List.filter_congr
  intro x _
  cases hd : x.flags.dflt with
  | false =>
    cases hpx : p x with
    | true => rfl
    | false => rw [hp x hpx] at hd; cases hd
  | true => simp

theorem expl_removeFirst (p : DNode → Bool) (hp : ∀ x, p x = true → x.flags.dflt = true) : ∀ (l : List DNode),
    expl (removeFirst p l).1 = expl l := by
  intro l
  induction l with
  | nil => rfl
  | cons x xs ih =>
    unfold removeFirst
    split
    · rename_i h
      exact (expl_cons_dflt xs (hp x h)).symm
    · dsimp only
      rw [show x :: (removeFirst p xs).1 = [x] ++ (removeFirst p xs).1 from rfl, show x :: xs = [x] ++ xs from rfl, expl_append, expl_append, ih]

theorem autodelStep_expl (X : SchemaX) (cx : Cx) (done tl : List DNode) (node : DNode) :
    expl (autodelStep X cx done node tl).1 = expl done ∧ expl (autodelStep X cx done node tl).2.2.1 = expl tl ∧
      ((autodelStep X cx done node tl).2.1 = true → node.flags.dflt = true) := by
  unfold autodelStep
  dsimp only
  split
  · simp only [delSeq_fst, List.nil_append, List.drop_left']
    refine ⟨expl_filter_dflt _ ?_ done, expl_filter_dflt _ ?_ tl, ?_⟩
    · intro x hx; simp only [Bool.not_eq_eq_eq_not, Bool.not_false, Bool.and_eq_true] at hx; exact hx.2
    · intro x hx; simp only [Bool.not_eq_eq_eq_not, Bool.not_false, Bool.and_eq_true] at hx; exact hx.2
    · intro h; simp only [Bool.and_eq_true] at h; exact h.2
  · have hvo : ∀ x : DNode, (x.sid == node.sid && x.flags.dflt && !x.flags.new) = true → x.flags.dflt = true := by
      intro x hx; simp only [Bool.and_eq_true] at hx; exact hx.1.2
    split
    · exact ⟨rfl, rfl, fun h => by cases h⟩
    · split
      · rename_i d' v heq
        have : d' = (removeFirst (fun x => x.sid == node.sid && x.flags.dflt && !x.flags.new) done).1 := by rw [heq]
        refine ⟨?_, rfl, fun h => by cases h⟩
        rw [this]; exact expl_removeFirst _ hvo done
      · split
        · rename_i t' v heq
          have : t' = (removeFirst (fun x => x.sid == node.sid && x.flags.dflt && !x.flags.new) tl).1 := by rw [heq]
          refine ⟨rfl, ?_, fun h => by cases h⟩
          rw [this]; exact expl_removeFirst _ hvo tl
        · exact ⟨rfl, rfl, fun h => by cases h⟩

/-- **the node loop of `lyd_validate_new`**: the explicit siblings stay as they are; every node handed back that was not yet passed
is not new any more and, when default-flagged, is not the leftover of a dead case -/
theorem newLoop_first (X : SchemaX) (o : VOpts) (cx : Cx) : ∀ (fuel : Nat) (rest done : List DNode) (last : Option Nat),
    rest.length < fuel →
    expl (newLoop X o cx fuel done rest last).1 = expl (done ++ rest) ∧
    ∀ x ∈ (newLoop X o cx fuel done rest last).1, x ∈ done ∨
      (x.flags.new = false ∧ (x.flags.dflt = true → caseDfltVictim X (done ++ rest) x = false)) := by
  intro fuel
  induction fuel with
  | zero => intro rest done last h; omega
  | succ fuel ih =>
    intro rest done last hlen
    cases rest with
    | nil =>
      simp only [newLoop, List.append_nil, true_and]
      exact fun x hx => Or.inl hx
    | cons node tl =>
      have hlen' : tl.length < fuel := by simp at hlen; omega
      have happ : done ++ [node] ++ tl = done ++ node :: tl := by simp
      unfold newLoop
      split
      · rename_i hc
        have hnn : node.flags.new = false ∧ node.flags.dflt = false := by
          simp only [Bool.not_eq_eq_eq_not, Bool.not_true, Bool.or_eq_false_iff] at hc; exact hc
        obtain ⟨h1, h2⟩ := ih tl (done ++ [node]) last hlen'
        rw [happ] at h1 h2
        refine ⟨h1, ?_⟩
        intro x hx
        rcases h2 x hx with h | h
        · simp only [List.mem_append, List.mem_singleton] at h
          rcases h with h | h
          · exact Or.inl h
          · subst h
            exact Or.inr ⟨hnn.1, fun hd => by rw [hnn.2] at hd; cases hd⟩
        · exact Or.inr h
      · have hsub : ∀ (r : List DNode × Bool × List DNode × List Ev),
            r = (if (hasDefault X.base node.sid && last != some node.sid && node.flags.new) = true then autodelStep X cx done node tl
              else (done, false, tl, [])) →
            (∀ z ∈ r.1, z ∈ done) ∧ r.2.2.1.length ≤ tl.length ∧ expl r.1 = expl done ∧ expl r.2.2.1 = expl tl ∧
              (r.2.1 = true → node.flags.dflt = true) := by
          intro r hr
          subst hr
          split
          · obtain ⟨a1, _, a3⟩ := autodelStep_sub X cx done tl node
            obtain ⟨b1, b2, b3⟩ := autodelStep_expl X cx done tl node
            exact ⟨a1, a3, b1, b2, b3⟩
          · exact ⟨fun _ h => h, Nat.le_refl _, rfl, rfl, fun h => by cases h⟩
        dsimp only
        generalize hr : (if (hasDefault X.base node.sid && last != some node.sid && node.flags.new) = true then autodelStep X cx done node tl
              else (done, false, tl, [])) = r
        obtain ⟨p1, p2, p3, p4, p5⟩ := hsub r hr.symm
        have hlen'' : r.2.2.1.length < fuel := by omega
        have hnode1 : (if node.flags.new = true then clearNew node else node) = normNew node := rfl
        simp only [hnode1]
        -- the explicit siblings around a deleted default node
        have hexD : node.flags.dflt = true → expl (r.1 ++ r.2.2.1) = expl (done ++ node :: tl) := by
          intro hd
          rw [expl_append, p3, p4, show done ++ node :: tl = done ++ ([node] ++ tl) from rfl, expl_append, expl_append]
          rw [show expl [node] = [] from expl_cons_dflt [] hd]
          rfl
        have hexK : expl (r.1 ++ normNew node :: r.2.2.1) = expl (done ++ node :: tl) := by
          rw [show r.1 ++ normNew node :: r.2.2.1 = r.1 ++ ([normNew node] ++ r.2.2.1) from rfl,
            show done ++ node :: tl = done ++ ([node] ++ tl) from rfl]
          simp only [expl_append, p3, p4, expl_singleton_normNew]
        have hdel : node.flags.dflt = true →
            expl (newLoop X o cx fuel r.1 r.2.2.1 (if (hasDefault X.base node.sid && last != some node.sid && node.flags.new) = true
              then some node.sid else last)).1 = expl (done ++ node :: tl) ∧
            ∀ x ∈ (newLoop X o cx fuel r.1 r.2.2.1 (if (hasDefault X.base node.sid && last != some node.sid && node.flags.new) = true
              then some node.sid else last)).1, x ∈ done ∨
              (x.flags.new = false ∧ (x.flags.dflt = true → caseDfltVictim X (done ++ node :: tl) x = false)) := by
          intro hd
          obtain ⟨h1, h2⟩ := ih r.2.2.1 r.1 (if (hasDefault X.base node.sid && last != some node.sid && node.flags.new) = true
              then some node.sid else last) hlen''
          refine ⟨by rw [h1]; exact hexD hd, ?_⟩
          intro x hx
          rcases h2 x hx with h | ⟨h, h'⟩
          · exact Or.inl (p1 x h)
          · exact Or.inr ⟨h, fun hxd => by rw [← victim_congr X _ _ x (hexD hd)]; exact h' hxd⟩
        split
        · rename_i hself
          exact hdel (p5 hself)
        · split
          · rename_i hvict
            simp only [Bool.and_eq_true, normNew_dflt] at hvict
            exact hdel hvict.1
          · rename_i hvict
            obtain ⟨h1, h2⟩ := ih r.2.2.1 (r.1 ++ [normNew node]) (if (hasDefault X.base node.sid && last != some node.sid && node.flags.new) = true
              then some node.sid else last) hlen''
            have happ' : r.1 ++ [normNew node] ++ r.2.2.1 = r.1 ++ normNew node :: r.2.2.1 := by simp
            rw [happ'] at h1 h2
            refine ⟨by rw [h1]; exact hexK, ?_⟩
            intro x hx
            rcases h2 x hx with h | ⟨h, h'⟩
            · simp only [List.mem_append, List.mem_singleton] at h
              rcases h with h | h
              · exact Or.inl (p1 x h)
              · subst h
                refine Or.inr ⟨normNew_new node, fun hxd => ?_⟩
                rw [← victim_congr X _ _ _ hexK]
                simp only [Bool.and_eq_true, not_and, Bool.not_eq_true] at hvict
                exact hvict hxd
            · exact Or.inr ⟨h, fun hxd => by rw [← victim_congr X _ _ x hexK]; exact h' hxd⟩

/-- **`lyd_validate_new`, first run**: nothing is new afterwards, no default node is the leftover of a dead case, and every node
was there before (at most it lost `LYD_NEW`) -/
theorem validateNew_first (X : SchemaX) (o : VOpts) (cx : Cx) (sibs : List DNode) :
    (∀ x ∈ (validateNew X o cx sibs).1, x.flags.new = false) ∧ NV X (validateNew X o cx sibs).1 ∧
    (∀ x ∈ (validateNew X o cx sibs).1, ∃ y ∈ sibs, x = normNew y) := by
  unfold validateNew
  dsimp only
  have hsub := (choiceR_sub_L X cx (X.kidsOf cx.parent) sibs).1
  generalize (choiceRL X cx (X.kidsOf cx.parent) sibs).1 = l1 at hsub
  obtain ⟨h1, h2⟩ := newLoop_first X o cx.keysOld (l1.length + 1) l1 [] none (by omega)
  have h3 := newLoop_out X o cx.keysOld (l1.length + 1) l1 [] none (by omega)
  simp only [List.nil_append] at h1 h2
  refine ⟨?_, ?_, ?_⟩
  · intro x hx
    rcases h2 x hx with h | h
    · cases h
    · exact h.1
  · intro x hx hd
    rcases h2 x hx with h | h
    · cases h
    · rw [victim_congr X _ _ x h1]; exact h.2 hd
  · intro x hx
    rcases h3 x hx with h | ⟨y, hy, h⟩
    · cases h
    · exact ⟨y, hsub y hy, h⟩

end LyModel.Valid
