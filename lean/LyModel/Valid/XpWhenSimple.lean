import LyModel.Valid.XpValid
import LyModel.Valid.XpLemmas
/-!
# First facts about the `when` phase (`whenPhaseG`, XpWhen.lean)

* `whenPhaseG_kinds` / `whenPhase_kinds`: every error the phase logs is `NoWhen` or `Other` (`xpErr`) — unconditional;
* `shapeL_modifyAt_flag`: setting `whenTrue` on a node changes no shape;
* `markImpl_clean`: on a tree in which no node of a when-schema-node is default-flagged `markImpl` is the identity.
-/
namespace LyModel.Valid
open LyModel LyModel.Tree

/-! ## the kinds of the errors -/

def xs_ok (out : Out) : Prop := ∀ e ∈ out.errs, e.kind = .noWhen ∨ e.kind = .xpErr

theorem xs_ok_empty : xs_ok {} := by
  intro e he; rw [Out.empty_errs] at he; cases he

theorem xs_ok_err {out : Out} {k : EKind} {p : Bytes} (h : xs_ok out) (hk : k = .noWhen ∨ k = .xpErr) : xs_ok (out ++ Out.err k p) := by
  intro e he
  rw [Out.append_errs, List.mem_append, xp_err_errs, List.mem_singleton] at he
  rcases he with he | he
  · exact h e he
  · rw [he]; exact hk

theorem xs_ofEvs_errs (evs : List Ev) : (Out.ofEvs evs).errs = [] := by
  unfold Out.ofEvs Out.errs
  induction evs with
  | nil => rfl
  | cons e es ih => simp

theorem xs_ok_evs {out : Out} (evs : List Ev) (h : xs_ok out) : xs_ok (out ++ Out.ofEvs evs) := by
  intro e he
  rw [Out.append_errs, xs_ofEvs_errs, List.append_nil] at he
  exact h e he

theorem xs_stepAt_ok (ev : XpEv) (X : SchemaX) (W : WhenTab) (o : VOpts) (st : WSt) (i : Nat) (h : xs_ok st.out) :
    xs_ok (stepAt ev X W o st i).out := by
  unfold stepAt
  split
  · exact h
  · split
    · dsimp only
      split
      · exact h
      · exact xs_ok_err h (Or.inr rfl)
      · exact h
      · split
        · exact xs_ok_evs _ h
        · split
          · exact h
          · exact xs_ok_err h (Or.inl rfl)
    · exact h

theorem xs_roundGo_ok (ev : XpEv) (X : SchemaX) (W : WhenTab) (o : VOpts) : ∀ (i : Nat) (st : WSt), xs_ok st.out →
    xs_ok (roundGo ev X W o i st).out := by
  intro i
  induction i with
  | zero => intro st h; exact h
  | succ i ih => intro st h; rw [roundGo]; exact ih _ (xs_stepAt_ok ev X W o st i h)

theorem xs_rounds_ok (ev : XpEv) (X : SchemaX) (W : WhenTab) (o : VOpts) : ∀ (f : Nat) (st : WSt), xs_ok st.out →
    xs_ok (rounds ev X W o f st).out := by
  intro f
  induction f with
  | zero => intro st h; exact h
  | succ f ih =>
    intro st h
    rw [rounds]
    have hr : xs_ok (round ev X W o st).out := xs_roundGo_ok ev X W o _ st h
    split
    · exact ih _ hr
    · exact hr

/-- **every error of the `when` phase is `NoWhen` or `Other`** -/
theorem whenPhaseG_kinds (ev : XpEv) (X : SchemaX) (W : WhenTab) (o : VOpts) (T : List DNode) :
    ∀ e ∈ (whenPhaseG ev X W o T).2.errs, e.kind = .noWhen ∨ e.kind = .xpErr := by
  unfold whenPhaseG
  exact xs_rounds_ok ev X W o _ _ xs_ok_empty

theorem whenPhase_kinds (X : SchemaX) (C : XCons) (o : VOpts) (T : List DNode) :
    ∀ e ∈ (whenPhase X C o T).2.errs, e.kind = .noWhen ∨ e.kind = .xpErr := by
  unfold whenPhase whenPhaseM
  exact whenPhaseG_kinds _ X C.whens o _

/-! ## setting a flag changes no shape -/

theorem xs_shape_updIdx (f : DNode → DNode) (hf : ∀ n, shapeN (f n) = shapeN n) : ∀ (T : List DNode) (i : Nat),
    shapeL (updIdx f T i) = shapeL T
  | [], _ => by rw [updIdx]
  | n :: ns, 0 => by rw [updIdx, shapeL, shapeL, hf]
  | n :: ns, i + 1 => by rw [updIdx, shapeL, shapeL, xs_shape_updIdx f hf ns i]

theorem xs_shapeN_setKids (n : DNode) (ks : List DNode) (h : shapeL ks = shapeL n.kids) : shapeN (n.setKids ks) = shapeN n := by
  cases n with
  | inner s f m k0 =>
    simp only [DNode.kids] at h
    rw [DNode.setKids, shapeN, shapeN, h]
  | term s f m v => rw [DNode.setKids]; intro _ _ _ _ h; cases h

theorem xs_shape_modifyAt (f : DNode → DNode) (hf : ∀ n, shapeN (f n) = shapeN n) : ∀ (p : NPath) (T : List DNode),
    shapeL (modifyAt f T p) = shapeL T
  | [], T => by rw [modifyAt]
  | [i], T => by rw [modifyAt]; exact xs_shape_updIdx f hf T i
  | i :: j :: rest, T => by
    rw [modifyAt]
    · exact xs_shape_updIdx _ (fun n => xs_shapeN_setKids n _ (xs_shape_modifyAt f hf (j :: rest) n.kids)) T i
    · intro h; cases h

theorem xs_shapeN_setWhenTrue (n : DNode) : shapeN (setWhenTrue n) = shapeN n := by
  cases n <;> rfl

/-- setting `whenTrue` on the node at `p` changes no shape -/
theorem shapeL_modifyAt_flag (T : List DNode) (p : NPath) : shapeL (modifyAt setWhenTrue T p) = shapeL T :=
  xs_shape_modifyAt setWhenTrue xs_shapeN_setWhenTrue p T

/-! ## `markImpl` on a tree without default-flagged nodes of when-schema-nodes -/

mutual
/-- no node of a schema node with a when is default-flagged -/
def xs_cleanN (hw : Nat → Bool) : DNode → Bool
  | .inner s f _ ks => !(hw s && f.dflt) && xs_cleanL hw ks
  | .term s f _ _ => !(hw s && f.dflt)
def xs_cleanL (hw : Nat → Bool) : List DNode → Bool
  | [] => true
  | n :: ns => xs_cleanN hw n && xs_cleanL hw ns
end

mutual
theorem xs_markImplN_clean (hw : Nat → Bool) : ∀ (n : DNode), xs_cleanN hw n = true → markImplN hw n = n
  | .inner s f m ks, h => by
    rw [xs_cleanN, Bool.and_eq_true] at h
    have h1 : (hw s && f.dflt) = false := by
      cases hv : (hw s && f.dflt) with
      | false => rfl
      | true => rw [hv] at h; exact absurd h.1 (by decide)
    rw [markImplN, h1, xs_markImplL_clean hw ks h.2]
    rfl
  | .term s f m v, h => by
    rw [xs_cleanN] at h
    have h1 : (hw s && f.dflt) = false := by
      cases hv : (hw s && f.dflt) with
      | false => rfl
      | true => rw [hv] at h; exact absurd h (by decide)
    rw [markImplN, h1]
    rfl
theorem xs_markImplL_clean (hw : Nat → Bool) : ∀ (ns : List DNode), xs_cleanL hw ns = true → markImplL hw ns = ns
  | [], _ => by rw [markImplL]
  | n :: ns, h => by
    rw [xs_cleanL, Bool.and_eq_true] at h
    rw [markImplL, xs_markImplN_clean hw n h.1, xs_markImplL_clean hw ns h.2]
end

/-- **`markImpl` changes nothing when no node of a when-schema-node is default-flagged** -/
theorem markImpl_clean (S : Schema) (W : WhenTab) (T : List DNode) (h : xs_cleanL (hasWhen S W) T = true) : markImpl S W T = T :=
  xs_markImplL_clean _ T h

/-! ## unless a delete event is logged, only `whenTrue` flags change -/

theorem xs_ofEvs_evs (l : List Ev) : (Out.ofEvs l).evs = l := by
  unfold Out.ofEvs Out.evs
  induction l with
  | nil => rfl
  | cons e es ih =>
    rw [List.map_cons, List.filterMap_cons]
    dsimp only at ih ⊢
    rw [ih]

theorem xs_err_evs (k : EKind) (p : Bytes) : (Out.err k p).evs = [] := rfl

/-- what one step does: it appends to the log, and unless it logs an event the shape of the tree stays -/
def xs_Step (a b : WSt) : Prop := ∃ x : Out, b.out = a.out ++ x ∧ (x.evs = [] → shapeL b.tree = shapeL a.tree)

theorem xs_Step.refl (a : WSt) : xs_Step a a := ⟨{}, by rw [Out.append_empty], fun _ => rfl⟩

theorem xs_Step.trans {a b c : WSt} (h1 : xs_Step a b) (h2 : xs_Step b c) : xs_Step a c := by
  obtain ⟨x, hx, sx⟩ := h1
  obtain ⟨y, hy, sy⟩ := h2
  refine ⟨x ++ y, by rw [hy, hx, Out.append_assoc], ?_⟩
  intro h
  rw [Out.append_evs, List.append_eq_nil_iff] at h
  rw [sy h.2, sx h.1]

theorem xs_delEvents_ne (X : SchemaX) (cx : Cx) (before : List DNode) (n : DNode) :
    (Out.ofEvs (delEvents X cx true before n)).evs ≠ [] := by
  rw [xs_ofEvs_evs]
  unfold delEvents
  simp

theorem xs_stepAt_step (ev : XpEv) (X : SchemaX) (W : WhenTab) (o : VOpts) (st : WSt) (i : Nat) :
    xs_Step st (stepAt ev X W o st i) := by
  unfold stepAt
  split
  · exact xs_Step.refl st
  · split
    · dsimp only
      split
      · exact xs_Step.refl st
      · exact ⟨_, rfl, fun _ => rfl⟩
      · exact ⟨{}, by rw [Out.append_empty], fun _ => shapeL_modifyAt_flag _ _⟩
      · split
        · exact ⟨_, rfl, fun h => absurd h (xs_delEvents_ne X _ _ _)⟩
        · split
          · exact ⟨{}, by rw [Out.append_empty], fun _ => rfl⟩
          · exact ⟨_, rfl, fun _ => rfl⟩
    · exact ⟨{}, by rw [Out.append_empty], fun _ => rfl⟩

theorem xs_roundGo_step (ev : XpEv) (X : SchemaX) (W : WhenTab) (o : VOpts) : ∀ (i : Nat) (st : WSt),
    xs_Step st (roundGo ev X W o i st) := by
  intro i
  induction i with
  | zero => intro st; exact xs_Step.refl st
  | succ i ih => intro st; rw [roundGo]; exact (xs_stepAt_step ev X W o st i).trans (ih _)

theorem xs_rounds_step (ev : XpEv) (X : SchemaX) (W : WhenTab) (o : VOpts) : ∀ (f : Nat) (st : WSt),
    xs_Step st (rounds ev X W o f st) := by
  intro f
  induction f with
  | zero => intro st; exact xs_Step.refl st
  | succ f ih =>
    intro st
    rw [rounds]
    have hr : xs_Step st (round ev X W o st) := xs_roundGo_step ev X W o _ st
    split
    · exact hr.trans (ih _)
    · exact hr

/-- **unless the phase logs a delete event, it changes `whenTrue` flags only** -/
theorem whenPhaseG_shape (ev : XpEv) (X : SchemaX) (W : WhenTab) (o : VOpts) (T : List DNode)
    (h : (whenPhaseG ev X W o T).2.evs = []) : shapeL (whenPhaseG ev X W o T).1 = shapeL T := by
  unfold whenPhaseG at h ⊢
  obtain ⟨x, hx, sx⟩ := xs_rounds_step ev X W o ((whenSet X.base W T).length + 1) { tree := T, set := whenSet X.base W T }
  dsimp only at h ⊢
  rw [hx, Out.empty_append] at h
  exact sx h

mutual
theorem xs_shapeN_markImpl (hw : Nat → Bool) : ∀ (n : DNode), shapeN (markImplN hw n) = shapeN n
  | .inner s f m ks => by rw [markImplN, shapeN, shapeN, xs_shapeL_markImpl hw ks]
  | .term s f m v => by rw [markImplN, shapeN, shapeN]
theorem xs_shapeL_markImpl (hw : Nat → Bool) : ∀ (ns : List DNode), shapeL (markImplL hw ns) = shapeL ns
  | [] => by rw [markImplL]
  | n :: ns => by rw [markImplL, shapeL, shapeL, xs_shapeN_markImpl hw n, xs_shapeL_markImpl hw ns]
end

/-- **`whenPhase` changes flags only, unless it logs a delete event** (an implicit node with a false when) -/
theorem whenPhase_shape (X : SchemaX) (C : XCons) (o : VOpts) (T : List DNode) (h : (whenPhase X C o T).2.evs = []) :
    shapeL (whenPhase X C o T).1 = shapeL T := by
  unfold whenPhase whenPhaseM at h ⊢
  rw [whenPhaseG_shape _ X C.whens o _ h]
  exact xs_shapeL_markImpl _ T

end LyModel.Valid
