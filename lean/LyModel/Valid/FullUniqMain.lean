import LyModel.Valid.FullUniq
import LyModel.Valid.FullMain
/-!
# C02, full schema language: `UniqBridge` from the decidable hypotheses on the `unique` statements
-/
namespace LyModel.Valid
open LyModel LyModel.Tree

/-- `lyd_validate_unique` on every completed level = the `unique` clause of the specification on the explicit data, when every
`unique` statement is non-empty and each of its leaves is found by the schema path on which the flat table (`uniqChain`) and the
schema tree (`pathTo`) agree, case names being unique on that path (`UniqPathsOk`, decidable `uniqPathsOkB`), in the repaired variant
of F175 (`lyd_val_uniq_dflt_in_use`) -/
theorem uniqBridge_of_paths (X : SchemaX) (o : VOpts) (hop : o.operational = false) (hq : X.q.implicitInnerCase = false)
    (hl : KidsLookupOk X) (hio : InfoOk X) (hs : FullSane X o) (hqu : X.q.uniqueDefaultAlways = false) (hnl : NodeLookupOk X)
    (hup : UniqPathsOk X) : UniqBridge X o := by
  intro fuel sk ks cx1 cx2 cx3 cx hh hb hls hg hlen s i kk hbel hkind
  have G : uq_Glob X o := ⟨hop, hq, hl, hio, hs⟩
  have hv : uq_Lvl X fuel sk ks := ⟨hh, hb, hls, hg, hlen⟩
  have F := level_facts X o hop hq fuel cx1 cx2 cx3 sk ks hls hg hlen (fun k hk => hio k (hb k hk))
  exact uq_bridge G hqu hnl hup hv F hbel hkind cx

end LyModel.Valid
