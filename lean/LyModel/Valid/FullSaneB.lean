import LyModel.Valid.FullPipe
import LyModel.Valid.FullImpl2
/-!
# C02, full schema language: decidable form of the schema hypotheses `LevelSane` / `FullSane`, and the witness schema `Sfull`

`fullSaneB X o = true → FullSane X o`, so that a concrete schema discharges the hypotheses of the assembled theorems by `decide`.
`Sfull` / `Xfull`: a schema with a presence container, a keyed list, a non-presence container, a choice with a default case, a
nested mandatory choice, mandatory leaves, min- and max-elements and a state leaf; `tFullOk`, `tFullBad1`, `tFullBad2`: instances of it.
-/
namespace LyModel.Valid
open LyModel LyModel.Tree

/-- decidable `LevelSane` -/
def levelSaneB (sk : List STree) : Bool := kindsOkL sk && decide (dataSidsL sk).Nodup && noCaseL sk && saneL sk

theorem levelSane_of_B {sk : List STree} (h : levelSaneB sk = true) : LevelSane sk := by
  unfold levelSaneB at h
  simp only [Bool.and_eq_true, decide_eq_true_eq] at h
  exact ⟨h.1.1.1, h.1.1.2, h.1.2, h.2⟩

/-- the children of a data node form a sane level; a leaf / leaf-list has none -/
def dataSaneB (k : STree) : Bool :=
  k.info.kind == .choice || k.info.kind == .case ||
    (levelSaneB k.kids && (!(k.info.kind == .leaf || k.info.kind == .leaflist) || k.kids.isEmpty))

/-- a `config false` node has only `config false` nodes below it -/
def cfgInheritB (ch : STree) : Bool := ch.info.config || ch.allState

/-- a non-presence container directly in a default case: the specification asks nothing of its empty content -/
def dfltCaseB (X : SchemaX) (o : VOpts) (ch : STree) : Bool :=
  ch.info.kind != .choice || ch.kids.all (fun c => ch.info.dfltCase != some c.info.name ||
    c.kids.all (fun k => !k.isNpCont || (specL X o k.kids []).isEmpty))

/-- decidable `FullSane` -/
def fullSaneB (X : SchemaX) (o : VOpts) : Bool :=
  levelSaneB X.top && allBelowL dataSaneB X.top && allBelowL cfgInheritB X.top && allBelowL (dfltCaseB X o) X.top

theorem fullSane_of_B (X : SchemaX) (o : VOpts) (h : fullSaneB X o = true) : FullSane X o := by
  unfold fullSaneB at h
  simp only [Bool.and_eq_true] at h
  obtain ⟨⟨⟨h1, h2⟩, h3⟩, h4⟩ := h
  refine ⟨levelSane_of_B h1, ?_, ?_, ?_⟩
  · intro k hb hc1 hc2
    have := allBelowL_spec _ hb h2
    unfold dataSaneB at this
    simp only [Bool.or_eq_true, beq_iff_eq, hc1, hc2, false_or, Bool.and_eq_true, Bool.not_eq_eq_eq_not, Bool.not_true,
      Bool.or_eq_false_iff, beq_eq_false_iff_ne, ne_eq, List.isEmpty_iff] at this
    refine ⟨levelSane_of_B this.1, fun hk => ?_⟩
    rcases this.2 with h | h
    · rcases hk with hk | hk
      · exact absurd hk h.1
      · exact absurd hk h.2
    · exact h
  · intro ch k' hb hb' hcfg
    have := allBelowL_spec _ hb h3
    unfold cfgInheritB at this
    rw [hcfg, Bool.false_or] at this
    exact (allState_iff_below ch).1 this k' hb'
  · intro ch hb hkind c hc hd k hk hnp
    have := allBelowL_spec _ hb h4
    unfold dfltCaseB at this
    simp only [hkind, bne_self_eq_false, Bool.false_or, List.all_eq_true, Bool.or_eq_true, bne_iff_ne, ne_eq,
      Bool.not_eq_eq_eq_not, Bool.not_true, List.isEmpty_iff] at this
    rcases this c hc with h | h
    · exact absurd hd h
    · rcases h k hk with h | h
      · rw [hnp] at h; cases h
      · exact h

/-! ## the witness schema -/

/-- `container c { presence; list l { key k; leaf k; container n { choice ch { default d; case d { leaf u { default "9"; } leaf-list dl { default "a"; default "b"; } }
    case e { leaf v { mandatory true; } choice in { mandatory true; case i1 { leaf w; } case i2 { leaf-list x { min-elements 1; max-elements 2; } } } } } leaf m { mandatory true; } } } leaf s { config false; } }` -/
def Sfull : Schema := { modName := "full", nodes := [
  { depth := 0, kind := .container, name := "c", presence := true },
  { depth := 1, kind := .list, name := "l", nkeys := 1 },
  { depth := 2, kind := .leaf, name := "k", iskey := true },
  { depth := 2, kind := .container, name := "n" },
  { depth := 3, kind := .choice, name := "ch", dfltCase := some "d" },
  { depth := 4, kind := .case, name := "d" },
  { depth := 5, kind := .leaf, name := "u", dflts := [[57]] },
  { depth := 5, kind := .leaflist, name := "dl", dflts := [[97], [98]] },
  { depth := 4, kind := .case, name := "e" },
  { depth := 5, kind := .leaf, name := "v", mandatory := true },
  { depth := 5, kind := .choice, name := "in", mandatory := true },
  { depth := 6, kind := .case, name := "i1" },
  { depth := 7, kind := .leaf, name := "w" },
  { depth := 6, kind := .case, name := "i2" },
  { depth := 7, kind := .leaflist, name := "x", min := 1, max := 2 },
  { depth := 2, kind := .leaf, name := "m", mandatory := true },
  { depth := 1, kind := .leaf, name := "s", config := false }] }

def Xfull : SchemaX := { SchemaX.ofSchema Sfull with q := Quirks.fixed }

def flN : Flags := { new := true }

/-- one list entry `l[k='1']` with the content `nk` of `n` and the further children `rest` -/
def fullEntry (nk rest : List DNode) : List DNode :=
  [.inner 0 flN [] [.inner 1 flN [] (.term 2 flN [] [49] :: .inner 3 flN [] nk :: rest)]]

/-- valid: case `e` with `v` and `x = "a"` (the nested mandatory choice is satisfied through `i2`), and `m` -/
def tFullOk : List DNode := fullEntry [.term 9 flN [] [118], .term 14 flN [] [97]] [.term 15 flN [] [109]]
/-- the nested mandatory choice has no data, `m` is missing -/
def tFullBad1 : List DNode := fullEntry [.term 9 flN [] [118]] []
/-- data of the two cases `d` and `e`; three values of `x` -/
def tFullBad2 : List DNode :=
  fullEntry [.term 6 flN [] [57], .term 9 flN [] [118], .term 14 flN [] [97], .term 14 flN [] [98], .term 14 flN [] [99]]
    [.term 15 flN [] [109]]

/-- the witness schema satisfies the schema hypotheses of the assembled theorems, with and without `LYD_VALIDATE_NO_STATE` -/
example : fullSaneB Xfull {} = true := by decide
example : fullSaneB Xfull { noState := true } = true := by decide
example : lookupOkB Xfull = true := by decide
example : infoOkB Xfull = true := by decide
example : FullSane Xfull {} := fullSane_of_B _ _ (by decide)

/-- the three instances are freshly built trees of the schema -/
example : goodL Xfull Xfull.top tFullOk = true ∧ goodL Xfull Xfull.top tFullBad1 = true ∧ goodL Xfull Xfull.top tFullBad2 = true := by
  decide

/-- what the specification says about them -/
example : violations Xfull {} tFullOk = [] := by decide
example : violations Xfull {} tFullBad1 = [.noMandChoice, .noMand] := by decide
example : violations Xfull {} tFullBad2 = [.dupCase, .noMax] := by decide

/-- what the model of `lyd_validate` logs for them -/
example : (validate Xfull {} tFullOk).errs.map (·.kind) = [] := by decide
example : (validate Xfull {} tFullBad1).errs.map (·.kind) = [.noMand, .noMandChoice] := by decide
example : (validate Xfull {} tFullBad2).errs.map (·.kind) = [.dupCase] := by decide

end LyModel.Valid
