import LyModel.Valid.FullFinal2
/-!
# C02, full schema language: completeness of the schema-based checks of one level, with the KIND of the logged error

The multi-error form of `node_complete` / `level_complete` / `level_complete_uniq` (FullFinal2.lean): for a violated cardinality
constraint `K` an error of kind `K` is logged (or a choice has data of two cases).
-/
namespace LyModel.Valid
open LyModel LyModel.Tree

/-- `lyd_validate_minmax` logs a `NoMin` error when there are too few instances, a `NoMax` error when there are too many (with
`min-elements` ≤ `max-elements` not both) -/
theorem minmaxOut_complete_x (S : Schema) (o : VOpts) (cx : Cx) (L : List DNode) (k : STree) (hop : o.operational = false)
    (hmm : k.info.max = 0 ∨ k.info.min ≤ k.info.max) (hmin : k.info.min ≤ uint32Max)
    (hlen : (instsOf L k.sid).length ≤ uint32Max) :
    ((instsOf L k.sid).length < k.info.min → ∃ e ∈ (minmaxOut S o cx L k).errs, e.kind = .noMin) ∧
    (k.info.max ≠ 0 ∧ k.info.max < (instsOf L k.sid).length → ∃ e ∈ (minmaxOut S o cx L k).errs, e.kind = .noMax) := by
  have hiff := minmaxOut_nil_iff S o cx L k hop hmm hmin hlen
  have hmem := minmaxOut_mem S o cx L k hmm hmin hlen
  constructor
  · intro hv
    have hne : (minmaxOut S o cx L k).errs ≠ [] := fun hnil => (hiff.1 hnil).1 hv
    obtain ⟨e, he⟩ := List.exists_mem_of_ne_nil _ hne
    refine ⟨e, he, ?_⟩
    rcases hmem e he with h | h
    · exact h.1
    · exfalso; omega
  · intro hv
    have hne : (minmaxOut S o cx L k).errs ≠ [] := fun hnil => (hiff.1 hnil).2 hv
    obtain ⟨e, he⟩ := List.exists_mem_of_ne_nil _ hne
    refine ⟨e, he, ?_⟩
    rcases hmem e he with h | h
    · exfalso; omega
    · exact h.1

section node
variable (X : SchemaX) (o : VOpts) (cx : Cx) (hop : o.operational = false) {E L : List DNode} (hc : LvCnt X.base E L)
include hop hc

/-- completeness with the kind: a cardinality constraint the explicit data violate is reported under its own kind -/
theorem node_complete_x (k : STree) (hk : k.info.kind ≠ .choice) (hs : saneData k = true)
    (hH : hasInst L k.sid = (hasInst E k.sid || wantsImplicit o k)) :
    ∀ K ∈ cardNode o E k, ∃ e ∈ (nodeOut X o cx L k).errs, e.kind = K := by
  intro K hK
  cases k with
  | mk s i ks =>
    rw [nodeOut_mk]
    dsimp only [STree.info, STree.sid] at hH hk
    have hkc : (i.kind == SKind.choice) = false := by simpa using hk
    rw [cardNode] at hK
    unfold saneData at hs
    simp only [STree.info] at hs
    by_cases hst : (o.noState && !i.config) = true
    · exfalso
      simp only [hst, Bool.not_true, Bool.false_and, Bool.false_eq_true, if_false, List.append_nil] at hK
      cases hkind : i.kind with
      | choice => exact absurd hkind hk
      | case => simp [hkind] at hs
      | container => simp [hkind] at hK
      | leaf => simp [hkind] at hK
      | leaflist => simp [hkind] at hK
      | list => simp [hkind] at hK
    · have hst' : (o.noState && !i.config) = false := by simpa using hst
      simp only [hkc, hst', Bool.or_self, Bool.false_eq_true, if_false]
      simp only [hst', Bool.not_false, Bool.true_and] at hK
      unfold wantsImplicit at hH
      simp only [STree.info, hkc, hst', Bool.not_false, Bool.true_and] at hH
      cases hkind : i.kind with
      | choice => exact absurd hkind hk
      | case => simp [hkind] at hs
      | container => simp [hkind] at hK
      | leaf =>
        simp only [hkind] at hK hs hH ⊢
        by_cases hm : (i.mandatory && (instsOf E s).isEmpty) = true
        · rw [if_pos hm, List.mem_singleton] at hK
          simp only [Bool.and_eq_true, instsOf_isEmpty_iff, Bool.not_eq_eq_eq_not, Bool.not_true] at hm
          have hd : i.dflts.isEmpty = true := by
            have := hs; simp only [hm.1, Bool.true_and, Bool.not_not] at this; exact this
          have hL : hasInst L s = false := by
            rw [hH, hm.2, hd]; simp
          refine ⟨{ kind := .noMand, path := mandLoc X.base cx s }, ?_, hK.symm⟩
          simp [hm.1, hL, hop, Out.err_errs]
        · rw [if_neg hm] at hK; cases hK
      | leaflist =>
        simp only [hkind, Bool.and_eq_true, Bool.or_eq_true, beq_iff_eq] at hK hs hH ⊢
        have hmm := mmSaneB_spec hs.2
        simp only [STree.info] at hmm
        have hviol : (K = .noMin ∧ (instsOf E s).length < i.min) ∨ (K = .noMax ∧ i.max ≠ 0 ∧ i.max < (instsOf E s).length) := by
          rw [List.mem_append] at hK
          rcases hK with hK | hK
          · left
            split at hK
            · rename_i h; exact ⟨List.mem_singleton.1 hK, by simpa using h⟩
            · cases hK
          · right
            split at hK
            · rename_i h; exact ⟨List.mem_singleton.1 hK, by simpa using h⟩
            · cases hK
        have hLE : hasInst L s = hasInst E s := by
          cases hE : hasInst E s with
          | true => rw [hH, hE]; rfl
          | false =>
            have h0 := instsOf_len_zero hE
            have hd : i.dflts.isEmpty = true := by
              rcases hs.1 with hd | hd
              · exact hd
              · exfalso; omega
            rw [hH, hE]; simp [hd]
        have hlen : (instsOf L s).length = (instsOf E s).length := hc.len_eq hLE
        have hx := minmaxOut_complete_x X.base o cx L (.mk s i ks) hop hmm.1 hmm.2 (hc.insts_le hLE)
        simp only [STree.info, STree.sid, hlen] at hx
        rcases hviol with ⟨hK1, hv⟩ | ⟨hK1, hv⟩
        · rw [hK1]; exact hx.1 hv
        · rw [hK1]; exact hx.2 hv
      | list =>
        simp only [hkind] at hK hs hH ⊢
        have hmm := mmSaneB_spec hs
        simp only [STree.info] at hmm
        have hviol : (K = .noMin ∧ (instsOf E s).length < i.min) ∨ (K = .noMax ∧ i.max ≠ 0 ∧ i.max < (instsOf E s).length) := by
          rw [List.mem_append] at hK
          rcases hK with hK | hK
          · left
            split at hK
            · rename_i h; exact ⟨List.mem_singleton.1 hK, by simpa using h⟩
            · cases hK
          · right
            split at hK
            · rename_i h; exact ⟨List.mem_singleton.1 hK, by simpa using h⟩
            · cases hK
        have hLE : hasInst L s = hasInst E s := by rw [hH]; simp
        have hlen : (instsOf L s).length = (instsOf E s).length := hc.len_eq hLE
        have hx := minmaxOut_complete_x X.base o cx L (.mk s i ks) hop hmm.1 hmm.2 (hc.insts_le hLE)
        simp only [STree.info, STree.sid, hlen] at hx
        have hfin : ∃ e ∈ (minmaxOut X.base o cx L (.mk s i ks)).errs, e.kind = K := by
          rcases hviol with ⟨hK1, hv⟩ | ⟨hK1, hv⟩
          · rw [hK1]; exact hx.1 hv
          · rw [hK1]; exact hx.2 hv
        obtain ⟨e, he, hke⟩ := hfin
        exact ⟨e, by rw [Out.append_errs]; exact List.mem_append_left _ he, hke⟩

end node

/-- an error logged for the children of the case `lyd_validate_siblings_schema_r` descends into is an error of the level -/
theorem choice_lift_mem (X : SchemaX) (o : VOpts) (cx : Cx) (L : List DNode) {cks : List STree} {s : Nat} {i : SNode}
    {cases : List STree} {c : STree} (hmem : STree.mk s i cases ∈ cks) (hkind : i.kind = .choice)
    (hst : (o.noState && !i.config) = false) (hf : cases.find? (fun c => c.dataSids.any (hasInst L)) = some c)
    {e : VErr} (he : e ∈ (schemaRL X o cx L c.kids).errs) : e ∈ (schemaRL X o cx L cks).errs := by
  rw [schemaRL_errs_mem]
  left
  refine ⟨_, hmem, ?_⟩
  rw [schemaChoice_eq X o cx L s i cases hkind hst, Out.append_errs]
  apply List.mem_append_right
  unfold caseOut
  rw [hf]
  exact he

section level
variable (X : SchemaX) (o : VOpts) (cx : Cx) (hop : o.operational = false) {E L : List DNode} (hc : LvCnt X.base E L)
include hop hc

theorem level_complete_x_step (cks : List STree)
    (ih : ∀ cks' : List STree, sheightL cks' < sheightL cks → kindsOkL cks' = true → (dataSidsL cks').Nodup → saneL cks' = true →
      Sel o (hasInst E) (hasInst L) cks' → ∀ K ∈ cardL o E cks', K ≠ .dupCase →
      (∃ e ∈ (schemaRL X o cx L cks').errs, e.kind = K) ∨ EKind.dupCase ∈ cardL o E cks')
    (hk : kindsOkL cks = true) (hnd : (dataSidsL cks).Nodup) (hsane : saneL cks = true)
    (hs : Sel o (hasInst E) (hasInst L) cks) :
    ∀ K ∈ cardL o E cks, K ≠ .dupCase → (∃ e ∈ (schemaRL X o cx L cks).errs, e.kind = K) ∨ EKind.dupCase ∈ cardL o E cks := by
  intro K hK hne
  rw [cardL_mem] at hK
  obtain ⟨k, hmem, hK⟩ := hK
  by_cases hkc : k.info.kind = .choice
  · cases k with
    | mk s i cases =>
      have hkind : i.kind = .choice := hkc
      have hsT := saneT_choice (saneL_mem hsane hmem) hkind
      cases hst : (o.noState && !i.config) with
      | true =>
        exfalso
        simp only [Bool.and_eq_true, Bool.not_eq_eq_eq_not, Bool.not_true] at hst
        have hall := hsT.2.1 hst.2
        have hal : (STree.mk s i cases).allState = true := by rw [STree.allState, hst.2, hall]; rfl
        exact hne ((allState_card o E hst.1 _).1 _ (Nat.le_refl _) hal K hK)
      | false =>
        have hdown := (sel_down hs hk hnd hmem hkind).2 hst
        have hds : ∀ c ∈ cases, c.dataSids = dataSidsL c.kids := fun c hc => (sel_kids_wf hk hnd hmem hkind hc).2.2.2
        rw [cardNode_choice_mk o E s i cases hkind, List.mem_append, List.mem_append] at hK
        rcases hK with (hK | hK) | hK
        · split at hK
          · exact absurd (List.mem_singleton.1 hK) hne
          · cases hK
        · -- the mandatory choice without explicit data
          left
          split at hK
          · rename_i hm
            have hKeq : K = .noMandChoice := List.mem_singleton.1 hK
            simp only [hst, Bool.not_false, Bool.true_and, Bool.and_eq_true, List.isEmpty_iff] at hm
            have hnoE : ∀ c ∈ cases, c.dataSids.any (hasInst E) = false := by
              intro c hcm
              have := List.filter_eq_nil_iff.1 hm.2 c hcm
              rw [hasData_eq_any] at this
              simpa using this
            have hsn := selCase_none_of (hsT.1 hm.1) hnoE
            have hnoL : (dataSidsL cases).any (hasInst L) = false := by
              rw [List.any_eq_false]
              intro sid hsid
              obtain ⟨c, hcm, hsc⟩ := mem_dataSidsL hsid
              have hu' := (hdown c hcm).2 (by rw [hsn]; intro h; cases h)
              rw [hu' sid hsc]
              have := List.any_eq_false.1 (hnoE c hcm) sid hsc
              exact this
            have hin : ({ kind := .noMandChoice, path := mandLoc X.base cx s } : VErr) ∈ (schemaRL X o cx L cks).errs := by
              rw [schemaRL_errs_mem]
              left
              refine ⟨_, hmem, ?_⟩
              rw [schemaChoice_eq X o cx L s i cases hkind hst, Out.append_errs]
              apply List.mem_append_left
              simp [hm.1, hnoL, hop, Out.err_errs]
            exact ⟨_, hin, hKeq.symm⟩
          · cases hK
        · -- a constraint inside a case with explicit data
          rw [cardCases_mem] at hK
          obtain ⟨c, hcm, hdE, hKc⟩ := hK
          rw [hasData_eq_any] at hdE
          have hwf := sel_kids_wf hk hnd hmem hkind hcm
          have hcs := saneCs_mem i.dfltCase hsT.2.2 hcm
          rw [cardNode_case_kids o E hwf.2.2.1] at hKc
          by_cases hselc : selCase i cases (hasInst E) = some c
          · have hf := sel_is_first_L hdown hds hselc hdE
            rcases ih c.kids (sheight_down hmem hcm) hwf.1 hwf.2.1 hcs.1 ((hdown c hcm).1 hselc) K hKc hne with ⟨e, he, hke⟩ | h
            · exact Or.inl ⟨e, choice_lift_mem X o cx L hmem hkind hst hf he, hke⟩
            · exact Or.inr (choice_lift_card o E hmem hkind hcm hwf.2.2.1 hdE h)
          · exact Or.inr (choice_two_dup o E hmem hkind hcm hdE hselc)
  · left
    obtain ⟨hsd, _, hH, _⟩ := level_node_facts hs hk hnd hsane hmem hkc
    obtain ⟨e, he, hke⟩ := node_complete_x X o cx hop hc k hkc hsd hH K hK
    refine ⟨e, ?_, hke⟩
    rw [schemaRL_errs_mem]
    exact Or.inr ⟨k, hmem, he⟩

/-- completeness of the schema-based checks of a completed level, with the kind: when the explicit data violate a cardinality
constraint `K` other than "data of two cases", an error of kind `K` is logged — or there are data of two cases -/
theorem level_complete_x : ∀ (n : Nat) (cks : List STree), sheightL cks ≤ n → kindsOkL cks = true → (dataSidsL cks).Nodup →
    saneL cks = true → Sel o (hasInst E) (hasInst L) cks →
    ∀ K ∈ cardL o E cks, K ≠ .dupCase →
      (∃ e ∈ (schemaRL X o cx L cks).errs, e.kind = K) ∨ EKind.dupCase ∈ cardL o E cks := by
  intro n
  induction n with
  | zero =>
    intro cks h
    apply level_complete_x_step X o cx hop hc
    intro cks' hlt; omega
  | succ n ih =>
    intro cks h
    apply level_complete_x_step X o cx hop hc
    intro cks' hlt
    exact ih cks' (by omega)

end level

/-! ## `unique` -/

theorem level_complete_uniq_x_reach (X : SchemaX) (o : VOpts) (cx : Cx) {E L : List DNode} {cks : List STree} {k : STree}
    (hr : Reach (hasInst E) cks k) :
    kindsOkL cks = true → (dataSidsL cks).Nodup → saneL cks = true → Sel o (hasInst E) (hasInst L) cks →
    (∀ ch k', BelowL ch cks → Below k' ch → ch.info.config = false → k'.info.config = false) →
    k.info.kind = .list → (o.noState && !k.info.config) = false → (uniqueOut X o cx L k).errs ≠ [] →
    (∃ e ∈ (schemaRL X o cx L cks).errs, e.kind = .noUniq) ∨ EKind.dupCase ∈ cardL o E cks := by
  induction hr with
  | @here sk k hm h1 h2 =>
    intro _ _ _ _ _ hkind hst hne
    left
    obtain ⟨e, he⟩ := List.exists_mem_of_ne_nil _ hne
    refine ⟨e, ?_, uniqueOut_kind X o cx L k e he⟩
    rw [schemaRL_errs_mem]
    exact Or.inr ⟨k, hm, nodeOut_list_uniq X o cx L k hkind hst e he⟩
  | @through sk ch c k hm hch hc hck hd hr ih =>
    intro hk hnd hsane hs hcfg hkind hst hne
    cases ch with
    | mk s i cases =>
      have hch : i.kind = .choice := hch
      have hc : c ∈ cases := hc
      have hwf := sel_kids_wf hk hnd hm hch hc
      have hsT := saneT_choice (saneL_mem hsane hm) hch
      have hcs := saneCs_mem i.dfltCase hsT.2.2 hc
      have hbk : BelowL k cases := BelowL.trans' hr.belowL (fun a ha => BelowL.kid_of_below (BelowL.of_mem hc) ha)
      cases hstc : (o.noState && !i.config) with
      | true =>
        exfalso
        simp only [Bool.and_eq_true, Bool.not_eq_eq_eq_not, Bool.not_true] at hstc
        have hkc := hcfg (.mk s i cases) k (BelowL.of_mem hm) (Below.kid _ _ _ _ hbk) hstc.2
        rw [hstc.1, hkc] at hst
        cases hst
      | false =>
        have hdown := (sel_down hs hk hnd hm hch).2 hstc
        have hds : ∀ c ∈ cases, c.dataSids = dataSidsL c.kids := fun c hc => (sel_kids_wf hk hnd hm hch hc).2.2.2
        by_cases hselc : selCase i cases (hasInst E) = some c
        · have hf := sel_is_first_L hdown hds hselc hd
          have hcfg' : ∀ ch' k', BelowL ch' c.kids → Below k' ch' → ch'.info.config = false → k'.info.config = false :=
            fun ch' k' hb => hcfg ch' k' (below_case_kids hm hc ch' hb)
          rcases ih hwf.1 hwf.2.1 hcs.1 ((hdown c hc).1 hselc) hcfg' hkind hst hne with ⟨e, he, hke⟩ | h
          · exact Or.inl ⟨e, choice_lift_mem X o cx L hm hch hstc hf he, hke⟩
          · exact Or.inr (choice_lift_card o E hm hch hc hck hd h)
        · exact Or.inr (choice_two_dup o E hm hch hc hd hselc)

/-- completeness for `unique`, with the kind: when `lyd_validate_unique` has an error for a list the specification visits (not
state-guarded), the level logs a `NoUniq` error — or there are data of two cases.  `hcfg`: `config false` is inherited. -/
theorem level_complete_uniq_x (X : SchemaX) (o : VOpts) (cx : Cx) {E L : List DNode} : ∀ (n : Nat) (cks : List STree),
    sheightL cks ≤ n → kindsOkL cks = true → (dataSidsL cks).Nodup → saneL cks = true → Sel o (hasInst E) (hasInst L) cks →
    (∀ ch k', BelowL ch cks → Below k' ch → ch.info.config = false → k'.info.config = false) →
    ∀ k, Reach (hasInst E) cks k → k.info.kind = .list → (o.noState && !k.info.config) = false →
    (uniqueOut X o cx L k).errs ≠ [] →
    (∃ e ∈ (schemaRL X o cx L cks).errs, e.kind = .noUniq) ∨ EKind.dupCase ∈ cardL o E cks :=
  fun _ _ _ hk hnd hsane hs hcfg _ hr hkind hst hne =>
    level_complete_uniq_x_reach X o cx hr hk hnd hsane hs hcfg hkind hst hne

end LyModel.Valid
