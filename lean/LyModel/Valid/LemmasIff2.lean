import LyModel.Valid.LemmasIff
/-! `validate_ok_iff_valid` (C02), plain schemas, part 2: the specification on the explicit data, level by level. -/
namespace LyModel.Valid
open LyModel LyModel.Tree

/-! ## forbidden pairs, grouped by schema node -/

theorem NoPair_filter (S : Schema) (p : DNode → Bool) : ∀ (l : List DNode), NoPair S l → NoPair S (l.filter p) := by
  intro l
  induction l with
  | nil => intro _; simp [NoPair]
  | cons a l ih =>
    intro h
    unfold NoPair at h
    by_cases hp : p a = true
    · rw [List.filter_cons_of_pos hp]
      unfold NoPair
      exact ⟨fun b hb => h.1 b (List.mem_filter.1 hb).1, ih h.2⟩
    · rw [List.filter_cons_of_neg hp]
      exact ih h.2

/-- pairs are forbidden only inside the instances of one schema node -/
theorem NoPair_iff_groups (S : Schema) : ∀ (l : List DNode), NoPair S l ↔ ∀ sid, NoPair S (instsOf l sid) := by
  intro l
  constructor
  · intro h sid; exact NoPair_filter S _ l h
  · induction l with
    | nil => intro _; simp [NoPair]
    | cons a l ih =>
      intro h
      unfold NoPair
      constructor
      · intro b hb hbad
        have hs : b.sid = a.sid := dupOf_sid hbad.2
        have := h a.sid
        unfold instsOf at this
        rw [List.filter_cons_of_pos (by simp)] at this
        unfold NoPair at this
        exact this.1 b (List.mem_filter.2 ⟨hb, by simp [hs]⟩) hbad
      · apply ih
        intro sid
        have := h sid
        unfold instsOf at this ⊢
        by_cases hp : (a.sid == sid) = true
        · simp only [List.filter_cons, hp, if_true] at this
          unfold NoPair at this
          exact this.2
        · simp only [List.filter_cons, hp, Bool.false_eq_true, if_false] at this
          exact this

theorem NoPair_all_bad (S : Schema) (l : List DNode) (h : ∀ a ∈ l, ∀ b ∈ l, Bad S a b) : NoPair S l ↔ l.length ≤ 1 := by
  cases l with
  | nil => simp [NoPair]
  | cons a l =>
    cases l with
    | nil => simp [NoPair]
    | cons b l =>
      simp only [List.length_cons]
      constructor
      · intro hn
        unfold NoPair at hn
        exact absurd (h a (by simp) b (by simp)) (hn.1 b (by simp))
      · intro hl; omega

theorem NoPair_none_bad (S : Schema) (l : List DNode) (h : ∀ a ∈ l, ∀ b ∈ l, ¬ Bad S a b) : NoPair S l := by
  induction l with
  | nil => simp [NoPair]
  | cons a l ih =>
    unfold NoPair
    exact ⟨fun b hb => h a (by simp) b (by simp [hb]), ih (fun x hx y hy => h x (by simp [hx]) y (by simp [hy]))⟩

theorem NoPair_iff_pairwiseNe (S : Schema) (eq : DNode → DNode → Bool) (l : List DNode)
    (h : ∀ a ∈ l, ∀ b ∈ l, (Bad S a b ↔ eq a b = true)) : NoPair S l ↔ pairwiseNe eq l = true := by
  induction l with
  | nil => simp [NoPair, pairwiseNe]
  | cons a l ih =>
    unfold NoPair pairwiseNe
    rw [ih (fun x hx y hy => h x (by simp [hx]) y (by simp [hy]))]
    simp only [Bool.and_eq_true, List.all_eq_true, Bool.not_eq_eq_eq_not, Bool.not_true]
    apply and_congr_left'
    constructor
    · intro hh b hb
      have := hh b hb
      rw [h a (by simp) b (by simp [hb])] at this
      simpa using this
    · intro hh b hb hbad
      have := hh b hb
      rw [(h a (by simp) b (by simp [hb])).1 hbad] at this
      cases this


/-! ## the explicit part of a fresh tree: the same nodes without the library's bookkeeping -/

/-- the explicit form of a node that is not flagged default -/
def exN : DNode → DNode
  | .inner s _ _ ks => .inner s {} [] (explicitL ks)
  | .term s _ _ v => .term s {} [] v

@[simp] theorem exN_sid (n : DNode) : (exN n).sid = n.sid := by cases n <;> rfl
@[simp] theorem exN_val (n : DNode) : (exN n).val = n.val := by cases n <;> rfl
@[simp] theorem exN_isTerm (n : DNode) : (exN n).isTerm = n.isTerm := by cases n <;> rfl
theorem exN_kids (n : DNode) : (exN n).kids = explicitL n.kids := by cases n <;> rfl

theorem explicitL_fresh : ∀ (l : List DNode), isFreshL l = true → explicitL l = l.map exN := by
  intro l
  induction l with
  | nil => intro _; rfl
  | cons n ns ih =>
    intro h
    unfold isFreshL at h
    simp only [Bool.and_eq_true] at h
    have hf := isFreshN_flags h.1
    unfold explicitL
    have : explicitNode n = some (exN n) := by
      cases n with
      | inner s f m ks => simp only [DNode.flags] at hf; subst hf; rfl
      | term s f m v => simp only [DNode.flags] at hf; subst hf; rfl
    rw [this, ih h.2]
    rfl

theorem instsOf_map_exN (l : List DNode) (sid : Nat) : instsOf (l.map exN) sid = (instsOf l sid).map exN := by
  unfold instsOf
  induction l with
  | nil => rfl
  | cons x xs ih =>
    simp only [List.map_cons, List.filter_cons, exN_sid]
    split <;> simp [ih]

theorem keysOf_map_exN (S : Schema) (l : List DNode) : keysOf S (l.map exN) = (keysOf S l).map exN := by
  unfold keysOf
  induction l with
  | nil => rfl
  | cons x xs ih =>
    simp only [List.map_cons, List.takeWhile_cons, exN_sid]
    split <;> simp [ih]

theorem keyVals_exN (S : Schema) (n : DNode) (h : isFreshL n.kids = true) : keyVals S (exN n) = keyVals S n := by
  unfold keyVals
  rw [exN_kids, explicitL_fresh _ h, keysOf_map_exN, List.map_map]
  apply List.map_congr_left
  intro x _
  simp

theorem keysPresent_exN (S : Schema) (lst : Nat) (n : DNode) (h : isFreshL n.kids = true) :
    keysPresent S lst (exN n).kids = keysPresent S lst n.kids := by
  unfold keysPresent
  dsimp only
  rw [exN_kids, explicitL_fresh _ h, ← List.map_take, List.map_map]
  congr 1
  apply List.map_congr_left
  intro x _
  simp

theorem pairwiseNe_map {α β : Type} (f : α → β) (eq : β → β → Bool) : ∀ (l : List α),
    pairwiseNe eq (l.map f) = pairwiseNe (fun a b => eq (f a) (f b)) l := by
  intro l
  induction l with
  | nil => rfl
  | cons x xs ih => simp only [List.map_cons, pairwiseNe, ih, List.all_map]; rfl

theorem pairwiseNe_congr {α : Type} (e1 e2 : α → α → Bool) : ∀ (l : List α), (∀ a ∈ l, ∀ b ∈ l, e1 a b = e2 a b) →
    pairwiseNe e1 l = pairwiseNe e2 l := by
  intro l
  induction l with
  | nil => intro _; rfl
  | cons x xs ih =>
    intro h
    unfold pairwiseNe
    rw [ih (fun a ha b hb => h a (by simp [ha]) b (by simp [hb]))]
    have : xs.all (fun y => !e1 x y) = xs.all (fun y => !e2 x y) := by
      rw [Bool.eq_iff_iff]
      simp only [List.all_eq_true]
      constructor
      · intro hh y hy; rw [← h x (by simp) y (by simp [hy])]; exact hh y hy
      · intro hh y hy; rw [h x (by simp) y (by simp [hy])]; exact hh y hy
    rw [this]


/-! ## the specification of one plain schema node, as a conjunction -/

theorem ite_single_nil {α : Type} (c : Prop) [Decidable c] (a : α) : (if c then [a] else []) = [] ↔ ¬ c := by
  split <;> simp_all

theorem ite_nil_single {α : Type} (c : Prop) [Decidable c] (a : α) : (if c then [] else [a]) = [] ↔ c := by
  split <;> simp_all

theorem flatMap_nil_iff {α β : Type} (f : α → List β) (l : List α) : l.flatMap f = [] ↔ ∀ x ∈ l, f x = [] := by
  induction l with
  | nil => simp
  | cons x xs ih => simp [List.flatMap_cons, ih]

/-- the constraints of a plain schema node on the explicit siblings `E` -/
def specC (X : SchemaX) (o : VOpts) (k : STree) (E : List DNode) : Prop :=
  if (o.noState && !k.info.config) = true then instsOf E k.sid = []
  else
    match k.info.kind with
    | .leaf =>
      (instsOf E k.sid).length ≤ 1 ∧ (k.info.mandatory = true → instsOf E k.sid ≠ []) ∧
        ∀ n ∈ instsOf E k.sid, typeOk k.info.ty n.val = true
    | .leaflist =>
      (k.info.config = true → pairwiseNe (fun a b : DNode => a.val == b.val) (instsOf E k.sid) = true) ∧
        ¬ ((instsOf E k.sid).length < k.info.min) ∧ ¬ (k.info.max ≠ 0 ∧ k.info.max < (instsOf E k.sid).length) ∧
        ∀ n ∈ instsOf E k.sid, typeOk k.info.ty n.val = true
    | .container =>
      (instsOf E k.sid).length ≤ 1 ∧ ∀ e ∈ instsOf E k.sid, specL X o k.kids e.kids = []
    | .list =>
      (∀ e ∈ instsOf E k.sid, keysPresent X.base k.sid e.kids = true) ∧
        (k.info.nkeys ≠ 0 → pairwiseNe (fun a b : DNode => keyVals X.base a == keyVals X.base b) (instsOf E k.sid) = true) ∧
        ¬ ((instsOf E k.sid).length < k.info.min) ∧ ¬ (k.info.max ≠ 0 ∧ k.info.max < (instsOf E k.sid).length) ∧
        ∀ e ∈ instsOf E k.sid, specL X o k.kids e.kids = []
    | _ => True

theorem specNode_plain_iff (X : SchemaX) (o : VOpts) (hu : X.uniques = []) (k : STree) (hp : plainNode k = true) (E : List DNode) :
    specNode X o k E = [] ↔ specC X o k E := by
  cases k with
  | mk s i ks =>
    unfold plainNode at hp
    simp only [STree.info, Bool.and_eq_true, bne_iff_ne, ne_eq, Bool.not_eq_eq_eq_not, Bool.not_true, Bool.and_eq_false_imp,
      List.isEmpty_iff] at hp
    obtain ⟨⟨⟨⟨⟨⟨h1, h2⟩, h3⟩, _⟩, _⟩, _⟩, _⟩ := hp
    unfold specNode specC
    simp only [STree.info, STree.sid, STree.kids]
    by_cases hg : (o.noState && !i.config) = true
    · simp only [hg, if_true, Bool.true_and, Bool.not_true, Bool.false_and, Bool.false_eq_true, if_false, List.append_nil,
        Bool.true_or]
      have hun : X.uniquesOf s = [] := by unfold SchemaX.uniquesOf; simp [hu]
      by_cases he : instsOf E s = []
      · simp only [he, iff_true]
        cases hkind : i.kind with
        | choice => exact absurd hkind h1
        | case => exact absurd hkind h2
        | container =>
          have hpres : i.presence = true := by
            have := h3 (by simp [hkind])
            simpa using this
          simp [hpres]
        | leaf => simp
        | leaflist => simp [pairwiseNe]
        | list => simp [pairwiseNe, keysOk]
      · have hne : (instsOf E s).isEmpty = false := by simpa using he
        simp only [he, iff_false, hne, Bool.not_false, if_true]
        cases hkind : i.kind with
        | choice => exact absurd hkind h1
        | case => exact absurd hkind h2
        | container => simp
        | leaf => simp
        | leaflist => simp
        | list => simp
    · have hg' : (o.noState && !i.config) = false := by simpa using hg
      simp only [hg', Bool.false_eq_true, if_false, Bool.false_and, List.nil_append, Bool.not_false, Bool.true_and, Bool.false_or]
      cases hkind : i.kind with
      | leaf =>
        simp only [List.append_eq_nil_iff, ite_single_nil, ite_nil_single, List.all_eq_true, Bool.and_eq_true, not_and,
          List.isEmpty_iff]
        constructor
        · rintro ⟨⟨ha, hb⟩, hc⟩; exact ⟨by omega, fun hm he => hb hm he, hc⟩
        · rintro ⟨ha, hb, hc⟩; exact ⟨⟨by omega, fun hm he => hb hm he⟩, hc⟩
      | leaflist =>
        simp only [List.append_eq_nil_iff, ite_single_nil, ite_nil_single, List.all_eq_true, Bool.and_eq_true, not_and,
          Bool.not_eq_eq_eq_not, Bool.not_true, bne_iff_ne, ne_eq, decide_eq_true_eq, Bool.not_eq_false]
        constructor
        · rintro ⟨⟨⟨ha, hb⟩, hc⟩, hd⟩; exact ⟨ha, hb, fun hm => by omega, hd⟩
        · rintro ⟨ha, hb, hc, hd⟩; exact ⟨⟨⟨ha, hb⟩, fun hm => by have := hc hm; omega⟩, hd⟩
      | container =>
        have hpres : i.presence = true := by
          have := h3 (by simp [hkind])
          simpa using this
        simp only [hpres, if_true, List.append_eq_nil_iff, ite_single_nil, flatMap_nil_iff]
        constructor
        · rintro ⟨ha, hb⟩; exact ⟨by omega, hb⟩
        · rintro ⟨ha, hb⟩; exact ⟨by omega, hb⟩
      | list =>
        have hun : X.uniquesOf s = [] := by unfold SchemaX.uniquesOf; simp [hu]
        simp only [hun, List.all_nil, if_true, List.append_nil, List.append_eq_nil_iff, ite_single_nil, ite_nil_single,
          flatMap_nil_iff, keysOk, List.all_eq_true, Bool.and_eq_true, not_and, Bool.not_eq_eq_eq_not, Bool.not_true, bne_iff_ne,
          ne_eq, decide_eq_true_eq, Bool.not_eq_false, STree.sid]
        constructor
        · rintro ⟨⟨⟨⟨ha, hb⟩, hc⟩, hd⟩, he⟩; exact ⟨ha, hb, hc, fun hm => by omega, he⟩
        · rintro ⟨ha, hb, hc, hd, he⟩; exact ⟨⟨⟨⟨ha, hb⟩, hc⟩, fun hm => by have := hd hm; omega⟩, he⟩
      | choice => exact absurd hkind h1
      | case => exact absurd hkind h2


/-! ## one schema node: the specification against the model's conditions on its instances -/

/-- what `lyd_new_*` / the parsers check on a node: a value in the value space of its type, a list entry with its keys -/
def bldOkNode (S : Schema) (n : DNode) : Prop :=
  (n.isTerm = true → typeOk (S.ty n.sid) n.val = true) ∧
  (n.isTerm = false → S.isKind n.sid .list = true → keysPresent S n.sid n.kids = true)

mutual
/-- the model's conditions on everything below a node: every level free of forbidden pairs, in order, buildable -/
def deepN (X : SchemaX) (o : VOpts) : DNode → Prop
  | .inner s _ _ ks =>
    (NoPair X.base ks ∧ levelOk X o (X.kidsOf (some s)) ks ∧ ∀ n ∈ ks, bldOkNode X.base n) ∧ deepKids X o ks
  | .term .. => True
def deepKids (X : SchemaX) (o : VOpts) : List DNode → Prop
  | [] => True
  | n :: ns => deepN X o n ∧ deepKids X o ns
end

theorem deepKids_all (X : SchemaX) (o : VOpts) : ∀ (ns : List DNode), deepKids X o ns ↔ ∀ n ∈ ns, deepN X o n := by
  intro ns
  induction ns with
  | nil => simp [deepKids]
  | cons x xs ih => unfold deepKids; simp [ih]

theorem mem_instsOf {l : List DNode} {sid : Nat} {n : DNode} : n ∈ instsOf l sid ↔ n ∈ l ∧ n.sid = sid := by
  unfold instsOf; simp [List.mem_filter]

theorem NoPair_short (S : Schema) (l : List DNode) (h : l.length ≤ 1) : NoPair S l := by
  cases l with
  | nil => simp [NoPair]
  | cons a l =>
    cases l with
    | nil => simp [NoPair]
    | cons b l => simp at h

/-- the facts about a schema node of the table that the tree gives (`InfoOk`) -/
structure InfoFacts (S : Schema) (k : STree) : Prop where
  kind : S.kind? k.sid = some k.info.kind
  cfg : S.config k.sid = k.info.config
  ty : S.ty k.sid = k.info.ty
  dupInst : S.isDupInst k.sid = ((k.info.kind == .list && k.info.nkeys == 0) || (k.info.kind == .leaflist && !k.info.config))

theorem infoFacts_of_get (S : Schema) (k : STree) (h : S.get? k.sid = some k.info) : InfoFacts S k := by
  refine ⟨?_, ?_, ?_, ?_⟩
  · unfold Schema.kind?; rw [h]; rfl
  · unfold Schema.config; rw [h]
  · unfold Schema.ty; rw [h]
  · unfold Schema.isDupInst; rw [h]

/-- the per-node conditions of the model on the instances of `k` -/
def perK (X : SchemaX) (o : VOpts) (sibs : List DNode) (k : STree) : Prop :=
  NoPair X.base (instsOf sibs k.sid) ∧
  ((o.noState && !k.info.config) = true → instsOf sibs k.sid = []) ∧ nodeOk o sibs k ∧
  (∀ n ∈ instsOf sibs k.sid, bldOkNode X.base n) ∧ (∀ n ∈ instsOf sibs k.sid, deepN X o n)

theorem specC_iff_perK (X : SchemaX) (o : VOpts) (sibs : List DNode) (k : STree) (hp : plainNode k = true)
    (hi : InfoFacts X.base k) (hfr : ∀ n ∈ instsOf sibs k.sid, isFreshL n.kids = true)
    (hsh : ∀ n ∈ instsOf sibs k.sid, n.isTerm = (k.info.kind == .leaf || k.info.kind == .leaflist))
    (hrec : ∀ n ∈ instsOf sibs k.sid, n.isTerm = false → (specL X o k.kids (explicitL n.kids) = [] ↔ deepN X o n)) :
    specC X o k (sibs.map exN) ↔ perK X o sibs k := by
  have hplain := hp
  unfold plainNode at hp
  simp only [Bool.and_eq_true, bne_iff_ne, ne_eq, Bool.not_eq_eq_eq_not, Bool.not_true, Bool.and_eq_false_imp,
    List.isEmpty_iff] at hp
  obtain ⟨⟨⟨⟨⟨⟨h1, h2⟩, _⟩, _⟩, hcm⟩, hlm⟩, hllm⟩ := hp
  have hsidI : ∀ n ∈ instsOf sibs k.sid, n.sid = k.sid := fun n hn => (mem_instsOf.1 hn).2
  have hlenE : (instsOf (sibs.map exN) k.sid).length = (instsOf sibs k.sid).length := by
    rw [instsOf_map_exN, List.length_map]
  have hnilE : instsOf (sibs.map exN) k.sid = [] ↔ instsOf sibs k.sid = [] := by
    rw [instsOf_map_exN]; simp
  unfold specC perK
  by_cases hg : (o.noState && !k.info.config) = true
  · -- state node under no-state: no instances, everything else follows
    simp only [hg, if_true, forall_const]
    rw [hnilE]
    constructor
    · intro he
      refine ⟨by rw [he]; simp [NoPair], he, Or.inl hg, by rw [he]; simp, by rw [he]; simp⟩
    · intro h; exact h.2.1
  · have hg' : (o.noState && !k.info.config) = false := by simpa using hg
    simp only [hg', Bool.false_eq_true, if_false, false_imp_iff, true_and]
    unfold nodeOk
    simp only [hg', Bool.false_eq_true, false_or]
    cases hkind : k.info.kind with
    | leaf =>
      have hterm : ∀ n ∈ instsOf sibs k.sid, n.isTerm = true := fun n hn => by rw [hsh n hn, hkind]; rfl
      have hbad : ∀ a ∈ instsOf sibs k.sid, ∀ b ∈ instsOf sibs k.sid, Bad X.base a b := by
        intro a ha b hb
        refine ⟨?_, ?_⟩
        · rw [hsidI a ha, hi.dupInst, hkind]; rfl
        · unfold dupOf; rw [hsidI a ha, hsidI b hb, hi.kind, hkind]; simp
      simp only [instsOf_map_exN, List.length_map, ne_eq, List.map_eq_nil_iff, List.mem_map, forall_exists_index, and_imp, forall_apply_eq_imp_iff₂, exN_val]
      constructor
      · rintro ⟨ha, hb, hc⟩
        refine ⟨NoPair_short _ _ ha, ?_, ?_, ?_⟩
        · intro hm
          have := hb hm
          unfold hasInst
          obtain ⟨n, hn⟩ := List.exists_mem_of_ne_nil _ (by simpa using this : instsOf sibs k.sid ≠ [])
          exact List.any_eq_true.2 ⟨n, (mem_instsOf.1 hn).1, by simp [(mem_instsOf.1 hn).2]⟩
        · intro n hn
          refine ⟨fun _ => by rw [hsidI n hn, hi.ty]; exact hc n hn, fun h => ?_⟩
          rw [hterm n hn] at h; cases h
        · intro n hn
          cases n with
          | term s f m v => simp [deepN]
          | inner s f m ks => have := hterm _ hn; simp [DNode.isTerm] at this
      · rintro ⟨ha, hb, hc, _⟩
        refine ⟨(NoPair_all_bad _ _ hbad).1 ha, ?_, ?_⟩
        · intro hm he
          have := hb hm
          unfold hasInst at this
          obtain ⟨n, hn, hs⟩ := List.any_eq_true.1 this
          have : n ∈ instsOf sibs k.sid := mem_instsOf.2 ⟨hn, by simpa using hs⟩
          rw [he] at this; cases this
        · intro n hn
          have := (hc n hn).1 (hterm n hn)
          rw [hsidI n hn, hi.ty] at this
          exact this
    | leaflist =>
      have hterm : ∀ n ∈ instsOf sibs k.sid, n.isTerm = true := fun n hn => by rw [hsh n hn, hkind]; rfl
      simp only [instsOf_map_exN, List.length_map, ne_eq, List.map_eq_nil_iff, List.mem_map, forall_exists_index, and_imp, forall_apply_eq_imp_iff₂, exN_val]
      have hpw : pairwiseNe (fun a b : DNode => a.val == b.val) ((instsOf sibs k.sid).map exN) =
          pairwiseNe (fun a b : DNode => a.val == b.val) (instsOf sibs k.sid) := by
        rw [pairwiseNe_map]; simp
      rw [hpw]
      have hnp : NoPair X.base (instsOf sibs k.sid) ↔
          (k.info.config = true → pairwiseNe (fun a b : DNode => a.val == b.val) (instsOf sibs k.sid) = true) := by
        by_cases hc : k.info.config = true
        · simp only [hc, forall_const]
          apply NoPair_iff_pairwiseNe
          intro a ha b hb
          unfold Bad dupOf
          rw [hsidI a ha, hsidI b hb, hi.kind, hi.dupInst, hkind, hc]
          simp only [beq_self_eq_true, Bool.true_and]
          constructor
          · rintro ⟨_, h⟩; simp only [beq_iff_eq] at h ⊢; exact h.symm
          · intro h; refine ⟨rfl, ?_⟩; simp only [beq_iff_eq] at h ⊢; exact h.symm
        · have hc' : k.info.config = false := by simpa using hc
          simp only [hc', Bool.false_eq_true, false_imp_iff, iff_true]
          apply NoPair_none_bad
          intro a ha b hb hbad
          have := hbad.1
          rw [hsidI a ha, hi.dupInst, hkind, hc'] at this
          simp at this
      rw [hnp]
      constructor
      · rintro ⟨ha, hb, hc, hd⟩
        refine ⟨ha, ⟨hb, hc⟩, ?_, ?_⟩
        · intro n hn
          refine ⟨fun _ => by rw [hsidI n hn, hi.ty]; exact hd n hn, fun h => ?_⟩
          rw [hterm n hn] at h; cases h
        · intro n hn
          cases n with
          | term s f m v => simp [deepN]
          | inner s f m ks => have := hterm _ hn; simp [DNode.isTerm] at this
      · rintro ⟨ha, ⟨hb, hc⟩, hd, _⟩
        refine ⟨ha, hb, hc, ?_⟩
        intro n hn
        have := (hd n hn).1 (hterm n hn)
        rw [hsidI n hn, hi.ty] at this
        exact this
    | container =>
      have hinner : ∀ n ∈ instsOf sibs k.sid, n.isTerm = false := fun n hn => by rw [hsh n hn, hkind]; rfl
      have hbad : ∀ a ∈ instsOf sibs k.sid, ∀ b ∈ instsOf sibs k.sid, Bad X.base a b := by
        intro a ha b hb
        refine ⟨?_, ?_⟩
        · rw [hsidI a ha, hi.dupInst, hkind]; rfl
        · unfold dupOf; rw [hsidI a ha, hsidI b hb, hi.kind, hkind]; simp
      have hm : k.info.mandatory = false := hcm (by simp [hkind])
      simp only [instsOf_map_exN, List.length_map, ne_eq, List.map_eq_nil_iff, List.mem_map, forall_exists_index, and_imp, forall_apply_eq_imp_iff₂, exN_kids, hm,
        Bool.false_eq_true, false_imp_iff, true_and]
      constructor
      · rintro ⟨ha, hb⟩
        refine ⟨NoPair_short _ _ ha, ?_, ?_⟩
        · intro n hn
          refine ⟨fun h => ?_, fun _ hl => ?_⟩
          · rw [hinner n hn] at h; cases h
          · rw [hsidI n hn] at hl
            unfold Schema.isKind at hl
            rw [hi.kind, hkind] at hl
            simp at hl
        · intro n hn
          exact (hrec n hn (hinner n hn)).1 (hb n hn)
      · rintro ⟨ha, _, hc⟩
        exact ⟨(NoPair_all_bad _ _ hbad).1 ha, fun n hn => (hrec n hn (hinner n hn)).2 (hc n hn)⟩
    | list =>
      have hinner : ∀ n ∈ instsOf sibs k.sid, n.isTerm = false := fun n hn => by rw [hsh n hn, hkind]; rfl
      have hislist : X.base.isKind k.sid .list = true := by
        unfold Schema.isKind; rw [hi.kind, hkind]; rfl
      simp only [instsOf_map_exN, List.length_map, ne_eq, List.map_eq_nil_iff, List.mem_map, forall_exists_index, and_imp, forall_apply_eq_imp_iff₂, exN_kids]
      have hpw : pairwiseNe (fun a b : DNode => keyVals X.base a == keyVals X.base b) ((instsOf sibs k.sid).map exN) =
          pairwiseNe (fun a b : DNode => keyVals X.base a == keyVals X.base b) (instsOf sibs k.sid) := by
        rw [pairwiseNe_map]
        apply pairwiseNe_congr
        intro a ha b hb
        rw [keyVals_exN _ a (hfr a ha), keyVals_exN _ b (hfr b hb)]
      rw [hpw]
      have hkp : (∀ n ∈ instsOf sibs k.sid, keysPresent X.base k.sid (explicitL n.kids) = true) ↔
          (∀ n ∈ instsOf sibs k.sid, keysPresent X.base k.sid n.kids = true) := by
        constructor
        · intro h n hn
          have := h n hn
          rw [← exN_kids, keysPresent_exN _ _ n (hfr n hn)] at this
          exact this
        · intro h n hn
          rw [← exN_kids, keysPresent_exN _ _ n (hfr n hn)]
          exact h n hn
      rw [hkp]
      have hnp : NoPair X.base (instsOf sibs k.sid) ↔
          (k.info.nkeys ≠ 0 → pairwiseNe (fun a b : DNode => keyVals X.base a == keyVals X.base b) (instsOf sibs k.sid) = true) := by
        by_cases hc : k.info.nkeys = 0
        · simp only [hc, ne_eq, not_true_eq_false, false_imp_iff, iff_true]
          apply NoPair_none_bad
          intro a ha b hb hbad
          have := hbad.1
          rw [hsidI a ha, hi.dupInst, hkind, hc] at this
          simp at this
        · simp only [ne_eq, hc, not_false_eq_true, forall_const]
          apply NoPair_iff_pairwiseNe
          intro a ha b hb
          unfold Bad dupOf
          rw [hsidI a ha, hsidI b hb, hi.kind, hi.dupInst, hkind]
          have : (k.info.nkeys == 0) = false := by simpa using hc
          simp only [this, beq_self_eq_true, Bool.true_and, Bool.and_false, Bool.false_or, Bool.and_true]
          constructor
          · rintro ⟨_, h⟩; simp only [beq_iff_eq] at h ⊢; exact h.symm
          · intro h; refine ⟨by simp [hkind], ?_⟩; simp only [beq_iff_eq] at h ⊢; exact h.symm
      rw [hnp]
      constructor
      · rintro ⟨ha, hb, hc, hd, he⟩
        refine ⟨hb, ⟨hc, hd⟩, ?_, ?_⟩
        · intro n hn
          refine ⟨fun h => ?_, fun _ _ => ?_⟩
          · rw [hinner n hn] at h; cases h
          · rw [hsidI n hn]; exact ha n hn
        · intro n hn
          exact (hrec n hn (hinner n hn)).1 (he n hn)
      · rintro ⟨ha, ⟨hb, hc⟩, hd, he⟩
        refine ⟨?_, ha, hb, hc, fun n hn => (hrec n hn (hinner n hn)).2 (he n hn)⟩
        intro n hn
        have := (hd n hn).2 (hinner n hn) (by rw [hsidI n hn]; exact hislist)
        rw [hsidI n hn] at this
        exact this
    | choice => exact absurd hkind h1
    | case => exact absurd hkind h2


/-! ## one sibling level -/

theorem specL_nil_iff (X : SchemaX) (o : VOpts) (E : List DNode) : ∀ (sk : List STree),
    specL X o sk E = [] ↔ ∀ k ∈ sk, specNode X o k E = [] := by
  intro sk
  induction sk with
  | nil => simp [specL]
  | cons k ks ih => unfold specL; simp [List.append_eq_nil_iff, ih]

/-- the model's conditions on one sibling level and everything below -/
def lvlOk (X : SchemaX) (o : VOpts) (sk : List STree) (sibs : List DNode) : Prop :=
  (NoPair X.base sibs ∧ levelOk X o sk sibs ∧ ∀ n ∈ sibs, bldOkNode X.base n) ∧ deepKids X o sibs

theorem level_iff (X : SchemaX) (o : VOpts) (hu : X.uniques = []) (sk : List STree) (sibs : List DNode)
    (hplain : ∀ k ∈ sk, plainNode k = true) (hinfo : ∀ k ∈ sk, InfoFacts X.base k)
    (hpl : ∀ n ∈ sibs, ∃ k ∈ sk, k.sid = n.sid) (hfr : isFreshL sibs = true)
    (hsh : ∀ n ∈ sibs, ∀ k ∈ sk, k.sid = n.sid → n.isTerm = (k.info.kind == .leaf || k.info.kind == .leaflist))
    (hrec : ∀ n ∈ sibs, ∀ k ∈ sk, k.sid = n.sid → n.isTerm = false →
      (specL X o k.kids (explicitL n.kids) = [] ↔ deepN X o n)) :
    specL X o sk (explicitL sibs) = [] ↔ lvlOk X o sk sibs := by
  rw [explicitL_fresh _ hfr, specL_nil_iff]
  have hfrn : ∀ n ∈ sibs, isFreshL n.kids = true := fun n hn => isFreshN_kids ((isFreshL_all sibs).1 hfr n hn)
  have hper : (∀ k ∈ sk, specNode X o k (sibs.map exN) = []) ↔ ∀ k ∈ sk, perK X o sibs k := by
    constructor
    · intro h k hk
      have := (specNode_plain_iff X o hu k (hplain k hk) _).1 (h k hk)
      refine (specC_iff_perK X o sibs k (hplain k hk) (hinfo k hk) ?_ ?_ ?_).1 this
      · intro n hn; exact hfrn n (mem_instsOf.1 hn).1
      · intro n hn; exact hsh n (mem_instsOf.1 hn).1 k hk (mem_instsOf.1 hn).2.symm
      · intro n hn; exact hrec n (mem_instsOf.1 hn).1 k hk (mem_instsOf.1 hn).2.symm
    · intro h k hk
      refine (specNode_plain_iff X o hu k (hplain k hk) _).2 ?_
      refine (specC_iff_perK X o sibs k (hplain k hk) (hinfo k hk) ?_ ?_ ?_).2 (h k hk)
      · intro n hn; exact hfrn n (mem_instsOf.1 hn).1
      · intro n hn; exact hsh n (mem_instsOf.1 hn).1 k hk (mem_instsOf.1 hn).2.symm
      · intro n hn; exact hrec n (mem_instsOf.1 hn).1 k hk (mem_instsOf.1 hn).2.symm
  rw [hper]
  unfold lvlOk perK levelOk
  rw [deepKids_all]
  constructor
  · intro h
    refine ⟨⟨?_, ⟨?_, fun k hk => (h k hk).2.2.1⟩, ?_⟩, ?_⟩
    · rw [NoPair_iff_groups]
      intro sid
      by_cases hex : ∃ k ∈ sk, k.sid = sid
      · obtain ⟨k, hk, rfl⟩ := hex
        exact (h k hk).1
      · have : instsOf sibs sid = [] := by
          apply List.eq_nil_iff_forall_not_mem.2
          intro n hn
          obtain ⟨k, hk, hs⟩ := hpl n (mem_instsOf.1 hn).1
          exact hex ⟨k, hk, by rw [hs]; exact (mem_instsOf.1 hn).2⟩
        rw [this]; simp [NoPair]
    · intro hns n hn
      obtain ⟨k, hk, hs⟩ := hpl n hn
      rw [← hs, (hinfo k hk).cfg]
      cases hc : k.info.config with
      | true => rfl
      | false =>
        have := (h k hk).2.1 (by simp [hns, hc])
        have hmem : n ∈ instsOf sibs k.sid := mem_instsOf.2 ⟨hn, hs.symm⟩
        rw [this] at hmem; cases hmem
    · intro n hn
      obtain ⟨k, hk, hs⟩ := hpl n hn
      exact (h k hk).2.2.2.1 n (mem_instsOf.2 ⟨hn, hs.symm⟩)
    · intro n hn
      obtain ⟨k, hk, hs⟩ := hpl n hn
      exact (h k hk).2.2.2.2 n (mem_instsOf.2 ⟨hn, hs.symm⟩)
  · rintro ⟨⟨ha, ⟨hb1, hb2⟩, hc⟩, hd⟩ k hk
    refine ⟨(NoPair_iff_groups _ _).1 ha k.sid, ?_, hb2 k hk, fun n hn => hc n (mem_instsOf.1 hn).1,
      fun n hn => hd n (mem_instsOf.1 hn).1⟩
    intro hg
    simp only [Bool.and_eq_true, Bool.not_eq_eq_eq_not, Bool.not_true] at hg
    apply List.eq_nil_iff_forall_not_mem.2
    intro n hn
    have := hb1 hg.1 n (mem_instsOf.1 hn).1
    rw [(mem_instsOf.1 hn).2, (hinfo k hk).cfg, hg.2] at this
    cases this


/-! ## all levels -/

/-- an instance of a leaf / leaf-list is a term node, one of a container / list an inner node -/
def shapeOk (sk : List STree) (n : DNode) : Bool :=
  sk.all (fun k => !(k.sid == n.sid) || (n.isTerm == (k.info.kind == .leaf || k.info.kind == .leaflist)))

mutual
def shapedN (X : SchemaX) : DNode → Bool
  | .inner s _ _ ks => shapedL X (X.kidsOf (some s)) ks
  | .term .. => true
def shapedL (X : SchemaX) (sk : List STree) : List DNode → Bool
  | [] => true
  | n :: ns => shapeOk sk n && shapedN X n && shapedL X sk ns
end

theorem shapedL_all (X : SchemaX) (sk : List STree) : ∀ (ns : List DNode), shapedL X sk ns = true ↔
    ∀ n ∈ ns, shapeOk sk n = true ∧ shapedN X n = true := by
  intro ns
  induction ns with
  | nil => simp [shapedL]
  | cons x xs ih => unfold shapedL; simp [ih, and_assoc]

theorem shapeOk_spec {sk : List STree} {n : DNode} (h : shapeOk sk n = true) {k : STree} (hk : k ∈ sk) (hs : k.sid = n.sid) :
    n.isTerm = (k.info.kind == .leaf || k.info.kind == .leaflist) := by
  unfold shapeOk at h
  have := List.all_eq_true.1 h k hk
  simpa [hs] using this

mutual
theorem deepN_iff (X : SchemaX) (o : VOpts) (hu : X.uniques = []) (hl : KidsLookupOk X) (hpl : PlainX X) (hio : InfoOk X) :
    ∀ (n : DNode) (k : STree), BelowL k X.top → k.sid = n.sid → n.isTerm = false → placedN X n = true → isFreshN n = true →
      shapedN X n = true → (specL X o k.kids (explicitL n.kids) = [] ↔ deepN X o n)
  | .term .., _, _, _, ht, _, _, _ => by simp [DNode.isTerm] at ht
  | .inner s f m ks, k, hkb, hks, _, hp, hfr, hsh => by
    have hks' : k.sid = s := hks
    have hkids : X.kidsOf (some s) = k.kids := by rw [← hks']; exact hl k hkb
    have hsk' : ∀ k' ∈ k.kids, BelowL k' X.top := fun k' hk' => BelowL.kid_of_below hkb hk'
    unfold placedN at hp
    unfold shapedN at hsh
    unfold isFreshN at hfr
    rw [hkids] at hp hsh
    simp only [Bool.and_eq_true, decide_eq_true_eq] at hfr
    have hpa := (placedL_all X k.kids ks).1 hp
    have hsa := (shapedL_all X k.kids ks).1 hsh
    have hfa := (isFreshL_all ks).1 hfr.2
    have := level_iff X o hu k.kids ks (fun k' hk' => hpl k' (hsk' k' hk'))
      (fun k' hk' => infoFacts_of_get _ _ (hio k' (hsk' k' hk')))
      (fun n' hn' => by
        obtain ⟨k', hk', hs'⟩ := List.any_eq_true.1 (hpa n' hn').1
        exact ⟨k', hk', by simpa using hs'⟩)
      hfr.2
      (fun n' hn' k' hk' hs' => shapeOk_spec (hsa n' hn').1 hk' hs')
      (fun n' hn' k' hk' hs' ht' => deepL_iff X o hu hl hpl hio ks n' hn' k' (hsk' k' hk') hs' ht' (hpa n' hn').2 (hfa n' hn')
        (hsa n' hn').2)
    show specL X o k.kids (explicitL ks) = [] ↔ deepN X o (.inner s f m ks)
    unfold deepN
    rw [hkids]
    exact this
theorem deepL_iff (X : SchemaX) (o : VOpts) (hu : X.uniques = []) (hl : KidsLookupOk X) (hpl : PlainX X) (hio : InfoOk X) :
    ∀ (ns : List DNode) (n : DNode), n ∈ ns → ∀ (k : STree), BelowL k X.top → k.sid = n.sid → n.isTerm = false →
      placedN X n = true → isFreshN n = true → shapedN X n = true →
      (specL X o k.kids (explicitL n.kids) = [] ↔ deepN X o n)
  | [], _, hn => by cases hn
  | x :: xs, n, hn => by
    rcases List.mem_cons.1 hn with h | h
    · rw [h]; exact deepN_iff X o hu hl hpl hio x
    · exact deepL_iff X o hu hl hpl hio xs n h
end

/-- the whole specification on a fresh tree over a plain schema, in the model's terms -/
theorem spec_iff_lvlOk (X : SchemaX) (o : VOpts) (hu : X.uniques = []) (hl : KidsLookupOk X) (hpl : PlainX X) (hio : InfoOk X)
    (t : List DNode) (hp : placedL X X.top t = true) (hfr : isFreshL t = true) (hsh : shapedL X X.top t = true) :
    specL X o X.top (explicitL t) = [] ↔ lvlOk X o X.top t := by
  have hsk' : ∀ k' ∈ X.top, BelowL k' X.top := fun k' hk' => BelowL.of_mem hk'
  have hpa := (placedL_all X X.top t).1 hp
  have hsa := (shapedL_all X X.top t).1 hsh
  have hfa := (isFreshL_all t).1 hfr
  exact level_iff X o hu X.top t (fun k' hk' => hpl k' (hsk' k' hk'))
    (fun k' hk' => infoFacts_of_get _ _ (hio k' (hsk' k' hk')))
    (fun n' hn' => by
      obtain ⟨k', hk', hs'⟩ := List.any_eq_true.1 (hpa n' hn').1
      exact ⟨k', hk', by simpa using hs'⟩)
    hfr
    (fun n' hn' k' hk' hs' => shapeOk_spec (hsa n' hn').1 hk' hs')
    (fun n' hn' k' hk' hs' ht' => deepN_iff X o hu hl hpl hio n' k' (hsk' k' hk') hs' ht' (hpa n' hn').2 (hfa n' hn')
      (hsa n' hn').2)


/-! ## the model's conditions, regrouped -/

mutual
theorem regroupN (X : SchemaX) (o : VOpts) : ∀ (n : DNode),
    (deepN X o n ∧ bldOkNode X.base n) ↔ (dupDeepN X.base n ∧ finOkN X o n ∧ buildNode X.base n = none)
  | .term s f m v => by
    unfold deepN dupDeepN finOkN buildNode bldOkNode
    simp only [DNode.isTerm, DNode.sid, DNode.val, true_and, forall_const, Bool.true_eq_false, false_imp_iff, and_true]
    split <;> simp_all
  | .inner s f m ks => by
    have ih := regroupL X o ks
    unfold deepN dupDeepN finOkN buildNode bldOkNode
    simp only [DNode.isTerm, DNode.sid, DNode.kids, Bool.false_eq_true, false_imp_iff, true_and, forall_const]
    by_cases hk : (X.base.isKind s .list && !keysPresent X.base s ks) = true
    · simp only [hk, if_true]
      simp only [Bool.and_eq_true, Bool.not_eq_eq_eq_not, Bool.not_true] at hk
      constructor
      · rintro ⟨_, h⟩; have := h hk.1; rw [hk.2] at this; cases this
      · rintro ⟨_, _, h⟩; cases h
    · simp only [hk, Bool.false_eq_true, if_false]
      have hk' : X.base.isKind s .list = true → keysPresent X.base s ks = true := by
        intro h1
        cases h2 : keysPresent X.base s ks with
        | true => rfl
        | false => exact absurd (by simp [h1, h2]) hk
      constructor
      · rintro ⟨⟨⟨h1, h2, h3⟩, h4⟩, _⟩
        obtain ⟨a, b, c⟩ := ih.1 ⟨h4, h3⟩
        exact ⟨⟨h1, a⟩, ⟨h2, b⟩, c⟩
      · rintro ⟨⟨h1, a⟩, ⟨h2, b⟩, c⟩
        obtain ⟨h4, h3⟩ := ih.2 ⟨a, b, c⟩
        exact ⟨⟨⟨h1, h2, h3⟩, h4⟩, hk'⟩
theorem regroupL (X : SchemaX) (o : VOpts) : ∀ (ns : List DNode),
    (deepKids X o ns ∧ ∀ n ∈ ns, bldOkNode X.base n) ↔ (dupDeepL X.base ns ∧ finOkL X o ns ∧ buildL X.base ns = none)
  | [] => by simp [deepKids, dupDeepL, finOkL, buildL]
  | n :: ns => by
    have ih1 := regroupN X o n
    have ih2 := regroupL X o ns
    unfold deepKids dupDeepL finOkL buildL
    simp only [List.mem_cons, forall_eq_or_imp]
    constructor
    · rintro ⟨⟨h1, h2⟩, h3, h4⟩
      obtain ⟨a, b, c⟩ := ih1.1 ⟨h1, h3⟩
      obtain ⟨a', b', c'⟩ := ih2.1 ⟨h2, h4⟩
      refine ⟨⟨a, a'⟩, ⟨b, b'⟩, ?_⟩
      rw [c]; exact c'
    · rintro ⟨⟨a, a'⟩, ⟨b, b'⟩, c⟩
      cases hb : buildNode X.base n with
      | some e => rw [hb] at c; cases c
      | none =>
        rw [hb] at c
        obtain ⟨h1, h3⟩ := ih1.2 ⟨a, b, hb⟩
        obtain ⟨h2, h4⟩ := ih2.2 ⟨a', b', c⟩
        exact ⟨⟨h1, h2⟩, h3, h4⟩
end

theorem lvlOk_top_iff (X : SchemaX) (o : VOpts) (t : List DNode) :
    lvlOk X o X.top t ↔ (buildL X.base t = none ∧ modelOk X o t) := by
  unfold lvlOk modelOk
  have := regroupL X o t
  constructor
  · rintro ⟨⟨h1, h2, h3⟩, h4⟩
    obtain ⟨a, b, c⟩ := this.1 ⟨h4, h3⟩
    exact ⟨c, h1, a, h2, b⟩
  · rintro ⟨c, h1, a, h2, b⟩
    obtain ⟨h4, h3⟩ := this.2 ⟨a, b, c⟩
    exact ⟨⟨h1, h2, h3⟩, h4⟩


/-! ## decidable forms of the schema hypotheses -/

instance (k : STree) : Decidable (mmSane k) := by unfold mmSane; exact inferInstance

def plainSaneB (X : SchemaX) : Bool := allBelowL (fun k => plainNode k && decide (mmSane k)) X.top

theorem plainSane_of_B (X : SchemaX) (h : plainSaneB X = true) : PlainSane X := by
  intro k hk
  have := allBelowL_spec _ hk h
  simpa using this

def infoOkB (X : SchemaX) : Bool := allBelowL (fun k => decide (X.base.get? k.sid = some k.info)) X.top

theorem infoOk_of_B (X : SchemaX) (h : infoOkB X = true) : InfoOk X := by
  intro k hk
  have := allBelowL_spec _ hk h
  simpa using this


mutual
theorem dfltStateN_fresh (S : Schema) : ∀ (n : DNode), isFreshN n = true → dfltStateN S n = false
  | .term s f m v, h => by
    have := isFreshN_flags h
    simp only [DNode.flags] at this
    subst this
    rfl
  | .inner s f m ks, h => by
    have hf := isFreshN_flags h
    have hk := isFreshN_kids h
    simp only [DNode.flags] at hf
    simp only [DNode.kids] at hk
    subst hf
    unfold dfltStateN
    rw [dfltStateL_fresh S ks hk]
    rfl
theorem dfltStateL_fresh (S : Schema) : ∀ (ns : List DNode), isFreshL ns = true → dfltStateL S ns = false
  | [], _ => rfl
  | n :: ns, h => by
    unfold isFreshL at h
    simp only [Bool.and_eq_true] at h
    unfold dfltStateL
    rw [dfltStateN_fresh S n h.1, dfltStateL_fresh S ns h.2]
    rfl
end

end LyModel.Valid
