import LyModel.Valid.New
import LyModel.XPath.Parse
/-!
# `when`: `lyd_validate_unres_when` / `lyd_validate_node_when` (validation.c) — the hook between the subtree walk and the final phases

## The reading of RFC 7950 §7.21.5 for the specification

* A node of the data tree whose schema node carries a `when` (its own, or one on a `choice` / `case` around it up to the
  closest data ancestor; `uses` / `augment` whens are attached the same way by the schema compiler) is **valid only if every
  such expression evaluates to true** ("the node … is only valid when the condition … is true", "If the `when` statement is a
  child of … it makes the … nodes conditional").  So: *a data node with a false `when` must not exist*.
* Context node (§7.21.5): for a `when` directly on a data definition statement the node itself — if it does not exist, "a
  dummy node … in the data tree" at its place (that is how the existence of a default is decided); for a `when` under `choice`,
  `case`, `uses` the closest ancestor that is a data node; for `augment` the target node; the root when there is none.
* **Defaults** (§7.6.1, §7.7.2): the default of a leaf / leaf-list is in use only if the `when` conditions of the node are true
  ("… and if there is a `when` … then the default value is … in use if the condition is true"); a non-presence container exists
  as before, but its conditional descendants follow this rule.
* **Accessible tree** (§6.4.1): the expressions of *other* statements (`must`, `when`, `path`) see the data tree *without* the
  nodes whose `when` is false — in a valid tree there are none, and the defaults in use are only the ones above; hence the
  specification `Valid` can be stated on the explicit data plus the defaults in use, every `when` evaluated on that tree
  (no order of evaluation is visible in a valid tree; the compiler rejects cyclic dependencies).
  `Valid` := no explicit node has a false `when`  ∧  the implicit node of a schema node is in the tree iff it would be
  created (C07) and all its whens (dummy context) are true  ∧  the other constraints on that tree.

## What libyang does (and the model mirrors)

`lyd_validate_subtree` puts every node whose schema node `lysc_has_when` into `node_when`, in DFS (pre-)order — the implicit
nodes too, they are created before their level is walked; `lyd_new_implicit` gives the implicit node of such a schema node
`LYD_DEFAULT | LYD_WHEN_TRUE`.  `lyd_validate_unres` then repeats `lyd_validate_unres_when` while the set shrinks; one round goes
over the set FROM THE END; per node all whens that affect it are evaluated (`lyd_validate_node_when`: its own, then those of
the `choice` / `case` ancestors; first false one wins):
* all true → `LYD_WHEN_TRUE` is set, the node leaves the set;
* one false → a node that carries `LYD_WHEN_TRUE` (an implicit one) is auto-deleted (`lyd_validate_autodel_node_del(…,
  np_cont_diff = 1, …)`, its descendants leave the set), another one is `LY_VCODE_NOWHEN` (nothing under
  `LYD_VALIDATE_OPERATIONAL`); the node leaves the set;
* `LY_EINCOMPLETE` — a step of the expression matched a node (other than the context node) that has a when and no
  `LYD_WHEN_TRUE` (`moveto_node_check`) — the node stays for the next round;
* another evaluation error → logged, the node stays (and is evaluated again while the set shrinks).

## Exactness

`LY_EINCOMPLETE` is decided by `mayTouch`, on the tree but without the evaluator.  For expressions of the usual shape — paths
made of `..`, `.` and child steps without predicates, starting at the context node or the root, combined by operators and
function calls — the nodes each step matches are computed exactly as `moveto_node_check` sees them, and the evaluation is
incomplete iff one of them (other than the context node) has a when and no `whenTrue`; the only difference to libyang is that
both operands of `and` / `or` count (libyang skips the second one when the first decides).  For other shapes (predicates, other
axes, `current()`, filter expressions) the coarse rule applies: incomplete when the expression contains a name test with the
local name (or a `*` / `prefix:*` / `node()` test) of some node of the tree with a when and no `whenTrue`, other than the
context node.  In both cases: libyang incomplete ⇒ model incomplete; `whenIndep` (no expression of a when-node meets another
unresolved one) is the class on which nothing is ever deferred, in libyang and in the model.
NOT modelled: the order change of `ly_set_rm_index` (swap with last) when nested nodes of a deleted implicit container are still
in the set (only possible outside `whenIndep`); whens of `uses` / `augment` with a context other than "node itself" /
"parent" (the table gives a schema id and a text: a data node ⇒ context = the node, a choice / case ⇒ context = the data parent);
the stop at the first error without `LYD_VALIDATE_MULTI_ERROR` (as everywhere in this model the log continues and
`VResult.first` is the verdict).
PRECONDITION on the tree: implicit nodes of when-schema-nodes carry `whenTrue` — `implNode` (Implicit.lean) does not know the
whens and creates them with `dfltFlags`; `markImpl` sets the flag afterwards on every default-flagged node of such a schema node
(exact except for an EXPLICIT EMPTY non-presence container with a when, which libyang reports and `markImpl` lets be deleted).
Core Lean only.
-/
namespace LyModel.Valid
open LyModel LyModel.Tree

/-- the `when` statements: (schema id of the node that carries it, expression text), in statement order -/
abbrev WhenTab := List (Nat × Bytes)

/-- the XPath evaluator the phase is built on: current forest, element number of the context node in document order (1-based,
`0` = the root node), expression text → truth value or an evaluation error -/
abbrev XpEv := List DNode → Nat → Bytes → Except Unit Bool

/-! ## which whens affect a data node (`lysc_node_when` up through `choice` / `case`) -/

def ownWhens (W : WhenTab) (sid : Nat) : List Bytes := (W.filter (·.1 == sid)).map (·.2)

def isChoiceOrCase (S : Schema) (sid : Nat) : Bool := S.isKind sid .choice || S.isKind sid .case

/-- the whens of the `choice` / `case` node `sid` and of the ones around it; context = the data parent (`false`) -/
def whensUp (S : Schema) (W : WhenTab) : Nat → Nat → List (Bool × Bytes)
  | 0, _ => []
  | fuel + 1, sid =>
    (ownWhens W sid).map (fun e => (false, e)) ++
      match sparent S sid with
      | some p => if isChoiceOrCase S p then whensUp S W fuel p else []
      | none => []

/-- the whens a data node inherits from the `uses` / `augment` statement that brought it into the schema (`lysc_when.context` = the
schema PARENT of the node, so the XPath context node is the data parent): the table carries them under the key `sid + #nodes`, which is
no schema id.  In `lysc_node_when` they follow the node's own whens -/
def inhWhens (S : Schema) (W : WhenTab) (sid : Nat) : List Bytes := ownWhens W (sid + S.nodes.length)

/-- all whens that affect an instance of the data node `sid`, in the order `lyd_validate_node_when` evaluates them;
`true` = the context node is the instance itself.  The context node is chosen PER `when` (`when->context == schema`), not per node -/
def whensOf (S : Schema) (W : WhenTab) (sid : Nat) : List (Bool × Bytes) :=
  (ownWhens W sid).map (fun e => (true, e)) ++ (inhWhens S W sid).map (fun e => (false, e)) ++
    match sparent S sid with
    | some p => if isChoiceOrCase S p then whensUp S W S.nodes.length p else []
    | none => []

/-- `lysc_has_when(schema) != NULL` -/
def hasWhen (S : Schema) (W : WhenTab) (sid : Nat) : Bool := !(whensOf S W sid).isEmpty

/-! ## nodes of the forest by their path (child indices from the top level) -/

abbrev NPath := List Nat

def getAt : List DNode → NPath → Option DNode
  | _, [] => none
  | sibs, [i] => sibs[i]?
  | sibs, i :: rest =>
    match sibs[i]? with
    | some n => getAt n.kids rest
    | none => none

def updIdx (f : DNode → DNode) : List DNode → Nat → List DNode
  | [], _ => []
  | n :: ns, 0 => f n :: ns
  | n :: ns, i + 1 => n :: updIdx f ns i

def modifyAt (f : DNode → DNode) : List DNode → NPath → List DNode
  | sibs, [] => sibs
  | sibs, [i] => updIdx f sibs i
  | sibs, i :: rest => updIdx (fun n => n.setKids (modifyAt f n.kids rest)) sibs i

def deleteAt : List DNode → NPath → List DNode
  | sibs, [] => sibs
  | sibs, [i] => sibs.eraseIdx i
  | sibs, i :: rest => updIdx (fun n => n.setKids (deleteAt n.kids rest)) sibs i

mutual
def cntN : DNode → Nat
  | .inner _ _ _ ks => 1 + cntL ks
  | .term .. => 1
def cntL : List DNode → Nat
  | [] => 0
  | n :: ns => cntN n + cntL ns
end

/-- number of nodes before the node at `p` in document order; its element number is one more -/
def beforeAt : List DNode → NPath → Nat
  | _, [] => 0
  | sibs, [i] => cntL (sibs.take i)
  | sibs, i :: rest =>
    cntL (sibs.take i) + 1 +
      match sibs[i]? with
      | some n => beforeAt n.kids rest
      | none => 0

/-- element number of the node at `p`, `0` (root) for the empty path -/
def elemNo (T : List DNode) (p : NPath) : Nat := if p.isEmpty then 0 else beforeAt T p + 1

/-- the sibling level that holds the node at `p`: its context (path and ancestor copies as `lyd_val_diff_add` sees them), the
siblings, the index -/
def levelOf (S : Schema) : Cx → List DNode → NPath → Option (Cx × List DNode × Nat)
  | _, _, [] => none
  | cx, sibs, [i] => some (cx, sibs, i)
  | cx, sibs, i :: rest =>
    match sibs[i]? with
    | some n => levelOf S (cx.descend S (sibs.take i) n) n.kids rest
    | none => none

mutual
/-- the nodes satisfying `p`, in DFS order (`pfx` = path of the node) -/
def npathsN (p : DNode → Bool) (pfx : NPath) : DNode → List NPath
  | .inner s f m ks => (if p (.inner s f m ks) then [pfx] else []) ++ npathsL p pfx 0 ks
  | .term s f m v => if p (.term s f m v) then [pfx] else []
/-- `pfx` = path of the parent, `i` = index of the first node of the list -/
def npathsL (p : DNode → Bool) (pfx : NPath) : Nat → List DNode → List NPath
  | _, [] => []
  | i, n :: ns => npathsN p (pfx ++ [i]) n ++ npathsL p pfx (i + 1) ns
end

/-- the path `q` after the node at `d` was unlinked: `none` when `q` was inside -/
def adjPath : NPath → NPath → Option NPath
  | [], _ => none
  | _ :: _, [] => some []
  | [i], j :: q => if j == i then none else if i < j then some ((j - 1) :: q) else some (j :: q)
  | i :: d, j :: q => if i == j then (adjPath d q).map (j :: ·) else some (j :: q)

/-! ## `LY_EINCOMPLETE`, statically -/

open XPath in
mutual
/-- the name tests of an expression that can match an element: `some local-name`, or `none` for `*`, `prefix:*`, `node()` -/
def testsE : Expr → List (Option Bytes)
  | .lit _ => []
  | .num _ _ => []
  | .fn _ as => testsEs as
  | .bin _ a b => testsE a ++ testsE b
  | .neg a => testsE a
  | .path .root steps => testsSteps steps
  | .path .ctx steps => testsSteps steps
  | .path (.expr e) steps => testsE e ++ testsSteps steps
  | .filter e ps => testsE e ++ testsEs ps
def testsEs : List Expr → List (Option Bytes)
  | [] => []
  | a :: r => testsE a ++ testsEs r
def testsSteps : List Step → List (Option Bytes)
  | [] => []
  | s :: r => testsStep s ++ testsSteps r
def testsStep : Step → List (Option Bytes)
  | .mk _ t ps =>
    (match t with
      | .name _ loc => [some loc]
      | .any => [none]
      | .anyIn _ => [none]
      | .node => [none]
      | .text => []
      | .comment => []) ++ testsEs ps
end

def nameOfSid (S : Schema) (sid : Nat) : Bytes :=
  match S.get? sid with
  | some n => bytesOfString n.name
  | none => []

/-- the local names of the nodes with an unresolved when (a when and no `LYD_WHEN_TRUE`), the node at `cur` excepted -/
def unresolvedNames (S : Schema) (W : WhenTab) (T : List DNode) (cur : NPath) : List Bytes :=
  ((npathsL (fun n => hasWhen S W n.sid && !n.flags.whenTrue) [] 0 T).filter (· != cur)).filterMap fun p =>
    (getAt T p).map fun n => nameOfSid S n.sid

/-- the coarse rule: some test of the expression has the local name of an unresolved node (or is a wildcard while there is one) -/
def mayTouchNames (S : Schema) (W : WhenTab) (T : List DNode) (cur : NPath) (ast : XPath.Expr) : Bool :=
  let us := unresolvedNames S W T cur
  (testsE ast).any fun
    | none => !us.isEmpty
    | some loc => us.contains loc

/-! For the usual shape of a `when` — paths of `..`, `.` and child steps without predicates, from the context node or the root,
combined by operators and function calls — the nodes the steps match are computed on the tree itself, as `moveto_node_check`
sees them. -/

def kidsAt (T : List DNode) (q : NPath) : List DNode :=
  if q.isEmpty then T else
  match getAt T q with
  | some n => n.kids
  | none => []

def testMatches (S : Schema) (t : XPath.Test) (n : DNode) : Option Bool :=
  match t with
  | .name pfx loc =>
    some ((match pfx with
      | none => true
      | some m => m == bytesOfString S.modName) && nameOfSid S n.sid == loc)
  | .any => some true
  | .anyIn m => some (m == bytesOfString S.modName)
  | .node => some true
  | .text => none
  | .comment => none

/-- the element nodes a predicate-free step selects from the context paths `qs`; `none` = not a step of the simple shape -/
def stepSimple (S : Schema) (T : List DNode) (ax : XPath.Axis) (t : XPath.Test) (qs : List NPath) : Option (List NPath) :=
  match ax with
  | .child =>
    qs.foldr (fun q acc =>
      match acc with
      | none => none
      | some r =>
        let hits := (kidsAt T q).zipIdx.filterMap fun (n, i) =>
          match testMatches S t n with
          | some true => some (some (q ++ [i]))
          | some false => none
          | none => some none
        if hits.any (·.isNone) then none else some (hits.filterMap id ++ r)) (some [])
  | .parent =>
    -- the parent of a top-level node is the root, which is no element
    let ps := (qs.filter (fun q => !q.isEmpty)).map (·.dropLast) |>.eraseDups
    ps.foldr (fun q acc =>
      match acc with
      | none => none
      | some r =>
        if q.isEmpty then (match t with | .node => some (q :: r) | .text => none | .comment => none | _ => some r)
        else match getAt T q with
          | some n =>
            (match testMatches S t n with
              | some true => some (q :: r)
              | some false => some r
              | none => none)
          | none => some r) (some [])
  | .self =>
    qs.foldr (fun q acc =>
      match acc with
      | none => none
      | some r =>
        if q.isEmpty then (match t with | .node => some (q :: r) | .text => none | .comment => none | _ => some r)
        else match getAt T q with
          | some n =>
            (match testMatches S t n with
              | some true => some (q :: r)
              | some false => some r
              | none => none)
          | none => some r) (some [])
  | _ => none

/-- all nodes the steps match, step by step (no predicates) -/
def touchedSteps (S : Schema) (T : List DNode) : List XPath.Step → List NPath → Option (List NPath)
  | [], _ => some []
  | .mk ax t ps :: rest, qs =>
    if !ps.isEmpty then none else
    match stepSimple S T ax t qs with
    | none => none
    | some sel =>
      match touchedSteps S T rest sel with
      | none => none
      | some more => some (sel ++ more)

open XPath in
mutual
/-- the nodes matched while evaluating an expression of the simple shape with the context node at `cp` (both operands of
`and` / `or` counted); `none` = another shape -/
def touchE (S : Schema) (T : List DNode) (cp : NPath) : Expr → Option (List NPath)
  | .lit _ => some []
  | .num _ _ => some []
  | .fn _ as => touchEs S T cp as
  | .bin _ a b =>
    match touchE S T cp a, touchE S T cp b with
    | some x, some y => some (x ++ y)
    | _, _ => none
  | .neg a => touchE S T cp a
  | .path .root steps => touchedSteps S T steps [[]]
  | .path .ctx steps => touchedSteps S T steps [cp]
  | .path (.expr _) _ => none
  | .filter _ _ => none
def touchEs (S : Schema) (T : List DNode) (cp : NPath) : List Expr → Option (List NPath)
  | [] => some []
  | a :: r =>
    match touchE S T cp a, touchEs S T cp r with
    | some x, some y => some (x ++ y)
    | _, _ => none
end

/-- `lysc_has_when(schema) && !(node->flags & LYD_WHEN_TRUE) && (node != set->cur_node)` -/
def unresolvedAt (S : Schema) (W : WhenTab) (T : List DNode) (cur q : NPath) : Bool :=
  q != cur &&
  match getAt T q with
  | some n => hasWhen S W n.sid && !n.flags.whenTrue
  | none => false

/-- does the evaluation of `e` with the context node at `cur` meet a node with an unresolved when (`LY_EINCOMPLETE`)?  Exact for
the simple shape (up to the short-circuit of `and` / `or`), the coarse rule otherwise. -/
def mayTouch (S : Schema) (W : WhenTab) (T : List DNode) (cur : NPath) (e : Bytes) : Bool :=
  match XPath.Parse.parse e with
  | none => false
  | some ast =>
    match touchE S T cur ast with
    | some qs => qs.any (unresolvedAt S W T cur)
    | none => mayTouchNames S W T cur ast

/-! ## one node: `lyd_validate_node_when` -/

inductive WhenRes where
  | holds | fails | incomplete | error
  deriving Repr, BEq, DecidableEq

def evalWhens (ev : XpEv) (S : Schema) (W : WhenTab) (T : List DNode) (p : NPath) : List (Bool × Bytes) → WhenRes
  | [] => .holds
  | (self, e) :: rest =>
    let cp := if self then p else p.dropLast
    if mayTouch S W T cp e then .incomplete
    else
      match ev T (elemNo T cp) e with
      | .error _ => .error
      | .ok false => .fails
      | .ok true => evalWhens ev S W T p rest

/-! ## the rounds: `lyd_validate_unres_when`, `lyd_validate_unres` -/

structure WSt where
  tree : List DNode
  /-- `node_when`, in order -/
  set : List NPath
  out : Out := {}
  deriving Inhabited

def setWhenTrue (n : DNode) : DNode := n.setFlags { n.flags with whenTrue := true }

/-- the `i`-th node of the set -/
def stepAt (ev : XpEv) (X : SchemaX) (W : WhenTab) (o : VOpts) (st : WSt) (i : Nat) : WSt :=
  match st.set[i]? with
  | none => st
  | some p =>
    match getAt st.tree p, levelOf X.base {} st.tree p with
    | some n, some (cx, sibs, idx) =>
      let path := cx.pathOf X.base (sibs.take idx) n
      match evalWhens ev X.base W st.tree p (whensOf X.base W n.sid) with
      | .incomplete => st
      | .error => { st with out := st.out ++ Out.err .xpErr path }
      | .holds => { st with tree := modifyAt setWhenTrue st.tree p, set := st.set.eraseIdx i }
      | .fails =>
        if n.flags.whenTrue then
          -- autodelete; the nested nodes leave the set
          { tree := deleteAt st.tree p
            set := (st.set.eraseIdx i).filterMap (adjPath p)
            out := st.out ++ Out.ofEvs (delEvents X cx true (sibs.take idx) n) }
        else if o.operational then { st with set := st.set.eraseIdx i }    -- only a warning
        else { st with set := st.set.eraseIdx i, out := st.out ++ Out.err .noWhen path }
    | _, _ => { st with set := st.set.eraseIdx i }

/-- one round, from the end of the set -/
def roundGo (ev : XpEv) (X : SchemaX) (W : WhenTab) (o : VOpts) : Nat → WSt → WSt
  | 0, st => st
  | i + 1, st => roundGo ev X W o i (stepAt ev X W o st i)

def round (ev : XpEv) (X : SchemaX) (W : WhenTab) (o : VOpts) (st : WSt) : WSt := roundGo ev X W o st.set.length st

/-- `do { prev_count = count; … } while (prev_count > count)` -/
def rounds (ev : XpEv) (X : SchemaX) (W : WhenTab) (o : VOpts) : Nat → WSt → WSt
  | 0, st => st
  | f + 1, st =>
    let st' := round ev X W o st
    if st'.set.length < st.set.length then rounds ev X W o f st' else st'

/-- the when-nodes in the order `lyd_validate_subtree` collects them -/
def whenSet (S : Schema) (W : WhenTab) (T : List DNode) : List NPath := npathsL (fun n => hasWhen S W n.sid) [] 0 T

/-- **the `when` phase** on the tree the subtree walk left (implicit nodes of when-schema-nodes flagged `whenTrue`) -/
def whenPhaseG (ev : XpEv) (X : SchemaX) (W : WhenTab) (o : VOpts) (T : List DNode) : List DNode × Out :=
  let set0 := whenSet X.base W T
  let st := rounds ev X W o (set0.length + 1) { tree := T, set := set0 }
  (st.tree, st.out)

/-! ## the fuel is sufficient: a round that is followed by another one removed an element -/

theorem rounds_fuel (ev : XpEv) (X : SchemaX) (W : WhenTab) (o : VOpts) : ∀ (f : Nat) (st : WSt), st.set.length < f →
    rounds ev X W o (f + 1) st = rounds ev X W o f st := by
  intro f
  induction f with
  | zero => intro st h; omega
  | succ f ih =>
    intro st h
    have e1 : rounds ev X W o (f + 1 + 1) st =
        (if (round ev X W o st).set.length < st.set.length then rounds ev X W o (f + 1) (round ev X W o st)
          else round ev X W o st) := rfl
    have e2 : rounds ev X W o (f + 1) st =
        (if (round ev X W o st).set.length < st.set.length then rounds ev X W o f (round ev X W o st)
          else round ev X W o st) := rfl
    rw [e1, e2]
    split
    · rename_i hlt
      exact ih _ (by omega)
    · rfl

/-- more fuel than the size of the set changes nothing -/
theorem rounds_fuel_add (ev : XpEv) (X : SchemaX) (W : WhenTab) (o : VOpts) (st : WSt) : ∀ (k : Nat),
    rounds ev X W o (st.set.length + 1 + k) st = rounds ev X W o (st.set.length + 1) st := by
  intro k
  induction k with
  | zero => rfl
  | succ k ih =>
    rw [← ih]
    exact rounds_fuel ev X W o (st.set.length + 1 + k) st (by omega)

/-! ## the flag of the implicit nodes -/

mutual
/-- `LYD_WHEN_TRUE` on the default-flagged nodes of schema nodes with a when (what `lyd_new_implicit` does at creation) -/
def markImplN (hw : Nat → Bool) : DNode → DNode
  | .inner s f m ks => .inner s (if hw s && f.dflt then { f with whenTrue := true } else f) m (markImplL hw ks)
  | .term s f m v => .term s (if hw s && f.dflt then { f with whenTrue := true } else f) m v
def markImplL (hw : Nat → Bool) : List DNode → List DNode
  | [] => []
  | n :: ns => markImplN hw n :: markImplL hw ns
end

def markImpl (S : Schema) (W : WhenTab) (T : List DNode) : List DNode := markImplL (hasWhen S W) T

/-- the phase as the validation model calls it until `implNode` sets the flag itself -/
def whenPhaseM (ev : XpEv) (X : SchemaX) (W : WhenTab) (o : VOpts) (T : List DNode) : List DNode × Out :=
  whenPhaseG ev X W o (markImpl X.base W T)

/-- the class on which the static `LY_EINCOMPLETE` is exact: no expression names another node with an unresolved when -/
def whenIndep (S : Schema) (W : WhenTab) (T : List DNode) : Bool :=
  (whenSet S W T).all fun p =>
    match getAt T p with
    | some n => (whensOf S W n.sid).all fun (self, e) => !mayTouch S W T (if self then p else p.dropLast) e
    | none => true

/-! ## without `when` statements the phase does nothing -/

theorem whensUp_nil (S : Schema) : ∀ (fuel sid : Nat), whensUp S [] fuel sid = [] := by
  intro fuel
  induction fuel with
  | zero => intro sid; rfl
  | succ f ih =>
    intro sid
    unfold whensUp
    have h0 : ownWhens [] sid = [] := rfl
    rw [h0]
    cases sparent S sid with
    | none => rfl
    | some p =>
      dsimp only
      split
      · rw [ih]; rfl
      · rfl

theorem whensOf_nil (S : Schema) (sid : Nat) : whensOf S [] sid = [] := by
  unfold whensOf inhWhens
  have h0 : ownWhens [] sid = [] := rfl
  have h1 : ownWhens [] (sid + S.nodes.length) = [] := rfl
  rw [h0, h1]
  cases sparent S sid with
  | none => rfl
  | some p =>
    dsimp only
    split
    · rw [whensUp_nil]; rfl
    · rfl

theorem hasWhen_nil (S : Schema) (sid : Nat) : hasWhen S [] sid = false := by
  unfold hasWhen; rw [whensOf_nil]; rfl

mutual
theorem markImplN_id (hw : Nat → Bool) (h : ∀ s, hw s = false) : ∀ (n : DNode), markImplN hw n = n
  | .inner s f m ks => by
    unfold markImplN
    rw [h s, markImplL_id hw h ks]
    rfl
  | .term s f m v => by
    unfold markImplN
    rw [h s]
    rfl
theorem markImplL_id (hw : Nat → Bool) (h : ∀ s, hw s = false) : ∀ (ns : List DNode), markImplL hw ns = ns
  | [] => by unfold markImplL; rfl
  | n :: ns => by
    unfold markImplL
    rw [markImplN_id hw h n, markImplL_id hw h ns]
end

mutual
theorem npathsN_nil (p : DNode → Bool) (h : ∀ n, p n = false) : ∀ (n : DNode) (pfx : NPath), npathsN p pfx n = []
  | .inner s f m ks, pfx => by
    unfold npathsN
    rw [h, npathsL_nil p h ks]
    rfl
  | .term s f m v, pfx => by
    unfold npathsN
    rw [h]
    rfl
theorem npathsL_nil (p : DNode → Bool) (h : ∀ n, p n = false) : ∀ (ns : List DNode) (pfx : NPath) (i : Nat), npathsL p pfx i ns = []
  | [], _, _ => by unfold npathsL; rfl
  | n :: ns, pfx, i => by
    unfold npathsL
    rw [npathsN_nil p h n, npathsL_nil p h ns]
    rfl
end

theorem whenSet_nil (S : Schema) (T : List DNode) : whenSet S [] T = [] := by
  unfold whenSet
  exact npathsL_nil _ (fun n => hasWhen_nil S n.sid) T [] 0

theorem whenPhaseG_nil (ev : XpEv) (X : SchemaX) (o : VOpts) (T : List DNode) : whenPhaseG ev X [] o T = (T, {}) := by
  unfold whenPhaseG
  rw [whenSet_nil]
  rfl

/-- **without `when` statements the phase is the identity and logs nothing** -/
theorem whenPhaseM_nil (ev : XpEv) (X : SchemaX) (o : VOpts) (T : List DNode) : whenPhaseM ev X [] o T = (T, {}) := by
  unfold whenPhaseM markImpl
  rw [markImplL_id _ (hasWhen_nil X.base), whenPhaseG_nil]

end LyModel.Valid
