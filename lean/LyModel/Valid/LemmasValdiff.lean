import LyModel.Valid.ValApply
import LyModel.Valid.LemmasCaseStable
/-!
# Lemmas for C07 `valdiff_exact`: a validation that changes nothing returns an empty change set, and applying it is the identity
-/
namespace LyModel.Valid
open LyModel LyModel.Tree

theorem flags_beq_refl (f : Flags) : (f == f) = true := by
  cases f; simp

mutual
theorem dnode_beq_refl : ∀ n : DNode, n.beq n = true
  | .term .. => by simp [DNode.beq]
  | .inner _ _ _ ks => by simp [DNode.beq, beqL_refl' ks]
theorem beqL_refl' : ∀ l : List DNode, beqL l l = true
  | [] => by simp [beqL]
  | n :: ns => by simp [beqL, dnode_beq_refl n, beqL_refl' ns]
end

/-- a log without change events and without errors is empty -/
theorem log_nil_of (l : List Item)
    (h1 : (l.filterMap fun | .ev e => some e | .err _ => none) = [])
    (h2 : (l.filterMap fun | .err e => some e | .ev _ => none) = []) : l = [] := by
  cases l with
  | nil => rfl
  | cons it rest =>
    cases it with
    | ev e => simp at h1
    | err e => simp at h2

/-- the change set of a validation that logged nothing is empty -/
theorem validateDiff_of_quiet (X : SchemaX) (o : VOpts) (T : List DNode)
    (he : (validate X o T).evs = []) (hv : (validate X o T).errs = []) : validateDiff X o T = some [] := by
  have hl : (validate X o T).log = [] := log_nil_of _ he hv
  unfold validateDiff
  rw [hl]
  rfl

/-- **a validation that changes nothing**: its change set is empty and `lyd_diff_apply_all` of it leaves the input as it is, which is
the validated tree -/
theorem valdiffExact_of_unchanged (X : SchemaX) (o : VOpts) (fx : Diff.Fixes) (T : List DNode)
    (ht : (validate X o T).tree = T) (he : (validate X o T).evs = []) (hv : (validate X o T).errs = []) :
    validateDiff X o T = some [] ∧ valdiffApply X o fx T = .ok T ∧ valdiffExact X o fx T = true := by
  have hd := validateDiff_of_quiet X o T he hv
  have ha : valdiffApply X o fx T = .ok T := by
    unfold valdiffApply
    rw [hd]
    rfl
  refine ⟨hd, ha, ?_⟩
  unfold valdiffExact
  rw [ha, ht]
  exact beqL_refl' _

end LyModel.Valid
