import LyModel.Valid.XpWhenIff
/-!
# A decidable form of "nothing is deferred" (`wi_NoTouch`)

`mayTouch` reads the forest through its shape and through the `whenTrue` flags (`unresolvedAt`, `unresolvedNames`); fewer flags can
only mean more touching, so the worst case is the shape itself (no flag set): `whenNoTouchB`.
-/
namespace LyModel.Valid
open LyModel LyModel.Tree

theorem wd_kidsAt_shape (T : List DNode) (q : NPath) : kidsAt (shapeL T) q = shapeL (kidsAt T q) := by
  unfold kidsAt
  split
  · rfl
  · rw [wi_getAt_shape]
    cases getAt T q with
    | none => simp only [Option.map_none]; rw [shapeL]
    | some n => simp only [Option.map_some]; exact shapeN_kids n

theorem wd_testMatches_shape (S : Schema) (t : XPath.Test) (n : DNode) : testMatches S t (shapeN n) = testMatches S t n := by
  unfold testMatches
  rw [shapeN_sid]

theorem wd_stepSimple_shape (S : Schema) (T : List DNode) (ax : XPath.Axis) (t : XPath.Test) (qs : List NPath) :
    stepSimple S (shapeL T) ax t qs = stepSimple S T ax t qs := by
  unfold stepSimple
  cases ax with
  | child =>
    dsimp only
    congr 1
    funext q acc
    cases acc with
    | none => rfl
    | some r =>
      dsimp only
      rw [wd_kidsAt_shape, wi_shapeL_map, List.zipIdx_map, List.filterMap_map]
      simp only [Function.comp_def, Prod.map_fst, Prod.map_snd, id_eq, wd_testMatches_shape]
  | parent =>
    dsimp only
    congr 1
    funext q acc
    cases acc with
    | none => rfl
    | some r =>
      dsimp only
      rw [wi_getAt_shape]
      cases getAt T q with
      | none => rfl
      | some n => simp only [Option.map_some, wd_testMatches_shape]
  | self =>
    dsimp only
    congr 1
    funext q acc
    cases acc with
    | none => rfl
    | some r =>
      dsimp only
      rw [wi_getAt_shape]
      cases getAt T q with
      | none => rfl
      | some n => simp only [Option.map_some, wd_testMatches_shape]
  | _ => rfl

theorem wd_touchedSteps_shape (S : Schema) (T : List DNode) : ∀ (steps : List XPath.Step) (qs : List NPath),
    touchedSteps S (shapeL T) steps qs = touchedSteps S T steps qs
  | [], _ => by rw [touchedSteps, touchedSteps]
  | .mk ax t ps :: rest, qs => by
    rw [touchedSteps, touchedSteps, wd_stepSimple_shape]
    split
    · rfl
    · cases stepSimple S T ax t qs with
      | none => rfl
      | some sel => dsimp only; rw [wd_touchedSteps_shape S T rest sel]

open XPath in
mutual
theorem wd_touchE_shape (S : Schema) (T : List DNode) (cp : NPath) : ∀ (e : Expr), touchE S (shapeL T) cp e = touchE S T cp e
  | .lit _ => by rw [touchE, touchE]
  | .num _ _ => by rw [touchE, touchE]
  | .fn _ as => by rw [touchE, touchE, wd_touchEs_shape S T cp as]
  | .bin _ a b => by rw [touchE, touchE, wd_touchE_shape S T cp a, wd_touchE_shape S T cp b]
  | .neg a => by rw [touchE, touchE, wd_touchE_shape S T cp a]
  | .path .root steps => by rw [touchE, touchE, wd_touchedSteps_shape]
  | .path .ctx steps => by rw [touchE, touchE, wd_touchedSteps_shape]
  | .path (.expr _) _ => by rw [touchE, touchE]
  | .filter _ _ => by rw [touchE, touchE]
theorem wd_touchEs_shape (S : Schema) (T : List DNode) (cp : NPath) : ∀ (es : List Expr), touchEs S (shapeL T) cp es = touchEs S T cp es
  | [] => by rw [touchEs, touchEs]
  | a :: r => by rw [touchEs, touchEs, wd_touchE_shape S T cp a, wd_touchEs_shape S T cp r]
end

theorem wd_shapeN_flags (n : DNode) : (shapeN n).flags = {} := by cases n <;> rfl

/-- fewer flags: more unresolved nodes -/
theorem wd_unresolvedAt_shape (S : Schema) (W : WhenTab) (T : List DNode) (cur q : NPath) (h : unresolvedAt S W T cur q = true) :
    unresolvedAt S W (shapeL T) cur q = true := by
  unfold unresolvedAt at h ⊢
  rw [wi_getAt_shape]
  rw [Bool.and_eq_true] at h ⊢
  refine ⟨h.1, ?_⟩
  cases hg : getAt T q with
  | none => rw [hg] at h; exact absurd h.2 (by simp)
  | some n =>
    rw [hg] at h
    simp only [Option.map_some]
    rw [shapeN_sid, wd_shapeN_flags]
    have := h.2
    simp only [Bool.and_eq_true] at this ⊢
    exact ⟨this.1, rfl⟩

mutual
theorem wd_npathsN_sub (P Q : DNode → Bool) (h : ∀ n, P n = true → Q (shapeN n) = true) : ∀ (n : DNode) (pfx q : NPath),
    q ∈ npathsN P pfx n → q ∈ npathsN Q pfx (shapeN n)
  | .inner s f m ks, pfx, q, hq => by
    have hn := h (.inner s f m ks)
    rw [shapeN] at hn ⊢
    rw [npathsN, List.mem_append] at hq ⊢
    rcases hq with hq | hq
    · left
      split at hq
      · rename_i hp; rw [if_pos (hn hp)]; exact hq
      · cases hq
    · exact Or.inr (wd_npathsL_sub P Q h ks pfx 0 q hq)
  | .term s f m v, pfx, q, hq => by
    have hn := h (.term s f m v)
    rw [shapeN] at hn ⊢
    rw [npathsN] at hq ⊢
    split at hq
    · rename_i hp; rw [if_pos (hn hp)]; exact hq
    · cases hq
theorem wd_npathsL_sub (P Q : DNode → Bool) (h : ∀ n, P n = true → Q (shapeN n) = true) : ∀ (ns : List DNode) (pfx : NPath) (i : Nat)
    (q : NPath), q ∈ npathsL P pfx i ns → q ∈ npathsL Q pfx i (shapeL ns)
  | [], _, _, q, hq => by rw [npathsL] at hq; cases hq
  | n :: ns, pfx, i, q, hq => by
    rw [shapeL]
    rw [npathsL, List.mem_append] at hq ⊢
    rcases hq with hq | hq
    · exact Or.inl (wd_npathsN_sub P Q h n _ q hq)
    · exact Or.inr (wd_npathsL_sub P Q h ns pfx _ q hq)
end

theorem wd_unresolvedNames_sub (S : Schema) (W : WhenTab) (T : List DNode) (cur : NPath) :
    ∀ x ∈ unresolvedNames S W T cur, x ∈ unresolvedNames S W (shapeL T) cur := by
  intro x hx
  unfold unresolvedNames at hx ⊢
  rw [List.mem_filterMap] at hx ⊢
  obtain ⟨p, hp, hpx⟩ := hx
  rw [List.mem_filter] at hp
  refine ⟨p, List.mem_filter.2 ⟨?_, hp.2⟩, ?_⟩
  · apply wd_npathsL_sub _ _ _ T [] 0 p hp.1
    intro n hn
    rw [shapeN_sid, wd_shapeN_flags]
    simp only [Bool.and_eq_true] at hn ⊢
    exact ⟨hn.1, rfl⟩
  · rw [wi_getAt_shape]
    cases hg : getAt T p with
    | none => rw [hg] at hpx; cases hpx
    | some n =>
      rw [hg] at hpx
      simp only [Option.map_some] at hpx ⊢
      rw [shapeN_sid]
      exact hpx

theorem wd_mayTouchNames_shape (S : Schema) (W : WhenTab) (T : List DNode) (cur : NPath) (ast : XPath.Expr)
    (h : mayTouchNames S W T cur ast = true) : mayTouchNames S W (shapeL T) cur ast = true := by
  unfold mayTouchNames at h ⊢
  dsimp only at h ⊢
  rw [List.any_eq_true] at h ⊢
  obtain ⟨t, ht, hb⟩ := h
  refine ⟨t, ht, ?_⟩
  have hsub := wd_unresolvedNames_sub S W T cur
  cases t with
  | none =>
    dsimp only at hb ⊢
    cases hu : unresolvedNames S W T cur with
    | nil => rw [hu] at hb; cases hb
    | cons x xs =>
      have hx : x ∈ unresolvedNames S W (shapeL T) cur := hsub x (by rw [hu]; exact List.mem_cons_self)
      cases hu' : unresolvedNames S W (shapeL T) cur with
      | nil => rw [hu'] at hx; cases hx
      | cons y ys => rfl
  | some loc =>
    dsimp only at hb ⊢
    rw [List.contains_iff_mem] at hb ⊢
    exact hsub loc hb

/-- **fewer flags can only mean more touching**: the shape (no flag set) is the worst case -/
theorem wd_mayTouch_shape (S : Schema) (W : WhenTab) (T : List DNode) (cur : NPath) (e : Bytes) (h : mayTouch S W T cur e = true) :
    mayTouch S W (shapeL T) cur e = true := by
  unfold mayTouch at h ⊢
  cases hp : XPath.Parse.parse e with
  | none => rw [hp] at h; cases h
  | some ast =>
    rw [hp] at h
    dsimp only at h ⊢
    rw [wd_touchE_shape]
    cases ht : touchE S T cur ast with
    | none =>
      rw [ht] at h
      exact wd_mayTouchNames_shape S W T cur ast h
    | some qs =>
      rw [ht] at h
      dsimp only at h ⊢
      rw [List.any_eq_true] at h ⊢
      obtain ⟨q, hq, hu⟩ := h
      exact ⟨q, hq, wd_unresolvedAt_shape S W T cur q hu⟩

/-- decidable "nothing is deferred": no when of a when-node may touch another unresolved node on the shape of the tree, where no
node is resolved -/
def whenNoTouchB (X : SchemaX) (W : WhenTab) (T : List DNode) : Bool :=
  (whenSet X.base W T).all fun p =>
    match getAt T p with
    | some n => (whensOf X.base W n.sid).all fun w => !mayTouch X.base W (shapeL T) (if w.1 then p else p.dropLast) w.2
    | none => true

theorem wi_NoTouch_of_B (X : SchemaX) (W : WhenTab) (T : List DNode) (h : whenNoTouchB X W T = true) : wi_NoTouch X W T := by
  intro T' hT' p hp n' hn' w hw
  cases hm : mayTouch X.base W T' (if w.1 = true then p else p.dropLast) w.2 with
  | false => rfl
  | true =>
    exfalso
    have h1 := wd_mayTouch_shape X.base W T' _ _ hm
    rw [hT'] at h1
    unfold whenNoTouchB at h
    rw [List.all_eq_true] at h
    have hv : (getAt T p).isSome = true := wi_whenSet_valid X.base W T p hp
    cases hn : getAt T p with
    | none => rw [hn] at hv; cases hv
    | some n =>
      have := h p hp
      rw [hn] at this
      dsimp only at this
      rw [List.all_eq_true] at this
      have hs := wi_sid_of_shape hT' hn hn'
      rw [hs] at hw
      have := this w hw
      rw [h1] at this
      cases this

theorem wd_noTouchB_mono (X : SchemaX) (W : WhenTab) {T1 T2 : List DNode} (h : shapeL T1 = shapeL T2)
    (h1 : whenNoTouchB X W T1 = true) : whenNoTouchB X W T2 = true := by
  unfold whenNoTouchB at h1 ⊢
  rw [List.all_eq_true] at h1 ⊢
  intro p hp
  rw [← wi_whenSet_of_shape X.base W h] at hp
  have hv : (getAt T1 p).isSome = true := wi_whenSet_valid X.base W T1 p hp
  cases hn2 : getAt T2 p with
  | none => rfl
  | some n2 =>
    cases hn1 : getAt T1 p with
    | none => rw [hn1] at hv; cases hv
    | some n1 =>
      have := h1 p hp
      rw [hn1] at this
      dsimp only at this ⊢
      rw [wi_sid_of_shape h.symm hn1 hn2, ← h]
      exact this

/-- the decidable condition depends on the shape only: it can be evaluated on any tree of the shape -/
theorem whenNoTouchB_of_shape (X : SchemaX) (W : WhenTab) {T1 T2 : List DNode} (h : shapeL T1 = shapeL T2) :
    whenNoTouchB X W T1 = whenNoTouchB X W T2 := by
  rw [Bool.eq_iff_iff]
  exact ⟨wd_noTouchB_mono X W h, wd_noTouchB_mono X W h.symm⟩

/-- the form for `whenPhase_nodel_iff`: the hypothesis on the tree after `markImpl` from the decidable condition on `T` -/
theorem wi_NoTouch_markImpl_of_B (X : SchemaX) (W : WhenTab) (T : List DNode) (h : whenNoTouchB X W T = true) :
    wi_NoTouch X W (markImpl X.base W T) := by
  apply wi_NoTouch_of_B
  have hsh : shapeL (markImpl X.base W T) = shapeL T := xs_shapeL_markImpl (hasWhen X.base W) T
  rw [whenNoTouchB_of_shape X W hsh]
  exact h

end LyModel.Valid
