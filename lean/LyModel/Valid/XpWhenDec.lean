import LyModel.Valid.XpWhenIff
/-!
# A decidable form of "nothing is deferred" (`wi_NoTouch`)

`mayTouch` reads the forest through its shape and through the `whenTrue` flags (`unresolvedAt`, `unresolvedNames`); fewer flags can
only mean more touching, so the worst case is the shape itself (no flag set): `whenNoTouchB`.
-/
namespace LyModel.Valid
open LyModel LyModel.Tree

theorem wd_kidsAt_shape (T : List DNode) (q : NPath) : kidsAt (shapeL T) q = shapeL (kidsAt T q) := by
  unfold kidsAt
  split
  · rfl
  · rw [wi_getAt_shape]
    cases getAt T q with
    | none => simp only [Option.map_none]; rw [shapeL]
    | some n => simp only [Option.map_some]; exact shapeN_kids n

theorem wd_testMatches_shape (S : Schema) (t : XPath.Test) (n : DNode) : testMatches S t (shapeN n) = testMatches S t n := by
  unfold testMatches
  rw [shapeN_sid]

theorem wd_stepSimple_shape (S : Schema) (T : List DNode) (ax : XPath.Axis) (t : XPath.Test) (qs : List NPath) :
    stepSimple S (shapeL T) ax t qs = stepSimple S T ax t qs := by
  unfold stepSimple
  cases ax with
  | child =>
    dsimp only
    congr 1
    funext q acc
    cases acc with
    | none => rfl
    | some r =>
      dsimp only
      rw [wd_kidsAt_shape, wi_shapeL_map, List.zipIdx_map, List.filterMap_map]
      simp only [Function.comp_def, Prod.map_fst, Prod.map_snd, id_eq, wd_testMatches_shape]
  | parent =>
    dsimp only
    congr 1
    funext q acc
    cases acc with
    | none => rfl
    | some r =>
      dsimp only
      rw [wi_getAt_shape]
      cases getAt T q with
      | none => rfl
      | some n => simp only [Option.map_some, wd_testMatches_shape]
  | self =>
    dsimp only
    congr 1
    funext q acc
    cases acc with
    | none => rfl
    | some r =>
      dsimp only
      rw [wi_getAt_shape]
      cases getAt T q with
      | none => rfl
      | some n => simp only [Option.map_some, wd_testMatches_shape]
  | _ => rfl

theorem wd_touchedSteps_shape (S : Schema) (T : List DNode) : ∀ (steps : List XPath.Step) (qs : List NPath),
    touchedSteps S (shapeL T) steps qs = touchedSteps S T steps qs
  | [], _ => by rw [touchedSteps, touchedSteps]
  | .mk ax t ps :: rest, qs => by
    rw [touchedSteps, touchedSteps, wd_stepSimple_shape]
    split
    · rfl
    · cases stepSimple S T ax t qs with
      | none => rfl
      | some sel => dsimp only; rw [wd_touchedSteps_shape S T rest sel]

open XPath in
mutual
theorem wd_touchE_shape (S : Schema) (T : List DNode) (cp : NPath) : ∀ (e : Expr), touchE S (shapeL T) cp e = touchE S T cp e
  | .lit _ => by rw [touchE, touchE]
  | .num _ _ => by rw [touchE, touchE]
  | .fn _ as => by rw [touchE, touchE, wd_touchEs_shape S T cp as]
  | .bin _ a b => by rw [touchE, touchE, wd_touchE_shape S T cp a, wd_touchE_shape S T cp b]
  | .neg a => by rw [touchE, touchE, wd_touchE_shape S T cp a]
  | .path .root steps => by rw [touchE, touchE, wd_touchedSteps_shape]
  | .path .ctx steps => by rw [touchE, touchE, wd_touchedSteps_shape]
  | .path (.expr _) _ => by rw [touchE, touchE]
  | .filter _ _ => by rw [touchE, touchE]
theorem wd_touchEs_shape (S : Schema) (T : List DNode) (cp : NPath) : ∀ (es : List Expr), touchEs S (shapeL T) cp es = touchEs S T cp es
  | [] => by rw [touchEs, touchEs]
  | a :: r => by rw [touchEs, touchEs, wd_touchE_shape S T cp a, wd_touchEs_shape S T cp r]
end

end LyModel.Valid
