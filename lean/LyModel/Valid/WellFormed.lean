import LyModel.Valid.LemmasStable
/-! Decidable forms of the schema hypotheses of the C07 / C02 theorems (`KidsLookupOk`, `NoChoiceX`), so that a concrete schema
discharges them by evaluation. -/
namespace LyModel.Valid
open LyModel LyModel.Tree

deriving instance DecidableEq for BaseTy
deriving instance DecidableEq for SNode

mutual
def steq : STree → STree → Bool
  | .mk s i ks, .mk s' i' ks' => s == s' && decide (i = i') && steqL ks ks'
def steqL : List STree → List STree → Bool
  | [], [] => true
  | a :: as, b :: bs => steq a b && steqL as bs
  | _, _ => false
end

mutual
theorem steq_eq : ∀ (a b : STree), steq a b = true → a = b
  | .mk s i ks, .mk s' i' ks', h => by
    unfold steq at h
    simp only [Bool.and_eq_true, beq_iff_eq, decide_eq_true_eq] at h
    obtain ⟨⟨h1, h2⟩, h3⟩ := h
    rw [h1, h2, steqL_eq ks ks' h3]
theorem steqL_eq : ∀ (a b : List STree), steqL a b = true → a = b
  | [], [], _ => rfl
  | a :: as, b :: bs, h => by
    unfold steqL at h
    simp only [Bool.and_eq_true] at h
    rw [steq_eq a b h.1, steqL_eq as bs h.2]
  | [], _ :: _, h => by simp [steqL] at h
  | _ :: _, [], h => by simp [steqL] at h
end

mutual
/-- `p` holds for the node and every schema node below it -/
def allBelow (p : STree → Bool) : STree → Bool
  | .mk s i ks => p (.mk s i ks) && allBelowL p ks
def allBelowL (p : STree → Bool) : List STree → Bool
  | [] => true
  | t :: ts => allBelow p t && allBelowL p ts
end

mutual
theorem allBelow_spec (p : STree → Bool) : ∀ {k t : STree}, Below k t → allBelow p t = true → p k = true
  | _, _, .self t, h => by
    cases t with
    | mk s i ks => unfold allBelow at h; simp only [Bool.and_eq_true] at h; exact h.1
  | _, _, .kid _ s i ks hb, h => by
    unfold allBelow at h; simp only [Bool.and_eq_true] at h
    exact allBelowL_spec p hb h.2
theorem allBelowL_spec (p : STree → Bool) : ∀ {k : STree} {ts : List STree}, BelowL k ts → allBelowL p ts = true → p k = true
  | _, _, .head _ _ _ hb, h => by
    unfold allBelowL at h; simp only [Bool.and_eq_true] at h
    exact allBelow_spec p hb h.1
  | _, _, .tail _ _ _ hb, h => by
    unfold allBelowL at h; simp only [Bool.and_eq_true] at h
    exact allBelowL_spec p hb h.2
end

/-- decidable `KidsLookupOk` -/
def lookupOkB (X : SchemaX) : Bool := allBelowL (fun k => steqL (X.kidsOf (some k.sid)) k.kids) X.top

theorem lookupOk_of_B (X : SchemaX) (h : lookupOkB X = true) : KidsLookupOk X := by
  intro k hk
  exact steqL_eq _ _ (allBelowL_spec _ hk h)

mutual
theorem find?_below : ∀ (t : STree) (x : Nat) (r : STree), t.find? x = some r → Below r t
  | .mk s i ks, x, r, h => by
    unfold STree.find? at h
    split at h
    · injection h with h; subst h; exact Below.self _
    · exact Below.kid _ _ _ _ (findL?_below ks x r h)
theorem findL?_below : ∀ (ts : List STree) (x : Nat) (r : STree), findL? ts x = some r → BelowL r ts
  | [], _, _, h => by simp [findL?] at h
  | t :: ts, x, r, h => by
    unfold findL? at h
    split at h
    · rename_i r' hr
      injection h with h; subst h
      exact BelowL.head _ _ _ (find?_below t x _ hr)
    · exact BelowL.tail _ _ _ (findL?_below ts x r h)
end

/-- decidable `NoChoiceX` -/
def noChoiceB (X : SchemaX) : Bool := noChoiceTop X.top && allBelowL (fun k => noChoiceTop k.kids) X.top

theorem noChoiceX_of_B (X : SchemaX) (h : noChoiceB X = true) : NoChoiceX X := by
  unfold noChoiceB at h
  simp only [Bool.and_eq_true] at h
  intro p
  cases p with
  | none => exact h.1
  | some s =>
    have hk : X.kidsOf (some s) = match findL? X.top s with | some t => t.kids | none => [] := rfl
    rw [hk]
    cases hf : findL? X.top s with
    | none => rfl
    | some t => exact allBelowL_spec _ (findL?_below X.top s t hf) h.2

end LyModel.Valid
