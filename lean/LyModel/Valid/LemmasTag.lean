import LyModel.Valid.LemmasIff2
/-! `validate_error_tag` (C02), plain schemas: every error the model logs names a constraint family the specification lists. -/
namespace LyModel.Valid
open LyModel LyModel.Tree

/-! ## which family an error of the final phase belongs to, and what is wrong at its level -/

def guardK (o : VOpts) (k : STree) : Bool := o.noState && !k.info.config

/-- a violation of family `K` that the schema-based checks of one sibling level see -/
def lvlBad (X : SchemaX) (o : VOpts) (sk : List STree) (sibs : List DNode) (K : EKind) : Prop :=
  match K with
  | .unexpState => o.noState = true ∧ ∃ n ∈ sibs, X.base.config n.sid = false
  | .noMin => ∃ k ∈ sk, guardK o k = false ∧ (k.info.kind = .list ∨ k.info.kind = .leaflist) ∧
      (instsOf sibs k.sid).length < k.info.min
  | .noMax => ∃ k ∈ sk, guardK o k = false ∧ (k.info.kind = .list ∨ k.info.kind = .leaflist) ∧
      k.info.max ≠ 0 ∧ k.info.max < (instsOf sibs k.sid).length
  | .noMand => ∃ k ∈ sk, guardK o k = false ∧ k.info.kind = .leaf ∧ k.info.mandatory = true ∧ hasInst sibs k.sid = false
  | _ => False

theorem nodeChecks_mem (S : Schema) (o : VOpts) (cx : Cx) : ∀ (rest before : List DNode),
    ∀ e ∈ (nodeChecks S o cx before rest).errs, e.kind = .unexpState ∧ o.noState = true ∧ ∃ n ∈ rest, S.config n.sid = false := by
  intro rest
  induction rest with
  | nil => intro before e he; simp [nodeChecks] at he
  | cons n ns ih =>
    intro before e he
    unfold nodeChecks at he
    rw [Out.append_errs, List.mem_append] at he
    rcases he with he | he
    · split at he
      · rename_i h
        simp only [Bool.and_eq_true, Bool.not_eq_eq_eq_not, Bool.not_true] at h
        simp only [Out.err, Out.errs, List.filterMap_cons, List.filterMap_nil, List.mem_singleton] at he
        exact ⟨by rw [he], h.1, n, List.mem_cons_self .., h.2⟩
      · simp at he
    · obtain ⟨h1, h2, m, hm, hc⟩ := ih _ e he
      exact ⟨h1, h2, m, List.mem_cons_of_mem _ hm, hc⟩

theorem minmaxOut_mem (S : Schema) (o : VOpts) (cx : Cx) (sibs : List DNode) (k : STree)
    (hmm : k.info.max = 0 ∨ k.info.min ≤ k.info.max) (hmin : k.info.min ≤ uint32Max)
    (hlen : (instsOf sibs k.sid).length ≤ uint32Max) :
    ∀ e ∈ (minmaxOut S o cx sibs k).errs,
      (e.kind = .noMin ∧ (instsOf sibs k.sid).length < k.info.min) ∨
      (e.kind = .noMax ∧ k.info.max ≠ 0 ∧ k.info.max < (instsOf sibs k.sid).length) := by
  intro e he
  unfold minmaxOut at he
  dsimp only at he
  have hlen' := instsIdx_length sibs k.sid
  by_cases h0 : (k.info.min == 0 && k.info.max == 0) = true
  · simp only [h0, if_true, Out.empty_errs] at he
    cases he
  · simp only [h0, Bool.false_eq_true, if_false] at he
    generalize hM : (if (k.info.max == 0) = true then uint32Max else k.info.max) = M at he
    have hMc : M = 0 ∨ k.info.min ≤ M := by
      right; rw [← hM]; split
      · exact hmin
      · rename_i h
        have : k.info.max ≠ 0 := by simpa using h
        omega
    have hMlen : (M < (instsOf sibs k.sid).length) ↔ (k.info.max ≠ 0 ∧ k.info.max < (instsOf sibs k.sid).length) := by
      rw [← hM]; split
      · rename_i h
        have : k.info.max = 0 := by simpa using h
        simp only [this, ne_eq, not_true_eq_false, false_and, iff_false]
        omega
      · rename_i h
        have : k.info.max ≠ 0 := by simpa using h
        simp [this]
    rw [minmaxCheck_spec k.info.min M (instsIdx sibs k.sid) hMc] at he
    by_cases hfew : k.info.min ≠ 0 ∧ (instsIdx sibs k.sid).length < k.info.min
    · rw [if_pos hfew] at he
      dsimp only at he
      split at he
      · simp at he
      · simp only [Out.err, Out.errs, List.filterMap_cons, List.filterMap_nil, List.mem_singleton] at he
        left; exact ⟨by rw [he], by rw [← hlen']; exact hfew.2⟩
    · rw [if_neg hfew] at he
      by_cases hmany : M ≠ 0 ∧ M < (instsIdx sibs k.sid).length
      · rw [dif_pos hmany] at he
        dsimp only at he
        split at he
        · simp at he
        · simp only [Out.err, Out.errs, List.filterMap_cons, List.filterMap_nil, List.mem_singleton] at he
          right
          have := hMlen.1 (by rw [← hlen']; exact hmany.2)
          exact ⟨by rw [he], this.1, this.2⟩
      · rw [dif_neg hmany] at he
        simp at he

theorem schemaNodes_mem (X : SchemaX) (o : VOpts) (cx : Cx) (sibs : List DNode) (hlen : sibs.length ≤ uint32Max)
    (hu : X.uniques = []) : ∀ (ks : List STree), (∀ k ∈ ks, plainNode k = true ∧ mmSane k) →
    ∀ e ∈ (schemaNodes X o cx sibs ks).errs, lvlBad X o ks sibs e.kind := by
  intro ks
  induction ks with
  | nil => intro _ e he; simp [schemaNodes] at he
  | cons k ks ih =>
    intro hks e he
    obtain ⟨hpk, hmk⟩ := hks k (List.mem_cons_self ..)
    unfold schemaNodes at he
    dsimp only at he
    rw [Out.append_errs, List.mem_append] at he
    have hmono : lvlBad X o ks sibs e.kind → lvlBad X o (k :: ks) sibs e.kind := by
      intro h
      unfold lvlBad at h ⊢
      cases hK : e.kind <;> simp only [hK] at h ⊢ <;> first
        | exact h
        | (obtain ⟨k', hk', hr⟩ := h; exact ⟨k', List.mem_cons_of_mem _ hk', hr⟩)
    rcases he with he | he
    · have hilen : (instsOf sibs k.sid).length ≤ uint32Max := Nat.le_trans (List.length_filter_le _ _) hlen
      have hnc : (k.info.kind == SKind.choice) = false := by
        unfold plainNode at hpk
        simp only [Bool.and_eq_true, bne_iff_ne, ne_eq] at hpk
        simpa using hpk.1.1.1.1.1.1
      by_cases hst : (o.noState && !k.info.config) = true
      · simp [hnc, hst] at he
      · have hst' : (o.noState && !k.info.config) = false := by simpa using hst
        simp only [hnc, hst', Bool.or_self, Bool.false_eq_true, if_false] at he
        have hmmK : ∀ e' ∈ (minmaxOut X.base o cx sibs k).errs, (k.info.kind = .list ∨ k.info.kind = .leaflist) →
            lvlBad X o (k :: ks) sibs e'.kind := by
          intro e' he' hkk
          rcases minmaxOut_mem X.base o cx sibs k hmk.1 hmk.2 hilen e' he' with ⟨h1, h2⟩ | ⟨h1, h2, h3⟩
          · rw [h1]; exact ⟨k, List.mem_cons_self .., hst', hkk, h2⟩
          · rw [h1]; exact ⟨k, List.mem_cons_self .., hst', hkk, h2, h3⟩
        cases hkind : k.info.kind with
        | list =>
          have hun : uniqueOut X o cx sibs k = {} := by
            unfold uniqueOut SchemaX.uniquesOf
            simp [hu]
          simp only [hkind, hun, Out.append_errs, Out.empty_errs, List.append_nil] at he
          exact hmmK e he (Or.inl hkind)
        | leaflist =>
          simp only [hkind] at he
          exact hmmK e he (Or.inr hkind)
        | leaf =>
          simp only [hkind] at he
          split at he
          · rename_i h
            simp only [Bool.and_eq_true, Bool.not_eq_eq_eq_not, Bool.not_true] at h
            simp only [Out.err, Out.errs, List.filterMap_cons, List.filterMap_nil, List.mem_singleton] at he
            have hk : e.kind = .noMand := by rw [he]
            rw [hk]
            exact ⟨k, List.mem_cons_self .., hst', hkind, h.1.1, h.1.2⟩
          · simp at he
        | container =>
          have hm : k.info.mandatory = false := by
            unfold plainNode at hpk
            simp only [Bool.and_eq_true, Bool.not_eq_eq_eq_not, Bool.not_true, Bool.and_eq_false_imp] at hpk
            exact hpk.1.1.2 (by simp [hkind])
          simp [hkind, hm] at he
        | choice => simp [hkind] at hnc
        | case =>
          unfold plainNode at hpk
          simp [hkind] at hpk
    · exact hmono (ih (fun k' hk' => hks k' (List.mem_cons_of_mem _ hk')) e he)

theorem levelChecks_mem (X : SchemaX) (o : VOpts) (cx : Cx) (hu : X.uniques = []) (sibs : List DNode)
    (hlen : sibs.length ≤ uint32Max) (hsk : ∀ k ∈ X.kidsOf cx.parent, plainNode k = true ∧ mmSane k) :
    ∀ e ∈ (levelChecks X o cx sibs).errs, lvlBad X o (X.kidsOf cx.parent) sibs e.kind := by
  intro e he
  unfold levelChecks schemaRL at he
  rw [schemaChoices_noChoice X o cx sibs _ (noChoiceTop_plain _ (fun k hk => (hsk k hk).1))] at he
  rw [Out.append_errs, Out.empty_append, List.mem_append] at he
  rcases he with he | he
  · obtain ⟨h1, h2, h3⟩ := nodeChecks_mem X.base o cx sibs [] e he
    rw [h1]; exact ⟨h2, h3⟩
  · exact schemaNodes_mem X o cx sibs hlen hu _ hsk e he


/-! ## something is wrong at some level below -/

mutual
/-- the level condition `lv` holds for the children of the node or somewhere further down -/
def deepBadN (X : SchemaX) (lv : List STree → List DNode → Prop) : DNode → Prop
  | .inner s _ _ ks => lv (X.kidsOf (some s)) ks ∨ deepBadL X lv ks
  | .term .. => False
def deepBadL (X : SchemaX) (lv : List STree → List DNode → Prop) : List DNode → Prop
  | [] => False
  | n :: ns => deepBadN X lv n ∨ deepBadL X lv ns
end

theorem deepBadL_iff (X : SchemaX) (lv : List STree → List DNode → Prop) : ∀ (ns : List DNode),
    deepBadL X lv ns ↔ ∃ n ∈ ns, deepBadN X lv n := by
  intro ns
  induction ns with
  | nil => simp [deepBadL]
  | cons x xs ih => unfold deepBadL; simp [ih]

mutual
theorem finalNode_mem (X : SchemaX) (o : VOpts) (hu : X.uniques = []) (hl : KidsLookupOk X) (hps : PlainSane X) :
    ∀ (n : DNode) (cx : Cx) (before : List DNode) (sk : List STree), (∀ k ∈ sk, BelowL k X.top) →
      sk.any (·.sid == n.sid) = true → placedN X n = true → lenOkN n = true →
      ∀ e ∈ (finalNode X o cx before n).2.errs, deepBadN X (fun sk sibs => lvlBad X o sk sibs e.kind) n
  | .term .., _, _, _, _, _, _, _ => by intro e he; simp [finalNode] at he
  | .inner s f m ks, cx, before, sk, hsk, hany, hp, hlen => by
    intro e he
    obtain ⟨k, hk, hks⟩ := List.any_eq_true.1 hany
    have hks' : k.sid = s := by simpa [DNode.sid] using hks
    have hkb : BelowL k X.top := hsk k hk
    have hkids : X.kidsOf (some s) = k.kids := by rw [← hks']; exact hl k hkb
    have hsk' : ∀ k' ∈ k.kids, BelowL k' X.top := fun k' hk' => BelowL.kid_of_below hkb hk'
    unfold placedN at hp
    unfold lenOkN at hlen
    simp only [Bool.and_eq_true, decide_eq_true_eq] at hlen
    unfold finalNode at he
    dsimp only at he
    rw [Out.append_errs, List.mem_append] at he
    unfold deepBadN
    rcases he with he | he
    · left
      have hlev := levelChecks_mem X o (cx.descend X.base before (DNode.inner s f m ks)) hu ks hlen.1
        (by show ∀ k' ∈ X.kidsOf (some s), _; rw [hkids]; exact fun k' hk' => hps k' (hsk' k' hk')) e he
      exact hlev
    · right
      exact finalKids_mem X o hu hl hps ks _ [] k.kids hsk' (by rw [← hkids]; exact hp) hlen.2 e he
theorem finalKids_mem (X : SchemaX) (o : VOpts) (hu : X.uniques = []) (hl : KidsLookupOk X) (hps : PlainSane X) :
    ∀ (ns : List DNode) (cx : Cx) (before : List DNode) (sk : List STree), (∀ k ∈ sk, BelowL k X.top) →
      placedL X sk ns = true → lenOkL ns = true →
      ∀ e ∈ (finalKids X o cx before ns).2.errs, deepBadL X (fun sk sibs => lvlBad X o sk sibs e.kind) ns
  | [], _, _, _, _, _, _ => by intro e he; simp [finalKids] at he
  | n :: ns, cx, before, sk, hsk, hp, hlen => by
    intro e he
    unfold placedL at hp
    unfold lenOkL at hlen
    simp only [Bool.and_eq_true] at hp hlen
    unfold finalKids at he
    dsimp only at he
    rw [Out.append_errs, List.mem_append] at he
    unfold deepBadL
    rcases he with he | he
    · left; exact finalNode_mem X o hu hl hps n cx before sk hsk hp.1.1 hp.1.2 hlen.1 e he
    · right; exact finalKids_mem X o hu hl hps ns cx _ sk hsk hp.2 hlen.2 e he
end

/-! the final phase runs on the tree with `LYD_NEW` cleared -/

theorem lvlBad_clrL (X : SchemaX) (o : VOpts) (sk : List STree) (l : List DNode) (K : EKind) :
    lvlBad X o sk (clrL l) K ↔ lvlBad X o sk l K := by
  unfold lvlBad
  cases K <;> simp only [instsOf_clrL_length, hasInst_clrL]
  -- unexpState
  rw [clrL_eq_map]
  apply and_congr_right
  intro _
  constructor
  · rintro ⟨n, hn, hc⟩
    obtain ⟨a, ha, rfl⟩ := List.mem_map.1 hn
    exact ⟨a, ha, by rw [clrN_sid] at hc; exact hc⟩
  · rintro ⟨n, hn, hc⟩
    exact ⟨clrN n, List.mem_map_of_mem hn, by rw [clrN_sid]; exact hc⟩

mutual
theorem deepBadN_clr (X : SchemaX) (o : VOpts) (K : EKind) : ∀ (n : DNode),
    deepBadN X (fun sk sibs => lvlBad X o sk sibs K) (clrN n) ↔ deepBadN X (fun sk sibs => lvlBad X o sk sibs K) n
  | .term .. => by simp [clrN, deepBadN]
  | .inner s f m ks => by
    unfold clrN deepBadN
    rw [lvlBad_clrL, deepBadL_clr X o K ks]
theorem deepBadL_clr (X : SchemaX) (o : VOpts) (K : EKind) : ∀ (ns : List DNode),
    deepBadL X (fun sk sibs => lvlBad X o sk sibs K) (clrL ns) ↔ deepBadL X (fun sk sibs => lvlBad X o sk sibs K) ns
  | [] => by simp [clrL, deepBadL]
  | n :: ns => by
    unfold clrL deepBadL
    rw [deepBadN_clr X o K n, deepBadL_clr X o K ns]
end

mutual
/-- a forbidden pair somewhere below -/
theorem dupBadN_of_not_deep (X : SchemaX) : ∀ (n : DNode), ¬ dupDeepN X.base n →
    deepBadN X (fun _ sibs => ¬ NoPair X.base sibs) n
  | .term .., h => absurd (by simp [dupDeepN]) h
  | .inner s f m ks, h => by
    rw [dupDeepN_inner] at h
    unfold deepBadN
    by_cases h1 : NoPair X.base ks
    · right; exact dupBad_of_not_deep X ks (fun h2 => h ⟨h1, h2⟩)
    · left; exact h1
theorem dupBad_of_not_deep (X : SchemaX) : ∀ (ns : List DNode), ¬ dupDeepL X.base ns →
    deepBadL X (fun _ sibs => ¬ NoPair X.base sibs) ns
  | [], h => absurd (by simp [dupDeepL]) h
  | n :: ns, h => by
    unfold dupDeepL at h
    unfold deepBadL
    by_cases h1 : dupDeepN X.base n
    · right; exact dupBad_of_not_deep X ns (fun h2 => h ⟨h1, h2⟩)
    · left; exact dupBadN_of_not_deep X n h1
end


/-! ## every error of `lyd_validate` on a fresh tree over a plain schema, by family -/

theorem validate_errs_kinds (X : SchemaX) (o : VOpts) (hop : o.operational = false) (hu : X.uniques = []) (hl : KidsLookupOk X)
    (hps : PlainSane X) (t : List DNode) (hp : placedL X X.top t = true) (hh : sheightL X.top ≤ walkFuel X t)
    (hfr : isFreshL t = true) (hlen : lenOkL t = true) (hlen0 : t.length ≤ uint32Max) (hpe : (o.present && t.isEmpty) = false) :
    ∀ e ∈ (validate X o t).errs,
      (e.kind = .dup ∧ (¬ NoPair X.base t ∨ deepBadL X (fun _ sibs => ¬ NoPair X.base sibs) t)) ∨
      lvlBad X o X.top t e.kind ∨ deepBadL X (fun sk sibs => lvlBad X o sk sibs e.kind) t := by
  rw [VResult_errs_eq X o t hpe]
  have hpl : PlainX X := fun k hk => (hps k hk).1
  have htop : ∀ k ∈ X.top, plainNode k = true := fun k hk => hpl k (BelowL.of_mem hk)
  have hnct : noChoiceTop X.top = true := noChoiceTop_plain _ htop
  obtain ⟨hv1, hv2, hv3⟩ := validateNew_fresh X o {} hop t hnct hfr
  generalize (validateNew X o {} t) = r1 at hv1 hv2 hv3 ⊢
  rw [implL_noChoice X o _ _ _ hnct, implNodes_of_done X.base o _ _ _ (implDone_plain o X.top r1.1 htop)]
  dsimp only
  rw [hv1]
  have hall := (isFreshL_all t).1 hfr
  have hpall := (placedL_all X X.top t).1 hp
  have helem : ∀ b, ∀ x ∈ t.map normNew,
      (subtreeNode X o (walkFuel X t) {} b x).1 = x.setKids (clrL x.kids) ∧
      ((subtreeNode X o (walkFuel X t) {} b x).2.errs = [] ↔ dupDeepN X.base x) ∧
      ∀ e ∈ (subtreeNode X o (walkFuel X t) {} b x).2.errs, e.kind = .dup := by
    intro b x hx
    obtain ⟨y, hy, hxy⟩ := List.mem_map.1 hx
    subst hxy
    exact subtree_fresh X o hop hl hpl _ {} b (normNew y) X.top (fun k hk => BelowL.of_mem hk) (by simpa using (hpall y hy).1)
      (by rw [placedN_normNew]; exact (hpall y hy).2) hh (by rw [normNew_kids]; exact isFreshN_kids (hall y hy))
  have htree : (subtreeKids X o (walkFuel X t) {} [] (t.map normNew)).1 = clrL t := by
    unfold subtreeKids
    rw [walkList_map _ (fun x => x.setKids (clrL x.kids)) _ [] (fun b x hx => (helem b x hx).1), clrL_eq_map, List.map_map]
    apply List.map_congr_left
    intro y hy
    exact normNew_setKids_fresh (hall y hy)
  have hwerr : (subtreeKids X o (walkFuel X t) {} [] (t.map normNew)).2.errs = [] ↔ dupDeepL X.base t := by
    unfold subtreeKids
    rw [walkList_errs _ (dupDeepN X.base) _ [] (fun b x hx => (helem b x hx).2.1), dupDeepL_all]
    constructor
    · intro h y hy; exact (dupDeepN_normNew X.base y).1 (h (normNew y) (List.mem_map_of_mem hy))
    · intro h x hx
      obtain ⟨y, hy, hxy⟩ := List.mem_map.1 hx
      subst hxy
      exact (dupDeepN_normNew X.base y).2 (h y hy)
  have hwkind : ∀ e ∈ (subtreeKids X o (walkFuel X t) {} [] (t.map normNew)).2.errs, e.kind = .dup := by
    unfold subtreeKids
    exact walkList_allErrs _ (fun e => e.kind = .dup) _ [] (fun b x hx => (helem b x hx).2.2)
  rw [htree]
  intro e he
  simp only [Out.append_errs, Out.empty_errs, List.append_nil, List.mem_append] at he
  rcases he with (he | he) | he
  · left
    refine ⟨hv3 e he, Or.inl ?_⟩
    intro hnp
    rw [hv2.2 hnp] at he
    cases he
  · left
    refine ⟨hwkind e he, Or.inr ?_⟩
    apply dupBad_of_not_deep
    intro hd
    rw [hwerr.2 hd] at he
    cases he
  · right
    unfold finalR at he
    dsimp only at he
    rw [Out.append_errs, List.mem_append] at he
    rcases he with he | he
    · left
      have := levelChecks_mem X o {} hu (clrL t) (by rw [clrL_length]; exact hlen0)
        (by show ∀ k ∈ X.top, _; exact fun k hk => hps k (BelowL.of_mem hk)) e he
      have hk0 : X.kidsOf ({} : Cx).parent = X.top := rfl
      rw [hk0, lvlBad_clrL] at this
      exact this
    · right
      have := finalKids_mem X o hu hl hps (clrL t) {} [] X.top (fun k hk => BelowL.of_mem hk) (by rw [placedL_clr]; exact hp)
        (by rw [lenOkL_clr]; exact hlen) e he
      exact (deepBadL_clr X o e.kind t).1 this


/-! ## the specification lists the family: one schema node -/

theorem spec_state (X : SchemaX) (o : VOpts) (k : STree) (hp : plainNode k = true) (E : List DNode)
    (hst : guardK o k = true) (hne : instsOf E k.sid ≠ []) : EKind.unexpState ∈ specNode X o k E := by
  cases k with
  | mk s i ks =>
    unfold plainNode at hp
    unfold guardK at hst
    simp only [STree.info, STree.sid] at hp hst hne
    have hne' : (instsOf E s).isEmpty = false := by simpa using hne
    unfold specNode
    cases hkind : i.kind <;> simp [hkind, hst, hne'] at hp ⊢

theorem spec_dup_short (X : SchemaX) (o : VOpts) (k : STree) (E : List DNode)
    (hk : k.info.kind = .leaf ∨ k.info.kind = .container) (h : 1 < (instsOf E k.sid).length) : EKind.dup ∈ specNode X o k E := by
  cases k with
  | mk s i ks =>
    simp only [STree.info, STree.sid] at hk h
    unfold specNode
    rcases hk with hk | hk <;> simp [hk, h]

theorem spec_dup_ll (X : SchemaX) (o : VOpts) (k : STree) (E : List DNode)
    (hk : k.info.kind = .leaflist) (hc : k.info.config = true)
    (h : pairwiseNe (fun a b : DNode => a.val == b.val) (instsOf E k.sid) = false) : EKind.dup ∈ specNode X o k E := by
  cases k with
  | mk s i ks =>
    simp only [STree.info, STree.sid] at hk hc h
    unfold specNode
    simp [hk, hc, h]

theorem spec_dup_list (X : SchemaX) (o : VOpts) (k : STree) (E : List DNode)
    (hk : k.info.kind = .list) (hc : k.info.nkeys ≠ 0)
    (h : pairwiseNe (fun a b : DNode => keyVals X.base a == keyVals X.base b) (instsOf E k.sid) = false) :
    EKind.dup ∈ specNode X o k E := by
  cases k with
  | mk s i ks =>
    simp only [STree.info, STree.sid] at hk hc h
    unfold specNode
    simp [hk, hc, h]

theorem spec_min (X : SchemaX) (o : VOpts) (k : STree) (E : List DNode)
    (hk : k.info.kind = .list ∨ k.info.kind = .leaflist) (hst : guardK o k = false)
    (h : (instsOf E k.sid).length < k.info.min) : EKind.noMin ∈ specNode X o k E := by
  cases k with
  | mk s i ks =>
    unfold guardK at hst
    simp only [STree.info, STree.sid] at hk hst h
    unfold specNode
    rcases hk with hk | hk <;> simp [hk, hst, h]

theorem spec_max (X : SchemaX) (o : VOpts) (k : STree) (E : List DNode)
    (hk : k.info.kind = .list ∨ k.info.kind = .leaflist) (hst : guardK o k = false)
    (h0 : k.info.max ≠ 0) (h : k.info.max < (instsOf E k.sid).length) : EKind.noMax ∈ specNode X o k E := by
  cases k with
  | mk s i ks =>
    unfold guardK at hst
    simp only [STree.info, STree.sid] at hk hst h h0
    unfold specNode
    rcases hk with hk | hk <;> simp [hk, hst, h, h0]

theorem spec_mand (X : SchemaX) (o : VOpts) (k : STree) (E : List DNode)
    (hk : k.info.kind = .leaf) (hst : guardK o k = false) (hm : k.info.mandatory = true)
    (h : instsOf E k.sid = []) : EKind.noMand ∈ specNode X o k E := by
  cases k with
  | mk s i ks =>
    unfold guardK at hst
    simp only [STree.info, STree.sid] at hk hst h hm
    unfold specNode
    simp [hk, hst, h, hm]

theorem spec_rec (X : SchemaX) (o : VOpts) (k : STree) (E : List DNode) (K : EKind)
    (hk : (k.info.kind = .container ∧ k.info.presence = true) ∨ k.info.kind = .list) (e : DNode) (he : e ∈ instsOf E k.sid)
    (h : K ∈ specL X o k.kids e.kids) : K ∈ specNode X o k E := by
  cases k with
  | mk s i ks =>
    simp only [STree.info, STree.sid, STree.kids] at hk he h
    unfold specNode
    rcases hk with ⟨hk, hpr⟩ | hk
    · simp only [hk, hpr, if_true, List.mem_append, List.mem_flatMap]
      right; exact ⟨e, he, h⟩
    · simp only [hk, List.mem_append, List.mem_flatMap]
      right; exact ⟨e, he, h⟩

theorem mem_specL (X : SchemaX) (o : VOpts) (E : List DNode) (K : EKind) : ∀ (sk : List STree),
    K ∈ specL X o sk E ↔ ∃ k ∈ sk, K ∈ specNode X o k E := by
  intro sk
  induction sk with
  | nil => simp [specL]
  | cons k ks ih => unfold specL; simp [List.mem_append, ih]


/-! ## the specification lists the family: one sibling level -/

theorem lvlBad_spec (X : SchemaX) (o : VOpts) (sk : List STree) (sibs : List DNode) (K : EKind)
    (hplain : ∀ k ∈ sk, plainNode k = true) (hinfo : ∀ k ∈ sk, InfoFacts X.base k)
    (hpl : ∀ n ∈ sibs, ∃ k ∈ sk, k.sid = n.sid) (h : lvlBad X o sk sibs K) : K ∈ specL X o sk (sibs.map exN) := by
  rw [mem_specL]
  unfold lvlBad at h
  cases K with
  | unexpState =>
    obtain ⟨hns, n, hn, hc⟩ := h
    obtain ⟨k, hk, hs⟩ := hpl n hn
    refine ⟨k, hk, spec_state X o k (hplain k hk) _ ?_ ?_⟩
    · unfold guardK
      rw [← hs, (hinfo k hk).cfg] at hc
      simp [hns, hc]
    · rw [instsOf_map_exN]
      intro he
      have : n ∈ instsOf sibs k.sid := mem_instsOf.2 ⟨hn, hs.symm⟩
      simp only [List.map_eq_nil_iff] at he
      rw [he] at this; cases this
  | noMin =>
    obtain ⟨k, hk, hst, hkk, hlen⟩ := h
    exact ⟨k, hk, spec_min X o k _ hkk hst (by rw [instsOf_map_exN, List.length_map]; exact hlen)⟩
  | noMax =>
    obtain ⟨k, hk, hst, hkk, h0, hlen⟩ := h
    exact ⟨k, hk, spec_max X o k _ hkk hst h0 (by rw [instsOf_map_exN, List.length_map]; exact hlen)⟩
  | noMand =>
    obtain ⟨k, hk, hst, hkk, hm, hno⟩ := h
    refine ⟨k, hk, spec_mand X o k _ hkk hst hm ?_⟩
    rw [instsOf_map_exN, List.map_eq_nil_iff]
    apply List.eq_nil_iff_forall_not_mem.2
    intro n hn
    have := mem_instsOf.1 hn
    unfold hasInst at hno
    have hh : sibs.any (fun x => x.sid == k.sid) = true := List.any_eq_true.2 ⟨n, this.1, by simp [this.2]⟩
    rw [hh] at hno; cases hno
  | dup => cases h
  | dupCase => cases h
  | noMandChoice => cases h
  | noUniq => cases h
  | badValue => cases h
  | noKey => cases h
  | noMust => cases h
  | noReqInst => cases h
  | noWhen => cases h
  | xpErr => cases h

theorem dupBad_spec (X : SchemaX) (o : VOpts) (sk : List STree) (sibs : List DNode)
    (hplain : ∀ k ∈ sk, plainNode k = true) (hinfo : ∀ k ∈ sk, InfoFacts X.base k)
    (hpl : ∀ n ∈ sibs, ∃ k ∈ sk, k.sid = n.sid) (hfr : isFreshL sibs = true) (h : ¬ NoPair X.base sibs) :
    EKind.dup ∈ specL X o sk (sibs.map exN) := by
  rw [mem_specL]
  rw [NoPair_iff_groups] at h
  obtain ⟨sid, hsid⟩ := Classical.not_forall.1 h
  have hne : instsOf sibs sid ≠ [] := by
    intro he; apply hsid; rw [he]; simp [NoPair]
  obtain ⟨n, hn⟩ := List.exists_mem_of_ne_nil _ hne
  obtain ⟨k, hk, hs⟩ := hpl n (mem_instsOf.1 hn).1
  have hksid : k.sid = sid := by rw [hs]; exact (mem_instsOf.1 hn).2
  subst hksid
  refine ⟨k, hk, ?_⟩
  have hi := hinfo k hk
  have hfrn : ∀ n ∈ instsOf sibs k.sid, isFreshL n.kids = true :=
    fun n hn => isFreshN_kids ((isFreshL_all sibs).1 hfr n (mem_instsOf.1 hn).1)
  have hsidI : ∀ n ∈ instsOf sibs k.sid, n.sid = k.sid := fun n hn => (mem_instsOf.1 hn).2
  have hp := hplain k hk
  unfold plainNode at hp
  simp only [Bool.and_eq_true, bne_iff_ne, ne_eq, Bool.not_eq_eq_eq_not, Bool.not_true, Bool.and_eq_false_imp,
    List.isEmpty_iff] at hp
  obtain ⟨⟨⟨⟨⟨⟨h1, h2⟩, _⟩, _⟩, _⟩, _⟩, _⟩ := hp
  cases hkind : k.info.kind with
  | leaf =>
    have hbad : ∀ a ∈ instsOf sibs k.sid, ∀ b ∈ instsOf sibs k.sid, Bad X.base a b := by
      intro a ha b hb
      refine ⟨?_, ?_⟩
      · rw [hsidI a ha, hi.dupInst, hkind]; rfl
      · unfold dupOf; rw [hsidI a ha, hsidI b hb, hi.kind, hkind]; simp
    have : ¬ (instsOf sibs k.sid).length ≤ 1 := fun hle => hsid ((NoPair_all_bad _ _ hbad).2 hle)
    exact spec_dup_short X o k _ (Or.inl hkind) (by rw [instsOf_map_exN, List.length_map]; omega)
  | container =>
    have hbad : ∀ a ∈ instsOf sibs k.sid, ∀ b ∈ instsOf sibs k.sid, Bad X.base a b := by
      intro a ha b hb
      refine ⟨?_, ?_⟩
      · rw [hsidI a ha, hi.dupInst, hkind]; rfl
      · unfold dupOf; rw [hsidI a ha, hsidI b hb, hi.kind, hkind]; simp
    have : ¬ (instsOf sibs k.sid).length ≤ 1 := fun hle => hsid ((NoPair_all_bad _ _ hbad).2 hle)
    exact spec_dup_short X o k _ (Or.inr hkind) (by rw [instsOf_map_exN, List.length_map]; omega)
  | leaflist =>
    by_cases hc : k.info.config = true
    · have hnp : NoPair X.base (instsOf sibs k.sid) ↔
          pairwiseNe (fun a b : DNode => a.val == b.val) (instsOf sibs k.sid) = true := by
        apply NoPair_iff_pairwiseNe
        intro a ha b hb
        unfold Bad dupOf
        rw [hsidI a ha, hsidI b hb, hi.kind, hi.dupInst, hkind, hc]
        simp only [beq_self_eq_true, Bool.true_and]
        constructor
        · rintro ⟨_, h⟩; simp only [beq_iff_eq] at h ⊢; exact h.symm
        · intro h; refine ⟨rfl, ?_⟩; simp only [beq_iff_eq] at h ⊢; exact h.symm
      have hf : pairwiseNe (fun a b : DNode => a.val == b.val) (instsOf sibs k.sid) = false := by
        cases hv : pairwiseNe (fun a b : DNode => a.val == b.val) (instsOf sibs k.sid) with
        | false => rfl
        | true => exact absurd (hnp.2 hv) hsid
      refine spec_dup_ll X o k _ hkind hc ?_
      rw [instsOf_map_exN, pairwiseNe_map]
      simpa using hf
    · have hc' : k.info.config = false := by simpa using hc
      exfalso; apply hsid
      apply NoPair_none_bad
      intro a ha b hb hbad
      have := hbad.1
      rw [hsidI a ha, hi.dupInst, hkind, hc'] at this
      simp at this
  | list =>
    by_cases hc : k.info.nkeys = 0
    · exfalso; apply hsid
      apply NoPair_none_bad
      intro a ha b hb hbad
      have := hbad.1
      rw [hsidI a ha, hi.dupInst, hkind, hc] at this
      simp at this
    · have hnp : NoPair X.base (instsOf sibs k.sid) ↔
          pairwiseNe (fun a b : DNode => keyVals X.base a == keyVals X.base b) (instsOf sibs k.sid) = true := by
        apply NoPair_iff_pairwiseNe
        intro a ha b hb
        unfold Bad dupOf
        rw [hsidI a ha, hsidI b hb, hi.kind, hi.dupInst, hkind]
        have : (k.info.nkeys == 0) = false := by simpa using hc
        simp only [this, beq_self_eq_true, Bool.true_and, Bool.and_false, Bool.false_or, Bool.and_true]
        constructor
        · rintro ⟨_, h⟩; simp only [beq_iff_eq] at h ⊢; exact h.symm
        · intro h; refine ⟨by simp [hkind], ?_⟩; simp only [beq_iff_eq] at h ⊢; exact h.symm
      have hf : pairwiseNe (fun a b : DNode => keyVals X.base a == keyVals X.base b) (instsOf sibs k.sid) = false := by
        cases hv : pairwiseNe (fun a b : DNode => keyVals X.base a == keyVals X.base b) (instsOf sibs k.sid) with
        | false => rfl
        | true => exact absurd (hnp.2 hv) hsid
      refine spec_dup_list X o k _ hkind hc ?_
      rw [instsOf_map_exN, pairwiseNe_map]
      rw [← hf]
      apply pairwiseNe_congr
      intro a ha b hb
      rw [keyVals_exN _ a (hfrn a ha), keyVals_exN _ b (hfrn b hb)]
  | choice => exact absurd hkind h1
  | case => exact absurd hkind h2


/-! ## the specification lists the family: all levels -/

/-- the level condition `lv` makes the specification list `K` at that level -/
def LvSound (X : SchemaX) (o : VOpts) (K : EKind) (lv : List STree → List DNode → Prop) : Prop :=
  ∀ sk sibs, (∀ k ∈ sk, plainNode k = true) → (∀ k ∈ sk, InfoFacts X.base k) → (∀ n ∈ sibs, ∃ k ∈ sk, k.sid = n.sid) →
    isFreshL sibs = true → lv sk sibs → K ∈ specL X o sk (sibs.map exN)

/-- a violation below an instance is a violation of the level of the instance -/
theorem spec_lift (X : SchemaX) (o : VOpts) (K : EKind) (sk : List STree) (sibs : List DNode) (n : DNode) (hn : n ∈ sibs)
    (k : STree) (hk : k ∈ sk) (hs : k.sid = n.sid) (hp : plainNode k = true) (hnt : n.isTerm = false)
    (hsh : n.isTerm = (k.info.kind == .leaf || k.info.kind == .leaflist))
    (h : K ∈ specL X o k.kids (explicitL n.kids)) : K ∈ specL X o sk (sibs.map exN) := by
  rw [mem_specL]
  refine ⟨k, hk, spec_rec X o k _ K ?_ (exN n) ?_ (by rw [exN_kids]; exact h)⟩
  · unfold plainNode at hp
    simp only [Bool.and_eq_true, bne_iff_ne, ne_eq, Bool.not_eq_eq_eq_not, Bool.not_true, Bool.and_eq_false_imp,
      List.isEmpty_iff] at hp
    obtain ⟨⟨⟨⟨⟨⟨h1, h2⟩, h3⟩, _⟩, _⟩, _⟩, _⟩ := hp
    rw [hnt] at hsh
    cases hkind : k.info.kind with
    | container =>
      left
      have := h3 (by simp [hkind])
      exact ⟨rfl, by simpa using this⟩
    | list => right; rfl
    | leaf => simp [hkind] at hsh
    | leaflist => simp [hkind] at hsh
    | choice => exact absurd hkind h1
    | case => exact absurd hkind h2
  · rw [instsOf_map_exN]
    exact List.mem_map_of_mem (mem_instsOf.2 ⟨hn, hs.symm⟩)

mutual
theorem deepBadN_spec (X : SchemaX) (o : VOpts) (K : EKind) (lv : List STree → List DNode → Prop) (hs : LvSound X o K lv)
    (hl : KidsLookupOk X) (hpl : PlainX X) (hio : InfoOk X) :
    ∀ (n : DNode) (k : STree), BelowL k X.top → k.sid = n.sid → placedN X n = true → isFreshN n = true → shapedN X n = true →
      deepBadN X lv n → K ∈ specL X o k.kids (explicitL n.kids)
  | .term .., _, _, _, _, _, _, h => by simp [deepBadN] at h
  | .inner s f m ks, k, hkb, hks, hp, hfr, hsh, h => by
    have hks' : k.sid = s := hks
    have hkids : X.kidsOf (some s) = k.kids := by rw [← hks']; exact hl k hkb
    have hsk' : ∀ k' ∈ k.kids, BelowL k' X.top := fun k' hk' => BelowL.kid_of_below hkb hk'
    unfold placedN at hp
    unfold shapedN at hsh
    unfold isFreshN at hfr
    unfold deepBadN at h
    rw [hkids] at hp hsh h
    simp only [Bool.and_eq_true, decide_eq_true_eq] at hfr
    have hpa := (placedL_all X k.kids ks).1 hp
    show K ∈ specL X o k.kids (explicitL ks)
    rw [explicitL_fresh _ hfr.2]
    rcases h with h | h
    · exact hs k.kids ks (fun k' hk' => hpl k' (hsk' k' hk')) (fun k' hk' => infoFacts_of_get _ _ (hio k' (hsk' k' hk')))
        (fun n' hn' => by
          obtain ⟨k', hk', hs'⟩ := List.any_eq_true.1 (hpa n' hn').1
          exact ⟨k', hk', by simpa using hs'⟩)
        hfr.2 h
    · obtain ⟨n', hn', k', hk', hs', hnt, hshape, hK⟩ := deepBadL_spec X o K lv hs hl hpl hio ks k.kids hsk' hp hfr.2 hsh h
      exact spec_lift X o K k.kids ks n' hn' k' hk' hs' (hpl k' (hsk' k' hk')) hnt hshape hK
theorem deepBadL_spec (X : SchemaX) (o : VOpts) (K : EKind) (lv : List STree → List DNode → Prop) (hs : LvSound X o K lv)
    (hl : KidsLookupOk X) (hpl : PlainX X) (hio : InfoOk X) :
    ∀ (ns : List DNode) (sk : List STree), (∀ k ∈ sk, BelowL k X.top) → placedL X sk ns = true → isFreshL ns = true →
      shapedL X sk ns = true → deepBadL X lv ns →
      ∃ n ∈ ns, ∃ k ∈ sk, k.sid = n.sid ∧ n.isTerm = false ∧ n.isTerm = (k.info.kind == .leaf || k.info.kind == .leaflist) ∧
        K ∈ specL X o k.kids (explicitL n.kids)
  | [], _, _, _, _, _, h => by simp [deepBadL] at h
  | n :: ns, sk, hsk, hp, hfr, hsh, h => by
    unfold placedL at hp
    unfold isFreshL at hfr
    unfold shapedL at hsh
    unfold deepBadL at h
    simp only [Bool.and_eq_true] at hp hfr hsh
    rcases h with h | h
    · obtain ⟨k, hk, hks⟩ := List.any_eq_true.1 hp.1.1
      have hks' : k.sid = n.sid := by simpa using hks
      have hnt : n.isTerm = false := by
        cases n with
        | term s f m v => simp [deepBadN] at h
        | inner s f m ks => rfl
      exact ⟨n, List.mem_cons_self .., k, hk, hks', hnt, shapeOk_spec hsh.1.1 hk hks',
        deepBadN_spec X o K lv hs hl hpl hio n k (hsk k hk) hks' hp.1.2 hfr.1 hsh.1.2 h⟩
    · obtain ⟨n', hn', r⟩ := deepBadL_spec X o K lv hs hl hpl hio ns sk hsk hp.2 hfr.2 hsh.2 h
      exact ⟨n', List.mem_cons_of_mem _ hn', r⟩
end

end LyModel.Valid
