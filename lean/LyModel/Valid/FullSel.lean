import LyModel.Valid.FullDefs
/-!
# C02 for the full schema language: the selection invariant of a completed level

`Sel o H H3 cks`: the level `cks` was completed by `lyd_new_implicit` — a data node of the level has an instance afterwards (`H3`) iff
it had one (`H`) or is in use (`wantL`).  The lemmas here push this invariant down the schema: to a data node of the level
(`sel_node`), and through a choice of the level to the children of its selected case (`sel_down`), the other cases being untouched
(`Uns`).
-/
namespace LyModel.Valid
open LyModel LyModel.Tree

/-- the level `cks` is completed: a data node has an instance afterwards (`H3`) iff it had one (`H`) or is in use -/
def Sel (o : VOpts) (H H3 : Nat → Bool) (cks : List STree) : Prop := ∀ sid ∈ dataSidsL cks, H3 sid = (H sid || wantL o H cks sid)
/-- nothing was added among the data nodes `ds` -/
def Uns (H H3 : Nat → Bool) (ds : List Nat) : Prop := ∀ sid ∈ ds, H3 sid = H sid

/-! ## what is in use is a data node of the level -/

theorem wantNodes_mem {o : VOpts} {ks : List STree} {sid : Nat} (h : wantNodes o ks sid = true) : sid ∈ dataSidsL ks := by
  unfold wantNodes at h
  obtain ⟨k, hk, hk2⟩ := List.any_eq_true.1 h
  simp only [Bool.and_eq_true, beq_iff_eq] at hk2
  rw [← hk2.2]
  exact wants_sid_mem hk hk2.1

/-- only a choice is in use "through a choice" -/
theorem wantChoice_kind {o : VOpts} {H : Nat → Bool} {sid : Nat} {t : STree} (h : wantChoice o H sid t = true) :
    t.info.kind = .choice := by
  cases t with
  | mk s i ks =>
    rw [wantChoice_sel] at h
    split at h
    · cases h
    · rename_i hc
      exact choice_kind_of_not_skip hc

theorem wantCase_eq_wantL (o : VOpts) (H : Nat → Bool) (sid : Nat) (c : STree) : wantCase o H sid c = wantL o H c.kids sid := by
  cases c with
  | mk s i ks => rw [wantCase_mk]; rfl

mutual
theorem want_mem_T (o : VOpts) (H : Nat → Bool) (sid : Nat) : ∀ (t : STree), kindsOk t = true →
    (wantChoice o H sid t = true → sid ∈ t.dataSids) ∧
    (wantCase o H sid t = true → sid ∈ dataSidsL t.kids)
  | .mk s i ks, hk => by
    have hk' := hk
    rw [kindsOk_mk] at hk'
    simp only [Bool.and_eq_true] at hk'
    have ihL := want_mem_L o H sid ks hk'.2
    constructor
    · intro hw
      rw [wantChoice_sel] at hw
      split at hw
      · cases hw
      · rename_i hc
        have hkind := choice_kind_of_not_skip hc
        rw [dataSids_choice hkind]
        cases hsel : selCase i ks H with
        | none => rw [hsel] at hw; cases hw
        | some c =>
          rw [hsel] at hw
          have hcm := selCase_mem hsel
          have hck := choice_cases_kind hk hkind c hcm
          apply dataSids_sub_L hcm
          rw [dataSids_case hck]
          exact ihL.2 c hcm hw
    · intro hw
      simp only [STree.kids]
      rw [wantCase_mk, Bool.or_eq_true] at hw
      rcases hw with hw | hw
      · exact ihL.1 hw
      · exact wantNodes_mem hw
theorem want_mem_L (o : VOpts) (H : Nat → Bool) (sid : Nat) : ∀ (ks : List STree), kindsOkL ks = true →
    (wantChoices o H sid ks = true → sid ∈ dataSidsL ks) ∧
    (∀ c ∈ ks, wantCase o H sid c = true → sid ∈ dataSidsL c.kids)
  | [], _ => by
    constructor
    · intro h; rw [wantChoices] at h; cases h
    · intro c hc; cases hc
  | k :: rest, hk => by
    rw [kindsOkL_cons] at hk
    simp only [Bool.and_eq_true] at hk
    have ihT := want_mem_T o H sid k hk.1
    have ihL := want_mem_L o H sid rest hk.2
    constructor
    · intro hw
      rw [wantChoices_cons, Bool.or_eq_true] at hw
      rw [dataSidsL_cons]
      rcases hw with hw | hw
      · exact List.mem_append_left _ (ihT.1 hw)
      · exact List.mem_append_right _ (ihL.1 hw)
    · intro c hc
      cases hc with
      | head => exact ihT.2
      | tail _ hc => exact ihL.2 c hc
end

theorem wantChoice_mem {o : VOpts} {H : Nat → Bool} {sid : Nat} {t : STree} (hk : kindsOk t = true)
    (h : wantChoice o H sid t = true) : sid ∈ t.dataSids := (want_mem_T o H sid t hk).1 h

theorem wantCase_mem {o : VOpts} {H : Nat → Bool} {sid : Nat} {t : STree} (hk : kindsOk t = true)
    (h : wantCase o H sid t = true) : sid ∈ dataSidsL t.kids := (want_mem_T o H sid t hk).2 h

theorem wantChoices_mem {o : VOpts} {H : Nat → Bool} {sid : Nat} {ks : List STree} (hk : kindsOkL ks = true)
    (h : wantChoices o H sid ks = true) : sid ∈ dataSidsL ks := (want_mem_L o H sid ks hk).1 h

theorem wantL_mem {o : VOpts} {H : Nat → Bool} {sid : Nat} {ks : List STree} (hk : kindsOkL ks = true)
    (h : wantL o H ks sid = true) : sid ∈ dataSidsL ks := by
  unfold wantL at h
  rw [Bool.or_eq_true] at h
  rcases h with h | h
  · exact wantChoices_mem hk h
  · exact wantNodes_mem h

/-! ## a data node of the level -/

/-- a data node of the level is in use iff it gets implicit data itself -/
theorem wantL_node (o : VOpts) (H : Nat → Bool) {cks : List STree} {k : STree} (hk : kindsOkL cks = true)
    (hnd : (dataSidsL cks).Nodup) (hmem : k ∈ cks) (h1 : k.info.kind ≠ .choice) (h2 : k.info.kind ≠ .case) :
    wantL o H cks k.sid = wantsImplicit o k := by
  have hself : k.sid ∈ k.dataSids := by rw [dataSids_data h1 h2]; exact List.mem_singleton.2 rfl
  have hch : wantChoices o H k.sid cks = false := by
    cases hw : wantChoices o H k.sid cks with
    | false => rfl
    | true =>
      obtain ⟨k', hk', hwk⟩ := (wantChoices_any o H k.sid cks).1 hw
      have hin := wantChoice_mem (kindsOkL_mem hk hk') hwk
      have heq : k = k' := case_unique hnd hmem hk' hself hin
      rw [← heq] at hwk
      exact absurd (wantChoice_kind hwk) h1
  unfold wantL
  rw [hch, Bool.false_or, Bool.eq_iff_iff]
  constructor
  · intro hw
    unfold wantNodes at hw
    obtain ⟨k', hk', hk2⟩ := List.any_eq_true.1 hw
    simp only [Bool.and_eq_true, beq_iff_eq] at hk2
    have hkk := wants_kind hk2.1
    have hin : k.sid ∈ k'.dataSids := by
      rw [dataSids_data hkk.1 hkk.2, hk2.2]; exact List.mem_singleton.2 rfl
    have heq : k = k' := case_unique hnd hmem hk' hself hin
    rw [heq]
    exact hk2.1
  · intro hw
    unfold wantNodes
    exact List.any_eq_true.2 ⟨k, hmem, by simp [hw]⟩

theorem sel_node {o : VOpts} {H H3 : Nat → Bool} {cks : List STree} {k : STree} (hs : Sel o H H3 cks) (hk : kindsOkL cks = true)
    (hnd : (dataSidsL cks).Nodup) (hmem : k ∈ cks) (h1 : k.info.kind ≠ .choice) (h2 : k.info.kind ≠ .case) :
    H3 k.sid = (H k.sid || wantsImplicit o k) := by
  have hin : k.sid ∈ dataSidsL cks := by
    apply dataSids_sub_L hmem
    rw [dataSids_data h1 h2]; exact List.mem_singleton.2 rfl
  rw [hs k.sid hin, wantL_node o H hk hnd hmem h1 h2]

/-! ## a choice of the level -/

/-- a data node below a choice of the level is in use iff it is in use through that choice -/
theorem wantL_choice (o : VOpts) (H : Nat → Bool) {cks : List STree} {s : Nat} {i : SNode} {cases : List STree}
    (hk : kindsOkL cks = true) (hnd : (dataSidsL cks).Nodup) (hmem : STree.mk s i cases ∈ cks) (hkind : i.kind = .choice)
    {sid : Nat} (hsid : sid ∈ dataSidsL cases) :
    wantL o H cks sid = wantChoice o H sid (.mk s i cases) := by
  have hself : sid ∈ (STree.mk s i cases).dataSids := by rw [dataSids_choice hkind]; exact hsid
  have hno : wantNodes o cks sid = false := by
    cases hw : wantNodes o cks sid with
    | false => rfl
    | true =>
      unfold wantNodes at hw
      obtain ⟨k', hk', hk2⟩ := List.any_eq_true.1 hw
      simp only [Bool.and_eq_true, beq_iff_eq] at hk2
      have hkk := wants_kind hk2.1
      have hin : sid ∈ k'.dataSids := by
        rw [dataSids_data hkk.1 hkk.2, hk2.2]; exact List.mem_singleton.2 rfl
      have heq : STree.mk s i cases = k' := case_unique hnd hmem hk' hself hin
      rw [← heq] at hkk
      exact absurd hkind hkk.1
  unfold wantL
  rw [hno, Bool.or_false, Bool.eq_iff_iff]
  constructor
  · intro hw
    obtain ⟨k', hk', hwk⟩ := (wantChoices_any o H sid cks).1 hw
    have hin := wantChoice_mem (kindsOkL_mem hk hk') hwk
    have heq : STree.mk s i cases = k' := case_unique hnd hmem hk' hself hin
    rw [heq]
    exact hwk
  · intro hw
    exact (wantChoices_any o H sid cks).2 ⟨_, hmem, hw⟩

theorem sel_kids_wf {cks : List STree} {s : Nat} {i : SNode} {cases : List STree} {c : STree} (hk : kindsOkL cks = true)
    (hnd : (dataSidsL cks).Nodup) (hmem : STree.mk s i cases ∈ cks) (hkind : i.kind = .choice) (hc : c ∈ cases) :
    kindsOkL c.kids = true ∧ (dataSidsL c.kids).Nodup ∧ c.info.kind = .case ∧ c.dataSids = dataSidsL c.kids := by
  have hkt := kindsOkL_mem hk hmem
  have hck := choice_cases_kind hkt hkind c hc
  have hds := dataSids_case hck
  have hndc : (dataSidsL cases).Nodup := by
    rw [← dataSids_choice (s := s) hkind]; exact nodup_of_mem_cases hnd hmem
  have hkt' := hkt
  rw [kindsOk_mk] at hkt'
  simp only [Bool.and_eq_true] at hkt'
  have hkc := kindsOkL_mem hkt'.2 hc
  refine ⟨?_, ?_, hck, hds⟩
  · cases c with
    | mk cs ci cks' =>
      rw [kindsOk_mk] at hkc
      simp only [Bool.and_eq_true] at hkc
      exact hkc.2
  · rw [← hds]; exact nodup_of_mem_cases hndc hc

theorem sel_down {o : VOpts} {H H3 : Nat → Bool} {cks : List STree} {s : Nat} {i : SNode} {cases : List STree}
    (hs : Sel o H H3 cks) (hk : kindsOkL cks = true) (hnd : (dataSidsL cks).Nodup) (hmem : STree.mk s i cases ∈ cks)
    (hkind : i.kind = .choice) :
    ((o.noState && !i.config) = true → Uns H H3 (dataSidsL cases)) ∧
    ((o.noState && !i.config) = false → ∀ c ∈ cases, (selCase i cases H = some c → Sel o H H3 c.kids) ∧
      (selCase i cases H ≠ some c → Uns H H3 c.dataSids)) := by
  have hkt := kindsOkL_mem hk hmem
  have hndc : (dataSidsL cases).Nodup := by
    rw [← dataSids_choice (s := s) hkind]; exact nodup_of_mem_cases hnd hmem
  have hkt' := hkt
  rw [kindsOk_mk] at hkt'
  simp only [Bool.and_eq_true] at hkt'
  -- the value of `H3` at the data nodes of the choice
  have key : ∀ sid ∈ dataSidsL cases, H3 sid = (H sid || wantChoice o H sid (.mk s i cases)) := by
    intro sid hsid
    have hin : sid ∈ dataSidsL cks := by
      apply dataSids_sub_L hmem
      rw [dataSids_choice hkind]; exact hsid
    rw [hs sid hin, wantL_choice o H hk hnd hmem hkind hsid]
  constructor
  · intro hst sid hsid
    rw [key sid hsid, wantChoice_sel, hst]
    simp
  · intro hst c hc
    have hwf := sel_kids_wf hk hnd hmem hkind hc
    have hcond : ¬ (i.kind != .choice || (o.noState && !i.config)) = true := by
      rw [hst, hkind]; simp
    constructor
    · intro hsel sid hsid
      have hsid' : sid ∈ dataSidsL cases := by
        apply dataSids_sub_L hc
        rw [hwf.2.2.2]; exact hsid
      rw [key sid hsid', wantChoice_sel, if_neg hcond, hsel]
      dsimp only
      rw [wantCase_eq_wantL]
    · intro hsel sid hsid
      have hsid' : sid ∈ dataSidsL cases := dataSids_sub_L hc sid hsid
      rw [key sid hsid', wantChoice_sel, if_neg hcond]
      cases hsel' : selCase i cases H with
      | none => simp
      | some c' =>
        dsimp only
        cases hw : wantCase o H sid c' with
        | false => simp
        | true =>
          exfalso
          have hcm' := selCase_mem hsel'
          have hck' := choice_cases_kind hkt hkind c' hcm'
          have hin' : sid ∈ c'.dataSids := by
            rw [dataSids_case hck']
            exact wantCase_mem (kindsOkL_mem hkt'.2 hcm') hw
          have heq : c' = c := case_unique hndc hcm' hc hin' hsid
          rw [heq] at hsel'
          exact hsel hsel'

theorem sel_sub {o : VOpts} {H H3 : Nat → Bool} {cks : List STree} (hs : Sel o H H3 cks) :
    ∀ sid ∈ dataSidsL cks, H sid = true → H3 sid = true := by
  intro sid hsid h
  rw [hs sid hsid, h, Bool.true_or]

end LyModel.Valid
