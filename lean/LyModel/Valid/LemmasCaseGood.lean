import LyModel.Valid.LemmasNpValidate
/-! `validate_idempotent` (C07) with non-presence containers as case members: when the input satisfies the non-presence container
invariant and no new node is default-flagged (no empty non-presence container was just created), the tree `lyd_validate_final_r`
receives still satisfies the invariant — every explicit non-presence container keeps an explicit child through
`lyd_validate_new` — so no default flag changes after the sibling level of its node has been validated (the situation of F189). -/
namespace LyModel.Valid
open LyModel LyModel.Tree

/-! ## `lyd_validate_cases` keeps an explicit node when the new nodes are explicit -/

theorem scanCases_found (sibs : List DNode) : ∀ (cases : List STree) (old new : Option STree) (old' new' : STree),
    scanCases sibs cases old new = some (some old', some new') →
    (old = some old' ∨ caseFound sibs old' = 1) ∧ (new = some new' ∨ caseFound sibs new' = 2) := by
  intro cases
  induction cases with
  | nil =>
    intro old new old' new' h
    rw [scanCases] at h
    injection h with h
    injection h with h1 h2
    exact ⟨Or.inl h1, Or.inl h2⟩
  | cons c rest ih =>
    intro old new old' new' h
    rw [scanCases] at h
    split at h
    · rename_i h1
      split at h
      · cases h
      · obtain ⟨a, b⟩ := ih _ _ _ _ h
        refine ⟨?_, b⟩
        rcases a with a | a
        · injection a with a; subst a; exact Or.inr h1
        · exact Or.inr a
    · rename_i h2
      split at h
      · cases h
      · obtain ⟨a, b⟩ := ih _ _ _ _ h
        refine ⟨a, ?_⟩
        rcases b with b | b
        · injection b with b; subst b; exact Or.inr h2
        · exact Or.inr b
    · exact ih _ _ _ _ h

/-- the new nodes are explicit, and there is an explicit node -/
def HasExpl (l : List DNode) : Prop := (∀ n ∈ l, n.flags.new = true → n.flags.dflt = false) ∧ ∃ x ∈ l, x.flags.dflt = false

theorem casesStep_hasExpl (X : SchemaX) (cx : Cx) (choice : STree) (sibs : List DNode) (h : HasExpl sibs) :
    HasExpl (casesStep X cx choice sibs).1 := by
  refine ⟨fun n hn => h.1 n (casesStep_sub X cx choice sibs n hn), ?_⟩
  unfold casesStep
  split
  · exact h.2
  · rename_i old nw hsc
    simp only [delSeq_fst, List.nil_append]
    obtain ⟨a, b⟩ := scanCases_found sibs choice.kids none none old nw hsc
    have hold : caseFound sibs old = 1 := by
      rcases a with a | a
      · cases a
      · exact a
    have hnew : caseFound sibs nw = 2 := by
      rcases b with b | b
      · cases b
      · exact b
    -- a new node of the new case
    unfold caseFound at hold hnew
    dsimp only at hold hnew
    have hany : ((sibs.filter (inSids nw.dataSids)).any (·.flags.new)) = true := by
      cases hc : ((sibs.filter (inSids nw.dataSids)).any (·.flags.new)) with
      | true => rfl
      | false =>
        rw [hc] at hnew
        simp only [Bool.false_eq_true, if_false] at hnew
        split at hnew <;> omega
    have hnone : ((sibs.filter (inSids old.dataSids)).any (·.flags.new)) = false := by
      cases hc : ((sibs.filter (inSids old.dataSids)).any (·.flags.new)) with
      | false => rfl
      | true => rw [hc] at hold; simp at hold
    obtain ⟨z, hz, hzn⟩ := List.any_eq_true.1 hany
    have hzs : z ∈ sibs := (List.mem_filter.1 hz).1
    refine ⟨z, List.mem_filter.2 ⟨hzs, ?_⟩, h.1 z hzs hzn⟩
    cases hin : inSids old.dataSids z with
    | false => rfl
    | true =>
      have : z ∈ sibs.filter (inSids old.dataSids) := List.mem_filter.2 ⟨hzs, hin⟩
      have := List.any_eq_false.1 hnone z this
      exact absurd hzn this
  · exact h.2

/-- the repaired variant keeps an explicit node of the existing case -/
theorem casesStepFix_hasExpl (X : SchemaX) (cx : Cx) (choice : STree) (sibs : List DNode) (h : HasExpl sibs) :
    HasExpl (casesStepFix X cx choice sibs).1 := by
  refine ⟨fun n hn => h.1 n (casesStepFix_sub X cx choice sibs n hn), ?_⟩
  unfold casesStepFix
  cases hsc : scanCases (explSibs sibs) choice.kids none none with
  | none => exact h.2
  | some p =>
    obtain ⟨old', new'⟩ := p
    obtain ⟨_, a2, _, _, a5, a6⟩ := scanCases_some (explSibs sibs) choice.kids none none old' new' hsc
    cases new' with
    | some nw =>
      have hex : ∃ c ∈ choice.kids, caseFound (explSibs sibs) c = 2 := by
        rcases a6 with a6 | a6
        · cases a6
        · exact a6
      obtain ⟨c, _, hf⟩ := hex
      obtain ⟨z, hz, hin, hzn⟩ := caseFound_two hf
      obtain ⟨hzs, hzd⟩ := explSibs_sub hz
      have hk : z ∈ (delCases X cx (explSibs sibs) 2 choice.kids sibs).1 := by
        apply delCases_keeps X cx _ 2 z _ sibs hzs
        intro c' _ hne
        cases hin' : inSids c'.dataSids z with
        | false => rfl
        | true => exact absurd (caseFound_new_inst hz hin' hzn) hne
      cases old' <;> exact ⟨z, hk, hzd⟩
    | none =>
      cases old' with
      | none => exact h.2
      | some od =>
        have hex : ∃ c ∈ choice.kids, caseFound (explSibs sibs) c = 1 := by
          rcases a5 with a5 | a5
          · cases a5
          · exact a5
        obtain ⟨c, _, hf⟩ := hex
        obtain ⟨z, hz, hin⟩ := caseFound_one hf
        obtain ⟨hzs, hzd⟩ := explSibs_sub hz
        have hk : z ∈ (delCases X cx (explSibs sibs) 1 choice.kids sibs).1 := by
          apply delCases_keeps X cx _ 1 z _ sibs hzs
          intro c' hc' hne
          cases hin' : inSids c'.dataSids z with
          | false => rfl
          | true =>
            rcases caseFound_of_inst hz hin' with h1 | h2
            · exact absurd h1 hne
            · have := a2 c' hc' h2
              cases this
        exact ⟨z, hk, hzd⟩

theorem casesStepQ_hasExpl (X : SchemaX) (cx : Cx) (choice : STree) (sibs : List DNode) (h : HasExpl sibs) :
    HasExpl (casesStepQ X cx choice sibs).1 := by
  unfold casesStepQ
  split
  · exact casesStep_hasExpl X cx choice sibs h
  · exact casesStepFix_hasExpl X cx choice sibs h

mutual
theorem choiceR_hasExpl_T (X : SchemaX) (cx : Cx) : ∀ (t : STree) (sibs : List DNode), HasExpl sibs →
    HasExpl (choiceRNode X cx t sibs).1 ∧ HasExpl (choiceRCase X cx t sibs).1
  | .mk s i ks, sibs, h => by
    constructor
    · rw [choiceRNode]
      split
      · split
        · exact h
        · dsimp only
          exact (choiceR_hasExpl_L X cx ks _ (casesStepQ_hasExpl X cx _ sibs h)).2
      · exact h
    · rw [choiceRCase]
      exact (choiceR_hasExpl_L X cx ks sibs h).1
theorem choiceR_hasExpl_L (X : SchemaX) (cx : Cx) : ∀ (ks : List STree) (sibs : List DNode), HasExpl sibs →
    HasExpl (choiceRL X cx ks sibs).1 ∧ HasExpl (choiceRCases X cx ks sibs).1
  | [], sibs, h => by
    rw [choiceRL, choiceRCases]
    exact ⟨h, h⟩
  | k :: rest, sibs, h => by
    constructor
    · rw [choiceRL]
      dsimp only
      exact (choiceR_hasExpl_L X cx rest _ (choiceR_hasExpl_T X cx k sibs h).1).1
    · rw [choiceRCases]
      dsimp only
      exact (choiceR_hasExpl_L X cx rest _ (choiceR_hasExpl_T X cx k sibs h).2).2
end

theorem exists_expl_iff (l : List DNode) : (∃ x ∈ l, x.flags.dflt = false) ↔ expl l ≠ [] := by
  unfold expl
  constructor
  · rintro ⟨x, hx, hd⟩ h
    have : x ∈ l.filter (fun x => !x.flags.dflt) := List.mem_filter.2 ⟨hx, by simp [hd]⟩
    rw [List.map_eq_nil_iff] at h
    rw [h] at this
    cases this
  · intro h
    cases hf : l.filter (fun x => !x.flags.dflt) with
    | nil => rw [hf] at h; exact absurd rfl h
    | cons x xs =>
      have : x ∈ l.filter (fun x => !x.flags.dflt) := by rw [hf]; exact List.mem_cons_self ..
      obtain ⟨h1, h2⟩ := List.mem_filter.1 this
      exact ⟨x, h1, by simpa using h2⟩

/-- **`lyd_validate_new` keeps an explicit sibling** when the new siblings are explicit -/
theorem validateNew_keeps_expl (X : SchemaX) (o : VOpts) (cx : Cx) (sibs : List DNode) (h : HasExpl sibs) :
    ∃ x ∈ (validateNew X o cx sibs).1, x.flags.dflt = false := by
  unfold validateNew
  dsimp only
  have h1 := (choiceR_hasExpl_L X cx (X.kidsOf cx.parent) sibs h).1
  generalize (choiceRL X cx (X.kidsOf cx.parent) sibs).1 = l1 at h1
  obtain ⟨h2, _⟩ := newLoop_first X o cx.keysOld (l1.length + 1) l1 [] none (by omega)
  rw [exists_expl_iff, h2, List.nil_append, ← exists_expl_iff]
  exact h1.2

/-! ## the tree before `lyd_validate_final_r` -/

mutual
/-- no new node is default-flagged -/
def newExplN : DNode → Prop
  | .inner _ f _ ks => (f.new = true → f.dflt = false) ∧ newExplL ks
  | .term _ f _ _ => f.new = true → f.dflt = false
def newExplL : List DNode → Prop
  | [] => True
  | n :: ns => newExplN n ∧ newExplL ns
end

theorem newExplL_all : ∀ (l : List DNode), newExplL l ↔ ∀ n ∈ l, newExplN n := by
  intro l
  induction l with
  | nil => simp [newExplL]
  | cons x xs ih => unfold newExplL; simp [ih]

theorem newExplN_flags {n : DNode} (h : newExplN n) : n.flags.new = true → n.flags.dflt = false := by
  cases n with
  | term s f m v => unfold newExplN at h; exact h
  | inner s f m ks => unfold newExplN at h; exact h.1

theorem newExplN_normNew (y : DNode) (h : newExplN y) : newExplN (normNew y) := by
  unfold normNew clearNew
  split
  · cases y with
    | term s f m v =>
      simp only [DNode.setFlags, DNode.flags]
      unfold newExplN
      intro hc; cases hc
    | inner s f m ks =>
      unfold newExplN at h
      simp only [DNode.setFlags, DNode.flags]
      unfold newExplN
      exact ⟨fun hc => (by cases hc), h.2⟩
  · exact h

theorem npInvN_normNew (S : Schema) (y : DNode) (h : npInvN S y) : npInvN S (normNew y) := by
  unfold normNew clearNew
  split
  · cases y with
    | term s f m v => unfold npInvN; trivial
    | inner s f m ks =>
      unfold npInvN at h
      simp only [DNode.setFlags, DNode.flags]
      unfold npInvN
      exact h
  · exact h

theorem fresh_good (S : Schema) (x : DNode) (hf : x.flags = dfltFlags) (hk : x.kids = []) : npInvN S x ∧ newExplN x := by
  cases x with
  | term s f m v =>
    simp only [DNode.flags] at hf
    subst hf
    exact ⟨by unfold npInvN; trivial, by unfold newExplN; intro h; cases h⟩
  | inner s f m ks =>
    simp only [DNode.kids] at hk
    simp only [DNode.flags] at hf
    subst hk hf
    constructor
    · unfold npInvN
      exact ⟨fun _ => rfl, by unfold npInvL; trivial⟩
    · unfold newExplN
      exact ⟨fun h => (by cases h), by unfold newExplL; trivial⟩

/-- one sibling level after `lyd_validate_new` and `lyd_new_implicit`: still good, and all default iff it was -/
theorem level_good (X : SchemaX) (o : VOpts) (cx cx' : Cx) (sk : List STree) (ks : List DNode)
    (h1 : npInvL X.base ks) (h2 : newExplL ks) :
    (∀ x ∈ (implL X o cx' sk (validateNew X o cx ks).1).1, npInvN X.base x ∧ newExplN x) ∧
    allD (implL X o cx' sk (validateNew X o cx ks).1).1 = allD ks := by
  have hkeep := validateNew_keeps_expl X o cx ks
  have hhalf := (level_half X o cx cx' sk ks (halfInvL_of_npInvL X.base ks h1)).2
  have hk := implL_keeps X o cx' sk (validateNew X o cx ks).1
  obtain ⟨_, _, a3⟩ := validateNew_first X o cx ks
  generalize (validateNew X o cx ks).1 = r1 at a3 hkeep hhalf hk
  have b := implL_onlyAdds X o cx' sk r1
  generalize (implL X o cx' sk r1).1 = r2 at b hhalf hk
  rw [npInvL_all] at h1
  rw [newExplL_all] at h2
  constructor
  · intro x hx
    rcases b x hx with h | ⟨hf, hkid⟩
    · obtain ⟨y, hy, hxy⟩ := a3 x h
      subst hxy
      exact ⟨npInvN_normNew _ y (h1 y hy), newExplN_normNew y (h2 y hy)⟩
    · exact fresh_good _ x hf hkid
  · cases hall : allD ks with
    | true => exact hhalf hall
    | false =>
      have hex : ∃ x ∈ ks, x.flags.dflt = false := by
        unfold allD at hall
        obtain ⟨x, hx, hd⟩ := List.all_eq_false.1 hall
        exact ⟨x, hx, by simpa using hd⟩
      obtain ⟨z, hz, hzd⟩ := hkeep ⟨fun n hn => newExplN_flags (h2 n hn), hex⟩
      unfold allD
      rw [List.all_eq_false]
      exact ⟨z, hk z hz, by simp [hzd]⟩

theorem allD_rel_eq {R : DNode → DNode → Prop} (hR : ∀ a b, R a b → b.flags.dflt = a.flags.dflt) :
    ∀ {as bs : List DNode}, Rel2 R as bs → allD bs = allD as := by
  intro as bs h
  induction h with
  | nil => rfl
  | @cons a b as bs hab _ ih =>
    unfold allD at ih ⊢
    rw [List.all_cons, List.all_cons, ih, hR a b hab]

/-- **the walk of `lyd_validate_subtree`** keeps the non-presence container invariant when no new node is default-flagged -/
theorem subtree_good (X : SchemaX) (o : VOpts) : ∀ (fuel : Nat) (cx : Cx) (before : List DNode) (n : DNode),
    npInvN X.base n → newExplN n → npInvN X.base (subtreeNode X o fuel cx before n).1 := by
  intro fuel
  induction fuel with
  | zero => intro cx before n h _; cases n <;> exact h
  | succ fuel ih =>
    intro cx before n h1 h2
    cases n with
    | term s f m v => exact h1
    | inner s f m ks =>
      unfold subtreeNode
      dsimp only
      unfold npInvN at h1
      unfold newExplN at h2
      obtain ⟨c1, c2⟩ := level_good X o (cx.descend X.base before (DNode.inner s f m ks))
        (cx.descend X.base before (DNode.inner s f m ks)).keysOld (X.kidsOf (some s)) ks h1.2 h2.2
      generalize (implL X o (cx.descend X.base before (DNode.inner s f m ks)).keysOld (X.kidsOf (some s))
        (validateNew X o (cx.descend X.base before (DNode.inner s f m ks)) ks).1) = r2 at c1 c2 ⊢
      have h3 : Rel2 (fun a b => b.flags = a.flags ∧ (npInvN X.base a ∧ newExplN a → npInvN X.base b)) r2.1
          (walkList (subtreeNode X o fuel (cx.descend X.base before (DNode.inner s f m ks)).keysOld) [] r2.1).1 :=
        walkList_rel _ r2.1 [] (fun b x _ => ⟨(subtree_half X o fuel _ b x).1, fun hx => ih _ b x hx.1 hx.2⟩)
      generalize (walkList (subtreeNode X o fuel (cx.descend X.base before (DNode.inner s f m ks)).keysOld) [] r2.1) = r3 at h3 ⊢
      unfold npInvN
      constructor
      · intro hnp
        rw [allD_rel_eq (fun a b hab => by rw [hab.1]) h3, c2]
        exact h1.1 hnp
      · rw [npInvL_all]
        intro x hx
        obtain ⟨a, ha, hab⟩ := forall2_mem_right h3 x hx
        exact hab.2 (c1 a ha)

/-- the tree `lyd_validate_final_r` receives -/
theorem prefinal_good (X : SchemaX) (o : VOpts) (t : List DNode) (h1 : npInvL X.base t) (h2 : newExplL t) :
    npInvL X.base (subtreeKids X o (walkFuel X t) {} [] (implL X o {} X.top (validateNew X o {} t).1).1).1 := by
  obtain ⟨c1, _⟩ := level_good X o {} {} X.top t h1 h2
  generalize (implL X o {} X.top (validateNew X o {} t).1) = r2 at c1 ⊢
  have h3 : Rel2 (fun a b => b.flags = a.flags ∧ (npInvN X.base a ∧ newExplN a → npInvN X.base b)) r2.1
      (subtreeKids X o (walkFuel X t) {} [] r2.1).1 := by
    unfold subtreeKids
    exact walkList_rel _ r2.1 [] (fun b x _ => ⟨(subtree_half X o _ _ b x).1, fun hx => subtree_good X o _ _ b x hx.1 hx.2⟩)
  generalize (subtreeKids X o (walkFuel X t) {} [] r2.1) = r3 at h3 ⊢
  rw [npInvL_all]
  intro x hx
  obtain ⟨a, ha, hab⟩ := forall2_mem_right h3 x hx
  exact hab.2 (c1 a ha)

end LyModel.Valid
