import LyModel.Valid.Spec
/-!
# The specification of implicit data: which default nodes RFC 7950 / RFC 6243 say exist

Written from RFC 7950 §7.6.1 (leaf default in use), §7.7.2 (leaf-list defaults), §7.5.1 (non-presence containers), §7.9.3
(default case), independent of `lyd_new_implicit`: recursion over the *schema*, on the explicit data.

* a leaf / leaf-list without instance whose closest ancestor that is not a non-presence container exists — for a case: some
  node of the case exists, or the case is the default one and no node of any case exists — has its default value(s);
* a non-presence container exists wherever its parent does.
`rfcComplete` returns the explicit data together with exactly these nodes (flagged default, in libyang's sibling order).
Core Lean only.
-/
namespace LyModel.Valid
open LyModel LyModel.Tree

mutual
/-- complete the sibling list `sibs` (children of an existing or virtual parent) with the implicit nodes of schema node `k` -/
def rfcNode (X : SchemaX) (o : VOpts) : STree → List DNode → List DNode
  | .mk s i ks, sibs =>
    let S := X.base
    if o.noState && !i.config then sibs else
    match i.kind with
    | .leaf =>
      match i.dflts, hasInst sibs s with
      | d :: _, false => insertNode S sibs (.term s dfltFlags [] d)
      | _, _ => sibs
    | .leaflist =>
      if hasInst sibs s then sibs
      else i.dflts.foldl (fun acc d => insertNode S acc (.term s dfltFlags [] d)) sibs
    | .container =>
      if hasInst sibs s then
        sibs.map fun n => if n.sid == s then npSet S (n.setKids (rfcL X o ks n.kids)) else n
      else if i.presence then sibs
      else insertNode S sibs (.inner s dfltFlags [] (rfcL X o ks []))
    | .list =>
      sibs.map fun n => if n.sid == s then n.setKids (rfcL X o ks n.kids) else n
    | .choice => rfcCases X o i.dfltCase (hasData sibs (dataSidsL ks)) ks sibs
    | .case => rfcL X o ks sibs
def rfcL (X : SchemaX) (o : VOpts) : List STree → List DNode → List DNode
  | [], sibs => sibs
  | k :: ks, sibs => rfcL X o ks (rfcNode X o k sibs)
/-- the case whose defaults are in use: the one that has data, else (no data in any case) the default case -/
def rfcCases (X : SchemaX) (o : VOpts) (dflt : Option String) (anyData : Bool) : List STree → List DNode → List DNode
  | [], sibs => sibs
  | c :: rest, sibs =>
    if (if anyData then hasData sibs c.dataSids else dflt == some c.info.name) then rfcNode X o c sibs
    else rfcCases X o dflt anyData rest sibs
end

/-- the explicit data plus exactly the default nodes the RFCs put in use -/
def rfcComplete (X : SchemaX) (o : VOpts) (t : List DNode) : List DNode :=
  rfcL X o X.top (explicitPart t)

end LyModel.Valid
