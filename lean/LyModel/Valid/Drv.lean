import LyModel.Valid.SpecDefaults
import LyModel.Valid.Hist
import LyModel.Valid.Ops
import LyModel.Valid.ValApply
import LyModel.Valid.LemmasCompletionTree
import LyModel.Valid.LemmasValdiffQuiet
import LyModel.Valid.FullSaneB
import LyModel.Valid.LemmasPerm
import LyModel.Valid.FullUniq
import LyModel.Valid.XpValid
import LyModel.Valid.XpSpec
import LyModel.Valid.XpWhenDec
/-! driver ops of component `valid` (C02, C07): see harness/api_val.c and harness/api_norm.c for the protocol -/
namespace LyModel.Valid.Drv
open LyModel LyModel.Tree

def withX (dsl xdsl : String) (k : SchemaX → String) : String :=
  match SchemaX.ofHex dsl xdsl with
  | some X => k X
  | none => "err BadSchema"

def errToks (es : List VErr) : String := " ".intercalate (es.map (·.tok))

def handle (op : String) (args : List String) : String :=
  match op, args with
  | "schema", [dsl, _yang] =>
    match Schema.ofHex dsl with
    | some S => "ok " ++ toString S.nodes.length ++ " " ++ " ".intercalate S.summary
    | none => "err BadSchema"
  | "val", [dsl, xdsl, opts, dump] =>
    withX dsl xdsl fun X =>
      match opts.toNat?, forestOfHex X.base dump with
      | some on, some f =>
        match buildL X.base f with
        | some e => "ok build " ++ e.name
        | none =>
          let o := VOpts.ofNat on
          let t := canon X.base (heightL f + 1) (freshL X.base f)
          let r := validate X o t
          if r.errs.isEmpty then "ok valid " ++ dumpTok r.tree
          else
            let es := if o.multiError then r.errs else r.errs.take 1
            "ok invalid " ++ toString es.length ++ " " ++ errToks es
      | _, _ => "err BadTree"
  | "valx", [dsl, xdsl, opts, dump] =>
    -- `val` with the XPath-dependent statements of the extension DSL (`must`, leafref `require-instance`): `validateX`
    withX dsl xdsl fun X =>
      match opts.toNat?, forestOfHex X.base dump, (Hex.dec xdsl).bind parseXCons with
      | some on, some f, some C =>
        match buildL X.base f with
        | some e => "ok build " ++ e.name
        | none =>
          let o := VOpts.ofNat on
          let t := canon X.base (heightL f + 1) (freshL X.base f)
          let r := validateX X C o t
          if r.errs.isEmpty then "ok valid " ++ dumpTok r.tree
          else
            let es := if o.multiError then r.errs else r.errs.take 1
            "ok invalid " ++ toString es.length ++ " " ++ errToks es
      | _, _, none => "err BadSchema"
      | _, _, _ => "err BadTree"
  | "hist", dsl :: xdsl :: opts :: steps =>
    withX dsl xdsl fun X =>
      match opts.toNat?, steps.mapM (parseStep X.base) with
      | some on, some sts => "ok" ++ String.join ((runHist X (VOpts.ofNat on) sts 0 0 []).map (" " ++ ·))
      | _, _ => "err BadStep"
  | "histlaw", dsl :: xdsl :: opts :: fx :: steps =>
    -- the laws of C07 along a history, as harness/api_norm.c `histlaw` evaluates them on libyang; `fx` = `fx=120,126` the repairs of
    -- lyd_diff_apply_all present in the tree under test; plus `sh<i>` = the hypotheses of `valdiff_exact_partial` on that input
    withX dsl xdsl fun X =>
      match opts.toNat?, steps.mapM (parseStep X.base) with
      | some on, some sts =>
        let l := ((fx.drop 3).toString.splitOn ",")
        let f : Diff.Fixes := { f120 := l.contains "120", f126 := l.contains "126", f128 := l.contains "128" }
        let o := VOpts.ofNat on
        -- hypotheses and statements of Props/C07Completion.lean on the input of every validation: `implicit_exact_tree_nochoice` (hyp, statement),
        -- `implicit_exact_tree_explicit` (hyp, statement), `implicit_exact_tree` (all schemas: hyp)
        let csB := choiceSchemaB X
        let dsB := dataSchemaB X
        let okB := okBelowB X
        let extra := fun (t : List DNode) =>
          let T := (validate X o t).tree
          lawBit (dsB && !o.noState && freshExplL t && placedL X X.top t && cShapedL X.base t && decide (sheightL X.top ≤ walkFuel X t)
            && !(o.present && t.isEmpty))
          ++ lawBit (beqL (obsL X.base T) (obsL X.base (rfcComplete X o t)))
          ++ lawBit (okB && freshExplL t && npFullL X.base t && !(o.present && t.isEmpty))
          ++ lawBit (beqL (explicitPart T) (explicitPart t))
          ++ lawBit (csB && !X.q.implicitInnerCase && !o.noState && choiceDataB X t && !(o.present && t.isEmpty))
          ++ lawBit (okB && !npAtRiskL X true true t t && topCreates X o t && !(o.present && t.isEmpty))
        "ok" ++ String.join ((runLaw X o f extra sts 0 0 []).map (" " ++ ·))
      | _, _ => "err BadStep"
  | "rfcdefaults", [dsl, xdsl, opts, dump] =>
    -- the explicit part of the tree completed with the default nodes the RFCs put in use (model only); flags of the input kept
    withX dsl xdsl fun X =>
      match opts.toNat?, forestOfHex X.base dump with
      | some on, some f => "ok " ++ dumpTok (rfcComplete X (VOpts.ofNat on) f)
      | _, _ => "err BadTree"
  | "spec", [dsl, xdsl, opts, dump] =>
    -- the violated constraint families of the RFC specification (model only)
    withX dsl xdsl fun X =>
      match opts.toNat?, forestOfHex X.base dump with
      | some on, some f =>
        let ks := violations X (VOpts.ofNat on) (canon X.base (heightL f + 1) (freshL X.base f))
        "ok " ++ toString ks.eraseDups.length ++ " " ++ " ".intercalate (ks.eraseDups.map (·.name))
      | _, _ => "err BadTree"
  | "specx", [dsl, xdsl, opts, dump] =>
    -- `spec` with the XPath-dependent statements (`must`, leafref `require-instance`): `violationsX` (model only)
    withX dsl xdsl fun X =>
      match opts.toNat?, forestOfHex X.base dump, (Hex.dec xdsl).bind parseXCons with
      | some on, some f, some C =>
        let ks := violationsX X C (VOpts.ofNat on) (canon X.base (heightL f + 1) (freshL X.base f))
        "ok " ++ toString ks.eraseDups.length ++ " " ++ " ".intercalate (ks.eraseDups.map (·.name))
      | _, _, none => "err BadSchema"
      | _, _, _ => "err BadTree"
  | "specw", [dsl, xdsl, opts, dump] =>
    -- `specx` for schemas with `when` (Props/C02Xpath.lean, `validate_ok_iff_valid_when_decidable`): the violated families of
    -- `violationsX`, then `|` and three bits: the class condition `whenNoTouchB` on the accessible tree of the specification, whether
    -- every `when` of that tree holds (`whenAllHold`), and whether the model's `when` phase removes an implicit node (model only)
    withX dsl xdsl fun X =>
      match opts.toNat?, forestOfHex X.base dump, (Hex.dec xdsl).bind parseXCons with
      | some on, some f, some C =>
        let o := VOpts.ofNat on
        let t := canon X.base (heightL f + 1) (freshL X.base f)
        let ks := violationsX X C o t
        let acc := rfcComplete X o t
        "ok " ++ toString ks.eraseDups.length ++ String.join (ks.eraseDups.map (" " ++ ·.name)) ++ " | " ++
          b01 (whenNoTouchB X C.whens acc) ++ " " ++ b01 (whenAllHold (xpBool C.mask X.base) X C.whens acc) ++ " " ++
          b01 (!(whenPhase X C o (preFinal X o t)).2.evs.isEmpty)
      | _, _, none => "err BadSchema"
      | _, _, _ => "err BadTree"
  | "opsvariant", [dsl, xdsl] =>
    -- the all-state variant of the schema as DSL (flat table), and whether its tree view agrees with that table row by row
    withX dsl xdsl fun X =>
      let V := stateVariant X
      let same := (flatL V.top).map (fun p => snodeDsl p.2) == V.base.nodes.map snodeDsl && (flatL V.top).map (·.1) == List.range V.base.nodes.length
      "ok " ++ Hex.enc (bytesOfString (schemaDsl V.base)) ++ " " ++ Hex.enc (bytesOfString ("\n".intercalate (V.uniques.map fun u =>
        "unique " ++ toString u.1 ++ " " ++ ",".intercalate (u.2.map toString)))) ++ " " ++ b01 same
  | "opsspec", [dsl, xdsl, dump] =>
    -- content of an operation, given the ORIGINAL schema: the violated constraint families of the specification (all-state variant,
    -- no option), then `|`, then per route (rpc input, reply output, notification) what the model of `lyd_validate_op` says for the
    -- source tree at hand (`OpFacts.current`): `V`, `I:<kind of the first error>`, or `B:<build error>`, then `|` and the violated
    -- families of the schema itself
    withX dsl xdsl fun X =>
      match forestOfHex X.base dump with
      | some f =>
        let V := stateVariant X
        let ks := opsViolations X (canon V.base (heightL f + 1) (freshL V.base f))
        let route := fun (r : Route) =>
          let Y := opSchema OpFacts.current X
          match buildL Y.base f with
          | some e => r.name ++ "=B:" ++ e.name
          | none =>
            match (opsValidate OpFacts.current r X (canon Y.base (heightL f + 1) (freshL Y.base f))).errs with
            | [] => r.name ++ "=V"
            | e :: _ => r.name ++ "=I:" ++ e.kind.name
        -- last: the violations of the schema itself (the same instance as datastore content), for the counters of the check
        let k0 := violations X {} (canon X.base (heightL f + 1) (freshL X.base f))
        "ok " ++ toString ks.eraseDups.length ++ String.join (ks.eraseDups.map (" " ++ ·.name)) ++ " | " ++ route .input ++ " " ++ route .output
          ++ " " ++ route .notif ++ " | " ++ toString k0.eraseDups.length ++ String.join (k0.eraseDups.map (" " ++ ·.name))
      | none => "err BadTree"
  | "hyp", [dsl, xdsl, opts, dump] =>
    -- which hypotheses of the C02 theorems (Props/C02.lean, Props/C02Full.lean) the case satisfies (model only): the table / tree-view
    -- consistency, `PlainSane` (plain theorem), `FullSane` (full schema language), no `unique` / `UniqPathsOk` / `UniqueWF`, the repaired `lyd_new_implicit`,
    -- `KeysFirst`, the instance as the theorems want it (`goodL`: no default-flagged node), fuel and length bounds
    withX dsl xdsl fun X =>
      match opts.toNat?, forestOfHex X.base dump with
      | some on, some f =>
        let o := VOpts.ofNat on
        let t := canon X.base (heightL f + 1) (freshL X.base f)
        let wf := lookupOkB X && infoOkB X && nodeLookupOkB X
        -- the hypotheses about `unique` statements: paths (`UniqPathsOk`), the repaired F175, and for the order theorem `UniqueWF`
        let uq := uniqPathsOkB X && !X.q.uniqueDefaultAlways
        let bounds := decide (t.length ≤ uint32Max) && decide (sheightL X.top ≤ walkFuel X t)
        "ok wf=" ++ b01 wf ++ " plain=" ++ b01 (plainSaneB X) ++ " full=" ++ b01 (fullSaneB X o) ++ " nouniq=" ++ b01 X.uniques.isEmpty
          ++ " uniqok=" ++ b01 uq ++ " uniqwf=" ++ b01 (decide (UniqueWF X))
          ++ " fixed=" ++ b01 (!X.q.implicitInnerCase) ++ " keysfirst=" ++ b01 (keysFirstB X.base) ++ " good=" ++ b01 (goodL X X.top t)
          ++ " bounds=" ++ b01 bounds ++ " oper=" ++ b01 o.operational
      | _, _ => "err BadTree"
  | _, _ => "err BadOp"

end LyModel.Valid.Drv
