import LyModel.Valid.Model
/-!
# The specification: which instances RFC 7950 calls valid (schema family S1x)

Written from RFC 7950 §7.5–§7.9 and §8 without looking at how libyang checks: the constraints are stated per *schema*
node on the explicit data (nodes flagged default removed), the recursion follows the schema, and a non-presence container
"exists" whether or not it has an instance (§7.5.1: it has no meaning of its own; the mandatory / min-elements rules of
§7.6.5, §7.7.5, §7.9.4 look through it to the closest ancestor that is not a non-presence container).

Constraint families (the `EKind` a violation is reported under):
* `dup`         at most one instance of a leaf / container (§7.6, §7.5); list keys unique (§7.8.2); configuration leaf-list
                values unique (§7.7)
* `dupCase`     data from at most one case of a choice (§7.9)
* `noMand`      a mandatory leaf exists if its closest non-np-container ancestor does — for a case: if any node of the case
                exists (§7.6.5)
* `noMandChoice` a mandatory choice has data under the same rule (§7.9.4)
* `noMin`/`noMax` min-elements / max-elements (§7.7.5, §7.7.6, §7.8.5)
* `noUniq`      `unique`: no two entries with the same values for all the listed leaves, counting a default value only where
                it is in use (§7.8.3, §7.6.1)
* `unexpState`  no state data when the datastore content is configuration (`LYD_VALIDATE_NO_STATE`)
* `badValue`    values in the value space of the type (§9);  `noKey`: every list entry has its keys (§7.8.2)
Core Lean only.
-/
namespace LyModel.Valid
open LyModel LyModel.Tree

mutual
/-- the data the client supplied: everything flagged default dropped (implicit nodes, empty non-presence containers); the
bookkeeping of the library (flags, metadata) is not part of the data -/
def explicitNode : DNode → Option DNode
  | .inner s f _ ks => if f.dflt then none else some (.inner s {} [] (explicitL ks))
  | .term s f _ v => if f.dflt then none else some (.term s {} [] v)
def explicitL : List DNode → List DNode
  | [] => []
  | n :: ns => match explicitNode n with
    | some n' => n' :: explicitL ns
    | none => explicitL ns
end

abbrev explicitPart := explicitL

/-- all elements pairwise different under `eq` -/
def pairwiseNe {α : Type} (eq : α → α → Bool) : List α → Bool
  | [] => true
  | x :: xs => xs.all (fun y => !eq x y) && pairwiseNe eq xs

/-! ### `unique` (the value of a listed leaf in one list entry, with "default in use" per §7.6.1: `leafValInUse`, LyModel/Valid/Final.lean) -/

def specTuple (lst : STree) (u : List Nat) (entry : DNode) : Option (List Bytes) :=
  u.mapM fun leaf =>
    match pathTo (u.length + 64) lst.kids leaf with
    | some p => leafValInUse p entry.kids
    | none => none

/-- no two entries agree on a complete tuple -/
def uniqueOk (lst : STree) (u : List Nat) (entries : List DNode) : Bool :=
  pairwiseNe (fun a b => a.isSome && a == b) (entries.map (specTuple lst u))

/-! ### the constraints of one schema node on one sibling list -/

/-- every list entry starts with its keys, in schema order -/
def keysOk (S : Schema) (lst : STree) (entries : List DNode) : Bool :=
  entries.all fun e => keysPresent S lst.sid e.kids

mutual
/-- violated constraint families of the schema node `k` on the explicit siblings `sibs` (of an existing or virtual parent) -/
def specNode (X : SchemaX) (o : VOpts) : STree → List DNode → List EKind
  | .mk s i ks, sibs =>
    let insts := instsOf sibs s
    -- when the content is configuration only (`noState`) no state data may exist, and the cardinality constraints of a state
    -- node (mandatory, min-/max-elements, unique) ask for nothing; what is there must still be a well-formed data tree
    let st := o.noState && !i.config
    let stateV : List EKind := if st && !insts.isEmpty then [.unexpState] else []
    match i.kind with
    | .leaf =>
      stateV
        ++ (if insts.length > 1 then [.dup] else [])
        ++ (if !st && i.mandatory && insts.isEmpty then [.noMand] else [])
        ++ (if insts.all (fun n => typeOk i.ty n.val) then [] else [.badValue])
    | .leaflist =>
      stateV
        ++ (if i.config && !pairwiseNe (fun a b : DNode => a.val == b.val) insts then [.dup] else [])
        ++ (if !st && insts.length < i.min then [.noMin] else [])
        ++ (if !st && i.max != 0 && insts.length > i.max then [.noMax] else [])
        ++ (if insts.all (fun n => typeOk i.ty n.val) then [] else [.badValue])
    | .container =>
      stateV
        ++ (if insts.length > 1 then [.dup] else [])
        ++ (if i.presence then
              -- the content is constrained only where the container exists
              insts.flatMap (fun e => specL X o ks e.kids)
            else
              -- a non-presence container exists as soon as its parent does
              (if insts.isEmpty then specL X o ks [] else insts.flatMap (fun e => specL X o ks e.kids)))
    | .list =>
      stateV
        ++ (if keysOk X.base (.mk s i ks) insts then [] else [.noKey])
        ++ (if i.nkeys != 0 && !pairwiseNe (fun a b : DNode => keyVals X.base a == keyVals X.base b) insts then [.dup] else [])
        ++ (if !st && insts.length < i.min then [.noMin] else [])
        ++ (if !st && i.max != 0 && insts.length > i.max then [.noMax] else [])
        ++ (if st || (X.uniquesOf s).all (fun u => uniqueOk (.mk s i ks) u insts) then [] else [.noUniq])
        ++ insts.flatMap (fun e => specL X o ks e.kids)
    | .choice =>
      -- the cases that have data
      let live := ks.filter fun cs => hasData sibs cs.dataSids
      (if live.length > 1 then [.dupCase] else [])
        ++ (if !st && i.mandatory && live.isEmpty then [.noMandChoice] else [])
        ++ specCases X o ks sibs
    | .case => specL X o ks sibs
/-- the schema children `ks` on one sibling list -/
def specL (X : SchemaX) (o : VOpts) : List STree → List DNode → List EKind
  | [], _ => []
  | k :: ks, sibs => specNode X o k sibs ++ specL X o ks sibs
/-- a case constrains the data only when some node of it exists -/
def specCases (X : SchemaX) (o : VOpts) : List STree → List DNode → List EKind
  | [], _ => []
  | cs :: rest, sibs =>
    (if hasData sibs cs.dataSids then specNode X o cs sibs else []) ++ specCases X o rest sibs
end

mutual
/-- is there a node of a state schema node that is flagged default: an implicit node an earlier validation created, an empty
non-presence container the client created -/
def dfltStateN (S : Schema) : DNode → Bool
  | .inner s f _ ks => (f.dflt && !S.config s) || dfltStateL S ks
  | .term s f _ _ => f.dflt && !S.config s
def dfltStateL (S : Schema) : List DNode → Bool
  | [] => false
  | n :: ns => dfltStateN S n || dfltStateL S ns
end

/-- the violated constraint families of the whole instance.  "No state data" (`noState`) is about the nodes of the tree: a
state node that is there violates it also when it is no client data (flagged default). -/
def violations (X : SchemaX) (o : VOpts) (t : List DNode) : List EKind :=
  if o.present && t.isEmpty then []
  else specL X o X.top (explicitPart t) ++ (if o.noState && dfltStateL X.base t then [.unexpState] else [])

/-- decidable form of the specification -/
def validB (X : SchemaX) (o : VOpts) (t : List DNode) : Bool := (violations X o t).isEmpty

/-- **`Valid`**: the instance satisfies every RFC 7950 constraint of the schema -/
def Valid (X : SchemaX) (o : VOpts) (t : List DNode) : Prop := violations X o t = []

instance (X : SchemaX) (o : VOpts) (t : List DNode) : Decidable (Valid X o t) := by
  unfold Valid; exact inferInstance

end LyModel.Valid
