import LyModel.Valid.LemmasFixIdem
/-!
# C07 idempotence for the repaired `lyd_validate_cases` (F321), part 4: the hypothesis of F189 is not needed any more

In the repaired variant the case that exists is found on the EXPLICIT siblings, and only nodes of the other cases go: an explicit
non-presence container keeps an explicit child through `lyd_validate_new` whatever the flags of the new nodes are — so the tree
`lyd_validate_final_r` receives satisfies the non-presence container invariant as soon as the input does (`prefinal_good3`, no `newExplL`).
-/
namespace LyModel.Valid
open LyModel LyModel.Tree

/-- the repaired step keeps an explicit node (of the existing case) -/
theorem casesStepFix_keeps_expl (X : SchemaX) (cx : Cx) (choice : STree) (sibs : List DNode) (h : ∃ x ∈ sibs, x.flags.dflt = false) :
    ∃ x ∈ (casesStepFix X cx choice sibs).1, x.flags.dflt = false := by
  unfold casesStepFix
  cases hsc : scanCases (explSibs sibs) choice.kids none none with
  | none => exact h
  | some p =>
    obtain ⟨old', new'⟩ := p
    obtain ⟨_, a2, _, _, a5, a6⟩ := scanCases_some (explSibs sibs) choice.kids none none old' new' hsc
    cases new' with
    | some nw =>
      have hex : ∃ c ∈ choice.kids, caseFound (explSibs sibs) c = 2 := by
        rcases a6 with a6 | a6
        · cases a6
        · exact a6
      obtain ⟨c, _, hf⟩ := hex
      obtain ⟨z, hz, hin, hzn⟩ := caseFound_two hf
      obtain ⟨hzs, hzd⟩ := explSibs_sub hz
      have hk : z ∈ (delCases X cx (explSibs sibs) 2 choice.kids sibs).1 := by
        apply delCases_keeps X cx _ 2 z _ sibs hzs
        intro c' _ hne
        cases hin' : inSids c'.dataSids z with
        | false => rfl
        | true => exact absurd (caseFound_new_inst hz hin' hzn) hne
      cases old' <;> exact ⟨z, hk, hzd⟩
    | none =>
      cases old' with
      | none => exact h
      | some od =>
        have hex : ∃ c ∈ choice.kids, caseFound (explSibs sibs) c = 1 := by
          rcases a5 with a5 | a5
          · cases a5
          · exact a5
        obtain ⟨c, _, hf⟩ := hex
        obtain ⟨z, hz, hin⟩ := caseFound_one hf
        obtain ⟨hzs, hzd⟩ := explSibs_sub hz
        have hk : z ∈ (delCases X cx (explSibs sibs) 1 choice.kids sibs).1 := by
          apply delCases_keeps X cx _ 1 z _ sibs hzs
          intro c' hc' hne
          cases hin' : inSids c'.dataSids z with
          | false => rfl
          | true =>
            rcases caseFound_of_inst hz hin' with h1 | h2
            · exact absurd h1 hne
            · have := a2 c' hc' h2
              cases this
        exact ⟨z, hk, hzd⟩

mutual
theorem choiceR_keeps3_T (X : SchemaX) (hq : X.q.casesCountDefault = false) (cx : Cx) : ∀ (t : STree) (sibs : List DNode),
    (∃ x ∈ sibs, x.flags.dflt = false) →
    (∃ x ∈ (choiceRNode X cx t sibs).1, x.flags.dflt = false) ∧ (∃ x ∈ (choiceRCase X cx t sibs).1, x.flags.dflt = false)
  | .mk s i ks, sibs, h => by
    constructor
    · rw [choiceRNode]
      split
      · split
        · exact h
        · dsimp only
          rw [casesStepQ_fix hq]
          exact (choiceR_keeps3_L X hq cx ks _ (casesStepFix_keeps_expl X cx _ sibs h)).2
      · exact h
    · rw [choiceRCase]
      exact (choiceR_keeps3_L X hq cx ks sibs h).1
theorem choiceR_keeps3_L (X : SchemaX) (hq : X.q.casesCountDefault = false) (cx : Cx) : ∀ (ks : List STree) (sibs : List DNode),
    (∃ x ∈ sibs, x.flags.dflt = false) →
    (∃ x ∈ (choiceRL X cx ks sibs).1, x.flags.dflt = false) ∧ (∃ x ∈ (choiceRCases X cx ks sibs).1, x.flags.dflt = false)
  | [], sibs, h => by
    rw [choiceRL, choiceRCases]
    exact ⟨h, h⟩
  | k :: rest, sibs, h => by
    constructor
    · rw [choiceRL]
      dsimp only
      exact (choiceR_keeps3_L X hq cx rest _ (choiceR_keeps3_T X hq cx k sibs h).1).1
    · rw [choiceRCases]
      dsimp only
      exact (choiceR_keeps3_L X hq cx rest _ (choiceR_keeps3_T X hq cx k sibs h).2).2
end

/-- **`lyd_validate_new` of the repaired variant keeps an explicit sibling** -/
theorem validateNew_keeps_expl3 (X : SchemaX) (hq : X.q.casesCountDefault = false) (o : VOpts) (cx : Cx) (sibs : List DNode)
    (h : ∃ x ∈ sibs, x.flags.dflt = false) : ∃ x ∈ (validateNew X o cx sibs).1, x.flags.dflt = false := by
  unfold validateNew
  dsimp only
  have h1 := (choiceR_keeps3_L X hq cx (X.kidsOf cx.parent) sibs h).1
  generalize (choiceRL X cx (X.kidsOf cx.parent) sibs).1 = l1 at h1
  obtain ⟨h2, _⟩ := newLoop_first X o cx.keysOld (l1.length + 1) l1 [] none (by omega)
  rw [exists_expl_iff, h2, List.nil_append, ← exists_expl_iff]
  exact h1

theorem fresh_good3 (S : Schema) (x : DNode) (hf : x.flags = dfltFlags) (hk : x.kids = []) : npInvN S x := (fresh_good S x hf hk).1

/-- one sibling level after `lyd_validate_new` and `lyd_new_implicit` (repaired variant): still good, and all default iff it was -/
theorem level_good3 (X : SchemaX) (hq : X.q.casesCountDefault = false) (o : VOpts) (cx cx' : Cx) (sk : List STree) (ks : List DNode)
    (h1 : npInvL X.base ks) :
    (∀ x ∈ (implL X o cx' sk (validateNew X o cx ks).1).1, npInvN X.base x) ∧
    allD (implL X o cx' sk (validateNew X o cx ks).1).1 = allD ks := by
  have hkeep := validateNew_keeps_expl3 X hq o cx ks
  have hhalf := (level_half X o cx cx' sk ks (halfInvL_of_npInvL X.base ks h1)).2
  have hk := implL_keeps X o cx' sk (validateNew X o cx ks).1
  obtain ⟨_, _, a3⟩ := validateNew_first X o cx ks
  generalize (validateNew X o cx ks).1 = r1 at a3 hkeep hhalf hk
  have b := implL_onlyAdds X o cx' sk r1
  generalize (implL X o cx' sk r1).1 = r2 at b hhalf hk
  rw [npInvL_all] at h1
  constructor
  · intro x hx
    rcases b x hx with h | ⟨hf, hkid⟩
    · obtain ⟨y, hy, hxy⟩ := a3 x h
      subst hxy
      exact npInvN_normNew _ y (h1 y hy)
    · exact fresh_good3 _ x hf hkid
  · cases hall : allD ks with
    | true => exact hhalf hall
    | false =>
      have hex : ∃ x ∈ ks, x.flags.dflt = false := by
        unfold allD at hall
        obtain ⟨x, hx, hd⟩ := List.all_eq_false.1 hall
        exact ⟨x, hx, by simpa using hd⟩
      obtain ⟨z, hz, hzd⟩ := hkeep hex
      unfold allD
      rw [List.all_eq_false]
      exact ⟨z, hk z hz, by simp [hzd]⟩

/-- **the walk of `lyd_validate_subtree`, repaired variant, keeps the non-presence container invariant** (no hypothesis on the new nodes) -/
theorem subtree_good3 (X : SchemaX) (hq : X.q.casesCountDefault = false) (o : VOpts) : ∀ (fuel : Nat) (cx : Cx) (before : List DNode) (n : DNode),
    npInvN X.base n → npInvN X.base (subtreeNode X o fuel cx before n).1 := by
  intro fuel
  induction fuel with
  | zero => intro cx before n h; cases n <;> exact h
  | succ fuel ih =>
    intro cx before n h1
    cases n with
    | term s f m v => exact h1
    | inner s f m ks =>
      unfold subtreeNode
      dsimp only
      unfold npInvN at h1
      obtain ⟨c1, c2⟩ := level_good3 X hq o (cx.descend X.base before (DNode.inner s f m ks))
        (cx.descend X.base before (DNode.inner s f m ks)).keysOld (X.kidsOf (some s)) ks h1.2
      generalize (implL X o (cx.descend X.base before (DNode.inner s f m ks)).keysOld (X.kidsOf (some s))
        (validateNew X o (cx.descend X.base before (DNode.inner s f m ks)) ks).1) = r2 at c1 c2 ⊢
      have h3 : Rel2 (fun a b => b.flags = a.flags ∧ (npInvN X.base a → npInvN X.base b)) r2.1
          (walkList (subtreeNode X o fuel (cx.descend X.base before (DNode.inner s f m ks)).keysOld) [] r2.1).1 :=
        walkList_rel _ r2.1 [] (fun b x _ => ⟨(subtree_half X o fuel _ b x).1, fun hx => ih _ b x hx⟩)
      generalize (walkList (subtreeNode X o fuel (cx.descend X.base before (DNode.inner s f m ks)).keysOld) [] r2.1) = r3 at h3 ⊢
      unfold npInvN
      constructor
      · intro hnp
        rw [allD_rel_eq (fun a b hab => by rw [hab.1]) h3, c2]
        exact h1.1 hnp
      · rw [npInvL_all]
        intro x hx
        obtain ⟨a, ha, hab⟩ := forall2_mem_right h3 x hx
        exact hab.2 (c1 a ha)

/-- the tree `lyd_validate_final_r` receives (repaired variant) -/
theorem prefinal_good3 (X : SchemaX) (hq : X.q.casesCountDefault = false) (o : VOpts) (t : List DNode) (h1 : npInvL X.base t) :
    npInvL X.base (subtreeKids X o (walkFuel X t) {} [] (implL X o {} X.top (validateNew X o {} t).1).1).1 := by
  obtain ⟨c1, _⟩ := level_good3 X hq o {} {} X.top t h1
  generalize (implL X o {} X.top (validateNew X o {} t).1) = r2 at c1 ⊢
  have h3 : Rel2 (fun a b => b.flags = a.flags ∧ (npInvN X.base a → npInvN X.base b)) r2.1
      (subtreeKids X o (walkFuel X t) {} [] r2.1).1 := by
    unfold subtreeKids
    exact walkList_rel _ r2.1 [] (fun b x _ => ⟨(subtree_half X o _ _ b x).1, fun hx => subtree_good3 X hq o _ _ b x hx⟩)
  generalize (subtreeKids X o (walkFuel X t) {} [] r2.1) = r3 at h3 ⊢
  rw [npInvL_all]
  intro x hx
  obtain ⟨a, ha, hab⟩ := forall2_mem_right h3 x hx
  exact hab.2 (c1 a ha)

/-- a validation of the repaired variant leaves a stable tree — for every input that satisfies the non-presence container invariant
(kept by the edits of a history and by validation), WITHOUT the hypothesis of F189 -/
theorem validate_stable4 (X : SchemaX) (o : VOpts) (hq1 : X.q.implicitInnerCase = false) (hq2 : X.q.autodelDirectCase = false)
    (hq3 : X.q.casesCountDefault = false)
    (hl : KidsLookupOk X) (hw : CaseWf X) (t : List DNode) (hB : NoNpContInCase X ∨ npInvL X.base t)
    (hp : placedCL X X.top t = true) (hh : sheightL X.top ≤ walkFuel X t) (hpe : (o.present && t.isEmpty) = false) :
    StableTop X o (validate X o t).tree := by
  obtain ⟨ht, _⟩ := validate_evs_eq X o t hpe
  rw [ht]
  have hpre : NoNpContInCase X ∨
      npInvL X.base (subtreeKids X o (walkFuel X t) {} [] (implL X o {} X.top (validateNew X o {} t).1).1).1 := by
    rcases hB with h | h
    · exact Or.inl h
    · exact Or.inr (prefinal_good3 X hq3 o t h)
  obtain ⟨c1, c2, c3, c4⟩ := level_first X o {} {} hq1 hq2 X.top hw.1 t hp
  generalize (implL X o {} X.top (validateNew X o {} t).1) = r2 at c1 c2 c3 c4 hpre ⊢
  have h3 : Rel2 (Kept2 X o) r2.1 (subtreeKids X o (walkFuel X t) {} [] r2.1).1 := by
    unfold subtreeKids
    exact walkList_rel _ r2.1 [] (fun b x hx =>
      subtree_stable2 X o hq1 hq2 hl hw _ {} b x X.top (fun k hk => hk) (c4 x hx).1 (c4 x hx).2 hh)
  generalize (subtreeKids X o (walkFuel X t) {} [] r2.1) = r3 at h3 hpre ⊢
  obtain ⟨d1, d2, d3⟩ := level_walked X o hq2 X.top r2.1 r3.1 c1 c2 c3 h3
  have hfin := finalKids_stable2 X o hq2 r3.1 {} [] d3 hpre
  unfold StableTop finalR
  dsimp only
  refine ⟨?_, NV_flip X hq2 hfin.1 d2, hfin.2.1⟩
  rw [implDoneX_congr o X.top _ r3.1 (hasInst_flip X hfin.1)]
  exact d1

/-- **`validate_idempotent` for the repaired variant, without the hypothesis of F189** -/
theorem validate_idempotent4 (X : SchemaX) (o : VOpts) (hq1 : X.q.implicitInnerCase = false) (hq2 : X.q.autodelDirectCase = false)
    (hq3 : X.q.casesCountDefault = false)
    (hl : KidsLookupOk X) (hw : CaseWf X) (t : List DNode) (hB : NoNpContInCase X ∨ npInvL X.base t)
    (hp : placedCL X X.top t = true) (hh : sheightL X.top ≤ walkFuel X t) (hv : noDupErr (validate X o t).errs) :
    (validate X o (validate X o t).tree).tree = (validate X o t).tree ∧
    (validate X o (validate X o t).tree).evs = [] := by
  by_cases hpe : (o.present && t.isEmpty) = true
  · have : (validate X o t).tree = [] := by
      unfold validate; simp only [hpe, if_true]
    rw [this]
    have hpe' : (o.present && ([] : List DNode).isEmpty) = true := by
      simp only [Bool.and_eq_true] at hpe ⊢; exact ⟨hpe.1, rfl⟩
    unfold validate
    simp only [hpe', if_true]
    exact ⟨trivial, rfl⟩
  · have hpe' : (o.present && t.isEmpty) = false := by simpa using hpe
    exact validate_of_stable3 X o hq1 hq3 _ (validate_stable4 X o hq1 hq2 hq3 hl hw t hB hp hh hpe')
      (validate_clean X o hq1 hq2 hq3 hl hw t hp hh hpe' hv)

end LyModel.Valid
