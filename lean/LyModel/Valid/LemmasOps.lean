import LyModel.Valid.Ops
/-!
# `mapConfig` / `stateVariant`: what does not change

Recomputing `config` leaves every lookup of the flat table other than `config` itself as it was, and so the key handling, the
`lys_getnext` traversals, the `unique` tuples.  Used by `LemmasOpsSpec` (the specification on the variant) and `LemmasOpsWF`
(well-formedness of the variant).
-/
namespace LyModel.Valid
open LyModel LyModel.Tree

/-! ## tree view -/

theorem mapConfigL_eq_map (c : SNode → Bool) : ∀ ks : List STree, mapConfigL c ks = ks.map (·.mapConfig c)
  | [] => rfl
  | t :: ts => by unfold mapConfigL; rw [mapConfigL_eq_map c ts]; rfl

@[simp] theorem STree.mapConfig_sid (c : SNode → Bool) (t : STree) : (t.mapConfig c).sid = t.sid := by
  cases t; rfl
@[simp] theorem STree.mapConfig_info (c : SNode → Bool) (t : STree) : (t.mapConfig c).info = setConfig c t.info := by
  cases t; rfl
@[simp] theorem STree.mapConfig_kids (c : SNode → Bool) (t : STree) : (t.mapConfig c).kids = mapConfigL c t.kids := by
  cases t; rfl
@[simp] theorem STree.mapConfig_isChoice (c : SNode → Bool) (t : STree) : (t.mapConfig c).isChoice = t.isChoice := by
  cases t; rfl
@[simp] theorem setConfig_kind (c : SNode → Bool) (i : SNode) : (setConfig c i).kind = i.kind := rfl
@[simp] theorem setConfig_min (c : SNode → Bool) (i : SNode) : (setConfig c i).min = i.min := rfl
@[simp] theorem setConfig_max (c : SNode → Bool) (i : SNode) : (setConfig c i).max = i.max := rfl
@[simp] theorem setConfig_ty (c : SNode → Bool) (i : SNode) : (setConfig c i).ty = i.ty := rfl
@[simp] theorem setConfig_presence (c : SNode → Bool) (i : SNode) : (setConfig c i).presence = i.presence := rfl
@[simp] theorem setConfig_mandatory (c : SNode → Bool) (i : SNode) : (setConfig c i).mandatory = i.mandatory := rfl
@[simp] theorem setConfig_nkeys (c : SNode → Bool) (i : SNode) : (setConfig c i).nkeys = i.nkeys := rfl
@[simp] theorem setConfig_dflts (c : SNode → Bool) (i : SNode) : (setConfig c i).dflts = i.dflts := rfl
@[simp] theorem setConfig_dfltCase (c : SNode → Bool) (i : SNode) : (setConfig c i).dfltCase = i.dfltCase := rfl
@[simp] theorem setConfig_name (c : SNode → Bool) (i : SNode) : (setConfig c i).name = i.name := rfl
@[simp] theorem setConfig_depth (c : SNode → Bool) (i : SNode) : (setConfig c i).depth = i.depth := rfl
@[simp] theorem setConfig_iskey (c : SNode → Bool) (i : SNode) : (setConfig c i).iskey = i.iskey := rfl
@[simp] theorem setConfig_userord (c : SNode → Bool) (i : SNode) : (setConfig c i).userord = i.userord := rfl
@[simp] theorem setConfig_config (c : SNode → Bool) (i : SNode) : (setConfig c i).config = c i := rfl

mutual
theorem STree.mapConfig_dataSids (c : SNode → Bool) : ∀ t : STree, (t.mapConfig c).dataSids = t.dataSids
  | .mk s i ks => by
    unfold STree.mapConfig STree.dataSids
    rw [mapConfigL_dataSids c ks]; rfl
theorem mapConfigL_dataSids (c : SNode → Bool) : ∀ ks : List STree, dataSidsL (mapConfigL c ks) = dataSidsL ks
  | [] => rfl
  | t :: ts => by
    unfold mapConfigL dataSidsL
    rw [STree.mapConfig_dataSids c t, mapConfigL_dataSids c ts]
end

/-! ## flat table -/

theorem mapConfigS_get? (c : SNode → Bool) (S : Schema) (sid : Nat) :
    (mapConfigS c S).get? sid = (S.get? sid).map (setConfig c) := by
  unfold Schema.get? mapConfigS
  simp [List.getElem?_map]

@[simp] theorem mapConfigS_nkeys (c : SNode → Bool) (S : Schema) (sid : Nat) : (mapConfigS c S).nkeys sid = S.nkeys sid := by
  unfold Schema.nkeys; rw [mapConfigS_get?]; cases S.get? sid <;> rfl
@[simp] theorem mapConfigS_isKey (c : SNode → Bool) (S : Schema) (sid : Nat) : (mapConfigS c S).isKey sid = S.isKey sid := by
  unfold Schema.isKey; rw [mapConfigS_get?]; cases S.get? sid <;> rfl
@[simp] theorem mapConfigS_kind? (c : SNode → Bool) (S : Schema) (sid : Nat) : (mapConfigS c S).kind? sid = S.kind? sid := by
  unfold Schema.kind?; rw [mapConfigS_get?]; cases S.get? sid <;> rfl
@[simp] theorem mapConfigS_ty (c : SNode → Bool) (S : Schema) (sid : Nat) : (mapConfigS c S).ty sid = S.ty sid := by
  unfold Schema.ty; rw [mapConfigS_get?]; cases S.get? sid <;> rfl
@[simp] theorem mapConfigS_isNpCont (c : SNode → Bool) (S : Schema) (sid : Nat) : (mapConfigS c S).isNpCont sid = S.isNpCont sid := by
  unfold Schema.isNpCont; rw [mapConfigS_get?]; cases S.get? sid <;> rfl
@[simp] theorem mapConfigS_length (c : SNode → Bool) (S : Schema) : (mapConfigS c S).nodes.length = S.nodes.length := by
  simp [mapConfigS]

theorem mapConfigS_config (c : SNode → Bool) (S : Schema) (sid : Nat) (n : SNode) (h : S.get? sid = some n) :
    (mapConfigS c S).config sid = c n := by
  unfold Schema.config; rw [mapConfigS_get?, h]; rfl

@[simp] theorem mapConfigS_keysOf (c : SNode → Bool) (S : Schema) (ks : List DNode) : keysOf (mapConfigS c S) ks = keysOf S ks := by
  unfold keysOf; simp

@[simp] theorem mapConfigS_keyVals (c : SNode → Bool) (S : Schema) (n : DNode) : keyVals (mapConfigS c S) n = keyVals S n := by
  unfold keyVals; simp

@[simp] theorem mapConfigS_keysPresent (c : SNode → Bool) (S : Schema) (lst : Nat) (ks : List DNode) :
    keysPresent (mapConfigS c S) lst ks = keysPresent S lst ks := by
  unfold keysPresent; simp

@[simp] theorem SchemaX.mapConfig_base (c : SNode → Bool) (X : SchemaX) : (X.mapConfig c).base = mapConfigS c X.base := rfl
@[simp] theorem SchemaX.mapConfig_top (c : SNode → Bool) (X : SchemaX) : (X.mapConfig c).top = mapConfigL c X.top := rfl
@[simp] theorem SchemaX.mapConfig_uniques (c : SNode → Bool) (X : SchemaX) : (X.mapConfig c).uniques = X.uniques := rfl
@[simp] theorem SchemaX.mapConfig_uniquesOf (c : SNode → Bool) (X : SchemaX) (s : Nat) : (X.mapConfig c).uniquesOf s = X.uniquesOf s := rfl
@[simp] theorem SchemaX.mapConfig_q (c : SNode → Bool) (X : SchemaX) : (X.mapConfig c).q = X.q := rfl

theorem keysOk_mapConfig (c : SNode → Bool) (S : Schema) (s : Nat) (i i' : SNode) (ks ks' : List STree) (insts : List DNode) :
    keysOk (mapConfigS c S) (.mk s i' ks') insts = keysOk S (.mk s i ks) insts := by
  unfold keysOk; simp [STree.sid]

/-! ## `unique` tuples -/

theorem pathTo_mapConfig (c : SNode → Bool) : ∀ (fuel : Nat) (ks : List STree) (target : Nat),
    pathTo fuel (mapConfigL c ks) target = (pathTo fuel ks target).map (mapConfigL c)
  | 0, _, _ => by simp [pathTo]
  | _ + 1, [], _ => by simp [pathTo, mapConfigL]
  | fuel + 1, k :: ks, target => by
    unfold mapConfigL pathTo
    simp only [STree.mapConfig_sid, STree.mapConfig_kids]
    split
    · simp [mapConfigL]
    · rw [pathTo_mapConfig c fuel k.kids target, pathTo_mapConfig c fuel ks target]
      cases pathTo fuel k.kids target with
      | some p => simp [mapConfigL]
      | none => simp

theorem leafValInUse_mapConfig (c : SNode → Bool) : ∀ (p : List STree) (lvl : List DNode),
    leafValInUse (mapConfigL c p) lvl = leafValInUse p lvl
  | [], lvl => by
    rw [leafValInUse.eq_def, leafValInUse.eq_def]; simp [mapConfigL]
  | [leaf], lvl => by
    rw [leafValInUse.eq_def, leafValInUse.eq_def]; simp [mapConfigL, setConfig]
  | k :: r :: rest, lvl => by
    have ih1 := leafValInUse_mapConfig c (r :: rest)
    have ih2 := leafValInUse_mapConfig c rest
    rw [leafValInUse.eq_def, leafValInUse.eq_def (k :: r :: rest)]
    simp only [mapConfigL] at ih1 ⊢
    simp only [STree.mapConfig_info, STree.mapConfig_sid, setConfig_kind, STree.mapConfig_dataSids]
    cases hk : k.info.kind <;> simp only [ih1, ih2, setConfig]

theorem specTuple_mapConfig (c : SNode → Bool) (lst : STree) (u : List Nat) (entry : DNode) :
    specTuple (lst.mapConfig c) u entry = specTuple lst u entry := by
  unfold specTuple
  congr 1
  funext leaf
  rw [STree.mapConfig_kids, pathTo_mapConfig]
  cases pathTo (u.length + 64) lst.kids leaf with
  | none => rfl
  | some p => simp [leafValInUse_mapConfig]

theorem uniqueOk_mapConfig (c : SNode → Bool) (lst : STree) (u : List Nat) (entries : List DNode) :
    uniqueOk (lst.mapConfig c) u entries = uniqueOk lst u entries := by
  unfold uniqueOk
  congr 2
  funext e
  exact specTuple_mapConfig c lst u e

end LyModel.Valid
