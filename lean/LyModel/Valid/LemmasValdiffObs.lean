import LyModel.Valid.LemmasValdiffIns
/-!
# Lemmas for C07 `valdiff_exact`, part 2: the observation `obsL` commutes with `lyd_insert_node`
-/
namespace LyModel.Valid
open LyModel LyModel.Tree

theorem obsL_eq_map (S : Schema) : ∀ l, obsL S l = l.map (obsN S)
  | [] => rfl
  | x :: xs => by simp [obsL, obsL_eq_map S xs]

@[simp] theorem sid_obsN (S : Schema) (x : DNode) : (obsN S x).sid = x.sid := by cases x <;> rfl
@[simp] theorem val_obsN (S : Schema) (x : DNode) : (obsN S x).val = x.val := by cases x <;> rfl
@[simp] theorem isTerm_obsN (S : Schema) (x : DNode) : (obsN S x).isTerm = x.isTerm := by cases x <;> rfl
@[simp] theorem kids_obsN (S : Schema) (x : DNode) : (obsN S x).kids = obsL S x.kids := by cases x <;> rfl

theorem keysOf_obsL (S : Schema) : ∀ l, keysOf S (obsL S l) = obsL S (keysOf S l)
  | [] => rfl
  | x :: xs => by
    simp only [obsL, keysOf, List.takeWhile_cons, sid_obsN]
    split
    · have := keysOf_obsL S xs
      simp only [keysOf] at this
      simp [obsL, this]
    · rfl

theorem cmpKeys_obsL (S : Schema) : ∀ a b, cmpKeys S (obsL S a) (obsL S b) = cmpKeys S a b
  | [], [] => rfl
  | [], _ :: _ => rfl
  | _ :: _, [] => rfl
  | x :: xs, y :: ys => by
    simp only [obsL, cmpKeys, sid_obsN, val_obsN, cmpKeys_obsL S xs ys]

theorem cmpInst_obsN (S : Schema) (a b : DNode) : cmpInst S (obsN S a) (obsN S b) = cmpInst S a b := by
  simp only [cmpInst, isTerm_obsN, sid_obsN, val_obsN, kids_obsN, keysOf_obsL, cmpKeys_obsL]

theorem insPred_obsN (S : Schema) (n x : DNode) : insPred S (obsN S n) (obsN S x) = insPred S n x := by
  simp only [insPred, sid_obsN, cmpInst_obsN]

theorem map_insB (f : DNode → DNode) (P Q : DNode → Bool) (n : DNode) (h : ∀ x, Q (f x) = P x) :
    ∀ l, (insB P n l).map f = insB Q (f n) (l.map f)
  | [] => rfl
  | x :: xs => by
    simp only [insB, List.map_cons, h x]
    split
    · rfl
    · simp [map_insB f P Q n h xs]

theorem obsL_insertNode (S : Schema) (l : List DNode) (n : DNode) :
    obsL S (insertNode S l n) = insertNode S (obsL S l) (obsN S n) := by
  simp only [obsL_eq_map, insertNode_eq_insB]
  exact map_insB (obsN S) _ _ n (fun x => insPred_obsN S n x) l

/-- the insertion place depends on the schema id, the value and the keys only -/
theorem insertNode_congr_obs (S : Schema) (l : List DNode) (n m : DNode) (h : obsN S n = obsN S m) :
    obsL S (insertNode S l n) = obsL S (insertNode S l m) := by
  rw [obsL_insertNode, obsL_insertNode, h]

theorem obsL_foldl_insertNode (S : Schema) : ∀ (N l : List DNode),
    obsL S (N.foldl (insertNode S) l) = (N.map (obsN S)).foldl (insertNode S) (obsL S l)
  | [], _ => rfl
  | n :: ns, l => by
    simp only [List.foldl_cons, List.map_cons]
    rw [obsL_foldl_insertNode S ns, obsL_insertNode]

end LyModel.Valid
