import LyModel.Valid.Model
import LyModel.Valid.XpWhen
import LyModel.XPath.Eval
import LyModel.XPath.Parse
import LyModel.XPath.FloatNum
/-!
# `must` and leafref `require-instance` in the validation model, evaluated by the XPath engine of `LyModel/XPath`

* `XCons`: the XPath-dependent statements of the schema (extension DSL lines `must` / `leafref` / `when <sid> <hex>`).
* `docOf`: the bridge — the data forest as the XML view `XPath.Doc` (document order = preorder, siblings in list order); the
  element number of a node is threaded through the traversals as a counter (`countN` / `countL` = number of elements of a subtree).
* `finalRX`: `lyd_validate_final_r` with `lyd_validate_must`; `lrefPhase`: the leafref part of `lyd_validate_unres`;
  `validateX`: `lyd_validate_module` with both (and a hook for `when`).
Core Lean only: this file is linked into `lydrv`.
-/
namespace LyModel.Valid
open LyModel LyModel.Tree

/-! ## the XPath-dependent statements -/

/-- (schema id, expression text), in statement order -/
structure XCons where
  musts : List (Nat × Bytes) := []
  /-- leafref paths with `require-instance true` -/
  leafrefs : List (Nat × Bytes) := []
  whens : List (Nat × Bytes) := []
  /-- the `XPath.Quirks` switches in force (extension DSL line `xpmask <n>`): the deviations of libyang's XPath engine that are
  still in the source under test (bit `i` = finding `QBITS[i]` of tools/checks/c08.py not yet repaired); default: all -/
  mask : Nat := 8191
  deriving Repr, Inhabited

def XCons.add (c : XCons) (line : String) : Option XCons :=
  match line.splitOn " " with
  | ["must", s, h] => do pure { c with musts := c.musts ++ [(← s.toNat?, ← Hex.dec h)] }
  | ["leafref", s, h] => do pure { c with leafrefs := c.leafrefs ++ [(← s.toNat?, ← Hex.dec h)] }
  | ["when", s, h] => do pure { c with whens := c.whens ++ [(← s.toNat?, ← Hex.dec h)] }
  | ["xpmask", n] => do pure { c with mask := ← n.toNat? }
  | _ => some c

/-- the lines `must <sid> <hex>` / `leafref <sid> <hex>` / `when <sid> <hex>` / `xpmask <n>` of the extension DSL; other lines are ignored -/
def parseXCons (b : Bytes) : Option XCons :=
  if b.isEmpty then some {} else ((asciiString b).splitOn "\n").foldlM XCons.add {}

def XCons.mustsOf (c : XCons) (sid : Nat) : List Bytes := (c.musts.filter (·.1 == sid)).map (·.2)
def XCons.lrefOf (c : XCons) (sid : Nat) : Option Bytes := (c.leafrefs.find? (·.1 == sid)).map (·.2)

/-! ## the bridge: the data forest as an XPath document -/

/-- name of the base type as the C08 dump writes it (`harness/api_xpath.c: btname`) -/
def btypeName : BaseTy → Bytes
  | .string => bs "string" | .int8 => bs "int" | .int32 => bs "int" | .uint8 => bs "uint" | .boolean => bs "boolean"
  | .empty => bs "empty" | .enumeration _ => bs "enumeration"

mutual
/-- number of elements of a subtree -/
def countN : DNode → Nat
  | .inner _ _ _ ks => countL ks + 1
  | .term .. => 1
def countL : List DNode → Nat
  | [] => 0
  | n :: ns => countN n + countL ns
end

mutual
/-- the elements of the subtree of a node in document order; `parent` = element number of the parent (0 = top level), `num` = the
element number of the node itself (its children are numbered from `num + 1`) -/
def elemsN (S : Schema) (parent num : Nat) : DNode → List XPath.Elem
  | .inner s _ _ ks =>
    { parent, mod := bs S.modName, name := bs (S.name s), term := false, value := [], btype := bs "-" } :: elemsL S num (num + 1) ks
  | .term s _ _ v =>
    [{ parent, mod := bs S.modName, name := bs (S.name s), term := true, value := v, btype := btypeName (S.ty s) }]
/-- siblings with parent `parent`, the first of them numbered `num` -/
def elemsL (S : Schema) (parent num : Nat) : List DNode → List XPath.Elem
  | [] => []
  | n :: ns => elemsN S parent num n ++ elemsL S parent (num + countN n) ns
end

/-- **the document of a data forest**: element `i` (reference `2*i`) is the `i`-th node in preorder, numbered from 1 -/
def docOf (S : Schema) (T : List DNode) : XPath.Doc := { elems := (elemsL S 0 1 T).toArray }

mutual
/-- the accessible tree of a `must` on a configuration node (RFC 7950 §6.4.1; libyang: `LYXP_NODE_ROOT_CONFIG`): state data removed -/
def cfgN (S : Schema) : DNode → Option DNode
  | .inner s f m ks => if S.config s then some (.inner s f m (cfgL S ks)) else none
  | .term s f m v => if S.config s then some (.term s f m v) else none
def cfgL (S : Schema) : List DNode → List DNode
  | [] => []
  | n :: ns => match cfgN S n with
    | some n' => n' :: cfgL S ns
    | none => cfgL S ns
end

/-- number of elements of a subtree in the configuration-only document -/
def countCfgN (S : Schema) (n : DNode) : Nat := match cfgN S n with | some n' => countN n' | none => 0

/-- numbered nodes of a forest in document order (for lemmas and tests): (element number, node) -/
def numberL (num : Nat) : List DNode → List (Nat × DNode)
  | [] => []
  | n :: ns => (num, n) :: (numberL (num + 1) n.kids ++ numberL (num + countN n) ns)
termination_by l => sizeOf l
decreasing_by
  all_goals simp_wf
  · cases n <;> simp [DNode.kids] <;> omega
  · omega

/-! ## evaluation (numbers are IEEE doubles, the semantics switches are those of the libyang at hand) -/

/-- all recorded deviations of libyang's XPath (the default mask of the C08 driver and of `XCons`) -/
def xpMask : Nat := 8191

/-- `q` = the mask of the `XPath.Quirks` in force (`XCons.mask`) -/
def xpEnv (q : Nat) (d : XPath.Doc) (ctx : Nat) : XPath.Env := { doc := d, q := XPath.Quirks.ofMask q, cur := 2 * ctx }

/-- value of the expression text `e` with element `ctx` as context node and `current()`, position 1 of 1 -/
def xpEvalD (q : Nat) (d : XPath.Doc) (ctx : Nat) (e : Bytes) : Except Unit (XPath.Value Float) :=
  match XPath.Parse.parse e with
  | none => .error ()
  | some ex =>
    match XPath.eval (N := Float) (xpEnv q d ctx) ex { node := 2 * ctx, pos := 1, size := 1 } with
    | .ok v => .ok v
    | .error _ => .error ()

def xpBoolD (q : Nat) (d : XPath.Doc) (ctx : Nat) (e : Bytes) : Except Unit Bool := (xpEvalD q d ctx e).map XPath.Value.toBool

def xpNodesD (q : Nat) (d : XPath.Doc) (ctx : Nat) (e : Bytes) : Except Unit (List XPath.Ref) :=
  match xpEvalD q d ctx e with
  | .ok (.ns l) => .ok l
  | _ => .error ()

/-- boolean value of `e` on the forest `T` with element `ctx` as context; parse failure or evaluation error = `.error ()` -/
def xpBool (q : Nat) (S : Schema) (T : List DNode) (ctx : Nat) (e : Bytes) : Except Unit Bool := xpBoolD q (docOf S T) ctx e
/-- node-set value of `e` (anything else is an error) -/
def xpNodes (q : Nat) (S : Schema) (T : List DNode) (ctx : Nat) (e : Bytes) : Except Unit (List XPath.Ref) := xpNodesD q (docOf S T) ctx e

/-! ## `lyd_validate_final_r` with `lyd_validate_must` -/

/-- the two documents a `must` may be evaluated on -/
structure XDocs where
  /-- the whole forest: accessible tree of a `must` on a state node, and of a leafref path -/
  all : XPath.Doc
  /-- configuration data only: accessible tree of a `must` on a configuration node -/
  cfg : XPath.Doc

def xdocsOf (S : Schema) (T : List DNode) : XDocs := { all := docOf S T, cfg := docOf S (cfgL S T) }

/-- `lyd_validate_must`: the musts of the node in order; a false one logs `NoMust` (only a warning under
`LYD_VALIDATE_OPERATIONAL`) and the next is evaluated; one that cannot be evaluated ends the node's checks with an error -/
def mustOut (o : VOpts) (q : Nat) (d : XPath.Doc) (num : Nat) (path : Bytes) : List Bytes → Out
  | [] => {}
  | e :: es =>
    match xpBoolD q d num e with
    | .error _ => Out.err .xpErr path
    | .ok true => mustOut o q d num path es
    | .ok false => (if o.operational then {} else Out.err .noMust path) ++ mustOut o q d num path es

/-- restrictions of the nodes themselves: no state data under `LYD_VALIDATE_NO_STATE` (then the musts are skipped: `goto next_iter`),
else the node's musts.  `na` / `nc` = element number of the node in the whole / in the configuration-only document. -/
def nodeChecksX (S : Schema) (C : XCons) (o : VOpts) (cx : Cx) (D : XDocs) : (na nc : Nat) → (before rest : List DNode) → Out
  | _, _, _, [] => {}
  | na, nc, before, n :: ns =>
    (if o.noState && !S.config n.sid then Out.err .unexpState (cx.pathOf S before n)
     else if S.config n.sid then mustOut o C.mask D.cfg nc (cx.pathOf S before n) (C.mustsOf n.sid)
     else mustOut o C.mask D.all na (cx.pathOf S before n) (C.mustsOf n.sid))
      ++ nodeChecksX S C o cx D (na + countN n) (nc + countCfgN S n) (before ++ [n]) ns

def levelChecksX (X : SchemaX) (C : XCons) (o : VOpts) (cx : Cx) (D : XDocs) (na nc : Nat) (sibs : List DNode) : Out :=
  nodeChecksX X.base C o cx D na nc [] sibs ++ schemaRL X o cx sibs (X.kidsOf cx.parent)

mutual
def finalNodeX (X : SchemaX) (C : XCons) (o : VOpts) (cx : Cx) (D : XDocs) (na nc : Nat) (before : List DNode) : DNode → DNode × Out
  | .inner s f m ks =>
    let cx' := cx.descend X.base before (.inner s f m ks)
    let o1 := levelChecksX X C o cx' D (na + 1) (nc + 1) ks
    let r := finalKidsX X C o cx' D (na + 1) (nc + 1) [] ks
    (npSet X.base (.inner s f m r.1), o1 ++ r.2)
  | t => (t, {})
def finalKidsX (X : SchemaX) (C : XCons) (o : VOpts) (cx : Cx) (D : XDocs) (na nc : Nat) (before : List DNode) :
    List DNode → List DNode × Out
  | [] => ([], {})
  | n :: ns =>
    let r1 := finalNodeX X C o cx D na nc before n
    let r2 := finalKidsX X C o cx D (na + countN n) (nc + countCfgN X.base n) (before ++ [n]) ns
    (r1.1 :: r2.1, r1.2 ++ r2.2)
end

/-- `lyd_validate_final_r(first, NULL, NULL, mod, …)` on the top-level forest `T`; the musts see the whole forest -/
def finalRX (X : SchemaX) (C : XCons) (o : VOpts) (cx : Cx) (T : List DNode) : List DNode × Out :=
  let D := xdocsOf X.base T
  let o1 := levelChecksX X C o cx D 1 1 T
  let r := finalKidsX X C o cx D 1 1 [] T
  (r.1, o1 ++ r.2)

/-! ## leafref `require-instance` (`lyd_validate_unres`, node types) -/

/-- `lyplg_type_validate_leafref`: some node the path selects from the node carries the node's value -/
def lrefOk (q : Nat) (d : XPath.Doc) (num : Nat) (val : Bytes) (path : Bytes) : Bool :=
  match xpNodesD q d num path with
  | .error _ => false
  | .ok refs => refs.any fun r => match d.elem? r with | some e => e.term && e.value == val | none => false

mutual
/-- the unresolved leafref nodes in the order `lyd_validate_subtree` collects them (DFS), each with its verdict -/
def lrefN (S : Schema) (C : XCons) (cx : Cx) (d : XPath.Doc) (num : Nat) (before : List DNode) : DNode → List VErr
  | .inner s f m ks => lrefL S C (cx.descend S before (.inner s f m ks)) d (num + 1) [] ks
  | .term s f m v =>
    match C.lrefOf s with
    | some p => if lrefOk C.mask d num v p then [] else [{ kind := .noReqInst, path := cx.pathOf S before (.term s f m v) }]
    | none => []
def lrefL (S : Schema) (C : XCons) (cx : Cx) (d : XPath.Doc) (num : Nat) (before : List DNode) : List DNode → List VErr
  | [] => []
  | n :: ns => lrefN S C cx d num before n ++ lrefL S C cx d (num + countN n) (before ++ [n]) ns
end

/-- the set of unresolved node types is processed from its end; a failed leafref is an error also under `LYD_VALIDATE_OPERATIONAL` -/
def lrefPhase (X : SchemaX) (C : XCons) (cx : Cx) (T : List DNode) : Out :=
  { items := ((lrefL X.base C cx (docOf X.base T) 1 [] T).reverse.map .err) }

/-! ## `lyd_validate_module` -/

/-- `when` (`lyd_validate_unres_when`, LyModel/Valid/XpWhen.lean): the implicit nodes of schema nodes with a when are flagged
`whenTrue` (`markImpl`: `implNode` does not know the whens), then the rounds over the nodes with a when -/
def whenPhase (X : SchemaX) (C : XCons) (o : VOpts) (T : List DNode) : List DNode × Out :=
  whenPhaseM (xpBool C.mask X.base) X C.whens o T

theorem whenPhase_nil (X : SchemaX) (C : XCons) (o : VOpts) (hw : C.whens = []) (T : List DNode) : whenPhase X C o T = (T, {}) := by
  unfold whenPhase
  rw [hw, whenPhaseM_nil]

/-- `lyd_validate_module` / `lyd_validate_all` with `must` and leafref `require-instance` -/
def validateX (X : SchemaX) (C : XCons) (o : VOpts) (t : List DNode) : VResult :=
  if o.present && t.isEmpty then { tree := [], log := [] }
  else
    let cx : Cx := {}
    let r1 := validateNew X o cx t
    let r2 := implL X o cx X.top r1.1
    let r3 := subtreeKids X o (walkFuel X t) cx [] r2.1
    -- lyd_validate_unres: when conditions, then the incompletely validated terminal values
    let rw := whenPhase X C o r3.1
    let ol := lrefPhase X C cx rw.1
    let r4 := finalRX X C o cx rw.1
    let out := r1.2 ++ r2.2 ++ r3.2 ++ rw.2 ++ ol ++ r4.2
    { tree := r4.1, log := out.items }

/-! ## without XPath-dependent statements nothing changes -/

theorem nodeChecksX_nil (S : Schema) (C : XCons) (hm : C.musts = []) (o : VOpts) (cx : Cx) (D : XDocs) :
    ∀ (rest before : List DNode) (na nc : Nat), nodeChecksX S C o cx D na nc before rest = nodeChecks S o cx before rest := by
  intro rest
  induction rest with
  | nil => intro before na nc; unfold nodeChecksX nodeChecks; rfl
  | cons n ns ih =>
    intro before na nc
    unfold nodeChecksX nodeChecks
    have h0 : C.mustsOf n.sid = [] := by unfold XCons.mustsOf; rw [hm]; rfl
    rw [ih, h0]
    unfold mustOut
    simp only [ite_self]

theorem levelChecksX_nil (X : SchemaX) (C : XCons) (hm : C.musts = []) (o : VOpts) (cx : Cx) (D : XDocs) (na nc : Nat)
    (sibs : List DNode) : levelChecksX X C o cx D na nc sibs = levelChecks X o cx sibs := by
  unfold levelChecksX levelChecks
  rw [nodeChecksX_nil X.base C hm]

mutual
theorem finalNodeX_nil (X : SchemaX) (C : XCons) (hm : C.musts = []) (o : VOpts) (cx : Cx) (D : XDocs) :
    ∀ (n : DNode) (na nc : Nat) (before : List DNode), finalNodeX X C o cx D na nc before n = finalNode X o cx before n
  | .inner s f m ks, na, nc, before => by
    unfold finalNodeX finalNode
    dsimp only
    rw [levelChecksX_nil X C hm, finalKidsX_nil X C hm o _ D ks]
  | .term s f m v, na, nc, before => by
    unfold finalNodeX finalNode
    rfl
theorem finalKidsX_nil (X : SchemaX) (C : XCons) (hm : C.musts = []) (o : VOpts) (cx : Cx) (D : XDocs) :
    ∀ (ns : List DNode) (na nc : Nat) (before : List DNode), finalKidsX X C o cx D na nc before ns = finalKids X o cx before ns
  | [], _, _, _ => by unfold finalKidsX finalKids; rfl
  | n :: ns, na, nc, before => by
    unfold finalKidsX finalKids
    dsimp only
    rw [finalNodeX_nil X C hm o cx D n, finalKidsX_nil X C hm o cx D ns]
end

/-- without `must` statements `finalRX` is `finalR` -/
theorem finalRX_nil (X : SchemaX) (C : XCons) (hm : C.musts = []) (o : VOpts) (cx : Cx) (T : List DNode) :
    finalRX X C o cx T = finalR X o cx T := by
  unfold finalRX finalR
  dsimp only
  rw [levelChecksX_nil X C hm, finalKidsX_nil X C hm]

mutual
theorem lrefN_nil (S : Schema) (C : XCons) (hl : C.leafrefs = []) (d : XPath.Doc) :
    ∀ (n : DNode) (cx : Cx) (num : Nat) (before : List DNode), lrefN S C cx d num before n = []
  | .inner s f m ks, cx, num, before => by
    unfold lrefN
    exact lrefL_nil S C hl d ks _ _ _
  | .term s f m v, cx, num, before => by
    unfold lrefN
    have : C.lrefOf s = none := by unfold XCons.lrefOf; rw [hl]; rfl
    rw [this]
theorem lrefL_nil (S : Schema) (C : XCons) (hl : C.leafrefs = []) (d : XPath.Doc) :
    ∀ (ns : List DNode) (cx : Cx) (num : Nat) (before : List DNode), lrefL S C cx d num before ns = []
  | [], _, _, _ => by unfold lrefL; rfl
  | n :: ns, cx, num, before => by
    unfold lrefL
    rw [lrefN_nil S C hl d n, lrefL_nil S C hl d ns]
    rfl
end

theorem lrefPhase_nil (X : SchemaX) (C : XCons) (hl : C.leafrefs = []) (cx : Cx) (T : List DNode) : lrefPhase X C cx T = {} := by
  unfold lrefPhase
  rw [lrefL_nil X.base C hl]
  rfl

/-- **without `must`, leafref and `when` statements `validateX` is `validate`** -/
theorem validateX_nil (X : SchemaX) (C : XCons) (hm : C.musts = []) (hl : C.leafrefs = []) (hw : C.whens = []) (o : VOpts)
    (t : List DNode) : validateX X C o t = validate X o t := by
  unfold validateX validate
  split
  · rfl
  · dsimp only
    rw [whenPhase_nil X C o hw]
    dsimp only
    rw [lrefPhase_nil X C hl, finalRX_nil X C hm]
    simp only [Out.append_empty]

end LyModel.Valid
