import LyModel.Valid.LemmasLoop
/-! The repaired `lyd_validate_cases` (`casesStepFix`, fixes/F321.diff) and the dispatcher `casesStepQ`: what the lemmas about
`lyd_validate_choice_r` need of one step, for both variants of the code. -/
namespace LyModel.Valid
open LyModel LyModel.Tree

/-! ## the scan -/

/-- a successful scan: the cases with only old / with new data are the ones it reports -/
theorem scanCases_some (sibs : List DNode) : ∀ (cases : List STree) (old new old' new' : Option STree),
    scanCases sibs cases old new = some (old', new') →
    (∀ c ∈ cases, caseFound sibs c = 1 → old' = some c) ∧ (∀ c ∈ cases, caseFound sibs c = 2 → new' = some c) ∧
    (old.isSome = true → old' = old) ∧ (new.isSome = true → new' = new) ∧
    (old' = old ∨ ∃ c ∈ cases, caseFound sibs c = 1) ∧ (new' = new ∨ ∃ c ∈ cases, caseFound sibs c = 2) := by
  intro cases
  induction cases with
  | nil =>
    intro old new old' new' h
    rw [scanCases] at h
    injection h with h
    injection h with h1 h2
    subst h1; subst h2
    exact ⟨fun _ hc => (by cases hc), fun _ hc => (by cases hc), fun _ => rfl, fun _ => rfl, Or.inl rfl, Or.inl rfl⟩
  | cons c rest ih =>
    intro old new old' new' h
    rw [scanCases] at h
    split at h
    · rename_i h1
      split at h
      · cases h
      · rename_i hno
        obtain ⟨a1, a2, a3, a4, a5, a6⟩ := ih _ _ _ _ h
        have ho : old' = some c := a3 rfl
        refine ⟨?_, ?_, ?_, a4, Or.inr ⟨c, List.mem_cons_self .., h1⟩, ?_⟩
        · intro c' hc' hf
          cases hc' with
          | head => exact ho
          | tail _ hc' => exact a1 c' hc' hf
        · intro c' hc' hf
          cases hc' with
          | head => rw [h1] at hf; cases hf
          | tail _ hc' => exact a2 c' hc' hf
        · intro hs; exact absurd hs hno
        · rcases a6 with a6 | ⟨c', hc', hf⟩
          · exact Or.inl a6
          · exact Or.inr ⟨c', List.mem_cons_of_mem _ hc', hf⟩
    · rename_i h2
      split at h
      · cases h
      · rename_i hno
        obtain ⟨a1, a2, a3, a4, a5, a6⟩ := ih _ _ _ _ h
        have hn : new' = some c := a4 rfl
        refine ⟨?_, ?_, a3, ?_, ?_, Or.inr ⟨c, List.mem_cons_self .., h2⟩⟩
        · intro c' hc' hf
          cases hc' with
          | head => rw [h2] at hf; cases hf
          | tail _ hc' => exact a1 c' hc' hf
        · intro c' hc' hf
          cases hc' with
          | head => exact hn
          | tail _ hc' => exact a2 c' hc' hf
        · intro hs; exact absurd hs hno
        · rcases a5 with a5 | ⟨c', hc', hf⟩
          · exact Or.inl a5
          · exact Or.inr ⟨c', List.mem_cons_of_mem _ hc', hf⟩
    · rename_i h1 h2
      obtain ⟨a1, a2, a3, a4, a5, a6⟩ := ih _ _ _ _ h
      refine ⟨?_, ?_, a3, a4, ?_, ?_⟩
      · intro c' hc' hf
        cases hc' with
        | head => exact absurd hf h1
        | tail _ hc' => exact a1 c' hc' hf
      · intro c' hc' hf
        cases hc' with
        | head => exact absurd hf h2
        | tail _ hc' => exact a2 c' hc' hf
      · rcases a5 with a5 | ⟨c', hc', hf⟩
        · exact Or.inl a5
        · exact Or.inr ⟨c', List.mem_cons_of_mem _ hc', hf⟩
      · rcases a6 with a6 | ⟨c', hc', hf⟩
        · exact Or.inl a6
        · exact Or.inr ⟨c', List.mem_cons_of_mem _ hc', hf⟩

theorem caseFound_zero {sibs : List DNode} {c : STree} (h : caseFound sibs c = 0) : ∀ n ∈ sibs, inSids c.dataSids n = false := by
  intro n hn
  cases hin : inSids c.dataSids n with
  | false => rfl
  | true =>
    exfalso
    have hm : n ∈ sibs.filter (inSids c.dataSids) := List.mem_filter.2 ⟨hn, hin⟩
    unfold caseFound at h
    dsimp only at h
    split at h
    · cases h
    · split at h
      · rename_i he
        rw [List.isEmpty_iff] at he
        rw [he] at hm
        cases hm
      · cases h

theorem caseFound_le (sibs : List DNode) (c : STree) : caseFound sibs c = 0 ∨ caseFound sibs c = 1 ∨ caseFound sibs c = 2 := by
  unfold caseFound
  dsimp only
  split
  · exact Or.inr (Or.inr rfl)
  · split
    · exact Or.inl rfl
    · exact Or.inr (Or.inl rfl)

/-- a case with `found = 2` has a new instance, one with `found = 1` an instance and no new one -/
theorem caseFound_two {sibs : List DNode} {c : STree} (h : caseFound sibs c = 2) :
    ∃ z ∈ sibs, inSids c.dataSids z = true ∧ z.flags.new = true := by
  unfold caseFound at h
  dsimp only at h
  split at h
  · rename_i ha
    obtain ⟨z, hz, hn⟩ := List.any_eq_true.1 ha
    exact ⟨z, (List.mem_filter.1 hz).1, (List.mem_filter.1 hz).2, hn⟩
  · split at h <;> cases h

theorem caseFound_one {sibs : List DNode} {c : STree} (h : caseFound sibs c = 1) :
    ∃ z ∈ sibs, inSids c.dataSids z = true := by
  unfold caseFound at h
  dsimp only at h
  split at h
  · cases h
  · split at h
    · cases h
    · rename_i he
      have hne : sibs.filter (inSids c.dataSids) ≠ [] := fun h0 => he (by rw [h0]; rfl)
      obtain ⟨z, hz⟩ := List.exists_mem_of_ne_nil _ hne
      exact ⟨z, (List.mem_filter.1 hz).1, (List.mem_filter.1 hz).2⟩

/-- an instance of a case (among the siblings the scan looks at) gives the case a non-zero `found` -/
theorem caseFound_of_inst {sibs : List DNode} {c : STree} {z : DNode} (hz : z ∈ sibs) (hin : inSids c.dataSids z = true) :
    caseFound sibs c = 1 ∨ caseFound sibs c = 2 := by
  rcases caseFound_le sibs c with h | h | h
  · have := caseFound_zero h z hz
    rw [hin] at this
    cases this
  · exact Or.inl h
  · exact Or.inr h

theorem caseFound_new_inst {sibs : List DNode} {c : STree} {z : DNode} (hz : z ∈ sibs) (hin : inSids c.dataSids z = true)
    (hn : z.flags.new = true) : caseFound sibs c = 2 := by
  unfold caseFound
  dsimp only
  rw [if_pos]
  exact List.any_eq_true.2 ⟨z, List.mem_filter.2 ⟨hz, hin⟩, hn⟩

/-! ## `delCases` -/

theorem delCases_sub (X : SchemaX) (cx : Cx) (E : List DNode) (kf : Nat) : ∀ (cases : List STree) (sibs : List DNode),
    ∀ x ∈ (delCases X cx E kf cases sibs).1, x ∈ sibs := by
  intro cases
  induction cases with
  | nil => intro sibs x hx; rw [delCases] at hx; exact hx
  | cons c rest ih =>
    intro sibs x hx
    rw [delCases] at hx
    split at hx
    · exact ih sibs x hx
    · have := ih _ x hx
      simp only [delSeq_fst, List.nil_append] at this
      exact (List.mem_filter.1 this).1

theorem delCases_noop (X : SchemaX) (cx : Cx) (E : List DNode) (kf : Nat) : ∀ (cases : List STree) (sibs : List DNode),
    (∀ c ∈ cases, caseFound E c ≠ kf → ∀ n ∈ sibs, inSids c.dataSids n = false) → delCases X cx E kf cases sibs = (sibs, []) := by
  intro cases
  induction cases with
  | nil => intro sibs _; rw [delCases]
  | cons c rest ih =>
    intro sibs h
    rw [delCases]
    split
    · exact ih sibs (fun c' hc' => h c' (List.mem_cons_of_mem _ hc'))
    · rename_i hne
      have hne' : caseFound E c ≠ kf := by simpa using hne
      rw [delSeq_no_victims X cx true _ sibs [] (h c (List.mem_cons_self ..) hne')]
      simp only [List.nil_append]
      rw [ih sibs (fun c' hc' => h c' (List.mem_cons_of_mem _ hc'))]

theorem delCases_keeps (X : SchemaX) (cx : Cx) (E : List DNode) (kf : Nat) (z : DNode) : ∀ (cases : List STree) (sibs : List DNode),
    z ∈ sibs → (∀ c ∈ cases, caseFound E c ≠ kf → inSids c.dataSids z = false) → z ∈ (delCases X cx E kf cases sibs).1 := by
  intro cases
  induction cases with
  | nil => intro sibs hz _; rw [delCases]; exact hz
  | cons c rest ih =>
    intro sibs hz h
    rw [delCases]
    split
    · exact ih sibs hz (fun c' hc' => h c' (List.mem_cons_of_mem _ hc'))
    · rename_i hne
      have hne' : caseFound E c ≠ kf := by simpa using hne
      apply ih _ _ (fun c' hc' => h c' (List.mem_cons_of_mem _ hc'))
      simp only [delSeq_fst, List.nil_append]
      exact List.mem_filter.2 ⟨hz, by rw [h c (List.mem_cons_self ..) hne']; rfl⟩

/-! ## one step, repaired variant -/

theorem explSibs_sub {sibs : List DNode} {n : DNode} (h : n ∈ explSibs sibs) : n ∈ sibs ∧ n.flags.dflt = false := by
  unfold explSibs at h
  obtain ⟨h1, h2⟩ := List.mem_filter.1 h
  exact ⟨h1, by simpa using h2⟩

theorem explSibs_noDflt {sibs : List DNode} (h : ∀ n ∈ sibs, n.flags.dflt = false) : explSibs sibs = sibs := by
  unfold explSibs
  apply List.filter_eq_self.2
  intro n hn
  rw [h n hn]; rfl

theorem casesStepFix_sub (X : SchemaX) (cx : Cx) (choice : STree) (sibs : List DNode) :
    ∀ x ∈ (casesStepFix X cx choice sibs).1, x ∈ sibs := by
  intro x hx
  unfold casesStepFix at hx
  split at hx
  · exact hx
  · exact hx
  · exact delCases_sub X cx _ _ _ sibs x hx

theorem casesStepQ_sub (X : SchemaX) (cx : Cx) (choice : STree) (sibs : List DNode) :
    ∀ x ∈ (casesStepQ X cx choice sibs).1, x ∈ sibs := by
  intro x hx
  unfold casesStepQ at hx
  split at hx
  · unfold casesStep at hx
    split at hx
    · exact hx
    · simp only [delSeq_fst, List.nil_append] at hx
      exact (List.mem_filter.1 hx).1
    · exact hx
  · exact casesStepFix_sub X cx choice sibs x hx

/-- under the defective variant the step is the defective step -/
theorem casesStepQ_defect {X : SchemaX} (hq : X.q.casesCountDefault = true) (cx : Cx) (choice : STree) (sibs : List DNode) :
    casesStepQ X cx choice sibs = casesStep X cx choice sibs := by
  unfold casesStepQ
  rw [if_pos hq]

/-- on siblings all of which are new and none default-flagged (freshly built explicit data) both variants do the same: an error for
data of two cases, nothing otherwise -/
theorem casesStepFix_fresh (X : SchemaX) (cx : Cx) (choice : STree) (sibs : List DNode) (hn : ∀ n ∈ sibs, n.flags.new = true)
    (hd : ∀ n ∈ sibs, n.flags.dflt = false) : casesStepFix X cx choice sibs = casesStep X cx choice sibs := by
  unfold casesStepFix casesStep
  rw [explSibs_noDflt hd]
  cases hsc : scanCases sibs choice.kids none none with
  | none => rfl
  | some p =>
    obtain ⟨old', new'⟩ := p
    obtain ⟨a1, a2, _, _, a5, _⟩ := scanCases_some sibs choice.kids none none old' new' hsc
    -- no case has only old data
    have hno1 : ∀ c, caseFound sibs c ≠ 1 := by
      intro c h1
      obtain ⟨z, hz, hin⟩ := caseFound_one h1
      have := caseFound_new_inst hz hin (hn z hz)
      rw [h1] at this
      cases this
    have hold : old' = none := by
      rcases a5 with a5 | ⟨c, _, hf⟩
      · exact a5
      · exact absurd hf (hno1 c)
    subst hold
    cases new' with
    | none => rfl
    | some nw =>
      have : delCases X cx sibs 2 choice.kids sibs = (sibs, []) := by
        apply delCases_noop
        intro c _ hne
        rcases caseFound_le sibs c with h | h | h
        · exact caseFound_zero h
        · exact absurd h (hno1 c)
        · exact absurd h hne
      simp only [Option.isSome_some, if_true, this]
      rfl

theorem casesStepQ_fresh (X : SchemaX) (cx : Cx) (choice : STree) (sibs : List DNode) (hn : ∀ n ∈ sibs, n.flags.new = true)
    (hd : ∀ n ∈ sibs, n.flags.dflt = false) : casesStepQ X cx choice sibs = casesStep X cx choice sibs := by
  unfold casesStepQ
  split
  · rfl
  · exact casesStepFix_fresh X cx choice sibs hn hd

end LyModel.Valid
