import LyModel.Valid.LemmasCasePath
import LyModel.Valid.WellFormed
import LyModel.Valid.LemmasCaseGood
import LyModel.Valid.LemmasCaseExact
/-! `validate_idempotent` (C07) for schemas WITH `choice` / `case`, part 4: stable trees and the assembly.  A validated tree is
*stable* — no node is new, on every sibling level `lyd_new_implicit` has nothing to do and no default node is the leftover of a
dead case, the default flag of every non-presence container agrees with its children — and on a stable tree every phase of
`lyd_validate` is the identity (repaired variants of F180 / F188; no non-presence container is a member of a case). -/
namespace LyModel.Valid
open LyModel LyModel.Tree

/-! ## hypotheses on the schema, with decidable forms -/

/-- one data level: the children of choices are cases, the data nodes have different ids, and the cases around every data node
as `lyd_validate_autodel_case_dflt` finds them (flat table) are the ones on the path through the schema tree -/
structure LevelOk (X : SchemaX) (ks : List STree) : Prop where
  kinds : kindsOkL ks = true
  nodup : (dataSidsL ks).Nodup
  chain : ∀ e ∈ pathsL [] ks, chainView X e.1 = e.2

def levelOkB (X : SchemaX) (ks : List STree) : Bool :=
  kindsOkL ks && decide (dataSidsL ks).Nodup && (pathsL [] ks).all fun e => chainView X e.1 == e.2

theorem levelOk_of_B {X : SchemaX} {ks : List STree} (h : levelOkB X ks = true) : LevelOk X ks := by
  unfold levelOkB at h
  simp only [Bool.and_eq_true, decide_eq_true_eq, List.all_eq_true, beq_iff_eq] at h
  exact ⟨h.1.1, h.1.2, h.2⟩

/-- every data level of the schema is well formed -/
def CaseWf (X : SchemaX) : Prop :=
  LevelOk X X.top ∧ ∀ k, BelowL k X.top → k.info.kind ≠ .choice → k.info.kind ≠ .case → LevelOk X k.kids

def caseWfB (X : SchemaX) : Bool :=
  levelOkB X X.top && allBelowL (fun k => k.info.kind == .choice || k.info.kind == .case || levelOkB X k.kids) X.top

theorem caseWf_of_B (X : SchemaX) (h : caseWfB X = true) : CaseWf X := by
  unfold caseWfB at h
  simp only [Bool.and_eq_true] at h
  refine ⟨levelOk_of_B h.1, ?_⟩
  intro k hk h1 h2
  have := allBelowL_spec _ hk h.2
  have e1 : (k.info.kind == SKind.choice) = false := by simpa using h1
  have e2 : (k.info.kind == SKind.case) = false := by simpa using h2
  simp only [e1, e2, Bool.false_or] at this
  exact levelOk_of_B this

/-- no non-presence container is a data member of a case: none has a case around it, and no case has one among its data nodes -/
def NoNpContInCase (X : SchemaX) : Prop :=
  (∀ sid, X.base.isNpCont sid = true → caseChain X sid = []) ∧
  (∀ sid, ∀ p ∈ caseChain X sid, ∀ s' ∈ p.1.dataSids, X.base.isNpCont s' = false)

def noNpContInCaseB (X : SchemaX) : Bool :=
  (List.range X.base.nodes.length).all fun sid =>
    (!X.base.isNpCont sid || (caseChain X sid).isEmpty) &&
      (caseChain X sid).all fun p => p.1.dataSids.all fun s' => !X.base.isNpCont s'

theorem caseChain_out_of_range (X : SchemaX) (sid : Nat) (h : X.base.nodes.length ≤ sid) : caseChain X sid = [] := by
  have hg : X.base.get? sid = none := by
    unfold Schema.get?
    exact List.getElem?_eq_none h
  unfold caseChain
  rw [caseChain.go]
  have : caseOf X sid = none := by
    unfold caseOf sparent
    simp [hg]
  simp [this]

theorem noNpContInCase_of_B (X : SchemaX) (h : noNpContInCaseB X = true) : NoNpContInCase X := by
  unfold noNpContInCaseB at h
  rw [List.all_eq_true] at h
  constructor
  · intro sid hnp
    by_cases hlt : sid < X.base.nodes.length
    · have := h sid (List.mem_range.2 hlt)
      simp only [Bool.and_eq_true, Bool.or_eq_true, hnp, Bool.not_true, Bool.false_eq_true, false_or, List.isEmpty_iff] at this
      exact this.1
    · exact caseChain_out_of_range X sid (by omega)
  · intro sid p hp s' hs'
    by_cases hlt : sid < X.base.nodes.length
    · have := h sid (List.mem_range.2 hlt)
      simp only [Bool.and_eq_true, List.all_eq_true, Bool.not_eq_eq_eq_not, Bool.not_true] at this
      exact this.2 p hp s' hs'
    · rw [caseChain_out_of_range X sid (by omega)] at hp; cases hp

/-! ## `lyd_new_implicit` on one level -/

theorem implL_level (X : SchemaX) (o : VOpts) (cx : Cx) (hq1 : X.q.implicitInnerCase = false) (hq2 : X.q.autodelDirectCase = false)
    (ks : List STree) (hl : LevelOk X ks) (sibs : List DNode) (hnv : NV X sibs) :
    implDoneX o ks (implL X o cx ks sibs).1 = true ∧ Ext X sibs (implL X o cx ks sibs).1 ∧
      ImplPost (dataSidsL ks) sibs (implL X o cx ks sibs).1 := by
  have hk : kindsOk (.mk 0 { depth := 0, kind := .case, name := "" } ks) = true := by rw [kindsOk_mk]; simp [hl.kinds]
  have h1 := ((impl_done_T X o cx hq1 _ hk sibs).2 hl.nodup).1
  have h2 := (impl_ext_T X o cx hq1 hq2 _ hk [] sibs).2 ⟨fun v hv => (by cases hv), hl.chain, hnv⟩
  rw [implCase] at h1 h2
  exact ⟨implL_doneX X o cx hq1 ks hl.kinds hl.nodup sibs, h2, h1⟩

theorem implDoneX_congr (o : VOpts) (ks : List STree) (a b : List DNode) (h : ∀ sid, hasInst a sid = hasInst b sid) :
    implDoneX o ks a = implDoneX o ks b := by
  have : hasInst a = hasInst b := funext h
  unfold implDoneX
  rw [this]

/-! ## stable trees -/

mutual
/-- nothing left to do below (and at) this node; `np`: also the default flags of the non-presence containers are final -/
def StableN (X : SchemaX) (o : VOpts) (np : Bool) : DNode → Prop
  | .inner s f _ ks =>
    implDoneX o (X.kidsOf (some s)) ks = true ∧ NV X ks ∧ StableL X o np ks ∧
      (np = true → (X.base.isNpCont s && !f.dflt && ks.all (·.flags.dflt)) = false)
  | .term .. => True
def StableL (X : SchemaX) (o : VOpts) (np : Bool) : List DNode → Prop
  | [] => True
  | n :: ns => n.flags.new = false ∧ StableN X o np n ∧ StableL X o np ns
end

theorem StableN_inner (X : SchemaX) (o : VOpts) (np : Bool) (s : Nat) (f : Flags) (m : List Meta) (ks : List DNode) :
    StableN X o np (.inner s f m ks) ↔ (implDoneX o (X.kidsOf (some s)) ks = true ∧ NV X ks ∧ StableL X o np ks ∧
      (np = true → (X.base.isNpCont s && !f.dflt && ks.all (·.flags.dflt)) = false)) := by
  rw [StableN]

theorem StableN_term (X : SchemaX) (o : VOpts) (np : Bool) (s : Nat) (f : Flags) (m : List Meta) (v : Bytes) :
    StableN X o np (.term s f m v) := by
  rw [StableN]; trivial

theorem StableL_all (X : SchemaX) (o : VOpts) (np : Bool) : ∀ (ns : List DNode),
    StableL X o np ns ↔ ∀ n ∈ ns, n.flags.new = false ∧ StableN X o np n := by
  intro ns
  induction ns with
  | nil => rw [StableL]; simp
  | cons x xs ih =>
    rw [StableL, ih]
    simp only [List.mem_cons, forall_eq_or_imp, and_assoc]

/-! ## on a stable tree nothing happens -/

theorem walkList_id2 (f : List DNode → DNode → DNode × Out) : ∀ (ns before : List DNode),
    (∀ before, ∀ n ∈ ns, (f before n).1 = n ∧ (f before n).2.evs = []) →
    (walkList f before ns).1 = ns ∧ (walkList f before ns).2.evs = [] := by
  intro ns
  induction ns with
  | nil => intro before _; exact ⟨rfl, rfl⟩
  | cons n ns ih =>
    intro before h
    unfold walkList
    obtain ⟨h1, h2⟩ := h before n (List.mem_cons_self ..)
    obtain ⟨h3, h4⟩ := ih (before ++ [(f before n).1]) (fun b x hx => h b x (List.mem_cons_of_mem _ hx))
    dsimp only
    rw [Out.append_evs, h2, h4, h3, h1]
    exact ⟨rfl, rfl⟩

theorem subtree_id2 (X : SchemaX) (o : VOpts) (np : Bool) (hq1 : X.q.implicitInnerCase = false) (hq3 : X.q.casesCountDefault = true) : ∀ (fuel : Nat) (cx : Cx)
    (before : List DNode) (n : DNode), StableN X o np n →
    (subtreeNode X o fuel cx before n).1 = n ∧ (subtreeNode X o fuel cx before n).2.evs = [] := by
  intro fuel
  induction fuel with
  | zero => intro cx before n _; cases n <;> exact ⟨rfl, rfl⟩
  | succ fuel ih =>
    intro cx before n hs
    cases n with
    | term s f m v => exact ⟨rfl, rfl⟩
    | inner s f m ks =>
      rw [StableN_inner] at hs
      obtain ⟨hdone, hnv, hkids, _⟩ := hs
      have hall := (StableL_all X o np ks).1 hkids
      unfold subtreeNode
      dsimp only
      obtain ⟨e1, e1'⟩ := validateNew_id2 X hq3 o (cx.descend X.base before (.inner s f m ks)) ks (fun n hn => (hall n hn).1) hnv
      generalize validateNew X o (cx.descend X.base before (.inner s f m ks)) ks = r1 at e1 e1'
      obtain ⟨r1a, r1b⟩ := r1
      simp only at e1 e1'
      subst e1
      dsimp only
      rw [implL_of_doneX X o _ hq1 _ r1a hdone]
      dsimp only
      obtain ⟨e3, e3'⟩ := walkList_id2 (subtreeNode X o fuel (cx.descend X.base before (.inner s f m r1a)).keysOld) r1a []
        (fun b x hx => ih _ b x (hall x hx).2)
      rw [e3, Out.append_evs, Out.append_evs, e1', e3']
      exact ⟨rfl, rfl⟩

mutual
theorem finalNode_id2 (X : SchemaX) (o : VOpts) : ∀ (n : DNode) (cx : Cx) (before : List DNode), StableN X o true n →
    (finalNode X o cx before n).1 = n
  | .term .., _, _, _ => by simp [finalNode]
  | .inner s f m ks, cx, before, h => by
    rw [StableN_inner] at h
    obtain ⟨_, _, hkids, hnp⟩ := h
    unfold finalNode
    dsimp only
    rw [finalKids_id2 X o ks _ [] hkids]
    unfold npSet
    simp [hnp rfl]
theorem finalKids_id2 (X : SchemaX) (o : VOpts) : ∀ (ns : List DNode) (cx : Cx) (before : List DNode), StableL X o true ns →
    (finalKids X o cx before ns).1 = ns
  | [], _, _, _ => by simp [finalKids]
  | n :: ns, cx, before, h => by
    rw [StableL] at h
    unfold finalKids
    dsimp only
    rw [finalNode_id2 X o n cx before h.2.1, finalKids_id2 X o ns cx _ h.2.2]
end

/-- the top level of a stable tree -/
def StableTop (X : SchemaX) (o : VOpts) (T : List DNode) : Prop := implDoneX o X.top T = true ∧ NV X T ∧ StableL X o true T

/-- on a stable tree a validation changes nothing and reports no change -/
theorem validate_of_stable2 (X : SchemaX) (o : VOpts) (hq1 : X.q.implicitInnerCase = false) (hq3 : X.q.casesCountDefault = true) (T : List DNode)
    (h : StableTop X o T) : (validate X o T).tree = T ∧ (validate X o T).evs = [] := by
  by_cases hp : (o.present && T.isEmpty) = true
  · have hT : T = [] := by
      simp only [Bool.and_eq_true, List.isEmpty_iff] at hp; exact hp.2
    subst hT
    unfold validate
    simp only [hp, if_true]
    exact ⟨trivial, rfl⟩
  · have hp' : (o.present && T.isEmpty) = false := by simpa using hp
    obtain ⟨hdone, hnv, hst⟩ := h
    have hall := (StableL_all X o true T).1 hst
    obtain ⟨e1, e1'⟩ := validateNew_id2 X hq3 o {} T (fun n hn => (hall n hn).1) hnv
    have e2 : implL X o {} X.top T = (T, {}) := implL_of_doneX X o {} hq1 X.top T hdone
    obtain ⟨e3, e3'⟩ := walkList_id2 (subtreeNode X o (walkFuel X T) {}) T []
      (fun b x hx => subtree_id2 X o true hq1 hq3 _ {} b x (hall x hx).2)
    obtain ⟨ht, he⟩ := validate_evs_eq X o T hp'
    rw [e1, e2] at ht he
    dsimp only at ht he
    unfold subtreeKids at ht he
    rw [e3] at ht he
    constructor
    · rw [ht]
      unfold finalR
      dsimp only
      exact finalKids_id2 X o T {} [] hst
    · rw [he]
      simp only [Out.append_evs, e1', e3', finalR_evs, Out.empty_evs, List.append_nil]

end LyModel.Valid

namespace LyModel.Valid
open LyModel LyModel.Tree

/-! ## what the later phases do to a sibling level: same nodes, same flags, except that a non-presence container may become default -/

def Flip (X : SchemaX) (a b : DNode) : Prop :=
  b.sid = a.sid ∧ b.flags.new = a.flags.new ∧
    (b.flags.dflt = a.flags.dflt ∨ (NoNpContInCase X ∧ X.base.isNpCont a.sid = true ∧ b.flags.dflt = true))

theorem Rel2.imp {α β : Type} {R R' : α → β → Prop} (h : ∀ a b, R a b → R' a b) : ∀ {as : List α} {bs : List β}, Rel2 R as bs → Rel2 R' as bs := by
  intro as bs hr
  induction hr with
  | nil => exact Rel2.nil
  | cons hab _ ih => exact Rel2.cons (h _ _ hab) ih

theorem chainView_noNp (X : SchemaX) (hB : NoNpContInCase X) (sid : Nat) : ∀ v ∈ chainView X sid, ∀ s' ∈ v.2.2, X.base.isNpCont s' = false := by
  intro v hv s' hs'
  unfold chainView at hv
  obtain ⟨p, hp, hpv⟩ := List.mem_map.1 hv
  subst hpv
  exact hB.2 sid p hp s' hs'

theorem flip_any (X : SchemaX) (sid0 : Nat) (v : CView) (hv : v ∈ chainView X sid0) : ∀ {a b : List DNode}, Rel2 (Flip X) a b →
    (b.any fun y => inSids v.2.2 y && !y.flags.dflt) = (a.any fun y => inSids v.2.2 y && !y.flags.dflt) := by
  intro a b h
  induction h with
  | nil => rfl
  | @cons x y xs ys hab _ ih =>
    rw [List.any_cons, List.any_cons, ih]
    congr 1
    obtain ⟨h1, _, h3⟩ := hab
    unfold inSids
    rw [h1]
    rcases h3 with h3 | ⟨hB, h3, h4⟩
    · rw [h3]
    · cases hc : v.2.2.contains x.sid with
      | false => rfl
      | true =>
        rw [List.contains_iff_mem] at hc
        rw [chainView_noNp X hB sid0 v hv x.sid hc] at h3; cases h3

theorem chainView_nil_of_np (X : SchemaX) (hB : NoNpContInCase X) (sid : Nat) (h : X.base.isNpCont sid = true) : chainView X sid = [] := by
  unfold chainView
  rw [hB.1 sid h]
  rfl

/-- the later phases keep "no default node is the leftover of a dead case" -/
theorem NV_flip (X : SchemaX) (hq2 : X.q.autodelDirectCase = false) {a b : List DNode}
    (h : Rel2 (Flip X) a b) (hv : NV X a) : NV X b := by
  intro y hy hd
  obtain ⟨x, hx, hxy⟩ := forall2_mem_right h y hy
  rw [victim_eq X hq2, hxy.1]
  rcases hxy.2.2 with h3 | ⟨hB, h3, _⟩
  · have hxd : x.flags.dflt = true := by rw [← h3]; exact hd
    have := hv x hx hxd
    rw [victim_eq X hq2, List.any_eq_false] at this
    rw [List.any_eq_false]
    intro v hvm
    have hg := this v hvm
    unfold goneV at hg ⊢
    rw [flip_any X x.sid v hvm h]
    exact hg
  · rw [chainView_nil_of_np X hB x.sid h3]
    rfl

theorem hasInst_flip (X : SchemaX) {a b : List DNode} (h : Rel2 (Flip X) a b) : ∀ sid, hasInst b sid = hasInst a sid :=
  hasInst_forall2 (fun _ _ h => h.1) _ _ h

/-! ## data that follow the schema -/

mutual
/-- every node is an instance of a data node of its level (choices and cases flattened), and so below it -/
def placedCN (X : SchemaX) : DNode → Bool
  | .inner s _ _ ks => placedCL X (X.kidsOf (some s)) ks
  | .term .. => true
def placedCL (X : SchemaX) (sk : List STree) : List DNode → Bool
  | [] => true
  | n :: ns => (dataSidsL sk).contains n.sid && placedCN X n && placedCL X sk ns
end

theorem placedCL_all (X : SchemaX) (sk : List STree) : ∀ (ns : List DNode), placedCL X sk ns = true ↔
    ∀ n ∈ ns, n.sid ∈ dataSidsL sk ∧ placedCN X n = true := by
  intro ns
  induction ns with
  | nil => simp [placedCL]
  | cons x xs ih =>
    unfold placedCL
    simp only [Bool.and_eq_true, ih, List.mem_cons, forall_eq_or_imp, List.contains_iff_mem, and_assoc]

theorem placedCN_normNew (X : SchemaX) (n : DNode) : placedCN X (normNew n) = placedCN X n := by
  unfold normNew clearNew
  split
  · cases n <;> rfl
  · rfl

theorem placedCN_nokids (X : SchemaX) (x : DNode) (h : x.kids = []) : placedCN X x = true := by
  cases x with
  | term s f m v => rfl
  | inner s f m ks =>
    simp only [DNode.kids] at h
    subst h
    simp [placedCN, placedCL]

mutual
theorem below_trans : ∀ {b c : STree}, Below b c → ∀ {a : STree}, Below a b → Below a c
  | _, _, .self _, _, h => h
  | _, _, .kid _ _ _ _ hb, _, h => Below.kid _ _ _ _ (belowL_trans hb h)
theorem belowL_trans : ∀ {b : STree} {l : List STree}, BelowL b l → ∀ {a : STree}, Below a b → BelowL a l
  | _, _, .head _ _ _ hb, _, h => BelowL.head _ _ _ (below_trans hb h)
  | _, _, .tail _ _ _ hb, _, h => BelowL.tail _ _ _ (belowL_trans hb h)
end

theorem below_of_kids {k' k : STree} (h : BelowL k' k.kids) : Below k' k := by
  cases k with
  | mk s i ks => exact Below.kid _ _ _ _ h

mutual
/-- the schema node of a data sid of a level -/
theorem find_data_T : ∀ (t : STree) (sid : Nat), sid ∈ t.dataSids →
    ∃ k, Below k t ∧ k.sid = sid ∧ sheight k ≤ sheight t ∧ k.info.kind ≠ .choice ∧ k.info.kind ≠ .case
  | .mk s i ks, sid, h => by
    rw [dataSids_mk] at h
    split at h
    · obtain ⟨k, hk, h1, h2, h3⟩ := find_data_L ks sid h
      refine ⟨k, Below.kid _ _ _ _ hk, h1, ?_, h3⟩
      rw [sheight]; omega
    · rename_i hc
      simp only [Bool.or_eq_true, beq_iff_eq, not_or] at hc
      simp only [List.mem_singleton] at h
      subst h
      exact ⟨_, Below.self _, rfl, Nat.le_refl _, hc.1, hc.2⟩
theorem find_data_L : ∀ (ks : List STree) (sid : Nat), sid ∈ dataSidsL ks →
    ∃ k, BelowL k ks ∧ k.sid = sid ∧ sheight k ≤ sheightL ks ∧ k.info.kind ≠ .choice ∧ k.info.kind ≠ .case
  | [], sid, h => by rw [dataSidsL_nil] at h; cases h
  | t :: ts, sid, h => by
    rw [dataSidsL_cons, List.mem_append] at h
    rw [sheightL]
    rcases h with h | h
    · obtain ⟨k, hk, h1, h2, h3⟩ := find_data_T t sid h
      exact ⟨k, BelowL.head _ _ _ hk, h1, Nat.le_trans h2 (Nat.le_max_left ..), h3⟩
    · obtain ⟨k, hk, h1, h2, h3⟩ := find_data_L ts sid h
      exact ⟨k, BelowL.tail _ _ _ hk, h1, Nat.le_trans h2 (Nat.le_max_right ..), h3⟩
end

/-! ## the first run establishes stability -/

/-- a node and what the subtree walk makes of it: same schema node, same flags, stable below -/
def Kept2 (X : SchemaX) (o : VOpts) (a b : DNode) : Prop := b.sid = a.sid ∧ b.flags = a.flags ∧ StableN X o false b

theorem Kept2.flip {X : SchemaX} {o : VOpts} {a b : DNode} (h : Kept2 X o a b) : Flip X a b :=
  ⟨h.1, by rw [h.2.1], Or.inl (by rw [h.2.1])⟩

/-- one sibling level after `lyd_validate_new` and `lyd_new_implicit` -/
theorem level_first (X : SchemaX) (o : VOpts) (cx cx' : Cx) (hq1 : X.q.implicitInnerCase = false) (hq2 : X.q.autodelDirectCase = false)
    (sk : List STree) (hl : LevelOk X sk) (ks : List DNode) (hp : placedCL X sk ks = true) :
    let r2 := (implL X o cx' sk (validateNew X o cx ks).1).1
    implDoneX o sk r2 = true ∧ NV X r2 ∧ (∀ x ∈ r2, x.flags.new = false) ∧ (∀ x ∈ r2, x.sid ∈ dataSidsL sk ∧ placedCN X x = true) := by
  obtain ⟨a1, a2, a3⟩ := validateNew_first X o cx ks
  generalize (validateNew X o cx ks).1 = r1 at a1 a2 a3
  obtain ⟨b1, b2, b3⟩ := implL_level X o cx' hq1 hq2 sk hl r1 a2
  generalize (implL X o cx' sk r1).1 = r2 at b1 b2 b3
  have hpl := (placedCL_all X sk ks).1 hp
  have hpl1 : ∀ x ∈ r1, x.sid ∈ dataSidsL sk ∧ placedCN X x = true := by
    intro x hx
    obtain ⟨y, hy, hxy⟩ := a3 x hx
    subst hxy
    rw [normNew_sid, placedCN_normNew]
    exact hpl y hy
  refine ⟨b1, b2.nv a2, ?_, ?_⟩
  · intro x hx
    rcases b2.2 x hx with h | ⟨hf, _, _⟩
    · exact a1 x h
    · rw [hf]; rfl
  · intro x hx
    constructor
    · have : hasInst r2 x.sid = true := List.any_eq_true.2 ⟨x, hx, by simp⟩
      rcases b3.2 x.sid this with h | h
      · obtain ⟨z, hz, hzs⟩ := List.any_eq_true.1 h
        have : z.sid = x.sid := by simpa using hzs
        rw [← this]; exact (hpl1 z hz).1
      · exact h
    · rcases b2.2 x hx with h | ⟨_, hk, _⟩
      · exact (hpl1 x h).2
      · exact placedCN_nokids X x hk

/-- a level all of whose nodes the walk has made stable -/
theorem level_walked (X : SchemaX) (o : VOpts) (hq2 : X.q.autodelDirectCase = false) (sk : List STree)
    (r2 r3 : List DNode) (h1 : implDoneX o sk r2 = true) (h2 : NV X r2) (h3 : ∀ x ∈ r2, x.flags.new = false)
    (hr : Rel2 (Kept2 X o) r2 r3) : implDoneX o sk r3 = true ∧ NV X r3 ∧ StableL X o false r3 := by
  have hf : Rel2 (Flip X) r2 r3 := Rel2.imp (fun _ _ h => h.flip) hr
  refine ⟨?_, NV_flip X hq2 hf h2, ?_⟩
  · rw [implDoneX_congr o sk r3 r2 (hasInst_flip X hf)]; exact h1
  · rw [StableL_all]
    intro x hx
    obtain ⟨a, ha, hk1, hk2, hk3⟩ := forall2_mem_right hr x hx
    exact ⟨by rw [hk2]; exact h3 a ha, hk3⟩

/-- **the walk of `lyd_validate_subtree`**, with enough fuel for the height of the schema below -/
theorem subtree_stable2 (X : SchemaX) (o : VOpts) (hq1 : X.q.implicitInnerCase = false) (hq2 : X.q.autodelDirectCase = false)
    (hl : KidsLookupOk X) (hw : CaseWf X) : ∀ (fuel : Nat)
    (cx : Cx) (before : List DNode) (n : DNode) (sk : List STree), (∀ k, BelowL k sk → BelowL k X.top) →
      n.sid ∈ dataSidsL sk → placedCN X n = true → sheightL sk ≤ fuel →
      Kept2 X o n (subtreeNode X o fuel cx before n).1 := by
  intro fuel
  induction fuel with
  | zero =>
    intro cx before n sk hsk hany hp hh
    obtain ⟨k, _, _, hk, _⟩ := find_data_L sk n.sid hany
    cases k with
    | mk s i kk => simp [sheight] at hk; omega
  | succ fuel ih =>
    intro cx before n sk hsk hany hp hh
    cases n with
    | term s f m v => exact ⟨rfl, rfl, StableN_term ..⟩
    | inner s f m ks =>
      obtain ⟨k, hkb0, hks, hkh, hkc1, hkc2⟩ := find_data_L sk s hany
      have hkb : BelowL k X.top := hsk k hkb0
      have hkids : X.kidsOf (some s) = k.kids := by rw [← hks]; exact hl k hkb
      have hsk' : ∀ k', BelowL k' k.kids → BelowL k' X.top := fun k' hk' => belowL_trans hkb (below_of_kids hk')
      have hh' : sheightL k.kids ≤ fuel := by
        have h1 := sheight_kids k
        omega
      have hlev : LevelOk X k.kids := hw.2 k hkb hkc1 hkc2
      unfold placedCN at hp
      rw [hkids] at hp
      unfold subtreeNode
      dsimp only
      rw [hkids]
      obtain ⟨c1, c2, c3, c4⟩ := level_first X o (cx.descend X.base before (DNode.inner s f m ks))
        (cx.descend X.base before (DNode.inner s f m ks)).keysOld hq1 hq2 k.kids hlev ks hp
      generalize (implL X o (cx.descend X.base before (DNode.inner s f m ks)).keysOld k.kids
        (validateNew X o (cx.descend X.base before (DNode.inner s f m ks)) ks).1) = r2 at c1 c2 c3 c4 ⊢
      have h3 : Rel2 (Kept2 X o) r2.1 (walkList (subtreeNode X o fuel (cx.descend X.base before (DNode.inner s f m ks)).keysOld) [] r2.1).1 :=
        walkList_rel _ r2.1 [] (fun b x hx => ih _ b x k.kids hsk' (c4 x hx).1 (c4 x hx).2 hh')
      generalize (walkList (subtreeNode X o fuel (cx.descend X.base before (DNode.inner s f m ks)).keysOld) [] r2.1) = r3 at h3 ⊢
      obtain ⟨d1, d2, d3⟩ := level_walked X o hq2 k.kids r2.1 r3.1 c1 c2 c3 h3
      refine ⟨rfl, rfl, ?_⟩
      rw [StableN_inner, hkids]
      exact ⟨d1, d2, d3, fun h => by cases h⟩

/-! ## `lyd_validate_final_r` makes the default flags of the non-presence containers final -/

theorem npSet_flip (X : SchemaX) (s : Nat) (f : Flags) (m : List Meta) (ks ks' : List DNode)
    (h : NoNpContInCase X ∨ (X.base.isNpCont s && !f.dflt && ks'.all (·.flags.dflt)) = false) :
    Flip X (.inner s f m ks) (npSet X.base (.inner s f m ks')) := by
  rw [npSet_inner]
  split
  · rename_i hc
    rcases h with h | h
    · simp only [Bool.and_eq_true] at hc
      exact ⟨rfl, rfl, Or.inr ⟨h, hc.1.1, rfl⟩⟩
    · rw [h] at hc; cases hc
  · exact ⟨rfl, rfl, Or.inl rfl⟩

mutual
theorem finalNode_stable2 (X : SchemaX) (o : VOpts) (hq2 : X.q.autodelDirectCase = false) :
    ∀ (n : DNode) (cx : Cx) (before : List DNode), StableN X o false n → (NoNpContInCase X ∨ npInvN X.base n) →
    Flip X n (finalNode X o cx before n).1 ∧ StableN X o true (finalNode X o cx before n).1 ∧
      (npInvN X.base n → (finalNode X o cx before n).1.flags.dflt = n.flags.dflt)
  | .term s f m v, _, _, _, _ => by
    unfold finalNode
    exact ⟨⟨rfl, rfl, Or.inl rfl⟩, StableN_term .., fun _ => rfl⟩
  | .inner s f m ks, cx, before, h, hfin => by
    rw [StableN_inner] at h
    obtain ⟨hdone, hnv, hkids, _⟩ := h
    have hfin' : NoNpContInCase X ∨ npInvL X.base ks := by
      rcases hfin with h | h
      · exact Or.inl h
      · unfold npInvN at h; exact Or.inr h.2
    have ih := finalKids_stable2 X o hq2 ks (cx.descend X.base before (.inner s f m ks)) [] hkids hfin'
    unfold finalNode
    dsimp only
    generalize (finalKids X o (cx.descend X.base before (DNode.inner s f m ks)) [] ks) = r at ih ⊢
    have hd : implDoneX o (X.kidsOf (some s)) r.1 = true := by
      rw [implDoneX_congr o _ r.1 ks (hasInst_flip X ih.1)]; exact hdone
    have hnv' : NV X r.1 := NV_flip X hq2 ih.1 hnv
    -- with the invariant nothing is left to set
    have hinv : npInvN X.base (.inner s f m ks) → (X.base.isNpCont s && !f.dflt && r.1.all (·.flags.dflt)) = false := by
      intro hn
      unfold npInvN at hn
      have hall : r.1.all (·.flags.dflt) = allD ks := ih.2.2 hn.2
      rw [hall]
      cases hnp : X.base.isNpCont s with
      | false => rfl
      | true =>
        rw [← hn.1 hnp]
        cases f.dflt <;> rfl
    have hflip : Flip X (.inner s f m ks) (npSet X.base (.inner s f m r.1)) := by
      apply npSet_flip
      rcases hfin with h | h
      · exact Or.inl h
      · exact Or.inr (hinv h)
    refine ⟨hflip, ?_, ?_⟩
    · rw [npSet_inner]
      by_cases hcond : (X.base.isNpCont s && !f.dflt && r.1.all (·.flags.dflt)) = true
      · rw [if_pos hcond, StableN_inner]
        exact ⟨hd, hnv', ih.2.1, fun _ => by simp⟩
      · rw [if_neg hcond, StableN_inner]
        exact ⟨hd, hnv', ih.2.1, fun _ => by simpa using hcond⟩
    · intro hn
      rw [npSet_inner, if_neg (by rw [hinv hn]; simp)]
      rfl
theorem finalKids_stable2 (X : SchemaX) (o : VOpts) (hq2 : X.q.autodelDirectCase = false) :
    ∀ (ns : List DNode) (cx : Cx) (before : List DNode), StableL X o false ns → (NoNpContInCase X ∨ npInvL X.base ns) →
    Rel2 (Flip X) ns (finalKids X o cx before ns).1 ∧ StableL X o true (finalKids X o cx before ns).1 ∧
      (npInvL X.base ns → allD (finalKids X o cx before ns).1 = allD ns)
  | [], _, _, _, _ => by
    unfold finalKids
    exact ⟨Rel2.nil, by rw [StableL]; trivial, fun _ => rfl⟩
  | n :: ns, cx, before, h, hfin => by
    rw [StableL] at h
    have hf1 : NoNpContInCase X ∨ npInvN X.base n := by
      rcases hfin with h | h
      · exact Or.inl h
      · unfold npInvL at h; exact Or.inr h.1
    have hf2 : NoNpContInCase X ∨ npInvL X.base ns := by
      rcases hfin with h | h
      · exact Or.inl h
      · unfold npInvL at h; exact Or.inr h.2
    have h1 := finalNode_stable2 X o hq2 n cx before h.2.1 hf1
    have h2 := finalKids_stable2 X o hq2 ns cx (before ++ [n]) h.2.2 hf2
    unfold finalKids
    dsimp only
    refine ⟨Rel2.cons h1.1 h2.1, ?_, ?_⟩
    · rw [StableL]
      exact ⟨by rw [h1.1.2.1]; exact h.1, h1.2.1, h2.2.1⟩
    · intro hn
      unfold npInvL at hn
      have e1 := h1.2.2 hn.1
      have e2 := h2.2.2 hn.2
      unfold allD at e2 ⊢
      rw [List.all_cons, List.all_cons, e1, e2]
end

/-! ## assembly -/

/-- a validation leaves a stable tree (repaired variants; no non-presence container in a case; data that follow the schema;
enough fuel for the schema) -/
theorem validate_stable2 (X : SchemaX) (o : VOpts) (hq1 : X.q.implicitInnerCase = false) (hq2 : X.q.autodelDirectCase = false)
    (hl : KidsLookupOk X) (hw : CaseWf X) (t : List DNode) (hB : NoNpContInCase X ∨ (npInvL X.base t ∧ newExplL t))
    (hp : placedCL X X.top t = true) (hh : sheightL X.top ≤ walkFuel X t) (hpe : (o.present && t.isEmpty) = false) :
    StableTop X o (validate X o t).tree := by
  obtain ⟨ht, _⟩ := validate_evs_eq X o t hpe
  rw [ht]
  have hpre : NoNpContInCase X ∨
      npInvL X.base (subtreeKids X o (walkFuel X t) {} [] (implL X o {} X.top (validateNew X o {} t).1).1).1 := by
    rcases hB with h | h
    · exact Or.inl h
    · exact Or.inr (prefinal_good X o t h.1 h.2)
  obtain ⟨c1, c2, c3, c4⟩ := level_first X o {} {} hq1 hq2 X.top hw.1 t hp
  generalize (implL X o {} X.top (validateNew X o {} t).1) = r2 at c1 c2 c3 c4 hpre ⊢
  have h3 : Rel2 (Kept2 X o) r2.1 (subtreeKids X o (walkFuel X t) {} [] r2.1).1 := by
    unfold subtreeKids
    exact walkList_rel _ r2.1 [] (fun b x hx =>
      subtree_stable2 X o hq1 hq2 hl hw _ {} b x X.top (fun k hk => hk) (c4 x hx).1 (c4 x hx).2 hh)
  generalize (subtreeKids X o (walkFuel X t) {} [] r2.1) = r3 at h3 hpre ⊢
  obtain ⟨d1, d2, d3⟩ := level_walked X o hq2 X.top r2.1 r3.1 c1 c2 c3 h3
  have hfin := finalKids_stable2 X o hq2 r3.1 {} [] d3 hpre
  unfold StableTop finalR
  dsimp only
  refine ⟨?_, NV_flip X hq2 hfin.1 d2, hfin.2.1⟩
  rw [implDoneX_congr o X.top _ r3.1 (hasInst_flip X hfin.1)]
  exact d1

/-- **`validate_idempotent` with `choice` / `case`** -/
theorem validate_idempotent2 (X : SchemaX) (o : VOpts) (hq1 : X.q.implicitInnerCase = false) (hq2 : X.q.autodelDirectCase = false)
    (hq3 : X.q.casesCountDefault = true)
    (hl : KidsLookupOk X) (hw : CaseWf X) (t : List DNode) (hB : NoNpContInCase X ∨ (npInvL X.base t ∧ newExplL t))
    (hp : placedCL X X.top t = true) (hh : sheightL X.top ≤ walkFuel X t) :
    (validate X o (validate X o t).tree).tree = (validate X o t).tree ∧
    (validate X o (validate X o t).tree).evs = [] := by
  by_cases hpe : (o.present && t.isEmpty) = true
  · have : (validate X o t).tree = [] := by
      unfold validate; simp only [hpe, if_true]
    rw [this]
    have hpe' : (o.present && ([] : List DNode).isEmpty) = true := by
      simp only [Bool.and_eq_true] at hpe ⊢; exact ⟨hpe.1, rfl⟩
    unfold validate
    simp only [hpe', if_true]
    exact ⟨trivial, rfl⟩
  · exact validate_of_stable2 X o hq1 hq3 _ (validate_stable2 X o hq1 hq2 hl hw t hB hp hh (by simpa using hpe))

end LyModel.Valid

namespace LyModel.Valid
open LyModel LyModel.Tree

/-! ## stable trees, spelled out -/

theorem StableN_spec (X : SchemaX) (o : VOpts) (s : Nat) (f : Flags) (m : List Meta) (ks : List DNode) :
    StableN X o true (.inner s f m ks) ↔
      (∀ sid, wantL o (hasInst ks) (X.kidsOf (some s)) sid = true → hasInst ks sid = true) ∧ NV X ks ∧
      (∀ n ∈ ks, n.flags.new = false ∧ StableN X o true n) ∧
      (X.base.isNpCont s = true → f.dflt = false → ∃ n ∈ ks, n.flags.dflt = false) := by
  rw [StableN_inner, implDoneX_iff, StableL_all]
  have : (true = true → (X.base.isNpCont s && !f.dflt && ks.all (·.flags.dflt)) = false) ↔
      (X.base.isNpCont s = true → f.dflt = false → ∃ n ∈ ks, n.flags.dflt = false) := by
    constructor
    · intro h hnp hd
      have h := h rfl
      simp only [hnp, hd, Bool.not_false, Bool.and_self, Bool.true_and] at h
      obtain ⟨n, hn, hnd⟩ := List.all_eq_false.1 h
      exact ⟨n, hn, by simpa using hnd⟩
    · intro h _
      cases hnp : X.base.isNpCont s with
      | false => rfl
      | true =>
        cases hd : f.dflt with
        | true => rfl
        | false =>
          obtain ⟨n, hn, hnd⟩ := h hnp hd
          simp only [Bool.not_false, Bool.and_self, Bool.true_and]
          rw [List.all_eq_false]
          exact ⟨n, hn, by simp [hnd]⟩
  rw [this]

theorem StableTop_spec (X : SchemaX) (o : VOpts) (T : List DNode) :
    StableTop X o T ↔
      (∀ sid, wantL o (hasInst T) X.top sid = true → hasInst T sid = true) ∧ NV X T ∧
      (∀ n ∈ T, n.flags.new = false ∧ StableN X o true n) := by
  unfold StableTop
  rw [implDoneX_iff, StableL_all]

/-- **the trees a validation leaves as they are are exactly the stable ones** -/
theorem validate_fixpoint_iff2 (X : SchemaX) (o : VOpts) (hq1 : X.q.implicitInnerCase = false) (hq2 : X.q.autodelDirectCase = false)
    (hq3 : X.q.casesCountDefault = true)
    (hl : KidsLookupOk X) (hw : CaseWf X) (T : List DNode) (hB : NoNpContInCase X ∨ (npInvL X.base T ∧ newExplL T))
    (hp : placedCL X X.top T = true) (hh : sheightL X.top ≤ walkFuel X T) (hpe : (o.present && T.isEmpty) = false) :
    ((validate X o T).tree = T ∧ (validate X o T).evs = []) ↔ StableTop X o T := by
  constructor
  · intro h
    have := validate_stable2 X o hq1 hq2 hl hw T hB hp hh hpe
    rw [h.1] at this
    exact this
  · exact validate_of_stable2 X o hq1 hq3 T

end LyModel.Valid
