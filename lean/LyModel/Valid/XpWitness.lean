import LyModel.Valid.XpSpec
import LyModel.Valid.FullSaneB
import LyModel.Valid.FullUniq
import LyModel.Valid.LemmasCompletionNoChoice
import LyModel.Valid.LemmasCompletionObs
/-!
# C02 with XPath-dependent statements: the witness schema `Sxp` and its instances (non-vacuity of the Props theorems)
-/
namespace LyModel.Valid
open LyModel LyModel.Tree

/-- `container c { presence; leaf a; leaf b { must "../a = 'x'"; must "../d = '1'"; } leaf d { default "1"; }
    leaf r { type leafref { path "../a"; } } list l { key k; leaf k; leaf v { must "count(../../l) < 3"; } } } leaf s { config false; }` -/
def Sxp : Schema := { modName := "xp", nodes := [
  { depth := 0, kind := .container, name := "c", presence := true },
  { depth := 1, kind := .leaf, name := "a" },
  { depth := 1, kind := .leaf, name := "b" },
  { depth := 1, kind := .leaf, name := "d", dflts := [[49]] },
  { depth := 1, kind := .leaf, name := "r" },
  { depth := 1, kind := .list, name := "l", nkeys := 1 },
  { depth := 2, kind := .leaf, name := "k", iskey := true },
  { depth := 2, kind := .leaf, name := "v" },
  { depth := 0, kind := .leaf, name := "s", config := false }] }

def Xxp : SchemaX := { SchemaX.ofSchema Sxp with q := Quirks.fixed }

/-- all statements, the numeric `must` included -/
def Cxp : XCons :=
  { musts := [(2, bytesOfString "../a = 'x'"), (2, bytesOfString "../d = '1'"), (7, bytesOfString "count(../../l) < 3")]
    leafrefs := [(4, bytesOfString "../a")] }

/-- the string / node-set statements only -/
def CxpS : XCons :=
  { musts := [(2, bytesOfString "../a = 'x'"), (2, bytesOfString "../d = '1'")]
    leafrefs := [(4, bytesOfString "../a")] }

def xpTree (a b r : Bytes) : List DNode :=
  [.inner 0 flN [] [.term 1 flN [] a, .term 2 flN [] b, .term 4 flN [] r,
    .inner 5 flN [] [.term 6 flN [] [49], .term 7 flN [] [119]]]]

/-- valid: `a = x`, `b` (its second `must` holds through the DEFAULT of `d`), `r = x`, one list entry -/
def tXpOk : List DNode := xpTree [120] [118] [120]
/-- `a = y`: the first `must` of `b` is false -/
def tXpBadMust : List DNode := xpTree [121] [118] [121]
/-- `r = z` has no target instance -/
def tXpBadRef : List DNode := xpTree [120] [118] [122]

/-- three list entries: the numeric `must` of every `v` is false -/
def tXpBadCount : List DNode :=
  [.inner 0 flN [] [.term 1 flN [] [120],
    .inner 5 flN [] [.term 6 flN [] [49], .term 7 flN [] [119]],
    .inner 5 flN [] [.term 6 flN [] [50], .term 7 flN [] [119]],
    .inner 5 flN [] [.term 6 flN [] [51], .term 7 flN [] [119]]]]

/-! ## the schema hypotheses -/

example : fullSaneB Xxp {} = true := by decide +kernel
example : fullSaneB Xxp { noState := true } = true := by decide +kernel
example : dataSchemaB Xxp = true := by decide +kernel
example : lookupOkB Xxp = true ∧ infoOkB Xxp = true ∧ nodeLookupOkB Xxp = true ∧ uniqPathsOkB Xxp = true := by decide +kernel
example : Xxp.q.implicitInnerCase = false ∧ Xxp.q.uniqueDefaultAlways = false := ⟨rfl, rfl⟩

/-! ## the instances -/

example : goodL Xxp Xxp.top tXpOk = true ∧ goodL Xxp Xxp.top tXpBadMust = true ∧ goodL Xxp Xxp.top tXpBadRef = true ∧
    goodL Xxp Xxp.top tXpBadCount = true := by decide +kernel
example : freshExplL tXpOk = true ∧ placedL Xxp Xxp.top tXpOk = true ∧ cShapedL Sxp tXpOk = true := by decide +kernel
example : freshExplL tXpBadMust = true ∧ placedL Xxp Xxp.top tXpBadMust = true ∧ cShapedL Sxp tXpBadMust = true := by decide +kernel
example : freshExplL tXpBadRef = true ∧ placedL Xxp Xxp.top tXpBadRef = true ∧ cShapedL Sxp tXpBadRef = true := by decide +kernel
example : sheightL Xxp.top ≤ walkFuel Xxp tXpOk ∧ tXpOk.length ≤ uint32Max := by decide +kernel
example : buildL Sxp tXpOk = none ∧ buildL Sxp tXpBadMust = none ∧ buildL Sxp tXpBadRef = none := by decide +kernel

/-- the completion equation (C07, schemas without choice) for the witness -/
example : obsL Sxp (validate Xxp {} tXpOk).tree = obsL Sxp (rfcComplete Xxp {} tXpOk) :=
  validate_rfcComplete_nochoice Xxp {} tXpOk rfl (dataSchema_of_B _ (by decide +kernel)) (by decide +kernel) (by decide +kernel)
    (by decide +kernel) (by decide +kernel) (by decide +kernel)

/-! ## what the specification says, and what the model of `lyd_validate` logs (all statements, the numeric `must` included: the
kernel evaluates the engine at `Float`) -/

example : violationsX Xxp Cxp {} tXpOk = [] := by decide +kernel
example : violationsX Xxp Cxp {} tXpBadMust = [.noMust] := by decide +kernel
example : violationsX Xxp Cxp {} tXpBadRef = [.noReqInst] := by decide +kernel
example : violationsX Xxp Cxp {} tXpBadCount = [.noMust, .noMust, .noMust] := by decide +kernel

example : (validateX Xxp Cxp {} tXpOk).errs = [] := by decide +kernel
example : (validateX Xxp Cxp {} tXpBadMust).errs.map (·.kind) = [.noMust] := by decide +kernel
example : (validateX Xxp Cxp {} tXpBadRef).errs.map (·.kind) = [.noReqInst] := by decide +kernel
example : (validateX Xxp Cxp {} tXpBadCount).errs.map (·.kind) = [.noMust, .noMust, .noMust] := by decide +kernel

/-- the second `must` of `b` looks at the DEFAULT of `d`: without the defaults in use (on the explicit data alone) it is false -/
example : xpViolations Sxp CxpS (explicitL tXpOk) = [.noMust] ∧ xpViolations Sxp CxpS (rfcComplete Xxp {} tXpOk) = [] := by
  decide +kernel

/-- the string / node-set statements alone -/
example : violationsX Xxp CxpS {} tXpOk = [] ∧ (validateX Xxp CxpS {} tXpOk).errs = [] := by decide +kernel

end LyModel.Valid
