import LyModel.Valid.LemmasFamily
import LyModel.Valid.WellFormed
/-! `validate_ok_iff_valid` (C02) for *plain* schemas — lists, leaf-lists, leaves, presence containers in any nesting with
mandatory / min-elements / max-elements / keys / config-state; no choice, no default, no non-presence container, no unique —
on freshly built or parsed trees.  Part 1: what `lyd_validate` does to such a tree and which errors it logs. -/
namespace LyModel.Valid
open LyModel LyModel.Tree

/-! ## plain schemas -/

/-- the statement fields of a schema node in the table are the ones of the tree -/
def InfoOk (X : SchemaX) : Prop := ∀ k, BelowL k X.top → X.base.get? k.sid = some k.info

/-- nothing in the schema node asks for implicit data or for case logic -/
def plainNode (k : STree) : Bool :=
  k.info.kind != .choice && k.info.kind != .case && !(k.info.kind == .container && !k.info.presence) && k.info.dflts.isEmpty &&
    !(k.info.kind == .container && k.info.mandatory) && !(k.info.kind == .list && k.info.mandatory) &&
    !(k.info.kind == .leaflist && k.info.mandatory)

def PlainX (X : SchemaX) : Prop := ∀ k, BelowL k X.top → plainNode k = true

theorem wantsImplicit_plain (o : VOpts) (k : STree) (h : plainNode k = true) : wantsImplicit o k = false := by
  unfold plainNode at h
  unfold wantsImplicit
  simp only [Bool.and_eq_true, bne_iff_ne, ne_eq, Bool.not_eq_eq_eq_not, Bool.not_true, Bool.and_eq_false_imp,
    List.isEmpty_iff] at h
  obtain ⟨⟨⟨⟨⟨⟨h1, _⟩, h3⟩, h4⟩, _⟩, _⟩, _⟩ := h
  simp only [h4, List.isEmpty_nil, Bool.not_true, Bool.and_false, Bool.or_false]
  cases hk : k.info.kind with
  | container =>
    have := h3 (by simp [hk])
    simp only [Bool.not_eq_eq_eq_not, Bool.not_false] at this
    simp [this]
  | leaf => simp
  | leaflist => simp
  | list => simp
  | choice => simp
  | case => simp

theorem implDone_plain (o : VOpts) (sk : List STree) (sibs : List DNode) (h : ∀ k ∈ sk, plainNode k = true) :
    implDone o sk sibs = true := by
  unfold implDone
  rw [List.all_eq_true]
  intro k hk
  simp [wantsImplicit_plain o k (h k hk)]

theorem noChoiceTop_plain (sk : List STree) (h : ∀ k ∈ sk, plainNode k = true) : noChoiceTop sk = true := by
  unfold noChoiceTop
  rw [List.all_eq_true]
  intro k hk
  have := h k hk
  unfold plainNode at this
  simp only [Bool.and_eq_true, bne_iff_ne, ne_eq] at this
  simp only [STree.isChoice, Bool.not_eq_eq_eq_not, Bool.not_true, beq_eq_false_iff_ne, ne_eq]
  exact this.1.1.1.1.1.1

/-! ## fresh trees -/

mutual
/-- the node and everything below carry exactly `LYD_NEW`: a tree just built with `lyd_new_*` or parsed, without default-flagged
nodes -/
def isFreshN : DNode → Bool
  | .inner _ f _ ks => decide (f = { new := true }) && isFreshL ks
  | .term _ f _ _ => decide (f = { new := true })
def isFreshL : List DNode → Bool
  | [] => true
  | n :: ns => isFreshN n && isFreshL ns
end

theorem isFreshL_all : ∀ (ns : List DNode), isFreshL ns = true ↔ ∀ n ∈ ns, isFreshN n = true := by
  intro ns
  induction ns with
  | nil => simp [isFreshL]
  | cons x xs ih => unfold isFreshL; simp [ih]

theorem isFreshN_flags {n : DNode} (h : isFreshN n = true) : n.flags = { new := true } := by
  cases n with
  | inner s f m ks => unfold isFreshN at h; simp only [Bool.and_eq_true, decide_eq_true_eq] at h; exact h.1
  | term s f m v => unfold isFreshN at h; simp only [decide_eq_true_eq] at h; exact h

theorem isFreshN_kids {n : DNode} (h : isFreshN n = true) : isFreshL n.kids = true := by
  cases n with
  | inner s f m ks => unfold isFreshN at h; simp only [Bool.and_eq_true] at h; exact h.2
  | term s f m v => rfl

mutual
/-- `LYD_NEW` cleared everywhere -/
def clrN : DNode → DNode
  | .inner s f m ks => .inner s { f with new := false } m (clrL ks)
  | .term s f m v => .term s { f with new := false } m v
def clrL : List DNode → List DNode
  | [] => []
  | n :: ns => clrN n :: clrL ns
end

theorem clrL_eq_map : ∀ (ns : List DNode), clrL ns = ns.map clrN := by
  intro ns
  induction ns with
  | nil => rfl
  | cons x xs ih => simp [clrL, ih]

theorem normNew_setKids_fresh {k : DNode} (h : isFreshN k = true) : (normNew k).setKids (clrL (normNew k).kids) = clrN k := by
  have hf := isFreshN_flags h
  cases k with
  | inner s f m ks =>
    simp only [DNode.flags] at hf
    subst hf
    rfl
  | term s f m v =>
    simp only [DNode.flags] at hf
    subst hf
    rfl

mutual
/-- no forbidden pair of siblings at any level below the node -/
def dupDeepN (S : Schema) : DNode → Prop
  | .inner _ _ _ ks => NoPair S ks ∧ dupDeepL S ks
  | .term .. => True
def dupDeepL (S : Schema) : List DNode → Prop
  | [] => True
  | n :: ns => dupDeepN S n ∧ dupDeepL S ns
end

theorem dupDeepN_inner (S : Schema) (s : Nat) (f : Flags) (m : List Meta) (ks : List DNode) :
    dupDeepN S (.inner s f m ks) ↔ NoPair S ks ∧ dupDeepL S ks := by
  unfold dupDeepN; exact Iff.rfl

theorem dupDeepL_all (S : Schema) : ∀ (ns : List DNode), dupDeepL S ns ↔ ∀ n ∈ ns, dupDeepN S n := by
  intro ns
  induction ns with
  | nil => simp [dupDeepL]
  | cons x xs ih => unfold dupDeepL; simp [ih]

theorem dupDeepN_normNew (S : Schema) (k : DNode) : dupDeepN S (normNew k) ↔ dupDeepN S k := by
  unfold normNew clearNew
  split
  · cases k <;> rfl
  · rfl

/-! ## the walk over a list: results and errors element by element -/

theorem walkList_map (f : List DNode → DNode → DNode × Out) (g : DNode → DNode) : ∀ (l before : List DNode),
    (∀ b, ∀ x ∈ l, (f b x).1 = g x) → (walkList f before l).1 = l.map g := by
  intro l
  induction l with
  | nil => intro _ _; rfl
  | cons x xs ih =>
    intro before h
    unfold walkList
    dsimp only
    rw [h before x (List.mem_cons_self ..), ih _ (fun b y hy => h b y (List.mem_cons_of_mem _ hy))]
    rfl

theorem walkList_errs (f : List DNode → DNode → DNode × Out) (P : DNode → Prop) : ∀ (l before : List DNode),
    (∀ b, ∀ x ∈ l, ((f b x).2.errs = [] ↔ P x)) → ((walkList f before l).2.errs = [] ↔ ∀ x ∈ l, P x) := by
  intro l
  induction l with
  | nil => intro _ _; simp [walkList]
  | cons x xs ih =>
    intro before h
    unfold walkList
    dsimp only
    rw [Out.append_errs, List.append_eq_nil_iff, h before x (List.mem_cons_self ..),
      ih _ (fun b y hy => h b y (List.mem_cons_of_mem _ hy))]
    simp

theorem walkList_allErrs (f : List DNode → DNode → DNode × Out) (Q : VErr → Prop) : ∀ (l before : List DNode),
    (∀ b, ∀ x ∈ l, ∀ e ∈ (f b x).2.errs, Q e) → ∀ e ∈ (walkList f before l).2.errs, Q e := by
  intro l
  induction l with
  | nil => intro _ _ e he; simp [walkList] at he
  | cons x xs ih =>
    intro before h e he
    unfold walkList at he
    dsimp only at he
    rw [Out.append_errs, List.mem_append] at he
    rcases he with he | he
    · exact h before x (List.mem_cons_self ..) e he
    · exact ih _ (fun b y hy => h b y (List.mem_cons_of_mem _ hy)) e he

theorem dupErr_kind (X : SchemaX) (o : VOpts) (cx : Cx) (done tl : List DNode) (n : DNode) :
    ∀ e ∈ (dupErr X o cx done tl n).errs, e.kind = .dup := by
  intro e he
  unfold dupErr at he
  dsimp only at he
  split at he
  · simp only [Out.err, Out.errs, List.filterMap_cons, List.filterMap_nil, List.mem_singleton] at he
    rw [he]
  · simp at he

theorem loopErrs_kind (X : SchemaX) (o : VOpts) (cx : Cx) : ∀ (rest done : List DNode),
    ∀ e ∈ (loopErrs X o cx done rest).errs, e.kind = .dup := by
  intro rest
  induction rest with
  | nil => intro done e he; simp [loopErrs] at he
  | cons n tl ih =>
    intro done e he
    unfold loopErrs at he
    rw [Out.append_errs, List.mem_append] at he
    rcases he with he | he
    · exact dupErr_kind X o cx done tl n e he
    · exact ih _ e he

/-! ## `lyd_validate_subtree` on a fresh tree over a plain schema: `LYD_NEW` is cleared, the errors are the duplicate errors -/

theorem validateNew_fresh (X : SchemaX) (o : VOpts) (cx : Cx) (hop : o.operational = false) (ks : List DNode)
    (hk : noChoiceTop (X.kidsOf cx.parent) = true) (hf : isFreshL ks = true) :
    (validateNew X o cx ks).1 = ks.map normNew ∧ ((validateNew X o cx ks).2.errs = [] ↔ NoPair X.base ks) ∧
      ∀ e ∈ (validateNew X o cx ks).2.errs, e.kind = .dup := by
  have hall := (isFreshL_all ks).1 hf
  have hnew : ∀ n ∈ ks, n.flags.new = true := fun n hn => by rw [isFreshN_flags (hall n hn)]
  have hnd : ∀ n ∈ ks, n.flags.dflt = false := fun n hn => by rw [isFreshN_flags (hall n hn)]
  unfold validateNew
  rw [choiceRL_noChoice X cx _ ks hk]
  dsimp only
  rw [newLoop_noDflt X o cx.keysOld (ks.length + 1) ks [] none (by omega) (by simpa using hnd)]
  refine ⟨by simp, ?_, ?_⟩
  · simp only [Out.empty_append]
    have := loopErrs_nil_iff X o cx.keysOld hop ks [] hnew
    simpa using this
  · simp only [Out.empty_append]
    exact loopErrs_kind X o cx.keysOld ks []

theorem subtree_fresh (X : SchemaX) (o : VOpts) (hop : o.operational = false) (hl : KidsLookupOk X) (hpl : PlainX X) : ∀ (fuel : Nat)
    (cx : Cx) (before : List DNode) (n : DNode) (sk : List STree), (∀ k ∈ sk, BelowL k X.top) →
      sk.any (·.sid == n.sid) = true → placedN X n = true → sheightL sk ≤ fuel → isFreshL n.kids = true →
      (subtreeNode X o fuel cx before n).1 = n.setKids (clrL n.kids) ∧
      ((subtreeNode X o fuel cx before n).2.errs = [] ↔ dupDeepN X.base n) ∧
      ∀ e ∈ (subtreeNode X o fuel cx before n).2.errs, e.kind = .dup := by
  intro fuel
  induction fuel with
  | zero =>
    intro cx before n sk hsk hany hp hh _
    obtain ⟨k, hk, _⟩ := List.any_eq_true.1 hany
    have := sheightL_mem hk
    cases k with
    | mk s i kk => simp [sheight] at this; omega
  | succ fuel ih =>
    intro cx before n sk hsk hany hp hh hfr
    cases n with
    | term s f m v => exact ⟨by simp [subtreeNode, DNode.setKids], by simp [subtreeNode, dupDeepN], by simp [subtreeNode]⟩
    | inner s f m ks =>
      obtain ⟨k, hk, hks⟩ := List.any_eq_true.1 hany
      have hks' : k.sid = s := by simpa [DNode.sid] using hks
      have hkb : BelowL k X.top := hsk k hk
      have hkids : X.kidsOf (some s) = k.kids := by rw [← hks']; exact hl k hkb
      have hsk' : ∀ k' ∈ k.kids, BelowL k' X.top := fun k' hk' => BelowL.kid_of_below hkb hk'
      have hh' : sheightL k.kids ≤ fuel := by
        have h1 := sheight_kids k
        have h2 := sheightL_mem hk
        omega
      have hplk : ∀ k' ∈ k.kids, plainNode k' = true := fun k' hk' => hpl k' (hsk' k' hk')
      have hnck : noChoiceTop k.kids = true := noChoiceTop_plain _ hplk
      simp only [DNode.kids] at hfr
      unfold placedN at hp
      rw [hkids] at hp
      unfold subtreeNode
      dsimp only
      rw [hkids]
      obtain ⟨hv1, hv2, hv3⟩ := validateNew_fresh X o (cx.descend X.base before (DNode.inner s f m ks)) hop ks
        (by show noChoiceTop (X.kidsOf (some s)) = true; rw [hkids]; exact hnck) hfr
      generalize (validateNew X o (cx.descend X.base before (DNode.inner s f m ks)) ks) = r1 at hv1 hv2 hv3 ⊢
      rw [implL_noChoice X o _ _ _ hnck, implNodes_of_done X.base o _ _ _ (implDone_plain o k.kids r1.1 hplk)]
      dsimp only
      rw [hv1]
      -- the elements of the level
      have hall := (isFreshL_all ks).1 hfr
      have hpall := (placedL_all X k.kids ks).1 hp
      have helem : ∀ b, ∀ x ∈ ks.map normNew,
          (subtreeNode X o fuel (cx.descend X.base before (DNode.inner s f m ks)).keysOld b x).1 = x.setKids (clrL x.kids) ∧
          ((subtreeNode X o fuel (cx.descend X.base before (DNode.inner s f m ks)).keysOld b x).2.errs = [] ↔ dupDeepN X.base x) ∧
          ∀ e ∈ (subtreeNode X o fuel (cx.descend X.base before (DNode.inner s f m ks)).keysOld b x).2.errs, e.kind = .dup := by
        intro b x hx
        obtain ⟨y, hy, hxy⟩ := List.mem_map.1 hx
        subst hxy
        exact ih _ b (normNew y) k.kids hsk' (by simpa using (hpall y hy).1) (by rw [placedN_normNew]; exact (hpall y hy).2) hh'
          (by rw [normNew_kids]; exact isFreshN_kids (hall y hy))
      refine ⟨?_, ?_, ?_⟩
      · simp only [DNode.setKids]
        congr 1
        rw [walkList_map _ (fun x => x.setKids (clrL x.kids)) _ [] (fun b x hx => (helem b x hx).1), clrL_eq_map, List.map_map]
        apply List.map_congr_left
        intro y hy
        exact normNew_setKids_fresh (hall y hy)
      rotate_left
      · intro e he
        simp only [Out.append_errs, Out.empty_errs, List.append_nil, List.mem_append] at he
        rcases he with he | he
        · exact hv3 e he
        · exact walkList_allErrs _ (fun e => e.kind = .dup) _ [] (fun b x hx => (helem b x hx).2.2) e he
      · simp only [Out.append_errs, Out.empty_errs, List.append_nil, List.append_eq_nil_iff, hv2]
        rw [walkList_errs _ (dupDeepN X.base) _ [] (fun b x hx => (helem b x hx).2.1)]
        rw [dupDeepN_inner, dupDeepL_all]
        constructor
        · rintro ⟨h1, h2⟩
          exact ⟨h1, fun y hy => (dupDeepN_normNew X.base y).1 (h2 (normNew y) (List.mem_map_of_mem hy))⟩
        · rintro ⟨h1, h2⟩
          refine ⟨h1, fun x hx => ?_⟩
          obtain ⟨y, hy, hxy⟩ := List.mem_map.1 hx
          subst hxy
          exact (dupDeepN_normNew X.base y).2 (h2 y hy)


/-! ## `lyd_validate_final_r` on a tree over a plain schema -/

/-- what the schema-based checks of one level ask of a schema node `k`, stated on instance counts -/
def nodeOk (o : VOpts) (sibs : List DNode) (k : STree) : Prop :=
  (o.noState && !k.info.config) = true ∨
    match k.info.kind with
    | .list | .leaflist =>
      ¬ ((instsOf sibs k.sid).length < k.info.min) ∧ ¬ (k.info.max ≠ 0 ∧ k.info.max < (instsOf sibs k.sid).length)
    | _ => k.info.mandatory = true → hasInst sibs k.sid = true

/-- the checks of one sibling level -/
def levelOk (X : SchemaX) (o : VOpts) (sk : List STree) (sibs : List DNode) : Prop :=
  (o.noState = true → ∀ n ∈ sibs, X.base.config n.sid = true) ∧ ∀ k ∈ sk, nodeOk o sibs k

/-- schema sanity of a (leaf-)list: `min-elements` ≤ `max-elements`, below 2³² -/
def mmSane (k : STree) : Prop := (k.info.max = 0 ∨ k.info.min ≤ k.info.max) ∧ k.info.min ≤ uint32Max

theorem schemaNodes_nil_iff (X : SchemaX) (o : VOpts) (cx : Cx) (hop : o.operational = false) (sibs : List DNode)
    (hlen : sibs.length ≤ uint32Max) (hu : X.uniques = []) : ∀ (ks : List STree), (∀ k ∈ ks, plainNode k = true ∧ mmSane k) →
    ((schemaNodes X o cx sibs ks).errs = [] ↔ ∀ k ∈ ks, nodeOk o sibs k) := by
  intro ks
  induction ks with
  | nil => intro _; simp [schemaNodes]
  | cons k ks ih =>
    intro hks
    obtain ⟨hpk, hmk⟩ := hks k (List.mem_cons_self ..)
    unfold schemaNodes
    dsimp only
    rw [Out.append_errs, List.append_eq_nil_iff, ih (fun k' hk' => hks k' (List.mem_cons_of_mem _ hk'))]
    simp only [List.mem_cons, forall_eq_or_imp]
    apply and_congr_left'
    have hilen : (instsOf sibs k.sid).length ≤ uint32Max := Nat.le_trans (List.length_filter_le _ _) hlen
    have hnc : (k.info.kind == SKind.choice) = false := by
      unfold plainNode at hpk
      simp only [Bool.and_eq_true, bne_iff_ne, ne_eq] at hpk
      simpa using hpk.1.1.1.1.1.1
    unfold nodeOk
    by_cases hst : (o.noState && !k.info.config) = true
    · simp [hnc, hst]
    · have hst' : (o.noState && !k.info.config) = false := by simpa using hst
      simp only [hnc, hst', Bool.or_self, Bool.false_eq_true, if_false, false_or]
      cases hkind : k.info.kind with
      | list =>
        have hun : uniqueOut X o cx sibs k = {} := by
          unfold uniqueOut SchemaX.uniquesOf
          simp [hu]
        simp only [hun, Out.append_errs, Out.empty_errs, List.append_nil]
        exact minmaxOut_nil_iff X.base o cx sibs k hop hmk.1 hmk.2 hilen
      | leaflist => exact minmaxOut_nil_iff X.base o cx sibs k hop hmk.1 hmk.2 hilen
      | leaf =>
        simp only [hop, Bool.not_false, Bool.and_true]
        split
        · rename_i h
          simp only [Bool.and_eq_true, Bool.not_eq_eq_eq_not, Bool.not_true] at h
          simp [Out.err, Out.errs, h.1, h.2]
        · rename_i h
          simp only [Bool.and_eq_true, Bool.not_eq_eq_eq_not, Bool.not_true, not_and, Bool.not_eq_false] at h
          simpa using h
      | container =>
        have hm : k.info.mandatory = false := by
          unfold plainNode at hpk
          simp only [Bool.and_eq_true, Bool.not_eq_eq_eq_not, Bool.not_true, Bool.and_eq_false_imp] at hpk
          exact hpk.1.1.2 (by simp [hkind])
        simp [hm]
      | choice => simp [hkind] at hnc
      | case =>
        unfold plainNode at hpk
        simp [hkind] at hpk


theorem schemaChoices_noChoice (X : SchemaX) (o : VOpts) (cx : Cx) (sibs : List DNode) : ∀ (ks : List STree), noChoiceTop ks = true →
    schemaChoices X o cx sibs ks = {} := by
  intro ks
  induction ks with
  | nil => intro _; rfl
  | cons k ks ih =>
    intro h
    simp only [noChoiceTop, List.all_cons, Bool.and_eq_true, Bool.not_eq_eq_eq_not, Bool.not_true] at h
    unfold schemaChoices
    have hk : schemaChoice X o cx sibs k = {} := by
      cases k with
      | mk s i kk =>
        unfold schemaChoice
        have : (i.kind == SKind.choice) = false := h.1
        have hb : (i.kind != SKind.choice) = true := by simp [bne, this]
        simp [hb]
    rw [hk, ih (by simpa [noChoiceTop] using h.2)]
    simp

theorem nodeChecks_nil_iff (S : Schema) (o : VOpts) (cx : Cx) : ∀ (rest before : List DNode),
    (nodeChecks S o cx before rest).errs = [] ↔ (o.noState = true → ∀ n ∈ rest, S.config n.sid = true) := by
  intro rest
  induction rest with
  | nil => intro before; simp [nodeChecks]
  | cons n ns ih =>
    intro before
    unfold nodeChecks
    rw [Out.append_errs, List.append_eq_nil_iff, ih]
    by_cases hns : o.noState = true
    · by_cases hc : S.config n.sid = true
      · simp [hns, hc]
      · have hc' : S.config n.sid = false := by simpa using hc
        simp [hns, hc', Out.err, Out.errs]
    · have : o.noState = false := by simpa using hns
      simp [this]

/-- the checks of one sibling level of `lyd_validate_final_r` log no error iff the level is in order -/
theorem levelChecks_nil_iff (X : SchemaX) (o : VOpts) (cx : Cx) (hop : o.operational = false) (hu : X.uniques = []) (sibs : List DNode)
    (hlen : sibs.length ≤ uint32Max) (hsk : ∀ k ∈ X.kidsOf cx.parent, plainNode k = true ∧ mmSane k) :
    (levelChecks X o cx sibs).errs = [] ↔ levelOk X o (X.kidsOf cx.parent) sibs := by
  unfold levelChecks schemaRL levelOk
  rw [schemaChoices_noChoice X o cx sibs _ (noChoiceTop_plain _ (fun k hk => (hsk k hk).1))]
  rw [Out.append_errs, Out.empty_append, List.append_eq_nil_iff, nodeChecks_nil_iff,
    schemaNodes_nil_iff X o cx hop sibs hlen hu _ hsk]

mutual
/-- every sibling level below the node is in order -/
def finOkN (X : SchemaX) (o : VOpts) : DNode → Prop
  | .inner s _ _ ks => levelOk X o (X.kidsOf (some s)) ks ∧ finOkL X o ks
  | .term .. => True
def finOkL (X : SchemaX) (o : VOpts) : List DNode → Prop
  | [] => True
  | n :: ns => finOkN X o n ∧ finOkL X o ns
end

mutual
/-- every sibling list below the node is shorter than 2³² -/
def lenOkN : DNode → Bool
  | .inner _ _ _ ks => decide (ks.length ≤ uint32Max) && lenOkL ks
  | .term .. => true
def lenOkL : List DNode → Bool
  | [] => true
  | n :: ns => lenOkN n && lenOkL ns
end

/-- the schema below is plain and sane -/
def PlainSane (X : SchemaX) : Prop := ∀ k, BelowL k X.top → plainNode k = true ∧ mmSane k

mutual
theorem finalNode_errs (X : SchemaX) (o : VOpts) (hop : o.operational = false) (hu : X.uniques = []) (hl : KidsLookupOk X)
    (hps : PlainSane X) : ∀ (n : DNode) (cx : Cx) (before : List DNode) (sk : List STree), (∀ k ∈ sk, BelowL k X.top) →
      sk.any (·.sid == n.sid) = true → placedN X n = true → lenOkN n = true →
      ((finalNode X o cx before n).2.errs = [] ↔ finOkN X o n)
  | .term .., _, _, _, _, _, _, _ => by simp [finalNode, finOkN]
  | .inner s f m ks, cx, before, sk, hsk, hany, hp, hlen => by
    obtain ⟨k, hk, hks⟩ := List.any_eq_true.1 hany
    have hks' : k.sid = s := by simpa [DNode.sid] using hks
    have hkb : BelowL k X.top := hsk k hk
    have hkids : X.kidsOf (some s) = k.kids := by rw [← hks']; exact hl k hkb
    have hsk' : ∀ k' ∈ k.kids, BelowL k' X.top := fun k' hk' => BelowL.kid_of_below hkb hk'
    unfold placedN at hp
    unfold lenOkN at hlen
    simp only [Bool.and_eq_true, decide_eq_true_eq] at hlen
    unfold finalNode finOkN
    dsimp only
    rw [Out.append_errs, List.append_eq_nil_iff]
    have hlev := levelChecks_nil_iff X o (cx.descend X.base before (DNode.inner s f m ks)) hop hu ks hlen.1
      (by show ∀ k' ∈ X.kidsOf (some s), _; rw [hkids]; exact fun k' hk' => hps k' (hsk' k' hk'))
    have hcp : (cx.descend X.base before (DNode.inner s f m ks)).parent = some s := rfl
    rw [hcp] at hlev
    rw [hlev, finalKids_errs X o hop hu hl hps ks _ [] k.kids hsk' (by rw [← hkids]; exact hp) hlen.2]
theorem finalKids_errs (X : SchemaX) (o : VOpts) (hop : o.operational = false) (hu : X.uniques = []) (hl : KidsLookupOk X)
    (hps : PlainSane X) : ∀ (ns : List DNode) (cx : Cx) (before : List DNode) (sk : List STree), (∀ k ∈ sk, BelowL k X.top) →
      placedL X sk ns = true → lenOkL ns = true →
      ((finalKids X o cx before ns).2.errs = [] ↔ finOkL X o ns)
  | [], _, _, _, _, _, _ => by simp [finalKids, finOkL]
  | n :: ns, cx, before, sk, hsk, hp, hlen => by
    unfold placedL at hp
    unfold lenOkL at hlen
    simp only [Bool.and_eq_true] at hp hlen
    unfold finalKids finOkL
    dsimp only
    rw [Out.append_errs, List.append_eq_nil_iff,
      finalNode_errs X o hop hu hl hps n cx before sk hsk hp.1.1 hp.1.2 hlen.1,
      finalKids_errs X o hop hu hl hps ns cx _ sk hsk hp.2 hlen.2]
end


/-! ## clearing `LYD_NEW` changes none of this -/

theorem clrN_sid (n : DNode) : (clrN n).sid = n.sid := by cases n <;> rfl
theorem clrN_kids (n : DNode) : (clrN n).kids = clrL n.kids := by cases n <;> rfl

theorem instsOf_clrL_length (l : List DNode) (sid : Nat) : (instsOf (clrL l) sid).length = (instsOf l sid).length := by
  unfold instsOf
  induction l with
  | nil => rfl
  | cons x xs ih =>
    simp only [clrL, List.filter_cons, clrN_sid]
    split <;> simp [ih]

theorem hasInst_clrL (l : List DNode) (sid : Nat) : hasInst (clrL l) sid = hasInst l sid := by
  unfold hasInst
  induction l with
  | nil => rfl
  | cons x xs ih => simp only [clrL, List.any_cons, clrN_sid, ih]

theorem forall_clrL_sid (P : Nat → Prop) (l : List DNode) : (∀ n ∈ clrL l, P n.sid) ↔ ∀ n ∈ l, P n.sid := by
  induction l with
  | nil => simp [clrL]
  | cons x xs ih => simp only [clrL, List.mem_cons, forall_eq_or_imp, clrN_sid, ih]

theorem levelOk_clrL (X : SchemaX) (o : VOpts) (sk : List STree) (l : List DNode) : levelOk X o sk (clrL l) ↔ levelOk X o sk l := by
  unfold levelOk nodeOk
  simp only [instsOf_clrL_length, hasInst_clrL]
  rw [forall_clrL_sid (fun sid => X.base.config sid = true)]

mutual
theorem finOkN_clr (X : SchemaX) (o : VOpts) : ∀ (n : DNode), finOkN X o (clrN n) ↔ finOkN X o n
  | .term .. => by simp [clrN, finOkN]
  | .inner s f m ks => by
    unfold clrN finOkN
    rw [levelOk_clrL, finOkL_clr X o ks]
theorem finOkL_clr (X : SchemaX) (o : VOpts) : ∀ (ns : List DNode), finOkL X o (clrL ns) ↔ finOkL X o ns
  | [] => by simp [clrL, finOkL]
  | n :: ns => by
    unfold clrL finOkL
    rw [finOkN_clr X o n, finOkL_clr X o ns]
end

mutual
theorem placedN_clr (X : SchemaX) : ∀ (n : DNode), placedN X (clrN n) = placedN X n
  | .term .. => by simp [clrN, placedN]
  | .inner s f m ks => by
    unfold clrN placedN
    exact placedL_clr X _ ks
theorem placedL_clr (X : SchemaX) (sk : List STree) : ∀ (ns : List DNode), placedL X sk (clrL ns) = placedL X sk ns
  | [] => by simp [clrL, placedL]
  | n :: ns => by
    unfold clrL placedL
    rw [clrN_sid, placedN_clr X n, placedL_clr X sk ns]
end

theorem clrL_length : ∀ (l : List DNode), (clrL l).length = l.length
  | [] => rfl
  | _ :: xs => by simp [clrL, clrL_length xs]

mutual
theorem lenOkN_clr : ∀ (n : DNode), lenOkN (clrN n) = lenOkN n
  | .term .. => by simp [clrN, lenOkN]
  | .inner s f m ks => by
    unfold clrN lenOkN
    rw [clrL_length, lenOkL_clr ks]
theorem lenOkL_clr : ∀ (ns : List DNode), lenOkL (clrL ns) = lenOkL ns
  | [] => by simp [clrL, lenOkL]
  | n :: ns => by
    unfold clrL lenOkL
    rw [lenOkN_clr n, lenOkL_clr ns]
end

/-! ## the whole of `lyd_validate` on a fresh tree over a plain schema -/

/-- what the model checks, on the input tree -/
def modelOk (X : SchemaX) (o : VOpts) (t : List DNode) : Prop :=
  NoPair X.base t ∧ dupDeepL X.base t ∧ levelOk X o X.top t ∧ finOkL X o t

theorem VResult_errs_eq (X : SchemaX) (o : VOpts) (t : List DNode) (h : (o.present && t.isEmpty) = false) :
    (validate X o t).errs = ((validateNew X o {} t).2 ++ (implL X o {} X.top (validateNew X o {} t).1).2 ++
      (subtreeKids X o (walkFuel X t) {} [] (implL X o {} X.top (validateNew X o {} t).1).1).2 ++
      (finalR X o {} (subtreeKids X o (walkFuel X t) {} [] (implL X o {} X.top (validateNew X o {} t).1).1).1).2).errs := by
  unfold validate
  simp only [h, Bool.false_eq_true, if_false]
  rfl

theorem validate_errs_iff (X : SchemaX) (o : VOpts) (hop : o.operational = false) (hu : X.uniques = []) (hl : KidsLookupOk X)
    (hps : PlainSane X) (t : List DNode) (hp : placedL X X.top t = true) (hh : sheightL X.top ≤ walkFuel X t)
    (hfr : isFreshL t = true) (hlen : lenOkL t = true) (hlen0 : t.length ≤ uint32Max) (hpe : (o.present && t.isEmpty) = false) :
    (validate X o t).errs = [] ↔ modelOk X o t := by
  rw [VResult_errs_eq X o t hpe]
  have hpl : PlainX X := fun k hk => (hps k hk).1
  have htop : ∀ k ∈ X.top, plainNode k = true := fun k hk => hpl k (BelowL.of_mem hk)
  have hnct : noChoiceTop X.top = true := noChoiceTop_plain _ htop
  obtain ⟨hv1, hv2, _⟩ := validateNew_fresh X o {} hop t hnct hfr
  generalize (validateNew X o {} t) = r1 at hv1 hv2 ⊢
  rw [implL_noChoice X o _ _ _ hnct, implNodes_of_done X.base o _ _ _ (implDone_plain o X.top r1.1 htop)]
  dsimp only
  rw [hv1]
  have hall := (isFreshL_all t).1 hfr
  have hpall := (placedL_all X X.top t).1 hp
  have helem : ∀ b, ∀ x ∈ t.map normNew,
      (subtreeNode X o (walkFuel X t) {} b x).1 = x.setKids (clrL x.kids) ∧
      ((subtreeNode X o (walkFuel X t) {} b x).2.errs = [] ↔ dupDeepN X.base x) ∧
      ∀ e ∈ (subtreeNode X o (walkFuel X t) {} b x).2.errs, e.kind = .dup := by
    intro b x hx
    obtain ⟨y, hy, hxy⟩ := List.mem_map.1 hx
    subst hxy
    exact subtree_fresh X o hop hl hpl _ {} b (normNew y) X.top (fun k hk => BelowL.of_mem hk) (by simpa using (hpall y hy).1)
      (by rw [placedN_normNew]; exact (hpall y hy).2) hh (by rw [normNew_kids]; exact isFreshN_kids (hall y hy))
  have htree : (subtreeKids X o (walkFuel X t) {} [] (t.map normNew)).1 = clrL t := by
    unfold subtreeKids
    rw [walkList_map _ (fun x => x.setKids (clrL x.kids)) _ [] (fun b x hx => (helem b x hx).1), clrL_eq_map, List.map_map]
    apply List.map_congr_left
    intro y hy
    exact normNew_setKids_fresh (hall y hy)
  have hwerr : (subtreeKids X o (walkFuel X t) {} [] (t.map normNew)).2.errs = [] ↔ dupDeepL X.base t := by
    unfold subtreeKids
    rw [walkList_errs _ (dupDeepN X.base) _ [] (fun b x hx => (helem b x hx).2.1), dupDeepL_all]
    constructor
    · intro h y hy; exact (dupDeepN_normNew X.base y).1 (h (normNew y) (List.mem_map_of_mem hy))
    · intro h x hx
      obtain ⟨y, hy, hxy⟩ := List.mem_map.1 hx
      subst hxy
      exact (dupDeepN_normNew X.base y).2 (h y hy)
  rw [htree]
  simp only [Out.append_errs, Out.empty_errs, List.append_nil, List.append_eq_nil_iff, hv2, hwerr]
  -- the final phase
  unfold finalR
  dsimp only
  rw [Out.append_errs, List.append_eq_nil_iff,
    levelChecks_nil_iff X o {} hop hu (clrL t) (by rw [clrL_length]; exact hlen0)
      (by show ∀ k ∈ X.top, _; exact fun k hk => hps k (BelowL.of_mem hk)),
    finalKids_errs X o hop hu hl hps (clrL t) {} [] X.top (fun k hk => BelowL.of_mem hk) (by rw [placedL_clr]; exact hp)
      (by rw [lenOkL_clr]; exact hlen)]
  have hk0 : X.kidsOf ({} : Cx).parent = X.top := rfl
  rw [hk0, levelOk_clrL, finOkL_clr]
  unfold modelOk
  constructor
  · rintro ⟨⟨h1, h2⟩, h3, h4⟩; exact ⟨h1, h2, h3, h4⟩
  · rintro ⟨h1, h2, h3, h4⟩; exact ⟨⟨h1, h2⟩, h3, h4⟩

end LyModel.Valid
