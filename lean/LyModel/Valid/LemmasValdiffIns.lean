import LyModel.Valid.ValApply
/-!
# Lemmas for C07 `valdiff_exact`, part 1: `lyd_insert_node` as "insert in front of the first sibling that …", the commutation of two
insertions of different schema nodes, and why applying a change set sorted by schema node gives what the events gave in their order
-/
namespace LyModel.Valid
open LyModel LyModel.Tree

/-- insert `n` in front of the first element satisfying `P`, else last -/
def insB (P : DNode → Bool) (n : DNode) : List DNode → List DNode
  | [] => [n]
  | x :: xs => if P x then n :: x :: xs else x :: insB P n xs

theorem insB_congr {P Q : DNode → Bool} (n : DNode) : ∀ (l : List DNode), (∀ x ∈ l, P x = Q x) → insB P n l = insB Q n l
  | [], _ => rfl
  | x :: xs, h => by
    simp only [insB, h x (List.mem_cons_self ..)]
    rw [insB_congr n xs (fun y hy => h y (List.mem_cons_of_mem _ hy))]

/-- the place `lyd_insert_node` looks for: the first sibling of a later schema node, or — among the instances of a sorted schema
node — the first greater instance -/
def insPred (S : Schema) (n : DNode) (x : DNode) : Bool :=
  (S.isSorted n.sid && x.sid == n.sid && cmpInst S n x == .lt) || decide (n.sid < x.sid)

theorem insertBySchema_eq_insB (n : DNode) : ∀ l, insertBySchema n l = insB (fun x => decide (n.sid < x.sid)) n l
  | [] => rfl
  | x :: xs => by
    simp only [insertBySchema, insB, decide_eq_true_eq]
    rw [insertBySchema_eq_insB n xs]

theorem insertSorted_eq_insB (S : Schema) (n : DNode) :
    ∀ l, insertSorted S n l = insB (fun x => (x.sid == n.sid && cmpInst S n x == .lt) || decide (n.sid < x.sid)) n l
  | [] => rfl
  | x :: xs => by
    simp only [insertSorted, insB]
    rw [insertSorted_eq_insB S n xs]
    by_cases h1 : (x.sid == n.sid && cmpInst S n x == .lt) = true
    · simp [h1]
    · by_cases h2 : n.sid < x.sid
      · simp [h1, h2]
      · simp [h1, h2]

theorem insertNode_eq_insB (S : Schema) (l : List DNode) (n : DNode) : insertNode S l n = insB (insPred S n) n l := by
  unfold insertNode
  by_cases hs : S.isSorted n.sid = true
  · by_cases ha : (l.any fun x => x.sid == n.sid) = true
    · simp only [hs, ha, Bool.and_self, if_true]
      rw [insertSorted_eq_insB]
      apply insB_congr
      intro x _
      simp [insPred, hs]
    · simp only [hs, ha, Bool.and_false, Bool.false_eq_true, if_false]
      rw [insertBySchema_eq_insB]
      apply insB_congr
      intro x hx
      have : (x.sid == n.sid) = false := by
        simp only [List.any_eq_true, not_exists, not_and, Bool.not_eq_true] at ha
        exact ha x hx
      simp [insPred, this]
  · simp only [hs, Bool.false_and, Bool.false_eq_true, if_false]
    rw [insertBySchema_eq_insB]
    apply insB_congr
    intro x _
    simp [insPred, hs]

/-- two insertions commute when each node goes to a definite side of the other and the places are consistent -/
theorem insB_comm {Pa Pb : DNode → Bool} (a b : DNode) (h1 : Pb a = !Pa b)
    (h2 : ∀ x, Pa x = true → Pb x = false → Pb a = false) (h3 : ∀ x, Pb x = true → Pa x = false → Pa b = false) :
    ∀ l, insB Pb b (insB Pa a l) = insB Pa a (insB Pb b l)
  | [] => by
    simp only [insB]
    cases hab : Pa b <;> simp [h1, hab]
  | x :: xs => by
    simp only [insB]
    cases hax : Pa x <;> cases hbx : Pb x
    · simp only [Bool.false_eq_true, if_false, insB, hax, hbx]
      rw [insB_comm a b h1 h2 h3 xs]
    · have := h3 x hbx hax
      simp [insB, hax, hbx, this]
    · have := h2 x hax hbx
      simp [insB, hax, hbx, this]
    · cases hab : Pa b <;> simp [insB, hax, hbx, h1, hab]

theorem insertNode_comm (S : Schema) (a b : DNode) (hne : a.sid ≠ b.sid) (l : List DNode) :
    insertNode S (insertNode S l a) b = insertNode S (insertNode S l b) a := by
  simp only [insertNode_eq_insB]
  have hab : (b.sid == a.sid) = false := by simpa using fun h => hne h.symm
  have hba : (a.sid == b.sid) = false := by simpa using hne
  apply insB_comm
  · simp only [insPred, hab, hba, Bool.and_false, Bool.false_and, Bool.false_or]
    by_cases h : a.sid < b.sid
    · have : ¬ b.sid < a.sid := by omega
      simp [h, this]
    · have : b.sid < a.sid := by omega
      simp [h, this]
  · intro x hax hbx
    simp only [insPred, hba, Bool.and_false, Bool.false_and, Bool.false_or, decide_eq_false_iff_not]
    simp only [insPred, Bool.or_eq_true, Bool.and_eq_true, beq_iff_eq, decide_eq_true_eq] at hax
    simp only [insPred, Bool.or_eq_false_iff, decide_eq_false_iff_not] at hbx
    rcases hax with h | h <;> omega
  · intro x hbx hax
    simp only [insPred, hab, Bool.and_false, Bool.false_and, Bool.false_or, decide_eq_false_iff_not]
    simp only [insPred, Bool.or_eq_true, Bool.and_eq_true, beq_iff_eq, decide_eq_true_eq] at hbx
    simp only [insPred, Bool.or_eq_false_iff, decide_eq_false_iff_not] at hax
    rcases hbx with h | h <;> omega

/-! ## applying in schema order what happened in event order -/

/-- linking `n` first and then nodes of later schema nodes gives the same as linking `n` last -/
theorem foldl_insertNode_late (S : Schema) (n : DNode) : ∀ (A T : List DNode), (∀ x ∈ A, n.sid < x.sid) →
    A.foldl (insertNode S) (insertNode S T n) = insertNode S (A.foldl (insertNode S) T) n
  | [], _, _ => rfl
  | x :: xs, T, h => by
    simp only [List.foldl_cons]
    have hx := h x (List.mem_cons_self ..)
    rw [insertNode_comm S n x (by omega) T]
    exact foldl_insertNode_late S n xs (insertNode S T x) (fun y hy => h y (List.mem_cons_of_mem _ hy))

def SidSorted (A : List DNode) : Prop := A.Pairwise (fun x y => x.sid ≤ y.sid)

theorem mem_insertBySchema' (n : DNode) : ∀ (l : List DNode) (x : DNode), x ∈ insertBySchema n l ↔ x = n ∨ x ∈ l
  | [], x => by simp [insertBySchema]
  | y :: ys, x => by
    simp only [insertBySchema]
    split
    · simp
    · simp only [List.mem_cons, mem_insertBySchema' n ys x]
      constructor
      · rintro (h | h | h)
        · exact Or.inr (Or.inl h)
        · exact Or.inl h
        · exact Or.inr (Or.inr h)
      · rintro (h | h | h)
        · exact Or.inr (Or.inl h)
        · exact Or.inl h
        · exact Or.inr (Or.inr h)

theorem sidSorted_insertBySchema (n : DNode) : ∀ A, SidSorted A → SidSorted (insertBySchema n A)
  | [], _ => by simp [insertBySchema, SidSorted]
  | x :: xs, h => by
    simp only [SidSorted, List.pairwise_cons] at h
    simp only [insertBySchema]
    split
    · rename_i hlt
      simp only [SidSorted, List.pairwise_cons, List.mem_cons]
      refine ⟨?_, h.1, h.2⟩
      rintro y (rfl | hy)
      · omega
      · have := h.1 y hy; omega
    · rename_i hlt
      simp only [SidSorted, List.pairwise_cons]
      refine ⟨?_, sidSorted_insertBySchema n xs h.2⟩
      intro y hy
      rcases (mem_insertBySchema' n xs y).1 hy with rfl | hy
      · omega
      · exact h.1 y hy

/-- a sorted change set with `n` merged in, applied = the change set applied, then `n` -/
theorem foldl_insertNode_insertBySchema (S : Schema) (n : DNode) : ∀ (A T : List DNode), SidSorted A →
    (insertBySchema n A).foldl (insertNode S) T = insertNode S (A.foldl (insertNode S) T) n
  | [], _, _ => rfl
  | x :: xs, T, h => by
    simp only [SidSorted, List.pairwise_cons] at h
    simp only [insertBySchema]
    split
    · rename_i hlt
      simp only [List.foldl_cons]
      have := foldl_insertNode_late S n (x :: xs) T (by
        intro y hy
        rcases List.mem_cons.1 hy with rfl | hy
        · exact hlt
        · have := h.1 y hy; omega)
      simpa only [List.foldl_cons] using this
    · simp only [List.foldl_cons]
      exact foldl_insertNode_insertBySchema S n xs (insertNode S T x) h.2

/-- the nodes sorted into a change set one by one (`lyd_diff_merge_all` adding a new top-level node each time) -/
def sortIns (N : List DNode) : List DNode := N.foldl (fun A n => insertBySchema n A) []

theorem foldl_insertNode_sortFrom (S : Schema) : ∀ (N A T : List DNode), SidSorted A →
    (N.foldl (fun A n => insertBySchema n A) A).foldl (insertNode S) T = N.foldl (insertNode S) (A.foldl (insertNode S) T)
  | [], _, _, _ => rfl
  | n :: ns, A, T, h => by
    simp only [List.foldl_cons]
    rw [foldl_insertNode_sortFrom S ns (insertBySchema n A) T (sidSorted_insertBySchema n A h),
      foldl_insertNode_insertBySchema S n A T h]

/-- **applying the sorted change set = replaying the events in their order** -/
theorem foldl_insertNode_sortIns (S : Schema) (T : List DNode) (N : List DNode) :
    (sortIns N).foldl (insertNode S) T = N.foldl (insertNode S) T := by
  unfold sortIns
  rw [foldl_insertNode_sortFrom S N [] T (by simp [SidSorted])]
  rfl

end LyModel.Valid
