import LyModel.Valid.Implicit
import LyModel.Generated.Consts
/-!
# with-defaults: `lyd_node_should_print` (out.c) and what the XML printer writes under every `LYD_PRINT_WD_*` mode

`shouldPrint` mirrors the C branch by branch (option bits from `LyModel.Generated.Consts`).  `printed` is the node set the
printers emit (a node is written iff `shouldPrint`, children likewise) in the form the check observes it: the printed
document parsed back with `LYD_PARSE_ONLY` — a terminal node is flagged default iff it carried the
`ietf-netconf-with-defaults:default="true"` attribute, a non-presence container iff everything below it is.
Core Lean only.
-/
namespace LyModel.Valid
open LyModel LyModel.Tree
open LyModel.Generated (LYD_PRINT_KEEPEMPTYCONT LYD_PRINT_WD_MASK LYD_PRINT_WD_TRIM LYD_PRINT_WD_ALL_TAG LYD_PRINT_WD_IMPL_TAG)

structure POpts where
  trim : Bool
  keepEmpty : Bool
  explicit : Bool          -- `!(options & LYD_PRINT_WD_MASK)`
  allTag : Bool
  implTag : Bool
  deriving Repr, BEq, DecidableEq

def POpts.ofNat (n : Nat) : POpts :=
  { trim := hasBit n LYD_PRINT_WD_TRIM, keepEmpty := hasBit n LYD_PRINT_KEEPEMPTYCONT,
    explicit := n / 16 % 16 == 0 && LYD_PRINT_WD_MASK == 240,
    allTag := hasBit n LYD_PRINT_WD_ALL_TAG, implTag := hasBit n LYD_PRINT_WD_IMPL_TAG }

mutual
/-- `lyd_node_should_print(node, options)` -/
def shouldPrint (S : Schema) (p : POpts) : DNode → Bool
  | .term s f m v =>
    if p.trim then
      -- do not print default nodes: implicit ones, and explicit ones with the default value
      if f.dflt then false else !isDefault S (.term s f m v)
    else if f.dflt && p.explicit && S.config s then false      -- LYD_PRINT_WD_EXPLICIT: implicit configuration node
    else true
  | .inner s f _ ks =>
    if p.trim then
      if f.dflt then false
      else if S.isNpCont s then p.keepEmpty || anyPrint S p ks
      else true
    else if f.dflt && S.isKind s .container then p.keepEmpty || anyDescPrint S p ks
    else true
/-- some child is printed (the `LY_LIST_FOR(lyd_child(node), elem)` loop of the trim branch) -/
def anyPrint (S : Schema) (p : POpts) : List DNode → Bool
  | [] => false
  | k :: ks => shouldPrint S p k || anyPrint S p ks
/-- some descendant at any depth is printed (the `LYD_TREE_DFS` of the default-container branch) -/
def anyDescPrint (S : Schema) (p : POpts) : List DNode → Bool
  | [] => false
  | .term s f m v :: ks => shouldPrint S p (.term s f m v) || anyDescPrint S p ks
  | .inner s f m kk :: ks => shouldPrint S p (.inner s f m kk) || anyDescPrint S p kk || anyDescPrint S p ks
end

/-- is the `default="true"` attribute written on a terminal node? (`xml_print_meta` / `json_print_attributes`) -/
def tagged (S : Schema) (p : POpts) (n : DNode) : Bool :=
  n.isTerm && ((n.flags.dflt && (p.allTag || p.implTag)) || (p.allTag && isDefault S n))

mutual
/-- the printed node, as the parser reads it back -/
def printedNode (S : Schema) (p : POpts) : DNode → Option DNode
  | .term s f m v =>
    if shouldPrint S p (.term s f m v) then some (.term s { dflt := tagged S p (.term s f m v) } [] v) else none
  | .inner s f m ks =>
    if shouldPrint S p (.inner s f m ks) then
      let ks' := printedL S p ks
      some (.inner s { dflt := S.isNpCont s && ks'.all (·.flags.dflt) } [] ks')
    else none
def printedL (S : Schema) (p : POpts) : List DNode → List DNode
  | [] => []
  | n :: ns => match printedNode S p n with
    | some n' => n' :: printedL S p ns
    | none => printedL S p ns
end

end LyModel.Valid
