import LyModel.Valid.New
/-!
# `lyd_new_implicit` (tree_data_new.c) and `lyd_is_default` (tree_data_common.c)

`implL` is one call of `lyd_new_implicit(parent, first, sparent, …)`: the choices of the level first (default case, or the
rest of the case that already has data), then default non-presence containers, leaves and leaf-lists that have no instance.
Created nodes carry `LYD_DEFAULT` only and are linked with `lyd_insert_node(…, LYD_INSERT_NODE_DEFAULT)` = `Tree.insertNode`.
Core Lean only.
-/
namespace LyModel.Valid
open LyModel LyModel.Tree

def dfltFlags : Flags := { dflt := true }

/-- index at which `insertNode` put `n` (first position where the lists differ, else the end) -/
def insertedAt (old new : List DNode) : Nat :=
  match old, new with
  | o :: os, n :: ns => if o.beq n then insertedAt os ns + 1 else 0
  | _, _ => 0

/-- link one implicit node and record its creation -/
def addImplicit (S : Schema) (cx : Cx) (sibs : List DNode) (n : DNode) : List DNode × Out :=
  let sibs' := insertNode S sibs n
  let idx := insertedAt sibs sibs'
  (sibs', Out.ofEvs [{ op := .create, anc := cx.anc, node := n, anchor := userordAnchor S sibs' idx n, src := .implicit }])

/-- all default instances of a leaf-list, in the order of the `default` statements -/
def implLeafList (S : Schema) (cx : Cx) (sid : Nat) : List Bytes → List DNode × Out → List DNode × Out
  | [], acc => acc
  | d :: ds, acc =>
    let r := addImplicit S cx acc.1 (.term sid dfltFlags [] d)
    implLeafList S cx sid ds (r.1, acc.2 ++ r.2)

/-- one non-choice schema node of a level: a default non-presence container, leaf or leaf-list when there is no instance -/
def implNode (S : Schema) (o : VOpts) (cx : Cx) (k : STree) (sibs : List DNode) : List DNode × Out :=
  let i := k.info
  if i.kind == .choice || (o.noState && !i.config) || hasInst sibs k.sid then (sibs, {})
  else
    match i.kind with
    | .container => if i.presence then (sibs, {}) else addImplicit S cx sibs (.inner k.sid dfltFlags [] [])
    | .leaf =>
      match i.dflts with
      | d :: _ => addImplicit S cx sibs (.term k.sid dfltFlags [] d)
      | [] => (sibs, {})
    | .leaflist => implLeafList S cx k.sid i.dflts (sibs, {})
    | _ => (sibs, {})

/-- the non-choice schema nodes of a level -/
def implNodes (S : Schema) (o : VOpts) (cx : Cx) : List STree → List DNode → List DNode × Out
  | [], sibs => (sibs, {})
  | k :: ks, sibs =>
    let r1 := implNode S o cx k sibs
    let r2 := implNodes S o cx ks r1.1
    (r2.1, r1.2 ++ r2.2)

/-- first data instance of a choice: `lys_getnext_data(NULL, first, NULL, choice, NULL)` -/
def firstData (sibs : List DNode) (ds : List Nat) : Option DNode :=
  ds.findSome? fun sid => sibs.find? (·.sid == sid)

mutual
/-- the choices among `ks`, in order -/
def implChoices (X : SchemaX) (o : VOpts) (cx : Cx) : List STree → List DNode → List DNode × Out
  | [], sibs => (sibs, {})
  | k :: rest, sibs =>
    let r1 := implChoice X o cx k sibs
    let r2 := implChoices X o cx rest r1.1
    (r2.1, r1.2 ++ r2.2)
/-- one schema child of the level: a choice gets the default case, or the rest of the case that has data -/
def implChoice (X : SchemaX) (o : VOpts) (cx : Cx) : STree → List DNode → List DNode × Out
  | .mk _ i cases, sibs =>
    if i.kind != .choice || (o.noState && !i.config) then (sibs, {})
    else
      match firstData sibs (dataSidsL cases) with
      | none =>
        match i.dfltCase with
        | some nm => implCaseNamed X o cx nm cases sibs          -- create default case data
        | none => (sibs, {})
      | some node =>
        -- create any default data in the existing case
        if X.q.implicitInnerCase then
          -- defective code (F180): the DIRECT schema parent of the node that was found, which is an inner case when that
          -- node sits in a nested choice
          match sparent X.base node.sid with
          | some target => implInto X o cx target cases sibs
          | none => (sibs, {})
        else
          -- the case of THIS choice that holds the node
          implCaseHolding X o cx node.sid cases sibs
/-- `lyd_new_implicit(…, sparent = case, …)`: its choices first, then its other nodes -/
def implCase (X : SchemaX) (o : VOpts) (cx : Cx) : STree → List DNode → List DNode × Out
  | .mk _ _ ks, sibs =>
    let r1 := implChoices X o cx ks sibs
    let r2 := implNodes X.base o cx ks r1.1
    (r2.1, r1.2 ++ r2.2)
/-- the case called `nm` -/
def implCaseNamed (X : SchemaX) (o : VOpts) (cx : Cx) (nm : String) : List STree → List DNode → List DNode × Out
  | [], sibs => (sibs, {})
  | c :: rest, sibs => if c.info.name == nm then implCase X o cx c sibs else implCaseNamed X o cx nm rest sibs
/-- the case one of whose data nodes (nested choices included) is `sid` -/
def implCaseHolding (X : SchemaX) (o : VOpts) (cx : Cx) (sid : Nat) : List STree → List DNode → List DNode × Out
  | [], sibs => (sibs, {})
  | c :: rest, sibs =>
    if c.dataSids.contains sid then implCase X o cx c sibs else implCaseHolding X o cx sid rest sibs
/-- the case with schema id `target`, looked for among `cases` and inside the choices nested in them -/
def implInto (X : SchemaX) (o : VOpts) (cx : Cx) (target : Nat) : List STree → List DNode → List DNode × Out
  | [], sibs => (sibs, {})
  | c :: rest, sibs =>
    let r1 := if c.sid == target then implCase X o cx c sibs else implIntoCase X o cx target c sibs
    let r2 := implInto X o cx target rest r1.1
    (r2.1, r1.2 ++ r2.2)
def implIntoCase (X : SchemaX) (o : VOpts) (cx : Cx) (target : Nat) : STree → List DNode → List DNode × Out
  | .mk _ _ ks, sibs => implIntoKids X o cx target ks sibs
/-- the choices among the children of a case, searched for the target case -/
def implIntoKids (X : SchemaX) (o : VOpts) (cx : Cx) (target : Nat) : List STree → List DNode → List DNode × Out
  | [], sibs => (sibs, {})
  | k :: rest, sibs =>
    let r1 := implIntoChoice X o cx target k sibs
    let r2 := implIntoKids X o cx target rest r1.1
    (r2.1, r1.2 ++ r2.2)
def implIntoChoice (X : SchemaX) (o : VOpts) (cx : Cx) (target : Nat) : STree → List DNode → List DNode × Out
  | .mk _ i cases, sibs => if i.kind == .choice then implInto X o cx target cases sibs else (sibs, {})
end

/-- `lyd_new_implicit` for the schema children `ks` of the parent / of a case: choices first, then the other nodes -/
def implL (X : SchemaX) (o : VOpts) (cx : Cx) (ks : List STree) (sibs : List DNode) : List DNode × Out :=
  let r1 := implChoices X o cx ks sibs
  let r2 := implNodes X.base o cx ks r1.1
  (r2.1, r1.2 ++ r2.2)

/-- `lyd_is_default(node)`: a leaf equal to its default; a leaf-list instance equal to ANY ONE of the defaults -/
def isDefault (S : Schema) (n : DNode) : Bool :=
  n.isTerm &&
  match S.get? n.sid with
  | some sn =>
    if sn.kind == .leaf then sn.dflts.head? == some n.val
    else if sn.kind == .leaflist then sn.dflts.contains n.val
    else false
  | none => false

end LyModel.Valid
