import LyModel.Tree.DTree
import LyModel.Generated.ValidConsts
/-!
# Schema family S1x of component `valid` (C02, C07): the shared S1 table plus what validation needs

* a **tree view** of the flat pre-order table (`STree`: node, its statement fields, its schema children — choice and case
  included), so that the validation model recurses structurally over the schema;
* the **extension DSL** (second protocol token, `tools/checks/validgen.py: XSchema.xdsl`), one line per statement:
  `unique <list-sid> <leaf-sid>,<leaf-sid>,…`;
* the traversals of `lys_getnext()` used by `validation.c` / `tree_data_new.c` (`level`, `dataSids`);
* the value spaces of the base types (`typeOk`: canonical form and range).
Core Lean only.
-/
namespace LyModel.Valid
open LyModel LyModel.Tree

instance : LawfulBEq SKind where
  eq_of_beq := by intro a b h; cases a <;> cases b <;> first | rfl | cases h
  rfl := by intro a; cases a <;> rfl

theorem skind_beq_eq_decide (a b : SKind) : (a == b) = decide (a = b) := by cases a <;> cases b <;> rfl

/-- a schema node with its schema children -/
inductive STree where
  | mk (sid : Nat) (info : SNode) (kids : List STree)
  deriving Repr, Inhabited

namespace STree
def sid : STree → Nat | mk s _ _ => s
def info : STree → SNode | mk _ i _ => i
def kids : STree → List STree | mk _ _ k => k
def kind (t : STree) : SKind := t.info.kind
def isChoice (t : STree) : Bool := t.info.kind == .choice
def config (t : STree) : Bool := t.info.config
def isNpCont (t : STree) : Bool := t.info.kind == .container && !t.info.presence
end STree

/-- children at depth `d` from the front of the pre-order table (same shape as `Tree.parseLevel`) -/
def buildLevel : (fuel : Nat) → (d : Nat) → List (Nat × SNode) → List STree × List (Nat × SNode)
  | 0, _, rest => ([], rest)
  | _ + 1, _, [] => ([], [])
  | fuel + 1, d, (i, n) :: rest =>
    if n.depth != d then ([], (i, n) :: rest)
    else
      let (ks, rest1) := buildLevel fuel (d + 1) rest
      let (sibs, rest2) := buildLevel fuel d rest1
      (.mk i n ks :: sibs, rest2)

/-- Which variant of the code is modelled, for the defects this component wrote repairs for (`true` = the defect is there).
`Quirks.current` is what `tools/extractors/valid.py` found in the source tree the check runs against; the property theorems are
stated for `Quirks.fixed` (full strength) with `_fails` witnesses for the defective variants. -/
structure Quirks where
  /-- F175: `lyd_validate_unique` uses a leaf's schema default whatever its ancestors -/
  uniqueDefaultAlways : Bool
  /-- F180: `lyd_new_implicit` completes only the innermost case of the data node it found -/
  implicitInnerCase : Bool
  /-- F188: `lyd_validate_autodel_case_dflt` looks at the innermost case only -/
  autodelDirectCase : Bool
  /-- F178: `lyd_val_diff_add` records the deletion of a user-ordered instance without its original anchor -/
  valDiffNoDeleteAnchor : Bool
  /-- F17: `lyd_is_default` compares a leaf-list instance with any single default -/
  isDefaultAnyOne : Bool
  /-- F179 (b): `lyd_validate_autodel_case_dflt` records the removal of a leftover default non-presence container through its
  children only (`np_cont_diff = 0`), not the container itself -/
  caseDfltNpViaKids : Bool := false
  /-- F321: `lyd_validate_cases` takes default-flagged nodes (a client-given empty non-presence container) for data of a case -/
  casesCountDefault : Bool := false
  deriving Repr, BEq, DecidableEq, Inhabited

def Quirks.current : Quirks :=
  { uniqueDefaultAlways := Generated.uniqueDefaultAlways, implicitInnerCase := Generated.implicitInnerCase,
    autodelDirectCase := Generated.autodelDirectCase, valDiffNoDeleteAnchor := Generated.valDiffNoDeleteAnchor,
    isDefaultAnyOne := Generated.isDefaultAnyOne, caseDfltNpViaKids := Generated.caseDfltNpViaKids,
    casesCountDefault := Generated.casesCountDefault }

def Quirks.fixed : Quirks :=
  { uniqueDefaultAlways := false, implicitInnerCase := false, autodelDirectCase := false, valDiffNoDeleteAnchor := false,
    isDefaultAnyOne := false }

structure SchemaX where
  base : Schema
  top : List STree
  /-- `unique` statements: (list sid, leaf sids), in statement order per list -/
  uniques : List (Nat × List Nat) := []
  q : Quirks := Quirks.current
  deriving Repr, Inhabited

def SchemaX.ofSchema (S : Schema) (uniques : List (Nat × List Nat) := []) : SchemaX :=
  let idx := (List.range S.nodes.length).zip S.nodes
  { base := S, top := (buildLevel (2 * S.nodes.length + 2) 0 idx).1, uniques := uniques }

def parseXLine (line : String) : Option (Nat × List Nat) :=
  match line.splitOn " " with
  | ["unique", l, ls] => do
    let lsid ← l.toNat?
    let leaves ← (ls.splitOn ",").mapM (·.toNat?)
    pure (lsid, leaves)
  | _ => none

/-- the `unique` lines of the extension DSL; the lines of the XPath-dependent statements (`must` / `leafref` / `when <sid> <hex>`,
read by `LyModel/Valid/XpValid.lean: parseXCons`) are skipped here -/
def parseXdsl (b : Bytes) : Option (List (Nat × List Nat)) :=
  if b.isEmpty then some []
  else (((asciiString b).splitOn "\n").filter fun l => !(l.startsWith "must " || l.startsWith "leafref " || l.startsWith "when " || l.startsWith "xpmask ")).mapM parseXLine

def SchemaX.ofHex (dsl xdsl : String) : Option SchemaX := do
  let S ← Schema.ofHex dsl
  let u ← (Hex.dec xdsl).bind parseXdsl
  pure (SchemaX.ofSchema S u)

/-! ## lookups -/
mutual
def STree.find? : STree → Nat → Option STree
  | .mk s i ks, x => if s == x then some (.mk s i ks) else findL? ks x
def findL? : List STree → Nat → Option STree
  | [], _ => none
  | t :: ts, x => match t.find? x with
    | some r => some r
    | none => findL? ts x
end

namespace SchemaX

def node? (X : SchemaX) (sid : Nat) : Option STree := findL? X.top sid

/-- schema children below a data parent (`none` = top level of the module) -/
def kidsOf (X : SchemaX) (parent : Option Nat) : List STree :=
  match parent with
  | none => X.top
  | some p => match X.node? p with
    | some t => t.kids
    | none => []

def uniquesOf (X : SchemaX) (sid : Nat) : List (List Nat) := (X.uniques.filter (·.1 == sid)).map (·.2)

end SchemaX

/-- schema parent of `sid` in the flat table: the nearest preceding node of smaller depth (choice / case included) -/
def sparent (S : Schema) (sid : Nat) : Option Nat :=
  match S.get? sid with
  | none => none
  | some n =>
    let rec go (i : Nat) : Option Nat :=
      match i with
      | 0 => none
      | i + 1 =>
        match S.nodes[i]? with
        | some m => if m.depth < n.depth then some i else go i
        | none => go i
    go sid

/-! ## `lys_getnext` traversals -/
mutual
/-- `lys_getnext(…, parent, …, 0)`: the data nodes below a schema node, choices and cases flattened, in schema order -/
def STree.dataSids : STree → List Nat
  | .mk s i ks => if i.kind == .choice || i.kind == .case then dataSidsL ks else [s]
def dataSidsL : List STree → List Nat
  | [] => []
  | t :: ts => t.dataSids ++ dataSidsL ts
end

/-- the schema nodes `lys_getnext(…, LYS_GETNEXT_WITHCHOICE)` returns for the children `ks` of a data node or of a case:
first all choices, then all other nodes (`lyd_val_getnext_get` stores them in two arrays) -/
def levelChoices (ks : List STree) : List STree := ks.filter (·.isChoice)
def levelNodes (ks : List STree) : List STree := ks.filter (fun k => !k.isChoice)

/-! ## values -/
def isDigit (c : UInt8) : Bool := 48 ≤ c && c ≤ 57

/-- canonical decimal integer: `0` or an optional `-` followed by digits without a leading zero (`-0` excluded) -/
def canonInt (b : Bytes) : Bool :=
  match b with
  | [48] => true
  | 45 :: d :: ds => d != 48 && isDigit d && ds.all isDigit
  | d :: ds => d != 48 && isDigit d && ds.all isDigit
  | [] => false

def intInRange (lo hi : Int) (b : Bytes) : Bool :=
  canonInt b && b.length ≤ 12 && lo ≤ parseIntB b && parseIntB b ≤ hi

/-- value space of the base types, canonical representation (what `lyd_new_term` / the parsers accept *and* keep as is) -/
def typeOk : BaseTy → Bytes → Bool
  | .string, _ => true
  | .int8, v => intInRange (-128) 127 v
  | .uint8, v => intInRange 0 255 v
  | .int32, v => intInRange (-2147483648) 2147483647 v
  | .boolean, v => v == bytesOfString "true" || v == bytesOfString "false"
  | .empty, v => v.isEmpty
  | .enumeration items, v => items.any (fun it => bytesOfString it.1 == v)

end LyModel.Valid
