import LyModel.Valid.LemmasOps
/-!
# The specification on a schema with `config` turned off somewhere (`mapConfig`), without `LYD_VALIDATE_NO_STATE`

`llDupNode` / `llDupL` / `llDupCases` follow the recursion of `specNode` / `specL` / `specCases` and list one `.dup` for every
(leaf-list whose `config` the map turns off, sibling list the specification visits) with a repeated value.  `spec_count`: for every
error kind, its multiplicity in the specification's list on the original schema = its multiplicity on the mapped schema + its
multiplicity in that list; `spec_sublist`: the list of the mapped schema is a sublist of the original one.
-/
namespace LyModel.Valid
open LyModel LyModel.Tree

mutual
def llDupNode (c : SNode → Bool) : STree → List DNode → List EKind
  | .mk s i ks, sibs =>
    let insts := instsOf sibs s
    match i.kind with
    | .leaf => []
    | .leaflist => if i.config && !c i && !pairwiseNe (fun a b : DNode => a.val == b.val) insts then [.dup] else []
    | .container =>
      if i.presence then insts.flatMap (fun e => llDupL c ks e.kids)
      else (if insts.isEmpty then llDupL c ks [] else insts.flatMap (fun e => llDupL c ks e.kids))
    | .list => insts.flatMap (fun e => llDupL c ks e.kids)
    | .choice => llDupCases c ks sibs
    | .case => llDupL c ks sibs
def llDupL (c : SNode → Bool) : List STree → List DNode → List EKind
  | [], _ => []
  | k :: ks, sibs => llDupNode c k sibs ++ llDupL c ks sibs
def llDupCases (c : SNode → Bool) : List STree → List DNode → List EKind
  | [], _ => []
  | cs :: rest, sibs => (if hasData sibs cs.dataSids then llDupNode c cs sibs else []) ++ llDupCases c rest sibs
end

theorem count_flatMap_add {α : Type} (e : EKind) (l : List α) (f g h : α → List EKind)
    (H : ∀ x, (f x).count e = (g x).count e + (h x).count e) :
    (l.flatMap f).count e = (l.flatMap g).count e + (l.flatMap h).count e := by
  induction l with
  | nil => simp
  | cons x xs ih => simp only [List.flatMap_cons, List.count_append, ih, H x]; omega

theorem ll_clause (e : EKind) (cfg ci pw : Bool) (h : ci = true → cfg = true) :
    (if cfg && !pw then [EKind.dup] else []).count e =
      (if ci && !pw then [EKind.dup] else []).count e + (if cfg && !ci && !pw then [EKind.dup] else []).count e := by
  cases cfg <;> cases ci <;> cases pw <;> simp_all

theorem filter_hasData_mapConfig (c : SNode → Bool) (sibs : List DNode) : ∀ ks : List STree,
    ((mapConfigL c ks).filter fun cs => hasData sibs cs.dataSids).length = (ks.filter fun cs => hasData sibs cs.dataSids).length
  | [] => rfl
  | k :: ks => by
    unfold mapConfigL
    simp only [List.filter_cons, STree.mapConfig_dataSids]
    split <;> simp [filter_hasData_mapConfig c sibs ks]

theorem filter_hasData_mapConfig_isEmpty (c : SNode → Bool) (sibs : List DNode) (ks : List STree) :
    ((mapConfigL c ks).filter fun cs => hasData sibs cs.dataSids).isEmpty = (ks.filter fun cs => hasData sibs cs.dataSids).isEmpty := by
  have := filter_hasData_mapConfig c sibs ks
  rw [Bool.eq_iff_iff, List.isEmpty_iff_length_eq_zero, List.isEmpty_iff_length_eq_zero, this]

mutual
theorem specNode_count (X : SchemaX) (o : VOpts) (hns : o.noState = false) (c : SNode → Bool)
    (hc : ∀ i, c i = true → i.config = true) (e : EKind) : ∀ (k : STree) (sibs : List DNode),
    (specNode X o k sibs).count e = (specNode (X.mapConfig c) o (k.mapConfig c) sibs).count e + (llDupNode c k sibs).count e
  | .mk s i ks, sibs => by
    have ihL := specL_count X o hns c hc e ks
    have ihC := specCases_count X o hns c hc e ks
    unfold STree.mapConfig
    generalize hj : setConfig c i = j
    obtain ⟨d, kind, nm, pres, cfg, nk, uo, mn, mx, ty, mand, isk, dfl, dc⟩ := i
    obtain ⟨d', kind', nm', pres', cfg', nk', uo', mn', mx', ty', mand', isk', dfl', dc'⟩ := j
    simp only [setConfig, SNode.mk.injEq] at hj
    obtain ⟨rfl, rfl, rfl, rfl, hcfg, rfl, rfl, rfl, rfl, rfl, rfl, rfl, rfl, rfl⟩ := hj
    unfold specNode llDupNode
    simp only [hns, Bool.false_and, Bool.false_eq_true, if_false, List.nil_append, Bool.not_false,
      Bool.true_and, SchemaX.mapConfig_base, SchemaX.mapConfig_uniquesOf, mapConfigS_keyVals]
    cases kind with
    | leaf => simp
    | leaflist =>
      simp only [List.count_append]
      have := ll_clause e cfg cfg' (pairwiseNe (fun a b : DNode => a.val == b.val) (instsOf sibs s)) (by rw [← hcfg]; exact hc _)
      simp only [hcfg]
      omega
    | container =>
      simp only [List.count_append]
      rcases Bool.eq_false_or_eq_true pres with hp | hp <;> simp only [hp]
      rotate_left
      · by_cases hE : (instsOf sibs s).isEmpty = true
        · simp only [hE, if_true, Bool.false_eq_true, if_false]
          have := ihL []
          omega
        · simp only [hE, Bool.false_eq_true, if_false]
          have := count_flatMap_add e (instsOf sibs s) _ _ _ (fun x => ihL x.kids)
          omega
      · simp only [if_true]
        have := count_flatMap_add e (instsOf sibs s) _ _ _ (fun x => ihL x.kids)
        omega
    | list =>
      simp only [List.count_append]
      have h1 := count_flatMap_add e (instsOf sibs s) _ _ _ (fun x => ihL x.kids)
      have h2 := fun u => uniqueOk_mapConfig c (.mk s ⟨d, .list, nm, pres, cfg, nk, uo, mn, mx, ty, mand, isk, dfl, dc⟩ ks) u (instsOf sibs s)
      unfold STree.mapConfig at h2
      simp only [setConfig, hcfg] at h2
      simp only [h2, keysOk_mapConfig c X.base s ⟨d, .list, nm, pres, cfg, nk, uo, mn, mx, ty, mand, isk, dfl, dc⟩ _ ks]
      omega
    | choice =>
      simp only [List.count_append, filter_hasData_mapConfig, filter_hasData_mapConfig_isEmpty]
      have := ihC sibs
      omega
    | case =>
      have := ihL sibs
      simpa using this
theorem specL_count (X : SchemaX) (o : VOpts) (hns : o.noState = false) (c : SNode → Bool)
    (hc : ∀ i, c i = true → i.config = true) (e : EKind) : ∀ (ks : List STree) (sibs : List DNode),
    (specL X o ks sibs).count e = (specL (X.mapConfig c) o (mapConfigL c ks) sibs).count e + (llDupL c ks sibs).count e
  | [], _ => by simp [specL, mapConfigL, llDupL]
  | k :: ks, sibs => by
    unfold mapConfigL specL llDupL
    simp only [List.count_append, specNode_count X o hns c hc e k sibs, specL_count X o hns c hc e ks sibs]
    omega
theorem specCases_count (X : SchemaX) (o : VOpts) (hns : o.noState = false) (c : SNode → Bool)
    (hc : ∀ i, c i = true → i.config = true) (e : EKind) : ∀ (ks : List STree) (sibs : List DNode),
    (specCases X o ks sibs).count e = (specCases (X.mapConfig c) o (mapConfigL c ks) sibs).count e + (llDupCases c ks sibs).count e
  | [], _ => by simp [specCases, mapConfigL, llDupCases]
  | k :: ks, sibs => by
    unfold mapConfigL specCases llDupCases
    simp only [List.count_append, STree.mapConfig_dataSids, specCases_count X o hns c hc e ks sibs]
    split
    · rw [specNode_count X o hns c hc e k sibs]; omega
    · simp
end

/-! ## sublist -/

theorem sublist_flatMap {α : Type} (l : List α) (f g : α → List EKind) (H : ∀ x, (f x).Sublist (g x)) :
    (l.flatMap f).Sublist (l.flatMap g) := by
  induction l with
  | nil => simp
  | cons x xs ih => simp only [List.flatMap_cons]; exact List.Sublist.append (H x) ih

theorem ll_clause_sublist (cfg ci pw : Bool) (h : ci = true → cfg = true) :
    (if ci && !pw then [EKind.dup] else []).Sublist (if cfg && !pw then [EKind.dup] else []) := by
  cases cfg <;> cases ci <;> cases pw <;> simp_all

mutual
theorem specNode_sublist (X : SchemaX) (o : VOpts) (hns : o.noState = false) (c : SNode → Bool)
    (hc : ∀ i, c i = true → i.config = true) : ∀ (k : STree) (sibs : List DNode),
    (specNode (X.mapConfig c) o (k.mapConfig c) sibs).Sublist (specNode X o k sibs)
  | .mk s i ks, sibs => by
    have ihL := specL_sublist X o hns c hc ks
    have ihC := specCases_sublist X o hns c hc ks
    unfold STree.mapConfig
    generalize hj : setConfig c i = j
    obtain ⟨d, kind, nm, pres, cfg, nk, uo, mn, mx, ty, mand, isk, dfl, dc⟩ := i
    obtain ⟨d', kind', nm', pres', cfg', nk', uo', mn', mx', ty', mand', isk', dfl', dc'⟩ := j
    simp only [setConfig, SNode.mk.injEq] at hj
    obtain ⟨rfl, rfl, rfl, rfl, hcfg, rfl, rfl, rfl, rfl, rfl, rfl, rfl, rfl, rfl⟩ := hj
    unfold specNode
    simp only [hns, Bool.false_and, Bool.false_eq_true, if_false, List.nil_append, Bool.not_false,
      Bool.true_and, SchemaX.mapConfig_base, SchemaX.mapConfig_uniquesOf, mapConfigS_keyVals]
    cases kind with
    | leaf => exact List.Sublist.refl _
    | leaflist =>
      refine List.Sublist.append (List.Sublist.append (List.Sublist.append ?_ (List.Sublist.refl _)) (List.Sublist.refl _)) (List.Sublist.refl _)
      exact ll_clause_sublist cfg cfg' _ (by rw [← hcfg]; exact hc _)
    | container =>
      refine List.Sublist.append (List.Sublist.refl _) ?_
      rcases Bool.eq_false_or_eq_true pres with hp | hp <;> simp only [hp]
      · exact sublist_flatMap _ _ _ (fun x => ihL x.kids)
      · by_cases hE : (instsOf sibs s).isEmpty = true
        · simp only [hE, if_true, Bool.false_eq_true, if_false]; exact ihL []
        · simp only [hE, Bool.false_eq_true, if_false]; exact sublist_flatMap _ _ _ (fun x => ihL x.kids)
    | list =>
      have h2 := fun u => uniqueOk_mapConfig c (.mk s ⟨d, .list, nm, pres, cfg, nk, uo, mn, mx, ty, mand, isk, dfl, dc⟩ ks) u (instsOf sibs s)
      unfold STree.mapConfig at h2
      simp only [setConfig, hcfg] at h2
      simp only [h2, keysOk_mapConfig c X.base s ⟨d, .list, nm, pres, cfg, nk, uo, mn, mx, ty, mand, isk, dfl, dc⟩ _ ks]
      exact List.Sublist.append (List.Sublist.refl _) (sublist_flatMap _ _ _ (fun x => ihL x.kids))
    | choice =>
      simp only [filter_hasData_mapConfig, filter_hasData_mapConfig_isEmpty]
      exact List.Sublist.append (List.Sublist.refl _) (ihC sibs)
    | case => exact ihL sibs
theorem specL_sublist (X : SchemaX) (o : VOpts) (hns : o.noState = false) (c : SNode → Bool)
    (hc : ∀ i, c i = true → i.config = true) : ∀ (ks : List STree) (sibs : List DNode),
    (specL (X.mapConfig c) o (mapConfigL c ks) sibs).Sublist (specL X o ks sibs)
  | [], _ => by simp [specL, mapConfigL]
  | k :: ks, sibs => by
    unfold mapConfigL specL
    exact List.Sublist.append (specNode_sublist X o hns c hc k sibs) (specL_sublist X o hns c hc ks sibs)
theorem specCases_sublist (X : SchemaX) (o : VOpts) (hns : o.noState = false) (c : SNode → Bool)
    (hc : ∀ i, c i = true → i.config = true) : ∀ (ks : List STree) (sibs : List DNode),
    (specCases (X.mapConfig c) o (mapConfigL c ks) sibs).Sublist (specCases X o ks sibs)
  | [], _ => by simp [specCases, mapConfigL]
  | k :: ks, sibs => by
    unfold mapConfigL specCases
    simp only [STree.mapConfig_dataSids]
    refine List.Sublist.append ?_ (specCases_sublist X o hns c hc ks sibs)
    split
    · exact specNode_sublist X o hns c hc k sibs
    · exact List.Sublist.refl _
end

/-! ## the list of relaxed duplicates holds nothing but `.dup` -/

theorem mem_flatMap_all {α : Type} (P : EKind → Prop) (l : List α) (f : α → List EKind) (H : ∀ x, ∀ e ∈ f x, P e) :
    ∀ e ∈ l.flatMap f, P e := by
  intro e he
  obtain ⟨x, _, hx⟩ := List.mem_flatMap.1 he
  exact H x e hx

mutual
theorem llDupNode_only_dup (c : SNode → Bool) : ∀ (k : STree) (sibs : List DNode), ∀ e ∈ llDupNode c k sibs, e = .dup
  | .mk s i ks, sibs => by
    have ihL := llDupL_only_dup c ks
    have ihC := llDupCases_only_dup c ks
    unfold llDupNode
    cases i.kind with
    | leaf => simp
    | leaflist =>
      simp only
      split <;> simp
    | container =>
      simp only
      split
      · exact mem_flatMap_all _ _ _ (fun x => ihL x.kids)
      · split
        · exact ihL []
        · exact mem_flatMap_all _ _ _ (fun x => ihL x.kids)
    | list => exact mem_flatMap_all _ _ _ (fun x => ihL x.kids)
    | choice => exact ihC sibs
    | case => exact ihL sibs
theorem llDupL_only_dup (c : SNode → Bool) : ∀ (ks : List STree) (sibs : List DNode), ∀ e ∈ llDupL c ks sibs, e = .dup
  | [], _ => by simp [llDupL]
  | k :: ks, sibs => by
    unfold llDupL
    intro e he
    rcases List.mem_append.1 he with h | h
    · exact llDupNode_only_dup c k sibs e h
    · exact llDupL_only_dup c ks sibs e h
theorem llDupCases_only_dup (c : SNode → Bool) : ∀ (ks : List STree) (sibs : List DNode), ∀ e ∈ llDupCases c ks sibs, e = .dup
  | [], _ => by simp [llDupCases]
  | k :: ks, sibs => by
    unfold llDupCases
    intro e he
    rcases List.mem_append.1 he with h | h
    · split at h
      · exact llDupNode_only_dup c k sibs e h
      · cases h
    · exact llDupCases_only_dup c ks sibs e h
end

end LyModel.Valid
