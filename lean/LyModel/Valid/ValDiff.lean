import LyModel.Valid.Model
import LyModel.Diff.Apply
/-!
# The change set a validation returns: `lyd_val_diff_add` (validation.c) on top of the `diff` component's model

Every change event becomes a one-branch diff tree (`lyd_diff_add` into an empty diff: the node copied with
`LYD_DUP_RECURSIVE | LYD_DUP_NO_META | LYD_DUP_WITH_PARENTS | LYD_DUP_WITH_FLAGS`, `yang:operation` on the node, `none` on
the outermost copied parent, the user-ordered anchor of a create) that is merged into the diff collected so far with
`lyd_diff_merge_all(diff, new_diff, 0)` (`mergeR` = `lyd_diff_merge_r` for the operation pairs validation can produce:
none / create / delete).  A pair the C refuses (`LOGERR_MERGEOP`, missing anchor metadata) makes the model give up on the
diff of that validation (`none`): most callers in validation.c ignore that return value, so the C goes on with a diff
that lacks the change.
Core Lean only.
-/
namespace LyModel.Valid
open LyModel LyModel.Tree LyModel.Diff

def evOp : EvOp → Op
  | .create => .create | .delete => .delete

/-- the one-branch diff of one event -/
def evChain (S : Schema) (e : Ev) : DNode :=
  let leafD := dupRec e.node
  let leafD := addMeta leafD "operation" (Diff.bs (evOp e.op).str)
  -- a create carries yang:key / value / position, a delete (repaired code, F178) yang:orig-key / orig-value / orig-position
  let leafD := match e.anchor with
    | some (k, v) => addMeta leafD (if e.op == .delete then "orig-" ++ k else k) v
    | none => leafD
  -- wrap into the copied parents, innermost first; the outermost one gets `none`
  let rec wrap : List DNode → DNode → DNode
    | [], d => d
    | p :: ps, d =>
      let inner := wrap ps d
      match dupShallow S p with
      | .inner s f m ks => .inner s { f with dflt := f.dflt && inner.flags.dflt } m (ks ++ [inner])
      | t => t
  match e.anc with
  | [] => leafD
  | _ :: _ =>
    let t := wrap e.anc leafD
    addMeta t "operation" (Diff.bs "none")

def opOfD (n : DNode) (inh : Op) : Op := ((getMeta n "operation").bind Op.ofBytes).getD inh

/-- `lyd_diff_change_op`: the previous operation is deleted, the new one appended -/
def setOp (n : DNode) (op : Op) : DNode :=
  addMeta (n.setMetas (eraseMeta "operation" n.metas)) "operation" (Diff.bs op.str)

def findMatchM (S : Schema) (sibs : List DNode) (src : DNode) : Option Nat :=
  if S.isKind src.sid .list || S.isKind src.sid .leaflist then
    findIdxFrom (fun x _ => x.sid == src.sid && instMatch S src x) sibs 0
  else findIdxFrom (fun x _ => x.sid == src.sid) sibs 0

/-- `lyd_diff_is_redundant` for the operations at hand -/
def redundant (S : Schema) (d : DNode) (op : Op) : Bool :=
  let noChild := S.isDupInst d.sid || (noKeys S d.kids).isEmpty
  if op == .replace && S.isUserOrd d.sid then
    let nm := anchorMetaName S d.sid
    -- a move to where the node already is (its metadata are dropped; with children it becomes `none`, which `mergeR` does not
    -- produce for validation diffs)
    getMeta d nm == getMeta d ("orig-" ++ nm) && noChild
  else if op == .none then
    if d.isTerm then
      match getMeta d "orig-default" with
      | some v => (v == Diff.bs "true" && d.flags.dflt) || (v == Diff.bs "false" && !d.flags.dflt)
      | none => false
    else noChild
  else false

/-- children of the diff node without an operation of their own that also occur below the source node get `op` -/
def keepOpForDescendants (S : Schema) (m src : DNode) (op : Op) : DNode :=
  if S.isDupInst m.sid then m
  else
    m.setKids (m.kids.map fun c =>
      if S.isKey c.sid || (getMeta c "operation").isSome then c
      else if (findMatchM S src.kids c).isSome then setOp c op else c)

/-- `lyd_diff_merge_r(src_diff, diff_parent, …)`; `none` = the C reports an error -/
def mergeR (S : Schema) : (fuel : Nat) → (acc : List DNode) → (accInh : Op) → (src : DNode) → (srcInh : Op) → Option (List DNode)
  | 0, _, _, _, _ => none
  | fuel + 1, acc, accInh, src, srcInh =>
    let srcOp := opOfD src srcInh
    let dup := S.isDupInst src.sid
    let add : Option (List DNode) :=
      -- add new diff node with all descendants
      let d := setOp src srcOp
      if redundant S d srcOp then some acc else some (insertBySchema d acc)
    match findMatchM S acc src with
    | none => add
    | some i =>
      match acc[i]? with
      | none => none
      | some m =>
        let curOp := opOfD m accInh
        if srcOp == .create && curOp == .create && dup then add else
        let merged : Option DNode :=
          match srcOp, curOp with
          | .none, .delete => none
          | .none, _ => some (if src.isTerm then m.setDflt src.flags.dflt else m)
          | .create, .delete =>
            if S.isUserOrd src.sid then
              -- anchors: deleted + created at another position -> REPLACE (moved behind its fellow instances), at the same -> NONE
              let nm := anchorMetaName S src.sid
              match getMeta src nm, getMeta m ("orig-" ++ nm) with
              | some a, some oa =>
                let m1 :=
                  if a != oa then addMeta (setOp m .replace) nm a
                  else (setOp m .none).setMetas (eraseMeta ("orig-" ++ nm) (setOp m .none).metas)
                let m2 := if m1.isTerm then (addMeta m1 "orig-default" (boolBytes m.flags.dflt)).setDflt src.flags.dflt else m1
                some (m2.setKids (m2.kids.map fun c => if S.isKey c.sid then c else setOp c .delete))
              | _, _ => none        -- the defective code (F178) records no original anchor: "Failed to find metadata"
            else
              let m1 :=
                if S.isKind src.sid .leaf && m.val != src.val then
                  (addMeta (setOp m .replace) "orig-value" m.val).setVal src.val
                else setOp m .none
              let m2 := if m1.isTerm then (addMeta m1 "orig-default" (boolBytes m.flags.dflt)).setDflt src.flags.dflt else m1
              -- but the operation of its children should remain DELETE
              some (m2.setKids (m2.kids.map fun c => if S.isKey c.sid then c else setOp c .delete))
          | .delete, .create =>
            let m1 := setOp m .none
            let m2 := if m1.isTerm then addMeta m1 "orig-default" (boolBytes src.flags.dflt) else m1
            some (keepOpForDescendants S m2 src .create)
          | .delete, .none => some (keepOpForDescendants S (setOp m .delete) src .none)
          | _, _ => none
        match merged with
        | none => none
        | some m1 =>
          let op1 := opOfD m1 accInh
          let kidsR : Option (List DNode) :=
            if dup then some (noKeys S m1.kids)
            else (noKeys S src.kids).foldlM (fun ks c => mergeR S fuel ks op1 c srcOp) (noKeys S m1.kids)
          match kidsR with
          | none => none
          | some ks =>
            let m2 := m1.setKids (keysOf S m1.kids ++ ks)
            if redundant S m2 (opOfD m2 accInh) then some (acc.eraseIdx i)
            else if srcOp == .create && curOp == .delete && S.isUserOrd src.sid && opOfD m2 accInh == .replace then
              some (moveToGroupEnd (acc.set i m2) i)
            else some (acc.set i m2)

/-- `lyd_val_diff_add` for every event in order; `none` once a merge fails -/
def valDiff (S : Schema) (evs : List Ev) : Option (List DNode) :=
  evs.foldlM (fun acc e =>
    let c := evChain S e
    mergeR S (c.height + 2) acc .none c .none) []

/-- what the caller of a validation sees -/
structure Verdict where
  /-- the logged error items in order (`VErr.tok`, or `Other:-:-` for the two items of a failed diff merge) -/
  errs : List String := []
  /-- the change set collected -/
  diff : List DNode := []
  /-- a change is missing from `diff`: its merge failed and the caller ignored that -/
  lost : Bool := false
  stop : Bool := false
  deriving Repr, Inhabited

/-- go through the log the way the C does: a validation error ends the run unless `LYD_VALIDATE_MULTI_ERROR`; every change is
merged into the diff; a merge that fails ends the run with `LY_EINVAL` when it came from `lyd_new_implicit` / `lyd_validate_cases`
and is silently lost otherwise -/
def judge (S : Schema) (multi : Bool) (log : List Item) : Verdict :=
  log.foldl (fun (v : Verdict) it =>
    if v.stop then v else
    match it with
    | .err e => { v with errs := v.errs ++ [e.tok], stop := !multi }
    | .ev e =>
      let c := evChain S e
      match mergeR S (c.height + 2) v.diff .none c .none with
      | some d => { v with diff := d }
      | none =>
        if e.src == .autodel then { v with lost := true }
        else { v with errs := v.errs ++ ["Other:-:-", "Other:-:-"], stop := true }) {}

end LyModel.Valid
