import LyModel.Valid.LemmasFixW
/-!
# C07 idempotence for the repaired `lyd_validate_cases` (F321, `casesCountDefault = false`), part 3: stable and clean trees are fixpoints,
and every accepted validation leaves a stable and clean tree
-/
namespace LyModel.Valid
open LyModel LyModel.Tree

mutual
/-- on every sibling level below the node, every choice the level's schema visits satisfies the invariant `fxG` -/
def fxCleanN (X : SchemaX) : DNode → Prop
  | .inner s _ _ ks => (∀ ch ∈ fxChL (X.kidsOf (some s)), fxG ch ks) ∧ fxCleanL X ks
  | .term .. => True
def fxCleanL (X : SchemaX) : List DNode → Prop
  | [] => True
  | n :: ns => fxCleanN X n ∧ fxCleanL X ns
end

def fxCleanTop (X : SchemaX) (T : List DNode) : Prop := (∀ ch ∈ fxChL X.top, fxG ch T) ∧ fxCleanL X T

theorem fxCleanL_all (X : SchemaX) : ∀ (ns : List DNode), fxCleanL X ns ↔ ∀ n ∈ ns, fxCleanN X n
  | [] => by rw [fxCleanL]; simp
  | x :: xs => by
    rw [fxCleanL, fxCleanL_all X xs]
    simp only [List.mem_cons, forall_eq_or_imp]

/-! ## on a stable and clean tree nothing happens (repaired variant) -/

theorem validateNew_id3 (X : SchemaX) (hq : X.q.casesCountDefault = false) (o : VOpts) (cx : Cx) (sibs : List DNode)
    (hn : ∀ n ∈ sibs, n.flags.new = false) (hv : NV X sibs) (hg : ∀ ch ∈ fxChL (X.kidsOf cx.parent), fxG ch sibs) :
    (validateNew X o cx sibs).1 = sibs ∧ (validateNew X o cx sibs).2.evs = [] := by
  unfold validateNew
  obtain ⟨h1, h2⟩ := (choiceR_fix_noop_L X hq cx (X.kidsOf cx.parent) sibs hn).1 hg
  dsimp only
  rw [h1, Out.append_evs, h2, newLoop_id2 X o cx.keysOld _ sibs [] none hn (by simpa [NV] using hv)]
  exact ⟨rfl, rfl⟩

theorem subtree_id3 (X : SchemaX) (o : VOpts) (np : Bool) (hq1 : X.q.implicitInnerCase = false) (hq3 : X.q.casesCountDefault = false) :
    ∀ (fuel : Nat) (cx : Cx) (before : List DNode) (n : DNode), StableN X o np n → fxCleanN X n →
    (subtreeNode X o fuel cx before n).1 = n ∧ (subtreeNode X o fuel cx before n).2.evs = [] := by
  intro fuel
  induction fuel with
  | zero => intro cx before n _ _; cases n <;> exact ⟨rfl, rfl⟩
  | succ fuel ih =>
    intro cx before n hs hc
    cases n with
    | term s f m v => exact ⟨rfl, rfl⟩
    | inner s f m ks =>
      rw [StableN_inner] at hs
      rw [fxCleanN] at hc
      obtain ⟨hdone, hnv, hkids, _⟩ := hs
      have hall := (StableL_all X o np ks).1 hkids
      have hcl := (fxCleanL_all X ks).1 hc.2
      unfold subtreeNode
      dsimp only
      obtain ⟨e1, e1'⟩ := validateNew_id3 X hq3 o (cx.descend X.base before (.inner s f m ks)) ks (fun n hn => (hall n hn).1) hnv hc.1
      generalize validateNew X o (cx.descend X.base before (.inner s f m ks)) ks = r1 at e1 e1'
      obtain ⟨r1a, r1b⟩ := r1
      simp only at e1 e1'
      subst e1
      dsimp only
      rw [implL_of_doneX X o _ hq1 _ r1a hdone]
      dsimp only
      obtain ⟨e3, e3'⟩ := walkList_id2 (subtreeNode X o fuel (cx.descend X.base before (.inner s f m r1a)).keysOld) r1a []
        (fun b x hx => ih _ b x (hall x hx).2 (hcl x hx))
      rw [e3, Out.append_evs, Out.append_evs, e1', e3']
      exact ⟨rfl, rfl⟩

/-- **on a stable and clean tree a validation of the repaired variant changes nothing and reports no change** -/
theorem validate_of_stable3 (X : SchemaX) (o : VOpts) (hq1 : X.q.implicitInnerCase = false) (hq3 : X.q.casesCountDefault = false) (T : List DNode)
    (h : StableTop X o T) (hc : fxCleanTop X T) : (validate X o T).tree = T ∧ (validate X o T).evs = [] := by
  by_cases hp : (o.present && T.isEmpty) = true
  · have hT : T = [] := by
      simp only [Bool.and_eq_true, List.isEmpty_iff] at hp; exact hp.2
    subst hT
    unfold validate
    simp only [hp, if_true]
    exact ⟨trivial, rfl⟩
  · have hp' : (o.present && T.isEmpty) = false := by simpa using hp
    obtain ⟨hdone, hnv, hst⟩ := h
    have hall := (StableL_all X o true T).1 hst
    have hcl := (fxCleanL_all X T).1 hc.2
    obtain ⟨e1, e1'⟩ := validateNew_id3 X hq3 o {} T (fun n hn => (hall n hn).1) hnv hc.1
    have e2 : implL X o {} X.top T = (T, {}) := implL_of_doneX X o {} hq1 X.top T hdone
    obtain ⟨e3, e3'⟩ := walkList_id2 (subtreeNode X o (walkFuel X T) {}) T []
      (fun b x hx => subtree_id3 X o true hq1 hq3 _ {} b x (hall x hx).2 (hcl x hx))
    obtain ⟨ht, he⟩ := validate_evs_eq X o T hp'
    rw [e1, e2] at ht he
    dsimp only at ht he
    unfold subtreeKids at ht he
    rw [e3] at ht he
    constructor
    · rw [ht]
      unfold finalR
      dsimp only
      exact finalKids_id2 X o T {} [] hst
    · rw [he]
      simp only [Out.append_evs, e1', e3', finalR_evs, Out.empty_evs, List.append_nil]

end LyModel.Valid

namespace LyModel.Valid
open LyModel LyModel.Tree

/-! ## every accepted validation of the repaired variant leaves a clean tree -/

theorem subtreeNode_self (X : SchemaX) (o : VOpts) (fuel : Nat) (cx : Cx) (before : List DNode) (n : DNode) :
    (subtreeNode X o fuel cx before n).1.sid = n.sid ∧ (subtreeNode X o fuel cx before n).1.flags = n.flags := by
  cases fuel with
  | zero => cases n <;> exact ⟨rfl, rfl⟩
  | succ f => cases n <;> exact ⟨rfl, rfl⟩

theorem finalNode_self (X : SchemaX) (o : VOpts) (cx : Cx) (before : List DNode) (n : DNode) :
    (finalNode X o cx before n).1.sid = n.sid ∧ (n.flags.dflt = true → (finalNode X o cx before n).1.flags.dflt = true) := by
  cases n with
  | term s f m v => simp [finalNode]
  | inner s f m ks =>
    rw [finalNode]
    dsimp only
    rw [npSet_inner]
    split
    · exact ⟨rfl, fun _ => rfl⟩
    · exact ⟨rfl, fun h => h⟩

/-- the level after the subtree walk and `lyd_validate_final_r`: same schema ids, explicit nodes may have become default -/
theorem final_walk_sub (X : SchemaX) (o : VOpts) (f : List DNode → DNode → DNode × Out) (cxf : Cx)
    (hf : ∀ b x, (f b x).1.sid = x.sid ∧ (f b x).1.flags = x.flags) : ∀ (l before bf : List DNode),
    fxSub (finalKids X o cxf bf (walkList f before l).1).1 l
  | [], _, _ => by simp [walkList, finalKids, fxSub]
  | n :: ns, before, bf => by
    rw [walkList]
    dsimp only
    rw [finalKids]
    dsimp only
    intro x hx
    rcases List.mem_cons.1 hx with rfl | hx'
    · refine ⟨n, List.mem_cons_self .., ?_, ?_⟩
      · rw [(finalNode_self X o cxf bf _).1, (hf before n).1]
      · intro hd
        apply (finalNode_self X o cxf bf _).2
        rw [(hf before n).2]; exact hd
    · obtain ⟨y, hy, h1, h2⟩ := final_walk_sub X o f cxf hf ns _ _ x hx'
      exact ⟨y, List.mem_cons_of_mem _ hy, h1, h2⟩

/-- the nodes of that level, one by one -/
theorem final_walk_clean (X : SchemaX) (o : VOpts) (f : List DNode → DNode → DNode × Out) (cxf : Cx) : ∀ (l before bf : List DNode),
    noDupErr (walkList f before l).2.errs →
    (∀ x ∈ l, ∀ b, noDupErr (f b x).2.errs → ∀ b', fxCleanN X (finalNode X o cxf b' (f b x).1).1) →
    fxCleanL X (finalKids X o cxf bf (walkList f before l).1).1
  | [], _, _, _, _ => by simp [walkList, finalKids, fxCleanL]
  | n :: ns, before, bf, he, h => by
    rw [walkList] at he ⊢
    dsimp only at he ⊢
    rw [Out.append_errs, noDupErr_append] at he
    rw [finalKids]
    dsimp only
    rw [fxCleanL]
    exact ⟨h n (List.mem_cons_self ..) before he.1 bf,
      final_walk_clean X o f cxf ns _ _ he.2 (fun x hx => h x (List.mem_cons_of_mem _ hx))⟩

theorem newLoop_fxSub (X : SchemaX) (o : VOpts) (cx : Cx) (l : List DNode) : fxSub (newLoop X o cx (l.length + 1) [] l none).1 l := by
  intro x hx
  rcases newLoop_out X o cx _ l [] none (by omega) x hx with h | ⟨y, hy, rfl⟩
  · cases h
  · exact ⟨y, hy, (normNew_sid y).symm, fun h => by rw [normNew_dflt]; exact h⟩

/-- **one level after `lyd_validate_new` and `lyd_new_implicit`** (repaired variant, no DUPCASE reported): every choice the level visits
satisfies the invariant -/
theorem level_fxG (X : SchemaX) (o : VOpts) (cx cx' : Cx) (hq1 : X.q.implicitInnerCase = false) (hq3 : X.q.casesCountDefault = false)
    (sk : List STree) (hl : LevelOk X sk) (hsk : X.kidsOf cx.parent = sk) (ks : List DNode) (he : noDupErr (validateNew X o cx ks).2.errs) :
    ∀ ch ∈ fxChL sk, fxG ch (implL X o cx' sk (validateNew X o cx ks).1).1 := by
  intro ch hch
  apply implL_fxG X o cx' hq1 sk hl.kinds hl.nodup _ ch hch
  unfold validateNew at he ⊢
  dsimp only at he ⊢
  rw [Out.append_errs, noDupErr_append, hsk] at he
  rw [hsk]
  obtain ⟨g, _⟩ := (choiceR_fix_est_L X hq3 cx sk ks).1 he.1
  exact fxG_mono (newLoop_fxSub X o cx.keysOld _) (g ch hch)

/-- **the subtree walk followed by `lyd_validate_final_r`, repaired variant, no error reported: a clean node** -/
theorem subtree_clean (X : SchemaX) (o : VOpts) (hq1 : X.q.implicitInnerCase = false) (hq2 : X.q.autodelDirectCase = false)
    (hq3 : X.q.casesCountDefault = false) (hl : KidsLookupOk X) (hw : CaseWf X) : ∀ (fuel : Nat)
    (cx : Cx) (before : List DNode) (n : DNode) (sk : List STree), (∀ k, BelowL k sk → BelowL k X.top) →
      n.sid ∈ dataSidsL sk → placedCN X n = true → sheightL sk ≤ fuel → noDupErr (subtreeNode X o fuel cx before n).2.errs →
      ∀ (cxf : Cx) (bf : List DNode), fxCleanN X (finalNode X o cxf bf (subtreeNode X o fuel cx before n).1).1 := by
  intro fuel
  induction fuel with
  | zero =>
    intro cx before n sk hsk hany hp hh
    obtain ⟨k, _, _, hk, _⟩ := find_data_L sk n.sid hany
    cases k with
    | mk s i kk => simp [sheight] at hk; omega
  | succ fuel ih =>
    intro cx before n sk hsk hany hp hh he cxf bf
    cases n with
    | term s f m v => simp [subtreeNode, finalNode, fxCleanN]
    | inner s f m ks =>
      obtain ⟨k, hkb0, hks, hkh, hkc1, hkc2⟩ := find_data_L sk s hany
      have hkb : BelowL k X.top := hsk k hkb0
      have hkids : X.kidsOf (some s) = k.kids := by rw [← hks]; exact hl k hkb
      have hsk' : ∀ k', BelowL k' k.kids → BelowL k' X.top := fun k' hk' => belowL_trans hkb (below_of_kids hk')
      have hh' : sheightL k.kids ≤ fuel := by
        have h1 := sheight_kids k
        omega
      have hlev : LevelOk X k.kids := hw.2 k hkb hkc1 hkc2
      unfold placedCN at hp
      rw [hkids] at hp
      unfold subtreeNode at he ⊢
      dsimp only at he ⊢
      rw [hkids] at he ⊢
      rw [Out.append_errs, Out.append_errs, noDupErr_append, noDupErr_append] at he
      obtain ⟨_, _, _, c4⟩ := level_first X o (cx.descend X.base before (DNode.inner s f m ks))
        (cx.descend X.base before (DNode.inner s f m ks)).keysOld hq1 hq2 k.kids hlev ks hp
      have hG := level_fxG X o (cx.descend X.base before (DNode.inner s f m ks))
        (cx.descend X.base before (DNode.inner s f m ks)).keysOld hq1 hq3 k.kids hlev hkids ks he.1.1
      rw [finalNode]
      dsimp only
      rw [npSet_inner]
      have hclean : ∀ cxk : Cx, (∀ ch ∈ fxChL (X.kidsOf (some s)), fxG ch
          (finalKids X o cxk []
            (walkList (subtreeNode X o fuel (cx.descend X.base before (DNode.inner s f m ks)).keysOld) []
              (implL X o (cx.descend X.base before (DNode.inner s f m ks)).keysOld k.kids
                (validateNew X o (cx.descend X.base before (DNode.inner s f m ks)) ks).1).1).1).1) ∧
          fxCleanL X (finalKids X o cxk []
            (walkList (subtreeNode X o fuel (cx.descend X.base before (DNode.inner s f m ks)).keysOld) []
              (implL X o (cx.descend X.base before (DNode.inner s f m ks)).keysOld k.kids
                (validateNew X o (cx.descend X.base before (DNode.inner s f m ks)) ks).1).1).1).1 := by
        intro cxk
        constructor
        · rw [hkids]
          intro ch hch
          exact fxG_mono (final_walk_sub X o _ _ (fun b x => subtreeNode_self X o fuel _ b x) _ [] []) (hG ch hch)
        · apply final_walk_clean X o _ _ _ [] [] he.2
          intro x hx b hex b'
          exact ih _ b x k.kids hsk' (c4 x hx).1 (c4 x hx).2 hh' hex _ b'
      split
      · rw [fxCleanN]; exact hclean _
      · rw [fxCleanN]; exact hclean _

end LyModel.Valid

namespace LyModel.Valid
open LyModel LyModel.Tree

theorem fx_errs_eq (X : SchemaX) (o : VOpts) (t : List DNode) (h : (o.present && t.isEmpty) = false) :
    (validate X o t).errs = ((validateNew X o {} t).2 ++ (implL X o {} X.top (validateNew X o {} t).1).2 ++
      (subtreeKids X o (walkFuel X t) {} [] (implL X o {} X.top (validateNew X o {} t).1).1).2 ++
      (finalR X o {} (subtreeKids X o (walkFuel X t) {} [] (implL X o {} X.top (validateNew X o {} t).1).1).1).2).errs := by
  unfold validate
  simp only [h, Bool.false_eq_true, if_false]
  rfl

/-- **an accepted validation of the repaired variant leaves a clean tree** -/
theorem validate_clean (X : SchemaX) (o : VOpts) (hq1 : X.q.implicitInnerCase = false) (hq2 : X.q.autodelDirectCase = false)
    (hq3 : X.q.casesCountDefault = false) (hl : KidsLookupOk X) (hw : CaseWf X) (t : List DNode)
    (hp : placedCL X X.top t = true) (hh : sheightL X.top ≤ walkFuel X t) (hpe : (o.present && t.isEmpty) = false)
    (hv : noDupErr (validate X o t).errs) : fxCleanTop X (validate X o t).tree := by
  obtain ⟨ht, _⟩ := validate_evs_eq X o t hpe
  rw [fx_errs_eq X o t hpe] at hv
  simp only [Out.append_errs, noDupErr_append] at hv
  rw [ht]
  obtain ⟨_, _, _, c4⟩ := level_first X o {} {} hq1 hq2 X.top hw.1 t hp
  have hG := level_fxG X o {} {} hq1 hq3 X.top hw.1 rfl t hv.1.1.1
  unfold finalR subtreeKids at hv ⊢
  dsimp only at hv ⊢
  constructor
  · intro ch hch
    exact fxG_mono (final_walk_sub X o _ _ (fun b x => subtreeNode_self X o _ _ b x) _ [] []) (hG ch hch)
  · apply final_walk_clean X o _ _ _ [] [] hv.1.2
    intro x hx b hex b'
    exact subtree_clean X o hq1 hq2 hq3 hl hw _ {} b x X.top (fun k hk => hk) (c4 x hx).1 (c4 x hx).2 hh hex _ b'

/-- **`validate_idempotent` with `choice` / `case`, REPAIRED `lyd_validate_cases` (F321)** -/
theorem validate_idempotent3 (X : SchemaX) (o : VOpts) (hq1 : X.q.implicitInnerCase = false) (hq2 : X.q.autodelDirectCase = false)
    (hq3 : X.q.casesCountDefault = false)
    (hl : KidsLookupOk X) (hw : CaseWf X) (t : List DNode) (hB : NoNpContInCase X ∨ (npInvL X.base t ∧ newExplL t))
    (hp : placedCL X X.top t = true) (hh : sheightL X.top ≤ walkFuel X t) (hv : noDupErr (validate X o t).errs) :
    (validate X o (validate X o t).tree).tree = (validate X o t).tree ∧
    (validate X o (validate X o t).tree).evs = [] := by
  by_cases hpe : (o.present && t.isEmpty) = true
  · have : (validate X o t).tree = [] := by
      unfold validate; simp only [hpe, if_true]
    rw [this]
    have hpe' : (o.present && ([] : List DNode).isEmpty) = true := by
      simp only [Bool.and_eq_true] at hpe ⊢; exact ⟨hpe.1, rfl⟩
    unfold validate
    simp only [hpe', if_true]
    exact ⟨trivial, rfl⟩
  · have hpe' : (o.present && t.isEmpty) = false := by simpa using hpe
    exact validate_of_stable3 X o hq1 hq3 _ (validate_stable2 X o hq1 hq2 hl hw t hB hp hh hpe')
      (validate_clean X o hq1 hq2 hq3 hl hw t hp hh hpe' hv)

end LyModel.Valid
