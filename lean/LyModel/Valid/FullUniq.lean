import LyModel.Valid.FullLevel
import LyModel.Valid.LemmasPerm
import LyModel.Valid.LemmasUnique
/-!
# C02, full schema language: the `unique` statement — the tuple the model compares is the tuple of the specification

(A) `uq_uniqVal_eq`: along a well-formed schema path `p` from the list to the leaf whose data nodes are the chain `uniqChain` walks,
`uniqVal` (repaired variant) is `leafValInUse p` on the entry's children.
(B) `uq_lvu_pipe`: completing a fresh level does not change `leafValInUse p` (induction on the fuel over the levels, recursion on the
path over the sub-levels reached through choices).
(C) `uq_tuple_eq`: `uniqTuple` of a completed list entry = `specTuple` of the explicit entry (decidable hypotheses `NodeLookupOk`,
`UniqPathsOk`).
(D) `uq_bridge`: `lyd_validate_unique` logs an error for a list of the completed level iff `uniqueOk` fails on the explicit entries.
-/
namespace LyModel.Valid
open LyModel LyModel.Tree

/-! ## (A) `uniqVal` is `leafValInUse` along the schema path -/

/-- the data nodes of a schema path -/
def uq_chainOf (p : List STree) : List Nat :=
  (p.filter fun n => n.info.kind != .choice && n.info.kind != .case).map (·.sid)

/-- the case `cs` is the first child of the choice `k` with its name (case names are unique in a choice) -/
def uq_firstNamed (k cs : STree) : Bool :=
  match k.kids.find? (fun c => c.info.name == cs.info.name) with
  | some c0 => steq c0 cs
  | none => false

/-- a schema path `leafValInUse` can follow to a leaf: containers, and choices followed by one of their cases -/
def uq_pathOk : List STree → Bool
  | [] => false
  | [leaf] => leaf.info.kind == .leaf
  | k :: k2 :: rest =>
    match k.info.kind with
    | .container => uq_pathOk (k2 :: rest)
    | .choice => k2.info.kind == .case && uq_firstNamed k k2 && uq_pathOk rest
    | _ => false

theorem uq_foldl_none (chain : List Nat) :
    chain.foldl (fun (cur : Option DNode) sid => cur.bind fun n => n.kids.find? (·.sid == sid)) none = none := by
  induction chain with
  | nil => rfl
  | cons s rest ih => simpa [List.foldl_cons] using ih

theorem uq_uniqFind_nil (n : DNode) : uniqFind [] n = some n := rfl

/-- one step of `lyd_val_uniq_find_leaf` -/
theorem uq_uniqFind_cons {s : Nat} {rest : List Nat} {n d : DNode} (h : uniqFind (s :: rest) n = some d) :
    ∃ c, n.kids.find? (·.sid == s) = some c ∧ uniqFind rest c = some d := by
  unfold uniqFind at h
  rw [List.foldl_cons] at h
  cases hf : n.kids.find? (·.sid == s) with
  | none =>
    simp only [Option.bind_some, hf] at h
    rw [uq_foldl_none] at h
    cases h
  | some c =>
    simp only [Option.bind_some, hf] at h
    exact ⟨c, rfl, h⟩

theorem uq_chainOf_data {k : STree} (rest : List STree) (h1 : k.info.kind ≠ .choice) (h2 : k.info.kind ≠ .case) :
    uq_chainOf (k :: rest) = k.sid :: uq_chainOf rest := by
  unfold uq_chainOf
  simp [h1, h2]

theorem uq_chainOf_skip {k : STree} (rest : List STree) (h : k.info.kind = .choice ∨ k.info.kind = .case) :
    uq_chainOf (k :: rest) = uq_chainOf rest := by
  unfold uq_chainOf
  rcases h with h | h <;> simp [h]

theorem uq_hasData_of_find {lvl : List DNode} {s : Nat} {c : DNode} {ds : List Nat} (h : lvl.find? (·.sid == s) = some c)
    (hs : s ∈ ds) : hasData lvl ds = true := by
  unfold hasData
  refine List.any_eq_true.2 ⟨c, List.mem_of_find?_eq_some h, ?_⟩
  have := List.find?_some h
  rw [beq_iff_eq] at this
  unfold inSids
  rw [this]
  exact List.contains_iff_mem.2 hs

/-- the first data node of a well-formed path from the level `sk` is a data node of the level -/
theorem uq_chain_first (target : Nat) : ∀ (p sk : List STree), Chain target sk p → uq_pathOk p = true →
    ∃ s0 rest, uq_chainOf p = s0 :: rest ∧ s0 ∈ dataSidsL sk
  | [], _, h, _ => nomatch h
  | [k], sk, h, hok => by
    have hk : k ∈ sk := by
      cases h with
      | last hk _ => exact hk
      | step _ hc => nomatch hc
    rw [uq_pathOk, beq_iff_eq] at hok
    have h1 : k.info.kind ≠ .choice := by rw [hok]; decide
    have h2 : k.info.kind ≠ .case := by rw [hok]; decide
    refine ⟨k.sid, [], ?_, ?_⟩
    · rw [uq_chainOf_data [] h1 h2]; rfl
    · exact dataSids_sub_L hk _ (by rw [dataSids_data h1 h2]; exact List.mem_singleton.2 rfl)
  | k :: k2 :: rest, sk, h, hok => by
    have ⟨hk, hc⟩ : k ∈ sk ∧ Chain target k.kids (k2 :: rest) := by
      cases h with
      | step hk hc => exact ⟨hk, hc⟩
    rw [uq_pathOk] at hok
    cases hkind : k.info.kind with
    | container =>
      have h1 : k.info.kind ≠ .choice := by rw [hkind]; decide
      have h2 : k.info.kind ≠ .case := by rw [hkind]; decide
      refine ⟨k.sid, _, uq_chainOf_data _ h1 h2, ?_⟩
      exact dataSids_sub_L hk _ (by rw [dataSids_data h1 h2]; exact List.mem_singleton.2 rfl)
    | choice =>
      rw [hkind] at hok
      simp only [Bool.and_eq_true, beq_iff_eq] at hok
      obtain ⟨⟨hcase, _⟩, hok'⟩ := hok
      cases hc with
      | last _ _ => rw [uq_pathOk] at hok'; cases hok'
      | step hk2 hc2 =>
        obtain ⟨s0, r, he, hm⟩ := uq_chain_first target rest k2.kids hc2 hok'
        refine ⟨s0, r, ?_, ?_⟩
        · rw [uq_chainOf_skip _ (Or.inl hkind), uq_chainOf_skip _ (Or.inr hcase)]; exact he
        · apply dataSids_sub_L hk
          rw [dataSids_inner k (Or.inl hkind)]
          apply dataSids_sub_L hk2
          rw [dataSids_inner k2 (Or.inr hcase)]
          exact hm
    | leaf => rw [hkind] at hok; cases hok
    | leaflist => rw [hkind] at hok; cases hok
    | list => rw [hkind] at hok; cases hok
    | case => rw [hkind] at hok; cases hok

/-- where `lyd_val_uniq_find_leaf` finds the leaf, `leafValInUse` finds it too -/
theorem uq_find_lvu (target : Nat) : ∀ (p sk : List STree), Chain target sk p → uq_pathOk p = true →
    ∀ (n d : DNode), uniqFind (uq_chainOf p) n = some d → leafValInUse p n.kids = some d.val
  | [], _, h, _, _, _, _ => nomatch h
  | [k], sk, h, hok, n, d, hf => by
    rw [uq_pathOk, beq_iff_eq] at hok
    have h1 : k.info.kind ≠ .choice := by rw [hok]; decide
    have h2 : k.info.kind ≠ .case := by rw [hok]; decide
    rw [uq_chainOf_data [] h1 h2] at hf
    obtain ⟨c, hc, hf'⟩ := uq_uniqFind_cons hf
    have : uq_chainOf [] = [] := rfl
    rw [this, uq_uniqFind_nil] at hf'
    injection hf' with hf'
    rw [lvu_single, hc, hf']
  | k :: k2 :: rest, sk, h, hok, n, d, hf => by
    have ⟨hk, hc⟩ : k ∈ sk ∧ Chain target k.kids (k2 :: rest) := by
      cases h with
      | step hk hc => exact ⟨hk, hc⟩
    rw [uq_pathOk] at hok
    rw [lvu_cons2]
    cases hkind : k.info.kind with
    | container =>
      rw [hkind] at hok
      have h1 : k.info.kind ≠ .choice := by rw [hkind]; decide
      have h2 : k.info.kind ≠ .case := by rw [hkind]; decide
      rw [uq_chainOf_data _ h1 h2] at hf
      obtain ⟨c, hcf, hf'⟩ := uq_uniqFind_cons hf
      simp only [hcf]
      exact uq_find_lvu target (k2 :: rest) k.kids hc hok c d hf'
    | choice =>
      rw [hkind] at hok
      simp only [Bool.and_eq_true, beq_iff_eq] at hok
      obtain ⟨⟨hcase, _⟩, hok'⟩ := hok
      rw [uq_chainOf_skip _ (Or.inl hkind), uq_chainOf_skip _ (Or.inr hcase)] at hf
      cases hc with
      | last _ _ => rw [uq_pathOk] at hok'; cases hok'
      | step hk2 hc2 =>
        obtain ⟨s0, r, he, hm⟩ := uq_chain_first target rest k2.kids hc2 hok'
        have hf0 := hf
        rw [he] at hf0
        obtain ⟨c, hcf, _⟩ := uq_uniqFind_cons hf0
        have hd2 : hasData n.kids k2.dataSids = true :=
          uq_hasData_of_find hcf (by rw [dataSids_inner k2 (Or.inr hcase)]; exact hm)
        have hd1 : hasData n.kids k.dataSids = true :=
          uq_hasData_of_find hcf (by
            rw [dataSids_inner k (Or.inl hkind)]
            apply dataSids_sub_L hk2
            rw [dataSids_inner k2 (Or.inr hcase)]; exact hm)
        simp only [hd1, hd2, if_true]
        exact uq_find_lvu target rest k2.kids hc2 hok' n d hf
    | leaf => rw [hkind] at hok; cases hok
    | leaflist => rw [hkind] at hok; cases hok
    | list => rw [hkind] at hok; cases hok
    | case => rw [hkind] at hok; cases hok

/-- **(A)** the value `lyd_validate_unique` compares (repaired variant) is the value in use along the schema path -/
theorem uq_uniqVal_eq (X : SchemaX) (hq : X.q.uniqueDefaultAlways = false) {s : Nat} {i : SNode} {kk : List STree}
    (hnode : X.node? s = some (.mk s i kk)) {leaf : Nat} {p : List STree}
    (hpath : pathTo (X.base.nodes.length + 1) kk leaf = some p) (hok : uq_pathOk p = true)
    (hchain : uniqChain X.base s leaf = uq_chainOf p) (inst : DNode) :
    uniqVal X s inst leaf = leafValInUse p inst.kids := by
  unfold uniqVal
  dsimp only
  cases hf : uniqFind (uniqChain X.base s leaf) inst with
  | some d =>
    dsimp only
    rw [hchain] at hf
    exact (uq_find_lvu leaf p kk (pathTo_chain _ _ _ _ hpath) hok inst d hf).symm
  | none =>
    dsimp only
    rw [hq, hnode]
    simp only [Bool.false_eq_true, if_false, STree.kids, hpath, Option.bind_some]

/-! ## (B) completion of a level does not change the value in use -/

/-! ### the implicit instance of a leaf carries the first default -/

/-- an implicit instance of a leaf has its first default as value -/
def uq_ImplVal (k : STree) (x : DNode) : Prop := k.info.kind = .leaf → k.info.dflts.head? = some x.val

def uq_AddL (ks : List STree) (a b : List DNode) : Prop := ∀ x ∈ b, x ∈ a ∨ ∃ k, BelowL k ks ∧ ImplNodeOf k x ∧ uq_ImplVal k x
def uq_AddT (t : STree) (a b : List DNode) : Prop := ∀ x ∈ b, x ∈ a ∨ ∃ k, Below k t ∧ ImplNodeOf k x ∧ uq_ImplVal k x

theorem uq_AddL.refl (ks : List STree) (a : List DNode) : uq_AddL ks a a := fun _ hx => Or.inl hx
theorem uq_AddT.refl (t : STree) (a : List DNode) : uq_AddT t a a := fun _ hx => Or.inl hx

theorem uq_AddL.trans {ks : List STree} {a b c : List DNode} (h1 : uq_AddL ks a b) (h2 : uq_AddL ks b c) : uq_AddL ks a c := by
  intro x hx
  rcases h2 x hx with h | h
  · exact h1 x h
  · exact Or.inr h

theorem uq_AddL.cons_head {t : STree} {ts : List STree} {a b : List DNode} (h : uq_AddT t a b) : uq_AddL (t :: ts) a b := by
  intro x hx
  rcases h x hx with h | ⟨k, hk, hi⟩
  · exact Or.inl h
  · exact Or.inr ⟨k, BelowL.head _ _ _ hk, hi⟩

theorem uq_AddL.cons_tail {t : STree} {ts : List STree} {a b : List DNode} (h : uq_AddL ts a b) : uq_AddL (t :: ts) a b := by
  intro x hx
  rcases h x hx with h | ⟨k, hk, hi⟩
  · exact Or.inl h
  · exact Or.inr ⟨k, BelowL.tail _ _ _ hk, hi⟩

theorem uq_AddT.of_kids {s : Nat} {i : SNode} {ks : List STree} {a b : List DNode} (h : uq_AddL ks a b) : uq_AddT (.mk s i ks) a b := by
  intro x hx
  rcases h x hx with h | ⟨k, hk, hi⟩
  · exact Or.inl h
  · exact Or.inr ⟨k, Below.kid _ _ _ _ hk, hi⟩

theorem uq_implNode_val (S : Schema) (o : VOpts) (cx : Cx) (k : STree) (sibs : List DNode) (x : DNode)
    (hx : x ∈ (implNode S o cx k sibs).1) : x ∈ sibs ∨ (ImplNodeOf k x ∧ uq_ImplVal k x) := by
  rcases implNode_nodes S o cx k sibs x hx with h | hno
  · exact Or.inl h
  · by_cases hmem : x ∈ sibs
    · exact Or.inl hmem
    · refine Or.inr ⟨hno, fun hkind => ?_⟩
      unfold implNode at hx
      dsimp only at hx
      split at hx
      · exact absurd hx hmem
      · simp only [hkind] at hx
        split at hx
        · rename_i d ds hd
          simp only [addImplicit_fst, mem_insertNode] at hx
          rcases hx with h | h
          · subst h; rw [hd]; rfl
          · exact absurd h hmem
        · exact absurd hx hmem

theorem uq_implNodes_add (S : Schema) (o : VOpts) (cx : Cx) : ∀ (ks : List STree) (sibs : List DNode),
    uq_AddL ks sibs (implNodes S o cx ks sibs).1 := by
  intro ks
  induction ks with
  | nil => intro sibs; unfold implNodes; exact uq_AddL.refl _ _
  | cons k ks ih =>
    intro sibs
    unfold implNodes
    refine uq_AddL.trans ?_ (uq_AddL.cons_tail (ih _))
    intro x hx
    rcases uq_implNode_val S o cx k sibs x hx with h | h
    · exact Or.inl h
    · exact Or.inr ⟨k, BelowL.of_mem List.mem_cons_self, h⟩

theorem uq_implChoices_add (X : SchemaX) (o : VOpts) (cx : Cx) (ks : List STree) (sibs : List DNode) :
    uq_AddL ks sibs (implChoices X o cx ks sibs).1 := by
  apply implChoices.induct X o cx
    (motive_1 := fun ks sibs => uq_AddL ks sibs (implChoices X o cx ks sibs).1)
    (motive_2 := fun t sibs => uq_AddT t sibs (implChoice X o cx t sibs).1)
    (motive_3 := fun sid ks sibs => uq_AddL ks sibs (implCaseHolding X o cx sid ks sibs).1)
    (motive_4 := fun t sibs => uq_AddT t sibs (implCase X o cx t sibs).1)
    (motive_5 := fun target ks sibs => uq_AddL ks sibs (implInto X o cx target ks sibs).1)
    (motive_6 := fun target t sibs => uq_AddT t sibs (implIntoCase X o cx target t sibs).1)
    (motive_7 := fun target ks sibs => uq_AddL ks sibs (implIntoKids X o cx target ks sibs).1)
    (motive_8 := fun target t sibs => uq_AddT t sibs (implIntoChoice X o cx target t sibs).1)
    (motive_9 := fun nm ks sibs => uq_AddL ks sibs (implCaseNamed X o cx nm ks sibs).1)
  · intro sid i cases sibs h
    unfold implChoice; simp only [h, if_true]; exact uq_AddT.refl _ _
  · intro sid i cases sibs h hfd nm hnm ih
    unfold implChoice; simp only [h, Bool.false_eq_true, if_false, hfd, hnm]; exact uq_AddT.of_kids ih
  · intro sid i cases sibs h hfd hnm
    unfold implChoice; simp only [h, Bool.false_eq_true, if_false, hfd, hnm]; exact uq_AddT.refl _ _
  · intro sid i cases sibs h node hfd hq target ht ih
    unfold implChoice; simp only [h, Bool.false_eq_true, if_false, hfd, hq, if_true, ht]; exact uq_AddT.of_kids ih
  · intro sid i cases sibs h node hfd hq ht
    unfold implChoice; simp only [h, Bool.false_eq_true, if_false, hfd, hq, if_true, ht]; exact uq_AddT.refl _ _
  · intro sid i cases sibs h node hfd hq ih
    unfold implChoice; simp only [h, Bool.false_eq_true, if_false, hfd, hq]; exact uq_AddT.of_kids ih
  · intro sid i cases sibs ih
    unfold implCase
    exact uq_AddT.of_kids (uq_AddL.trans ih (uq_implNodes_add _ _ _ _ _))
  · intro target sid i cases sibs ih
    unfold implIntoCase; exact uq_AddT.of_kids ih
  · intro target sid i cases sibs h ih
    unfold implIntoChoice; simp only [h, if_true]; exact uq_AddT.of_kids ih
  · intro target sid i cases sibs h
    unfold implIntoChoice; simp only [h, Bool.false_eq_true, if_false]; exact uq_AddT.refl _ _
  · intro sibs; unfold implChoices; exact uq_AddL.refl _ _
  · intro k ks sibs _ ih1 ih2
    unfold implChoices
    exact uq_AddL.trans (uq_AddL.cons_head ih1) (uq_AddL.cons_tail ih2)
  · intro sid sibs; unfold implCaseHolding; exact uq_AddL.refl _ _
  · intro sid k ks sibs h ih
    unfold implCaseHolding; simp only [h, if_true]; exact uq_AddL.cons_head ih
  · intro sid k ks sibs h ih
    unfold implCaseHolding; simp only [h, Bool.false_eq_true, if_false]; exact uq_AddL.cons_tail ih
  · intro target sibs; unfold implInto; exact uq_AddL.refl _ _
  · intro target k ks sibs r1 ih1 ih2 ih3
    unfold implInto
    refine uq_AddL.trans ?_ (uq_AddL.cons_tail ih3)
    show uq_AddL (k :: ks) sibs (if (k.sid == target) = true then implCase X o cx k sibs else implIntoCase X o cx target k sibs).1
    split
    · exact uq_AddL.cons_head ih1
    · exact uq_AddL.cons_head ih2
  · intro target sibs; unfold implIntoKids; exact uq_AddL.refl _ _
  · intro target k ks sibs _ ih1 ih2
    unfold implIntoKids
    exact uq_AddL.trans (uq_AddL.cons_head ih1) (uq_AddL.cons_tail ih2)
  · intro nm sibs; unfold implCaseNamed; exact uq_AddL.refl _ _
  · intro nm k ks sibs h ih
    unfold implCaseNamed; simp only [h, if_true]; exact uq_AddL.cons_head ih
  · intro nm k ks sibs h ih
    unfold implCaseNamed; simp only [h, Bool.false_eq_true, if_false]; exact uq_AddL.cons_tail ih

/-- every node of the completed level was there or is an implicit instance — of a leaf: with its first default as value -/
theorem uq_implL_val (X : SchemaX) (o : VOpts) (cx : Cx) (ks : List STree) (sibs : List DNode) :
    ∀ x ∈ (implL X o cx ks sibs).1, x ∈ sibs ∨ ∃ k, BelowL k ks ∧ ImplNodeOf k x ∧ uq_ImplVal k x := by
  unfold implL
  exact uq_AddL.trans (uq_implChoices_add X o cx ks sibs) (uq_implNodes_add _ _ _ _ _)

/-! ### the instances of a schema node on the completed level -/

theorem uq_rel2_instsOf {R : DNode → DNode → Prop} (hR : ∀ a b, R a b → b.sid = a.sid) {l l' : List DNode} (h : Rel2 R l l')
    (sid : Nat) : Rel2 R (instsOf l sid) (instsOf l' sid) := by
  induction h with
  | nil => exact Rel2.nil
  | @cons a b _ _ hab _ ih =>
    unfold instsOf at ih ⊢
    simp only [List.filter_cons, hR a b hab]
    split
    · exact Rel2.cons hab ih
    · exact ih

theorem uq_rel2_map {R : DNode → DNode → Prop} (f : DNode → DNode) : ∀ {l l' : List DNode}, Rel2 R (l.map f) l' →
    Rel2 (fun a b => R (f a) b) l l'
  | [], _, h => by cases h; exact Rel2.nil
  | a :: as, _, h => by
    cases h with
    | cons hab t => exact Rel2.cons hab (uq_rel2_map f t)

theorem uq_instsOf_map_normNew (l : List DNode) (sid : Nat) : instsOf (l.map normNew) sid = (instsOf l sid).map normNew := by
  unfold instsOf
  induction l with
  | nil => rfl
  | cons x xs ih =>
    simp only [List.map_cons, List.filter_cons, normNew_sid]
    split
    · simp only [List.map_cons, ih]
    · exact ih

/-- **the instances of a schema node that has explicit instances are, on the completed level and in order, the completions of the
explicit ones** -/
theorem uq_insts_rel (X : SchemaX) (o : VOpts) (fuel : Nat) (cx2 cx3 : Cx) (sk : List STree) (ks : List DNode) (sid : Nat)
    (h : hasInst ks sid = true) :
    Rel2 (fun y y3 => ∃ b, y3 = (subtreeNode X o fuel cx3 b (normNew y)).1) (instsOf ks sid)
      (instsOf (walkList (subtreeNode X o fuel cx3) [] (implL X o cx2 sk (ks.map normNew)).1).1 sid) := by
  have hw : Rel2 (fun a a3 => ∃ b, a3 = (subtreeNode X o fuel cx3 b a).1) (implL X o cx2 sk (ks.map normNew)).1
      (walkList (subtreeNode X o fuel cx3) [] (implL X o cx2 sk (ks.map normNew)).1).1 :=
    walkList_rel _ _ _ (fun b n _ => ⟨b, rfl⟩)
  have h2 := uq_rel2_instsOf (fun a a3 r => by obtain ⟨b, rfl⟩ := r; exact subtreeNode_sid X o fuel cx3 b a) hw sid
  rw [implL_keepI X o cx2 sk (ks.map normNew) sid (by rw [hasInst_map_sid normNew_sid]; exact h), uq_instsOf_map_normNew] at h2
  exact uq_rel2_map normNew h2

theorem uq_find_eq_head (l : List DNode) (sid : Nat) : l.find? (·.sid == sid) = (instsOf l sid).head? := by
  unfold instsOf
  rw [List.head?_filter]

theorem uq_find_none {l : List DNode} {sid : Nat} (h : hasInst l sid = false) : l.find? (·.sid == sid) = none := by
  rw [uq_find_eq_head, List.length_eq_zero_iff.1 (instsOf_len_zero h)]
  rfl

/-- the first instance on the completed level and in the explicit data, for a schema node with explicit instances -/
theorem uq_first_inst (X : SchemaX) (o : VOpts) (fuel : Nat) (cx2 cx3 : Cx) (sk : List STree) (ks : List DNode) (sid : Nat)
    (h : hasInst ks sid = true) : ∃ y b, y ∈ ks ∧ y.sid = sid ∧
      (walkList (subtreeNode X o fuel cx3) [] (implL X o cx2 sk (ks.map normNew)).1).1.find? (·.sid == sid)
        = some (subtreeNode X o fuel cx3 b (normNew y)).1 ∧
      (ks.map exN).find? (·.sid == sid) = some (exN y) := by
  have hr := uq_insts_rel X o fuel cx2 cx3 sk ks sid h
  rw [uq_find_eq_head, uq_find_eq_head, instsOf_map_exN]
  cases hI : instsOf ks sid with
  | nil =>
    exfalso
    unfold hasInst at h
    obtain ⟨y, hy, hs⟩ := List.any_eq_true.1 h
    have : y ∈ instsOf ks sid := mem_instsOf.2 ⟨hy, by simpa using hs⟩
    rw [hI] at this
    cases this
  | cons y ys =>
    rw [hI] at hr
    generalize instsOf (walkList (subtreeNode X o fuel cx3) [] (implL X o cx2 sk (ks.map normNew)).1).1 sid = I3 at hr ⊢
    cases hr with
    | cons hab _ =>
      obtain ⟨b, hb⟩ := hab
      have hy : y ∈ instsOf ks sid := by rw [hI]; exact List.mem_cons_self
      rw [mem_instsOf] at hy
      exact ⟨y, b, hy.1, hy.2, by rw [hb]; rfl, rfl⟩

/-- the walk over an inner node: its children are the completed level of its children -/
theorem uq_subtree_inner (X : SchemaX) (o : VOpts) (f : Nat) (cx : Cx) (b : List DNode) (s : Nat) (fl : Flags) (m : List Meta)
    (kk : List DNode) :
    (subtreeNode X o (f + 1) cx b (.inner s fl m kk)).1 = .inner s fl m
      (pipeTree X o f (cx.descend X.base b (.inner s fl m kk)) (cx.descend X.base b (.inner s fl m kk)).keysOld
        (cx.descend X.base b (.inner s fl m kk)).keysOld (X.kidsOf (some s)) kk) := by
  unfold pipeTree
  unfold subtreeNode
  rfl

/-! ### the hypotheses, bundled -/

/-- the schema hypotheses of the C02 theorems for the full schema language -/
structure uq_Glob (X : SchemaX) (o : VOpts) : Prop where
  hop : o.operational = false
  hq : X.q.implicitInnerCase = false
  hl : KidsLookupOk X
  hio : InfoOk X
  hs : FullSane X o

/-- one fresh sibling list `ks` on a sane level `sk` of the schema -/
structure uq_Lvl (X : SchemaX) (fuel : Nat) (sk : List STree) (ks : List DNode) : Prop where
  fuelOk : sheightL sk ≤ fuel
  top : ∀ k, BelowL k sk → BelowL k X.top
  sane : LevelSane sk
  good : goodL X sk ks = true
  len : ks.length ≤ uint32Max

/-- the claim of (B) for one value of the fuel -/
def uq_LvuPipe (X : SchemaX) (o : VOpts) (fuel : Nat) : Prop :=
  ∀ (sk : List STree) (ks : List DNode) (cx1 cx2 cx3 : Cx), uq_Lvl X fuel sk ks →
    ∀ (target : Nat) (p : List STree), Chain target sk p → uq_pathOk p = true →
      leafValInUse p (pipeTree X o fuel cx1 cx2 cx3 sk ks) = leafValInUse p (explicitL ks)

mutual
theorem uq_below_sheight : ∀ {k t : STree}, Below k t → sheight k ≤ sheight t
  | _, _, .self _ => Nat.le_refl _
  | _, _, .kid _ s i ks hb => by
    have := uq_belowL_sheight hb
    rw [sheight.eq_1 s i ks]
    omega
theorem uq_belowL_sheight : ∀ {k : STree} {l : List STree}, BelowL k l → sheight k ≤ sheightL l
  | _, _, .head _ t ts hb => by
    have := uq_below_sheight hb
    rw [sheightL.eq_2 t ts]
    exact Nat.le_trans this (Nat.le_max_left ..)
  | _, _, .tail _ t ts hb => by
    have := uq_belowL_sheight hb
    rw [sheightL.eq_2 t ts]
    exact Nat.le_trans this (Nat.le_max_right ..)
end

theorem uq_info_eq {X : SchemaX} (hio : InfoOk X) {k k0 : STree} (hk : BelowL k X.top) (hk0 : BelowL k0 X.top)
    (h : k0.sid = k.sid) : k0.info = k.info := by
  have h1 := hio k hk
  have h2 := hio k0 hk0
  rw [h, h1] at h2
  injection h2 with h2
  exact h2.symm

theorem uq_isKind {X : SchemaX} (hio : InfoOk X) {k : STree} (hk : BelowL k X.top) (kd : SKind) :
    X.base.isKind k.sid kd = true ↔ k.info.kind = kd := by
  unfold Schema.isKind Schema.kind?
  rw [hio k hk]
  simp

theorem uq_inner_form (n : DNode) (h : n.isTerm = false) : n = .inner n.sid n.flags n.metas n.kids := by
  cases n with
  | inner s f m ks => rfl
  | term s f m v => cases h

theorem uq_subtree_term_node (X : SchemaX) (o : VOpts) (fuel : Nat) (cx : Cx) (b : List DNode) (n : DNode) (h : n.isTerm = true) :
    (subtreeNode X o fuel cx b n).1 = n := by
  cases n with
  | inner s f m ks => cases h
  | term s f m v => rw [subtreeNode_term]

theorem uq_normNew_val (n : DNode) : (normNew n).val = n.val := by
  unfold normNew clearNew
  split <;> cases n <;> rfl

/-- what `find?` gives for a schema node of the level on the completed level and in the explicit data -/
theorem uq_level_find {X : SchemaX} {o : VOpts} {fuel : Nat} {cx1 cx2 cx3 : Cx} {sk : List STree} {ks : List DNode}
    (hv : uq_Lvl X fuel sk ks) (F : LevelFacts X o fuel cx1 cx2 cx3 sk ks) (sid : Nat) :
    (∃ y b, y ∈ ks ∧ y.sid = sid ∧
      (pipeTree X o fuel cx1 cx2 cx3 sk ks).find? (·.sid == sid) = some (subtreeNode X o fuel cx3 b (normNew y)).1 ∧
      (explicitL ks).find? (·.sid == sid) = some (exN y)) ∨
    ((explicitL ks).find? (·.sid == sid) = none ∧
      ((pipeTree X o fuel cx1 cx2 cx3 sk ks).find? (·.sid == sid) = none ∨
        ∃ a b k0, (pipeTree X o fuel cx1 cx2 cx3 sk ks).find? (·.sid == sid) = some (subtreeNode X o fuel cx3 b a).1 ∧
          a.sid = sid ∧ BelowL k0 sk ∧ ImplNodeOf k0 a ∧ uq_ImplVal k0 a)) := by
  have hfr : isFreshL ks = true := goodL_fresh X sk ks hv.good
  by_cases h : hasInst ks sid = true
  · left
    obtain ⟨y, b, hy, hys, h3, hE⟩ := uq_first_inst X o fuel cx2 cx3 sk ks sid h
    refine ⟨y, b, hy, hys, ?_, ?_⟩
    · rw [F.tree]; exact h3
    · rw [explicitL_fresh ks hfr]; exact hE
  · right
    have h' : hasInst ks sid = false := by simpa using h
    refine ⟨uq_find_none (by rw [F.hE]; exact h'), ?_⟩
    cases hf : (pipeTree X o fuel cx1 cx2 cx3 sk ks).find? (·.sid == sid) with
    | none => exact Or.inl rfl
    | some a3 =>
      right
      have hm := List.mem_of_find?_eq_some hf
      have hs3 : a3.sid = sid := by simpa using List.find?_some hf
      rw [F.tree] at hm
      obtain ⟨a, ha, b, hab⟩ := walkList_res_mem _ _ _ a3 hm
      have hsa : a.sid = sid := by rw [← hs3, hab, subtreeNode_sid]
      rcases uq_implL_val X o cx2 sk (ks.map normNew) a ha with h1 | ⟨k0, hk0, hno, hval⟩
      · exfalso
        obtain ⟨y, hy, rfl⟩ := List.mem_map.1 h1
        rw [normNew_sid] at hsa
        have : hasInst ks sid = true := by
          unfold hasInst; exact List.any_eq_true.2 ⟨y, hy, by simp [hsa]⟩
        rw [h'] at this; cases this
      · exact ⟨a, b, k0, by rw [hab], hsa, hk0, hno, hval⟩

/-- a leaf of the level: the same value in use on the completed level and in the explicit data -/
theorem uq_leaf_step {X : SchemaX} {o : VOpts} (G : uq_Glob X o) {fuel : Nat} {cx1 cx2 cx3 : Cx} {sk : List STree} {ks : List DNode}
    (hv : uq_Lvl X fuel sk ks) (F : LevelFacts X o fuel cx1 cx2 cx3 sk ks) {k : STree} (hb : BelowL k sk) (hkind : k.info.kind = .leaf) :
    leafValInUse [k] (pipeTree X o fuel cx1 cx2 cx3 sk ks) = leafValInUse [k] (explicitL ks) := by
  rw [lvu_single, lvu_single]
  have hall := (goodL_all X sk ks).1 hv.good
  rcases uq_level_find hv F k.sid with ⟨y, b, hy, hys, h3, hE⟩ | ⟨hE, h3 | ⟨a, b, k0, h3, hsa, hk0, hno, hval⟩⟩
  · rw [h3, hE]
    have hterm : y.isTerm = true := by
      cases y with
      | term s f m v => rfl
      | inner s f m kk =>
        exfalso
        have hg := (hall _ hy).2
        rw [goodN_inner] at hg
        have hys : s = k.sid := hys
        have := (uq_isKind G.hio (hv.top k hb) .leaf).2 hkind
        rw [hys, this] at hg
        exact absurd hg.2.1 (by simp)
    rw [uq_subtree_term_node X o fuel cx3 b _ (by rw [normNew_isTerm]; exact hterm)]
    dsimp only
    rw [uq_normNew_val, exN_val]
  · rw [h3, hE]
  · rw [h3, hE]
    have hinfo : k0.info = k.info := uq_info_eq G.hio (hv.top k hb) (hv.top k0 hk0) (hno.1.symm.trans hsa)
    have hk0kind : k0.info.kind = .leaf := by rw [hinfo]; exact hkind
    have hterm : a.isTerm = true := by
      rcases hno.2.2.2 with h | h
      · exfalso
        have := h.2
        unfold STree.isNpCont at this
        rw [hk0kind] at this
        simp at this
      · exact h.1
    rw [uq_subtree_term_node X o fuel cx3 b a hterm]
    dsimp only
    rw [← hinfo, hval hk0kind]

theorem uq_kids_inner (s : Nat) (f : Flags) (m : List Meta) (ks : List DNode) : (DNode.inner s f m ks).kids = ks := rfl

/-- a container of the level: the same continuation on the completed level and in the explicit data -/
theorem uq_cont_step {X : SchemaX} {o : VOpts} (G : uq_Glob X o) {fuel : Nat} (ih : ∀ f, f < fuel → uq_LvuPipe X o f)
    {cx1 cx2 cx3 : Cx} {sk : List STree} {ks : List DNode}
    (hv : uq_Lvl X fuel sk ks) (F : LevelFacts X o fuel cx1 cx2 cx3 sk ks) {k : STree} (hb : BelowL k sk)
    (hkind : k.info.kind = .container) {target : Nat} {q : List STree} (hc : Chain target k.kids q) (hok : uq_pathOk q = true) :
    (match (pipeTree X o fuel cx1 cx2 cx3 sk ks).find? (·.sid == k.sid) with
      | some c => leafValInUse q c.kids
      | none => if k.info.presence then none else leafValInUse q []) =
    (match (explicitL ks).find? (·.sid == k.sid) with
      | some c => leafValInUse q c.kids
      | none => if k.info.presence then none else leafValInUse q []) := by
  have hall := (goodL_all X sk ks).1 hv.good
  have hbk := hv.top k hb
  have h1 : k.info.kind ≠ .choice := by rw [hkind]; decide
  have h2 : k.info.kind ≠ .case := by rw [hkind]; decide
  have hsane := (G.hs.data k hbk h1 h2).1
  have hk1 : sheight k ≤ fuel := Nat.le_trans (uq_belowL_sheight hb) hv.fuelOk
  have hk2 := sheight_kids k
  cases fuel with
  | zero => omega
  | succ f =>
    have hsub : ∀ (kk : List DNode) (c1 c2 c3 : Cx), goodL X k.kids kk = true → kk.length ≤ uint32Max →
        leafValInUse q (pipeTree X o f c1 c2 c3 k.kids kk) = leafValInUse q (explicitL kk) := fun kk c1 c2 c3 hg hlen =>
      ih f (Nat.lt_succ_self f) k.kids kk c1 c2 c3 ⟨by omega, fun k' h => belowL_trans hbk (below_of_kids h), hsane, hg, hlen⟩
        target q hc hok
    rcases uq_level_find hv F k.sid with ⟨y, b, hy, hys, h3, hE⟩ | ⟨hE, h3 | ⟨a, b, k0, h3, hsa, hk0, hno, hval⟩⟩
    · have hterm : y.isTerm = false := by
        cases y with
        | inner s fl m kk => rfl
        | term s fl m v =>
          exfalso
          have hg := (hall _ hy).2
          rw [goodN_term] at hg
          have hys : s = k.sid := hys
          rw [hys, uq_isKind G.hio hbk, uq_isKind G.hio hbk, hkind] at hg
          rcases hg.2 with h | h <;> cases h
      have hform : normNew y = .inner k.sid (normNew y).flags (normNew y).metas y.kids := by
        have := uq_inner_form (normNew y) (by rw [normNew_isTerm]; exact hterm)
        rw [normNew_sid, normNew_kids, hys] at this
        exact this
      have hgk := goodN_kids (hall _ hy).2 hterm
      rw [hys, G.hl k hbk] at hgk
      rw [hform, uq_subtree_inner, G.hl k hbk] at h3
      rw [h3, hE]
      dsimp only
      rw [uq_kids_inner, exN_kids]
      exact hsub y.kids _ _ _ hgk.1 hgk.2
    · rw [h3, hE]
    · have hinfo : k0.info = k.info := uq_info_eq G.hio hbk (hv.top k0 hk0) (hno.1.symm.trans hsa)
      have hshape : a.isTerm = false ∧ k.info.presence = false := by
        rcases hno.2.2.2 with h | h
        · refine ⟨h.1, ?_⟩
          have := h.2
          unfold STree.isNpCont at this
          rw [hinfo] at this
          simp only [Bool.and_eq_true, Bool.not_eq_eq_eq_not, Bool.not_true] at this
          exact this.2
        · exfalso
          rw [hinfo, hkind] at h
          rcases h.2 with h | h <;> cases h
      have hform : a = .inner k.sid a.flags a.metas [] := by
        have := uq_inner_form a hshape.1
        rw [hsa, hno.2.2.1] at this
        exact this
      rw [hform, uq_subtree_inner, G.hl k hbk] at h3
      rw [h3, hE, hshape.2]
      dsimp only
      rw [uq_kids_inner]
      have := hsub [] (cx3.descend X.base b (DNode.inner k.sid a.flags a.metas []))
        (cx3.descend X.base b (DNode.inner k.sid a.flags a.metas [])).keysOld
        (cx3.descend X.base b (DNode.inner k.sid a.flags a.metas [])).keysOld (by unfold goodL; rfl) (Nat.zero_le _)
      rw [this]
      have hex : explicitL [] = [] := by unfold explicitL; rfl
      rw [hex]
      simp

/-! ### a choice step -/

theorem uq_any_uns {H H3 : Nat → Bool} {ds : List Nat} (h : Uns H H3 ds) : ds.any H3 = ds.any H := by
  rw [Bool.eq_iff_iff]
  simp only [List.any_eq_true]
  constructor
  · rintro ⟨x, hx, hh⟩; exact ⟨x, hx, by rw [← h x hx]; exact hh⟩
  · rintro ⟨x, hx, hh⟩; exact ⟨x, hx, by rw [h x hx]; exact hh⟩

theorem uq_uns_sub {H H3 : Nat → Bool} {ds ds' : List Nat} (h : Uns H H3 ds) (hs : ∀ x ∈ ds', x ∈ ds) : Uns H H3 ds' :=
  fun x hx => h x (hs x hx)

theorem uq_any_mono {H H3 : Nat → Bool} {ds : List Nat} (h : ∀ x ∈ ds, H x = true → H3 x = true) (ha : ds.any H = true) :
    ds.any H3 = true := by
  obtain ⟨x, hx, hh⟩ := List.any_eq_true.1 ha
  exact List.any_eq_true.2 ⟨x, hx, h x hx hh⟩

/-- with data of the choice, the selected case has data -/
theorem uq_sel_data {i : SNode} {cases : List STree} {H : Nat → Bool} {c0 : STree} (hsel : selCase i cases H = some c0)
    (hA : (dataSidsL cases).any H = true) : c0.dataSids.any H = true := by
  unfold selCase at hsel
  cases hf : cases.find? (fun c => c.dataSids.any H) with
  | some c' =>
    rw [hf] at hsel
    injection hsel with hsel
    subst hsel
    exact List.find?_some (p := fun c : STree => c.dataSids.any H) hf
  | none =>
    exfalso
    rw [List.find?_eq_none] at hf
    obtain ⟨x, hx, hh⟩ := List.any_eq_true.1 hA
    obtain ⟨c, hc, hxc⟩ := mem_dataSidsL hx
    exact hf c hc (List.any_eq_true.2 ⟨x, hxc, hh⟩)

/-- without data of the choice, the first case with the default name is selected -/
theorem uq_sel_named {s : Nat} {i : SNode} {cases : List STree} {H : Nat → Bool} {k2 : STree}
    (hA : ¬ (dataSidsL cases).any H = true) (hD : (i.dfltCase == some k2.info.name) = true)
    (hfn : uq_firstNamed (.mk s i cases) k2 = true) : selCase i cases H = some k2 := by
  unfold selCase
  have hf : cases.find? (fun c => c.dataSids.any H) = none := by
    rw [List.find?_eq_none]
    intro c hc hd
    apply hA
    obtain ⟨x, hx, hh⟩ := List.any_eq_true.1 hd
    exact List.any_eq_true.2 ⟨x, dataSids_sub_L hc x hx, hh⟩
  rw [hf, eq_of_beq hD]
  unfold uq_firstNamed at hfn
  simp only [STree.kids] at hfn
  dsimp only
  cases hn : cases.find? (fun c => c.info.name == k2.info.name) with
  | none => rw [hn] at hfn; cases hfn
  | some c0 =>
    rw [hn] at hfn
    rw [steq_eq c0 k2 hfn]

/-- **one choice step of `leafValInUse`**: the conditions on the completed level and on the explicit data lead to the same
continuation, given that the continuations agree on the children of the case (completed or untouched) -/
theorem uq_choice_step {o : VOpts} {L3 E : List DNode} {cks : List STree} {s : Nat} {i : SNode} {cases : List STree} {k2 : STree}
    (hinv : Sel o (hasInst E) (hasInst L3) cks ∨ Uns (hasInst E) (hasInst L3) (dataSidsL cks))
    (hk : kindsOkL cks = true) (hnd : (dataSidsL cks).Nodup) (hmem : STree.mk s i cases ∈ cks) (hkind : i.kind = .choice)
    (hk2 : k2 ∈ cases) (hfn : uq_firstNamed (.mk s i cases) k2 = true) {R3 R : Option Bytes}
    (hR : (Sel o (hasInst E) (hasInst L3) k2.kids ∨ Uns (hasInst E) (hasInst L3) (dataSidsL k2.kids)) → R3 = R) :
    (if hasData L3 (STree.mk s i cases).dataSids = true then (if hasData L3 k2.dataSids = true then R3 else none)
      else if (i.dfltCase == some k2.info.name) = true then R3 else none) =
    (if hasData E (STree.mk s i cases).dataSids = true then (if hasData E k2.dataSids = true then R else none)
      else if (i.dfltCase == some k2.info.name) = true then R else none) := by
  have wf := sel_kids_wf hk hnd hmem hkind hk2
  have hsubK : ∀ x ∈ dataSidsL cases, x ∈ dataSidsL cks := by
    intro x hx
    exact dataSids_sub_L hmem x (by rw [dataSids_choice hkind]; exact hx)
  have hsub2 : ∀ x ∈ k2.dataSids, x ∈ dataSidsL cases := dataSids_sub_L hk2
  rw [hasData_eq_any, hasData_eq_any, hasData_eq_any, hasData_eq_any, dataSids_choice hkind]
  have unsAll : Uns (hasInst E) (hasInst L3) (dataSidsL cases) →
      (if (dataSidsL cases).any (hasInst L3) = true then if k2.dataSids.any (hasInst L3) = true then R3 else none
        else if (i.dfltCase == some k2.info.name) = true then R3 else none) =
      if (dataSidsL cases).any (hasInst E) = true then if k2.dataSids.any (hasInst E) = true then R else none
        else if (i.dfltCase == some k2.info.name) = true then R else none := fun hU => by
    rw [uq_any_uns hU, uq_any_uns (uq_uns_sub hU hsub2), hR (Or.inr (uq_uns_sub hU (by rw [← wf.2.2.2]; exact hsub2)))]
  rcases hinv with hS | hU
  rotate_left
  · exact unsAll (uq_uns_sub hU hsubK)
  obtain ⟨hst1, hst2⟩ := sel_down hS hk hnd hmem hkind
  by_cases hst : (o.noState && !i.config) = true
  · exact unsAll (hst1 hst)
  have hst' : (o.noState && !i.config) = false := by simpa using hst
  have hle : ∀ x ∈ dataSidsL cases, hasInst E x = true → hasInst L3 x = true := fun x hx => sel_sub hS x (hsubK x hx)
  have hc := hst2 hst' k2 hk2
  by_cases hsel : selCase i cases (hasInst E) = some k2
  · -- `k2` is the selected case
    rw [hR (Or.inl (hc.1 hsel))]
    by_cases hA : (dataSidsL cases).any (hasInst E) = true
    · have hB := uq_sel_data hsel hA
      have hB3 := uq_any_mono (fun x hx => hle x (hsub2 x hx)) hB
      have hA3 := uq_any_mono hle hA
      simp only [hA, hB, hA3, hB3, if_true]
    · have hB : ¬ k2.dataSids.any (hasInst E) = true := fun hB => hA (any_of_sub hsub2 hB)
      have hD := selCase_dflt_of_noData hsel hB
      have hD' : (i.dfltCase == some k2.info.name) = true := by rw [hD]; exact beq_self_eq_true _
      simp only [hA, hD', if_true, Bool.false_eq_true, if_false]
      by_cases hA3 : (dataSidsL cases).any (hasInst L3) = true
      · have hB3 : k2.dataSids.any (hasInst L3) = true := by
          obtain ⟨x, hx, hh⟩ := List.any_eq_true.1 hA3
          obtain ⟨c, hcm, hxc⟩ := mem_dataSidsL hx
          by_cases hck : c = k2
          · subst hck; exact List.any_eq_true.2 ⟨x, hxc, hh⟩
          · exfalso
            have hne : selCase i cases (hasInst E) ≠ some c := by
              rw [hsel]; intro he; injection he with he; exact hck he.symm
            have hUc := (hst2 hst' c hcm).2 hne
            apply hA
            exact List.any_eq_true.2 ⟨x, hx, by rw [← hUc x hxc]; exact hh⟩
        simp only [hA3, hB3, if_true]
      · simp only [hA3, Bool.false_eq_true, if_false]
  · -- `k2` is not selected: nothing was added below it
    have hU2 := hc.2 hsel
    rw [uq_any_uns hU2, hR (Or.inr (by rw [← wf.2.2.2]; exact hU2))]
    by_cases hA : (dataSidsL cases).any (hasInst E) = true
    · have hA3 := uq_any_mono hle hA
      simp only [hA, hA3, if_true]
    · have hB : ¬ k2.dataSids.any (hasInst E) = true := fun hB => hA (any_of_sub hsub2 hB)
      by_cases hD : (i.dfltCase == some k2.info.name) = true
      · exact absurd (uq_sel_named hA hD hfn) hsel
      · simp only [hA, hB, hD, ite_self]

/-! ### the induction -/

/-- paths from a sub-level `cks` of the level (the children of a case reached through choices of the level) -/
theorem uq_inner {X : SchemaX} {o : VOpts} (G : uq_Glob X o) {fuel : Nat} (ih : ∀ f, f < fuel → uq_LvuPipe X o f)
    {cx1 cx2 cx3 : Cx} {sk : List STree} {ks : List DNode} (hv : uq_Lvl X fuel sk ks)
    (F : LevelFacts X o fuel cx1 cx2 cx3 sk ks) (target : Nat) :
    ∀ (p cks : List STree), Chain target cks p → uq_pathOk p = true → (∀ k, BelowL k cks → BelowL k sk) →
      kindsOkL cks = true → (dataSidsL cks).Nodup →
      (Sel o (hasInst (explicitL ks)) (hasInst (pipeTree X o fuel cx1 cx2 cx3 sk ks)) cks ∨
        Uns (hasInst (explicitL ks)) (hasInst (pipeTree X o fuel cx1 cx2 cx3 sk ks)) (dataSidsL cks)) →
      leafValInUse p (pipeTree X o fuel cx1 cx2 cx3 sk ks) = leafValInUse p (explicitL ks)
  | [], _, h, _, _, _, _, _ => nomatch h
  | [k], cks, h, hok, hsub, _, _, _ => by
    have hk : k ∈ cks := by
      cases h with
      | last hk _ => exact hk
      | step _ hc => nomatch hc
    rw [uq_pathOk, beq_iff_eq] at hok
    exact uq_leaf_step G hv F (hsub k (BelowL.of_mem hk)) hok
  | k :: k2 :: rest, cks, h, hok, hsub, hkinds, hnd, hinv => by
    have ⟨hk, hc⟩ : k ∈ cks ∧ Chain target k.kids (k2 :: rest) := by
      cases h with
      | step hk hc => exact ⟨hk, hc⟩
    rw [uq_pathOk] at hok
    rw [lvu_cons2, lvu_cons2]
    cases hkind : k.info.kind with
    | container =>
      rw [hkind] at hok
      exact uq_cont_step G ih hv F (hsub k (BelowL.of_mem hk)) hkind hc hok
    | choice =>
      rw [hkind] at hok
      simp only [Bool.and_eq_true, beq_iff_eq] at hok
      obtain ⟨⟨_, hfn⟩, hok'⟩ := hok
      cases hc with
      | last _ _ => rw [uq_pathOk] at hok'; cases hok'
      | step hk2 hc2 =>
        cases k with
        | mk s i cases =>
          have hkind : i.kind = .choice := hkind
          have hk2 : k2 ∈ cases := hk2
          have wf := sel_kids_wf hkinds hnd hk hkind hk2
          exact uq_choice_step hinv hkinds hnd hk hkind hk2 hfn (fun inv =>
            uq_inner G ih hv F target rest k2.kids hc2 hok' (fun k' hb => hsub k' (belowL_of_case hk hk2 k' hb)) wf.1 wf.2.1 inv)
    | leaf => rw [hkind] at hok
    | leaflist => rw [hkind] at hok
    | list => rw [hkind] at hok
    | case => rw [hkind] at hok

/-- **(B)** completing a fresh level (`lyd_validate_new`, `lyd_new_implicit`, the walk below) does not change the value in use of a
leaf reached by a well-formed schema path from the level: implicit nodes carry the defaults the specification assumes -/
theorem uq_lvu_pipe {X : SchemaX} {o : VOpts} (G : uq_Glob X o) : ∀ fuel, uq_LvuPipe X o fuel := by
  intro fuel
  induction fuel using Nat.strongRecOn with
  | _ fuel ih =>
    intro sk ks cx1 cx2 cx3 hv target p hc hok
    have F := level_facts X o G.hop G.hq fuel cx1 cx2 cx3 sk ks hv.sane hv.good hv.len (fun k hk => G.hio k (hv.top k hk))
    exact uq_inner G ih hv F target p sk hc hok (fun _ h => h) hv.sane.kinds hv.sane.nodup (Or.inl F.sel)

/-! ## (C) the tuple of a completed list entry is the tuple of the specification -/

/-- every schema node is found under its own schema id (the ids are unique) -/
def NodeLookupOk (X : SchemaX) : Prop := ∀ k, BelowL k X.top → X.node? k.sid = some k

def nodeLookupOkB (X : SchemaX) : Bool :=
  allBelowL (fun k => match X.node? k.sid with | some k' => steq k' k | none => false) X.top

theorem nodeLookupOk_of_B (X : SchemaX) (h : nodeLookupOkB X = true) : NodeLookupOk X := by
  intro k hk
  have := allBelowL_spec _ hk h
  cases hn : X.node? k.sid with
  | none => rw [hn] at this; cases this
  | some k' => rw [hn] at this; rw [steq_eq k' k this]

/-- the `unique` statements of the schema: not empty, and every leaf is reached from its list — with the fuel of the
specification and with the fuel of the model — by one well-formed schema path whose data nodes are the chain the model walks -/
def UniqPathsOk (X : SchemaX) : Prop :=
  ∀ k, BelowL k X.top → ∀ u ∈ X.uniquesOf k.sid, u ≠ [] ∧ ∀ leaf ∈ u, ∃ p,
    pathTo (u.length + 64) k.kids leaf = some p ∧ pathTo (X.base.nodes.length + 1) k.kids leaf = some p ∧
    uq_pathOk p = true ∧ uniqChain X.base k.sid leaf = uq_chainOf p

def uniqPathsOkB (X : SchemaX) : Bool :=
  allBelowL (fun k => (X.uniquesOf k.sid).all fun u => !u.isEmpty && u.all fun leaf =>
    match pathTo (u.length + 64) k.kids leaf, pathTo (X.base.nodes.length + 1) k.kids leaf with
    | some p, some p' => steqL p p' && uq_pathOk p && (uniqChain X.base k.sid leaf == uq_chainOf p)
    | _, _ => false) X.top

theorem uniqPathsOk_of_B (X : SchemaX) (h : uniqPathsOkB X = true) : UniqPathsOk X := by
  intro k hk u hu
  have := allBelowL_spec _ hk h
  simp only [List.all_eq_true, Bool.and_eq_true, Bool.not_eq_eq_eq_not, Bool.not_true, List.isEmpty_eq_false_iff] at this
  obtain ⟨hne, hl⟩ := this u hu
  refine ⟨hne, fun leaf hleaf => ?_⟩
  have hp := hl leaf hleaf
  cases h1 : pathTo (u.length + 64) k.kids leaf with
  | none => rw [h1] at hp; cases hp
  | some p =>
    cases h2 : pathTo (X.base.nodes.length + 1) k.kids leaf with
    | none => rw [h1, h2] at hp; cases hp
    | some p' =>
      rw [h1, h2] at hp
      simp only [Bool.and_eq_true, beq_iff_eq] at hp
      refine ⟨p, rfl, ?_, hp.1.2, hp.2⟩
      rw [steqL_eq p p' hp.1.1]

/-- **(C)** for a list entry `y` of a fresh level, the tuple `lyd_validate_unique` computes on the completed entry is the tuple of
the specification on the explicit entry -/
theorem uq_tuple_eq {X : SchemaX} {o : VOpts} (G : uq_Glob X o) (hqu : X.q.uniqueDefaultAlways = false) (hnl : NodeLookupOk X)
    (hup : UniqPathsOk X) {fuel : Nat} {sk : List STree} {ks : List DNode} (hv : uq_Lvl X fuel sk ks) {k : STree}
    (hb : BelowL k sk) (hkind : k.info.kind = .list) {y : DNode} (hy : y ∈ ks) (hys : y.sid = k.sid) (cx : Cx) (b : List DNode)
    {u : List Nat} (hu : u ∈ X.uniquesOf k.sid) :
    uniqTuple X k.sid u (subtreeNode X o fuel cx b (normNew y)).1 = specTuple k u (exN y) := by
  have hall := (goodL_all X sk ks).1 hv.good
  have hbk := hv.top k hb
  have h1 : k.info.kind ≠ .choice := by rw [hkind]; decide
  have h2 : k.info.kind ≠ .case := by rw [hkind]; decide
  have hsane := (G.hs.data k hbk h1 h2).1
  have hk1 : sheight k ≤ fuel := Nat.le_trans (uq_belowL_sheight hb) hv.fuelOk
  have hk2 := sheight_kids k
  have hterm : y.isTerm = false := by
    cases y with
    | inner s fl m kk => rfl
    | term s fl m v =>
      exfalso
      have hg := (hall _ hy).2
      rw [goodN_term] at hg
      have hys : s = k.sid := hys
      rw [hys, uq_isKind G.hio hbk, uq_isKind G.hio hbk, hkind] at hg
      rcases hg.2 with h | h <;> cases h
  have hform : normNew y = .inner k.sid (normNew y).flags (normNew y).metas y.kids := by
    have := uq_inner_form (normNew y) (by rw [normNew_isTerm]; exact hterm)
    rw [normNew_sid, normNew_kids, hys] at this
    exact this
  have hgk := goodN_kids (hall _ hy).2 hterm
  rw [hys, G.hl k hbk] at hgk
  cases fuel with
  | zero => omega
  | succ f =>
    rw [hform, uq_subtree_inner, G.hl k hbk]
    unfold uniqTuple specTuple
    refine mapM_option_congr u (fun leaf hleaf => ?_)
    obtain ⟨p, hp1, hp2, hok, hchain⟩ := (hup k hbk u hu).2 leaf hleaf
    have hnode := hnl k hbk
    cases k with
    | mk s i kk =>
      rw [uq_uniqVal_eq X hqu hnode hp2 hok hchain, uq_kids_inner]
      simp only [STree.kids] at hp1 ⊢
      rw [hp1]
      dsimp only
      rw [exN_kids]
      exact uq_lvu_pipe G f kk y.kids _ _ _ ⟨by simp only [STree.kids] at hk2; omega,
        fun k' h => belowL_trans hbk (below_of_kids h), hsane, hgk.1, hgk.2⟩ leaf p (pathTo_chain _ _ _ _ hp1) hok

/-! ## (D) the verdict of `lyd_validate_unique` on the completed level is the verdict of the specification on the explicit data -/

theorem uq_check_isSome (X : SchemaX) (lst : Nat) (hash : List Bytes → Nat) (uniques : List (List Nat))
    (insts : List (DNode × Nat)) :
    (uniqueCheck X lst hash uniques insts).isSome = existsPair (uniqViolPair X lst uniques) insts := by
  unfold uniqueCheck
  match insts with
  | [] => simp [existsPair]
  | [a] => simp [existsPair]
  | [a, b] =>
    simp only [existsPair, List.any_cons, List.any_nil, Bool.or_false, uniqViolPair]
    split <;> simp_all
  | a :: b :: c :: rest =>
    simp only []
    rw [uniqueHash_isSome]
    simp

theorem uq_existsPair_not {α : Type} (p : α → α → Bool) : ∀ l : List α, existsPair p l = !pairwiseNe p l
  | [] => rfl
  | x :: xs => by
    rw [existsPair, pairwiseNe, uq_existsPair_not p xs, Bool.not_and, List.not_all_eq_any_not]
    simp only [Bool.not_not]

theorem uq_existsPair_map {α β : Type} (p : β → β → Bool) (f : α → β) : ∀ l : List α,
    existsPair (fun a b => p (f a) (f b)) l = existsPair p (l.map f)
  | [] => rfl
  | x :: xs => by
    rw [List.map_cons, existsPair, existsPair, uq_existsPair_map p f xs, List.any_map]
    rfl

theorem uq_existsPair_any {α γ : Type} (us : List γ) (q : γ → α → α → Bool) : ∀ l : List α,
    existsPair (fun a b => us.any fun u => q u a b) l = true ↔ ∃ u ∈ us, existsPair (q u) l = true
  | [] => by simp [existsPair]
  | x :: xs => by
    rw [existsPair, Bool.or_eq_true, uq_existsPair_any us q xs]
    simp only [existsPair, Bool.or_eq_true, List.any_eq_true]
    constructor
    · rintro (⟨y, hy, u, hu, h⟩ | ⟨u, hu, h⟩)
      · exact ⟨u, hu, Or.inl ⟨y, hy, h⟩⟩
      · exact ⟨u, hu, Or.inr h⟩
    · rintro ⟨u, hu, ⟨y, hy, h⟩ | h⟩
      · exact Or.inl ⟨y, hy, u, hu, h⟩
      · exact Or.inr ⟨u, hu, h⟩

theorem uq_existsPair_congr {α : Type} {p q : α → α → Bool} (h : ∀ a b, p a b = q a b) (l : List α) :
    existsPair p l = existsPair q l := by
  have : p = q := funext fun a => funext fun b => h a b
  rw [this]

theorem uq_instsIdx_fst (sid : Nat) : ∀ (l : List DNode) (n : Nat),
    ((l.zipIdx n).filter (·.1.sid == sid)).map (·.1) = instsOf l sid
  | [], _ => rfl
  | x :: xs, n => by
    unfold instsOf
    simp only [List.zipIdx_cons, List.filter_cons]
    split
    · simp only [List.map_cons]
      congr 1
      exact uq_instsIdx_fst sid xs (n + 1)
    · exact uq_instsIdx_fst sid xs (n + 1)

theorem uq_rel2_map_eq {α β γ : Type} {R : α → β → Prop} {f : α → γ} {g : β → γ} (hfg : ∀ a b, R a b → g b = f a) :
    ∀ {l : List α} {l' : List β}, Rel2 R l l' → l'.map g = l.map f
  | _, _, .nil => rfl
  | _, _, .cons hab t => by rw [List.map_cons, List.map_cons, hfg _ _ hab, uq_rel2_map_eq hfg t]

/-- the callback's verdict on the tuples -/
theorem uq_equal_tuple (X : SchemaX) (lst : Nat) (u : List Nat) (hu : u ≠ []) (a b : DNode) :
    uniqEqual X lst u a b = ((uniqTuple X lst u a).isSome && uniqTuple X lst u a == uniqTuple X lst u b) := by
  rw [Bool.eq_iff_iff, uniqEqual_iff_tuple, Bool.and_eq_true, beq_iff_eq]
  constructor
  · rintro ⟨_, v, h1, h2⟩
    rw [h1, h2]; exact ⟨rfl, rfl⟩
  · rintro ⟨h1, h2⟩
    cases ht : uniqTuple X lst u a with
    | none => rw [ht] at h1; cases h1
    | some v => exact ⟨hu, v, rfl, by rw [← h2, ht]⟩

/-- the instances of a list on the completed level are the completions of the explicit entries, in order -/
theorem uq_list_insts {X : SchemaX} {o : VOpts} (G : uq_Glob X o) {fuel : Nat} {cx1 cx2 cx3 : Cx} {sk : List STree} {ks : List DNode}
    (hv : uq_Lvl X fuel sk ks) (F : LevelFacts X o fuel cx1 cx2 cx3 sk ks) {k : STree} (hb : BelowL k sk) (hkind : k.info.kind = .list) :
    Rel2 (fun y y3 => ∃ b, y3 = (subtreeNode X o fuel cx3 b (normNew y)).1) (instsOf ks k.sid)
      (instsOf (pipeTree X o fuel cx1 cx2 cx3 sk ks) k.sid) := by
  rw [F.tree]
  by_cases h : hasInst ks k.sid = true
  · exact uq_insts_rel X o fuel cx2 cx3 sk ks k.sid h
  · have h' : hasInst ks k.sid = false := by simpa using h
    have h1 : instsOf ks k.sid = [] := List.length_eq_zero_iff.1 (instsOf_len_zero h')
    have h3 : instsOf (walkList (subtreeNode X o fuel cx3) [] (implL X o cx2 sk (ks.map normNew)).1).1 k.sid = [] := by
      rw [List.eq_nil_iff_forall_not_mem]
      intro a3 ha3
      rw [mem_instsOf] at ha3
      obtain ⟨a, ha, b, hab⟩ := walkList_res_mem _ _ _ a3 ha3.1
      have hsa : a.sid = k.sid := by rw [← ha3.2, hab, subtreeNode_sid]
      rcases uq_implL_val X o cx2 sk (ks.map normNew) a ha with hm | ⟨k0, hk0, hno, _⟩
      · obtain ⟨y, hy, rfl⟩ := List.mem_map.1 hm
        rw [normNew_sid] at hsa
        have : hasInst ks k.sid = true := by
          unfold hasInst; exact List.any_eq_true.2 ⟨y, hy, by simp [hsa]⟩
        rw [h'] at this; cases this
      · have hinfo : k0.info = k.info := uq_info_eq G.hio (hv.top k hb) (hv.top k0 hk0) (hno.1.symm.trans hsa)
        rcases hno.2.2.2 with h | h
        · have := h.2
          unfold STree.isNpCont at this
          rw [hinfo, hkind] at this
          simp at this
        · rw [hinfo, hkind] at h
          rcases h.2 with h | h <;> cases h
    rw [h1, h3]
    exact Rel2.nil

/-- **(D)** `lyd_validate_unique` reports an error for a list of the completed level iff the specification's `unique` constraint
is violated by the explicit entries -/
theorem uq_bridge {X : SchemaX} {o : VOpts} (G : uq_Glob X o) (hqu : X.q.uniqueDefaultAlways = false) (hnl : NodeLookupOk X)
    (hup : UniqPathsOk X) {fuel : Nat} {cx1 cx2 cx3 : Cx} {sk : List STree} {ks : List DNode} (hv : uq_Lvl X fuel sk ks)
    (F : LevelFacts X o fuel cx1 cx2 cx3 sk ks) {k : STree} (hb : BelowL k sk) (hkind : k.info.kind = .list) (cx : Cx) :
    (uniqueOut X o cx (pipeTree X o fuel cx1 cx2 cx3 sk ks) k).errs ≠ [] ↔
      ¬ ∀ u ∈ X.uniquesOf k.sid, uniqueOk k u (instsOf (explicitL ks) k.sid) = true := by
  have hfr : isFreshL ks = true := goodL_fresh X sk ks hv.good
  have hrel := uq_list_insts G hv F hb hkind
  have hbk := hv.top k hb
  -- the tuples of the completed entries are the tuples of the specification
  have htup : ∀ u ∈ X.uniquesOf k.sid, (instsOf (pipeTree X o fuel cx1 cx2 cx3 sk ks) k.sid).map (uniqTuple X k.sid u) =
      (instsOf (explicitL ks) k.sid).map (specTuple k u) := by
    intro u hu
    rw [explicitL_fresh ks hfr, instsOf_map_exN, List.map_map]
    -- the relation, with membership
    have hrel' : Rel2 (fun y y3 => y ∈ ks ∧ y.sid = k.sid ∧ ∃ b, y3 = (subtreeNode X o fuel cx3 b (normNew y)).1)
        (instsOf ks k.sid) (instsOf (pipeTree X o fuel cx1 cx2 cx3 sk ks) k.sid) := by
      have hmem : ∀ y ∈ instsOf ks k.sid, y ∈ ks ∧ y.sid = k.sid := fun y hy => mem_instsOf.1 hy
      generalize instsOf ks k.sid = I at hrel hmem
      generalize instsOf (pipeTree X o fuel cx1 cx2 cx3 sk ks) k.sid = I3 at hrel
      induction hrel with
      | nil => exact Rel2.nil
      | cons hab _ ih =>
        exact Rel2.cons ⟨(hmem _ List.mem_cons_self).1, (hmem _ List.mem_cons_self).2, hab⟩
          (ih (fun y hy => hmem y (List.mem_cons_of_mem _ hy)))
    refine uq_rel2_map_eq (fun y y3 r => ?_) hrel'
    obtain ⟨hy, hys, b, rfl⟩ := r
    exact uq_tuple_eq G hqu hnl hup hv hb hkind hy hys cx3 b hu
  have hne : ∀ u ∈ X.uniquesOf k.sid, u ≠ [] := fun u hu => (hup k hbk u hu).1
  -- the model's side
  have hmodel : (uniqueOut X o cx (pipeTree X o fuel cx1 cx2 cx3 sk ks) k).errs ≠ [] ↔
      ∃ u ∈ X.uniquesOf k.sid, existsPair (fun a b : Option (List Bytes) => a.isSome && a == b)
        ((instsOf (pipeTree X o fuel cx1 cx2 cx3 sk ks) k.sid).map (uniqTuple X k.sid u)) = true := by
    have hex : (uniqueCheck X k.sid (fun _ => 0) (X.uniquesOf k.sid) (instsIdx (pipeTree X o fuel cx1 cx2 cx3 sk ks) k.sid)).isSome = true ↔
        ∃ u ∈ X.uniquesOf k.sid, existsPair (fun a b : Option (List Bytes) => a.isSome && a == b)
          ((instsOf (pipeTree X o fuel cx1 cx2 cx3 sk ks) k.sid).map (uniqTuple X k.sid u)) = true := by
      rw [uq_check_isSome]
      have h1 : existsPair (uniqViolPair X k.sid (X.uniquesOf k.sid)) (instsIdx (pipeTree X o fuel cx1 cx2 cx3 sk ks) k.sid) =
          existsPair (fun a b : DNode => (X.uniquesOf k.sid).any fun u => uniqEqual X k.sid u a b)
            (instsOf (pipeTree X o fuel cx1 cx2 cx3 sk ks) k.sid) := by
        rw [← uq_instsIdx_fst k.sid _ 0, ← uq_existsPair_map]
        rfl
      rw [h1, uq_existsPair_any]
      constructor
      · rintro ⟨u, hu, h⟩
        refine ⟨u, hu, ?_⟩
        rw [← uq_existsPair_map, ← h]
        exact uq_existsPair_congr (fun a b => (uq_equal_tuple X k.sid u (hne u hu) a b).symm) _
      · rintro ⟨u, hu, h⟩
        refine ⟨u, hu, ?_⟩
        rw [← uq_existsPair_map] at h
        rw [← h]
        exact uq_existsPair_congr (fun a b => uq_equal_tuple X k.sid u (hne u hu) a b) _
    rw [← hex]
    unfold uniqueOut
    dsimp only
    rw [G.hop, Bool.or_false]
    by_cases hemp : (X.uniquesOf k.sid).isEmpty = true
    · simp only [hemp, if_true, Out.empty_errs, ne_eq, not_true_eq_false, false_iff]
      rw [List.isEmpty_iff] at hemp
      rw [hemp]
      cases hI : instsIdx (pipeTree X o fuel cx1 cx2 cx3 sk ks) k.sid with
      | nil => simp [uniqueCheck]
      | cons a l1 =>
        cases l1 with
        | nil => simp [uniqueCheck]
        | cons b l2 =>
          cases l2 with
          | nil => simp [uniqueCheck]
          | cons c l3 =>
            have := uq_check_isSome X k.sid (fun _ => 0) [] (a :: b :: c :: l3)
            rw [this]
            have hz : ∀ l : List (DNode × Nat), existsPair (uniqViolPair X k.sid []) l = false := by
              intro l
              induction l with
              | nil => rfl
              | cons x xs ih => rw [existsPair, ih]; simp [uniqViolPair]
            rw [hz]
            simp
    · simp only [hemp, Bool.false_eq_true, if_false]
      cases hc : uniqueCheck X k.sid (fun _ => 0) (X.uniquesOf k.sid) (instsIdx (pipeTree X o fuel cx1 cx2 cx3 sk ks) k.sid) with
      | none => simp
      | some r =>
        obtain ⟨n, idx⟩ := r
        simp [Out.err, Out.errs]
  rw [hmodel]
  constructor
  · rintro ⟨u, hu, h⟩ hall
    have := hall u hu
    unfold uniqueOk at this
    rw [htup u hu, uq_existsPair_not, this] at h
    cases h
  · intro hn
    rw [Classical.not_forall] at hn
    obtain ⟨u, hn⟩ := hn
    rw [Classical.not_imp] at hn
    obtain ⟨hu, hn⟩ := hn
    refine ⟨u, hu, ?_⟩
    rw [htup u hu, uq_existsPair_not]
    unfold uniqueOk at hn
    simpa using hn

end LyModel.Valid
