import LyModel.Valid.XpSpec
import LyModel.Valid.LemmasIff
import LyModel.Valid.ValApply
/-!
# `must` / leafref in the model against their specification

P1 `finalRX_errs`, `validateX_errs_nil_iff`: what `validateX` logs beyond `validate` — the leafref phase and the musts interleaved in
the final phase (`xpLvlOk`, `xpTreeOkL`: the model's traversal with its two counters, without paths).
-/
namespace LyModel.Valid
open LyModel LyModel.Tree

/-! ## P1: the errors of `finalRX` are those of `finalR` plus the must errors -/

/-- the node passes the state check and its musts hold (`na` / `nc`: its number in the whole / configuration-only document) -/
def nodeMustOk (S : Schema) (C : XCons) (o : VOpts) (D : XDocs) (na nc : Nat) (n : DNode) : Bool :=
  (o.noState && !S.config n.sid) ||
    (if S.config n.sid then mustsHold C.mask D.cfg nc (C.mustsOf n.sid) else mustsHold C.mask D.all na (C.mustsOf n.sid))

/-- the nodes of one sibling list, as `nodeChecksX` goes over them -/
def xpLvlOk (S : Schema) (C : XCons) (o : VOpts) (D : XDocs) : (na nc : Nat) → List DNode → Bool
  | _, _, [] => true
  | na, nc, n :: ns => nodeMustOk S C o D na nc n && xpLvlOk S C o D (na + countN n) (nc + countCfgN S n) ns

mutual
/-- the levels below, as `finalNodeX` / `finalKidsX` go over them -/
def xpTreeOkN (S : Schema) (C : XCons) (o : VOpts) (D : XDocs) (na nc : Nat) : DNode → Bool
  | .inner _ _ _ ks => xpLvlOk S C o D (na + 1) (nc + 1) ks && xpTreeOkL S C o D (na + 1) (nc + 1) ks
  | .term .. => true
def xpTreeOkL (S : Schema) (C : XCons) (o : VOpts) (D : XDocs) (na nc : Nat) : List DNode → Bool
  | [] => true
  | n :: ns => xpTreeOkN S C o D na nc n && xpTreeOkL S C o D (na + countN n) (nc + countCfgN S n) ns
end

theorem xp_err_errs (k : EKind) (p : Bytes) : (Out.err k p).errs = [{ kind := k, path := p }] := rfl

theorem mustOut_errs (o : VOpts) (hop : o.operational = false) (q : Nat) (d : XPath.Doc) (num : Nat) (path : Bytes) : ∀ (es : List Bytes),
    (mustOut o q d num path es).errs = [] ↔ mustsHold q d num es = true := by
  intro es
  induction es with
  | nil => unfold mustOut mustsHold; simp
  | cons e es ih =>
    unfold mustOut mustsHold
    rw [List.all_cons]
    cases h : xpBoolD q d num e with
    | error u => simp [xp_err_errs]
    | ok b =>
      cases b with
      | true =>
        dsimp only
        rw [Bool.true_and]
        exact ih
      | false =>
        dsimp only
        simp [hop, xp_err_errs]

theorem nodeChecksX_errs (S : Schema) (C : XCons) (o : VOpts) (hop : o.operational = false) (cx : Cx) (D : XDocs) :
    ∀ (rest before : List DNode) (na nc : Nat),
    (nodeChecksX S C o cx D na nc before rest).errs = [] ↔
      (nodeChecks S o cx before rest).errs = [] ∧ xpLvlOk S C o D na nc rest = true := by
  intro rest
  induction rest with
  | nil => intro before na nc; unfold nodeChecksX nodeChecks xpLvlOk; simp
  | cons n ns ih =>
    intro before na nc
    unfold nodeChecksX nodeChecks xpLvlOk nodeMustOk
    rw [Out.append_errs, Out.append_errs, List.append_eq_nil_iff, List.append_eq_nil_iff, ih]
    by_cases hst : (o.noState && !S.config n.sid) = true
    · simp [hst, xp_err_errs]
    · have hst' : (o.noState && !S.config n.sid) = false := by simpa using hst
      simp only [hst', Bool.false_eq_true, if_false, Out.empty_errs, true_and, Bool.false_or, Bool.and_eq_true]
      by_cases hc : S.config n.sid = true
      · simp only [hc, if_true, mustOut_errs o hop]
        constructor
        · rintro ⟨h1, h2, h3⟩; exact ⟨h2, h1, h3⟩
        · rintro ⟨h2, h1, h3⟩; exact ⟨h1, h2, h3⟩
      · simp only [hc, Bool.false_eq_true, if_false, mustOut_errs o hop]
        constructor
        · rintro ⟨h1, h2, h3⟩; exact ⟨h2, h1, h3⟩
        · rintro ⟨h2, h1, h3⟩; exact ⟨h1, h2, h3⟩

theorem levelChecksX_errs (X : SchemaX) (C : XCons) (o : VOpts) (hop : o.operational = false) (cx : Cx) (D : XDocs) (na nc : Nat)
    (sibs : List DNode) :
    (levelChecksX X C o cx D na nc sibs).errs = [] ↔ (levelChecks X o cx sibs).errs = [] ∧ xpLvlOk X.base C o D na nc sibs = true := by
  unfold levelChecksX levelChecks
  rw [Out.append_errs, Out.append_errs, List.append_eq_nil_iff, List.append_eq_nil_iff, nodeChecksX_errs X.base C o hop]
  constructor
  · rintro ⟨⟨h1, h2⟩, h3⟩; exact ⟨⟨h1, h3⟩, h2⟩
  · rintro ⟨⟨h1, h3⟩, h2⟩; exact ⟨⟨h1, h2⟩, h3⟩

mutual
theorem finalNodeX_errs (X : SchemaX) (C : XCons) (o : VOpts) (hop : o.operational = false) (cx : Cx) (D : XDocs) :
    ∀ (n : DNode) (na nc : Nat) (before : List DNode),
    (finalNodeX X C o cx D na nc before n).1 = (finalNode X o cx before n).1 ∧
    ((finalNodeX X C o cx D na nc before n).2.errs = [] ↔
      (finalNode X o cx before n).2.errs = [] ∧ xpTreeOkN X.base C o D na nc n = true)
  | .inner s f m ks, na, nc, before => by
    unfold finalNodeX finalNode xpTreeOkN
    dsimp only
    have h := finalKidsX_errs X C o hop (cx.descend X.base before (.inner s f m ks)) D ks (na + 1) (nc + 1) []
    refine ⟨by rw [h.1], ?_⟩
    rw [Out.append_errs, Out.append_errs, List.append_eq_nil_iff, List.append_eq_nil_iff, levelChecksX_errs X C o hop, h.2,
      Bool.and_eq_true]
    constructor
    · rintro ⟨⟨h1, h2⟩, h3, h4⟩; exact ⟨⟨h1, h3⟩, h2, h4⟩
    · rintro ⟨⟨h1, h3⟩, h2, h4⟩; exact ⟨⟨h1, h2⟩, h3, h4⟩
  | .term s f m v, na, nc, before => by
    unfold finalNodeX finalNode xpTreeOkN
    simp
theorem finalKidsX_errs (X : SchemaX) (C : XCons) (o : VOpts) (hop : o.operational = false) (cx : Cx) (D : XDocs) :
    ∀ (ns : List DNode) (na nc : Nat) (before : List DNode),
    (finalKidsX X C o cx D na nc before ns).1 = (finalKids X o cx before ns).1 ∧
    ((finalKidsX X C o cx D na nc before ns).2.errs = [] ↔
      (finalKids X o cx before ns).2.errs = [] ∧ xpTreeOkL X.base C o D na nc ns = true)
  | [], _, _, _ => by unfold finalKidsX finalKids xpTreeOkL; simp
  | n :: ns, na, nc, before => by
    unfold finalKidsX finalKids xpTreeOkL
    dsimp only
    have h1 := finalNodeX_errs X C o hop cx D n na nc before
    have h2 := finalKidsX_errs X C o hop cx D ns (na + countN n) (nc + countCfgN X.base n) (before ++ [n])
    refine ⟨by rw [h1.1, h2.1], ?_⟩
    rw [Out.append_errs, Out.append_errs, List.append_eq_nil_iff, List.append_eq_nil_iff, h1.2, h2.2, Bool.and_eq_true]
    constructor
    · rintro ⟨⟨a, b⟩, c, d⟩; exact ⟨⟨a, c⟩, b, d⟩
    · rintro ⟨⟨a, c⟩, b, d⟩; exact ⟨⟨a, b⟩, c, d⟩
end

/-- **P1** `lyd_validate_final_r` with musts: the same tree, and no error iff no error without the musts and every must holds -/
theorem finalRX_errs (X : SchemaX) (C : XCons) (o : VOpts) (hop : o.operational = false) (cx : Cx) (T : List DNode) :
    (finalRX X C o cx T).1 = (finalR X o cx T).1 ∧
    ((finalRX X C o cx T).2.errs = [] ↔ (finalR X o cx T).2.errs = [] ∧
      xpLvlOk X.base C o (xdocsOf X.base T) 1 1 T = true ∧ xpTreeOkL X.base C o (xdocsOf X.base T) 1 1 T = true) := by
  unfold finalRX finalR
  dsimp only
  have h := finalKidsX_errs X C o hop cx (xdocsOf X.base T) T 1 1 []
  refine ⟨h.1, ?_⟩
  rw [Out.append_errs, Out.append_errs, List.append_eq_nil_iff, List.append_eq_nil_iff, levelChecksX_errs X C o hop, h.2]
  constructor
  · rintro ⟨⟨a, b⟩, c, d⟩; exact ⟨⟨a, c⟩, b, d⟩
  · rintro ⟨⟨a, c⟩, b, d⟩; exact ⟨⟨a, b⟩, c, d⟩

/-- the tree the phases after the subtree walk see -/
def preFinal (X : SchemaX) (o : VOpts) (t : List DNode) : List DNode :=
  (subtreeKids X o (walkFuel X t) {} [] (implL X o {} X.top (validateNew X o {} t).1).1).1

/-- what the XPath phases of the model accept on the pre-final tree `T` -/
def xpModelOk (X : SchemaX) (C : XCons) (o : VOpts) (T : List DNode) : Prop :=
  (lrefPhase X C {} T).errs = [] ∧ xpLvlOk X.base C o (xdocsOf X.base T) 1 1 T = true ∧
    xpTreeOkL X.base C o (xdocsOf X.base T) 1 1 T = true

theorem validate_tree_preFinal (X : SchemaX) (o : VOpts) (t : List DNode) (hpe : (o.present && t.isEmpty) = false) :
    (validate X o t).tree = (finalR X o {} (preFinal X o t)).1 := by
  unfold validate preFinal
  simp only [hpe, Bool.false_eq_true, if_false]

/-- **P1** the errors of `validateX` beyond those of `validate` -/
theorem validateX_errs_nil_iff (X : SchemaX) (C : XCons) (o : VOpts) (hop : o.operational = false)
    (hwh : ∀ T, whenPhase X C o T = (T, {})) (t : List DNode) (hpe : (o.present && t.isEmpty) = false) :
    ((validateX X C o t).errs = [] ↔ (validate X o t).errs = [] ∧ xpModelOk X C o (preFinal X o t)) ∧
    (validateX X C o t).tree = (validate X o t).tree := by
  have hX : (validateX X C o t).errs = ((validateNew X o {} t).2 ++ (implL X o {} X.top (validateNew X o {} t).1).2 ++
      (subtreeKids X o (walkFuel X t) {} [] (implL X o {} X.top (validateNew X o {} t).1).1).2 ++ ({} : Out) ++
      lrefPhase X C {} (preFinal X o t) ++ (finalRX X C o {} (preFinal X o t)).2).errs ∧
      (validateX X C o t).tree = (finalRX X C o {} (preFinal X o t)).1 := by
    unfold validateX preFinal
    simp only [hpe, Bool.false_eq_true, if_false, hwh]
    refine ⟨?_, ?_⟩ <;> first | rfl | trivial
  have hF := finalRX_errs X C o hop {} (preFinal X o t)
  refine ⟨?_, by rw [hX.2, hF.1, validate_tree_preFinal X o t hpe]⟩
  rw [hX.1, VResult_errs_eq X o t hpe]
  unfold xpModelOk
  simp only [Out.append_errs, Out.empty_errs, List.append_nil, List.append_eq_nil_iff]
  rw [hF.2]
  unfold preFinal
  constructor
  · rintro ⟨⟨⟨⟨a, b⟩, c⟩, d⟩, e, f, g⟩; exact ⟨⟨⟨⟨a, b⟩, c⟩, e⟩, d, f, g⟩
  · rintro ⟨⟨⟨⟨a, b⟩, c⟩, e⟩, d, f, g⟩; exact ⟨⟨⟨⟨a, b⟩, c⟩, d⟩, e, f, g⟩

/-! ## P3: only the shape of the tree matters -/

mutual
/-- flags and metadata erased: schema ids, values and the tree structure stay -/
def shapeN : DNode → DNode
  | .inner s _ _ ks => .inner s {} [] (shapeL ks)
  | .term s _ _ v => .term s {} [] v
def shapeL : List DNode → List DNode
  | [] => []
  | n :: ns => shapeN n :: shapeL ns
end

theorem shapeN_sid (n : DNode) : (shapeN n).sid = n.sid := by cases n <;> rfl
theorem shapeN_val (n : DNode) : (shapeN n).val = n.val := by cases n <;> rfl
theorem shapeN_isTerm (n : DNode) : (shapeN n).isTerm = n.isTerm := by cases n <;> rfl
theorem shapeN_kids (n : DNode) : (shapeN n).kids = shapeL n.kids := by
  cases n with
  | inner s f m ks => rw [shapeN]; rfl
  | term s f m v => rw [shapeN]; rfl

mutual
theorem countN_shape : ∀ (n : DNode), countN (shapeN n) = countN n
  | .inner s f m ks => by rw [shapeN, countN, countN, countL_shape ks]
  | .term s f m v => by rw [shapeN, countN, countN]
theorem countL_shape : ∀ (l : List DNode), countL (shapeL l) = countL l
  | [] => by rw [shapeL]
  | n :: ns => by rw [shapeL, countL, countL, countN_shape n, countL_shape ns]
end

mutual
theorem elemsN_shape (S : Schema) : ∀ (n : DNode) (parent num : Nat), elemsN S parent num (shapeN n) = elemsN S parent num n
  | .inner s f m ks, parent, num => by rw [shapeN, elemsN, elemsN, elemsL_shape S ks]
  | .term s f m v, parent, num => by rw [shapeN, elemsN, elemsN]
theorem elemsL_shape (S : Schema) : ∀ (l : List DNode) (parent num : Nat), elemsL S parent num (shapeL l) = elemsL S parent num l
  | [], _, _ => by rw [shapeL]
  | n :: ns, parent, num => by rw [shapeL, elemsL, elemsL, elemsN_shape S n, countN_shape n, elemsL_shape S ns]
end

theorem docOf_shape (S : Schema) (T : List DNode) : docOf S (shapeL T) = docOf S T := by
  unfold docOf
  rw [elemsL_shape]

mutual
theorem cfgN_shape (S : Schema) : ∀ (n : DNode), cfgN S (shapeN n) = (cfgN S n).map shapeN
  | .inner s f m ks => by
    rw [shapeN, cfgN, cfgN, cfgL_shape S ks]
    split
    · rw [Option.map_some, shapeN]
    · rfl
  | .term s f m v => by
    rw [shapeN, cfgN, cfgN]
    split
    · rw [Option.map_some, shapeN]
    · rfl
theorem cfgL_shape (S : Schema) : ∀ (l : List DNode), cfgL S (shapeL l) = shapeL (cfgL S l)
  | [] => by rw [shapeL, cfgL, shapeL]
  | n :: ns => by
    rw [shapeL, cfgL, cfgL, cfgN_shape S n, cfgL_shape S ns]
    cases cfgN S n with
    | none => rfl
    | some n' => simp only [Option.map_some]; rw [shapeL]
end

theorem numberL_nil (num : Nat) : numberL num [] = [] := by rw [numberL]
theorem numberL_cons (num : Nat) (n : DNode) (ns : List DNode) :
    numberL num (n :: ns) = (num, n) :: (numberL (num + 1) n.kids ++ numberL (num + countN n) ns) := by rw [numberL]

mutual
theorem numberN_shape : ∀ (n : DNode) (num : Nat),
    numberL num (shapeN n).kids = (numberL num n.kids).map fun p => (p.1, shapeN p.2)
  | .inner s f m ks, num => by
    rw [shapeN_kids]
    exact numberL_shape ks num
  | .term s f m v, num => by
    rw [shapeN_kids]
    simp only [DNode.kids]
    rw [shapeL, numberL_nil]
    rfl
theorem numberL_shape : ∀ (l : List DNode) (num : Nat),
    numberL num (shapeL l) = (numberL num l).map fun p => (p.1, shapeN p.2)
  | [], num => by rw [shapeL, numberL_nil]; rfl
  | n :: ns, num => by
    rw [shapeL, numberL_cons, numberL_cons, numberN_shape n, countN_shape n, numberL_shape ns]
    simp only [List.map_cons, List.map_append]
end

/-- **P3** the XPath-dependent constraints see schema ids, values and structure only -/
theorem xpViolations_shape (S : Schema) (C : XCons) (T : List DNode) : xpViolations S C (shapeL T) = xpViolations S C T := by
  unfold xpViolations xpMustCfg xpMustState xpLref
  rw [cfgL_shape, docOf_shape, docOf_shape, numberL_shape, numberL_shape]
  simp only [List.flatMap_map, List.filterMap_map, Function.comp_def, shapeN_sid, shapeN_isTerm, shapeN_val]

theorem xpViolations_of_shape (S : Schema) (C : XCons) {T1 T2 : List DNode} (h : shapeL T1 = shapeL T2) :
    xpViolations S C T1 = xpViolations S C T2 := by
  rw [← xpViolations_shape S C T1, ← xpViolations_shape S C T2, h]

mutual
theorem shapeN_obs (S : Schema) : ∀ (n : DNode), shapeN (obsN S n) = shapeN n
  | .inner s f m ks => by rw [obsN, shapeN, shapeN, shapeL_obs S ks]
  | .term s f m v => by rw [obsN, shapeN, shapeN]
theorem shapeL_obs (S : Schema) : ∀ (l : List DNode), shapeL (obsL S l) = shapeL l
  | [] => by rw [obsL]
  | n :: ns => by rw [obsL, shapeL, shapeL, shapeN_obs S n, shapeL_obs S ns]
end

/-- the observation of C07 erases less than the shape -/
theorem shape_of_obs (S : Schema) {T1 T2 : List DNode} (h : obsL S T1 = obsL S T2) : shapeL T1 = shapeL T2 := by
  rw [← shapeL_obs S T1, ← shapeL_obs S T2, h]

theorem shapeN_npSet (S : Schema) (n : DNode) : shapeN (npSet S n) = shapeN n := by
  cases n with
  | inner s f m ks =>
    rw [npSet]
    split
    · rw [shapeN, shapeN]
    · rfl
  | term s f m v => rw [npSet]; intro _ _ _ _ h; cases h

mutual
theorem shapeN_finalNode (X : SchemaX) (o : VOpts) (cx : Cx) : ∀ (n : DNode) (before : List DNode),
    shapeN (finalNode X o cx before n).1 = shapeN n
  | .inner s f m ks, before => by
    unfold finalNode
    dsimp only
    rw [shapeN_npSet, shapeN, shapeN, shapeL_finalKids X o _ ks]
  | .term s f m v, before => by unfold finalNode; rfl
theorem shapeL_finalKids (X : SchemaX) (o : VOpts) (cx : Cx) : ∀ (ns : List DNode) (before : List DNode),
    shapeL (finalKids X o cx before ns).1 = shapeL ns
  | [], _ => by unfold finalKids; rfl
  | n :: ns, before => by
    unfold finalKids
    dsimp only
    rw [shapeL, shapeL, shapeN_finalNode X o cx n, shapeL_finalKids X o cx ns]
end

/-- `lyd_validate_final_r` changes default flags only -/
theorem shapeL_finalR (X : SchemaX) (o : VOpts) (cx : Cx) (T : List DNode) : shapeL (finalR X o cx T).1 = shapeL T := by
  unfold finalR
  exact shapeL_finalKids X o cx T []

/-! ## P2: the model's counters agree with the numbering of the specification -/

mutual
/-- `config false` is inherited in the data: below a state node there are state nodes only (`pcfg`: the parent is configuration) -/
def cfgClosedN (S : Schema) (pcfg : Bool) : DNode → Bool
  | .inner s _ _ ks => (pcfg || !S.config s) && cfgClosedL S (S.config s) ks
  | .term s _ _ _ => pcfg || !S.config s
def cfgClosedL (S : Schema) (pcfg : Bool) : List DNode → Bool
  | [] => true
  | n :: ns => cfgClosedN S pcfg n && cfgClosedL S pcfg ns
end

mutual
/-- a predicate on every node of a forest, with the model's two counters -/
def travN (S : Schema) (P : Nat → Nat → DNode → Bool) (na nc : Nat) : DNode → Bool
  | .inner s f m ks => P na nc (.inner s f m ks) && travL S P (na + 1) (nc + 1) ks
  | .term s f m v => P na nc (.term s f m v)
def travL (S : Schema) (P : Nat → Nat → DNode → Bool) (na nc : Nat) : List DNode → Bool
  | [] => true
  | n :: ns => travN S P na nc n && travL S P (na + countN n) (nc + countCfgN S n) ns
end

theorem xp_and4 (a b c d : Bool) : ((a && b) && (c && d)) = ((a && c) && (b && d)) := by
  cases a <;> cases b <;> cases c <;> cases d <;> rfl

mutual
theorem trav_of_okN (S : Schema) (C : XCons) (o : VOpts) (D : XDocs) : ∀ (n : DNode) (na nc : Nat),
    (nodeMustOk S C o D na nc n && xpTreeOkN S C o D na nc n) = travN S (nodeMustOk S C o D) na nc n
  | .inner s f m ks, na, nc => by rw [xpTreeOkN, travN, trav_of_okL S C o D ks]
  | .term s f m v, na, nc => by rw [xpTreeOkN, travN, Bool.and_true]
theorem trav_of_okL (S : Schema) (C : XCons) (o : VOpts) (D : XDocs) : ∀ (l : List DNode) (na nc : Nat),
    (xpLvlOk S C o D na nc l && xpTreeOkL S C o D na nc l) = travL S (nodeMustOk S C o D) na nc l
  | [], _, _ => by rw [xpLvlOk, xpTreeOkL, travL]; rfl
  | n :: ns, na, nc => by
    rw [xpLvlOk, xpTreeOkL, travL, xp_and4, trav_of_okN S C o D n, trav_of_okL S C o D ns]
end

mutual
theorem travN_and (S : Schema) (P Q : Nat → Nat → DNode → Bool) : ∀ (n : DNode) (na nc : Nat),
    travN S (fun a b n => P a b n && Q a b n) na nc n = (travN S P na nc n && travN S Q na nc n)
  | .inner s f m ks, na, nc => by rw [travN, travN, travN, travL_and S P Q ks, xp_and4]
  | .term s f m v, na, nc => by rw [travN, travN, travN]
theorem travL_and (S : Schema) (P Q : Nat → Nat → DNode → Bool) : ∀ (l : List DNode) (na nc : Nat),
    travL S (fun a b n => P a b n && Q a b n) na nc l = (travL S P na nc l && travL S Q na nc l)
  | [], _, _ => by rw [travL, travL, travL]; rfl
  | n :: ns, na, nc => by rw [travL, travL, travL, travN_and S P Q n, travL_and S P Q ns, xp_and4]
end

mutual
/-- a predicate that reads the counter of the whole document only: the numbering `numberL` -/
theorem travN_all (S : Schema) (Q : Nat → DNode → Bool) : ∀ (n : DNode) (na nc : Nat),
    travN S (fun a _ n => Q a n) na nc n = (Q na n && (numberL (na + 1) n.kids).all fun p => Q p.1 p.2)
  | .inner s f m ks, na, nc => by rw [travN, travL_all S Q ks]; rfl
  | .term s f m v, na, nc => by rw [travN]; simp only [DNode.kids]; rw [numberL_nil]; simp
theorem travL_all (S : Schema) (Q : Nat → DNode → Bool) : ∀ (l : List DNode) (na nc : Nat),
    travL S (fun a _ n => Q a n) na nc l = (numberL na l).all fun p => Q p.1 p.2
  | [], na, nc => by rw [travL, numberL_nil]; rfl
  | n :: ns, na, nc => by
    rw [travL, numberL_cons, travN_all S Q n, travL_all S Q ns]
    simp only [List.all_cons, List.all_append, Bool.and_assoc]
end

/-- the predicate of a configuration node, read with the counter of the configuration-only document -/
def cfgPred (S : Schema) (R : Nat → Nat → Bool) : Nat → Nat → DNode → Bool := fun _ nc n => !S.config n.sid || R nc n.sid

mutual
theorem travN_state (S : Schema) (R : Nat → Nat → Bool) : ∀ (n : DNode) (na nc : Nat), cfgClosedN S false n = true →
    travN S (cfgPred S R) na nc n = true
  | .inner s f m ks, na, nc, h => by
    rw [cfgClosedN, Bool.false_or, Bool.and_eq_true] at h
    have hc : S.config s = false := by simpa using h.1
    rw [travN, travL_state S R ks _ _ (by rw [← hc]; exact h.2)]
    simp [cfgPred, DNode.sid, hc]
  | .term s f m v, na, nc, h => by
    rw [cfgClosedN, Bool.false_or] at h
    rw [travN]
    simp [cfgPred, DNode.sid, h]
theorem travL_state (S : Schema) (R : Nat → Nat → Bool) : ∀ (l : List DNode) (na nc : Nat), cfgClosedL S false l = true →
    travL S (cfgPred S R) na nc l = true
  | [], _, _, _ => by rw [travL]
  | n :: ns, na, nc, h => by
    rw [cfgClosedL, Bool.and_eq_true] at h
    rw [travL, travN_state S R n _ _ h.1, travL_state S R ns _ _ h.2]
    rfl
end

theorem cfgN_of_config (S : Schema) (n : DNode) (h : S.config n.sid = true) :
    ∃ n', cfgN S n = some n' ∧ n'.sid = n.sid ∧ n'.kids = cfgL S n.kids := by
  cases n with
  | inner s f m ks =>
    have h : S.config s = true := h
    exact ⟨.inner s f m (cfgL S ks), by rw [cfgN, if_pos h], rfl, rfl⟩
  | term s f m v =>
    have h : S.config s = true := h
    refine ⟨.term s f m v, by rw [cfgN, if_pos h], rfl, ?_⟩
    simp only [DNode.kids]
    rw [cfgL]

theorem cfgN_of_state (S : Schema) (n : DNode) (h : S.config n.sid = false) : cfgN S n = none := by
  cases n with
  | inner s f m ks =>
    have h : S.config s = false := h
    rw [cfgN, h]; rfl
  | term s f m v =>
    have h : S.config s = false := h
    rw [cfgN, h]; rfl

theorem cfgClosedN_state (S : Schema) (n : DNode) (h : cfgClosedN S true n = true) (hc : S.config n.sid = false) :
    cfgClosedN S false n = true := by
  cases n with
  | inner s f m ks =>
    have hc : S.config s = false := hc
    rw [cfgClosedN] at h ⊢
    simpa [hc] using h
  | term s f m v =>
    have hc : S.config s = false := hc
    rw [cfgClosedN]
    simp [hc]

mutual
theorem travN_cfg (S : Schema) (R : Nat → Nat → Bool) : ∀ (n : DNode) (na nc : Nat), cfgClosedN S true n = true →
    S.config n.sid = true →
    travN S (cfgPred S R) na nc n = (R nc n.sid && (numberL (nc + 1) (cfgL S n.kids)).all fun p => R p.1 p.2.sid)
  | .inner s f m ks, na, nc, h, hc => by
    have hc : S.config s = true := hc
    rw [cfgClosedN, Bool.and_eq_true, hc] at h
    rw [travN, travL_cfg S R ks _ _ h.2]
    simp [cfgPred, DNode.sid, DNode.kids, hc]
  | .term s f m v, na, nc, h, hc => by
    have hc : S.config s = true := hc
    rw [travN]
    simp only [DNode.kids]
    rw [cfgL, numberL_nil]
    simp [cfgPred, DNode.sid, hc]
theorem travL_cfg (S : Schema) (R : Nat → Nat → Bool) : ∀ (l : List DNode) (na nc : Nat), cfgClosedL S true l = true →
    travL S (cfgPred S R) na nc l = (numberL nc (cfgL S l)).all fun p => R p.1 p.2.sid
  | [], _, _, _ => by rw [travL, cfgL, numberL_nil]; rfl
  | n :: ns, na, nc, h => by
    rw [cfgClosedL, Bool.and_eq_true] at h
    rw [travL, cfgL]
    by_cases hc : S.config n.sid = true
    · obtain ⟨n', hn', hs, hk⟩ := cfgN_of_config S n hc
      have hcount : countCfgN S n = countN n' := by unfold countCfgN; rw [hn']
      rw [hn', hcount, travN_cfg S R n _ _ h.1 hc, travL_cfg S R ns _ _ h.2]
      dsimp only
      rw [numberL_cons, hk]
      simp only [List.all_cons, List.all_append, Bool.and_assoc, hs]
    · have hc' : S.config n.sid = false := by simpa using hc
      have hn' := cfgN_of_state S n hc'
      have hcount : countCfgN S n = 0 := by unfold countCfgN; rw [hn']
      rw [hn', hcount, travN_state S R n _ _ (cfgClosedN_state S n h.1 hc'), travL_cfg S R ns _ _ h.2]
      simp
end

/-! ### the clauses of the specification as predicates over the numbering -/

theorem must_filterMap_nil (q : Nat) (d : XPath.Doc) (num : Nat) : ∀ (es : List Bytes),
    mustViol q d num es = [] ↔ mustsHold q d num es = true := by
  intro es
  induction es with
  | nil => simp [mustsHold, mustViol]
  | cons e es ih =>
    unfold mustsHold mustViol at ih ⊢
    rw [List.filterMap_cons, List.all_cons]
    cases h : xpBoolD q d num e with
    | error u => simp
    | ok b =>
      cases b with
      | true => simpa using ih
      | false => simp

theorem flatMap_nil_iff_all {α β : Type} (l : List α) (f : α → List β) (g : α → Bool) (h : ∀ x, f x = [] ↔ g x = true) :
    l.flatMap f = [] ↔ l.all g = true := by
  induction l with
  | nil => simp
  | cons x xs ih => rw [List.flatMap_cons, List.append_eq_nil_iff, List.all_cons, Bool.and_eq_true, h x, ih]

theorem filterMap_nil_iff_all {α β : Type} (l : List α) (f : α → Option β) (g : α → Bool) (h : ∀ x, f x = none ↔ g x = true) :
    l.filterMap f = [] ↔ l.all g = true := by
  induction l with
  | nil => simp
  | cons x xs ih =>
    rw [List.filterMap_cons, List.all_cons, Bool.and_eq_true, ← h x, ← ih]
    cases f x <;> simp

/-- the leafref verdict of a numbered node -/
def lrefGood (C : XCons) (d : XPath.Doc) (num : Nat) (n : DNode) : Bool :=
  match C.lrefOf n.sid with
  | some path => !(n.isTerm && !lrefOk C.mask d num n.val path)
  | none => true

mutual
theorem lrefN_nil_iff (S : Schema) (C : XCons) (d : XPath.Doc) : ∀ (n : DNode) (cx : Cx) (num : Nat) (before : List DNode),
    lrefN S C cx d num before n = [] ↔ (lrefGood C d num n = true ∨ n.isTerm = false) ∧
      ((numberL (num + 1) n.kids).all fun p => lrefGood C d p.1 p.2) = true
  | .inner s f m ks, cx, num, before => by
    rw [lrefN, lrefL_nil_iff S C d ks]
    simp [DNode.kids, DNode.isTerm]
  | .term s f m v, cx, num, before => by
    rw [lrefN]
    simp only [DNode.kids]
    rw [numberL_nil]
    unfold lrefGood
    simp only [DNode.sid, DNode.isTerm, DNode.val, Bool.true_and, List.all_nil, and_true, Bool.true_eq_false, or_false]
    cases C.lrefOf s with
    | none => simp
    | some path => cases lrefOk C.mask d num v path <;> simp
theorem lrefL_nil_iff (S : Schema) (C : XCons) (d : XPath.Doc) : ∀ (l : List DNode) (cx : Cx) (num : Nat) (before : List DNode),
    lrefL S C cx d num before l = [] ↔ ((numberL num l).all fun p => lrefGood C d p.1 p.2) = true
  | [], _, _, _ => by rw [lrefL, numberL_nil]; simp
  | n :: ns, cx, num, before => by
    rw [lrefL, List.append_eq_nil_iff, lrefN_nil_iff S C d n, lrefL_nil_iff S C d ns, numberL_cons]
    simp only [List.all_cons, List.all_append, Bool.and_eq_true]
    have : (lrefGood C d num n = true ∨ n.isTerm = false) ↔ lrefGood C d num n = true := by
      constructor
      · rintro (h | h)
        · exact h
        · unfold lrefGood; rw [h]; cases C.lrefOf n.sid <;> simp
      · exact Or.inl
    rw [this]
    constructor
    · rintro ⟨⟨a, b⟩, c⟩; exact ⟨a, b, c⟩
    · rintro ⟨a, b, c⟩; exact ⟨⟨a, b⟩, c⟩
end

theorem lrefPhase_errs (X : SchemaX) (C : XCons) (cx : Cx) (T : List DNode) :
    (lrefPhase X C cx T).errs = [] ↔ ((numberL 1 T).all fun p => lrefGood C (docOf X.base T) p.1 p.2) = true := by
  rw [← lrefL_nil_iff X.base C (docOf X.base T) T cx 1 []]
  unfold lrefPhase Out.errs
  simp only [List.filterMap_map, Function.comp_def]
  generalize lrefL X.base C cx (docOf X.base T) 1 [] T = l
  constructor
  · intro h
    cases hl : l.reverse with
    | nil => simpa using hl
    | cons e es => rw [hl] at h; simp at h
  · intro h; rw [h]; rfl

/-- **P2** on a tree without state data under `LYD_VALIDATE_NO_STATE` (what the structural checks guarantee) in which `config false`
is inherited, the model's XPath phases accept iff the specification's XPath-dependent constraints hold -/
theorem xpModelOk_iff (X : SchemaX) (C : XCons) (o : VOpts) (T : List DNode)
    (hst : o.noState = true → ∀ p ∈ numberL 1 T, X.base.config p.2.sid = true) (hcc : cfgClosedL X.base true T = true) :
    xpModelOk X C o T ↔ xpViolations X.base C T = [] := by
  unfold xpModelOk xpViolations
  rw [List.append_eq_nil_iff, List.append_eq_nil_iff, lrefPhase_errs]
  -- the leafref clause
  have h3 : xpLref X.base C T = [] ↔ ((numberL 1 T).all fun p => lrefGood C (docOf X.base T) p.1 p.2) = true := by
    unfold xpLref
    apply filterMap_nil_iff_all
    intro p
    unfold lrefGood
    cases C.lrefOf p.2.sid with
    | none => simp
    | some path =>
      by_cases hb : (p.2.isTerm && !lrefOk C.mask (docOf X.base T) p.1 p.2.val path) = true
      · simp only [hb, if_true]; simp
      · have hb' : (p.2.isTerm && !lrefOk C.mask (docOf X.base T) p.1 p.2.val path) = false := by simpa using hb
        simp only [hb', Bool.false_eq_true, if_false]; simp
  rw [h3]
  -- the must clauses
  have h1 : xpMustCfg X.base C T = [] ↔
      ((numberL 1 (cfgL X.base T)).all fun p => mustsHold C.mask (docOf X.base (cfgL X.base T)) p.1 (C.mustsOf p.2.sid)) = true := by
    unfold xpMustCfg
    exact flatMap_nil_iff_all _ _ _ (fun p => must_filterMap_nil _ _ _ _)
  have h2 : xpMustState X.base C T = [] ↔
      ((numberL 1 T).all fun p => X.base.config p.2.sid || mustsHold C.mask (docOf X.base T) p.1 (C.mustsOf p.2.sid)) = true := by
    unfold xpMustState
    apply flatMap_nil_iff_all
    intro p
    by_cases hc : X.base.config p.2.sid = true
    · simp [hc]
    · have hc' : X.base.config p.2.sid = false := by simpa using hc
      simp only [hc', Bool.false_eq_true, if_false, Bool.false_or]
      exact must_filterMap_nil _ _ _ _
  rw [h1, h2]
  -- the model's traversal
  have hfun : nodeMustOk X.base C o (xdocsOf X.base T) = fun a b n =>
      cfgPred X.base (fun nc sid => mustsHold C.mask (docOf X.base (cfgL X.base T)) nc (C.mustsOf sid)) a b n &&
      (fun a (_ : Nat) (n : DNode) => X.base.config n.sid || o.noState || mustsHold C.mask (docOf X.base T) a (C.mustsOf n.sid)) a b n := by
    funext a b n
    unfold nodeMustOk cfgPred xdocsOf
    by_cases hc : X.base.config n.sid = true
    · simp [hc]
    · have hc' : X.base.config n.sid = false := by simpa using hc
      simp [hc']
  have htrav : (xpLvlOk X.base C o (xdocsOf X.base T) 1 1 T = true ∧ xpTreeOkL X.base C o (xdocsOf X.base T) 1 1 T = true) ↔
      (((numberL 1 (cfgL X.base T)).all fun p => mustsHold C.mask (docOf X.base (cfgL X.base T)) p.1 (C.mustsOf p.2.sid)) = true ∧
       ((numberL 1 T).all fun p => X.base.config p.2.sid || o.noState || mustsHold C.mask (docOf X.base T) p.1 (C.mustsOf p.2.sid)) = true) := by
    rw [← Bool.and_eq_true, trav_of_okL, hfun, travL_and, Bool.and_eq_true, travL_cfg _ _ _ _ _ hcc,
      travL_all X.base (fun a n => X.base.config n.sid || o.noState || mustsHold C.mask (docOf X.base T) a (C.mustsOf n.sid))]
  rw [htrav]
  have hns : ((numberL 1 T).all fun p => X.base.config p.2.sid || o.noState || mustsHold C.mask (docOf X.base T) p.1 (C.mustsOf p.2.sid)) = true ↔
      ((numberL 1 T).all fun p => X.base.config p.2.sid || mustsHold C.mask (docOf X.base T) p.1 (C.mustsOf p.2.sid)) = true := by
    by_cases hn : o.noState = true
    · have hall := hst hn
      simp only [List.all_eq_true]
      constructor
      · intro _ p hp; rw [hall p hp]; rfl
      · intro _ p hp; rw [hall p hp]; rfl
    · have hn' : o.noState = false := by simpa using hn
      simp only [hn', Bool.or_false]
  rw [hns]
  constructor
  · rintro ⟨a, b, c⟩; exact ⟨⟨b, c⟩, a⟩
  · rintro ⟨⟨b, c⟩, a⟩; exact ⟨a, b, c⟩

/-! ### what the structural checks guarantee -/

mutual
theorem finalNode_allCfg (X : SchemaX) (o : VOpts) (hns : o.noState = true) : ∀ (n : DNode) (cx : Cx) (before : List DNode),
    (finalNode X o cx before n).2.errs = [] → ∀ (num : Nat), ∀ p ∈ numberL num n.kids, X.base.config p.2.sid = true
  | .inner s f m ks, cx, before, h => by
    unfold finalNode at h
    dsimp only at h
    rw [Out.append_errs, List.append_eq_nil_iff] at h
    unfold levelChecks at h
    rw [Out.append_errs, List.append_eq_nil_iff, nodeChecks_nil_iff] at h
    exact finalKids_allCfg X o hns ks _ [] (h.1.1 hns) h.2
  | .term s f m v, cx, before, _ => by
    intro num p hp
    simp only [DNode.kids] at hp
    rw [numberL_nil] at hp
    cases hp
theorem finalKids_allCfg (X : SchemaX) (o : VOpts) (hns : o.noState = true) : ∀ (ns : List DNode) (cx : Cx) (before : List DNode),
    (∀ n ∈ ns, X.base.config n.sid = true) → (finalKids X o cx before ns).2.errs = [] →
    ∀ (num : Nat), ∀ p ∈ numberL num ns, X.base.config p.2.sid = true
  | [], _, _, _, _ => by intro num p hp; rw [numberL_nil] at hp; cases hp
  | n :: ns, cx, before, hc, h => by
    unfold finalKids at h
    dsimp only at h
    rw [Out.append_errs, List.append_eq_nil_iff] at h
    intro num p hp
    rw [numberL_cons, List.mem_cons, List.mem_append] at hp
    rcases hp with rfl | hp | hp
    · exact hc n List.mem_cons_self
    · exact finalNode_allCfg X o hns n cx before h.1 _ p hp
    · exact finalKids_allCfg X o hns ns cx _ (fun x hx => hc x (List.mem_cons_of_mem _ hx)) h.2 _ p hp
end

/-- when `lyd_validate_final_r` logs nothing under `LYD_VALIDATE_NO_STATE`, the tree has configuration nodes only -/
theorem finalR_allCfg (X : SchemaX) (o : VOpts) (cx : Cx) (T : List DNode) (h : (finalR X o cx T).2.errs = []) (hns : o.noState = true) :
    ∀ p ∈ numberL 1 T, X.base.config p.2.sid = true := by
  unfold finalR at h
  dsimp only at h
  rw [Out.append_errs, List.append_eq_nil_iff] at h
  have h1 := h.1
  unfold levelChecks at h1
  rw [Out.append_errs, List.append_eq_nil_iff, nodeChecks_nil_iff] at h1
  exact finalKids_allCfg X o hns T cx [] (h1.1 hns) h.2 1

mutual
theorem cfgClosedN_shape (S : Schema) : ∀ (n : DNode) (b : Bool), cfgClosedN S b (shapeN n) = cfgClosedN S b n
  | .inner s f m ks, b => by rw [shapeN, cfgClosedN, cfgClosedN, cfgClosedL_shape S ks]
  | .term s f m v, b => by rw [shapeN, cfgClosedN, cfgClosedN]
theorem cfgClosedL_shape (S : Schema) : ∀ (l : List DNode) (b : Bool), cfgClosedL S b (shapeL l) = cfgClosedL S b l
  | [], _ => by rw [shapeL]
  | n :: ns, b => by rw [shapeL, cfgClosedL, cfgClosedL, cfgClosedN_shape S n, cfgClosedL_shape S ns]
end

/-- the closure condition is a property of the shape -/
theorem cfgClosedL_of_shape (S : Schema) {T1 T2 : List DNode} (h : shapeL T1 = shapeL T2) (b : Bool) :
    cfgClosedL S b T1 = cfgClosedL S b T2 := by
  rw [← cfgClosedL_shape S T1, ← cfgClosedL_shape S T2, h]

/-! ## MAIN -/

/-- **`validateX` accepts iff `validate` accepts and the XPath-dependent constraints hold on the accessible tree** — the explicit data
plus the defaults in use, which is what `validate` returns (up to the observation `obsL`, C07) -/
theorem validateX_ok_iff (X : SchemaX) (C : XCons) (o : VOpts) (t : List DNode) (hop : o.operational = false)
    (hwh : ∀ T, whenPhase X C o T = (T, {})) (hpe : (o.present && t.isEmpty) = false)
    (hacc : obsL X.base (validate X o t).tree = obsL X.base (rfcComplete X o t))
    (hcc : cfgClosedL X.base true (rfcComplete X o t) = true) :
    (validateX X C o t).errs = [] ↔ (validate X o t).errs = [] ∧ xpViolations X.base C (rfcComplete X o t) = [] := by
  rw [(validateX_errs_nil_iff X C o hop hwh t hpe).1]
  -- the pre-final tree has the shape of the accessible tree
  have hsh : shapeL (preFinal X o t) = shapeL (rfcComplete X o t) := by
    rw [← shapeL_finalR X o {} (preFinal X o t), ← validate_tree_preFinal X o t hpe]
    exact shape_of_obs X.base hacc
  constructor
  · rintro ⟨hv, hm⟩
    refine ⟨hv, ?_⟩
    have hfin : (finalR X o {} (preFinal X o t)).2.errs = [] := by
      rw [VResult_errs_eq X o t hpe] at hv
      simp only [Out.append_errs, List.append_eq_nil_iff] at hv
      exact hv.2
    rw [← xpViolations_of_shape X.base C hsh]
    exact (xpModelOk_iff X C o _ (finalR_allCfg X o {} _ hfin) (by rw [cfgClosedL_of_shape X.base hsh]; exact hcc)).1 hm
  · rintro ⟨hv, hx⟩
    refine ⟨hv, ?_⟩
    have hfin : (finalR X o {} (preFinal X o t)).2.errs = [] := by
      rw [VResult_errs_eq X o t hpe] at hv
      simp only [Out.append_errs, List.append_eq_nil_iff] at hv
      exact hv.2
    rw [← xpViolations_of_shape X.base C hsh] at hx
    exact (xpModelOk_iff X C o _ (finalR_allCfg X o {} _ hfin) (by rw [cfgClosedL_of_shape X.base hsh]; exact hcc)).2 hx

end LyModel.Valid
