import LyModel.Valid.LemmasIdem
import LyModel.Valid.Final
/-! `validate_idempotent` (C07), schemas without choice / case: a validated tree is *stable* — no node is new, every sibling level
has its implicit nodes, the default flag of every non-presence container agrees with its children — and on a stable tree every
phase of `lyd_validate` is the identity. -/
namespace LyModel.Valid
open LyModel LyModel.Tree

/-! ## stable trees -/

mutual
/-- nothing left to do below (and at) this node; `np`: also the default flags of the non-presence containers are final -/
def stableG (X : SchemaX) (o : VOpts) (np : Bool) : DNode → Bool
  | .inner s f _ ks =>
    implDone o (X.kidsOf (some s)) ks && stableGL X o np ks &&
      (!np || !(X.base.isNpCont s && !f.dflt && ks.all (·.flags.dflt))) && noChoiceTop (X.kidsOf (some s))
  | .term .. => true
def stableGL (X : SchemaX) (o : VOpts) (np : Bool) : List DNode → Bool
  | [] => true
  | n :: ns => !n.flags.new && stableG X o np n && stableGL X o np ns
end

abbrev stableN (X : SchemaX) (o : VOpts) := stableG X o true
abbrev stableL (X : SchemaX) (o : VOpts) := stableGL X o true

theorem stableGL_all (X : SchemaX) (o : VOpts) (np : Bool) : ∀ (ns : List DNode), stableGL X o np ns = true →
    ∀ n ∈ ns, n.flags.new = false ∧ stableG X o np n = true := by
  intro ns
  induction ns with
  | nil => intro _ n hn; cases hn
  | cons x xs ih =>
    intro h n hn
    unfold stableGL at h
    simp only [Bool.and_eq_true, Bool.not_eq_eq_eq_not, Bool.not_true] at h
    cases hn with
    | head => exact ⟨h.1.1, h.1.2⟩
    | tail _ hn => exact ih h.2 n hn

theorem stableGL_of_all (X : SchemaX) (o : VOpts) (np : Bool) : ∀ (ns : List DNode),
    (∀ n ∈ ns, n.flags.new = false ∧ stableG X o np n = true) → stableGL X o np ns = true := by
  intro ns
  induction ns with
  | nil => intro _; rfl
  | cons x xs ih =>
    intro h
    unfold stableGL
    have hx := h x (List.mem_cons_self ..)
    simp only [Bool.and_eq_true, Bool.not_eq_eq_eq_not, Bool.not_true]
    exact ⟨⟨hx.1, hx.2⟩, ih (fun n hn => h n (List.mem_cons_of_mem _ hn))⟩

theorem stableL_all (X : SchemaX) (o : VOpts) (ns : List DNode) (h : stableL X o ns = true) :
    ∀ n ∈ ns, n.flags.new = false ∧ stableN X o n = true := stableGL_all X o true ns h

/-! ## on a stable tree `lyd_validate_subtree` changes nothing -/

theorem validateNew_id (X : SchemaX) (o : VOpts) (cx : Cx) (hc : NoCase X.base) (sibs : List DNode)
    (hk : noChoiceTop (X.kidsOf cx.parent) = true) (hn : ∀ n ∈ sibs, n.flags.new = false) :
    validateNew X o cx sibs = (sibs, {}) := by
  unfold validateNew
  rw [choiceRL_noChoice X cx _ sibs hk]
  dsimp only
  rw [newLoop_id X o cx.keysOld hc _ sibs [] none hn]
  simp

theorem Cx.descend_parent (cx : Cx) (S : Schema) (before : List DNode) (n : DNode) : (cx.descend S before n).parent = some n.sid := rfl
theorem Cx.keysOld_parent (cx : Cx) : cx.keysOld.parent = cx.parent := by
  unfold Cx.keysOld
  split <;> rfl

theorem walkList_id (f : List DNode → DNode → DNode × Out) : ∀ (ns before : List DNode),
    (∀ before, ∀ n ∈ ns, f before n = (n, {})) → walkList f before ns = (ns, {}) := by
  intro ns
  induction ns with
  | nil => intro before _; rfl
  | cons n ns ih =>
    intro before h
    unfold walkList
    rw [h before n (List.mem_cons_self ..)]
    dsimp only
    rw [ih _ (fun b x hx => h b x (List.mem_cons_of_mem _ hx))]
    simp

theorem subtree_id (X : SchemaX) (o : VOpts) (hc : NoCase X.base) : ∀ (fuel : Nat) (cx : Cx) (before : List DNode) (n : DNode),
    stableN X o n = true → subtreeNode X o fuel cx before n = (n, {}) := by
  intro fuel
  induction fuel with
  | zero => intro cx before n _; cases n <;> simp [subtreeNode]
  | succ fuel ih =>
    intro cx before n hs
    cases n with
    | term s f m v => simp [subtreeNode]
    | inner s f m ks =>
      unfold stableN stableG at hs
      simp only [Bool.and_eq_true] at hs
      obtain ⟨⟨⟨hdone, hkids⟩, _⟩, hnc⟩ := hs
      unfold subtreeNode
      have hnew : ∀ n ∈ ks, n.flags.new = false := fun n hn => (stableL_all X o ks hkids n hn).1
      dsimp only
      rw [validateNew_id X o _ hc ks (by show noChoiceTop (X.kidsOf (some s)) = true; exact hnc) hnew]
      dsimp only
      rw [implL_noChoice X o _ _ ks hnc, implNodes_of_done X.base o _ _ ks hdone]
      dsimp only
      rw [walkList_id _ ks [] (fun b x hx => ih _ b x (stableL_all X o ks hkids x hx).2)]
      simp

theorem subtreeKids_id (X : SchemaX) (o : VOpts) (hc : NoCase X.base) (fuel : Nat) (cx : Cx) (before ns : List DNode)
    (hs : stableL X o ns = true) : subtreeKids X o fuel cx before ns = (ns, {}) := by
  unfold subtreeKids
  exact walkList_id _ ns before (fun b x hx => subtree_id X o hc fuel cx b x (stableL_all X o ns hs x hx).2)

/-! ## on a stable tree `lyd_validate_final_r` leaves every flag as it is -/

mutual
theorem finalNode_id (X : SchemaX) (o : VOpts) : ∀ (n : DNode) (cx : Cx) (before : List DNode), stableN X o n = true →
    (finalNode X o cx before n).1 = n
  | .term .., _, _, _ => by simp [finalNode]
  | .inner s f m ks, cx, before, h => by
    unfold stableN stableG at h
    simp only [Bool.and_eq_true] at h
    obtain ⟨⟨⟨_, hkids⟩, hnp⟩, _⟩ := h
    unfold finalNode
    dsimp only
    rw [finalKids_id X o ks _ [] hkids]
    unfold npSet
    have : (X.base.isNpCont s && !f.dflt && ks.all (·.flags.dflt)) = false := by
      simp only [Bool.not_true, Bool.false_or, Bool.not_eq_eq_eq_not] at hnp; exact hnp
    simp [this]
theorem finalKids_id (X : SchemaX) (o : VOpts) : ∀ (ns : List DNode) (cx : Cx) (before : List DNode), stableL X o ns = true →
    (finalKids X o cx before ns).1 = ns
  | [], _, _, _ => by simp [finalKids]
  | n :: ns, cx, before, h => by
    unfold stableL stableGL at h
    simp only [Bool.and_eq_true, Bool.not_eq_eq_eq_not, Bool.not_true] at h
    unfold finalKids
    dsimp only
    rw [finalNode_id X o n cx before h.1.2, finalKids_id X o ns cx _ h.2]
end


/-! ## the first run establishes stability -/

mutual
def sheight : STree → Nat
  | .mk _ _ ks => sheightL ks + 1
def sheightL : List STree → Nat
  | [] => 0
  | t :: ts => Nat.max (sheight t) (sheightL ts)
end

theorem sheightL_mem {k : STree} : ∀ {ks : List STree}, k ∈ ks → sheight k ≤ sheightL ks := by
  intro ks
  induction ks with
  | nil => intro h; cases h
  | cons t ts ih =>
    intro h
    unfold sheightL
    cases h with
    | head => exact Nat.le_max_left ..
    | tail _ h => exact Nat.le_trans (ih h) (Nat.le_max_right ..)

theorem sheight_kids (k : STree) : sheightL k.kids < sheight k := by
  cases k with
  | mk s i ks => simp [sheight, STree.kids]

/-- every schema node of the tree is found under its own schema id, with its own children (the ids are unique) -/
def KidsLookupOk (X : SchemaX) : Prop := ∀ k, BelowL k X.top → X.kidsOf (some k.sid) = k.kids

/-- no choice among the schema children of any node -/
def NoChoiceX (X : SchemaX) : Prop := ∀ p, noChoiceTop (X.kidsOf p) = true

mutual
theorem Below.kid' : ∀ {a b : STree}, Below a b → ∀ {k' : STree}, k' ∈ a.kids → Below k' b
  | _, _, .self t, k', hk' => by
    cases t with
    | mk s i ks => exact Below.kid _ _ _ _ (BelowL.of_mem hk')
  | _, _, .kid _ _ _ _ h, _, hk' => Below.kid _ _ _ _ (BelowL.kid' h hk')
theorem BelowL.kid' : ∀ {a : STree} {l : List STree}, BelowL a l → ∀ {k' : STree}, k' ∈ a.kids → BelowL k' l
  | _, _, .head _ _ _ h, _, hk' => BelowL.head _ _ _ (Below.kid' h hk')
  | _, _, .tail _ _ _ h, _, hk' => BelowL.tail _ _ _ (BelowL.kid' h hk')
end

theorem BelowL.kid_of_below {k k' : STree} {ks : List STree} (h : BelowL k ks) (hk : k' ∈ k.kids) : BelowL k' ks :=
  BelowL.kid' h hk

/-- two lists related element by element -/
inductive Rel2 {α β : Type} (R : α → β → Prop) : List α → List β → Prop where
  | nil : Rel2 R [] []
  | cons {a : α} {b : β} {as : List α} {bs : List β} : R a b → Rel2 R as bs → Rel2 R (a :: as) (b :: bs)

mutual
/-- the data follow the schema: every child is an instance of a schema child of its parent's schema node (no choices) -/
def placedN (X : SchemaX) : DNode → Bool
  | .inner s _ _ ks => placedL X (X.kidsOf (some s)) ks
  | .term .. => true
def placedL (X : SchemaX) (sk : List STree) : List DNode → Bool
  | [] => true
  | n :: ns => sk.any (·.sid == n.sid) && placedN X n && placedL X sk ns
end

theorem placedL_all (X : SchemaX) (sk : List STree) : ∀ (ns : List DNode), placedL X sk ns = true ↔
    ∀ n ∈ ns, sk.any (·.sid == n.sid) = true ∧ placedN X n = true := by
  intro ns
  induction ns with
  | nil => simp [placedL]
  | cons x xs ih =>
    unfold placedL
    simp only [Bool.and_eq_true, ih, List.mem_cons, forall_eq_or_imp]

theorem placedN_normNew (X : SchemaX) (n : DNode) : placedN X (normNew n) = placedN X n := by
  unfold normNew clearNew
  split
  · cases n <;> rfl
  · rfl

/-! what `implNodes` adds -/

theorem implLeafList_out (S : Schema) (cx : Cx) (sid : Nat) : ∀ (ds : List Bytes) (acc : List DNode × Out) (x : DNode),
    x ∈ (implLeafList S cx sid ds acc).1 → x ∈ acc.1 ∨ (x.flags = dfltFlags ∧ x.kids = [] ∧ x.sid = sid) := by
  intro ds
  induction ds with
  | nil => intro acc x hx; exact Or.inl (by simpa [implLeafList] using hx)
  | cons d ds ih =>
    intro acc x hx
    unfold implLeafList at hx
    rcases ih _ x hx with h | h
    · simp only [addImplicit_fst, mem_insertNode] at h
      rcases h with h | h
      · subst h; exact Or.inr ⟨rfl, rfl, rfl⟩
      · exact Or.inl h
    · exact Or.inr h

theorem implNode_out (S : Schema) (o : VOpts) (cx : Cx) (k : STree) (sibs : List DNode) (x : DNode)
    (hx : x ∈ (implNode S o cx k sibs).1) : x ∈ sibs ∨ (x.flags = dfltFlags ∧ x.kids = [] ∧ x.sid = k.sid) := by
  unfold implNode at hx
  dsimp only at hx
  split at hx
  · exact Or.inl hx
  · cases hkind : k.info.kind with
    | container =>
      simp only [hkind] at hx
      split at hx
      · exact Or.inl hx
      · simp only [addImplicit_fst, mem_insertNode] at hx
        rcases hx with h | h
        · subst h; exact Or.inr ⟨rfl, rfl, rfl⟩
        · exact Or.inl h
    | leaf =>
      simp only [hkind] at hx
      split at hx
      · simp only [addImplicit_fst, mem_insertNode] at hx
        rcases hx with h | h
        · subst h; exact Or.inr ⟨rfl, rfl, rfl⟩
        · exact Or.inl h
      · exact Or.inl hx
    | leaflist =>
      simp only [hkind] at hx
      exact implLeafList_out S cx k.sid _ _ x hx
    | list => simp only [hkind] at hx; exact Or.inl hx
    | choice => simp only [hkind] at hx; exact Or.inl hx
    | case => simp only [hkind] at hx; exact Or.inl hx

theorem implNodes_out (S : Schema) (o : VOpts) (cx : Cx) : ∀ (ks : List STree) (sibs : List DNode) (x : DNode),
    x ∈ (implNodes S o cx ks sibs).1 → x ∈ sibs ∨ (x.flags = dfltFlags ∧ x.kids = [] ∧ ks.any (·.sid == x.sid) = true) := by
  intro ks
  induction ks with
  | nil => intro sibs x hx; exact Or.inl (by simpa [implNodes] using hx)
  | cons k ks ih =>
    intro sibs x hx
    unfold implNodes at hx
    dsimp only at hx
    rcases ih _ x hx with h | ⟨h1, h2, h3⟩
    · rcases implNode_out S o cx k sibs x h with h | ⟨h1, h2, h3⟩
      · exact Or.inl h
      · exact Or.inr ⟨h1, h2, by simp [h3]⟩
    · exact Or.inr ⟨h1, h2, by simp [h3]⟩

/-! `implDone` only looks at which schema nodes have instances -/

theorem implDone_congr (o : VOpts) (ks : List STree) (a b : List DNode) (h : ∀ sid, hasInst a sid = hasInst b sid) :
    implDone o ks a = implDone o ks b := by
  unfold implDone
  apply List.all_congr rfl
  intro k
  rw [h]

/-- the relation between a node and what a later phase makes of it: same schema node, same flags, stable below -/
def Kept (X : SchemaX) (o : VOpts) (a b : DNode) : Prop := b.sid = a.sid ∧ b.flags = a.flags ∧ stableG X o false b = true

theorem hasInst_forall2 {R : DNode → DNode → Prop} (hR : ∀ a b, R a b → b.sid = a.sid) : ∀ (as bs : List DNode),
    Rel2 R as bs → ∀ sid, hasInst bs sid = hasInst as sid := by
  intro as bs h
  induction h with
  | nil => intro sid; rfl
  | cons hab _ ih =>
    intro sid
    simp only [hasInst, List.any_cons] at ih ⊢
    rw [ih sid, hR _ _ hab]

theorem forall2_mem_right {R : DNode → DNode → Prop} : ∀ {as bs : List DNode}, Rel2 R as bs → ∀ b ∈ bs, ∃ a ∈ as, R a b := by
  intro as bs h
  induction h with
  | nil => intro b hb; cases hb
  | cons hab _ ih =>
    intro b hb
    cases hb with
    | head => exact ⟨_, List.mem_cons_self .., hab⟩
    | tail _ hb =>
      obtain ⟨a, ha, h⟩ := ih b hb
      exact ⟨a, List.mem_cons_of_mem _ ha, h⟩

theorem walkList_rel {R : DNode → DNode → Prop} (f : List DNode → DNode → DNode × Out) : ∀ (ns before : List DNode),
    (∀ before, ∀ n ∈ ns, R n (f before n).1) → Rel2 R ns (walkList f before ns).1 := by
  intro ns
  induction ns with
  | nil => intro before _; exact Rel2.nil
  | cons n ns ih =>
    intro before h
    unfold walkList
    exact Rel2.cons (h before n (List.mem_cons_self ..)) (ih _ (fun b x hx => h b x (List.mem_cons_of_mem _ hx)))

/-- **the walk of `lyd_validate_subtree`**, with enough fuel for the height of the schema below: every node keeps its schema id
and flags, and below it nothing is new any more and every level has its implicit nodes -/
theorem subtree_stable (X : SchemaX) (o : VOpts) (hl : KidsLookupOk X) (hnc : NoChoiceX X) : ∀ (fuel : Nat)
    (cx : Cx) (before : List DNode) (n : DNode) (sk : List STree), (∀ k ∈ sk, BelowL k X.top) →
      sk.any (·.sid == n.sid) = true → placedN X n = true → sheightL sk ≤ fuel →
      Kept X o n (subtreeNode X o fuel cx before n).1 := by
  intro fuel
  induction fuel with
  | zero =>
    intro cx before n sk hsk hany hp hh
    -- no schema node at all: impossible
    obtain ⟨k, hk, _⟩ := List.any_eq_true.1 hany
    have := sheightL_mem hk
    cases k with
    | mk s i kk => simp [sheight] at this; omega
  | succ fuel ih =>
    intro cx before n sk hsk hany hp hh
    cases n with
    | term s f m v => exact ⟨by simp [subtreeNode], by simp [subtreeNode], by simp [subtreeNode, stableG]⟩
    | inner s f m ks =>
      obtain ⟨k, hk, hks⟩ := List.any_eq_true.1 hany
      have hks' : k.sid = s := by simpa [DNode.sid] using hks
      have hkb : BelowL k X.top := hsk k hk
      have hkids : X.kidsOf (some s) = k.kids := by rw [← hks']; exact hl k hkb
      have hsk' : ∀ k' ∈ k.kids, BelowL k' X.top := fun k' hk' => BelowL.kid_of_below hkb hk'
      have hh' : sheightL k.kids ≤ fuel := by
        have h1 := sheight_kids k
        have h2 := sheightL_mem hk
        omega
      have hnck : noChoiceTop k.kids = true := by rw [← hkids]; exact hnc _
      unfold placedN at hp
      rw [hkids] at hp
      unfold subtreeNode
      dsimp only
      rw [hkids]
      -- the level after `lyd_validate_new`
      have h1 : ∀ x ∈ (validateNew X o (cx.descend X.base before (DNode.inner s f m ks)) ks).1, ∃ y ∈ ks, x = normNew y :=
        validateNew_out X o _ ks (by show noChoiceTop (X.kidsOf (some s)) = true; rw [hkids]; exact hnck)
      generalize (validateNew X o (cx.descend X.base before (DNode.inner s f m ks)) ks) = r1 at h1 ⊢
      rw [implL_noChoice X o _ _ _ hnck]
      -- the level after `lyd_new_implicit`
      have h2 := implNodes_out X.base o (cx.descend X.base before (DNode.inner s f m ks)).keysOld k.kids r1.1
      have h2d := implNodes_done X.base o (cx.descend X.base before (DNode.inner s f m ks)).keysOld k.kids r1.1
      generalize (implNodes X.base o (cx.descend X.base before (DNode.inner s f m ks)).keysOld k.kids r1.1) = r2 at h2 h2d ⊢
      have hplaced2 : ∀ x ∈ r2.1, k.kids.any (·.sid == x.sid) = true ∧ placedN X x = true := by
        intro x hx
        rcases h2 x hx with h | ⟨_, hk0, hany'⟩
        · obtain ⟨y, hy, hxy⟩ := h1 x h
          have := (placedL_all X k.kids ks).1 hp y hy
          subst hxy
          exact ⟨by simpa using this.1, by rw [placedN_normNew]; exact this.2⟩
        · refine ⟨hany', ?_⟩
          cases x with
          | term xs xf xm xv => rfl
          | inner xs xf xm xk =>
            simp only [DNode.kids] at hk0
            subst hk0
            simp [placedN, placedL]
      have hnew2 : ∀ x ∈ r2.1, x.flags.new = false := by
        intro x hx
        rcases h2 x hx with h | ⟨hf, _, _⟩
        · obtain ⟨y, _, hxy⟩ := h1 x h
          subst hxy; exact normNew_new y
        · rw [hf]; rfl
      -- the walk below
      have h3 : Rel2 (Kept X o) r2.1 (walkList (subtreeNode X o fuel (cx.descend X.base before (DNode.inner s f m ks)).keysOld) [] r2.1).1 :=
        walkList_rel _ r2.1 [] (fun b x hx => ih _ b x k.kids hsk' (hplaced2 x hx).1 (hplaced2 x hx).2 hh')
      generalize (walkList (subtreeNode X o fuel (cx.descend X.base before (DNode.inner s f m ks)).keysOld) [] r2.1) = r3 at h3 ⊢
      refine ⟨rfl, rfl, ?_⟩
      unfold stableG
      simp only [Bool.and_eq_true, Bool.not_false, Bool.true_or, and_true]
      refine ⟨⟨?_, ?_⟩, by rw [hkids]; exact hnck⟩
      · rw [hkids, implDone_congr o k.kids r3.1 r2.1 (hasInst_forall2 (fun a b h => h.1) _ _ h3)]
        exact h2d
      · apply stableGL_of_all
        intro x hx
        obtain ⟨a, ha, hk1, hk2, hk3⟩ := forall2_mem_right h3 x hx
        exact ⟨by rw [hk2]; exact hnew2 a ha, hk3⟩


/-! ## `lyd_validate_final_r` makes the default flags of the non-presence containers final and touches nothing else -/

theorem npSet_inner (S : Schema) (s : Nat) (f : Flags) (m : List Meta) (ks : List DNode) :
    npSet S (.inner s f m ks) =
      if (S.isNpCont s && !f.dflt && ks.all (·.flags.dflt)) = true then .inner s { f with dflt := true } m ks else .inner s f m ks := rfl

theorem npSet_sid (S : Schema) (n : DNode) : (npSet S n).sid = n.sid := by
  cases n with
  | term s f m v => rfl
  | inner s f m ks => rw [npSet_inner]; split <;> rfl

theorem npSet_new (S : Schema) (n : DNode) : (npSet S n).flags.new = n.flags.new := by
  cases n with
  | term s f m v => rfl
  | inner s f m ks => rw [npSet_inner]; split <;> rfl

mutual
theorem finalNode_stable (X : SchemaX) (o : VOpts) : ∀ (n : DNode) (cx : Cx) (before : List DNode), stableG X o false n = true →
    (finalNode X o cx before n).1.sid = n.sid ∧ (finalNode X o cx before n).1.flags.new = n.flags.new ∧
      stableG X o true (finalNode X o cx before n).1 = true
  | .term .., _, _, _ => by simp [finalNode, stableG]
  | .inner s f m ks, cx, before, h => by
    unfold stableG at h
    simp only [Bool.and_eq_true] at h
    obtain ⟨⟨⟨hdone, hkids⟩, _⟩, hnc⟩ := h
    have ih := finalKids_stable X o ks (cx.descend X.base before (.inner s f m ks)) [] hkids
    unfold finalNode
    dsimp only
    generalize (finalKids X o (cx.descend X.base before (DNode.inner s f m ks)) [] ks) = r at ih ⊢
    refine ⟨by rw [npSet_sid]; rfl, by rw [npSet_new]; rfl, ?_⟩
    have hd : implDone o (X.kidsOf (some s)) r.1 = true := by
      rw [implDone_congr o _ r.1 ks ih.2]; exact hdone
    rw [npSet_inner]
    by_cases hcond : (X.base.isNpCont s && !f.dflt && r.1.all (·.flags.dflt)) = true
    · rw [if_pos hcond]
      unfold stableG
      simp [hd, ih.1, hnc]
    · rw [if_neg hcond]
      unfold stableG
      have : (X.base.isNpCont s && !f.dflt && r.1.all (·.flags.dflt)) = false := by simpa using hcond
      simp only [hd, ih.1, hnc, this, Bool.not_false, Bool.or_true, Bool.and_self]
theorem finalKids_stable (X : SchemaX) (o : VOpts) : ∀ (ns : List DNode) (cx : Cx) (before : List DNode), stableGL X o false ns = true →
    stableGL X o true (finalKids X o cx before ns).1 = true ∧ ∀ sid, hasInst (finalKids X o cx before ns).1 sid = hasInst ns sid
  | [], _, _, _ => by simp [finalKids, stableGL]
  | n :: ns, cx, before, h => by
    unfold stableGL at h
    simp only [Bool.and_eq_true, Bool.not_eq_eq_eq_not, Bool.not_true] at h
    have h1 := finalNode_stable X o n cx before h.1.2
    have h2 := finalKids_stable X o ns cx (before ++ [n]) h.2
    unfold finalKids
    dsimp only
    constructor
    · unfold stableGL
      simp only [Bool.and_eq_true, Bool.not_eq_eq_eq_not, Bool.not_true]
      exact ⟨⟨by rw [h1.2.1]; exact h.1.1, h1.2.2⟩, h2.1⟩
    · intro sid
      simp only [hasInst, List.any_cons] at h2 ⊢
      rw [h2.2 sid, h1.1]
end

/-! ## no change event comes out of the final phase -/

theorem minmaxOut_evs (S : Schema) (o : VOpts) (cx : Cx) (sibs : List DNode) (k : STree) : (minmaxOut S o cx sibs k).evs = [] := by
  unfold minmaxOut
  dsimp only
  split
  · rfl
  · split
    · rfl
    · split <;> rfl
    · split <;> rfl

theorem uniqueOut_evs (X : SchemaX) (o : VOpts) (cx : Cx) (sibs : List DNode) (k : STree) : (uniqueOut X o cx sibs k).evs = [] := by
  unfold uniqueOut
  dsimp only
  split
  · rfl
  · split <;> rfl

theorem schemaNodes_evs (X : SchemaX) (o : VOpts) (cx : Cx) (sibs : List DNode) : ∀ (ks : List STree), (schemaNodes X o cx sibs ks).evs = [] := by
  intro ks
  induction ks with
  | nil => rfl
  | cons k ks ih =>
    unfold schemaNodes
    dsimp only
    rw [Out.append_evs, ih]
    simp only [List.append_nil]
    split
    · rfl
    · split
      · rw [Out.append_evs, minmaxOut_evs, uniqueOut_evs]; rfl
      · exact minmaxOut_evs ..
      · split <;> rfl

mutual
theorem schemaChoices_evs (X : SchemaX) (o : VOpts) (cx : Cx) (sibs : List DNode) : ∀ (ks : List STree), (schemaChoices X o cx sibs ks).evs = []
  | [] => rfl
  | k :: rest => by
    unfold schemaChoices
    rw [Out.append_evs, schemaChoice_evs X o cx sibs k, schemaChoices_evs X o cx sibs rest]; rfl
theorem schemaChoice_evs (X : SchemaX) (o : VOpts) (cx : Cx) (sibs : List DNode) : ∀ (k : STree), (schemaChoice X o cx sibs k).evs = []
  | .mk s i cases => by
    unfold schemaChoice
    split
    · rfl
    · dsimp only
      rw [Out.append_evs, schemaCases_evs X o cx sibs cases]
      split <;> rfl
theorem schemaCases_evs (X : SchemaX) (o : VOpts) (cx : Cx) (sibs : List DNode) : ∀ (ks : List STree), (schemaCases X o cx sibs ks).evs = []
  | [] => rfl
  | c :: rest => by
    unfold schemaCases
    split
    · exact schemaCase_evs X o cx sibs c
    · exact schemaCases_evs X o cx sibs rest
theorem schemaCase_evs (X : SchemaX) (o : VOpts) (cx : Cx) (sibs : List DNode) : ∀ (k : STree), (schemaCase X o cx sibs k).evs = []
  | .mk _ _ ks => by
    unfold schemaCase
    rw [Out.append_evs, schemaChoices_evs X o cx sibs ks, schemaNodes_evs]; rfl
end

theorem nodeChecks_evs (S : Schema) (o : VOpts) (cx : Cx) : ∀ (rest before : List DNode), (nodeChecks S o cx before rest).evs = [] := by
  intro rest
  induction rest with
  | nil => intro _; rfl
  | cons n ns ih =>
    intro before
    unfold nodeChecks
    rw [Out.append_evs, ih]
    split <;> rfl

theorem levelChecks_evs (X : SchemaX) (o : VOpts) (cx : Cx) (sibs : List DNode) : (levelChecks X o cx sibs).evs = [] := by
  unfold levelChecks schemaRL
  rw [Out.append_evs, Out.append_evs, nodeChecks_evs, schemaChoices_evs, schemaNodes_evs]; rfl

mutual
theorem finalNode_evs (X : SchemaX) (o : VOpts) : ∀ (n : DNode) (cx : Cx) (before : List DNode), (finalNode X o cx before n).2.evs = []
  | .term .., _, _ => by simp [finalNode]
  | .inner s f m ks, cx, before => by
    unfold finalNode
    dsimp only
    rw [Out.append_evs, levelChecks_evs, finalKids_evs X o ks]; rfl
theorem finalKids_evs (X : SchemaX) (o : VOpts) : ∀ (ns : List DNode) (cx : Cx) (before : List DNode), (finalKids X o cx before ns).2.evs = []
  | [], _, _ => by simp [finalKids]
  | n :: ns, cx, before => by
    unfold finalKids
    dsimp only
    rw [Out.append_evs, finalNode_evs X o n, finalKids_evs X o ns]; rfl
end

theorem finalR_evs (X : SchemaX) (o : VOpts) (cx : Cx) (sibs : List DNode) : (finalR X o cx sibs).2.evs = [] := by
  unfold finalR
  dsimp only
  rw [Out.append_evs, levelChecks_evs, finalKids_evs]; rfl


/-! ## assembly -/

/-- the top level of a stable tree -/
def stableTop (X : SchemaX) (o : VOpts) (T : List DNode) : Bool := implDone o X.top T && stableL X o T

theorem validate_evs_eq (X : SchemaX) (o : VOpts) (t : List DNode) (h : (o.present && t.isEmpty) = false) :
    (validate X o t).tree = (finalR X o {} (subtreeKids X o (walkFuel X t) {} [] (implL X o {} X.top (validateNew X o {} t).1).1).1).1 ∧
    (validate X o t).evs = ((validateNew X o {} t).2 ++ (implL X o {} X.top (validateNew X o {} t).1).2 ++
      (subtreeKids X o (walkFuel X t) {} [] (implL X o {} X.top (validateNew X o {} t).1).1).2 ++
      (finalR X o {} (subtreeKids X o (walkFuel X t) {} [] (implL X o {} X.top (validateNew X o {} t).1).1).1).2).evs := by
  unfold validate
  simp only [h, Bool.false_eq_true, if_false]
  exact ⟨trivial, rfl⟩

/-- on a stable tree a validation changes nothing and reports no change -/
theorem validate_of_stable (X : SchemaX) (o : VOpts) (hc : NoCase X.base) (hnc : NoChoiceX X) (T : List DNode)
    (h : stableTop X o T = true) : (validate X o T).tree = T ∧ (validate X o T).evs = [] := by
  by_cases hp : (o.present && T.isEmpty) = true
  · have hT : T = [] := by
      simp only [Bool.and_eq_true, List.isEmpty_iff] at hp; exact hp.2
    subst hT
    unfold validate
    simp only [hp, if_true]
    exact ⟨trivial, rfl⟩
  · have hp' : (o.present && T.isEmpty) = false := by simpa using hp
    unfold stableTop at h
    simp only [Bool.and_eq_true] at h
    obtain ⟨hdone, hst⟩ := h
    have hnew : ∀ n ∈ T, n.flags.new = false := fun n hn => (stableL_all X o T hst n hn).1
    have htop : noChoiceTop X.top = true := hnc none
    have e1 : validateNew X o {} T = (T, {}) := validateNew_id X o {} hc T (hnc none) hnew
    have e2 : implL X o {} X.top T = (T, {}) := by
      rw [implL_noChoice X o {} X.top T htop]; exact implNodes_of_done X.base o {} X.top T hdone
    have e3 : subtreeKids X o (walkFuel X T) {} [] T = (T, {}) := subtreeKids_id X o hc _ {} [] T hst
    obtain ⟨ht, he⟩ := validate_evs_eq X o T hp'
    rw [e1] at ht he
    dsimp only at ht he
    rw [e2] at ht he
    dsimp only at ht he
    rw [e3] at ht he
    dsimp only at ht he
    constructor
    · rw [ht]
      unfold finalR
      dsimp only
      exact finalKids_id X o T {} [] hst
    · rw [he]
      simp only [Out.empty_append, finalR_evs]

/-- a validation leaves a stable tree (schemas without choice / case; data that follow the schema; enough fuel for the schema) -/
theorem validate_stable (X : SchemaX) (o : VOpts) (hl : KidsLookupOk X) (hnc : NoChoiceX X) (t : List DNode)
    (hp : placedL X X.top t = true) (hh : sheightL X.top ≤ walkFuel X t) (hpe : (o.present && t.isEmpty) = false) :
    stableTop X o (validate X o t).tree = true := by
  obtain ⟨ht, _⟩ := validate_evs_eq X o t hpe
  rw [ht]
  have htop : noChoiceTop X.top = true := hnc none
  -- the level after `lyd_validate_new`
  have h1 : ∀ x ∈ (validateNew X o {} t).1, ∃ y ∈ t, x = normNew y := validateNew_out X o {} t (hnc none)
  generalize (validateNew X o {} t) = r1 at h1 ⊢
  rw [implL_noChoice X o _ _ _ htop]
  have h2 := implNodes_out X.base o {} X.top r1.1
  have h2d := implNodes_done X.base o {} X.top r1.1
  generalize (implNodes X.base o {} X.top r1.1) = r2 at h2 h2d ⊢
  have hplaced2 : ∀ x ∈ r2.1, X.top.any (·.sid == x.sid) = true ∧ placedN X x = true := by
    intro x hx
    rcases h2 x hx with h | ⟨_, hk0, hany'⟩
    · obtain ⟨y, hy, hxy⟩ := h1 x h
      have := (placedL_all X X.top t).1 hp y hy
      subst hxy
      exact ⟨by simpa using this.1, by rw [placedN_normNew]; exact this.2⟩
    · refine ⟨hany', ?_⟩
      cases x with
      | term xs xf xm xv => rfl
      | inner xs xf xm xk =>
        simp only [DNode.kids] at hk0
        subst hk0
        simp [placedN, placedL]
  have hnew2 : ∀ x ∈ r2.1, x.flags.new = false := by
    intro x hx
    rcases h2 x hx with h | ⟨hf, _, _⟩
    · obtain ⟨y, _, hxy⟩ := h1 x h
      subst hxy; exact normNew_new y
    · rw [hf]; rfl
  have h3 : Rel2 (Kept X o) r2.1 (subtreeKids X o (walkFuel X t) {} [] r2.1).1 := by
    unfold subtreeKids
    exact walkList_rel _ r2.1 [] (fun b x hx =>
      subtree_stable X o hl hnc _ {} b x X.top (fun k hk => BelowL.of_mem hk) (hplaced2 x hx).1 (hplaced2 x hx).2 hh)
  generalize (subtreeKids X o (walkFuel X t) {} [] r2.1) = r3 at h3 ⊢
  have hpre : stableGL X o false r3.1 = true := by
    apply stableGL_of_all
    intro x hx
    obtain ⟨a, ha, _, hk2, hk3⟩ := forall2_mem_right h3 x hx
    exact ⟨by rw [hk2]; exact hnew2 a ha, hk3⟩
  have hfin := finalKids_stable X o r3.1 {} [] hpre
  unfold stableTop finalR
  dsimp only
  simp only [Bool.and_eq_true]
  refine ⟨?_, hfin.1⟩
  rw [implDone_congr o X.top _ r3.1 hfin.2, implDone_congr o X.top r3.1 r2.1 (hasInst_forall2 (fun a b h => h.1) _ _ h3)]
  exact h2d

end LyModel.Valid
