import LyModel.Valid.Model
/-!
# `LYD_VALIDATE_OPERATIONAL` only downgrades errors

`operational_relaxes`: for every schema, option set and tree, validation with the option returns the same tree and the same change
events as without it; its errors are a sublist of the errors without it, none of them of a downgraded family (min- and max-elements,
unique, mandatory leaf / choice), and every error that disappears is of such a family or a duplicate list / leaf-list instance.
Core Lean only.
-/
namespace LyModel.Valid
open LyModel LyModel.Tree

def VOpts.oper (o : VOpts) (b : Bool) : VOpts := { o with operational := b }

/-- the errors `LYD_VALIDATE_OPERATIONAL` never reports -/
def downgraded (k : EKind) : Bool := k == .noMin || k == .noMax || k == .noUniq || k == .noMand || k == .noMandChoice

/-! ## the relation between the two runs -/

/-- an item the operational run may log: an event, or an error outside the downgraded families -/
def op_ok : Item → Prop
  | .ev _ => True
  | .err e => downgraded e.kind = false

/-- `a` is `b` without some errors of the downgraded families / duplicate instances; what is kept is no downgraded error -/
inductive op_Sub : List Item → List Item → Prop
  | nil : op_Sub [] []
  | keep {x l l'} : op_ok x → op_Sub l l' → op_Sub (x :: l) (x :: l')
  | drop {e l l'} : (downgraded e.kind = true ∨ e.kind = .dup) → op_Sub l l' → op_Sub l (.err e :: l')

theorem op_Sub.append {a b a' b' : List Item} (h1 : op_Sub a b) (h2 : op_Sub a' b') : op_Sub (a ++ a') (b ++ b') := by
  induction h1 with
  | nil => exact h2
  | keep hx _ ih => exact .keep hx ih
  | drop hd _ ih => exact .drop hd ih

theorem op_Sub.refl_of : ∀ (l : List Item), (∀ x ∈ l, op_ok x) → op_Sub l l
  | [], _ => .nil
  | x :: xs, h => .keep (h x List.mem_cons_self) (op_Sub.refl_of xs (fun y hy => h y (List.mem_cons_of_mem _ hy)))

def op_Rel (a b : Out) : Prop := op_Sub a.items b.items
def op_OkOut (a : Out) : Prop := ∀ x ∈ a.items, op_ok x
/-- same tree, related output -/
def op_Res (a b : List DNode × Out) : Prop := a.1 = b.1 ∧ op_Rel a.2 b.2

theorem op_Rel.append {a b a' b' : Out} (h1 : op_Rel a b) (h2 : op_Rel a' b') : op_Rel (a ++ a') (b ++ b') := by
  unfold op_Rel
  rw [Out.append_items, Out.append_items]
  exact op_Sub.append h1 h2

theorem op_Rel.refl_of {a : Out} (h : op_OkOut a) : op_Rel a a := op_Sub.refl_of _ h

theorem op_Rel.empty : op_Rel {} {} := op_Sub.nil

theorem op_OkOut.empty : op_OkOut {} := fun _ hx => by cases hx

theorem op_OkOut.append {a b : Out} (h1 : op_OkOut a) (h2 : op_OkOut b) : op_OkOut (a ++ b) := by
  intro x hx
  rw [Out.append_items, List.mem_append] at hx
  rcases hx with hx | hx
  · exact h1 x hx
  · exact h2 x hx

theorem op_OkOut.ofEvs (evs : List Ev) : op_OkOut (Out.ofEvs evs) := by
  intro x hx
  unfold Out.ofEvs at hx
  obtain ⟨e, _, rfl⟩ := List.mem_map.1 hx
  exact True.intro

theorem op_OkOut.err (k : EKind) (path : Bytes) (h : downgraded k = false) : op_OkOut (Out.err k path) := by
  intro x hx
  unfold Out.err at hx
  rw [List.mem_singleton] at hx
  subst hx
  exact h

theorem op_Rel.err_drop (k : EKind) (path : Bytes) (h : downgraded k = true ∨ k = .dup) : op_Rel {} (Out.err k path) :=
  op_Sub.drop h .nil

theorem op_Res.same {r : List DNode × Out} (h : op_OkOut r.2) : op_Res r r := ⟨rfl, op_Rel.refl_of h⟩

/-- sequential composition of two phases -/
theorem op_Res.seq {r1 r1' : List DNode × Out} {g g' : List DNode → List DNode × Out} (h1 : op_Res r1 r1')
    (h2 : op_Res (g r1.1) (g' r1.1)) : op_Res ((g r1.1).1, r1.2 ++ (g r1.1).2) ((g' r1'.1).1, r1'.2 ++ (g' r1'.1).2) := by
  rw [← h1.1]
  exact ⟨h2.1, op_Rel.append h1.2 h2.2⟩

/-! ## `lyd_validate_new` -/

theorem op_dupErr (X : SchemaX) (o : VOpts) (cx : Cx) (done tl : List DNode) (node : DNode) :
    op_Rel (dupErr X (o.oper true) cx done tl node) (dupErr X (o.oper false) cx done tl node) := by
  unfold dupErr
  simp only [VOpts.oper, Bool.and_true, Bool.and_false, Bool.not_false]
  by_cases h1 : (node.flags.new && dupScan X.base (done ++ tl) node) = true
  · by_cases h2 : (X.base.isKind node.sid .list || X.base.isKind node.sid .leaflist) = true
    · simp only [h1, h2, Bool.not_true, Bool.and_false, Bool.false_eq_true, if_false, if_true]
      exact op_Rel.err_drop _ _ (Or.inr rfl)
    · have h2' : (X.base.isKind node.sid .list || X.base.isKind node.sid .leaflist) = false := by simpa using h2
      simp only [h1, h2', Bool.not_false, Bool.and_true, if_true]
      exact op_Rel.refl_of (op_OkOut.err _ _ rfl)
  · have h1' : (node.flags.new && dupScan X.base (done ++ tl) node) = false := by simpa using h1
    simp only [h1', Bool.false_and, Bool.false_eq_true, if_false]
    exact op_Rel.empty

theorem op_newLoop (X : SchemaX) (o : VOpts) (cx : Cx) : ∀ (fuel : Nat) (done rest : List DNode) (last : Option Nat),
    op_Res (newLoop X (o.oper true) cx fuel done rest last) (newLoop X (o.oper false) cx fuel done rest last) := by
  intro fuel
  induction fuel with
  | zero => intro done rest last; unfold newLoop; exact op_Res.same op_OkOut.empty
  | succ f ih =>
    intro done rest last
    cases rest with
    | nil => unfold newLoop; exact op_Res.same op_OkOut.empty
    | cons node tl =>
      unfold newLoop
      dsimp only
      by_cases h1 : (!(node.flags.new || node.flags.dflt)) = true
      · simp only [h1, if_true]
        exact ih _ _ _
      · simp only [h1, Bool.false_eq_true, if_false]
        generalize (if (hasDefault X.base node.sid && last != some node.sid && node.flags.new) = true then
          autodelStep X cx done node tl else (done, false, tl, [])) = r
        generalize (if (hasDefault X.base node.sid && last != some node.sid && node.flags.new) = true then some node.sid else last) = last'
        by_cases h2 : r.2.1 = true
        · simp only [h2, if_true]
          exact ⟨(ih _ _ _).1, op_Rel.append (op_Rel.refl_of (op_OkOut.ofEvs _)) (ih _ _ _).2⟩
        · simp only [h2, Bool.false_eq_true, if_false]
          generalize (if node.flags.new = true then clearNew node else node) = node1
          by_cases h3 : (node1.flags.dflt && caseDfltVictim X (r.1 ++ node1 :: r.2.2.1) node1) = true
          · simp only [h3, if_true]
            refine ⟨(ih _ _ _).1, ?_⟩
            exact op_Rel.append (op_Rel.append (op_Rel.append (op_Rel.refl_of (op_OkOut.ofEvs _)) (op_dupErr X o cx _ _ _))
              (op_Rel.refl_of (op_OkOut.ofEvs _))) (ih _ _ _).2
          · simp only [h3, Bool.false_eq_true, if_false]
            refine ⟨(ih _ _ _).1, ?_⟩
            exact op_Rel.append (op_Rel.append (op_Rel.refl_of (op_OkOut.ofEvs _)) (op_dupErr X o cx _ _ _)) (ih _ _ _).2

theorem op_casesStep (X : SchemaX) (cx : Cx) (choice : STree) (sibs : List DNode) : op_OkOut (casesStep X cx choice sibs).2 := by
  unfold casesStep
  split
  · exact op_OkOut.err _ _ rfl
  · exact op_OkOut.ofEvs _
  · exact op_OkOut.empty

theorem op_casesStepQ (X : SchemaX) (cx : Cx) (choice : STree) (sibs : List DNode) : op_OkOut (casesStepQ X cx choice sibs).2 := by
  unfold casesStepQ
  split
  · exact op_casesStep X cx choice sibs
  · unfold casesStepFix
    split
    · exact op_OkOut.err _ _ rfl
    · exact op_OkOut.empty
    · exact op_OkOut.ofEvs _

mutual
theorem op_choiceRNode (X : SchemaX) (cx : Cx) : ∀ (t : STree) (sibs : List DNode), op_OkOut (choiceRNode X cx t sibs).2
  | .mk s i ks, sibs => by
    unfold choiceRNode
    split
    · split
      · exact op_OkOut.empty
      · exact op_OkOut.append (op_casesStepQ X cx _ sibs) (op_choiceRCases X cx ks _)
    · exact op_OkOut.empty
theorem op_choiceRCases (X : SchemaX) (cx : Cx) : ∀ (cs : List STree) (sibs : List DNode), op_OkOut (choiceRCases X cx cs sibs).2
  | [], _ => by unfold choiceRCases; exact op_OkOut.empty
  | c :: rest, sibs => by
    unfold choiceRCases
    exact op_OkOut.append (op_choiceRCase X cx c sibs) (op_choiceRCases X cx rest _)
theorem op_choiceRCase (X : SchemaX) (cx : Cx) : ∀ (t : STree) (sibs : List DNode), op_OkOut (choiceRCase X cx t sibs).2
  | .mk _ _ ks, sibs => by
    unfold choiceRCase
    exact op_choiceRL X cx ks sibs
theorem op_choiceRL (X : SchemaX) (cx : Cx) : ∀ (ks : List STree) (sibs : List DNode), op_OkOut (choiceRL X cx ks sibs).2
  | [], _ => by unfold choiceRL; exact op_OkOut.empty
  | k :: ks, sibs => by
    unfold choiceRL
    exact op_OkOut.append (op_choiceRNode X cx k sibs) (op_choiceRL X cx ks _)
end

theorem op_validateNew (X : SchemaX) (o : VOpts) (cx : Cx) (sibs : List DNode) :
    op_Res (validateNew X (o.oper true) cx sibs) (validateNew X (o.oper false) cx sibs) := by
  unfold validateNew
  exact ⟨(op_newLoop X o _ _ _ _ _).1, op_Rel.append (op_Rel.refl_of (op_choiceRL X cx _ sibs)) (op_newLoop X o _ _ _ _ _).2⟩

/-! ## `lyd_new_implicit` does not read the option -/

theorem op_implLeafList (S : Schema) (cx : Cx) (sid : Nat) : ∀ (ds : List Bytes) (acc : List DNode × Out), op_OkOut acc.2 →
    op_OkOut (implLeafList S cx sid ds acc).2 := by
  intro ds
  induction ds with
  | nil => intro acc h; exact h
  | cons d ds ih =>
    intro acc h
    unfold implLeafList
    apply ih
    exact op_OkOut.append h (op_OkOut.ofEvs _)

theorem op_implNode_ok (S : Schema) (o : VOpts) (cx : Cx) (k : STree) (sibs : List DNode) : op_OkOut (implNode S o cx k sibs).2 := by
  unfold implNode
  dsimp only
  split
  · exact op_OkOut.empty
  · split
    · split
      · exact op_OkOut.empty
      · exact op_OkOut.ofEvs _
    · split
      · exact op_OkOut.ofEvs _
      · exact op_OkOut.empty
    · exact op_implLeafList S cx k.sid _ _ op_OkOut.empty
    · exact op_OkOut.empty

theorem op_implNode_eq (S : Schema) (o o' : VOpts) (hns : o.noState = o'.noState) (cx : Cx) (k : STree) (sibs : List DNode) :
    implNode S o cx k sibs = implNode S o' cx k sibs := by
  unfold implNode
  simp only [hns]

theorem op_implNodes (S : Schema) (o o' : VOpts) (hns : o.noState = o'.noState) (cx : Cx) : ∀ (ks : List STree) (sibs : List DNode),
    op_Res (implNodes S o cx ks sibs) (implNodes S o' cx ks sibs) := by
  intro ks
  induction ks with
  | nil => intro sibs; unfold implNodes; exact op_Res.same op_OkOut.empty
  | cons k ks ih =>
    intro sibs
    unfold implNodes
    have h1 : op_Res (implNode S o cx k sibs) (implNode S o' cx k sibs) := by
      rw [← op_implNode_eq S o o' hns]
      exact op_Res.same (op_implNode_ok S o cx k sibs)
    exact op_Res.seq (g := implNodes S o cx ks) (g' := implNodes S o' cx ks) h1 (ih _)

theorem op_implChoices (X : SchemaX) (o o' : VOpts) (hns : o.noState = o'.noState) (cx : Cx) (ks : List STree) (sibs : List DNode) :
    op_Res (implChoices X o cx ks sibs) (implChoices X o' cx ks sibs) := by
  have hE : ∀ s : List DNode, op_Res (s, ({} : Out)) (s, ({} : Out)) := fun s => op_Res.same op_OkOut.empty
  apply implChoices.induct X o cx
    (motive_1 := fun ks sibs => op_Res (implChoices X o cx ks sibs) (implChoices X o' cx ks sibs))
    (motive_2 := fun t sibs => op_Res (implChoice X o cx t sibs) (implChoice X o' cx t sibs))
    (motive_3 := fun sid ks sibs => op_Res (implCaseHolding X o cx sid ks sibs) (implCaseHolding X o' cx sid ks sibs))
    (motive_4 := fun t sibs => op_Res (implCase X o cx t sibs) (implCase X o' cx t sibs))
    (motive_5 := fun target ks sibs => op_Res (implInto X o cx target ks sibs) (implInto X o' cx target ks sibs))
    (motive_6 := fun target t sibs => op_Res (implIntoCase X o cx target t sibs) (implIntoCase X o' cx target t sibs))
    (motive_7 := fun target ks sibs => op_Res (implIntoKids X o cx target ks sibs) (implIntoKids X o' cx target ks sibs))
    (motive_8 := fun target t sibs => op_Res (implIntoChoice X o cx target t sibs) (implIntoChoice X o' cx target t sibs))
    (motive_9 := fun nm ks sibs => op_Res (implCaseNamed X o cx nm ks sibs) (implCaseNamed X o' cx nm ks sibs))
  -- implChoice
  · intro sid i cases sibs h
    unfold implChoice; simp only [← hns, h, if_true]; exact hE _
  · intro sid i cases sibs h hfd nm hnm ih
    unfold implChoice; simp only [← hns, h, Bool.false_eq_true, if_false, hfd, hnm]; exact ih
  · intro sid i cases sibs h hfd hnm
    unfold implChoice; simp only [← hns, h, Bool.false_eq_true, if_false, hfd, hnm]; exact hE _
  · intro sid i cases sibs h node hfd hq target ht ih
    unfold implChoice; simp only [← hns, h, Bool.false_eq_true, if_false, hfd, hq, if_true, ht]; exact ih
  · intro sid i cases sibs h node hfd hq ht
    unfold implChoice; simp only [← hns, h, Bool.false_eq_true, if_false, hfd, hq, if_true, ht]; exact hE _
  · intro sid i cases sibs h node hfd hq ih
    unfold implChoice; simp only [← hns, h, Bool.false_eq_true, if_false, hfd, hq]; exact ih
  -- implCase
  · intro sid i cases sibs ih
    unfold implCase
    exact op_Res.seq (g := implNodes X.base o cx cases) (g' := implNodes X.base o' cx cases) ih (op_implNodes _ o o' hns cx _ _)
  -- implIntoCase
  · intro target sid i cases sibs ih
    unfold implIntoCase; exact ih
  -- implIntoChoice
  · intro target sid i cases sibs h ih
    unfold implIntoChoice; simp only [h, if_true]; exact ih
  · intro target sid i cases sibs h
    unfold implIntoChoice; simp only [h, Bool.false_eq_true, if_false]; exact hE _
  -- implChoices
  · intro sibs; unfold implChoices; exact hE _
  · intro k ks sibs _ ih1 ih2
    unfold implChoices
    exact op_Res.seq (g := implChoices X o cx ks) (g' := implChoices X o' cx ks) ih1 ih2
  -- implCaseHolding
  · intro sid sibs; unfold implCaseHolding; exact hE _
  · intro sid k ks sibs h ih
    unfold implCaseHolding; simp only [h, if_true]; exact ih
  · intro sid k ks sibs h ih
    unfold implCaseHolding; simp only [h, Bool.false_eq_true, if_false]; exact ih
  -- implInto
  · intro target sibs; unfold implInto; exact hE _
  · intro target k ks sibs r1 ih1 ih2 ih3
    unfold implInto
    have h1 : op_Res (if (k.sid == target) = true then implCase X o cx k sibs else implIntoCase X o cx target k sibs)
        (if (k.sid == target) = true then implCase X o' cx k sibs else implIntoCase X o' cx target k sibs) := by
      split
      · exact ih1
      · exact ih2
    exact op_Res.seq (g := implInto X o cx target ks) (g' := implInto X o' cx target ks) h1 ih3
  -- implIntoKids
  · intro target sibs; unfold implIntoKids; exact hE _
  · intro target k ks sibs _ ih1 ih2
    unfold implIntoKids
    exact op_Res.seq (g := implIntoKids X o cx target ks) (g' := implIntoKids X o' cx target ks) ih1 ih2
  -- implCaseNamed
  · intro nm sibs; unfold implCaseNamed; exact hE _
  · intro nm k ks sibs h ih
    unfold implCaseNamed; simp only [h, if_true]; exact ih
  · intro nm k ks sibs h ih
    unfold implCaseNamed; simp only [h, Bool.false_eq_true, if_false]; exact ih

theorem op_implL (X : SchemaX) (o o' : VOpts) (hns : o.noState = o'.noState) (cx : Cx) (ks : List STree) (sibs : List DNode) :
    op_Res (implL X o cx ks sibs) (implL X o' cx ks sibs) := by
  unfold implL
  exact op_Res.seq (g := implNodes X.base o cx ks) (g' := implNodes X.base o' cx ks) (op_implChoices X o o' hns cx ks sibs)
    (op_implNodes _ o o' hns cx _ _)

/-! ## the walk of `lyd_validate_subtree` -/

theorem op_walkList {f f' : List DNode → DNode → DNode × Out}
    (h : ∀ before n, (f before n).1 = (f' before n).1 ∧ op_Rel (f before n).2 (f' before n).2) : ∀ (l before : List DNode),
    op_Res (walkList f before l) (walkList f' before l) := by
  intro l
  induction l with
  | nil => intro before; unfold walkList; exact op_Res.same op_OkOut.empty
  | cons n ns ih =>
    intro before
    unfold walkList
    dsimp only
    rw [← (h before n).1]
    exact ⟨by rw [(ih _).1], op_Rel.append (h before n).2 (ih _).2⟩

theorem op_subtreeNode (X : SchemaX) (o : VOpts) : ∀ (fuel : Nat) (cx : Cx) (before : List DNode) (n : DNode),
    (subtreeNode X (o.oper true) fuel cx before n).1 = (subtreeNode X (o.oper false) fuel cx before n).1 ∧
    op_Rel (subtreeNode X (o.oper true) fuel cx before n).2 (subtreeNode X (o.oper false) fuel cx before n).2 := by
  intro fuel
  induction fuel with
  | zero => intro cx before n; unfold subtreeNode; exact ⟨rfl, op_Rel.empty⟩
  | succ f ih =>
    intro cx before n
    cases n with
    | term s fl m v => unfold subtreeNode; exact ⟨rfl, op_Rel.empty⟩
    | inner s fl m ks =>
      unfold subtreeNode
      dsimp only
      have h1 := op_validateNew X o (cx.descend X.base before (.inner s fl m ks)) ks
      have h2 := op_implL X (o.oper true) (o.oper false) rfl (cx.descend X.base before (.inner s fl m ks)).keysOld
        (X.kidsOf (some s)) (validateNew X (o.oper true) (cx.descend X.base before (.inner s fl m ks)) ks).1
      have h3 := op_walkList (ih (cx.descend X.base before (.inner s fl m ks)).keysOld)
        (implL X (o.oper true) (cx.descend X.base before (.inner s fl m ks)).keysOld (X.kidsOf (some s))
          (validateNew X (o.oper true) (cx.descend X.base before (.inner s fl m ks)) ks).1).1 []
      rw [← h1.1, ← h2.1]
      exact ⟨by rw [h3.1], op_Rel.append (op_Rel.append h1.2 h2.2) h3.2⟩

/-! ## `lyd_validate_final_r` -/

theorem op_minmaxOut (S : Schema) (o : VOpts) (cx : Cx) (sibs : List DNode) (k : STree) :
    op_Rel (minmaxOut S (o.oper true) cx sibs k) (minmaxOut S (o.oper false) cx sibs k) := by
  unfold minmaxOut
  dsimp only
  split
  · exact op_Rel.empty
  · split
    · exact op_Rel.empty
    · simp only [VOpts.oper, if_true, Bool.false_eq_true, if_false]
      exact op_Rel.err_drop _ _ (Or.inl rfl)
    · simp only [VOpts.oper, if_true, Bool.false_eq_true, if_false]
      exact op_Rel.err_drop _ _ (Or.inl rfl)

theorem op_uniqueOut (X : SchemaX) (o : VOpts) (cx : Cx) (sibs : List DNode) (k : STree) :
    op_Rel (uniqueOut X (o.oper true) cx sibs k) (uniqueOut X (o.oper false) cx sibs k) := by
  unfold uniqueOut
  simp only [VOpts.oper, Bool.or_true, if_true, Bool.or_false]
  split
  · exact op_Rel.empty
  · split
    · exact op_Rel.err_drop _ _ (Or.inl rfl)
    · exact op_Rel.empty

theorem op_schemaNodes (X : SchemaX) (o : VOpts) (cx : Cx) (sibs : List DNode) : ∀ (ks : List STree),
    op_Rel (schemaNodes X (o.oper true) cx sibs ks) (schemaNodes X (o.oper false) cx sibs ks) := by
  intro ks
  induction ks with
  | nil => unfold schemaNodes; exact op_Rel.empty
  | cons k ks ih =>
    unfold schemaNodes
    dsimp only
    refine op_Rel.append ?_ ih
    have hns : (o.oper true).noState = (o.oper false).noState := rfl
    rw [hns]
    split
    · exact op_Rel.empty
    · split
      · exact op_Rel.append (op_minmaxOut _ o cx sibs k) (op_uniqueOut X o cx sibs k)
      · exact op_minmaxOut _ o cx sibs k
      · simp only [VOpts.oper, Bool.not_true, Bool.and_false, Bool.false_eq_true, if_false, Bool.not_false, Bool.and_true]
        split
        · exact op_Rel.err_drop _ _ (Or.inl rfl)
        · exact op_Rel.empty

mutual
theorem op_schemaChoices (X : SchemaX) (o : VOpts) (cx : Cx) (sibs : List DNode) : ∀ (ks : List STree),
    op_Rel (schemaChoices X (o.oper true) cx sibs ks) (schemaChoices X (o.oper false) cx sibs ks)
  | [] => by unfold schemaChoices; exact op_Rel.empty
  | k :: rest => by
    unfold schemaChoices
    exact op_Rel.append (op_schemaChoice X o cx sibs k) (op_schemaChoices X o cx sibs rest)
theorem op_schemaChoice (X : SchemaX) (o : VOpts) (cx : Cx) (sibs : List DNode) : ∀ (t : STree),
    op_Rel (schemaChoice X (o.oper true) cx sibs t) (schemaChoice X (o.oper false) cx sibs t)
  | .mk s i cases => by
    unfold schemaChoice
    have hns : (o.oper true).noState = (o.oper false).noState := rfl
    rw [hns]
    split
    · exact op_Rel.empty
    · dsimp only
      refine op_Rel.append ?_ (op_schemaCases X o cx sibs cases)
      simp only [VOpts.oper, Bool.not_true, Bool.and_false, Bool.false_eq_true, if_false, Bool.not_false, Bool.and_true]
      split
      · exact op_Rel.err_drop _ _ (Or.inl rfl)
      · exact op_Rel.empty
theorem op_schemaCases (X : SchemaX) (o : VOpts) (cx : Cx) (sibs : List DNode) : ∀ (cs : List STree),
    op_Rel (schemaCases X (o.oper true) cx sibs cs) (schemaCases X (o.oper false) cx sibs cs)
  | [] => by unfold schemaCases; exact op_Rel.empty
  | c :: rest => by
    unfold schemaCases
    split
    · exact op_schemaCase X o cx sibs c
    · exact op_schemaCases X o cx sibs rest
theorem op_schemaCase (X : SchemaX) (o : VOpts) (cx : Cx) (sibs : List DNode) : ∀ (t : STree),
    op_Rel (schemaCase X (o.oper true) cx sibs t) (schemaCase X (o.oper false) cx sibs t)
  | .mk _ _ ks => by
    unfold schemaCase
    exact op_Rel.append (op_schemaChoices X o cx sibs ks) (op_schemaNodes X o cx sibs ks)
end

theorem op_nodeChecks (S : Schema) (o : VOpts) (cx : Cx) : ∀ (rest before : List DNode),
    op_Rel (nodeChecks S (o.oper true) cx before rest) (nodeChecks S (o.oper false) cx before rest) := by
  intro rest
  induction rest with
  | nil => intro before; unfold nodeChecks; exact op_Rel.empty
  | cons n ns ih =>
    intro before
    unfold nodeChecks
    refine op_Rel.append ?_ (ih _)
    have hns : (o.oper true).noState = (o.oper false).noState := rfl
    rw [hns]
    split
    · exact op_Rel.refl_of (op_OkOut.err _ _ rfl)
    · exact op_Rel.empty

theorem op_levelChecks (X : SchemaX) (o : VOpts) (cx : Cx) (sibs : List DNode) :
    op_Rel (levelChecks X (o.oper true) cx sibs) (levelChecks X (o.oper false) cx sibs) := by
  unfold levelChecks schemaRL
  exact op_Rel.append (op_nodeChecks _ o cx sibs []) (op_Rel.append (op_schemaChoices X o cx sibs _) (op_schemaNodes X o cx sibs _))

mutual
theorem op_finalNode (X : SchemaX) (o : VOpts) (cx : Cx) : ∀ (n : DNode) (before : List DNode),
    (finalNode X (o.oper true) cx before n).1 = (finalNode X (o.oper false) cx before n).1 ∧
    op_Rel (finalNode X (o.oper true) cx before n).2 (finalNode X (o.oper false) cx before n).2
  | .inner s f m ks, before => by
    unfold finalNode
    dsimp only
    have h := op_finalKids X o (cx.descend X.base before (.inner s f m ks)) ks []
    exact ⟨by rw [h.1], op_Rel.append (op_levelChecks X o _ ks) h.2⟩
  | .term s f m v, before => by
    unfold finalNode
    exact ⟨rfl, op_Rel.empty⟩
theorem op_finalKids (X : SchemaX) (o : VOpts) (cx : Cx) : ∀ (ns before : List DNode),
    op_Res (finalKids X (o.oper true) cx before ns) (finalKids X (o.oper false) cx before ns)
  | [], _ => by unfold finalKids; exact op_Res.same op_OkOut.empty
  | n :: ns, before => by
    unfold finalKids
    dsimp only
    have h1 := op_finalNode X o cx n before
    have h2 := op_finalKids X o cx ns (before ++ [n])
    exact ⟨by rw [h1.1, h2.1], op_Rel.append h1.2 h2.2⟩
end

theorem op_finalR (X : SchemaX) (o : VOpts) (cx : Cx) (sibs : List DNode) :
    op_Res (finalR X (o.oper true) cx sibs) (finalR X (o.oper false) cx sibs) := by
  unfold finalR
  have h := op_finalKids X o cx sibs []
  exact ⟨h.1, op_Rel.append (op_levelChecks X o cx sibs) h.2⟩

/-! ## `lyd_validate` -/

/-- the whole run: same tree, and the log of the operational run is the other log without some downgraded / duplicate errors -/
theorem op_validate (X : SchemaX) (o : VOpts) (t : List DNode) :
    (validate X (o.oper true) t).tree = (validate X (o.oper false) t).tree ∧
    op_Sub (validate X (o.oper true) t).log (validate X (o.oper false) t).log := by
  unfold validate
  have hp : (o.oper true).present = (o.oper false).present := rfl
  rw [hp]
  split
  · exact ⟨rfl, op_Sub.nil⟩
  · dsimp only
    have h1 := op_validateNew X o {} t
    have h2 := op_implL X (o.oper true) (o.oper false) rfl {} X.top (validateNew X (o.oper true) {} t).1
    have h3 := op_walkList (op_subtreeNode X o (walkFuel X t) {})
      (implL X (o.oper true) {} X.top (validateNew X (o.oper true) {} t).1).1 []
    unfold subtreeKids
    rw [← h1.1, ← h2.1, ← h3.1]
    have h4 := op_finalR X o {} (walkList (subtreeNode X (o.oper true) (walkFuel X t) {}) []
      (implL X (o.oper true) {} X.top (validateNew X (o.oper true) {} t).1).1).1
    exact ⟨h4.1, op_Rel.append (op_Rel.append (op_Rel.append h1.2 h2.2) h3.2) h4.2⟩

/-! ## what the relation says about events and errors -/

theorem op_Sub.evs_eq {a b : List Item} (h : op_Sub a b) :
    (a.filterMap fun | .ev e => some e | .err _ => none) = (b.filterMap fun | .ev e => some e | .err _ => none) := by
  induction h with
  | nil => rfl
  | @keep x _ _ _ _ ih => cases x <;> simp only [List.filterMap_cons, ih]
  | drop _ _ ih => simp only [List.filterMap_cons, ih]

theorem op_Sub.errs_sublist {a b : List Item} (h : op_Sub a b) :
    (a.filterMap fun | .err e => some e | .ev _ => none).Sublist (b.filterMap fun | .err e => some e | .ev _ => none) := by
  induction h with
  | nil => exact List.Sublist.refl _
  | @keep x _ _ _ _ ih =>
    cases x with
    | ev e => simpa only [List.filterMap_cons] using ih
    | err e => simp only [List.filterMap_cons]; exact ih.cons_cons _
  | drop _ _ ih => simp only [List.filterMap_cons]; exact ih.cons _

theorem op_Sub.errs_ok {a b : List Item} (h : op_Sub a b) :
    ∀ e ∈ (a.filterMap fun | .err e => some e | .ev _ => none), downgraded e.kind = false := by
  induction h with
  | nil => intro e he; cases he
  | @keep x _ _ hx _ ih =>
    cases x with
    | ev e0 => simpa only [List.filterMap_cons] using ih
    | err e0 =>
      intro e he
      simp only [List.filterMap_cons, List.mem_cons] at he
      rcases he with rfl | he
      · exact hx
      · exact ih e he
  | drop _ _ ih => exact ih

theorem op_Sub.errs_dropped {a b : List Item} (h : op_Sub a b) :
    ∀ e ∈ (b.filterMap fun | .err e => some e | .ev _ => none), e ∉ (a.filterMap fun | .err e => some e | .ev _ => none) →
      downgraded e.kind = true ∨ e.kind = .dup := by
  induction h with
  | nil => intro e he; cases he
  | @keep x _ _ _ _ ih =>
    cases x with
    | ev e0 => simpa only [List.filterMap_cons] using ih
    | err e0 =>
      intro e he hn
      simp only [List.filterMap_cons, List.mem_cons, not_or] at he hn
      rcases he with rfl | he
      · exact absurd rfl hn.1
      · exact ih e he hn.2
  | @drop e0 _ _ hd _ ih =>
    intro e he hn
    simp only [List.filterMap_cons, List.mem_cons] at he
    rcases he with rfl | he
    · exact hd
    · exact ih e he hn

/-- **`LYD_VALIDATE_OPERATIONAL` only downgrades errors**: the same resulting tree and the same change events; the errors are a
sublist of the errors without the option, none of them of a downgraded family; what disappears is of a downgraded family or a
duplicate instance (`dupErr` suppresses it for lists and leaf-lists only) -/
theorem operational_relaxes (X : SchemaX) (o : VOpts) (t : List DNode) :
    (validate X (o.oper true) t).tree = (validate X (o.oper false) t).tree ∧
    (validate X (o.oper true) t).evs = (validate X (o.oper false) t).evs ∧
    (validate X (o.oper true) t).errs.Sublist (validate X (o.oper false) t).errs ∧
    (∀ e ∈ (validate X (o.oper true) t).errs, downgraded e.kind = false) ∧
    (∀ e ∈ (validate X (o.oper false) t).errs, e ∉ (validate X (o.oper true) t).errs → downgraded e.kind = true ∨ e.kind = .dup) := by
  have h := op_validate X o t
  exact ⟨h.1, h.2.evs_eq, h.2.errs_sublist, h.2.errs_ok, h.2.errs_dropped⟩

/-- what validates without the option validates with it -/
theorem operational_accepts (X : SchemaX) (o : VOpts) (t : List DNode) (h : (validate X (o.oper false) t).errs = []) :
    (validate X (o.oper true) t).errs = [] := by
  have := (operational_relaxes X o t).2.2.1
  rw [h] at this
  exact List.sublist_nil.1 this

end LyModel.Valid
