import LyModel.Valid.LemmasStable
/-! `validate_idempotent` (C07) for schemas WITH `choice` / `case`, part 1: `lyd_new_implicit` in the repaired variant (F180:
`implicitInnerCase = false`).  Which case of a choice is completed depends only on which schema nodes have instances
(`selCase`); `doneChoices` says that nothing is left to create; a level is done after `implL`, and stays done when instances of
other schema nodes arrive. -/
namespace LyModel.Valid
open LyModel LyModel.Tree

/-! ## small list facts -/

theorem find?_congr' {α : Type} {p q : α → Bool} : ∀ {l : List α}, (∀ x ∈ l, p x = q x) → l.find? p = l.find? q := by
  intro l
  induction l with
  | nil => intro _; rfl
  | cons a as ih =>
    intro h
    rw [List.find?_cons, List.find?_cons, h a (List.mem_cons_self ..), ih (fun x hx => h x (List.mem_cons_of_mem _ hx))]

theorem any_congr' {α : Type} {p q : α → Bool} : ∀ {l : List α}, (∀ x ∈ l, p x = q x) → l.any p = l.any q := by
  intro l
  induction l with
  | nil => intro _; rfl
  | cons a as ih =>
    intro h
    rw [List.any_cons, List.any_cons, h a (List.mem_cons_self ..), ih (fun x hx => h x (List.mem_cons_of_mem _ hx))]

theorem all_congr' {α : Type} {p q : α → Bool} : ∀ {l : List α}, (∀ x ∈ l, p x = q x) → l.all p = l.all q := by
  intro l
  induction l with
  | nil => intro _; rfl
  | cons a as ih =>
    intro h
    rw [List.all_cons, List.all_cons, h a (List.mem_cons_self ..), ih (fun x hx => h x (List.mem_cons_of_mem _ hx))]

/-! ## data sids -/

theorem dataSidsL_cons (t : STree) (ts : List STree) : dataSidsL (t :: ts) = t.dataSids ++ dataSidsL ts := by
  rw [dataSidsL]

theorem dataSidsL_nil : dataSidsL [] = [] := by rw [dataSidsL]

theorem dataSids_mk (s : Nat) (i : SNode) (ks : List STree) :
    (STree.mk s i ks).dataSids = if i.kind == .choice || i.kind == .case then dataSidsL ks else [s] := by
  rw [STree.dataSids]

theorem dataSids_sub_L {c : STree} : ∀ {cs : List STree}, c ∈ cs → ∀ sid ∈ c.dataSids, sid ∈ dataSidsL cs := by
  intro cs
  induction cs with
  | nil => intro h; cases h
  | cons x xs ih =>
    intro h sid hs
    rw [dataSidsL_cons]
    cases h with
    | head => exact List.mem_append_left _ hs
    | tail _ h => exact List.mem_append_right _ (ih h sid hs)

theorem mem_dataSidsL {sid : Nat} : ∀ {cs : List STree}, sid ∈ dataSidsL cs → ∃ c ∈ cs, sid ∈ c.dataSids := by
  intro cs
  induction cs with
  | nil => intro h; rw [dataSidsL_nil] at h; cases h
  | cons x xs ih =>
    intro h
    rw [dataSidsL_cons, List.mem_append] at h
    rcases h with h | h
    · exact ⟨x, List.mem_cons_self .., h⟩
    · obtain ⟨c, hc, hs⟩ := ih h
      exact ⟨c, List.mem_cons_of_mem _ hc, hs⟩

/-- two members of a list of cases whose data sids are all different share no data sid -/
theorem case_unique {sid : Nat} : ∀ {cs : List STree}, (dataSidsL cs).Nodup → ∀ {c c' : STree}, c ∈ cs → c' ∈ cs →
    sid ∈ c.dataSids → sid ∈ c'.dataSids → c = c' := by
  intro cs
  induction cs with
  | nil => intro _ c c' h; cases h
  | cons x xs ih =>
    intro hnd c c' hc hc' hs hs'
    rw [dataSidsL_cons, List.nodup_append] at hnd
    obtain ⟨_, hnd2, hdis⟩ := hnd
    cases hc with
    | head =>
      cases hc' with
      | head => rfl
      | tail _ hc' => exact absurd rfl (hdis sid hs sid (dataSids_sub_L hc' sid hs'))
    | tail _ hc =>
      cases hc' with
      | head => exact absurd rfl (hdis sid hs' sid (dataSids_sub_L hc sid hs))
      | tail _ hc' => exact ih hnd2 hc hc' hs hs'

theorem nodup_of_mem_cases {c : STree} : ∀ {cs : List STree}, (dataSidsL cs).Nodup → c ∈ cs → c.dataSids.Nodup := by
  intro cs
  induction cs with
  | nil => intro _ h; cases h
  | cons x xs ih =>
    intro hnd hc
    rw [dataSidsL_cons, List.nodup_append] at hnd
    cases hc with
    | head => exact hnd.1
    | tail _ hc => exact ih hnd.2.1 hc

/-! ## which case `lyd_new_implicit` completes -/

/-- the case of a choice that gets its implicit nodes: the first case that has data (`H` = "this schema node has an instance"),
else the default case -/
def selCase (i : SNode) (cases : List STree) (H : Nat → Bool) : Option STree :=
  match cases.find? (fun c => c.dataSids.any H) with
  | some c => some c
  | none =>
    match i.dfltCase with
    | some nm => cases.find? (fun c => c.info.name == nm)
    | none => none

theorem selCase_mem {i : SNode} {cases : List STree} {H : Nat → Bool} {c : STree} (h : selCase i cases H = some c) : c ∈ cases := by
  unfold selCase at h
  split at h
  · rename_i c' hf
    injection h with h; subst h
    exact List.mem_of_find?_eq_some hf
  · split at h
    · exact List.mem_of_find?_eq_some h
    · cases h

theorem firstData_sid (sibs : List DNode) : ∀ (ds : List Nat), (firstData sibs ds).map (·.sid) = ds.find? (hasInst sibs) := by
  intro ds
  induction ds with
  | nil => rfl
  | cons d ds ih =>
    unfold firstData at ih ⊢
    rw [List.findSome?_cons, List.find?_cons]
    cases hf : sibs.find? (fun x => x.sid == d) with
    | some b =>
      have hb : (b.sid == d) = true := @List.find?_some _ (fun x => x.sid == d) b sibs hf
      have hh : hasInst sibs d = true := List.any_eq_true.2 ⟨b, List.mem_of_find?_eq_some hf, hb⟩
      simp only [hh, Option.map_some]
      rw [show b.sid = d from by simpa using hb]
    | none =>
      have hh : hasInst sibs d = false := by
        unfold hasInst
        rw [List.any_eq_false]
        exact List.find?_eq_none.1 hf
      simp only [hh]
      exact ih

/-- the first case holding the first data sid is the first case that has data -/
theorem find_holding_eq (H : Nat → Bool) : ∀ (cases : List STree) (sid : Nat), (dataSidsL cases).find? H = some sid →
    cases.find? (fun c => c.dataSids.contains sid) = cases.find? (fun c => c.dataSids.any H) := by
  intro cases
  induction cases with
  | nil => intro sid h; rw [dataSidsL_nil] at h; cases h
  | cons x xs ih =>
    intro sid h
    rw [dataSidsL_cons, List.find?_append] at h
    rw [List.find?_cons, List.find?_cons]
    cases hx : x.dataSids.find? H with
    | some s' =>
      rw [hx] at h
      have h : some s' = some sid := h
      injection h with h
      subst h
      have h1 : x.dataSids.contains s' = true := by
        rw [List.contains_iff_mem]; exact List.mem_of_find?_eq_some hx
      have h2 : x.dataSids.any H = true := List.any_eq_true.2 ⟨s', List.mem_of_find?_eq_some hx, List.find?_some hx⟩
      simp only [h1, h2]
    | none =>
      rw [hx] at h
      have h : (dataSidsL xs).find? H = some sid := h
      have hH : H sid = true := List.find?_some h
      have h2 : x.dataSids.any H = false := by
        rw [List.any_eq_false]; exact List.find?_eq_none.1 hx
      have h1 : x.dataSids.contains sid = false := by
        cases hc : x.dataSids.contains sid with
        | false => rfl
        | true =>
          rw [List.contains_iff_mem] at hc
          exact absurd hH (List.find?_eq_none.1 hx sid hc)
      simp only [h1, h2]
      exact ih sid h

theorem find_data_none (H : Nat → Bool) : ∀ (cases : List STree), (dataSidsL cases).find? H = none →
    cases.find? (fun c => c.dataSids.any H) = none := by
  intro cases h
  rw [List.find?_eq_none] at h ⊢
  intro c hc hany
  obtain ⟨sid, hs, hH⟩ := List.any_eq_true.1 hany
  exact h sid (dataSids_sub_L hc sid hs) hH

theorem implCaseNamed_eq (X : SchemaX) (o : VOpts) (cx : Cx) (nm : String) : ∀ (cases : List STree) (sibs : List DNode),
    implCaseNamed X o cx nm cases sibs =
      match cases.find? (fun c => c.info.name == nm) with
      | some c => implCase X o cx c sibs
      | none => (sibs, {}) := by
  intro cases
  induction cases with
  | nil => intro sibs; rw [implCaseNamed]; rfl
  | cons c rest ih =>
    intro sibs
    rw [implCaseNamed, List.find?_cons]
    by_cases h : (c.info.name == nm) = true
    · simp only [h, if_true]
    · have h' : (c.info.name == nm) = false := by simpa using h
      simp only [h', Bool.false_eq_true, if_false]
      exact ih sibs

theorem implCaseHolding_eq (X : SchemaX) (o : VOpts) (cx : Cx) (sid : Nat) : ∀ (cases : List STree) (sibs : List DNode),
    implCaseHolding X o cx sid cases sibs =
      match cases.find? (fun c => c.dataSids.contains sid) with
      | some c => implCase X o cx c sibs
      | none => (sibs, {}) := by
  intro cases
  induction cases with
  | nil => intro sibs; rw [implCaseHolding]; rfl
  | cons c rest ih =>
    intro sibs
    rw [implCaseHolding, List.find?_cons]
    by_cases h : c.dataSids.contains sid = true
    · simp only [h, if_true]
    · have h' : c.dataSids.contains sid = false := by simpa using h
      simp only [h', Bool.false_eq_true, if_false]
      exact ih sibs

/-- **the repaired `lyd_new_implicit` on a choice**: the selected case is completed -/
theorem implChoice_sel (X : SchemaX) (o : VOpts) (cx : Cx) (hq : X.q.implicitInnerCase = false) (s : Nat) (i : SNode)
    (cases : List STree) (sibs : List DNode) :
    implChoice X o cx (.mk s i cases) sibs =
      if (i.kind != .choice || (o.noState && !i.config)) = true then (sibs, {})
      else match selCase i cases (hasInst sibs) with
        | some c => implCase X o cx c sibs
        | none => (sibs, {}) := by
  rw [implChoice]
  split
  · rfl
  · have hs := firstData_sid sibs (dataSidsL cases)
    cases hfd : firstData sibs (dataSidsL cases) with
    | none =>
      rw [hfd] at hs
      have hnone := find_data_none (hasInst sibs) cases hs.symm
      unfold selCase
      simp only [hnone]
      cases hd : i.dfltCase with
      | none => rfl
      | some nm => simp only []; exact implCaseNamed_eq X o cx nm cases sibs
    | some node =>
      rw [hfd] at hs
      simp only [Option.map_some] at hs
      have hh := find_holding_eq (hasInst sibs) cases node.sid hs.symm
      simp only [hq, Bool.false_eq_true, if_false]
      rw [implCaseHolding_eq, hh]
      unfold selCase
      cases hf : cases.find? (fun c => c.dataSids.any (hasInst sibs)) with
      | some c => rfl
      | none =>
        -- impossible: the holder of the first data node has data
        exfalso
        have hH : hasInst sibs node.sid = true := List.find?_some hs.symm
        have hm : node.sid ∈ dataSidsL cases := List.mem_of_find?_eq_some hs.symm
        obtain ⟨c, hc, hsc⟩ := mem_dataSidsL hm
        exact List.find?_eq_none.1 hf c hc (List.any_eq_true.2 ⟨node.sid, hsc, hH⟩)

/-! ## nothing left to create -/

/-- the non-choice nodes of a level that get implicit instances have one -/
def doneNodes (o : VOpts) (H : Nat → Bool) (ks : List STree) : Bool := ks.all fun k => !wantsImplicit o k || H k.sid

mutual
def doneChoice (o : VOpts) (H : Nat → Bool) : STree → Bool
  | .mk _ i cases =>
    if i.kind != .choice || (o.noState && !i.config) then true
    else
      match doneFirst o H cases with
      | some b => b
      | none =>
        match i.dfltCase with
        | some nm => doneNamed o H nm cases
        | none => true
def doneCase (o : VOpts) (H : Nat → Bool) : STree → Bool
  | .mk _ _ ks => doneChoices o H ks && doneNodes o H ks
def doneChoices (o : VOpts) (H : Nat → Bool) : List STree → Bool
  | [] => true
  | k :: rest => doneChoice o H k && doneChoices o H rest
/-- the first case that has data -/
def doneFirst (o : VOpts) (H : Nat → Bool) : List STree → Option Bool
  | [] => none
  | c :: rest => if c.dataSids.any H then some (doneCase o H c) else doneFirst o H rest
def doneNamed (o : VOpts) (H : Nat → Bool) (nm : String) : List STree → Bool
  | [] => true
  | c :: rest => if c.info.name == nm then doneCase o H c else doneNamed o H nm rest
end

theorem doneFirst_eq (o : VOpts) (H : Nat → Bool) : ∀ (cases : List STree),
    doneFirst o H cases = (cases.find? (fun c => c.dataSids.any H)).map (doneCase o H) := by
  intro cases
  induction cases with
  | nil => rw [doneFirst]; rfl
  | cons c rest ih =>
    rw [doneFirst, List.find?_cons]
    by_cases h : c.dataSids.any H = true
    · simp only [h, if_true, Option.map_some]
    · have h' : c.dataSids.any H = false := by simpa using h
      simp only [h', Bool.false_eq_true, if_false]
      exact ih

theorem doneNamed_eq (o : VOpts) (H : Nat → Bool) (nm : String) : ∀ (cases : List STree),
    doneNamed o H nm cases = match cases.find? (fun c => c.info.name == nm) with
      | some c => doneCase o H c
      | none => true := by
  intro cases
  induction cases with
  | nil => rw [doneNamed]; rfl
  | cons c rest ih =>
    rw [doneNamed, List.find?_cons]
    by_cases h : (c.info.name == nm) = true
    · simp only [h, if_true]
    · have h' : (c.info.name == nm) = false := by simpa using h
      simp only [h', Bool.false_eq_true, if_false]
      exact ih

theorem doneChoice_sel (o : VOpts) (H : Nat → Bool) (s : Nat) (i : SNode) (cases : List STree) :
    doneChoice o H (.mk s i cases) =
      if (i.kind != .choice || (o.noState && !i.config)) = true then true
      else match selCase i cases H with
        | some c => doneCase o H c
        | none => true := by
  rw [doneChoice]
  split
  · rfl
  · rw [doneFirst_eq]
    unfold selCase
    cases hf : cases.find? (fun c => c.dataSids.any H) with
    | some c => rfl
    | none =>
      simp only [Option.map_none]
      cases hd : i.dfltCase with
      | none => rfl
      | some nm => simp only []; exact doneNamed_eq o H nm cases

theorem doneChoices_all (o : VOpts) (H : Nat → Bool) : ∀ (ks : List STree),
    doneChoices o H ks = true ↔ ∀ k ∈ ks, doneChoice o H k = true := by
  intro ks
  induction ks with
  | nil => rw [doneChoices]; simp
  | cons k rest ih =>
    rw [doneChoices]
    simp only [Bool.and_eq_true, ih, List.mem_cons, forall_eq_or_imp]

/-- `lyd_new_implicit` has nothing to do on the level -/
def implDoneX (o : VOpts) (ks : List STree) (sibs : List DNode) : Bool :=
  doneChoices o (hasInst sibs) ks && doneNodes o (hasInst sibs) ks

theorem doneNodes_implDone (o : VOpts) (ks : List STree) (sibs : List DNode) : doneNodes o (hasInst sibs) ks = implDone o ks sibs := rfl

/-! ### done → nothing happens -/

mutual
theorem impl_of_done_T (X : SchemaX) (o : VOpts) (cx : Cx) (hq : X.q.implicitInnerCase = false) : ∀ (t : STree) (sibs : List DNode),
    (doneChoice o (hasInst sibs) t = true → implChoice X o cx t sibs = (sibs, {})) ∧
    (doneCase o (hasInst sibs) t = true → implCase X o cx t sibs = (sibs, {}))
  | .mk s i ks, sibs => by
    have ihL := impl_of_done_L X o cx hq ks sibs
    constructor
    · intro h
      rw [doneChoice_sel] at h
      rw [implChoice_sel X o cx hq]
      split
      · rfl
      · rename_i hc
        simp only [hc] at h
        cases hsel : selCase i ks (hasInst sibs) with
        | none => rfl
        | some c =>
          simp only [hsel] at h ⊢
          exact ihL.2 c (selCase_mem hsel) h
    · intro h
      rw [doneCase] at h
      simp only [Bool.and_eq_true] at h
      rw [implCase]
      rw [ihL.1 h.1]
      dsimp only
      rw [implNodes_of_done X.base o cx ks sibs h.2]
      rfl
theorem impl_of_done_L (X : SchemaX) (o : VOpts) (cx : Cx) (hq : X.q.implicitInnerCase = false) : ∀ (ks : List STree) (sibs : List DNode),
    (doneChoices o (hasInst sibs) ks = true → implChoices X o cx ks sibs = (sibs, {})) ∧
    (∀ c ∈ ks, doneCase o (hasInst sibs) c = true → implCase X o cx c sibs = (sibs, {}))
  | [], sibs => by
    constructor
    · intro _; rw [implChoices]
    · intro c hc; cases hc
  | k :: rest, sibs => by
    have ihT := impl_of_done_T X o cx hq k sibs
    have ihL := impl_of_done_L X o cx hq rest sibs
    constructor
    · intro h
      rw [doneChoices] at h
      simp only [Bool.and_eq_true] at h
      rw [implChoices]
      rw [ihT.1 h.1]
      dsimp only
      rw [ihL.1 h.2]
      rfl
    · intro c hc
      cases hc with
      | head => exact ihT.2
      | tail _ hc => exact ihL.2 c hc
end

theorem implL_of_doneX (X : SchemaX) (o : VOpts) (cx : Cx) (hq : X.q.implicitInnerCase = false) (ks : List STree) (sibs : List DNode)
    (h : implDoneX o ks sibs = true) : implL X o cx ks sibs = (sibs, {}) := by
  unfold implDoneX at h
  simp only [Bool.and_eq_true] at h
  unfold implL
  dsimp only
  rw [(impl_of_done_L X o cx hq ks sibs).1 h.1]
  dsimp only
  rw [implNodes_of_done X.base o cx ks sibs h.2]
  rfl

end LyModel.Valid

namespace LyModel.Valid
open LyModel LyModel.Tree

/-! ## well-kinded schema trees: the children of a choice are cases -/

mutual
def kindsOk : STree → Bool
  | .mk _ i ks => (i.kind != .choice || ks.all (fun c => c.info.kind == .case)) && kindsOkL ks
def kindsOkL : List STree → Bool
  | [] => true
  | t :: ts => kindsOk t && kindsOkL ts
end

theorem kindsOk_mk (s : Nat) (i : SNode) (ks : List STree) :
    kindsOk (.mk s i ks) = ((i.kind != .choice || ks.all (fun c => c.info.kind == .case)) && kindsOkL ks) := by rw [kindsOk]

theorem kindsOkL_cons (t : STree) (ts : List STree) : kindsOkL (t :: ts) = (kindsOk t && kindsOkL ts) := by rw [kindsOkL]

theorem kindsOkL_mem {c : STree} : ∀ {cs : List STree}, kindsOkL cs = true → c ∈ cs → kindsOk c = true := by
  intro cs
  induction cs with
  | nil => intro _ h; cases h
  | cons x xs ih =>
    intro h hc
    rw [kindsOkL_cons] at h
    simp only [Bool.and_eq_true] at h
    cases hc with
    | head => exact h.1
    | tail _ hc => exact ih h.2 hc

theorem dataSids_case {c : STree} (h : c.info.kind = .case) : c.dataSids = dataSidsL c.kids := by
  cases c with
  | mk s i ks =>
    simp only [STree.info] at h
    rw [dataSids_mk, h]
    rfl

theorem dataSids_choice {s : Nat} {i : SNode} {ks : List STree} (h : i.kind = .choice) : (STree.mk s i ks).dataSids = dataSidsL ks := by
  rw [dataSids_mk, h]
  rfl

theorem dataSids_data {k : STree} (h1 : k.info.kind ≠ .choice) (h2 : k.info.kind ≠ .case) : k.dataSids = [k.sid] := by
  cases k with
  | mk s i ks =>
    simp only [STree.info] at h1 h2
    rw [dataSids_mk]
    have e1 : (i.kind == SKind.choice) = false := by simpa using h1
    have e2 : (i.kind == SKind.case) = false := by simpa using h2
    simp only [e1, e2, Bool.or_self, Bool.false_eq_true, if_false]
    rfl

theorem wants_kind {o : VOpts} {k : STree} (h : wantsImplicit o k = true) : k.info.kind ≠ .choice ∧ k.info.kind ≠ .case := by
  unfold wantsImplicit at h
  simp only [Bool.and_eq_true, Bool.or_eq_true, beq_iff_eq, Bool.not_eq_eq_eq_not, Bool.not_true] at h
  obtain ⟨⟨h1, _⟩, h3⟩ := h
  constructor
  · intro hk; rw [hk] at h1; simp at h1
  · intro hk
    rw [hk] at h3
    simp at h3

theorem wants_sid_mem {o : VOpts} {k : STree} {ks : List STree} (hk : k ∈ ks) (h : wantsImplicit o k = true) : k.sid ∈ dataSidsL ks := by
  apply dataSids_sub_L hk
  rw [dataSids_data (wants_kind h).1 (wants_kind h).2]
  exact List.mem_singleton.2 rfl

theorem doneChoice_nonchoice (o : VOpts) (H : Nat → Bool) {k : STree} (h : k.info.kind ≠ .choice) : doneChoice o H k = true := by
  cases k with
  | mk s i ks =>
    simp only [STree.info] at h
    rw [doneChoice]
    have : (i.kind != SKind.choice) = true := by simpa using h
    simp [this]

/-! ## the done predicates look only at the instances of the data sids below -/

def Agree (ds : List Nat) (H H' : Nat → Bool) : Prop := ∀ sid ∈ ds, H sid = H' sid

theorem Agree.sub {ds ds' : List Nat} {H H' : Nat → Bool} (h : Agree ds H H') (hs : ∀ x ∈ ds', x ∈ ds) : Agree ds' H H' :=
  fun sid hsid => h sid (hs sid hsid)

theorem selCase_congr (i : SNode) (cases : List STree) {H H' : Nat → Bool} (h : Agree (dataSidsL cases) H H') :
    selCase i cases H = selCase i cases H' := by
  unfold selCase
  have : cases.find? (fun c => c.dataSids.any H) = cases.find? (fun c => c.dataSids.any H') := by
    apply find?_congr'
    intro c hc
    apply any_congr'
    intro sid hsid
    exact h sid (dataSids_sub_L hc sid hsid)
  rw [this]

theorem doneNodes_congr (o : VOpts) (ks : List STree) {H H' : Nat → Bool} (h : Agree (dataSidsL ks) H H') :
    doneNodes o H ks = doneNodes o H' ks := by
  unfold doneNodes
  apply all_congr'
  intro k hk
  by_cases hw : wantsImplicit o k = true
  · rw [h k.sid (wants_sid_mem hk hw)]
  · have : wantsImplicit o k = false := by simpa using hw
    simp [this]

theorem choice_kind_of_not_skip {o : VOpts} {i : SNode} (h : ¬ (i.kind != .choice || (o.noState && !i.config)) = true) : i.kind = .choice := by
  simp only [Bool.or_eq_true, not_or, bne_iff_ne, ne_eq, Decidable.not_not] at h
  exact h.1

mutual
theorem done_congr_T (o : VOpts) (H H' : Nat → Bool) : ∀ (t : STree), kindsOk t = true →
    (Agree t.dataSids H H' → doneChoice o H t = doneChoice o H' t) ∧
    (Agree (dataSidsL t.kids) H H' → doneCase o H t = doneCase o H' t)
  | .mk s i ks, hk => by
    rw [kindsOk_mk] at hk
    simp only [Bool.and_eq_true] at hk
    have ihL := done_congr_L o H H' ks hk.2
    constructor
    · intro hag
      rw [doneChoice_sel, doneChoice_sel]
      split
      · rfl
      · rename_i hc
        have hkind := choice_kind_of_not_skip hc
        rw [dataSids_choice hkind] at hag
        rw [selCase_congr i ks hag]
        cases hsel : selCase i ks H' with
        | none => rfl
        | some c =>
          have hcm := selCase_mem hsel
          have hcases : ks.all (fun c => c.info.kind == .case) = true := by
            have := hk.1
            simp only [hkind, bne_self_eq_false, Bool.false_or] at this
            exact this
          have hck : c.info.kind = .case := by
            have := List.all_eq_true.1 hcases c hcm
            simpa using this
          apply ihL.2 c hcm
          rw [← dataSids_case hck]
          exact hag.sub (dataSids_sub_L hcm)
    · intro hag
      simp only [STree.kids] at hag
      rw [doneCase, doneCase, ihL.1 hag, doneNodes_congr o ks hag]
theorem done_congr_L (o : VOpts) (H H' : Nat → Bool) : ∀ (ks : List STree), kindsOkL ks = true →
    (Agree (dataSidsL ks) H H' → doneChoices o H ks = doneChoices o H' ks) ∧
    (∀ c ∈ ks, Agree (dataSidsL c.kids) H H' → doneCase o H c = doneCase o H' c)
  | [], _ => by
    constructor
    · intro _; rw [doneChoices, doneChoices]
    · intro c hc; cases hc
  | k :: rest, hk => by
    rw [kindsOkL_cons] at hk
    simp only [Bool.and_eq_true] at hk
    have ihT := done_congr_T o H H' k hk.1
    have ihL := done_congr_L o H H' rest hk.2
    constructor
    · intro hag
      rw [dataSidsL_cons] at hag
      rw [doneChoices, doneChoices, ihT.1 (hag.sub (fun x hx => List.mem_append_left _ hx)),
        ihL.1 (hag.sub (fun x hx => List.mem_append_right _ hx))]
    · intro c hc
      cases hc with
      | head => exact ihT.2
      | tail _ hc => exact ihL.2 c hc
end

/-! ## the selected case stays selected when only instances of its own data nodes arrive -/

theorem selCase_stable (i : SNode) (cases : List STree) (H H' : Nat → Bool) (c : STree) (hnd : (dataSidsL cases).Nodup)
    (hsel : selCase i cases H = some c) (hmono : ∀ sid, H sid = true → H' sid = true)
    (hframe : ∀ sid, H' sid = true → H sid = true ∨ sid ∈ c.dataSids) : selCase i cases H' = some c := by
  have hcm := selCase_mem hsel
  unfold selCase at hsel ⊢
  cases hf : cases.find? (fun c => c.dataSids.any H) with
  | some c0 =>
    rw [hf] at hsel
    injection hsel with hsel
    subst hsel
    have hcH : c0.dataSids.any H = true := @List.find?_some _ (fun c => c.dataSids.any H) c0 cases hf
    obtain ⟨_, as, bs, hdec, has⟩ := List.find?_eq_some_iff_append.1 hf
    have : cases.find? (fun c => c.dataSids.any H') = some c0 := by
      apply List.find?_eq_some_iff_append.2
      refine ⟨?_, as, bs, hdec, ?_⟩
      · obtain ⟨sid, hs, hH⟩ := List.any_eq_true.1 hcH
        exact List.any_eq_true.2 ⟨sid, hs, hmono sid hH⟩
      · intro a ha
        have haH : a.dataSids.any H = false := by simpa using has a ha
        cases hany : a.dataSids.any H' with
        | false => rfl
        | true =>
          exfalso
          obtain ⟨sid, hs, hH'⟩ := List.any_eq_true.1 hany
          rcases hframe sid hH' with h | h
          · have : a.dataSids.any H = true := List.any_eq_true.2 ⟨sid, hs, h⟩
            rw [haH] at this; cases this
          · have hacm : a ∈ cases := by rw [hdec]; exact List.mem_append_left _ ha
            have := case_unique hnd hacm hcm hs h
            subst this
            rw [haH] at hcH; cases hcH
    rw [this]
  | none =>
    rw [hf] at hsel
    simp only [] at hsel
    cases hf' : cases.find? (fun c => c.dataSids.any H') with
    | none => simp only []; exact hsel
    | some c' =>
      simp only []
      have hc'm : c' ∈ cases := List.mem_of_find?_eq_some hf'
      have hc'H : c'.dataSids.any H' = true := @List.find?_some _ (fun c => c.dataSids.any H') c' cases hf'
      obtain ⟨sid, hs, hH'⟩ := List.any_eq_true.1 hc'H
      rcases hframe sid hH' with h | h
      · exact absurd (List.any_eq_true.2 ⟨sid, hs, h⟩) (List.find?_eq_none.1 hf c' hc'm)
      · rw [case_unique hnd hc'm hcm hs h]

/-! ## after `lyd_new_implicit` nothing is left to create -/

/-- what a pass of `lyd_new_implicit` does to the set of instantiated schema nodes: it grows, by data sids of the pass only -/
def ImplPost (ds : List Nat) (sibs r : List DNode) : Prop :=
  (∀ sid, hasInst sibs sid = true → hasInst r sid = true) ∧ (∀ sid, hasInst r sid = true → hasInst sibs sid = true ∨ sid ∈ ds)

theorem ImplPost.refl (ds : List Nat) (sibs : List DNode) : ImplPost ds sibs sibs := ⟨fun _ h => h, fun _ h => Or.inl h⟩

theorem ImplPost.mono {ds ds' : List Nat} {sibs r : List DNode} (h : ImplPost ds sibs r) (hs : ∀ x ∈ ds, x ∈ ds') : ImplPost ds' sibs r :=
  ⟨h.1, fun sid hr => (h.2 sid hr).imp id (hs sid)⟩

theorem ImplPost.trans {ds : List Nat} {a b c : List DNode} (h1 : ImplPost ds a b) (h2 : ImplPost ds b c) : ImplPost ds a c :=
  ⟨fun sid h => h2.1 sid (h1.1 sid h), fun sid h => by
    rcases h2.2 sid h with h | h
    · exact h1.2 sid h
    · exact Or.inr h⟩

theorem choice_cases_kind {i : SNode} {ks : List STree} {s : Nat} (hk : kindsOk (.mk s i ks) = true) (hkind : i.kind = .choice) :
    ∀ c ∈ ks, c.info.kind = .case := by
  rw [kindsOk_mk] at hk
  simp only [Bool.and_eq_true] at hk
  have := hk.1
  simp only [hkind, bne_self_eq_false, Bool.false_or] at this
  intro c hc
  have := List.all_eq_true.1 this c hc
  simpa using this

mutual
theorem impl_done_T (X : SchemaX) (o : VOpts) (cx : Cx) (hq : X.q.implicitInnerCase = false) : ∀ (t : STree), kindsOk t = true →
    ∀ (sibs : List DNode),
    (t.dataSids.Nodup → ImplPost t.dataSids sibs (implChoice X o cx t sibs).1 ∧
      doneChoice o (hasInst (implChoice X o cx t sibs).1) t = true) ∧
    ((dataSidsL t.kids).Nodup → ImplPost (dataSidsL t.kids) sibs (implCase X o cx t sibs).1 ∧
      doneCase o (hasInst (implCase X o cx t sibs).1) t = true)
  | .mk s i ks, hk, sibs => by
    have hk' := hk
    rw [kindsOk_mk] at hk'
    simp only [Bool.and_eq_true] at hk'
    have ihL := impl_done_L X o cx hq ks hk'.2
    constructor
    · intro hnd
      rw [implChoice_sel X o cx hq]
      split
      · rename_i hc
        refine ⟨ImplPost.refl _ _, ?_⟩
        rw [doneChoice_sel, if_pos hc]
      · rename_i hc
        have hkind := choice_kind_of_not_skip hc
        rw [dataSids_choice hkind] at hnd ⊢
        cases hsel : selCase i ks (hasInst sibs) with
        | none =>
          refine ⟨ImplPost.refl _ _, ?_⟩
          rw [doneChoice_sel, if_neg hc, hsel]
        | some c =>
          have hcm := selCase_mem hsel
          have hck := choice_cases_kind hk hkind c hcm
          have hcd := dataSids_case hck
          have hndc : (dataSidsL c.kids).Nodup := by rw [← hcd]; exact nodup_of_mem_cases hnd hcm
          obtain ⟨hpost, hdone⟩ := (ihL sibs).2 c hcm sibs hndc
          simp only []
          refine ⟨hpost.mono (fun x hx => dataSids_sub_L hcm x (by rw [hcd]; exact hx)), ?_⟩
          rw [doneChoice_sel, if_neg hc]
          rw [selCase_stable i ks (hasInst sibs) _ c hnd hsel hpost.1 (fun sid h => by rw [hcd]; exact hpost.2 sid h)]
          exact hdone
    · intro hnd
      simp only [STree.kids] at hnd ⊢
      obtain ⟨hpost, hdone⟩ := (ihL sibs).1 hnd
      rw [implCase]
      generalize implChoices X o cx ks sibs = r1 at hpost hdone
      dsimp only
      have hH := implNodes_hasInst X.base o cx ks r1.1
      have hd := implNodes_done X.base o cx ks r1.1
      generalize implNodes X.base o cx ks r1.1 = r2 at hH hd
      have hpost2 : ImplPost (dataSidsL ks) r1.1 r2.1 := by
        constructor
        · intro sid h; rw [hH, h]; rfl
        · intro sid h
          rw [hH, Bool.or_eq_true] at h
          rcases h with h | h
          · exact Or.inl h
          · obtain ⟨k, hk1, hk2⟩ := List.any_eq_true.1 h
            simp only [Bool.and_eq_true, beq_iff_eq] at hk2
            rw [← hk2.2]
            exact Or.inr (wants_sid_mem hk1 hk2.1)
      refine ⟨hpost.trans hpost2, ?_⟩
      rw [doneCase]
      simp only [Bool.and_eq_true]
      refine ⟨?_, hd⟩
      rw [doneChoices_all] at hdone ⊢
      intro k hkm
      by_cases hkc : k.info.kind = .choice
      · rw [← (done_congr_T o (hasInst r1.1) (hasInst r2.1) k (kindsOkL_mem hk'.2 hkm)).1 ?_]
        · exact hdone k hkm
        · intro sid hsid
          rw [hH]
          have : (ks.any fun k' => wantsImplicit o k' && k'.sid == sid) = false := by
            rw [List.any_eq_false]
            intro k' hk'm hw
            simp only [Bool.and_eq_true, beq_iff_eq] at hw
            have hs' : sid ∈ k'.dataSids := by
              rw [dataSids_data (wants_kind hw.1).1 (wants_kind hw.1).2, hw.2]; exact List.mem_singleton.2 rfl
            have := case_unique hnd hkm hk'm hsid hs'
            subst this
            exact (wants_kind hw.1).1 hkc
          rw [this, Bool.or_false]
      · exact doneChoice_nonchoice o _ hkc
theorem impl_done_L (X : SchemaX) (o : VOpts) (cx : Cx) (hq : X.q.implicitInnerCase = false) : ∀ (ks : List STree), kindsOkL ks = true →
    ∀ (sibs : List DNode),
    ((dataSidsL ks).Nodup → ImplPost (dataSidsL ks) sibs (implChoices X o cx ks sibs).1 ∧
      doneChoices o (hasInst (implChoices X o cx ks sibs).1) ks = true) ∧
    (∀ c ∈ ks, ∀ (sibs : List DNode), (dataSidsL c.kids).Nodup → ImplPost (dataSidsL c.kids) sibs (implCase X o cx c sibs).1 ∧
      doneCase o (hasInst (implCase X o cx c sibs).1) c = true)
  | [], _, sibs => by
    constructor
    · intro _
      rw [implChoices]
      exact ⟨ImplPost.refl _ _, by rw [doneChoices]⟩
    · intro c hc; cases hc
  | k :: rest, hk, sibs => by
    have hk' := hk
    rw [kindsOkL_cons] at hk'
    simp only [Bool.and_eq_true] at hk'
    have ihT := impl_done_T X o cx hq k hk'.1
    have ihL := impl_done_L X o cx hq rest hk'.2
    constructor
    · intro hnd
      rw [dataSidsL_cons] at hnd ⊢
      obtain ⟨hnd1, hnd2, hdis⟩ := List.nodup_append.1 hnd
      obtain ⟨hp1, hd1⟩ := (ihT sibs).1 hnd1
      rw [implChoices]
      generalize implChoice X o cx k sibs = r1 at hp1 hd1
      dsimp only
      obtain ⟨hp2, hd2⟩ := (ihL r1.1).1 hnd2
      generalize implChoices X o cx rest r1.1 = r2 at hp2 hd2
      refine ⟨(hp1.mono (fun x hx => List.mem_append_left _ hx)).trans (hp2.mono (fun x hx => List.mem_append_right _ hx)), ?_⟩
      rw [doneChoices]
      simp only [Bool.and_eq_true]
      refine ⟨?_, hd2⟩
      rw [← (done_congr_T o (hasInst r1.1) (hasInst r2.1) k hk'.1).1 ?_]
      · exact hd1
      · intro sid hsid
        rw [Bool.eq_iff_iff]
        constructor
        · exact hp2.1 sid
        · intro h
          rcases hp2.2 sid h with h | h
          · exact h
          · exact absurd rfl (hdis sid hsid sid h)
    · intro c hc
      cases hc with
      | head => exact fun sibs => (ihT sibs).2
      | tail _ hc => exact (ihL sibs).2 c hc
end

/-- **`lyd_new_implicit` leaves a level on which it has nothing more to do** (repaired variant; the data sids of the level are
all different) -/
theorem implL_doneX (X : SchemaX) (o : VOpts) (cx : Cx) (hq : X.q.implicitInnerCase = false) (ks : List STree) (hk : kindsOkL ks = true)
    (hnd : (dataSidsL ks).Nodup) (sibs : List DNode) : implDoneX o ks (implL X o cx ks sibs).1 = true := by
  have h := (impl_done_T X o cx hq (.mk 0 { depth := 0, kind := .case, name := "" } ks) (by rw [kindsOk_mk]; simp [hk]) sibs).2 hnd
  rw [implCase, doneCase] at h
  exact h.2

end LyModel.Valid
