import LyModel.Valid.Basic
/-!
# `lyd_validate_new` (validation.c): case conflicts, auto-deletion, duplicate instances

`validateNew` is one call of `lyd_validate_new(first, sparent, …)` on one sibling list:
`choiceR` (= `lyd_validate_choice_r` with `lyd_validate_cases`) first, then the loop over the new and default nodes
(`lyd_validate_autodel_leaflist_dflt`, `lyd_validate_autodel_cont_leaf_dflt`, `lyd_validate_duplicates`,
`lyd_validate_autodel_case_dflt`).
Core Lean only.
-/
namespace LyModel.Valid
open LyModel LyModel.Tree

/-! ## events of a deletion -/

/-- metadata `lyd_val_diff_add` computes for a user-ordered node from the instance in front of it: key predicate / value of the
preceding instance, or the position.  `sibs` is the sibling list at that moment, `idx` the place of `n` in it. -/
def userordAnchor (S : Schema) (sibs : List DNode) (idx : Nat) (n : DNode) : Option (String × Bytes) :=
  if !S.isUserOrd n.sid then none
  else
    let before := sibs.take idx
    if S.isDupInst n.sid then
      let pos := posOf before n.sid
      some ("position", if pos > 1 then bs (toString (pos - 1)) else [])
    else
      let prev := match before.getLast? with
        | some p => if p.sid == n.sid then some p else none
        | none => none
      if S.isKind n.sid .list then
        some ("key", match prev with
          | some p => (keysOf S p.kids).flatMap fun k => [91] ++ bs (S.name k.sid) ++ [61] ++ quoted k.val ++ [93]
          | none => [])
      else some ("value", match prev with | some p => p.val | none => [])

/-- the anchor of a delete: none in the defective variant (F178) -/
def delAnchor (X : SchemaX) (sibs : List DNode) (idx : Nat) (n : DNode) : Option (String × Bytes) :=
  if X.q.valDiffNoDeleteAnchor then none else userordAnchor X.base sibs idx n

/-- `lyd_validate_autodel_node_del(…, np_cont_diff, …)` for the node `n` whose preceding siblings are `before`: a non-presence
container is recorded through its children (all still linked) unless `np_cont_diff` -/
def delEvents (X : SchemaX) (cx : Cx) (npContDiff : Bool) (before : List DNode) (n : DNode) : List Ev :=
  let S := X.base
  if !npContDiff && isNpContD S n then
    n.kids.zipIdx.map fun (k, i) => { op := .delete, anc := cx.anc ++ [shallow S n], node := k, anchor := delAnchor X n.kids i k }
  else [{ op := .delete, anc := cx.anc, node := n, anchor := delAnchor X (before ++ [n]) before.length n }]

/-- delete every sibling satisfying `victim`, one after the other in sibling order (each deletion sees the earlier ones gone):
the remaining siblings and the events -/
def delSeq (X : SchemaX) (cx : Cx) (npContDiff : Bool) (victim : DNode → Bool) : (kept rest : List DNode) → List DNode × List Ev
  | kept, [] => (kept, [])
  | kept, n :: ns =>
    if victim n then
      let r := delSeq X cx npContDiff victim kept ns
      (r.1, delEvents X cx npContDiff kept n ++ r.2)
    else delSeq X cx npContDiff victim (kept ++ [n]) ns

/-! ## `lyd_validate_cases` -/

/-- 0: no data of the case, 1: only old data, 2: some new data (`found` in `lyd_validate_cases`) -/
def caseFound (sibs : List DNode) (cs : STree) : Nat :=
  let insts := sibs.filter (inSids cs.dataSids)
  if insts.any (·.flags.new) then 2 else if insts.isEmpty then 0 else 1

/-- the scan over the cases: `none` = `LY_VCODE_DUPCASE` (two old or two new cases), else (old case, new case) -/
def scanCases (sibs : List DNode) : List STree → (old new : Option STree) → Option (Option STree × Option STree)
  | [], old, new => some (old, new)
  | cs :: rest, old, new =>
    match caseFound sibs cs with
    | 1 => if old.isSome then none else scanCases sibs rest (some cs) new
    | 2 => if new.isSome then none else scanCases sibs rest old (some cs)
    | _ => scanCases sibs rest old new

/-- `lyd_validate_cases(first, mod, choic, diff)` -/
def casesStep (X : SchemaX) (cx : Cx) (choice : STree) (sibs : List DNode) : List DNode × Out :=
  match scanCases sibs choice.kids none none with
  | none => (sibs, Out.err .dupCase (schemaLoc X.base choice.sid))
  | some (some old, some _) =>
    -- auto-delete the old case: every data instance of it (each recorded as a deletion of the node itself)
    let r := delSeq X cx true (inSids old.dataSids) [] sibs
    (r.1, Out.ofEvs (r.2.map fun e => { e with src := .cases }))
  | some _ => (sibs, {})

/-! ### the repaired `lyd_validate_cases` (fixes/F321.diff): only nodes without the default flag make a case exist -/

/-- the siblings without the default flag -/
def explSibs (sibs : List DNode) : List DNode := sibs.filter fun n => !n.flags.dflt

/-- delete the nodes of every case but the existing one, case by case in schema order (each case: its nodes in sibling order).  The
existing case is the one case whose `found` value on the explicit siblings `E` is `kf` (2: the new case, 1: the old case when there
is no new one) — `scase == new_case` of the C -/
def delCases (X : SchemaX) (cx : Cx) (E : List DNode) (kf : Nat) : List STree → List DNode → List DNode × List Ev
  | [], sibs => (sibs, [])
  | c :: rest, sibs =>
    if caseFound E c == kf then delCases X cx E kf rest sibs
    else
      let r := delSeq X cx true (inSids c.dataSids) [] sibs
      let r2 := delCases X cx E kf rest r.1
      (r2.1, r.2 ++ r2.2)

/-- `lyd_validate_cases(first, mod, choic, diff)`, repaired: the scan looks at the explicit siblings; when a case exists, every node
of every other case goes (the old case, default nodes, client-given empty non-presence containers) -/
def casesStepFix (X : SchemaX) (cx : Cx) (choice : STree) (sibs : List DNode) : List DNode × Out :=
  match scanCases (explSibs sibs) choice.kids none none with
  | none => (sibs, Out.err .dupCase (schemaLoc X.base choice.sid))
  | some (none, none) => (sibs, {})
  | some (_, new) =>
    let r := delCases X cx (explSibs sibs) (if new.isSome then 2 else 1) choice.kids sibs
    (r.1, Out.ofEvs (r.2.map fun e => { e with src := .cases }))

/-- the variant of the source tree at hand (`Quirks.casesCountDefault`, F321) -/
def casesStepQ (X : SchemaX) (cx : Cx) (choice : STree) (sibs : List DNode) : List DNode × Out :=
  if X.q.casesCountDefault then casesStep X cx choice sibs else casesStepFix X cx choice sibs

/-! ## `lyd_validate_choice_r` -/
mutual
/-- one schema child of the level: only a choice does something -/
def choiceRNode (X : SchemaX) (cx : Cx) : STree → List DNode → List DNode × Out
  | .mk s i ks, sibs =>
    if i.kind == .choice then
      if sibs.isEmpty then (sibs, {}) else
      let r1 := casesStepQ X cx (.mk s i ks) sibs
      let r2 := choiceRCases X cx ks r1.1
      (r2.1, r1.2 ++ r2.2)
    else (sibs, {})
/-- the choices directly inside the cases of a choice (`lyd_val_getnext_get(choice)` flattens the cases) -/
def choiceRCases (X : SchemaX) (cx : Cx) : List STree → List DNode → List DNode × Out
  | [], sibs => (sibs, {})
  | c :: rest, sibs =>
    let r1 := choiceRCase X cx c sibs
    let r2 := choiceRCases X cx rest r1.1
    (r2.1, r1.2 ++ r2.2)
def choiceRCase (X : SchemaX) (cx : Cx) : STree → List DNode → List DNode × Out
  | .mk _ _ ks, sibs => choiceRL X cx ks sibs
def choiceRL (X : SchemaX) (cx : Cx) : List STree → List DNode → List DNode × Out
  | [], sibs => (sibs, {})
  | k :: ks, sibs =>
    let r1 := choiceRNode X cx k sibs
    let r2 := choiceRL X cx ks r1.1
    (r2.1, r1.2 ++ r2.2)
end

/-! ## the node loop -/

/-- `lyd_val_has_default` -/
def hasDefault (S : Schema) (sid : Nat) : Bool :=
  match S.get? sid with
  | some n => ((n.kind == .leaf || n.kind == .leaflist) && !n.dflts.isEmpty) || (n.kind == .container && !n.presence)
  | none => false

/-- another instance "the same" as `node` for `lyd_validate_duplicates`: same schema node for a leaf / container,
`lyd_compare_single(…, 0)` for list (keys) and leaf-list (value) instances -/
def dupOf (S : Schema) (node x : DNode) : Bool :=
  x.sid == node.sid &&
  (match S.kind? node.sid with
   | some .list => keyVals S x == keyVals S node
   | some .leaflist => x.val == node.val
   | _ => true)

/-- `lyd_validate_duplicates`, linear branch (no `children_ht`): `others` = all siblings except `node` itself -/
def dupScan (S : Schema) (others : List DNode) (node : DNode) : Bool :=
  !S.isDupInst node.sid && others.any (dupOf S node)

/-- the first element satisfying `p` has another one behind it -/
def firstHasNext {α : Type} (p : α → Bool) (l : List α) : Bool :=
  match l.dropWhile (fun x => !p x) with
  | _ :: later => later.any p
  | [] => false

/-- `lyd_validate_duplicates`, hash branch (`node->parent->children_ht`, parents with at least `LYD_HT_MIN_ITEMS` children):
`chain` = the records of the collision chain of `node->hash` in table order (`node` itself is one of them).
`lyht_find_next_with_collision_cb` first looks for the FIRST record the callback `lyd_val_dup_val_equal` calls the same instance
(it ignores pointer identity, so this may be `node` or an earlier twin), then for one more behind it. -/
def dupHash (S : Schema) (chain : List DNode) (node : DNode) : Bool :=
  !S.isDupInst node.sid && firstHasNext (dupOf S node) chain

/-- the direct schema parent when it is a case, with its choice -/
def caseOf (X : SchemaX) (sid : Nat) : Option (STree × STree) :=
  match sparent X.base sid with
  | none => none
  | some c =>
    if X.base.isKind c .case then
      match X.node? c, (sparent X.base c).bind X.node? with
      | some cs, some ch => some (cs, ch)
      | _, _ => none
    else none

/-- the cases around a node, innermost first, each with its choice (through nested choices) -/
def caseChain (X : SchemaX) (sid : Nat) : List (STree × STree) :=
  let rec go (fuel : Nat) (sid : Nat) : List (STree × STree) :=
    match fuel with
    | 0 => []
    | fuel + 1 =>
      match caseOf X sid with
      | some (cs, ch) => (cs, ch) :: go fuel ch.sid
      | none => []
  go (X.base.nodes.length + 1) sid

/-- `lyd_validate_autodel_case_dflt`: a default node of a non-default case none of whose data is explicit.  The repaired code
(F188) asks this of every case around the node, the defective one of the innermost case only. -/
def caseDfltVictim (X : SchemaX) (all : List DNode) (node : DNode) : Bool :=
  let gone := fun (p : STree × STree) =>
    p.2.info.dfltCase != some p.1.info.name && !(all.any fun x => inSids p.1.dataSids x && !x.flags.dflt)
  let chain := caseChain X node.sid
  if X.q.autodelDirectCase then (chain.take 1).any gone else chain.any gone

/-- first element satisfying `p` removed: (list without it, the element) -/
def removeFirst (p : DNode → Bool) : List DNode → List DNode × Option DNode
  | [] => ([], none)
  | x :: xs => if p x then (xs, some x) else let r := removeFirst p xs; (x :: r.1, r.2)

/-- "remove old default(s) of the new node if an explicit instance exists": `lyd_validate_autodel_leaflist_dflt` /
`lyd_validate_autodel_cont_leaf_dflt` for the new node `node` between `done` and `tl`.
Result: (done', was the node itself deleted, tl', the change events) -/
def autodelStep (X : SchemaX) (cx : Cx) (done : List DNode) (node : DNode) (tl : List DNode) :
    List DNode × Bool × List DNode × List Ev :=
  let sid := node.sid
  let found := (done ++ node :: tl).any fun x => x.sid == sid && !x.flags.dflt
  let victimAll := fun (x : DNode) => x.sid == sid && x.flags.dflt
  let victimOld := fun (x : DNode) => x.sid == sid && x.flags.dflt && !x.flags.new
  if found then
    -- every default instance goes, one after the other in sibling order
    let r1 := delSeq X cx false victimAll [] done
    let r2 := delSeq X cx false victimAll r1.1 [node]
    let r3 := delSeq X cx false victimAll r2.1 tl
    (r1.1, victimAll node, r3.1.drop r2.1.length, r1.2 ++ r2.2 ++ r3.2)
  else if X.base.isKind sid .leaflist then (done, false, tl, [])
  else
    -- a single old default instance (the node itself is new)
    match removeFirst victimOld done with
    | (d', some v) => (d', false, tl, delEvents X cx false (done.takeWhile (fun x => !victimOld x)) v)
    | (_, none) =>
      match removeFirst victimOld tl with
      | (t', some v) => (done, false, t', delEvents X cx false (done ++ node :: tl.takeWhile (fun x => !victimOld x)) v)
      | (_, none) => (done, false, tl, [])

/-- `lyd_validate_duplicates(first, node, val_opts)` for a new node: the error it logs, if any -/
def dupErr (X : SchemaX) (o : VOpts) (cx : Cx) (done tl : List DNode) (node : DNode) : Out :=
  let S := X.base
  let isLst := S.isKind node.sid .list || S.isKind node.sid .leaflist
  if node.flags.new && dupScan S (done ++ tl) node && !(isLst && o.operational) then Out.err .dup (cx.pathOf S done node)
  else {}

/-- the loop of `lyd_validate_new` over the siblings; `done` = already passed, `node :: tl` = from the cursor on,
`last` = `last_dflt_schema` -/
def newLoop (X : SchemaX) (o : VOpts) (cx : Cx) : (fuel : Nat) → (done rest : List DNode) → (last : Option Nat) →
    List DNode × Out
  | 0, done, rest, _ => (done ++ rest, {})
  | _ + 1, done, [], _ => (done, {})
  | fuel + 1, done, node :: tl, last =>
    if !(node.flags.new || node.flags.dflt) then newLoop X o cx fuel (done ++ [node]) tl last
    else
      let doAuto := hasDefault X.base node.sid && last != some node.sid && node.flags.new
      let last' := if doAuto then some node.sid else last
      let r := if doAuto then autodelStep X cx done node tl else (done, false, tl, [])
      let o1 := Out.ofEvs r.2.2.2
      if r.2.1 then
        -- the node itself was auto-deleted: `continue`
        let rr := newLoop X o cx fuel r.1 r.2.2.1 last'
        (rr.1, o1 ++ rr.2)
      else
        -- duplicate instances of a new node; the node is valid then
        let o2 := dupErr X o cx r.1 r.2.2.1 node
        let node1 := if node.flags.new then clearNew node else node
        -- leftover default nodes of a case that no longer exists
        if node1.flags.dflt && caseDfltVictim X (r.1 ++ node1 :: r.2.2.1) node1 then
          let rr := newLoop X o cx fuel r.1 r.2.2.1 last'
          -- `np_cont_diff`: 0 in the defective code (F179 b), 1 in the repaired one
          (rr.1, o1 ++ o2 ++ Out.ofEvs (delEvents X cx (!X.q.caseDfltNpViaKids) r.1 node1) ++ rr.2)
        else
          let rr := newLoop X o cx fuel (r.1 ++ [node1]) r.2.2.1 last'
          (rr.1, o1 ++ o2 ++ rr.2)

/-- `lyd_validate_new(first, sparent, mod, …)` for the children `sibs` of `cx.parent` -/
def validateNew (X : SchemaX) (o : VOpts) (cx : Cx) (sibs : List DNode) : List DNode × Out :=
  let r1 := choiceRL X cx (X.kidsOf cx.parent) sibs
  let r2 := newLoop X o cx.keysOld (r1.1.length + 1) [] r1.1 none
  (r2.1, r1.2 ++ r2.2)

end LyModel.Valid
