import LyModel.Valid.Basic
/-!
# `lyd_validate_new` (validation.c): case conflicts, auto-deletion, duplicate instances

`validateNew` is one call of `lyd_validate_new(first, sparent, …)` on one sibling list:
`choiceR` (= `lyd_validate_choice_r` with `lyd_validate_cases`) first, then the loop over the new and default nodes
(`lyd_validate_autodel_leaflist_dflt`, `lyd_validate_autodel_cont_leaf_dflt`, `lyd_validate_duplicates`,
`lyd_validate_autodel_case_dflt`).
Core Lean only.
-/
namespace LyModel.Valid
open LyModel LyModel.Tree

/-! ## events of a deletion -/

/-- `lyd_validate_autodel_node_del(…, np_cont_diff, …)`: a non-presence container is recorded through its children unless
`np_cont_diff` -/
def delEvents (S : Schema) (cx : Cx) (npContDiff : Bool) (n : DNode) : List Ev :=
  if !npContDiff && isNpContD S n then
    n.kids.map fun k => { op := .delete, anc := cx.anc ++ [shallow S n], node := k }
  else [{ op := .delete, anc := cx.anc, node := n }]

/-! ## `lyd_validate_cases` -/

/-- 0: no data of the case, 1: only old data, 2: some new data (`found` in `lyd_validate_cases`) -/
def caseFound (sibs : List DNode) (cs : STree) : Nat :=
  let insts := sibs.filter (inSids cs.dataSids)
  if insts.any (·.flags.new) then 2 else if insts.isEmpty then 0 else 1

/-- the scan over the cases: `none` = `LY_VCODE_DUPCASE` (two old or two new cases), else (old case, new case) -/
def scanCases (sibs : List DNode) : List STree → (old new : Option STree) → Option (Option STree × Option STree)
  | [], old, new => some (old, new)
  | cs :: rest, old, new =>
    match caseFound sibs cs with
    | 1 => if old.isSome then none else scanCases sibs rest (some cs) new
    | 2 => if new.isSome then none else scanCases sibs rest old (some cs)
    | _ => scanCases sibs rest old new

/-- `lyd_validate_cases(first, mod, choic, diff)` -/
def casesStep (S : Schema) (cx : Cx) (choice : STree) (sibs : List DNode) : List DNode × Out :=
  match scanCases sibs choice.kids none none with
  | none => (sibs, Out.err .dupCase (schemaLoc S choice.sid))
  | some (some old, some _) =>
    -- auto-delete the old case: every data instance of it, in `lys_getnext_data` order
    let ds := old.dataSids
    let gone := ds.flatMap (instsOf sibs)
    (sibs.filter (fun x => !inSids ds x), Out.ofEvs (gone.map fun n => { op := .delete, anc := cx.anc, node := n }))
  | some _ => (sibs, {})

/-! ## `lyd_validate_choice_r` -/
mutual
/-- one schema child of the level: only a choice does something -/
def choiceRNode (S : Schema) (cx : Cx) : STree → List DNode → List DNode × Out
  | .mk s i ks, sibs =>
    if i.kind == .choice then
      if sibs.isEmpty then (sibs, {}) else
      let r1 := casesStep S cx (.mk s i ks) sibs
      let r2 := choiceRCases S cx ks r1.1
      (r2.1, r1.2 ++ r2.2)
    else (sibs, {})
/-- the choices directly inside the cases of a choice (`lyd_val_getnext_get(choice)` flattens the cases) -/
def choiceRCases (S : Schema) (cx : Cx) : List STree → List DNode → List DNode × Out
  | [], sibs => (sibs, {})
  | .mk _ _ ks :: rest, sibs =>
    let r1 := choiceRL S cx ks sibs
    let r2 := choiceRCases S cx rest r1.1
    (r2.1, r1.2 ++ r2.2)
def choiceRL (S : Schema) (cx : Cx) : List STree → List DNode → List DNode × Out
  | [], sibs => (sibs, {})
  | k :: ks, sibs =>
    let r1 := choiceRNode S cx k sibs
    let r2 := choiceRL S cx ks r1.1
    (r2.1, r1.2 ++ r2.2)
end

/-! ## the node loop -/

/-- `lyd_val_has_default` -/
def hasDefault (S : Schema) (sid : Nat) : Bool :=
  match S.get? sid with
  | some n => ((n.kind == .leaf || n.kind == .leaflist) && !n.dflts.isEmpty) || (n.kind == .container && !n.presence)
  | none => false

/-- another instance "the same" as `node` for `lyd_validate_duplicates`: same schema node for a leaf / container,
`lyd_compare_single(…, 0)` for list (keys) and leaf-list (value) instances -/
def dupOf (S : Schema) (node x : DNode) : Bool :=
  x.sid == node.sid &&
  (match S.kind? node.sid with
   | some .list => keyVals S x == keyVals S node
   | some .leaflist => x.val == node.val
   | _ => true)

/-- `lyd_validate_duplicates`, linear branch (no `children_ht`): `others` = all siblings except `node` itself -/
def dupScan (S : Schema) (others : List DNode) (node : DNode) : Bool :=
  !S.isDupInst node.sid && others.any (dupOf S node)

/-- the direct schema parent when it is a case, with its choice -/
def caseOf (X : SchemaX) (sid : Nat) : Option (STree × STree) :=
  match sparent X.base sid with
  | none => none
  | some c =>
    if X.base.isKind c .case then
      match X.node? c, (sparent X.base c).bind X.node? with
      | some cs, some ch => some (cs, ch)
      | _, _ => none
    else none

/-- `lyd_validate_autodel_case_dflt`: a default node of a non-default case none of whose data is explicit -/
def caseDfltVictim (X : SchemaX) (all : List DNode) (node : DNode) : Bool :=
  match caseOf X node.sid with
  | none => false
  | some (cs, ch) =>
    if ch.info.dfltCase == some cs.info.name then false
    else !(all.any fun x => inSids cs.dataSids x && !x.flags.dflt)

/-- first element satisfying `p` removed: (list without it, the element) -/
def removeFirst (p : DNode → Bool) : List DNode → List DNode × Option DNode
  | [] => ([], none)
  | x :: xs => if p x then (xs, some x) else let r := removeFirst p xs; (x :: r.1, r.2)

/-- the loop of `lyd_validate_new` over the siblings; `done` = already passed, `node :: tl` = from the cursor on,
`last` = `last_dflt_schema` -/
def newLoop (X : SchemaX) (o : VOpts) (cx : Cx) : (fuel : Nat) → (done rest : List DNode) → (last : Option Nat) →
    List DNode × Out
  | 0, done, rest, _ => (done ++ rest, {})
  | _ + 1, done, [], _ => (done, {})
  | fuel + 1, done, node :: tl, last =>
    let S := X.base
    if !(node.flags.new || node.flags.dflt) then newLoop X o cx fuel (done ++ [node]) tl last
    else
      let sid := node.sid
      let doAuto := hasDefault S sid && last != some sid && node.flags.new
      let last' := if doAuto then some sid else last
      -- remove old default(s) of the new node if an explicit instance exists
      let found := (done ++ node :: tl).any fun x => x.sid == sid && !x.flags.dflt
      let isLL := S.isKind sid .leaflist
      let victimAll := fun (x : DNode) => x.sid == sid && x.flags.dflt
      let victimOld := fun (x : DNode) => x.sid == sid && x.flags.dflt && !x.flags.new
      -- (done', node deleted?, tl', deleted nodes in sibling order)
      let r : List DNode × Bool × List DNode × List DNode :=
        if !doAuto then (done, false, tl, [])
        else if found then
          (done.filter (fun x => !victimAll x), victimAll node, tl.filter (fun x => !victimAll x),
            done.filter victimAll ++ (if victimAll node then [node] else []) ++ tl.filter victimAll)
        else if isLL then (done, false, tl, [])
        else
          -- a single old default instance (the node itself is new)
          match removeFirst victimOld done with
          | (d', some v) => (d', false, tl, [v])
          | (_, none) =>
            match removeFirst victimOld tl with
            | (t', some v) => (done, false, t', [v])
            | (_, none) => (done, false, tl, [])
      let done' := r.1
      let nodeGone := r.2.1
      let tl' := r.2.2.1
      let o1 := Out.ofEvs (r.2.2.2.flatMap (delEvents S cx false))
      if nodeGone then
        let rr := newLoop X o cx fuel done' tl' last'
        (rr.1, o1 ++ rr.2)
      else
        -- duplicate instances of a new node; the node is valid then
        let isLst := S.isKind sid .list || S.isKind sid .leaflist
        let o2 : Out :=
          if node.flags.new && dupScan S (done' ++ tl') node && !(isLst && o.operational) then
            Out.err .dup (cx.pathOf S done' node)
          else {}
        let node1 := if node.flags.new then clearNew node else node
        -- leftover default nodes of a case that no longer exists
        if node1.flags.dflt && caseDfltVictim X (done' ++ node1 :: tl') node1 then
          let rr := newLoop X o cx fuel done' tl' last'
          (rr.1, o1 ++ o2 ++ Out.ofEvs (delEvents S cx false node1) ++ rr.2)
        else
          let rr := newLoop X o cx fuel (done' ++ [node1]) tl' last'
          (rr.1, o1 ++ o2 ++ rr.2)

/-- `lyd_validate_new(first, sparent, mod, …)` for the children `sibs` of `cx.parent` -/
def validateNew (X : SchemaX) (o : VOpts) (cx : Cx) (sibs : List DNode) : List DNode × Out :=
  let r1 := choiceRL X.base cx (levelChoices (X.kidsOf cx.parent)) sibs
  let r2 := newLoop X o cx.keysOld (r1.1.length + 1) [] r1.1 none
  (r2.1, r1.2 ++ r2.2)

end LyModel.Valid
