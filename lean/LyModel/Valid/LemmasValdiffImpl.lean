import LyModel.Valid.LemmasValdiffObs
import LyModel.Valid.LemmasImplicit
/-!
# Lemmas for C07 `valdiff_exact`, part 3: the change log of `lyd_new_implicit` is exact

`Tr`: the siblings `lyd_new_implicit` hands back are the input siblings with the recorded nodes linked one by one, in the order
of the events (`lyd_insert_node`); every event is recorded at the level itself; and no created node is what `lyd_diff_find_match`
would take for an earlier one (`Fresh`) — for all variants of the code and every nesting of choices and cases.
-/
namespace LyModel.Valid
open LyModel LyModel.Tree

/-- `x` is not what `lyd_diff_find_match` returns for the created node `n`: another schema node, or another value of a leaf-list -/
def NoMatch (S : Schema) (n x : DNode) : Prop :=
  x.sid ≠ n.sid ∨ (S.kind? n.sid = some .leaflist ∧ n.isTerm = true ∧ x.val ≠ n.val)

def replay (S : Schema) (sibs : List DNode) (es : List Ev) : List DNode := es.foldl (fun acc e => insertNode S acc e.node) sibs

def Fresh (S : Schema) : List DNode → List Ev → Prop
  | _, [] => True
  | sibs, e :: es => (∀ x ∈ sibs, NoMatch S e.node x) ∧ Fresh S (insertNode S sibs e.node) es

theorem replay_append (S : Schema) (sibs : List DNode) (a b : List Ev) : replay S sibs (a ++ b) = replay S (replay S sibs a) b := by
  simp [replay, List.foldl_append]

theorem fresh_append (S : Schema) : ∀ (a b : List Ev) (sibs : List DNode),
    Fresh S sibs a → Fresh S (replay S sibs a) b → Fresh S sibs (a ++ b)
  | [], _, _, _, hb => hb
  | e :: es, b, sibs, ha, hb => by
    simp only [List.cons_append, Fresh]
    exact ⟨ha.1, fresh_append S es b _ ha.2 hb⟩

/-- what one event of `lyd_new_implicit` at the level `cx` looks like -/
def EvAt (S : Schema) (cx : Cx) (e : Ev) : Prop :=
  e.anc = cx.anc ∧ e.node.metas = [] ∧ (S.isUserOrd e.node.sid = false → e.anchor = none)

structure Tr (S : Schema) (cx : Cx) (sibs : List DNode) (r : List DNode × Out) : Prop where
  tree : r.1 = replay S sibs r.2.evs
  fresh : Fresh S sibs r.2.evs
  at_ : ∀ e ∈ r.2.evs, EvAt S cx e

theorem Tr.refl (S : Schema) (cx : Cx) (sibs : List DNode) : Tr S cx sibs (sibs, {}) :=
  ⟨rfl, trivial, by intro e he; simp at he⟩

theorem Tr.comp {S : Schema} {cx : Cx} {sibs : List DNode} {r1 r2 : List DNode × Out}
    (h1 : Tr S cx sibs r1) (h2 : Tr S cx r1.1 r2) : Tr S cx sibs (r2.1, r1.2 ++ r2.2) := by
  refine ⟨?_, ?_, ?_⟩
  · simp only [Out.append_evs, replay_append]
    rw [← h1.tree]; exact h2.tree
  · simp only [Out.append_evs]
    apply fresh_append
    · exact h1.fresh
    · rw [← h1.tree]; exact h2.fresh
  · intro e he
    simp only [Out.append_evs, List.mem_append] at he
    rcases he with he | he
    · exact h1.at_ e he
    · exact h2.at_ e he

theorem Tr.add (S : Schema) (cx : Cx) (sibs : List DNode) (n : DNode) (hm : n.metas = [])
    (hf : ∀ x ∈ sibs, NoMatch S n x) : Tr S cx sibs (addImplicit S cx sibs n) := by
  unfold addImplicit
  refine ⟨?_, ?_, ?_⟩
  · simp [replay, Out.ofEvs, Out.evs]
  · simp only [Out.ofEvs, Out.evs, List.map_cons, List.map_nil, List.filterMap_cons, List.filterMap_nil, Fresh, and_true]
    exact hf
  · intro e he
    simp only [Out.ofEvs, Out.evs, List.map_cons, List.map_nil, List.filterMap_cons, List.filterMap_nil, List.mem_singleton] at he
    subst he
    refine ⟨rfl, hm, ?_⟩
    intro hu
    simp [userordAnchor, hu]

/-- the facts about a schema node the proof needs: its row in the flat table is its statement record, and a leaf-list has no
two equal default values -/
def NodeOk (S : Schema) (k : STree) : Prop := S.get? k.sid = some k.info ∧ k.info.dflts.Nodup

theorem noMatch_of_noInst (S : Schema) (sibs : List DNode) (n : DNode) (h : hasInst sibs n.sid = false) :
    ∀ x ∈ sibs, NoMatch S n x := by
  intro x hx
  left
  intro he
  have : hasInst sibs n.sid = true := by
    simp only [hasInst, List.any_eq_true, beq_iff_eq]
    exact ⟨x, hx, he⟩
  rw [h] at this
  cases this

theorem implLeafList_tr (S : Schema) (cx : Cx) (sid : Nat) (hk : S.kind? sid = some .leaflist) (sibs0 : List DNode) :
    ∀ (ds : List Bytes) (acc : List DNode × Out), Tr S cx sibs0 acc → ds.Nodup →
      (∀ d ∈ ds, ∀ x ∈ acc.1, x.sid ≠ sid ∨ x.val ≠ d) → Tr S cx sibs0 (implLeafList S cx sid ds acc)
  | [], acc, h, _, _ => by simpa [implLeafList] using h
  | d :: ds, acc, h, hnd, hf => by
    unfold implLeafList
    have hadd : Tr S cx acc.1 (addImplicit S cx acc.1 (.term sid dfltFlags [] d)) := by
      apply Tr.add _ _ _ _ rfl
      intro x hx
      rcases hf d (List.mem_cons_self ..) x hx with h1 | h1
      · exact Or.inl h1
      · exact Or.inr ⟨hk, rfl, h1⟩
    apply implLeafList_tr S cx sid hk sibs0 ds
    · exact Tr.comp h hadd
    · exact (List.nodup_cons.1 hnd).2
    · intro d' hd' x hx
      have hx' : x ∈ insertNode S acc.1 (.term sid dfltFlags [] d) := by
        simpa [addImplicit] using hx
      rcases (mem_insertNode S acc.1 _ x).1 hx' with rfl | hx'
      · right
        intro he
        simp only [DNode.val] at he
        subst he
        exact (List.nodup_cons.1 hnd).1 hd'
      · exact hf d' (List.mem_cons_of_mem _ hd') x hx'

theorem implNode_tr (S : Schema) (o : VOpts) (cx : Cx) (k : STree) (sibs : List DNode) (hk : NodeOk S k) :
    Tr S cx sibs (implNode S o cx k sibs) := by
  unfold implNode
  dsimp only
  split
  · exact Tr.refl S cx sibs
  · rename_i hc
    have hni : hasInst sibs k.sid = false := by
      simp only [Bool.or_eq_true, not_or, Bool.not_eq_true] at hc
      exact hc.2
    cases hkind : k.info.kind with
    | container =>
      simp only
      split
      · exact Tr.refl S cx sibs
      · exact Tr.add S cx sibs _ rfl (noMatch_of_noInst S sibs (.inner k.sid dfltFlags [] []) hni)
    | leaf =>
      simp only
      split
      · exact Tr.add S cx sibs _ rfl (noMatch_of_noInst S sibs (.term k.sid dfltFlags [] _) hni)
      · exact Tr.refl S cx sibs
    | leaflist =>
      simp only
      apply implLeafList_tr S cx k.sid _ sibs _ _ (Tr.refl S cx sibs) hk.2
      · intro d _ x hx
        left
        intro he
        have : hasInst sibs k.sid = true := by
          simp only [hasInst, List.any_eq_true, beq_iff_eq]
          exact ⟨x, hx, he⟩
        rw [hni] at this
        cases this
      · unfold Schema.kind?
        rw [hk.1, Option.map_some, hkind]
    | list => exact Tr.refl S cx sibs
    | choice => exact Tr.refl S cx sibs
    | case => exact Tr.refl S cx sibs

theorem implNodes_tr (S : Schema) (o : VOpts) (cx : Cx) : ∀ (ks : List STree) (sibs : List DNode),
    (∀ k ∈ ks, NodeOk S k) → Tr S cx sibs (implNodes S o cx ks sibs)
  | [], sibs, _ => by unfold implNodes; exact Tr.refl S cx sibs
  | k :: ks, sibs, h => by
    unfold implNodes
    exact Tr.comp (implNode_tr S o cx k sibs (h k (List.mem_cons_self ..)))
      (implNodes_tr S o cx ks _ (fun k' hk' => h k' (List.mem_cons_of_mem _ hk')))

/-- every schema node below satisfies `NodeOk` -/
def OkBelow (S : Schema) (t : STree) : Prop := ∀ k, Below k t → NodeOk S k
def OkBelowL (S : Schema) (ks : List STree) : Prop := ∀ k, BelowL k ks → NodeOk S k

theorem OkBelowL.head {S : Schema} {t : STree} {ts : List STree} (h : OkBelowL S (t :: ts)) : OkBelow S t :=
  fun k hk => h k (BelowL.head _ _ _ hk)
theorem OkBelowL.tail {S : Schema} {t : STree} {ts : List STree} (h : OkBelowL S (t :: ts)) : OkBelowL S ts :=
  fun k hk => h k (BelowL.tail _ _ _ hk)
theorem OkBelow.kids {S : Schema} {s : Nat} {i : SNode} {ks : List STree} (h : OkBelow S (.mk s i ks)) : OkBelowL S ks :=
  fun k hk => h k (Below.kid _ _ _ _ hk)
theorem OkBelowL.mem {S : Schema} {ks : List STree} (h : OkBelowL S ks) : ∀ k ∈ ks, NodeOk S k :=
  fun k hk => h k (BelowL.of_mem hk)

/-- **the change log of `lyd_new_implicit` is exact** (the choices of a level, every variant) -/
theorem implChoices_tr (X : SchemaX) (o : VOpts) (cx : Cx) (ks : List STree) (sibs : List DNode) (hok : OkBelowL X.base ks) :
    Tr X.base cx sibs (implChoices X o cx ks sibs) := by
  revert hok
  apply implChoices.induct X o cx
    (motive_1 := fun ks sibs => OkBelowL X.base ks → Tr X.base cx sibs (implChoices X o cx ks sibs))
    (motive_2 := fun t sibs => OkBelow X.base t → Tr X.base cx sibs (implChoice X o cx t sibs))
    (motive_3 := fun sid ks sibs => OkBelowL X.base ks → Tr X.base cx sibs (implCaseHolding X o cx sid ks sibs))
    (motive_4 := fun t sibs => OkBelow X.base t → Tr X.base cx sibs (implCase X o cx t sibs))
    (motive_5 := fun target ks sibs => OkBelowL X.base ks → Tr X.base cx sibs (implInto X o cx target ks sibs))
    (motive_6 := fun target t sibs => OkBelow X.base t → Tr X.base cx sibs (implIntoCase X o cx target t sibs))
    (motive_7 := fun target ks sibs => OkBelowL X.base ks → Tr X.base cx sibs (implIntoKids X o cx target ks sibs))
    (motive_8 := fun target t sibs => OkBelow X.base t → Tr X.base cx sibs (implIntoChoice X o cx target t sibs))
    (motive_9 := fun nm ks sibs => OkBelowL X.base ks → Tr X.base cx sibs (implCaseNamed X o cx nm ks sibs))
  -- implChoice
  · intro sid i cases sibs h _
    unfold implChoice; simp only [h, if_true]; exact Tr.refl _ _ _
  · intro sid i cases sibs h hfd nm hnm ih hok
    unfold implChoice; simp only [h, Bool.false_eq_true, if_false, hfd, hnm]; exact ih hok.kids
  · intro sid i cases sibs h hfd hnm _
    unfold implChoice; simp only [h, Bool.false_eq_true, if_false, hfd, hnm]; exact Tr.refl _ _ _
  · intro sid i cases sibs h node hfd hq target ht ih hok
    unfold implChoice; simp only [h, Bool.false_eq_true, if_false, hfd, hq, if_true, ht]; exact ih hok.kids
  · intro sid i cases sibs h node hfd hq ht _
    unfold implChoice; simp only [h, Bool.false_eq_true, if_false, hfd, hq, if_true, ht]; exact Tr.refl _ _ _
  · intro sid i cases sibs h node hfd hq ih hok
    unfold implChoice; simp only [h, Bool.false_eq_true, if_false, hfd, hq]; exact ih hok.kids
  -- implCase
  · intro sid i cases sibs ih hok
    unfold implCase
    exact Tr.comp (ih hok.kids) (implNodes_tr _ _ _ _ _ hok.kids.mem)
  -- implIntoCase
  · intro target sid i cases sibs ih hok
    unfold implIntoCase; exact ih hok.kids
  -- implIntoChoice
  · intro target sid i cases sibs h ih hok
    unfold implIntoChoice; simp only [h, if_true]; exact ih hok.kids
  · intro target sid i cases sibs h _
    unfold implIntoChoice; simp only [h, Bool.false_eq_true, if_false]; exact Tr.refl _ _ _
  -- implChoices
  · intro sibs _; unfold implChoices; exact Tr.refl _ _ _
  · intro k ks sibs _ ih1 ih2 hok
    unfold implChoices
    exact Tr.comp (ih1 hok.head) (ih2 hok.tail)
  -- implCaseHolding
  · intro sid sibs _; unfold implCaseHolding; exact Tr.refl _ _ _
  · intro sid k ks sibs h ih hok
    unfold implCaseHolding; simp only [h, if_true]; exact ih hok.head
  · intro sid k ks sibs h ih hok
    unfold implCaseHolding; simp only [h, Bool.false_eq_true, if_false]; exact ih hok.tail
  -- implInto
  · intro target sibs _; unfold implInto; exact Tr.refl _ _ _
  · intro target k ks sibs _ ih1 ih2 ih3 hok
    unfold implInto
    refine Tr.comp ?_ (ih3 hok.tail)
    split
    · exact ih1 hok.head
    · exact ih2 hok.head
  -- implIntoKids
  · intro target sibs _; unfold implIntoKids; exact Tr.refl _ _ _
  · intro target k ks sibs _ ih1 ih2 hok
    unfold implIntoKids
    exact Tr.comp (ih1 hok.head) (ih2 hok.tail)
  -- implCaseNamed
  · intro nm sibs _; unfold implCaseNamed; exact Tr.refl _ _ _
  · intro nm k ks sibs h ih hok
    unfold implCaseNamed; simp only [h, if_true]; exact ih hok.head
  · intro nm k ks sibs h ih hok
    unfold implCaseNamed; simp only [h, Bool.false_eq_true, if_false]; exact ih hok.tail

theorem implL_tr (X : SchemaX) (o : VOpts) (cx : Cx) (ks : List STree) (sibs : List DNode) (hok : OkBelowL X.base ks) :
    Tr X.base cx sibs (implL X o cx ks sibs) := by
  unfold implL
  exact Tr.comp (implChoices_tr X o cx ks sibs hok) (implNodes_tr _ _ _ _ _ hok.mem)

end LyModel.Valid
