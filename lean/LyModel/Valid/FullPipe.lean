import LyModel.Valid.FullFinal2
import LyModel.Valid.FullSpec
import LyModel.Valid.FullWant
import LyModel.Valid.FullWalk
/-!
# C02, full schema language: hypotheses of the assembled theorems, and one sibling level of `lyd_validate` as a pipeline

* `FullSane X o`: what the schema compiler guarantees, on every data level of the schema (decidable: `fullSaneB`).
* `goodL X sk t`: the instance as the builders / parsers leave it — every node carries exactly `LYD_NEW`, is an instance of a data
  node of its level (through choices and cases), a term node iff its schema node is a leaf / leaf-list, sibling lists shorter
  than 2³².
* `pipeErrs`: everything `lyd_validate` logs for one sibling level and below — `lyd_validate_new`, the walk of
  `lyd_validate_subtree` over the completed level, the checks of `lyd_validate_final_r` — and `elem_pipe`: what is logged for an
  inner node is the pipeline of its children.
-/
namespace LyModel.Valid
open LyModel LyModel.Tree

/-- one data level of the schema: the children of choices are cases and cases occur only there, the data nodes have different
ids, and the nodes are sane (`saneL`) -/
structure LevelSane (sk : List STree) : Prop where
  kinds : kindsOkL sk = true
  nodup : (dataSidsL sk).Nodup
  noCase : noCaseL sk = true
  sane : saneL sk = true

/-- the schema hypotheses of the C02 theorems for the full schema language -/
structure FullSane (X : SchemaX) (o : VOpts) : Prop where
  top : LevelSane X.top
  /-- the children of every data node form a sane level; a leaf / leaf-list has none -/
  data : ∀ k, BelowL k X.top → k.info.kind ≠ .choice → k.info.kind ≠ .case →
    LevelSane k.kids ∧ ((k.info.kind = .leaf ∨ k.info.kind = .leaflist) → k.kids = [])
  /-- `config false` is inherited -/
  cfg : ∀ ch k', BelowL ch X.top → Below k' ch → ch.info.config = false → k'.info.config = false
  /-- a non-presence container directly in a default case has no mandatory descendants (it would carry `LYS_MAND_TRUE` and the
  compiler refuses it there, RFC 7950 §7.9.3): the specification asks nothing of its empty content -/
  dflt : ∀ ch, BelowL ch X.top → ch.info.kind = .choice → ∀ c ∈ ch.kids, ch.info.dfltCase = some c.info.name →
    ∀ k ∈ c.kids, k.isNpCont = true → specL X o k.kids [] = []

mutual
/-- a freshly built / parsed node of the schema (see the header) -/
def goodN (X : SchemaX) : DNode → Bool
  | .inner s f _ ks =>
    decide (f = { new := true }) && !(X.base.isKind s .leaf || X.base.isKind s .leaflist) && decide (ks.length ≤ uint32Max) &&
      goodL X (X.kidsOf (some s)) ks
  | .term s f _ _ => decide (f = { new := true }) && (X.base.isKind s .leaf || X.base.isKind s .leaflist)
def goodL (X : SchemaX) (sk : List STree) : List DNode → Bool
  | [] => true
  | n :: ns => (dataSidsL sk).contains n.sid && goodN X n && goodL X sk ns
end

theorem goodL_all (X : SchemaX) (sk : List STree) : ∀ (ns : List DNode), goodL X sk ns = true ↔
    ∀ n ∈ ns, n.sid ∈ dataSidsL sk ∧ goodN X n = true := by
  intro ns
  induction ns with
  | nil => simp [goodL]
  | cons x xs ih =>
    unfold goodL
    simp only [Bool.and_eq_true, ih, List.mem_cons, forall_eq_or_imp, List.contains_iff_mem, and_assoc]

theorem goodN_inner (X : SchemaX) (s : Nat) (f : Flags) (m : List Meta) (ks : List DNode) :
    goodN X (.inner s f m ks) = true ↔ f = { new := true } ∧ X.base.isKind s .leaf = false ∧ X.base.isKind s .leaflist = false ∧
      ks.length ≤ uint32Max ∧ goodL X (X.kidsOf (some s)) ks = true := by
  unfold goodN
  simp only [Bool.and_eq_true, decide_eq_true_eq, Bool.not_eq_eq_eq_not, Bool.not_true, Bool.or_eq_false_iff, and_assoc]

theorem goodN_term (X : SchemaX) (s : Nat) (f : Flags) (m : List Meta) (v : Bytes) :
    goodN X (.term s f m v) = true ↔ f = { new := true } ∧ (X.base.isKind s .leaf = true ∨ X.base.isKind s .leaflist = true) := by
  unfold goodN
  simp only [Bool.and_eq_true, decide_eq_true_eq, Bool.or_eq_true]

mutual
theorem goodN_fresh (X : SchemaX) : ∀ (n : DNode), goodN X n = true → isFreshN n = true
  | .inner s f m ks, h => by
    rw [goodN_inner] at h
    unfold isFreshN
    simp only [Bool.and_eq_true, decide_eq_true_eq]
    exact ⟨h.1, goodL_fresh X _ ks h.2.2.2.2⟩
  | .term s f m v, h => by
    rw [goodN_term] at h
    unfold isFreshN
    simp only [decide_eq_true_eq]
    exact h.1
theorem goodL_fresh (X : SchemaX) (sk : List STree) : ∀ (ns : List DNode), goodL X sk ns = true → isFreshL ns = true
  | [], _ => by unfold isFreshL; rfl
  | n :: ns, h => by
    unfold goodL at h
    simp only [Bool.and_eq_true] at h
    unfold isFreshL
    simp only [Bool.and_eq_true]
    exact ⟨goodN_fresh X n h.1.2, goodL_fresh X sk ns h.2⟩
end

theorem goodN_kids {X : SchemaX} {n : DNode} (h : goodN X n = true) (hi : n.isTerm = false) :
    goodL X (X.kidsOf (some n.sid)) n.kids = true ∧ n.kids.length ≤ uint32Max := by
  cases n with
  | inner s f m ks => rw [goodN_inner] at h; exact ⟨h.2.2.2.2, h.2.2.2.1⟩
  | term s f m v => cases hi

/-! ## one sibling level as a pipeline -/

/-- the completed level: `lyd_validate_new`, `lyd_new_implicit`, the subtree walk -/
def pipeTree (X : SchemaX) (o : VOpts) (fuel : Nat) (cx1 cx2 cx3 : Cx) (sk : List STree) (ks : List DNode) : List DNode :=
  (walkList (subtreeNode X o fuel cx3) [] (implL X o cx2 sk (validateNew X o cx1 ks).1).1).1

/-- everything logged for the level and below -/
def pipeErrs (X : SchemaX) (o : VOpts) (fuel : Nat) (cx1 cx2 cx3 cxF : Cx) (sk : List STree) (ks : List DNode) : List VErr :=
  (validateNew X o cx1 ks).2.errs ++
    (walkList (subtreeNode X o fuel cx3) [] (implL X o cx2 sk (validateNew X o cx1 ks).1).1).2.errs ++
    (levelChecks X o cxF (pipeTree X o fuel cx1 cx2 cx3 sk ks)).errs ++
    (finalKids X o cxF [] (pipeTree X o fuel cx1 cx2 cx3 sk ks)).2.errs

/-- what is logged for an inner node — by the walk and by the final phase on the walk's result — is the pipeline of its children -/
theorem elem_pipe (X : SchemaX) (o : VOpts) (f : Nat) (cx cxF : Cx) (b bF : List DNode) (s : Nat) (fl : Flags) (m : List Meta)
    (kk : List DNode) (e : VErr) :
    (e ∈ (subtreeNode X o (f + 1) cx b (.inner s fl m kk)).2.errs ∨
      e ∈ (finalNode X o cxF bF (subtreeNode X o (f + 1) cx b (.inner s fl m kk)).1).2.errs) ↔
    e ∈ pipeErrs X o f (cx.descend X.base b (.inner s fl m kk)) (cx.descend X.base b (.inner s fl m kk)).keysOld
      (cx.descend X.base b (.inner s fl m kk)).keysOld
      (cxF.descend X.base bF (subtreeNode X o (f + 1) cx b (.inner s fl m kk)).1) (X.kidsOf (some s)) kk := by
  unfold pipeErrs pipeTree
  unfold subtreeNode
  dsimp only
  unfold finalNode
  dsimp only
  simp only [Out.append_errs, implL_errs, List.append_nil, List.mem_append]
  simp only [or_assoc]

end LyModel.Valid
