import LyModel.Valid.Final
/-!
# `lyd_validate` (validation.c) for one module

Order of work, as in the C: `lyd_validate_new` on the top-level siblings, `lyd_new_implicit` for the top level, then
`lyd_validate_subtree` on every top-level node (depth first: per inner node `lyd_validate_new` on its children, then
`lyd_new_implicit` for them — the nodes just created are visited too), nothing to resolve in `lyd_validate_unres` for
this schema family, and `lyd_validate_final_r`.
Core Lean only.
-/
namespace LyModel.Valid
open LyModel LyModel.Tree

/-- apply `f` to every sibling in turn; `f` sees the siblings already done in front of the node (for error paths) -/
def walkList (f : List DNode → DNode → DNode × Out) : (before : List DNode) → List DNode → List DNode × Out
  | _, [] => ([], {})
  | before, n :: ns =>
    let r1 := f before n
    let r2 := walkList f (before ++ [r1.1]) ns
    (r1.1 :: r2.1, r1.2 ++ r2.2)

/-- `lyd_validate_subtree(root, …)`: the `LYD_TREE_DFS` over one subtree; `before` = the preceding siblings of the node.
`fuel` bounds the depth (see `walkFuel`). -/
def subtreeNode (X : SchemaX) (o : VOpts) : (fuel : Nat) → Cx → (before : List DNode) → DNode → DNode × Out
  | 0, _, _, n => (n, {})
  | fuel + 1, cx, before, .inner s f m ks =>
    let cx' := cx.descend X.base before (.inner s f m ks)
    -- new node validation, autodelete
    let r1 := validateNew X o cx' ks
    -- add nested defaults
    let r2 := implL X o cx'.keysOld (X.kidsOf (some s)) r1.1
    let r3 := walkList (subtreeNode X o fuel cx'.keysOld) [] r2.1
    (.inner s f m r3.1, r1.2 ++ r2.2 ++ r3.2)
  | _ + 1, _, _, t => (t, {})

def subtreeKids (X : SchemaX) (o : VOpts) (fuel : Nat) (cx : Cx) (before : List DNode) (ns : List DNode) : List DNode × Out :=
  walkList (subtreeNode X o fuel cx) before ns

structure VResult where
  tree : List DNode
  /-- change events and errors in the order they happened -/
  log : List Item
  deriving Repr, Inhabited

def VResult.evs (r : VResult) : List Ev := r.log.filterMap fun | .ev e => some e | .err _ => none
def VResult.errs (r : VResult) : List VErr := r.log.filterMap fun | .err e => some e | .ev _ => none

/-- fuel of the subtree walk: the walk goes one level down per step and the implicit non-presence containers it creates
are at most as deep as the schema -/
def walkFuel (X : SchemaX) (t : List DNode) : Nat := 2 * (heightL t + X.base.nodes.length) + 4

/-- `lyd_validate_module(&tree, mod, opts, &diff)` / `lyd_validate_all(&tree, ctx, opts | LYD_VALIDATE_PRESENT, &diff)` for
the data of the one module -/
def validate (X : SchemaX) (o : VOpts) (t : List DNode) : VResult :=
  if o.present && t.isEmpty then { tree := [], log := [] }
  else
    let cx : Cx := {}
    let r1 := validateNew X o cx t
    let r2 := implL X o cx X.top r1.1
    let r3 := subtreeKids X o (walkFuel X t) cx [] r2.1
    let r4 := finalR X o cx r3.1
    let out := r1.2 ++ r2.2 ++ r3.2 ++ r4.2
    { tree := r4.1, log := out.items }

/-- the verdict without `LYD_VALIDATE_MULTI_ERROR`: the first error -/
def VResult.first (r : VResult) : Option VErr := r.errs.head?

/-! ## what the harness does before validating: build the instance through `lyd_new_*` -/

mutual
/-- flags `lyd_new_inner` / `lyd_new_list` / `lyd_new_term` leave: `LYD_NEW`, and `LYD_DEFAULT` on a non-presence container
as long as it has no explicit descendant -/
def freshNode (S : Schema) : DNode → DNode
  | .inner s _ m ks =>
    let ks' := freshL S ks
    .inner s { new := true, dflt := S.isNpCont s && ks'.all (·.flags.dflt) } m ks'
  | .term s _ m v => .term s { new := true } m v
def freshL (S : Schema) : List DNode → List DNode
  | [] => []
  | n :: ns => freshNode S n :: freshL S ns
end

inductive BuildErr where
  | einval     -- a list instance without its keys (treeproto.h refuses it before calling libyang)
  | evalid     -- `lyd_new_term` / `lyd_new_list3`: value not in the value space of the type
  deriving Repr, BEq, DecidableEq

def BuildErr.name : BuildErr → String
  | .einval => "Einval" | .evalid => "Evalid"

/-- do the first `nkeys` children carry the key schema ids `lst+1 …`, in order? (keys are the first schema children) -/
def keysPresent (S : Schema) (lst : Nat) (ks : List DNode) : Bool :=
  let n := S.nkeys lst
  (ks.take n).map (·.sid) == (List.range n).map (· + lst + 1)

mutual
/-- first failure of building the instance in dump order -/
def buildNode (S : Schema) : DNode → Option BuildErr
  | .inner s _ _ ks =>
    if S.isKind s .list && !keysPresent S s ks then some .einval
    else buildL S ks
  | .term s _ _ v => if typeOk (S.ty s) v then none else some .evalid
def buildL (S : Schema) : List DNode → Option BuildErr
  | [] => none
  | n :: ns => match buildNode S n with
    | some e => some e
    | none => buildL S ns
end

end LyModel.Valid
