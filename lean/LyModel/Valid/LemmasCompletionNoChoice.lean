import LyModel.Valid.LemmasCompletionLevel
import LyModel.Valid.LemmasStable
/-!
# Lemmas for C07 `implicit_exact_tree` on schemas without `choice`: the validated tree of fresh data is the RFC completion of the
input, at every depth (`validate_rfc_nochoice`)
-/
namespace LyModel.Valid
open LyModel LyModel.Tree

/-- the schema is a tree of data nodes: every level (top, and the children of every node) is a `DataLevel`, and every schema node
is found under its id with its own children -/
structure DataSchema (X : SchemaX) : Prop where
  top : DataLevel X.base X.top
  kids : ∀ k, BelowL k X.top → DataLevel X.base k.kids
  lookup : ∀ k, BelowL k X.top → X.kidsOf (some k.sid) = k.kids
  info : ∀ k, BelowL k X.top → X.base.get? k.sid = some k.info

theorem noChoiceTop_of_dataLevel (S : Schema) (ks : List STree) (h : DataLevel S ks) : noChoiceTop ks = true := by
  unfold noChoiceTop
  rw [List.all_eq_true]
  intro k hk
  have := (h.1 k hk).1
  simp only [STree.isChoice, Bool.not_eq_true', beq_eq_false_iff_ne, ne_eq]
  exact this

mutual
/-- every inner data node is an instance of a container or a list (what the parsers and `lyd_new_*` build) -/
def cShapedN (S : Schema) : DNode → Bool
  | .inner s _ _ ks => (S.isKind s .container || S.isKind s .list) && cShapedL S ks
  | .term .. => true
def cShapedL (S : Schema) : List DNode → Bool
  | [] => true
  | n :: ns => cShapedN S n && cShapedL S ns
end

theorem cShapedL_mem (S : Schema) : ∀ (l : List DNode), cShapedL S l = true → ∀ n ∈ l, cShapedN S n = true
  | [], _, n, hn => by cases hn
  | x :: xs, h, n, hn => by
    rw [cShapedL, Bool.and_eq_true] at h
    rcases List.mem_cons.1 hn with rfl | hn
    · exact h.1
    · exact cShapedL_mem S xs h.2 n hn

theorem sheightL_zero : ∀ (ks : List STree), sheightL ks = 0 → ks = []
  | [], _ => rfl
  | t :: ts, h => by
    exfalso
    cases t with
    | mk s i kk =>
      simp only [sheightL, sheight] at h
      have : sheightL kk + 1 ≤ Nat.max (sheightL kk + 1) (sheightL ts) := Nat.le_max_left ..
      omega

theorem deepR_mem (X : SchemaX) (o : VOpts) : ∀ (ks : List STree) (k : STree) (n : DNode), k ∈ ks → (ks.map (·.sid)).Nodup → n.sid = k.sid →
    deepR X o ks n = deepK X o k n
  | [], _, _, h, _, _ => by cases h
  | k0 :: ks, k, n, hk, hnd, hs => by
    simp only [List.map_cons, List.nodup_cons] at hnd
    rw [deepR]
    rcases List.mem_cons.1 hk with rfl | hk'
    · simp [hs]
    · have : (n.sid == k0.sid) = false := by
        rw [hs]
        have : k.sid ≠ k0.sid := by
          intro e
          apply hnd.1
          rw [← e]; exact List.mem_map.2 ⟨k, hk', rfl⟩
        simpa using this
      simp only [this, Bool.false_eq_true, if_false]
      exact deepR_mem X o ks k n hk' hnd.2 hs

theorem walkList_obs_map (S : Schema) (f : List DNode → DNode → DNode × Out) (g h : DNode → DNode) :
    ∀ (M before : List DNode), (∀ n ∈ M, ∀ before, obsN S (f before (g n)).1 = obsN S (h n)) →
      obsL S (walkList f before (M.map g)).1 = obsL S (M.map h)
  | [], _, _ => rfl
  | n :: ns, before, hh => by
    rw [List.map_cons, walkList]
    dsimp only
    rw [List.map_cons, obsL, obsL, hh n (List.mem_cons_self ..) before,
      walkList_obs_map S f g h ns _ (fun k hk => hh k (List.mem_cons_of_mem _ hk))]

/-- what the level of `lyd_new_implicit` consists of: the siblings it got and created default nodes without children -/
theorem mem_lvl1 (S : Schema) (o : VOpts) (k : STree) (l : List DNode) : ∀ n ∈ lvl1 S o k l,
    n ∈ l ∨ (n.sid = k.sid ∧ n.flags = dfltFlags ∧ n.kids = [] ∧ (n.isTerm = false → k.info.kind = .container)) := by
  intro n hn
  unfold lvl1 at hn
  dsimp only at hn
  split at hn
  · exact Or.inl hn
  · cases hkind : k.info.kind with
    | container =>
      simp only [hkind] at hn
      split at hn
      · exact Or.inl hn
      · rcases (mem_insertNode S l _ n).1 hn with rfl | h
        · exact Or.inr ⟨rfl, rfl, rfl, fun _ => rfl⟩
        · exact Or.inl h
    | leaf =>
      simp only [hkind] at hn
      split at hn
      · rcases (mem_insertNode S l _ n).1 hn with rfl | h
        · exact Or.inr ⟨rfl, rfl, rfl, fun h => by cases h⟩
        · exact Or.inl h
      · exact Or.inl hn
    | leaflist =>
      simp only [hkind] at hn
      have : ∀ (ds : List Bytes) (l : List DNode), n ∈ ds.foldl (fun acc d => insertNode S acc (.term k.sid dfltFlags [] d)) l →
          n ∈ l ∨ (n.sid = k.sid ∧ n.flags = dfltFlags ∧ n.kids = [] ∧ n.isTerm = true) := by
        intro ds
        induction ds with
        | nil => intro l h; exact Or.inl h
        | cons d ds ih =>
          intro l h
          rcases ih _ h with h' | h'
          · rcases (mem_insertNode S l _ n).1 h' with rfl | h''
            · exact Or.inr ⟨rfl, rfl, rfl, rfl⟩
            · exact Or.inl h''
          · exact Or.inr h'
      rcases this _ _ hn with h | h
      · exact Or.inl h
      · exact Or.inr ⟨h.1, h.2.1, h.2.2.1, fun ht => by rw [h.2.2.2] at ht; cases ht⟩
    | list => simp only [hkind] at hn; exact Or.inl hn
    | choice => simp only [hkind] at hn; exact Or.inl hn
    | case => simp only [hkind] at hn; exact Or.inl hn

theorem mem_lvl (S : Schema) (o : VOpts) : ∀ (ks : List STree) (l : List DNode), ∀ n ∈ lvl S o ks l,
    n ∈ l ∨ ∃ k ∈ ks, n.sid = k.sid ∧ n.flags = dfltFlags ∧ n.kids = [] ∧ (n.isTerm = false → k.info.kind = .container)
  | [], l, n, hn => Or.inl hn
  | k :: ks, l, n, hn => by
    rw [lvl] at hn
    rcases mem_lvl S o ks _ n hn with h | ⟨k', hk', h⟩
    · rcases mem_lvl1 S o k l n h with h' | h'
      · exact Or.inl h'
      · exact Or.inr ⟨k, List.mem_cons_self .., h'⟩
    · exact Or.inr ⟨k', List.mem_cons_of_mem _ hk', h⟩

end LyModel.Valid

namespace LyModel.Valid
open LyModel LyModel.Tree

theorem normNew_keeps : KeepsKey normNew := by
  intro x
  unfold normNew
  split
  · cases x <;> exact ⟨rfl, rfl, rfl⟩
  · exact ⟨rfl, rfl, rfl⟩

theorem normNew_created (n : DNode) (h : n.flags = dfltFlags) : normNew n = n := by
  unfold normNew
  rw [h]
  rfl

theorem normNew_inner (s : Nat) (f : Flags) (m : List Meta) (ks : List DNode) :
    ∃ f', normNew (.inner s f m ks) = .inner s f' m ks ∧ f'.dflt = f.dflt := by
  unfold normNew
  split
  · exact ⟨_, rfl, rfl⟩
  · exact ⟨f, rfl, rfl⟩

theorem obsN_npSet' (S : Schema) (n : DNode) : obsN S (npSet S n) = obsN S n := by
  cases n with
  | term => rfl
  | inner s f m ks => exact obsN_npSet S s f m ks

theorem obsN_deepK_nil (X : SchemaX) (o : VOpts) (k : STree) (n : DNode) (h : k.kids = []) : obsN X.base (deepK X o k n) = obsN X.base n := by
  unfold deepK
  rw [h]
  have hr : rfcL X o [] n.kids = n.kids := by rw [rfcL]
  split
  · rw [obsN_npSet', hr, setKids_self]
  · rw [hr, setKids_self]
  · rfl

theorem deepK_term (X : SchemaX) (o : VOpts) (k : STree) (s : Nat) (f : Flags) (m : List Meta) (v : Bytes) :
    obsN X.base (deepK X o k (.term s f m v)) = obsN X.base (.term s f m v) := by
  unfold deepK
  split
  · rw [obsN_npSet']; rfl
  · rfl
  · rfl

/-- what the walk needs of a data node that is an instance of the schema node `k` -/
structure NodeHyp (X : SchemaX) (k : STree) (n : DNode) : Prop where
  sid : n.sid = k.sid
  fresh : freshExplL n.kids = true
  placed : placedN X n = true
  shaped : cShapedN X.base n = true

theorem nodeHyp_created (X : SchemaX) (k : STree) (c : DNode) (hk : X.base.get? k.sid = some k.info) (h1 : c.sid = k.sid)
    (h3 : c.kids = []) (h4 : c.isTerm = false → k.info.kind = .container) : NodeHyp X k c := by
  cases c with
  | term s f m v => exact ⟨h1, rfl, rfl, rfl⟩
  | inner s f m ks =>
    simp only [DNode.kids] at h3
    subst h3
    simp only [DNode.sid] at h1
    refine ⟨h1, rfl, ?_, ?_⟩
    · simp [placedN, placedL]
    · have := h4 rfl
      simp [cShapedN, cShapedL, Schema.isKind, Schema.kind?, h1, hk, this]

/-- **the subtree walk on fresh data of a choice-free schema completes every node the way RFC 7950 says** -/
theorem subtreeNode_rfc (X : SchemaX) (o : VOpts) (hno : o.noState = false) (hD : DataSchema X) :
    ∀ (fuel : Nat) (n : DNode) (k : STree) (cx : Cx) (before : List DNode), BelowL k X.top → NodeHyp X k n → sheightL k.kids ≤ fuel →
      obsN X.base (subtreeNode X o fuel cx before (normNew n)).1 = obsN X.base (deepK X o k n)
  | 0, n, k, _, _, _, _, hh => by
    simp only [subtreeNode]
    rw [obsN_normNew, obsN_deepK_nil X o k n (sheightL_zero k.kids (by omega))]
  | fuel + 1, .term s f m v, k, cx, before, _, _, _ => by
    rw [deepK_term]
    have : ∃ f', normNew (.term s f m v) = .term s f' m v ∧ f'.dflt = f.dflt := by
      unfold normNew; split
      · exact ⟨_, rfl, rfl⟩
      · exact ⟨f, rfl, rfl⟩
    obtain ⟨f', h1, h2⟩ := this
    rw [h1]
    simp only [subtreeNode, obsN, h2]
  | fuel + 1, .inner s f m kids, k, cx, before, hk, hn, hh => by
    obtain ⟨f', h1, h2⟩ := normNew_inner s f m kids
    rw [h1, subtreeNode]
    dsimp only
    have hs : s = k.sid := hn.sid
    have hfresh : freshExplL kids = true := hn.fresh
    obtain ⟨hlev, hkids⟩ := freshLevel_of kids hfresh
    obtain ⟨n1, _⟩ := validateNew_freshLevel X o (cx.descend X.base before (.inner s f' m kids)) kids hlev
    have hDk := hD.kids k hk
    have hlook : X.kidsOf (some s) = k.kids := by rw [hs]; exact hD.lookup k hk
    have hget : X.base.get? k.sid = some k.info := hD.info k hk
    -- the level below
    rw [hlook, implL_noChoice X o _ k.kids _ (noChoiceTop_of_dataLevel X.base k.kids hDk), implNodes_fst, n1,
      lvl_map X.base o normNew normNew_keeps k.kids kids (fun k' hk' => (hDk.1 k' hk').2.2) (fun k' _ c _ hc _ => normNew_created c hc)]
    have hplaced : placedL X k.kids kids = true := by
      have := hn.placed
      simp only [placedN] at this
      rw [hlook] at this
      exact this
    have hshaped := hn.shaped
    simp only [cShapedN, Bool.and_eq_true] at hshaped
    have hw := walkList_obs_map X.base (subtreeNode X o fuel (cx.descend X.base before (.inner s f' m kids)).keysOld) normNew (deepR X o k.kids)
      (lvl X.base o k.kids kids) [] (by
        intro c hc bf
        rcases mem_lvl X.base o k.kids kids c hc with hc' | ⟨k', hk', c1, _, c3, c4⟩
        · obtain ⟨hin, hpl⟩ := (placedL_all X k.kids kids).1 hplaced c hc'
          obtain ⟨k', hk', hsid⟩ := List.any_eq_true.1 hin
          have hsid' : c.sid = k'.sid := by simpa using (beq_iff_eq.1 hsid).symm
          have hyp : NodeHyp X k' c := ⟨hsid', hkids c hc', hpl, cShapedL_mem X.base kids hshaped.2 c hc'⟩
          have hfu : sheightL k'.kids ≤ fuel := by
            have a := sheightL_mem hk'
            have b := sheight_kids k'
            omega
          rw [subtreeNode_rfc X o hno hD fuel c k' _ bf (BelowL.kid' hk hk') hyp hfu, deepR_mem X o k.kids k' c hk' hDk.2 hsid']
        · have hyp : NodeHyp X k' c := nodeHyp_created X k' c (hDk.1 k' hk').2.2 c1 c3 c4
          have hfu : sheightL k'.kids ≤ fuel := by
            have a := sheightL_mem hk'
            have b := sheight_kids k'
            omega
          rw [subtreeNode_rfc X o hno hD fuel c k' _ bf (BelowL.kid' hk hk') hyp hfu, deepR_mem X o k.kids k' c hk' hDk.2 c1])
    have hkind : k.info.kind = .container ∨ k.info.kind = .list := by
      have := hshaped.1
      simp only [Schema.isKind, Schema.kind?, hs, hget, Option.map_some, Bool.or_eq_true, beq_iff_eq, Option.some.injEq] at this
      exact this
    have hr : obsL X.base ((lvl X.base o k.kids kids).map (deepR X o k.kids)) = obsL X.base (rfcL X o k.kids kids) := by
      rw [rfcL_eq_level X o hno k.kids kids hDk]
    rcases hkind with hc | hc
    · simp only [deepK, hc, DNode.setKids, DNode.kids]
      rw [obsN_npSet]
      simp only [obsN, hw, hr, h2]
    · simp only [deepK, hc, DNode.setKids, DNode.kids]
      simp only [obsN, hw, hr, h2]

end LyModel.Valid

namespace LyModel.Valid
open LyModel LyModel.Tree

/-- **the validated tree of fresh data is the RFC completion of the input** (schemas without `choice`, whole trees) -/
theorem validate_rfc_nochoice (X : SchemaX) (o : VOpts) (t : List DNode) (hno : o.noState = false) (hD : DataSchema X)
    (hf : freshExplL t = true) (hp : placedL X X.top t = true) (hs : cShapedL X.base t = true)
    (hh : sheightL X.top ≤ walkFuel X t) (hpe : (o.present && t.isEmpty) = false) :
    obsL X.base (validate X o t).tree = obsL X.base (rfcL X o X.top t) := by
  obtain ⟨htree, _⟩ := validate_evs_eq X o t hpe
  obtain ⟨hlev, hkids⟩ := freshLevel_of t hf
  obtain ⟨n1, _⟩ := validateNew_freshLevel X o {} t hlev
  rw [htree, finalR_obs]
  unfold subtreeKids
  rw [implL_noChoice X o _ X.top _ (noChoiceTop_of_dataLevel X.base X.top hD.top), implNodes_fst, n1,
    lvl_map X.base o normNew normNew_keeps X.top t (fun k' hk' => (hD.top.1 k' hk').2.2) (fun k' _ c _ hc _ => normNew_created c hc)]
  rw [walkList_obs_map X.base (subtreeNode X o (walkFuel X t) {}) normNew (deepR X o X.top) (lvl X.base o X.top t) [] (by
    intro c hc bf
    rcases mem_lvl X.base o X.top t c hc with hc' | ⟨k', hk', c1, _, c3, c4⟩
    · obtain ⟨hin, hpl⟩ := (placedL_all X X.top t).1 hp c hc'
      obtain ⟨k', hk', hsid⟩ := List.any_eq_true.1 hin
      have hsid' : c.sid = k'.sid := by simpa using (beq_iff_eq.1 hsid).symm
      have hyp : NodeHyp X k' c := ⟨hsid', hkids c hc', hpl, cShapedL_mem X.base t hs c hc'⟩
      have hfu : sheightL k'.kids ≤ walkFuel X t := by
        have a := sheightL_mem hk'
        have b := sheight_kids k'
        omega
      rw [subtreeNode_rfc X o hno hD _ c k' _ bf (BelowL.of_mem hk') hyp hfu, deepR_mem X o X.top k' c hk' hD.top.2 hsid']
    · have hyp : NodeHyp X k' c := nodeHyp_created X k' c (hD.top.1 k' hk').2.2 c1 c3 c4
      have hfu : sheightL k'.kids ≤ walkFuel X t := by
        have a := sheightL_mem hk'
        have b := sheight_kids k'
        omega
      rw [subtreeNode_rfc X o hno hD _ c k' _ bf (BelowL.of_mem hk') hyp hfu, deepR_mem X o X.top k' c hk' hD.top.2 c1])]
  rw [rfcL_eq_level X o hno X.top t hD.top]

/-- decidable `DataSchema` -/
def dataLevelB (S : Schema) (ks : List STree) : Bool :=
  ks.all (fun k => k.info.kind != .choice && k.info.kind != .case && decide (S.get? k.sid = some k.info)) && decide (ks.map (·.sid)).Nodup

theorem dataLevel_of_B (S : Schema) (ks : List STree) (h : dataLevelB S ks = true) : DataLevel S ks := by
  unfold dataLevelB at h
  simp only [Bool.and_eq_true, List.all_eq_true, decide_eq_true_eq, bne_iff_ne, ne_eq] at h
  exact ⟨fun k hk => ⟨(h.1 k hk).1.1, (h.1 k hk).1.2, (h.1 k hk).2⟩, h.2⟩

def dataSchemaB (X : SchemaX) : Bool :=
  dataLevelB X.base X.top && allBelowL (fun k => dataLevelB X.base k.kids && steqL (X.kidsOf (some k.sid)) k.kids &&
    decide (X.base.get? k.sid = some k.info)) X.top

theorem dataSchema_of_B (X : SchemaX) (h : dataSchemaB X = true) : DataSchema X := by
  unfold dataSchemaB at h
  simp only [Bool.and_eq_true] at h
  refine ⟨dataLevel_of_B _ _ h.1, ?_, ?_, ?_⟩
  · intro k hk
    have := allBelowL_spec _ hk h.2
    simp only [Bool.and_eq_true] at this
    exact dataLevel_of_B _ _ this.1.1
  · intro k hk
    have := allBelowL_spec _ hk h.2
    simp only [Bool.and_eq_true] at this
    exact steqL_eq _ _ this.1.2
  · intro k hk
    have := allBelowL_spec _ hk h.2
    simp only [Bool.and_eq_true, decide_eq_true_eq] at this
    exact this.2

end LyModel.Valid
