import LyModel.Valid.XpLemmas
/-!
# `must` / leafref: every error `validateX` logs beyond `validate` names a violated XPath-dependent constraint

Membership version of `validateX_ok_iff` (XpLemmas.lean): no hypothesis on the structural errors — a `NoMust` / `Other` (`xpErr`)
error of the final phase comes from a node that passed the state check and whose must is not true on the document and counter the
traversal carries, which are the document and the numbering of the specification.
-/
namespace LyModel.Valid
open LyModel LyModel.Tree

/-- the kinds `lyd_validate_must` logs: a false must, an expression that cannot be evaluated -/
def xt_mk (e : VErr) : Prop := e.kind = .noMust ∨ e.kind = .xpErr

theorem xt_not_mem_empty {e : VErr} (h : e ∈ ({} : Out).errs) : False := by
  rw [Out.empty_errs] at h; cases h

theorem xt_mustOut_mem (o : VOpts) (q : Nat) (d : XPath.Doc) (num : Nat) (path : Bytes) : ∀ (es : List Bytes) (e : VErr),
    e ∈ (mustOut o q d num path es).errs → xt_mk e ∧ mustsHold q d num es = false := by
  intro es
  induction es with
  | nil => intro e he; unfold mustOut at he; exact (xt_not_mem_empty he).elim
  | cons x xs ih =>
    intro e
    unfold mustOut mustsHold
    rw [List.all_cons]
    cases h : xpBoolD q d num x with
    | error u =>
      dsimp only
      intro he
      rw [xp_err_errs, List.mem_singleton] at he
      exact ⟨Or.inr (by rw [he]), rfl⟩
    | ok b =>
      cases b with
      | true =>
        dsimp only
        intro he
        have := ih e he
        unfold mustsHold at this
        exact ⟨this.1, by rw [Bool.true_and]; exact this.2⟩
      | false =>
        dsimp only
        intro he
        refine ⟨?_, rfl⟩
        rw [Out.append_errs, List.mem_append] at he
        rcases he with he | he
        · split at he
          · exact (xt_not_mem_empty he).elim
          · rw [xp_err_errs, List.mem_singleton] at he
            exact Or.inl (by rw [he])
        · exact (ih e he).1

theorem xt_nodeChecksX_mem (S : Schema) (C : XCons) (o : VOpts) (cx : Cx) (D : XDocs) :
    ∀ (rest before : List DNode) (na nc : Nat) (e : VErr), e ∈ (nodeChecksX S C o cx D na nc before rest).errs →
      e ∈ (nodeChecks S o cx before rest).errs ∨ (xt_mk e ∧ xpLvlOk S C o D na nc rest = false) := by
  intro rest
  induction rest with
  | nil => intro before na nc e he; unfold nodeChecksX at he; exact (xt_not_mem_empty he).elim
  | cons n ns ih =>
    intro before na nc e he
    unfold nodeChecksX at he
    rw [Out.append_errs, List.mem_append] at he
    unfold nodeChecks xpLvlOk nodeMustOk
    rw [Out.append_errs, List.mem_append]
    rcases he with he | he
    · by_cases hst : (o.noState && !S.config n.sid) = true
      · rw [if_pos hst] at he
        left; left
        rw [if_pos hst]; exact he
      · rw [if_neg hst] at he
        have hst' : (o.noState && !S.config n.sid) = false := by simpa using hst
        right
        by_cases hc : S.config n.sid = true
        · rw [if_pos hc] at he
          have := xt_mustOut_mem o _ _ _ _ _ e he
          exact ⟨this.1, by rw [hst', if_pos hc, this.2]; rfl⟩
        · rw [if_neg hc] at he
          have := xt_mustOut_mem o _ _ _ _ _ e he
          exact ⟨this.1, by rw [hst', if_neg hc, this.2]; rfl⟩
    · rcases ih _ _ _ e he with h | h
      · left; right; exact h
      · right; exact ⟨h.1, by rw [h.2, Bool.and_false]⟩

theorem xt_levelChecksX_mem (X : SchemaX) (C : XCons) (o : VOpts) (cx : Cx) (D : XDocs) (na nc : Nat) (sibs : List DNode) (e : VErr)
    (he : e ∈ (levelChecksX X C o cx D na nc sibs).errs) :
    e ∈ (levelChecks X o cx sibs).errs ∨ (xt_mk e ∧ xpLvlOk X.base C o D na nc sibs = false) := by
  unfold levelChecksX at he
  rw [Out.append_errs, List.mem_append] at he
  unfold levelChecks
  rw [Out.append_errs, List.mem_append]
  rcases he with he | he
  · rcases xt_nodeChecksX_mem X.base C o cx D sibs [] na nc e he with h | h
    · exact Or.inl (Or.inl h)
    · exact Or.inr h
  · exact Or.inl (Or.inr he)

mutual
theorem xt_finalNodeX_mem (X : SchemaX) (C : XCons) (o : VOpts) (cx : Cx) (D : XDocs) :
    ∀ (n : DNode) (na nc : Nat) (before : List DNode) (e : VErr), e ∈ (finalNodeX X C o cx D na nc before n).2.errs →
      e ∈ (finalNode X o cx before n).2.errs ∨ (xt_mk e ∧ xpTreeOkN X.base C o D na nc n = false)
  | .inner s f m ks, na, nc, before, e, he => by
    unfold finalNodeX at he
    dsimp only at he
    rw [Out.append_errs, List.mem_append] at he
    unfold finalNode xpTreeOkN
    dsimp only
    rw [Out.append_errs, List.mem_append]
    rcases he with he | he
    · rcases xt_levelChecksX_mem X C o _ D _ _ ks e he with h | h
      · exact Or.inl (Or.inl h)
      · exact Or.inr ⟨h.1, by rw [h.2, Bool.false_and]⟩
    · rcases xt_finalKidsX_mem X C o _ D ks _ _ [] e he with h | h
      · exact Or.inl (Or.inr h)
      · exact Or.inr ⟨h.1, by rw [h.2, Bool.and_false]⟩
  | .term s f m v, na, nc, before, e, he => by
    unfold finalNodeX at he
    exact (xt_not_mem_empty he).elim
theorem xt_finalKidsX_mem (X : SchemaX) (C : XCons) (o : VOpts) (cx : Cx) (D : XDocs) :
    ∀ (ns : List DNode) (na nc : Nat) (before : List DNode) (e : VErr), e ∈ (finalKidsX X C o cx D na nc before ns).2.errs →
      e ∈ (finalKids X o cx before ns).2.errs ∨ (xt_mk e ∧ xpTreeOkL X.base C o D na nc ns = false)
  | [], _, _, _, e, he => by
    unfold finalKidsX at he
    exact (xt_not_mem_empty he).elim
  | n :: ns, na, nc, before, e, he => by
    unfold finalKidsX at he
    dsimp only at he
    rw [Out.append_errs, List.mem_append] at he
    unfold finalKids xpTreeOkL
    dsimp only
    rw [Out.append_errs, List.mem_append]
    rcases he with he | he
    · rcases xt_finalNodeX_mem X C o cx D n na nc before e he with h | h
      · exact Or.inl (Or.inl h)
      · exact Or.inr ⟨h.1, by rw [h.2, Bool.false_and]⟩
    · rcases xt_finalKidsX_mem X C o cx D ns _ _ _ e he with h | h
      · exact Or.inl (Or.inr h)
      · exact Or.inr ⟨h.1, by rw [h.2, Bool.and_false]⟩
end

/-- an error of `lyd_validate_final_r` with musts is one without them, or a must error and the traversal does not accept -/
theorem xt_finalRX_mem (X : SchemaX) (C : XCons) (o : VOpts) (cx : Cx) (T : List DNode) (e : VErr)
    (he : e ∈ (finalRX X C o cx T).2.errs) :
    e ∈ (finalR X o cx T).2.errs ∨ (xt_mk e ∧
      (xpLvlOk X.base C o (xdocsOf X.base T) 1 1 T && xpTreeOkL X.base C o (xdocsOf X.base T) 1 1 T) = false) := by
  unfold finalRX at he
  dsimp only at he
  rw [Out.append_errs, List.mem_append] at he
  unfold finalR
  dsimp only
  rw [Out.append_errs, List.mem_append]
  rcases he with he | he
  · rcases xt_levelChecksX_mem X C o cx _ 1 1 T e he with h | h
    · exact Or.inl (Or.inl h)
    · exact Or.inr ⟨h.1, by rw [h.2, Bool.false_and]⟩
  · rcases xt_finalKidsX_mem X C o cx _ T 1 1 [] e he with h | h
    · exact Or.inl (Or.inr h)
    · exact Or.inr ⟨h.1, by rw [h.2, Bool.and_false]⟩

/-! ## from the traversal to the clauses of the specification -/

theorem xt_mustViol_mem (q : Nat) (d : XPath.Doc) (num : Nat) (es : List Bytes) (h : mustsHold q d num es = false) :
    EKind.noMust ∈ mustViol q d num es := by
  unfold mustsHold at h
  obtain ⟨x, hx, hb⟩ := List.all_eq_false.1 h
  unfold mustViol
  rw [List.mem_filterMap]
  refine ⟨x, hx, ?_⟩
  cases hv : xpBoolD q d num x with
  | error u => rfl
  | ok b =>
    cases b with
    | true => rw [hv] at hb; exact absurd rfl hb
    | false => rfl

/-- the traversal does not accept: a must clause of the specification is violated (no hypothesis on state data) -/
theorem xt_trav_viol (X : SchemaX) (C : XCons) (o : VOpts) (T : List DNode) (hcc : cfgClosedL X.base true T = true)
    (h : (xpLvlOk X.base C o (xdocsOf X.base T) 1 1 T && xpTreeOkL X.base C o (xdocsOf X.base T) 1 1 T) = false) :
    EKind.noMust ∈ xpViolations X.base C T := by
  have hfun : nodeMustOk X.base C o (xdocsOf X.base T) = fun a b n =>
      cfgPred X.base (fun nc sid => mustsHold C.mask (docOf X.base (cfgL X.base T)) nc (C.mustsOf sid)) a b n &&
      (fun a (_ : Nat) (n : DNode) => X.base.config n.sid || o.noState || mustsHold C.mask (docOf X.base T) a (C.mustsOf n.sid)) a b n := by
    funext a b n
    unfold nodeMustOk cfgPred xdocsOf
    by_cases hc : X.base.config n.sid = true
    · simp [hc]
    · have hc' : X.base.config n.sid = false := by simpa using hc
      simp [hc']
  rw [trav_of_okL, hfun, travL_and, travL_cfg _ _ _ _ _ hcc,
    travL_all X.base (fun a n => X.base.config n.sid || o.noState || mustsHold C.mask (docOf X.base T) a (C.mustsOf n.sid)),
    Bool.and_eq_false_iff] at h
  unfold xpViolations
  rcases h with h | h
  · -- a configuration node
    obtain ⟨p, hp, hb⟩ := List.all_eq_false.1 h
    apply List.mem_append_left
    apply List.mem_append_left
    unfold xpMustCfg
    rw [List.mem_flatMap]
    exact ⟨p, hp, xt_mustViol_mem _ _ _ _ (by simpa using hb)⟩
  · -- a state node (and not under `LYD_VALIDATE_NO_STATE`)
    obtain ⟨p, hp, hb⟩ := List.all_eq_false.1 h
    simp only [Bool.or_eq_true, not_or, Bool.not_eq_true] at hb
    apply List.mem_append_left
    apply List.mem_append_right
    unfold xpMustState
    rw [List.mem_flatMap]
    refine ⟨p, hp, ?_⟩
    rw [hb.1.1]
    exact xt_mustViol_mem _ _ _ _ hb.2

mutual
theorem xt_lrefN_kind (S : Schema) (C : XCons) (d : XPath.Doc) : ∀ (n : DNode) (cx : Cx) (num : Nat) (before : List DNode),
    ∀ e ∈ lrefN S C cx d num before n, e.kind = .noReqInst
  | .inner s f m ks, cx, num, before => by
    rw [lrefN]
    exact xt_lrefL_kind S C d ks _ _ _
  | .term s f m v, cx, num, before => by
    rw [lrefN]
    intro e he
    cases hl : C.lrefOf s with
    | none => rw [hl] at he; cases he
    | some p =>
      rw [hl] at he
      dsimp only at he
      split at he
      · cases he
      · rw [List.mem_singleton] at he; rw [he]
theorem xt_lrefL_kind (S : Schema) (C : XCons) (d : XPath.Doc) : ∀ (l : List DNode) (cx : Cx) (num : Nat) (before : List DNode),
    ∀ e ∈ lrefL S C cx d num before l, e.kind = .noReqInst
  | [], _, _, _ => by rw [lrefL]; intro e he; cases he
  | n :: ns, cx, num, before => by
    rw [lrefL]
    intro e he
    rw [List.mem_append] at he
    rcases he with he | he
    · exact xt_lrefN_kind S C d n cx num before e he
    · exact xt_lrefL_kind S C d ns cx _ _ e he
end

theorem xt_lrefPhase_errs (X : SchemaX) (C : XCons) (cx : Cx) (T : List DNode) :
    (lrefPhase X C cx T).errs = (lrefL X.base C cx (docOf X.base T) 1 [] T).reverse := by
  unfold lrefPhase Out.errs
  simp only [List.filterMap_map, Function.comp_def]
  generalize (lrefL X.base C cx (docOf X.base T) 1 [] T).reverse = l
  induction l with
  | nil => rfl
  | cons x xs ih => rw [List.filterMap_cons]; simp only; rw [ih]

/-- an error of the leafref phase: `NoReqInst`, and the leafref clause of the specification is violated -/
theorem xt_lref_viol (X : SchemaX) (C : XCons) (cx : Cx) (T : List DNode) (e : VErr) (he : e ∈ (lrefPhase X C cx T).errs) :
    e.kind = .noReqInst ∧ EKind.noReqInst ∈ xpViolations X.base C T := by
  have hne : (lrefPhase X C cx T).errs ≠ [] := List.ne_nil_of_mem he
  rw [xt_lrefPhase_errs, List.mem_reverse] at he
  refine ⟨xt_lrefL_kind X.base C _ T cx 1 [] e he, ?_⟩
  have hall : ((numberL 1 T).all fun p => lrefGood C (docOf X.base T) p.1 p.2) = false := by
    cases hv : (numberL 1 T).all fun p => lrefGood C (docOf X.base T) p.1 p.2 with
    | false => rfl
    | true => exact absurd ((lrefPhase_errs X C cx T).2 hv) hne
  obtain ⟨p, hp, hb⟩ := List.all_eq_false.1 hall
  unfold xpViolations
  apply List.mem_append_right
  unfold xpLref
  rw [List.mem_filterMap]
  refine ⟨p, hp, ?_⟩
  unfold lrefGood at hb
  cases hl : C.lrefOf p.2.sid with
  | none => rw [hl] at hb; exact absurd rfl hb
  | some path =>
    rw [hl] at hb
    dsimp only at hb ⊢
    have : (p.2.isTerm && !lrefOk C.mask (docOf X.base T) p.1 p.2.val path) = true := by simpa using hb
    rw [if_pos this]

/-! ## the error-tag theorem for the XPath-dependent constraints -/

/-- **every error of `validateX` is an error of `validate`, or names a violated XPath-dependent constraint of the accessible tree**:
`NoMust` and `Other` (an expression that cannot be evaluated; the specification counts it as a violated must) only where a `must`
is violated, `NoReqInst` only where a leafref has no target instance -/
theorem validateX_error_tag (X : SchemaX) (C : XCons) (o : VOpts) (t : List DNode)
    (hwh : ∀ T, whenPhase X C o T = (T, {})) (hpe : (o.present && t.isEmpty) = false)
    (hacc : obsL X.base (validate X o t).tree = obsL X.base (rfcComplete X o t))
    (hcc : cfgClosedL X.base true (rfcComplete X o t) = true) :
    ∀ e ∈ (validateX X C o t).errs, e ∈ (validate X o t).errs ∨
      (e.kind = .noMust ∧ EKind.noMust ∈ xpViolations X.base C (rfcComplete X o t)) ∨
      (e.kind = .xpErr ∧ EKind.noMust ∈ xpViolations X.base C (rfcComplete X o t)) ∨
      (e.kind = .noReqInst ∧ EKind.noReqInst ∈ xpViolations X.base C (rfcComplete X o t)) := by
  intro e he
  have hX : (validateX X C o t).errs = ((validateNew X o {} t).2 ++ (implL X o {} X.top (validateNew X o {} t).1).2 ++
      (subtreeKids X o (walkFuel X t) {} [] (implL X o {} X.top (validateNew X o {} t).1).1).2 ++ ({} : Out) ++
      lrefPhase X C {} (preFinal X o t) ++ (finalRX X C o {} (preFinal X o t)).2).errs := by
    unfold validateX preFinal
    simp only [hpe, Bool.false_eq_true, if_false, hwh]
    rfl
  have hsh : shapeL (preFinal X o t) = shapeL (rfcComplete X o t) := by
    rw [← shapeL_finalR X o {} (preFinal X o t), ← validate_tree_preFinal X o t hpe]
    exact shape_of_obs X.base hacc
  have hcc' : cfgClosedL X.base true (preFinal X o t) = true := by rw [cfgClosedL_of_shape X.base hsh]; exact hcc
  rw [← xpViolations_of_shape X.base C hsh]
  rw [hX] at he
  rw [VResult_errs_eq X o t hpe]
  simp only [Out.append_errs, Out.empty_errs, List.append_nil, List.mem_append] at he ⊢
  rcases he with (((he | he) | he) | he) | he
  · exact Or.inl (Or.inl (Or.inl (Or.inl he)))
  · exact Or.inl (Or.inl (Or.inl (Or.inr he)))
  · exact Or.inl (Or.inl (Or.inr he))
  · have := xt_lref_viol X C {} _ e he
    exact Or.inr (Or.inr (Or.inr this))
  · rcases xt_finalRX_mem X C o {} _ e he with h | ⟨hk, hb⟩
    · exact Or.inl (Or.inr h)
    · have hv := xt_trav_viol X C o _ hcc' hb
      rcases hk with hk | hk
      · exact Or.inr (Or.inl ⟨hk, hv⟩)
      · exact Or.inr (Or.inr (Or.inl ⟨hk, hv⟩))

end LyModel.Valid
