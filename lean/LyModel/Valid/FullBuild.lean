import LyModel.Valid.FullLevel
/-!
# C02, full schema language: an instance the builders refuse (`buildL`) violates the specification (`badValue` / `noKey`)
-/
namespace LyModel.Valid
open LyModel LyModel.Tree

mutual
theorem bs_below_sheight : ∀ {k t : STree}, Below k t → sheight k ≤ sheight t
  | _, _, .self _ => Nat.le_refl _
  | _, _, .kid _ s i ks hb => by
    have := bs_belowL_sheight hb
    simp only [sheight]
    omega
theorem bs_belowL_sheight : ∀ {k : STree} {ts : List STree}, BelowL k ts → sheight k ≤ sheightL ts
  | _, _, .head _ t ts hb => by
    have := bs_below_sheight hb
    unfold sheightL
    exact Nat.le_trans this (Nat.le_max_left ..)
  | _, _, .tail _ t ts hb => by
    have := bs_belowL_sheight hb
    unfold sheightL
    exact Nat.le_trans this (Nat.le_max_right ..)
end

theorem isKind_of_info {S : Schema} {k : STree} (hi : InfoFacts S k) (kd : SKind) : S.isKind k.sid kd = (k.info.kind == kd) := by
  unfold Schema.isKind
  rw [hi.kind]
  cases hk : k.info.kind <;> cases kd <;> rfl

theorem build_sound (X : SchemaX) (o : VOpts) (hl : KidsLookupOk X) (hio : InfoOk X) (hs : FullSane X o) :
    ∀ (fuel : Nat) (sk : List STree) (ks : List DNode), sheightL sk ≤ fuel → (∀ k, BelowL k sk → BelowL k X.top) → LevelSane sk →
      goodL X sk ks = true → buildL X.base ks ≠ none →
      EKind.badValue ∈ specL X o sk (explicitL ks) ∨ EKind.noKey ∈ specL X o sk (explicitL ks) := by
  intro fuel
  induction fuel with
  | zero =>
    intro sk ks hh _ _ hg hb
    exfalso
    cases ks with
    | nil => exact hb rfl
    | cons n ns =>
      have := ((goodL_all X sk (n :: ns)).1 hg n (List.mem_cons_self ..)).1
      cases sk with
      | nil => simp [dataSidsL] at this
      | cons k sk' =>
        unfold sheightL at hh
        cases k with
        | mk s i kk => simp [sheight] at hh
  | succ f ih =>
    intro sk ks hh hsub hls hg hb
    have hfr : isFreshL ks = true := goodL_fresh X sk ks hg
    have hall := (goodL_all X sk ks).1 hg
    have hiosk : ∀ k, BelowL k sk → X.base.get? k.sid = some k.info := fun k hk => hio k (hsub k hk)
    -- the failing node
    have hex : ∃ n ∈ ks, buildNode X.base n ≠ none := by
      apply Classical.byContradiction
      intro hc
      apply hb
      rw [buildL_none_iff]
      intro n hn
      apply Classical.byContradiction
      intro hne
      exact hc ⟨n, hn, hne⟩
    obtain ⟨n, hn, hbn⟩ := hex
    obtain ⟨k, hr, hks, hi, hk1, hk2⟩ := reach_of_inst X sk ks hls.kinds hls.noCase hiosk hfr (fun n hn => (hall n hn).1) hn
    have hgn := (hall n hn).2
    have hmem : exN n ∈ instsOf (explicitL ks) k.sid := by
      rw [explicitL_fresh ks hfr, mem_instsOf]
      exact ⟨List.mem_map_of_mem hn, by rw [exN_sid, hks]⟩
    have hbn' := mt (buildNode_none_iff X.base n).2 hbn
    clear hbn
    cases k with
    | mk s i kk =>
    simp only [STree.sid] at hks hmem
    have hkl := isKind_of_info hi .leaf
    have hkll := isKind_of_info hi .leaflist
    have hklist := isKind_of_info hi .list
    simp only [STree.sid, STree.info] at hkl hkll hklist hk1 hk2
    cases n with
    | term ns nf nm nv =>
      simp only [DNode.sid] at hks
      have hks' := hks.symm
      subst hks'
      rw [goodN_term] at hgn
      have hty : typeOk i.ty nv = false := by
        have hte : X.base.ty ns = i.ty := hi.ty
        cases h : typeOk i.ty nv with
        | false => rfl
        | true =>
          exfalso
          apply hbn'
          refine ⟨fun _ => ?_, fun h' => (by cases h'), ?_⟩
          · show typeOk (X.base.ty ns) nv = true
            rw [hte]; exact h
          · show buildL X.base [] = none
            rw [buildL]
      left
      apply spec_lift_reach X o _ hr
      rcases hgn.2 with hk | hk
      · rw [hkl] at hk
        rw [specNode_leaf_mem X o _ _ (by simpa using hk)]
        right; right; right
        refine ⟨rfl, fun hall' => ?_⟩
        have := hall' _ hmem
        rw [exN_val] at this
        simp only [DNode.val] at this
        rw [hty] at this; cases this
      · rw [hkll] at hk
        rw [specNode_leaflist_mem X o _ _ (by simpa using hk)]
        right; right; right; right
        refine ⟨rfl, fun hall' => ?_⟩
        have := hall' _ hmem
        rw [exN_val] at this
        simp only [DNode.val] at this
        rw [hty] at this; cases this
    | inner ns nf nm nkids =>
      simp only [DNode.sid] at hks
      have hks' := hks.symm
      subst hks'
      rw [goodN_inner] at hgn
      obtain ⟨_, hnl, hnll, hnlen, hgk⟩ := hgn
      rw [hkl] at hnl
      rw [hkll] at hnll
      have hkb : BelowL (STree.mk ns i kk) X.top := hsub _ hr.belowL
      have hkids : X.kidsOf (some ns) = kk := hl _ hkb
      rw [hkids] at hgk
      have hlsk := (hs.data _ hkb hk1 hk2).1
      simp only [STree.kids] at hlsk
      have hh' : sheightL kk ≤ f := by
        have h1 := bs_belowL_sheight hr.belowL
        simp only [sheight] at h1
        omega
      have hsub' : ∀ k', BelowL k' kk → BelowL k' X.top := fun k' hk' => by
        have : Below k' (STree.mk ns i kk) := Below.kid _ _ _ _ hk'
        exact Below.trans' this hkb
      have hfrk : isFreshL nkids = true := goodL_fresh X kk nkids hgk
      -- the kind of `k`: container or list
      have hkind : i.kind = .container ∨ i.kind = .list := by
        cases hkd : i.kind with
        | leaf => rw [hkd] at hnl; cases hnl
        | leaflist => rw [hkd] at hnll; cases hnll
        | container => exact Or.inl rfl
        | list => exact Or.inr rfl
        | choice => exact absurd hkd hk1
        | case => exact absurd hkd hk2
      by_cases hkidsb : buildL X.base nkids = none
      · -- the keys of a list entry
        have hlist : X.base.isKind ns .list = true ∧ keysPresent X.base ns nkids = false := by
          by_cases h1 : X.base.isKind ns .list = true
          · refine ⟨h1, ?_⟩
            cases h2 : keysPresent X.base ns nkids with
            | false => rfl
            | true => exact absurd ⟨fun h' => (by cases h'), fun _ _ => h2, hkidsb⟩ hbn'
          · exact absurd ⟨fun h' => (by cases h'), fun _ h => absurd h h1, hkidsb⟩ hbn'
        rw [hklist] at hlist
        right
        apply spec_lift_reach X o _ hr
        rw [specNode_list_mem X o _ _ (by simpa using hlist.1)]
        right; left
        refine ⟨rfl, fun hall' => ?_⟩
        have := hall' _ hmem
        rw [keysPresent_exN X.base ns (DNode.inner ns nf nm nkids) hfrk] at this
        simp only [DNode.kids] at this
        rw [hlist.2] at this; cases this
      · -- below
        have hrec := ih kk nkids hh' hsub' hlsk hgk hkidsb
        have hlift : ∀ K, K ∈ specL X o kk (explicitL nkids) → K ∈ specL X o sk (explicitL ks) := by
          intro K hK
          apply spec_lift_reach X o _ hr
          rcases hkind with hc | hc
          · rw [specNode_container_mem X o _ _ hc]
            right; right; left
            exact ⟨_, hmem, by rw [exN_kids]; exact hK⟩
          · rw [specNode_list_mem X o _ _ hc]
            right; right; right; right; right; right
            exact ⟨_, hmem, by rw [exN_kids]; exact hK⟩
        rcases hrec with h | h
        · exact Or.inl (hlift _ h)
        · exact Or.inr (hlift _ h)

end LyModel.Valid
