import LyModel.Valid.FullImpl
import LyModel.Valid.LemmasIff
/-!
# C02, full schema language: the walk of `lyd_validate_subtree` and of `lyd_validate_final_r`, element by element
-/
namespace LyModel.Valid
open LyModel LyModel.Tree

/-! ## `walkList` -/

theorem walkList_res_mem (f : List DNode → DNode → DNode × Out) : ∀ (l before : List DNode) (x : DNode),
    x ∈ (walkList f before l).1 → ∃ a ∈ l, ∃ b, x = (f b a).1 := by
  intro l
  induction l with
  | nil => intro before x hx; simp [walkList] at hx
  | cons a as ih =>
    intro before x hx
    unfold walkList at hx
    dsimp only at hx
    rcases List.mem_cons.1 hx with h | h
    · exact ⟨a, List.mem_cons_self .., before, h⟩
    · obtain ⟨a', ha', b, hb⟩ := ih _ x h
      exact ⟨a', List.mem_cons_of_mem _ ha', b, hb⟩

theorem walkList_errs_mem (f : List DNode → DNode → DNode × Out) : ∀ (l before : List DNode) (e : VErr),
    e ∈ (walkList f before l).2.errs → ∃ a ∈ l, ∃ b, e ∈ (f b a).2.errs := by
  intro l
  induction l with
  | nil => intro before e he; simp [walkList] at he
  | cons a as ih =>
    intro before e he
    unfold walkList at he
    dsimp only at he
    rw [Out.append_errs, List.mem_append] at he
    rcases he with h | h
    · exact ⟨a, List.mem_cons_self .., before, h⟩
    · obtain ⟨a', ha', b, hb⟩ := ih _ e h
      exact ⟨a', List.mem_cons_of_mem _ ha', b, hb⟩

/-- every element is visited: its result is in the result list and its errors are among the errors -/
theorem walkList_elem (f : List DNode → DNode → DNode × Out) : ∀ (l before : List DNode) (a : DNode), a ∈ l →
    ∃ b, (f b a).1 ∈ (walkList f before l).1 ∧ ∀ e ∈ (f b a).2.errs, e ∈ (walkList f before l).2.errs := by
  intro l
  induction l with
  | nil => intro before a ha; cases ha
  | cons x xs ih =>
    intro before a ha
    unfold walkList
    dsimp only
    rcases List.mem_cons.1 ha with h | h
    · subst h
      exact ⟨before, List.mem_cons_self .., fun e he => by rw [Out.append_errs]; exact List.mem_append_left _ he⟩
    · obtain ⟨b, hb1, hb2⟩ := ih (before ++ [(f before x).1]) a h
      exact ⟨b, List.mem_cons_of_mem _ hb1, fun e he => by rw [Out.append_errs]; exact List.mem_append_right _ (hb2 e he)⟩

/-! ## `finalKids` -/

theorem finalKids_errs_mem (X : SchemaX) (o : VOpts) (cx : Cx) : ∀ (ns before : List DNode) (e : VErr),
    e ∈ (finalKids X o cx before ns).2.errs → ∃ n ∈ ns, ∃ b, e ∈ (finalNode X o cx b n).2.errs := by
  intro ns
  induction ns with
  | nil => intro before e he; simp [finalKids] at he
  | cons n ns ih =>
    intro before e he
    unfold finalKids at he
    dsimp only at he
    rw [Out.append_errs, List.mem_append] at he
    rcases he with h | h
    · exact ⟨n, List.mem_cons_self .., before, h⟩
    · obtain ⟨n', hn', b, hb⟩ := ih _ e h
      exact ⟨n', List.mem_cons_of_mem _ hn', b, hb⟩

theorem finalKids_elem (X : SchemaX) (o : VOpts) (cx : Cx) : ∀ (ns before : List DNode) (n : DNode), n ∈ ns →
    ∃ b, ∀ e ∈ (finalNode X o cx b n).2.errs, e ∈ (finalKids X o cx before ns).2.errs := by
  intro ns
  induction ns with
  | nil => intro before n hn; cases hn
  | cons x xs ih =>
    intro before n hn
    unfold finalKids
    dsimp only
    rcases List.mem_cons.1 hn with h | h
    · subst h
      exact ⟨before, fun e he => by rw [Out.append_errs]; exact List.mem_append_left _ he⟩
    · obtain ⟨b, hb⟩ := ih (before ++ [x]) n h
      exact ⟨b, fun e he => by rw [Out.append_errs]; exact List.mem_append_right _ (hb e he)⟩

/-! ## `subtreeNode` keeps the node itself -/

theorem subtreeNode_sid (X : SchemaX) (o : VOpts) (fuel : Nat) (cx : Cx) (b : List DNode) (n : DNode) :
    (subtreeNode X o fuel cx b n).1.sid = n.sid := by
  cases fuel with
  | zero => rfl
  | succ f => cases n <;> rfl

theorem subtreeNode_term (X : SchemaX) (o : VOpts) (fuel : Nat) (cx : Cx) (b : List DNode) (s : Nat) (f : Flags) (m : List Meta) (v : Bytes) :
    subtreeNode X o fuel cx b (.term s f m v) = (.term s f m v, {}) := by
  cases fuel <;> rfl

theorem finalNode_term (X : SchemaX) (o : VOpts) (cx : Cx) (b : List DNode) (s : Nat) (f : Flags) (m : List Meta) (v : Bytes) :
    finalNode X o cx b (.term s f m v) = (.term s f m v, {}) := by
  unfold finalNode; rfl

theorem hasInst_map_sid {f : DNode → DNode} (hf : ∀ n, (f n).sid = n.sid) (l : List DNode) (sid : Nat) :
    hasInst (l.map f) sid = hasInst l sid := by
  unfold hasInst
  induction l with
  | nil => rfl
  | cons x xs ih => simp only [List.map_cons, List.any_cons, hf, ih]

theorem instsOf_map_sid_length {f : DNode → DNode} (hf : ∀ n, (f n).sid = n.sid) (l : List DNode) (sid : Nat) :
    (instsOf (l.map f) sid).length = (instsOf l sid).length := by
  unfold instsOf
  induction l with
  | nil => rfl
  | cons x xs ih =>
    simp only [List.map_cons, List.filter_cons, hf]
    split <;> simp [ih]

/-- the result of the walk, related to its input element by element -/
theorem walkList_rel2_sid (X : SchemaX) (o : VOpts) (fuel : Nat) (cx : Cx) (l before : List DNode) :
    Rel2 (fun a b => b.sid = a.sid) l (walkList (subtreeNode X o fuel cx) before l).1 :=
  walkList_rel _ l before (fun b n _ => subtreeNode_sid X o fuel cx b n)

theorem rel2_hasInst {l l' : List DNode} (h : Rel2 (fun a b : DNode => b.sid = a.sid) l l') (sid : Nat) : hasInst l' sid = hasInst l sid := by
  induction h with
  | nil => rfl
  | cons hab _ ih => unfold hasInst at ih ⊢; simp only [List.any_cons, hab, ih]

theorem rel2_instsOf_length {l l' : List DNode} (h : Rel2 (fun a b : DNode => b.sid = a.sid) l l') (sid : Nat) :
    (instsOf l' sid).length = (instsOf l sid).length := by
  induction h with
  | nil => rfl
  | cons hab _ ih =>
    unfold instsOf at ih ⊢
    simp only [List.filter_cons, hab]
    split <;> simp [ih]

end LyModel.Valid
