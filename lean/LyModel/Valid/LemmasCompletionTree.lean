import LyModel.Valid.LemmasCompletionChoice
/-!
# Lemmas for C07 `implicit_exact_tree` WITH `choice` / `case`: the lifting over the depth (`validate_rfcComplete_choice`)
-/
namespace LyModel.Valid
open LyModel LyModel.Tree

/-- decidable `SelOk` (fuel: at least the number of schema nodes below the level) -/
def selOkB (H : Nat → Bool) : Nat → List STree → Bool
  | 0, _ => false
  | _ + 1, [] => true
  | f + 1, k :: ks =>
    (if k.info.kind == .choice then
      match selCase k.info k.kids H with
      | none => (dataSidsL k.kids).all (fun sid => !H sid)
      | some c => c.info.kind == .case && (dataSidsL k.kids).all (fun sid => !H sid || (dataSidsL c.kids).contains sid) && selOkB H f c.kids
     else k.info.kind != .case) && selOkB H f ks

theorem selOk_of_B (H : Nat → Bool) : ∀ (f : Nat) (ks : List STree), selOkB H f ks = true → SelOk H ks
  | 0, _, h => by simp [selOkB] at h
  | _ + 1, [], _ => SelOk.nil
  | f + 1, .mk s i cases :: ks, h => by
    rw [selOkB, Bool.and_eq_true] at h
    have hrest := selOk_of_B H f ks h.2
    by_cases hk : i.kind = .choice
    · have h1 := h.1
      simp only [STree.info, hk, beq_self_eq_true, if_true, STree.kids] at h1
      cases hs : selCase i cases H with
      | none =>
        rw [hs] at h1
        refine SelOk.none s i cases ks hk hs ?_ hrest
        intro sid hsid
        have := List.all_eq_true.1 h1 sid hsid
        simpa using this
      | some c =>
        rw [hs] at h1
        simp only [Bool.and_eq_true, beq_iff_eq] at h1
        refine SelOk.some s i cases ks c hk hs (selCase_mem hs) h1.1.1 ?_ (selOk_of_B H f c.kids h1.2) hrest
        intro sid hsid hh
        have := List.all_eq_true.1 h1.1.2 sid hsid
        simp only [hh, Bool.not_true, Bool.false_or] at this
        exact List.contains_iff_mem.1 this
    · have h1 := h.1
      have hk' : (i.kind == SKind.choice) = false := by simpa using hk
      simp only [STree.info, hk', Bool.false_eq_true, if_false, bne_iff_ne, ne_eq] at h1
      exact SelOk.data _ ks hk h1 hrest

mutual
/-- at every depth, the children of a node read well against the schema children of the node: at most one case of every choice
has data (`SelOk`) -/
def selOkN (X : SchemaX) : DNode → Prop
  | .inner s _ _ ks => SelOk (hasInst ks) (X.kidsOf (some s)) ∧ selOkL X ks
  | .term .. => True
def selOkL (X : SchemaX) : List DNode → Prop
  | [] => True
  | n :: ns => selOkN X n ∧ selOkL X ns
end

theorem selOkL_mem (X : SchemaX) : ∀ (l : List DNode), selOkL X l → ∀ n ∈ l, selOkN X n
  | [], _, n, hn => by cases hn
  | x :: xs, h, n, hn => by
    rw [selOkL] at h
    rcases List.mem_cons.1 hn with rfl | hn
    · exact h.1
    · exact selOkL_mem X xs h.2 n hn

/-- the schema: every data level well formed, every node found under its id, and an empty container reads well -/
structure ChoiceSchema (X : SchemaX) : Prop where
  top : LvlWf X X.top
  kids : ∀ k, BelowL k X.top → k.info.kind ≠ .choice → k.info.kind ≠ .case → LvlWf X k.kids
  lookup : ∀ k, BelowL k X.top → X.kidsOf (some k.sid) = k.kids
  node : ∀ k, BelowL k X.top → X.node? k.sid = some k
  empty : ∀ k, BelowL k X.top → k.info.kind = .container → SelOk (hasInst []) k.kids

mutual
theorem dataSids_below : ∀ (t : STree) (sid : Nat), sid ∈ t.dataSids → ∃ k, Below k t ∧ k.sid = sid ∧ k.info.kind ≠ .choice ∧ k.info.kind ≠ .case
  | .mk s i ks, sid, h => by
    rw [dataSids_mk] at h
    by_cases hc : (i.kind == .choice || i.kind == .case) = true
    · simp only [hc, if_true] at h
      obtain ⟨k, hk, h1, h2, h3⟩ := dataSidsL_below ks sid h
      exact ⟨k, Below.kid _ _ _ _ hk, h1, h2, h3⟩
    · simp only [hc, Bool.false_eq_true, if_false, List.mem_singleton] at h
      simp only [Bool.or_eq_true, beq_iff_eq, not_or] at hc
      exact ⟨.mk s i ks, Below.self _, h.symm, hc.1, hc.2⟩
theorem dataSidsL_below : ∀ (ts : List STree) (sid : Nat), sid ∈ dataSidsL ts → ∃ k, BelowL k ts ∧ k.sid = sid ∧ k.info.kind ≠ .choice ∧ k.info.kind ≠ .case
  | [], sid, h => by rw [dataSidsL_nil] at h; cases h
  | t :: ts, sid, h => by
    rw [dataSidsL_cons] at h
    rcases List.mem_append.1 h with h | h
    · obtain ⟨k, hk, r⟩ := dataSids_below t sid h
      exact ⟨k, BelowL.head _ _ _ hk, r⟩
    · obtain ⟨k, hk, r⟩ := dataSidsL_below ts sid h
      exact ⟨k, BelowL.tail _ _ _ hk, r⟩
end

mutual
theorem cBelow_sheight : ∀ {k t : STree}, Below k t → sheight k ≤ sheight t
  | _, _, .self _ => Nat.le_refl _
  | _, _, .kid _ s i ks h => by
    have := cBelowL_sheight h
    simp only [sheight]; omega
theorem cBelowL_sheight : ∀ {k : STree} {ts : List STree}, BelowL k ts → sheight k ≤ sheightL ts
  | _, _, .head _ t ts h => by
    have := cBelow_sheight h
    have : sheight t ≤ sheightL (t :: ts) := by simp only [sheightL]; exact Nat.le_max_left ..
    omega
  | _, _, .tail _ t ts h => by
    have := cBelowL_sheight h
    have : sheightL ts ≤ sheightL (t :: ts) := by simp only [sheightL]; exact Nat.le_max_right ..
    omega
end

theorem mem_replay (S : Schema) : ∀ (es : List Ev) (sibs : List DNode) (n : DNode), n ∈ replay S sibs es → n ∈ sibs ∨ ∃ e ∈ es, n = e.node
  | [], _, _, h => Or.inl h
  | e :: es, sibs, n, h => by
    rcases mem_replay S es (insertNode S sibs e.node) n h with h' | ⟨e', he', h'⟩
    · rcases (mem_insertNode S sibs e.node n).1 h' with rfl | h''
      · exact Or.inr ⟨e, List.mem_cons_self .., rfl⟩
      · exact Or.inl h''
    · exact Or.inr ⟨e', List.mem_cons_of_mem _ he', h'⟩

theorem walkList_obs (S : Schema) (f : List DNode → DNode → DNode × Out) (h : DNode → DNode) :
    ∀ (M before : List DNode), (∀ n ∈ M, ∀ before, obsN S (f before n).1 = obsN S (h n)) →
      obsL S (walkList f before M).1 = obsL S (M.map h)
  | [], _, _ => rfl
  | n :: ns, before, hh => by
    rw [walkList]
    dsimp only
    rw [List.map_cons, obsL, obsL, hh n (List.mem_cons_self ..) before,
      walkList_obs S f h ns _ (fun k hk => hh k (List.mem_cons_of_mem _ hk))]

/-- what the walk needs of a data node -/
structure NodeHypC (X : SchemaX) (n : DNode) : Prop where
  fresh : freshExplL n.kids = true
  placed : placedCN X n = true
  shaped : cShapedN X.base n = true
  sel : selOkN X n

end LyModel.Valid

namespace LyModel.Valid
open LyModel LyModel.Tree

mutual
theorem find?_sid' : ∀ (t : STree) (x : Nat) (r : STree), t.find? x = some r → r.sid = x
  | .mk s i ks, x, r, h => by
    unfold STree.find? at h
    split at h
    · rename_i hs
      injection h with h; subst h
      simpa [STree.sid] using hs
    · exact findL?_sid' ks x r h
theorem findL?_sid' : ∀ (ts : List STree) (x : Nat) (r : STree), findL? ts x = some r → r.sid = x
  | [], _, _, h => by simp [findL?] at h
  | t :: ts, x, r, h => by
    unfold findL? at h
    split at h
    · rename_i r' hr
      injection h with h; subst h
      exact find?_sid' t x _ hr
    · exact findL?_sid' ts x r h
end

theorem hasInst_map_normNew (l : List DNode) : hasInst (l.map normNew) = hasInst l := by
  funext sid; exact hasInst_map normNew normNew_keeps l sid

theorem obsN_deepX_nil (X : SchemaX) (o : VOpts) (k : STree) (n : DNode) (hk : X.node? n.sid = some k) (h : k.kids = []) :
    obsN X.base (deepX X o n) = obsN X.base n := by
  unfold deepX; rw [hk]; exact obsN_deepK_nil X o k n h

/-- the nodes of a completed fresh level: a child of the node (without `LYD_NEW`) or a created default node; each with what the walk
needs, and with its schema node -/
theorem level_nodes (X : SchemaX) (o : VOpts) (cx : Cx) (hD : ChoiceSchema X) (hq : X.q.implicitInnerCase = false)
    (ks : List STree) (hw : LvlWf X ks) (hb : ∀ k, BelowL k ks → BelowL k X.top) (kids : List DNode)
    (hfresh : freshExplL kids = true) (hpl : placedCL X ks kids = true) (hsh : cShapedL X.base kids = true) (hsel : selOkL X kids) :
    ∀ c ∈ (implL X o cx ks (kids.map normNew)).1,
      NodeHypC X c ∧ c.sid ∈ dataSidsL ks ∧ ∃ k', BelowL k' ks ∧ X.node? c.sid = some k' ∧ k'.info.kind ≠ .choice ∧ k'.info.kind ≠ .case := by
  intro c hc
  obtain ⟨_, hkids⟩ := freshLevel_of kids hfresh
  have tr := implL_tr X o cx ks (kids.map normNew) hw.ok
  rw [tr.tree] at hc
  rcases mem_replay X.base _ _ c hc with hc' | ⟨e, he, rfl⟩
  · obtain ⟨z, hz, rfl⟩ := List.mem_map.1 hc'
    obtain ⟨hin, hpz⟩ := (placedCL_all X ks kids).1 hpl z hz
    obtain ⟨k', hk', hs', h1, h2⟩ := dataSidsL_below ks z.sid hin
    have hzk : (normNew z).kids = z.kids := normNew_kids z
    refine ⟨⟨by rw [hzk]; exact hkids z hz, ?_, ?_, ?_⟩, by rw [normNew_sid]; exact hin, k', hk', ?_, h1, h2⟩
    · unfold normNew; split
      · cases z <;> exact hpz
      · exact hpz
    · have := cShapedL_mem X.base kids hsh z hz
      unfold normNew; split
      · cases z <;> exact this
      · exact this
    · have := selOkL_mem X kids hsel z hz
      unfold normNew; split
      · cases z <;> exact this
      · exact this
    · rw [normNew_sid, ← hs']; exact hD.node k' (hb k' hk')
  · obtain ⟨k', hk', _, _, h3, h4, h5, _, h7⟩ := implL_below X o cx ks _ e he
    have hkt := hb k' hk'
    have hget := (hw.ok k' hk').1
    -- a created node: its schema node is a data node of the level
    have hsid : e.node.sid ∈ dataSidsL ks := by
      rcases implL_mem_sid X o cx hq ks hw (kids.map normNew) e.node (by rw [tr.tree]; exact hc) with h' | h'
      · -- an instance was there: then it is a placed child
        simp only [hasInst, List.any_eq_true, beq_iff_eq] at h'
        obtain ⟨y, hy, hys⟩ := h'
        obtain ⟨z, hz, rfl⟩ := List.mem_map.1 hy
        rw [← hys, normNew_sid]
        exact ((placedCL_all X ks kids).1 hpl z hz).1
      · exact h'
    obtain ⟨k'', hk'', hs'', h1, h2⟩ := dataSidsL_below ks e.node.sid hsid
    have hnode : X.node? e.node.sid = some k'' := by rw [← hs'']; exact hD.node k'' (hb k'' hk'')
    have hkk : k'' = k' := by
      have := hD.node k' hkt
      rw [← h3, hnode] at this
      exact Option.some.inj this
    subst hkk
    refine ⟨?_, hsid, k'', hk'', hnode, h1, h2⟩
    cases hn : e.node with
    | term s f m v => exact ⟨rfl, rfl, rfl, trivial⟩
    | inner s f m kk =>
      rw [hn] at h3 h4 h5 h7
      simp only [DNode.kids] at h5
      simp only [DNode.sid] at h3
      subst h5
      have hnp := h7 rfl
      have hkc : k''.info.kind = .container := by
        simp only [STree.isNpCont, Bool.and_eq_true, beq_iff_eq] at hnp; exact hnp.1
      refine ⟨rfl, by simp [placedCN, placedCL], ?_, ?_⟩
      · simp [cShapedN, cShapedL, Schema.isKind, Schema.kind?, h3, hget, hkc]
      · refine ⟨?_, trivial⟩
        rw [h3, hD.lookup k'' hkt]
        exact hD.empty k'' hkt hkc

/-- **the subtree walk on fresh data completes every node the way RFC 7950 says — schemas with `choice` / `case`** -/
theorem subtreeNode_rfcC (X : SchemaX) (o : VOpts) (hno : o.noState = false) (hq : X.q.implicitInnerCase = false) (hD : ChoiceSchema X) :
    ∀ (fuel : Nat) (n : DNode) (k : STree) (cx : Cx) (before : List DNode), BelowL k X.top → X.node? n.sid = some k →
      k.info.kind ≠ .choice → k.info.kind ≠ .case → NodeHypC X n → sheightL k.kids ≤ fuel →
      obsN X.base (subtreeNode X o fuel cx before n).1 = obsN X.base (deepX X o n)
  | 0, n, k, _, _, _, hk, _, _, _, hh => by
    simp only [subtreeNode]
    rw [obsN_deepX_nil X o k n hk (sheightL_zero k.kids (by omega))]
  | fuel + 1, .term s f m v, k, cx, before, _, hk, _, _, _, _ => by
    unfold deepX; rw [hk, deepK_term]
    simp only [subtreeNode]
  | fuel + 1, .inner s f m kids, k, cx, before, hb, hk, hk1, hk2, hn, hh => by
    rw [subtreeNode]
    dsimp only
    have hs : s = k.sid := by
      have := hD.node k hb
      -- the node found under `s` is `k`, whose id is `s`
      have h2 : X.node? s = some k := hk
      exact (node_sid X s k h2).symm
    have hfresh : freshExplL kids = true := hn.fresh
    obtain ⟨hlev, hkids⟩ := freshLevel_of kids hfresh
    obtain ⟨n1, _⟩ := validateNew_freshLevel X o (cx.descend X.base before (.inner s f m kids)) kids hlev
    have hw := hD.kids k hb hk1 hk2
    have hlook : X.kidsOf (some s) = k.kids := by rw [hs]; exact hD.lookup k hb
    have hget : X.base.get? k.sid = some k.info := (hD.top.ok k hb).1
    have hplaced : placedCL X k.kids kids = true := by
      have := hn.placed; simp only [placedCN] at this; rw [hlook] at this; exact this
    have hshaped := hn.shaped
    simp only [cShapedN, Bool.and_eq_true] at hshaped
    have hsel := hn.sel
    rw [selOkN, hlook] at hsel
    have hbk : ∀ k', BelowL k' k.kids → BelowL k' X.top := fun k' hk' => belowL_trans hb (by cases k with | mk s' i' ks' => exact Below.kid _ _ _ _ hk')
    rw [hlook, n1]
    have hnodes := level_nodes X o (cx.descend X.base before (.inner s f m kids)).keysOld hD hq k.kids hw hbk kids hfresh hplaced hshaped.2 hsel.2
    have hwalk := walkList_obs X.base (subtreeNode X o fuel (cx.descend X.base before (.inner s f m kids)).keysOld) (deepX X o)
      (implL X o (cx.descend X.base before (.inner s f m kids)).keysOld k.kids (kids.map normNew)).1 [] (by
        intro c hc bf
        obtain ⟨hyp, _, k', hk', hnode, h1, h2⟩ := hnodes c hc
        have hfu : sheightL k'.kids ≤ fuel := by
          have a := cBelowL_sheight hk'
          have b := sheight_kids k'
          omega
        exact subtreeNode_rfcC X o hno hq hD fuel c k' _ bf (hbk k' hk') hnode h1 h2 hyp hfu)
    have hG : (implL X o (cx.descend X.base before (.inner s f m kids)).keysOld k.kids (kids.map normNew)).1.map (deepX X o) =
        (implL X o (cx.descend X.base before (.inner s f m kids)).keysOld k.kids (kids.map normNew)).1.map (deepG X o k.kids) := by
      apply List.map_congr_left
      intro c hc
      rw [deepG_in X o k.kids c (hnodes c hc).2.1]
    have hsel' : SelOk (hasInst (kids.map normNew)) k.kids := by rw [hasInst_map_normNew]; exact hsel.1
    have hr : obsL X.base ((implL X o (cx.descend X.base before (.inner s f m kids)).keysOld k.kids (kids.map normNew)).1.map (deepG X o k.kids)) =
        obsL X.base (rfcL X o k.kids kids) := by
      rw [← rfcL_eq_implL X o _ hno hq hsel' hw (fun k' hk' => hD.node k' (hbk k' hk')) (kids.map normNew) (fun _ _ => rfl)]
      exact rfcL_obs X o k.kids _ _ (obsL_map_normNew X.base kids)
    have hkind : k.info.kind = .container ∨ k.info.kind = .list := by
      have := hshaped.1
      simp only [Schema.isKind, Schema.kind?, hs, hget, Option.map_some, Bool.or_eq_true, beq_iff_eq, Option.some.injEq] at this
      exact this
    have hdx : deepX X o (.inner s f m kids) = deepK X o k (.inner s f m kids) := by unfold deepX; rw [hk]
    rw [hdx]
    rcases hkind with hc | hc
    · simp only [deepK, hc, DNode.setKids, DNode.kids]
      rw [obsN_npSet]
      simp only [obsN, hwalk, hG, hr]
    · simp only [deepK, hc, DNode.setKids, DNode.kids]
      simp only [obsN, hwalk, hG, hr]
where
  node_sid (X : SchemaX) (s : Nat) (k : STree) (h : X.node? s = some k) : k.sid = s := by
    exact findL?_sid' X.top s k h

end LyModel.Valid

namespace LyModel.Valid
open LyModel LyModel.Tree

/-- **`implicit_exact_tree` WITH `choice` / `case`**: the validated tree of fresh data = `rfcComplete` of the input -/
theorem validate_rfcComplete_choice (X : SchemaX) (o : VOpts) (t : List DNode) (hno : o.noState = false)
    (hq : X.q.implicitInnerCase = false) (hD : ChoiceSchema X)
    (hf : freshExplL t = true) (hp : placedCL X X.top t = true) (hs : cShapedL X.base t = true)
    (hsel : SelOk (hasInst t) X.top ∧ selOkL X t)
    (hh : sheightL X.top ≤ walkFuel X t) (hpe : (o.present && t.isEmpty) = false) :
    obsL X.base (validate X o t).tree = obsL X.base (rfcComplete X o t) := by
  obtain ⟨htree, _⟩ := validate_evs_eq X o t hpe
  obtain ⟨hlev, _⟩ := freshLevel_of t hf
  obtain ⟨n1, _⟩ := validateNew_freshLevel X o {} t hlev
  rw [htree, finalR_obs]
  unfold subtreeKids
  rw [n1]
  have hnodes := level_nodes X o {} hD hq X.top hD.top (fun _ h => h) t hf hp hs hsel.2
  rw [walkList_obs X.base (subtreeNode X o (walkFuel X t) {}) (deepX X o) (implL X o {} X.top (t.map normNew)).1 [] (by
    intro c hc bf
    obtain ⟨hyp, _, k', hk', hnode, h1, h2⟩ := hnodes c hc
    have hfu : sheightL k'.kids ≤ walkFuel X t := by
      have a := cBelowL_sheight hk'
      have b := sheight_kids k'
      omega
    exact subtreeNode_rfcC X o hno hq hD _ c k' _ bf hk' hnode h1 h2 hyp hfu)]
  have hG : (implL X o {} X.top (t.map normNew)).1.map (deepX X o) = (implL X o {} X.top (t.map normNew)).1.map (deepG X o X.top) := by
    apply List.map_congr_left
    intro c hc
    rw [deepG_in X o X.top c (hnodes c hc).2.1]
  have hsel' : SelOk (hasInst (t.map normNew)) X.top := by rw [hasInst_map_normNew]; exact hsel.1
  rw [hG, ← rfcL_eq_implL X o {} hno hq hsel' hD.top (fun k' hk' => hD.node k' hk') (t.map normNew) (fun _ _ => rfl)]
  unfold rfcComplete
  apply rfcL_obs
  rw [obsL_map_normNew, obsL_explicitL_fresh X.base t hf]

/-! ## decidable hypotheses -/

def lvlWfB (X : SchemaX) (ks : List STree) : Bool :=
  kindsOkL ks && decide (dataSidsL ks).Nodup &&
    allBelowL (fun k => decide (X.base.get? k.sid = some k.info) && decide k.info.dflts.Nodup) ks

theorem lvlWf_of_B (X : SchemaX) (ks : List STree) (h : lvlWfB X ks = true) : LvlWf X ks := by
  unfold lvlWfB at h
  simp only [Bool.and_eq_true, decide_eq_true_eq] at h
  refine ⟨h.1.1, h.1.2, ?_⟩
  intro k hk
  have := allBelowL_spec _ hk h.2
  simpa [NodeOk] using this

def choiceSchemaB (X : SchemaX) : Bool :=
  lvlWfB X X.top && allBelowL (fun k =>
    (k.info.kind == .choice || k.info.kind == .case || lvlWfB X k.kids) && steqL (X.kidsOf (some k.sid)) k.kids &&
    (match X.node? k.sid with | some k' => steq k' k | none => false) &&
    (k.info.kind != .container || selOkB (hasInst []) (2 * X.base.nodes.length + 2) k.kids)) X.top

theorem choiceSchema_of_B (X : SchemaX) (h : choiceSchemaB X = true) : ChoiceSchema X := by
  unfold choiceSchemaB at h
  simp only [Bool.and_eq_true] at h
  refine ⟨lvlWf_of_B X _ h.1, ?_, ?_, ?_, ?_⟩
  · intro k hk h1 h2
    have := allBelowL_spec _ hk h.2
    simp only [Bool.and_eq_true, Bool.or_eq_true, beq_iff_eq] at this
    rcases this.1.1.1 with (e | e) | e
    · exact absurd e h1
    · exact absurd e h2
    · exact lvlWf_of_B X _ e
  · intro k hk
    have := allBelowL_spec _ hk h.2
    simp only [Bool.and_eq_true] at this
    exact steqL_eq _ _ this.1.1.2
  · intro k hk
    have := allBelowL_spec _ hk h.2
    simp only [Bool.and_eq_true] at this
    have h3 := this.1.2
    cases hn : X.node? k.sid with
    | none => rw [hn] at h3; cases h3
    | some k' => rw [hn] at h3; rw [steq_eq k' k h3]
  · intro k hk hc
    have := allBelowL_spec _ hk h.2
    simp only [Bool.and_eq_true, Bool.or_eq_true, bne_iff_ne, ne_eq] at this
    rcases this.2 with e | e
    · exact absurd hc e
    · exact selOk_of_B _ _ _ e

mutual
def selOkDataN (X : SchemaX) (fuel : Nat) : DNode → Bool
  | .inner s _ _ ks => selOkB (hasInst ks) fuel (X.kidsOf (some s)) && selOkDataL X fuel ks
  | .term .. => true
def selOkDataL (X : SchemaX) (fuel : Nat) : List DNode → Bool
  | [] => true
  | n :: ns => selOkDataN X fuel n && selOkDataL X fuel ns
end

mutual
theorem selOkN_of_B (X : SchemaX) (fuel : Nat) : ∀ (n : DNode), selOkDataN X fuel n = true → selOkN X n
  | .term .., _ => trivial
  | .inner s f m ks, h => by
    rw [selOkDataN, Bool.and_eq_true] at h
    exact ⟨selOk_of_B _ _ _ h.1, selOkL_of_B X fuel ks h.2⟩
theorem selOkL_of_B (X : SchemaX) (fuel : Nat) : ∀ (l : List DNode), selOkDataL X fuel l = true → selOkL X l
  | [], _ => trivial
  | n :: ns, h => by
    rw [selOkDataL, Bool.and_eq_true] at h
    exact ⟨selOkN_of_B X fuel n h.1, selOkL_of_B X fuel ns h.2⟩
end

/-- all data hypotheses of `validate_rfcComplete_choice` as one Boolean -/
def choiceDataB (X : SchemaX) (t : List DNode) : Bool :=
  let fuel := 2 * X.base.nodes.length + 2
  freshExplL t && placedCL X X.top t && cShapedL X.base t && selOkB (hasInst t) fuel X.top && selOkDataL X fuel t &&
    decide (sheightL X.top ≤ walkFuel X t)

end LyModel.Valid

namespace LyModel.Valid
open LyModel LyModel.Tree

mutual
theorem dnode_beq_eq : ∀ (a b : DNode), a.beq b = true → a = b
  | .term s f m v, .term s' f' m' v', h => by
    simp only [DNode.beq, Bool.and_eq_true, beq_iff_eq] at h
    obtain ⟨⟨⟨h1, h2⟩, h3⟩, h4⟩ := h
    subst h1; subst h2; subst h3; subst h4; rfl
  | .inner s f m k, .inner s' f' m' k', h => by
    simp only [DNode.beq, Bool.and_eq_true, beq_iff_eq] at h
    obtain ⟨⟨⟨h1, h2⟩, h3⟩, h4⟩ := h
    subst h1; subst h2; subst h3
    rw [beqL_eq k k' h4]
  | .term .., .inner .., h => by simp [DNode.beq] at h
  | .inner .., .term .., h => by simp [DNode.beq] at h
theorem beqL_eq : ∀ (a b : List DNode), beqL a b = true → a = b
  | [], [], _ => rfl
  | x :: xs, y :: ys, h => by
    simp only [beqL, Bool.and_eq_true] at h
    rw [dnode_beq_eq x y h.1, beqL_eq xs ys h.2]
  | [], _ :: _, h => by simp [beqL] at h
  | _ :: _, [], h => by simp [beqL] at h
end

end LyModel.Valid
