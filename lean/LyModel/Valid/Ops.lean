import LyModel.Valid.Spec
import LyModel.Generated.OpsFacts
/-!
# Operation content: rpc / action input, output (reply) and notification content

RFC 7950 §7.21.1: inside an rpc / action `input` / `output` and inside a `notification` the `config` statement is ignored.  The
constraints on the data of such a subtree are therefore those of the same data definitions with no node being configuration —
the **all-state variant** `stateVariant` of the schema — read without `LYD_VALIDATE_NO_STATE` (that option is about datastore
content and is never applied to operation data: `lyd_validate_op` passes `val_opts = 0`).

What that rests on in the C source is read by `tools/extractors/ops.py` into `LyModel.Generated.OpsFacts`:
* `opConfigIgnored`           `lys_compile_config` clears both config flags under `LYS_COMPILE_NO_CONFIG`, which the compilation of
                              input / output / notification sets;
* `opLeafListDupAllowed`      `lysc_is_dup_inst_list` holds for a leaf-list without `LYS_CONFIG_W` — so for one with neither flag;
* `replyOutputNewValidated`   `_lyd_validate_op` runs `lyd_validate_new` on the output siblings of a reply (F193 when not).
`opsValidate` is the model of what the code does given these facts (`OpFacts.current` = the source tree the check runs against);
the specification is `violations (stateVariant X) {}`.  With all three facts true the two are `validate` and `Valid` of the
variant, which the C02 theorems relate (`LyModel/Props/C02.lean`, `ops_*`).
Core Lean only.
-/
namespace LyModel.Valid
open LyModel LyModel.Tree

/-- the statement fields of a schema node with `config` recomputed by `c` -/
def setConfig (c : SNode → Bool) (i : SNode) : SNode := { i with config := c i }

mutual
def STree.mapConfig (c : SNode → Bool) : STree → STree
  | .mk s i ks => .mk s (setConfig c i) (mapConfigL c ks)
def mapConfigL (c : SNode → Bool) : List STree → List STree
  | [] => []
  | t :: ts => t.mapConfig c :: mapConfigL c ts
end

def mapConfigS (c : SNode → Bool) (S : Schema) : Schema := { S with nodes := S.nodes.map (setConfig c) }

/-- the schema with the `config` of every node recomputed by `c`, in the flat table and in the tree view; nothing else changes -/
def SchemaX.mapConfig (c : SNode → Bool) (X : SchemaX) : SchemaX :=
  { X with base := mapConfigS c X.base, top := mapConfigL c X.top }

/-- **the all-state variant**: every node `config false`, everything else as it is (names, kinds, keys, types, bounds, defaults,
`unique`, the code variant).  The `userord` column keeps the schema's value: the effective ordering inside an operation (input:
as stated; output / notification: always user-ordered) is no constraint of the specification. -/
def stateVariant (X : SchemaX) : SchemaX := X.mapConfig (fun _ => false)

/-- every leaf-list configuration, every other node state: what the constraints of operation content amount to in a source tree
where a leaf-list without a config flag may NOT repeat a value (`opLeafListDupAllowed = false`) -/
def strictLeafListVariant (X : SchemaX) : SchemaX := X.mapConfig (fun i => i.kind == .leaflist)

mutual
def STree.allState : STree → Bool
  | .mk _ i ks => !i.config && allStateL ks
def allStateL : List STree → Bool
  | [] => true
  | t :: ts => t.allState && allStateL ts
end

/-- no node of the schema is configuration (tree view and flat table) -/
def SchemaX.allState (X : SchemaX) : Bool := allStateL X.top && X.base.nodes.all (fun n => !n.config)

/-! ## the facts of the source and the model of `lyd_validate_op` -/

structure OpFacts where
  leafListDupAllowed : Bool
  configIgnored : Bool
  replyOutputNewValidated : Bool
  deriving Repr, BEq, DecidableEq, Inhabited

/-- what `tools/extractors/ops.py` found in the source tree the check runs against -/
def OpFacts.current : OpFacts :=
  { leafListDupAllowed := Generated.opLeafListDupAllowed, configIgnored := Generated.opConfigIgnored,
    replyOutputNewValidated := Generated.replyOutputNewValidated }

/-- what RFC 7950 asks for -/
def OpFacts.rfc : OpFacts := { leafListDupAllowed := true, configIgnored := true, replyOutputNewValidated := true }

inductive Route where
  | input | output | notif
  deriving Repr, BEq, DecidableEq, Inhabited

def Route.name : Route → String
  | .input => "in" | .output => "out" | .notif => "notif"

/-- the schema whose datastore constraints the code enforces on the content of an operation: config flags honoured when the
compiler does not clear them; otherwise no node is configuration, except that leaf-lists are treated like configuration ones by
`lyd_validate_duplicates` when `lysc_is_dup_inst_list` asks for `LYS_CONFIG_R` -/
def opSchema (F : OpFacts) (X : SchemaX) : SchemaX :=
  if F.configIgnored then
    if F.leafListDupAllowed then stateVariant X else strictLeafListVariant X
  else X

/-- `_lyd_validate_op` on a reply in the code without the repair of F193: `lyd_new_implicit` on the output siblings,
`lyd_validate_subtree` on each of them, `lyd_validate_final_r` — no `lyd_validate_new` on the output siblings themselves (their
children get it from `lyd_validate_subtree`) -/
def validateNoTopNew (X : SchemaX) (o : VOpts) (t : List DNode) : VResult :=
  let cx : Cx := {}
  let r2 := implL X o cx X.top t
  let r3 := subtreeKids X o (walkFuel X t) cx [] r2.1
  let r4 := finalR X o cx r3.1
  let out := r2.2 ++ r3.2 ++ r4.2
  { tree := r4.1, log := out.items }

/-- `lyd_validate_op(op, NULL, LYD_TYPE_RPC_YANG | LYD_TYPE_REPLY_YANG | LYD_TYPE_NOTIF_YANG, …)` on the content of the operation
node (`val_opts = 0`): rpc / notification — `lyd_validate_subtree(op_node)` + `lyd_validate_final_r(children)`, which for the
children of the operation node is the sequence `validate` models for the top level of a module; reply — the same steps spelled
out in `_lyd_validate_op`. -/
def opsValidate (F : OpFacts) (r : Route) (X : SchemaX) (t : List DNode) : VResult :=
  match r with
  | .output => if F.replyOutputNewValidated then validate (opSchema F X) {} t else validateNoTopNew (opSchema F X) {} t
  | _ => validate (opSchema F X) {} t

/-- **the specification of operation content**: the RFC 7950 constraints of the all-state variant, no option -/
def opsViolations (X : SchemaX) (t : List DNode) : List EKind := violations (stateVariant X) {} t

/-! ## DSL printer (inverse of `Tree.parseSNode`), for comparing the variant with the one the generator computes -/

def b01 (b : Bool) : String := if b then "1" else "0"

def tyDsl : BaseTy → String
  | .string => "string" | .int8 => "int8" | .uint8 => "uint8" | .int32 => "int32" | .boolean => "boolean" | .empty => "empty"
  | .enumeration items => "enum:" ++ ",".intercalate (items.map fun it => it.1 ++ "=" ++ toString it.2)

def snodeDsl (n : SNode) : String :=
  let h := toString n.depth ++ " "
  match n.kind with
  | .container => h ++ "container " ++ n.name ++ " " ++ b01 n.presence ++ " " ++ b01 n.config
  | .list => h ++ "list " ++ n.name ++ " " ++ toString n.nkeys ++ " " ++ b01 n.userord ++ " " ++ toString n.min ++ " " ++ toString n.max
      ++ " " ++ b01 n.config
  | .leaflist => h ++ "leaflist " ++ n.name ++ " " ++ tyDsl n.ty ++ " " ++ b01 n.userord ++ " " ++ toString n.min ++ " " ++ toString n.max
      ++ " " ++ b01 n.config ++ String.join (n.dflts.map fun d => " " ++ Hex.enc d)
  | .leaf => h ++ "leaf " ++ n.name ++ " " ++ tyDsl n.ty ++ " " ++ b01 n.mandatory ++ " " ++ b01 n.config ++ " " ++ b01 n.iskey ++ " "
      ++ (match n.dflts with | d :: _ => Hex.enc d | [] => "~")
  | .choice => h ++ "choice " ++ n.name ++ " " ++ b01 n.mandatory ++ " " ++ b01 n.config ++ " " ++ (n.dfltCase.getD "~")
  | .case => h ++ "case " ++ n.name ++ " " ++ b01 n.config

def schemaDsl (S : Schema) : String := "\n".intercalate (("module " ++ S.modName) :: S.nodes.map snodeDsl)

mutual
/-- the tree view flattened back into table rows (pre-order) -/
def STree.flat : STree → List (Nat × SNode)
  | .mk s i ks => (s, i) :: flatL ks
def flatL : List STree → List (Nat × SNode)
  | [] => []
  | t :: ts => t.flat ++ flatL ts
end

end LyModel.Valid
