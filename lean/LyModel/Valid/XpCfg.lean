import LyModel.Valid.XpLemmas
import LyModel.Valid.FullPipe
/-!
# In the accessible tree a child of a state node is a state node

`cfgClosed_rfcComplete`: the hypothesis `cfgClosedL X.base true (rfcComplete X o t)` of the XPath theorems, derived from the schema
hypotheses (`config false` is inherited in the schema: `FullSane.cfg`) and the shape of the instance (`goodL`).
Invariant `xc_plL X sk T`: every node of the forest `T` is an instance of a data node of the level `sk` (through choices and
cases), and its children are such a forest for its schema children — kept by `explicitL` and by the completion `rfcL`.
-/
namespace LyModel.Valid
open LyModel LyModel.Tree

mutual
/-- placement through choices and cases, at every depth -/
def xc_plN (X : SchemaX) : DNode → Bool
  | .inner s _ _ ks => xc_plL X (X.kidsOf (some s)) ks
  | .term .. => true
def xc_plL (X : SchemaX) (sk : List STree) : List DNode → Bool
  | [] => true
  | n :: ns => (dataSidsL sk).contains n.sid && xc_plN X n && xc_plL X sk ns
end

theorem xc_plL_all (X : SchemaX) (sk : List STree) : ∀ (ns : List DNode), xc_plL X sk ns = true ↔
    ∀ n ∈ ns, n.sid ∈ dataSidsL sk ∧ xc_plN X n = true := by
  intro ns
  induction ns with
  | nil => simp [xc_plL]
  | cons x xs ih =>
    unfold xc_plL
    simp only [Bool.and_eq_true, ih, List.mem_cons, forall_eq_or_imp, List.contains_iff_mem, and_assoc]

/-! ## the explicit part of a fresh tree -/

mutual
theorem xc_explicitN (X : SchemaX) : ∀ (n : DNode), goodN X n = true →
    ∃ n', explicitNode n = some n' ∧ n'.sid = n.sid ∧ xc_plN X n' = true
  | .inner s f m ks, h => by
    rw [goodN_inner] at h
    refine ⟨.inner s {} [] (explicitL ks), ?_, rfl, ?_⟩
    · rw [explicitNode, h.1]; rfl
    · rw [xc_plN]; exact xc_explicitL X _ ks h.2.2.2.2
  | .term s f m v, h => by
    rw [goodN_term] at h
    refine ⟨.term s {} [] v, ?_, rfl, ?_⟩
    · rw [explicitNode, h.1]; rfl
    · rw [xc_plN]
theorem xc_explicitL (X : SchemaX) (sk : List STree) : ∀ (ns : List DNode), goodL X sk ns = true →
    xc_plL X sk (explicitL ns) = true
  | [], _ => by rw [explicitL, xc_plL]
  | n :: ns, h => by
    rw [goodL] at h
    simp only [Bool.and_eq_true, List.contains_iff_mem] at h
    obtain ⟨n', hn', hs, hp⟩ := xc_explicitN X n h.1.2
    rw [explicitL, hn']
    dsimp only
    rw [xc_plL, xc_explicitL X sk ns h.2, hp, hs]
    simp only [Bool.and_eq_true, List.contains_iff_mem, and_true]
    exact h.1.1
end

/-! ## the completion keeps the placement -/

theorem xc_setKids_sid (n : DNode) (ks : List DNode) : (n.setKids ks).sid = n.sid := by cases n <;> rfl

theorem xc_plN_npSet (X : SchemaX) (S : Schema) (n : DNode) : xc_plN X (npSet S n) = xc_plN X n := by
  cases n with
  | inner s f m ks =>
    rw [npSet]
    split
    · rw [xc_plN, xc_plN]
    · rfl
  | term s f m v => rw [npSet]; intro _ _ _ _ h; cases h

theorem xc_pl_insert (X : SchemaX) (sk : List STree) (T : List DNode) (n : DNode) (hT : xc_plL X sk T = true)
    (hs : n.sid ∈ dataSidsL sk) (hn : xc_plN X n = true) : xc_plL X sk (insertNode X.base T n) = true := by
  rw [xc_plL_all] at hT ⊢
  intro x hx
  rcases (mem_insertNode X.base T n x).1 hx with rfl | hx
  · exact ⟨hs, hn⟩
  · exact hT x hx

theorem xc_pl_foldl (X : SchemaX) (sk : List STree) (s : Nat) (hs : s ∈ dataSidsL sk) : ∀ (ds : List Bytes) (acc : List DNode),
    xc_plL X sk acc = true →
    xc_plL X sk (ds.foldl (fun acc d => insertNode X.base acc (.term s dfltFlags [] d)) acc) = true := by
  intro ds
  induction ds with
  | nil => intro acc h; exact h
  | cons d ds ih =>
    intro acc h
    rw [List.foldl_cons]
    exact ih _ (xc_pl_insert X sk acc _ h hs (by rw [xc_plN]))

/-- the children of the instances of `s` replaced by forests placed below the schema children of `s` -/
theorem xc_pl_map (X : SchemaX) (sk : List STree) (s : Nat) (g : DNode → DNode) (T : List DNode) (hT : xc_plL X sk T = true)
    (hg : ∀ n ∈ T, n.sid = s → xc_plN X n = true → (g n).sid = n.sid ∧ xc_plN X (g n) = true) :
    xc_plL X sk (T.map fun n => if n.sid == s then g n else n) = true := by
  rw [xc_plL_all] at hT ⊢
  intro x hx
  obtain ⟨n, hn, rfl⟩ := List.mem_map.1 hx
  by_cases hc : (n.sid == s) = true
  · rw [if_pos hc]
    have := hg n hn (by simpa using hc) (hT n hn).2
    exact ⟨by rw [this.1]; exact (hT n hn).1, this.2⟩
  · rw [if_neg hc]
    exact hT n hn

theorem xc_plN_setKids (X : SchemaX) (n : DNode) (ks : List DNode) (h : xc_plL X (X.kidsOf (some n.sid)) ks = true) :
    xc_plN X (n.setKids ks) = true := by
  cases n with
  | inner s f m k0 => rw [DNode.setKids, xc_plN]; exact h
  | term s f m v => rw [DNode.setKids, xc_plN]; intro _ _ _ _ h; cases h

theorem xc_plN_kids (X : SchemaX) (n : DNode) (h : xc_plN X n = true) : xc_plL X (X.kidsOf (some n.sid)) n.kids = true := by
  cases n with
  | inner s f m ks => rw [xc_plN] at h; exact h
  | term s f m v => simp only [DNode.kids]; rw [xc_plL]

mutual
theorem xc_rfcNode (X : SchemaX) (o : VOpts) (hl : KidsLookupOk X) : ∀ (k : STree), (∀ k', Below k' k → BelowL k' X.top) →
    ∀ (sk : List STree) (T : List DNode), (∀ sid ∈ k.dataSids, sid ∈ dataSidsL sk) → xc_plL X sk T = true →
      xc_plL X sk (rfcNode X o k T) = true
  | .mk s i ks, hb, sk, T, hsub, hT => by
    have hkids : X.kidsOf (some s) = ks := hl (.mk s i ks) (hb _ (Below.self _))
    have hbk : ∀ k', BelowL k' ks → BelowL k' X.top := fun k' h => hb k' (Below.kid _ _ _ _ h)
    have hds := dataSids_mk s i ks
    rw [rfcNode]
    split
    · exact hT
    · cases hkind : i.kind with
      | leaf =>
        have hs : s ∈ dataSidsL sk := hsub s (by rw [hds, hkind]; simp)
        dsimp only
        split
        · exact xc_pl_insert X sk T _ hT hs (by rw [xc_plN])
        · exact hT
      | leaflist =>
        have hs : s ∈ dataSidsL sk := hsub s (by rw [hds, hkind]; simp)
        dsimp only
        split
        · exact hT
        · exact xc_pl_foldl X sk s hs _ T hT
      | container =>
        have hs : s ∈ dataSidsL sk := hsub s (by rw [hds, hkind]; simp)
        dsimp only
        split
        · apply xc_pl_map X sk s (fun n => npSet X.base (n.setKids (rfcL X o ks n.kids))) T hT
          intro n _ hns hpn
          refine ⟨by rw [npSet_sid, xc_setKids_sid], ?_⟩
          rw [xc_plN_npSet]
          apply xc_plN_setKids
          have hk0 := xc_plN_kids X n hpn
          rw [hns, hkids] at hk0 ⊢
          exact xc_rfcL X o hl ks hbk ks n.kids (fun _ h => h) hk0
        · split
          · exact hT
          · apply xc_pl_insert X sk T (.inner s dfltFlags [] (rfcL X o ks [])) hT hs
            rw [xc_plN, hkids]
            exact xc_rfcL X o hl ks hbk ks [] (fun _ h => h) (by rw [xc_plL])
      | list =>
        dsimp only
        apply xc_pl_map X sk s (fun n => n.setKids (rfcL X o ks n.kids)) T hT
        intro n _ hns hpn
        refine ⟨xc_setKids_sid _ _, ?_⟩
        apply xc_plN_setKids
        have hk0 := xc_plN_kids X n hpn
        rw [hns, hkids] at hk0 ⊢
        exact xc_rfcL X o hl ks hbk ks n.kids (fun _ h => h) hk0
      | choice =>
        dsimp only
        exact xc_rfcCases X o hl ks hbk sk T _ _ (fun sid h => hsub sid (by rw [hds, hkind]; exact h)) hT
      | case =>
        dsimp only
        exact xc_rfcL X o hl ks hbk sk T (fun sid h => hsub sid (by rw [hds, hkind]; exact h)) hT
theorem xc_rfcL (X : SchemaX) (o : VOpts) (hl : KidsLookupOk X) : ∀ (ks : List STree), (∀ k', BelowL k' ks → BelowL k' X.top) →
    ∀ (sk : List STree) (T : List DNode), (∀ sid ∈ dataSidsL ks, sid ∈ dataSidsL sk) → xc_plL X sk T = true →
      xc_plL X sk (rfcL X o ks T) = true
  | [], _, sk, T, _, hT => by rw [rfcL]; exact hT
  | k :: ks, hb, sk, T, hsub, hT => by
    rw [rfcL]
    rw [dataSidsL_cons] at hsub
    apply xc_rfcL X o hl ks (fun k' h => hb k' (BelowL.tail _ _ _ h)) sk _ (fun sid h => hsub sid (List.mem_append_right _ h))
    exact xc_rfcNode X o hl k (fun k' h => hb k' (BelowL.head _ _ _ h)) sk T (fun sid h => hsub sid (List.mem_append_left _ h)) hT
theorem xc_rfcCases (X : SchemaX) (o : VOpts) (hl : KidsLookupOk X) : ∀ (cs : List STree), (∀ k', BelowL k' cs → BelowL k' X.top) →
    ∀ (sk : List STree) (T : List DNode) (dflt : Option String) (anyData : Bool), (∀ sid ∈ dataSidsL cs, sid ∈ dataSidsL sk) →
      xc_plL X sk T = true → xc_plL X sk (rfcCases X o dflt anyData cs T) = true
  | [], _, sk, T, _, _, _, hT => by rw [rfcCases]; exact hT
  | c :: rest, hb, sk, T, dflt, anyData, hsub, hT => by
    rw [rfcCases]
    rw [dataSidsL_cons] at hsub
    by_cases hc : (if anyData = true then hasData T c.dataSids else dflt == some c.info.name) = true
    · rw [if_pos hc]
      exact xc_rfcNode X o hl c (fun k' h => hb k' (BelowL.head _ _ _ h)) sk T (fun sid h => hsub sid (List.mem_append_left _ h)) hT
    · rw [if_neg hc]
      exact xc_rfcCases X o hl rest (fun k' h => hb k' (BelowL.tail _ _ _ h)) sk T dflt anyData
        (fun sid h => hsub sid (List.mem_append_right _ h)) hT
end

/-! ## from the placement to `cfgClosedL` -/

mutual
/-- a data id of a schema node belongs to a schema node at or below it -/
theorem xc_sid_below : ∀ (t : STree) (sid : Nat), sid ∈ t.dataSids → ∃ k, Below k t ∧ k.sid = sid
  | .mk s i ks, sid, h => by
    rw [dataSids_mk] at h
    split at h
    · obtain ⟨k, hk, hs⟩ := xc_sid_belowL ks sid h
      exact ⟨k, Below.kid _ _ _ _ hk, hs⟩
    · rw [List.mem_singleton] at h
      exact ⟨_, Below.self _, h.symm⟩
theorem xc_sid_belowL : ∀ (ts : List STree) (sid : Nat), sid ∈ dataSidsL ts → ∃ k, BelowL k ts ∧ k.sid = sid
  | [], sid, h => by rw [dataSidsL_nil] at h; cases h
  | t :: ts, sid, h => by
    rw [dataSidsL_cons, List.mem_append] at h
    rcases h with h | h
    · obtain ⟨k, hk, hs⟩ := xc_sid_below t sid h
      exact ⟨k, BelowL.head _ _ _ hk, hs⟩
    · obtain ⟨k, hk, hs⟩ := xc_sid_belowL ts sid h
      exact ⟨k, BelowL.tail _ _ _ hk, hs⟩
end

theorem xc_config_eq {X : SchemaX} (hio : InfoOk X) {k : STree} (hk : BelowL k X.top) : X.base.config k.sid = k.info.config :=
  (infoFacts_of_get X.base k (hio k hk)).cfg

mutual
theorem xc_closedN (X : SchemaX) (hl : KidsLookupOk X) (hio : InfoOk X)
    (hcfg : ∀ ch k', BelowL ch X.top → Below k' ch → ch.info.config = false → k'.info.config = false) : ∀ (n : DNode) (sk : List STree) (pcfg : Bool), (∀ k, BelowL k sk → BelowL k X.top) →
    (pcfg = false → ∀ sid ∈ dataSidsL sk, X.base.config sid = false) → n.sid ∈ dataSidsL sk → xc_plN X n = true →
    cfgClosedN X.base pcfg n = true
  | .inner s f m ks, sk, pcfg, hb, hst, hs, hp => by
    have hs : s ∈ dataSidsL sk := hs
    obtain ⟨k, hk, hks⟩ := xc_sid_belowL sk s hs
    have hkt := hb k hk
    have hkids : X.kidsOf (some s) = k.kids := by rw [← hks]; exact hl k hkt
    rw [xc_plN, hkids] at hp
    rw [cfgClosedN, Bool.and_eq_true]
    constructor
    · cases pcfg with
      | true => rfl
      | false => rw [hst rfl s hs]; rfl
    · apply xc_closedL X hl hio hcfg ks k.kids (X.base.config s) (fun k' h => belowL_trans hkt (below_of_kids h)) _ hp
      intro hc sid hsid
      obtain ⟨k', hk', hks'⟩ := xc_sid_belowL k.kids sid hsid
      have hk't : BelowL k' X.top := belowL_trans hkt (below_of_kids hk')
      rw [← hks', xc_config_eq hio hk't]
      apply hcfg k k' hkt (below_of_kids hk')
      rw [← xc_config_eq hio hkt, hks]
      exact hc
  | .term s f m v, sk, pcfg, hb, hst, hs, hp => by
    have hs : s ∈ dataSidsL sk := hs
    rw [cfgClosedN]
    cases pcfg with
    | true => rfl
    | false => rw [hst rfl s hs]; rfl
theorem xc_closedL (X : SchemaX) (hl : KidsLookupOk X) (hio : InfoOk X)
    (hcfg : ∀ ch k', BelowL ch X.top → Below k' ch → ch.info.config = false → k'.info.config = false) : ∀ (ns : List DNode) (sk : List STree) (pcfg : Bool), (∀ k, BelowL k sk → BelowL k X.top) →
    (pcfg = false → ∀ sid ∈ dataSidsL sk, X.base.config sid = false) → xc_plL X sk ns = true →
    cfgClosedL X.base pcfg ns = true
  | [], _, _, _, _, _ => by rw [cfgClosedL]
  | n :: ns, sk, pcfg, hb, hst, hp => by
    rw [xc_plL] at hp
    simp only [Bool.and_eq_true, List.contains_iff_mem] at hp
    rw [cfgClosedL, xc_closedN X hl hio hcfg n sk pcfg hb hst hp.1.1 hp.1.2, xc_closedL X hl hio hcfg ns sk pcfg hb hst hp.2]
    rfl
end

/-- **in the accessible tree (explicit data plus the defaults in use) a child of a state node is a state node** -/
theorem cfgClosed_rfcComplete (X : SchemaX) (o : VOpts) (hl : KidsLookupOk X) (hio : InfoOk X) (hs : FullSane X o) (t : List DNode)
    (hg : goodL X X.top t = true) : cfgClosedL X.base true (rfcComplete X o t) = true := by
  unfold rfcComplete
  apply xc_closedL X hl hio hs.cfg _ X.top true (fun _ h => h) (fun h => by cases h)
  exact xc_rfcL X o hl X.top (fun _ h => h) X.top _ (fun _ h => h) (xc_explicitL X X.top t hg)

end LyModel.Valid
