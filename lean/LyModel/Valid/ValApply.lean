import LyModel.Valid.Hist
import LyModel.Valid.SpecDefaults
/-!
# The change set of a validation applied to the input tree (C07 `valdiff_exact`), and the whole-tree RFC completion

`validateDiff` is the `diff` out-parameter of `lyd_validate_module` / `lyd_validate_all` (the model `judge` of
`lyd_val_diff_add` + `lyd_diff_merge_all` over the change log of `validate`); `valdiffApply` hands it to the model of
`lyd_diff_apply_all` (component `diff`, C06) together with the INPUT tree.  `valdiffExact` is the statement
`apply input (validateDiff input) = validate input` for one input, up to what `lyd_diff_apply_all` does not reproduce bit for bit
(`LYD_NEW`, metadata, the default flag of non-presence containers: `obsL`).

The shapes in which the statement is false in the C code (findings F177, F179 a/b, F194), as decidable predicates:
`keylessChange` (a change below a key-less list instance), `npAtRiskL` (a default-flagged non-presence container that validation
may remove: a second instance of its schema node next to it, or it is a member of a case).

`runLaw` evaluates the law along a history the way `harness/api_norm.c: histlaw` does on libyang (`extra`: more hypothesis bits per
input, supplied by the driver).
Core Lean only.
-/
namespace LyModel.Valid
open LyModel LyModel.Tree

/-- the `diff` out-parameter of a successful validation; `none`: the validation failed, or a merge into the diff failed -/
def validateDiff (X : SchemaX) (o : VOpts) (t : List DNode) : Option (List DNode) :=
  let v := judge X.base o.multiError (validate X o t).log
  if v.errs.isEmpty && !v.lost then some v.diff else none

mutual
/-- what survives `lyd_diff_apply_all` bit for bit: no metadata, no `LYD_NEW` / `LYD_WHEN_TRUE`, no default flag on non-presence
containers (the same observation as `Diff.normR`) -/
def obsN (S : Schema) : DNode → DNode
  | .inner s f _ ks => .inner s { dflt := !S.isNpCont s && f.dflt } [] (obsL S ks)
  | .term s f _ v => .term s { dflt := f.dflt } [] v
def obsL (S : Schema) : List DNode → List DNode
  | [] => []
  | n :: ns => obsN S n :: obsL S ns
end

/-- `lyd_diff_apply_all(&input, diff)` with the diff the validation of `input` returned -/
def valdiffApply (X : SchemaX) (o : VOpts) (fx : Diff.Fixes) (t : List DNode) : Except Diff.AErr (List DNode) :=
  match validateDiff X o t with
  | none => .error .einval
  | some d => Diff.apply X.base t d fx

/-- **`apply input (validateDiff input) = validate input`** for the input `t`, as a Boolean -/
def valdiffExact (X : SchemaX) (o : VOpts) (fx : Diff.Fixes) (t : List DNode) : Bool :=
  match valdiffApply X o fx t with
  | .ok r => beqL (obsL X.base r) (obsL X.base (validate X o t).tree)
  | .error _ => false

/-! ## the excluded shapes -/

/-- F177: the validation changes something below a key-less list instance (the change is recorded under a copy of the instance
that neither `lyd_diff_merge_r` nor `lyd_diff_apply_all` can tell from its fellow instances) -/
def keylessChange (X : SchemaX) (o : VOpts) (t : List DNode) : Bool :=
  (validate X o t).evs.any fun e => e.anc.any fun p => X.base.isDupInst p.sid

/-- a default-flagged non-presence container among `all` that validation may remove: F179 (a) / F194 a second instance of its
schema node stands next to it (`twin`), F179 (b) it is a member of a case (`inCase`: leftover of a case) -/
def npRisk (X : SchemaX) (twin inCase : Bool) (all : List DNode) (n : DNode) : Bool :=
  isNpContD X.base n && n.flags.dflt &&
    ((twin && decide ((all.filter (·.sid == n.sid)).length > 1)) || (inCase && !(caseChain X n.sid).isEmpty))

mutual
def npAtRiskN (X : SchemaX) (twin inCase : Bool) : DNode → Bool
  | .inner _ _ _ ks => npAtRiskL X twin inCase ks ks
  | .term .. => false
/-- some sibling level of the tree has a non-presence container at risk -/
def npAtRiskL (X : SchemaX) (twin inCase : Bool) (all : List DNode) : List DNode → Bool
  | [] => false
  | n :: ns => npRisk X twin inCase all n || npAtRiskN X twin inCase n || npAtRiskL X twin inCase all ns
end

/-- the decidable exclusion of `valdiff_exact_partial`, on schema + input tree: a change below a key-less list instance (F177), a
default non-presence container next to a second instance (F179 a, F194), and — in the defective variant F179 b only — a default
non-presence container that is a member of a case -/
def valdiffExcluded (X : SchemaX) (o : VOpts) (t : List DNode) : Bool :=
  keylessChange X o t || npAtRiskL X true X.q.caseDfltNpViaKids t t

/-! ## the class of `valdiff_exact_partial_fresh` -/

mutual
/-- freshly built / parsed explicit data: every node carries `LYD_NEW`, none `LYD_DEFAULT`, at every depth -/
def freshExplN : DNode → Bool
  | .inner _ f _ ks => f.new && !f.dflt && freshExplL ks
  | .term _ f _ _ => f.new && !f.dflt
def freshExplL : List DNode → Bool
  | [] => true
  | n :: ns => freshExplN n && freshExplL ns
end

/-- every recorded change of the validation is made on the top level, on a node that is not user-ordered -/
def topOnly (X : SchemaX) (o : VOpts) (t : List DNode) : Bool :=
  (validate X o t).evs.all fun e => e.anc.isEmpty && !X.base.isUserOrd e.node.sid

/-! ## the laws along a history (`histlaw` of harness/api_norm.c) -/

mutual
/-- the dump the harness compares for `exact<i>`: `LYD_NEW` and the default flag of non-presence containers masked -/
def lawNormN (S : Schema) : DNode → DNode
  | .inner s f m ks => .inner s { f with new := false, dflt := !S.isNpCont s && f.dflt } m (lawNormL S ks)
  | .term s f m v => .term s { f with new := false } m v
def lawNormL (S : Schema) : List DNode → List DNode
  | [] => []
  | n :: ns => lawNormN S n :: lawNormL S ns
end

def lawBit (b : Bool) : String := if b then "1" else "0"

/-- the law tokens of validation number `i` on the tree `t`; `r2` = the second validation (the harness goes on with its tree) -/
def lawObserve (X : SchemaX) (o : VOpts) (fx : Diff.Fixes) (extra : List DNode → String) (i : Nat) (t : List DNode) (r r2 : VResult) (v v2 : Verdict) : List String :=
  let S := X.base
  let si := toString i
  let idem := if !v2.errs.isEmpty then "E" else if v2.diff.isEmpty then "empty" else "nonempty"
  let hyp := "sh" ++ si ++ "=" ++ lawBit (keylessChange X o t) ++ lawBit (npAtRiskL X true false t t) ++ lawBit (npAtRiskL X false true t t)
    ++ lawBit (v.lost) ++ lawBit (valdiffExcluded X o t) ++ lawBit (valdiffExact X o fx t) ++ lawBit (freshExplL t) ++ lawBit (topOnly X o t)
    ++ lawBit ((validate X o t).evs.isEmpty && beqL (validate X o t).tree t) ++ extra t
  ["idem" ++ si ++ "=" ++ idem, "same" ++ si ++ "=" ++ lawBit (beqL r2.tree r.tree)] ++
  (match Diff.apply S t v.diff fx with
   | .error e => ["apply" ++ si ++ "=" ++ e.name]
   | .ok a =>
     ["apply" ++ si ++ "=Success",
      "exact" ++ si ++ "=" ++ (if Diff.hasDupInst S (heightL a + 1) a then "dup" else lawBit (beqL (lawNormL S a) (lawNormL S r2.tree)))])
  ++ [hyp]

/-- run the history the way `histlaw` does: every validation is followed by a second one, and the history goes on from there -/
def runLaw (X : SchemaX) (o : VOpts) (fx : Diff.Fixes) (extra : List DNode → String := fun _ => "") :
    (steps : List Step) → (k vi : Nat) → (t : List DNode) → List String
  | [], _, _, _ => []
  | st :: rest, k, vi, t =>
    match st with
    | .create under sub =>
      match applyCreate X.base under sub t with
      | some t' => runLaw X o fx extra rest (k + 1) vi t'
      | none => ["BadStep" ++ toString k]
    | .delete a =>
      match applyDelete X.base a t with
      | some t' => runLaw X o fx extra rest (k + 1) vi t'
      | none => ["BadStep" ++ toString k]
    | .validate =>
      let r := validate X o t
      let v := judge X.base o.multiError r.log
      if !v.errs.isEmpty then ["E" ++ toString vi]
      else
        let r2 := validate X o r.tree
        let v2 := judge X.base o.multiError r2.log
        lawObserve X o fx extra vi t r r2 v v2 ++ runLaw X o fx extra rest (k + 1) (vi + 1) r2.tree

end LyModel.Valid
