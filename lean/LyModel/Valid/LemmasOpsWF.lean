import LyModel.Valid.LemmasOps
import LyModel.Valid.LemmasIff2
/-!
# `mapConfig` / `stateVariant`: idempotence, fixed points, and the schema hypotheses of the C02 theorems

`KidsLookupOk`, `InfoOk`, `PlainSane` (the well-formedness hypotheses of `validate_ok_iff_valid`), and the instance hypotheses
`placedL`, `shapedL`, `buildL`, the walk fuel: all carry over from a schema to any `mapConfig` of it, so the theorems about
`validate` and `Valid` apply to the all-state variant.
-/
namespace LyModel.Valid
open LyModel LyModel.Tree

/-! ## idempotence and fixed points -/

theorem setConfig_const_comp (b : Bool) (c : SNode → Bool) (i : SNode) :
    setConfig (fun _ => b) (setConfig c i) = setConfig (fun _ => b) i := rfl

mutual
theorem STree.mapConfig_const_comp (b : Bool) (c : SNode → Bool) : ∀ t : STree,
    (t.mapConfig c).mapConfig (fun _ => b) = t.mapConfig (fun _ => b)
  | .mk s i ks => by
    simp only [STree.mapConfig, mapConfigL_const_comp b c ks, setConfig_const_comp]
theorem mapConfigL_const_comp (b : Bool) (c : SNode → Bool) : ∀ ks : List STree,
    mapConfigL (fun _ => b) (mapConfigL c ks) = mapConfigL (fun _ => b) ks
  | [] => rfl
  | t :: ts => by
    simp only [mapConfigL, STree.mapConfig_const_comp b c t, mapConfigL_const_comp b c ts]
end

theorem mapConfigS_const_comp (b : Bool) (c : SNode → Bool) (S : Schema) :
    mapConfigS (fun _ => b) (mapConfigS c S) = mapConfigS (fun _ => b) S := by
  unfold mapConfigS
  simp only [List.map_map]
  congr 1

theorem SchemaX.mapConfig_const_comp (b : Bool) (c : SNode → Bool) (X : SchemaX) :
    (X.mapConfig c).mapConfig (fun _ => b) = X.mapConfig (fun _ => b) := by
  unfold SchemaX.mapConfig
  simp only [mapConfigS_const_comp, mapConfigL_const_comp]

theorem setConfig_fix (c : SNode → Bool) (i : SNode) (h : c i = i.config) : setConfig c i = i := by
  cases i; simp only [setConfig] at *; simp [h]

mutual
theorem STree.mapConfig_allState : ∀ t : STree, t.allState = true → t.mapConfig (fun _ => false) = t
  | .mk s i ks, h => by
    unfold STree.allState at h
    simp only [Bool.and_eq_true, Bool.not_eq_eq_eq_not, Bool.not_true] at h
    unfold STree.mapConfig
    rw [mapConfigL_allState ks h.2, setConfig_fix _ i h.1.symm]
theorem mapConfigL_allState : ∀ ks : List STree, allStateL ks = true → mapConfigL (fun _ => false) ks = ks
  | [], _ => rfl
  | t :: ts, h => by
    unfold allStateL at h
    simp only [Bool.and_eq_true] at h
    unfold mapConfigL
    rw [STree.mapConfig_allState t h.1, mapConfigL_allState ts h.2]
end

mutual
theorem STree.allState_mapConfig : ∀ t : STree, (t.mapConfig (fun _ => false)).allState = true
  | .mk s i ks => by
    unfold STree.mapConfig STree.allState
    simp [allStateL_mapConfig ks]
theorem allStateL_mapConfig : ∀ ks : List STree, allStateL (mapConfigL (fun _ => false) ks) = true
  | [] => rfl
  | t :: ts => by
    unfold mapConfigL allStateL
    simp [STree.allState_mapConfig t, allStateL_mapConfig ts]
end

/-! ## lookups in the tree view -/

mutual
theorem STree.find?_mapConfig (c : SNode → Bool) : ∀ (t : STree) (x : Nat),
    (t.mapConfig c).find? x = (t.find? x).map (·.mapConfig c)
  | .mk s i ks, x => by
    rw [STree.mapConfig, STree.find?, STree.find?]
    split
    · simp [STree.mapConfig]
    · exact findL?_mapConfig c ks x
theorem findL?_mapConfig (c : SNode → Bool) : ∀ (ts : List STree) (x : Nat),
    findL? (mapConfigL c ts) x = (findL? ts x).map (·.mapConfig c)
  | [], _ => rfl
  | t :: ts, x => by
    unfold mapConfigL findL?
    rw [STree.find?_mapConfig c t x]
    cases t.find? x with
    | some r => rfl
    | none => exact findL?_mapConfig c ts x
end

theorem kidsOf_mapConfig (c : SNode → Bool) (X : SchemaX) (p : Option Nat) :
    (X.mapConfig c).kidsOf p = mapConfigL c (X.kidsOf p) := by
  cases p with
  | none => rfl
  | some s =>
    unfold SchemaX.kidsOf SchemaX.node?
    simp only [SchemaX.mapConfig_top, findL?_mapConfig]
    cases findL? X.top s with
    | none => rfl
    | some t => simp

mutual
theorem below_mapConfig (c : SNode → Bool) : ∀ {k' : STree} {t : STree}, Below k' (t.mapConfig c) →
    ∃ k, Below k t ∧ k' = k.mapConfig c
  | k', .mk s i ks, h => by
    unfold STree.mapConfig at h
    cases h with
    | self => exact ⟨.mk s i ks, Below.self _, by unfold STree.mapConfig; rfl⟩
    | kid =>
      rename_i hb
      obtain ⟨k, hk, he⟩ := belowL_mapConfig c hb
      exact ⟨k, Below.kid _ _ _ _ hk, he⟩
theorem belowL_mapConfig (c : SNode → Bool) : ∀ {k' : STree} {ts : List STree}, BelowL k' (mapConfigL c ts) →
    ∃ k, BelowL k ts ∧ k' = k.mapConfig c
  | k', [], h => by unfold mapConfigL at h; cases h
  | k', t :: ts, h => by
    unfold mapConfigL at h
    cases h with
    | head =>
      rename_i hb
      obtain ⟨k, hk, he⟩ := below_mapConfig c hb
      exact ⟨k, BelowL.head _ _ _ hk, he⟩
    | tail =>
      rename_i hb
      obtain ⟨k, hk, he⟩ := belowL_mapConfig c hb
      exact ⟨k, BelowL.tail _ _ _ hk, he⟩
end

/-! ## the schema hypotheses -/

theorem kidsLookupOk_mapConfig (c : SNode → Bool) (X : SchemaX) (h : KidsLookupOk X) : KidsLookupOk (X.mapConfig c) := by
  intro k' hk'
  obtain ⟨k, hk, rfl⟩ := belowL_mapConfig c hk'
  rw [kidsOf_mapConfig, STree.mapConfig_sid, h k hk, STree.mapConfig_kids]

theorem infoOk_mapConfig (c : SNode → Bool) (X : SchemaX) (h : InfoOk X) : InfoOk (X.mapConfig c) := by
  intro k' hk'
  obtain ⟨k, hk, rfl⟩ := belowL_mapConfig c hk'
  rw [SchemaX.mapConfig_base, mapConfigS_get?, STree.mapConfig_sid, h k hk, STree.mapConfig_info]
  rfl

theorem plainNode_mapConfig (c : SNode → Bool) (k : STree) : plainNode (k.mapConfig c) = plainNode k := by
  unfold plainNode
  simp

theorem plainSane_mapConfig (c : SNode → Bool) (X : SchemaX) (h : PlainSane X) : PlainSane (X.mapConfig c) := by
  intro k' hk'
  obtain ⟨k, hk, rfl⟩ := belowL_mapConfig c hk'
  refine ⟨by rw [plainNode_mapConfig]; exact (h k hk).1, ?_⟩
  have := (h k hk).2
  unfold mmSane at this ⊢
  simpa using this

/-! ## the instance hypotheses -/

theorem any_sid_mapConfig (c : SNode → Bool) (x : Nat) : ∀ sk : List STree,
    (mapConfigL c sk).any (·.sid == x) = sk.any (·.sid == x)
  | [] => rfl
  | k :: ks => by unfold mapConfigL; simp [any_sid_mapConfig c x ks]

mutual
theorem placedN_mapConfig (c : SNode → Bool) (X : SchemaX) : ∀ n : DNode, placedN (X.mapConfig c) n = placedN X n
  | .inner s f m ks => by
    unfold placedN
    rw [kidsOf_mapConfig]
    exact placedL_mapConfig c X _ ks
  | .term .. => by simp [placedN]
theorem placedL_mapConfig (c : SNode → Bool) (X : SchemaX) (sk : List STree) : ∀ ns : List DNode,
    placedL (X.mapConfig c) (mapConfigL c sk) ns = placedL X sk ns
  | [] => by simp [placedL]
  | n :: ns => by
    unfold placedL
    rw [any_sid_mapConfig, placedN_mapConfig c X n, placedL_mapConfig c X sk ns]
end

theorem shapeOk_mapConfig (c : SNode → Bool) (n : DNode) : ∀ sk : List STree, shapeOk (mapConfigL c sk) n = shapeOk sk n
  | [] => rfl
  | k :: ks => by
    have := shapeOk_mapConfig c n ks
    unfold shapeOk at this ⊢
    unfold mapConfigL
    simp only [List.all_cons, this, STree.mapConfig_sid, STree.mapConfig_info, setConfig_kind]

mutual
theorem shapedN_mapConfig (c : SNode → Bool) (X : SchemaX) : ∀ n : DNode, shapedN (X.mapConfig c) n = shapedN X n
  | .inner s f m ks => by
    unfold shapedN
    rw [kidsOf_mapConfig]
    exact shapedL_mapConfig c X _ ks
  | .term .. => by simp [shapedN]
theorem shapedL_mapConfig (c : SNode → Bool) (X : SchemaX) (sk : List STree) : ∀ ns : List DNode,
    shapedL (X.mapConfig c) (mapConfigL c sk) ns = shapedL X sk ns
  | [] => by simp [shapedL]
  | n :: ns => by
    unfold shapedL
    rw [shapeOk_mapConfig, shapedN_mapConfig c X n, shapedL_mapConfig c X sk ns]
end

mutual
theorem sheight_mapConfig (c : SNode → Bool) : ∀ t : STree, sheight (t.mapConfig c) = sheight t
  | .mk s i ks => by unfold STree.mapConfig sheight; rw [sheightL_mapConfig c ks]
theorem sheightL_mapConfig (c : SNode → Bool) : ∀ ks : List STree, sheightL (mapConfigL c ks) = sheightL ks
  | [] => rfl
  | t :: ts => by unfold mapConfigL sheightL; rw [sheight_mapConfig c t, sheightL_mapConfig c ts]
end

theorem walkFuel_mapConfig (c : SNode → Bool) (X : SchemaX) (t : List DNode) : walkFuel (X.mapConfig c) t = walkFuel X t := by
  unfold walkFuel; simp

mutual
theorem buildNode_mapConfig (c : SNode → Bool) (S : Schema) : ∀ n : DNode, buildNode (mapConfigS c S) n = buildNode S n
  | .inner s f m ks => by
    unfold buildNode
    simp only [Schema.isKind, mapConfigS_kind?, mapConfigS_keysPresent, buildL_mapConfig c S ks]
    rfl
  | .term s f m v => by unfold buildNode; simp
theorem buildL_mapConfig (c : SNode → Bool) (S : Schema) : ∀ ns : List DNode, buildL (mapConfigS c S) ns = buildL S ns
  | [] => rfl
  | n :: ns => by
    unfold buildL
    rw [buildNode_mapConfig c S n, buildL_mapConfig c S ns]
end

end LyModel.Valid
