import LyModel.Valid.LemmasValdiffFresh
/-!
# Lemmas for C07 `valdiff_exact`: `lyd_validate_new` that records nothing deletes nothing — for siblings in ANY flag state, as long as no
default-flagged non-presence container can go unrecorded (a second instance of its schema node next to it, or member of a case)
-/
namespace LyModel.Valid
open LyModel LyModel.Tree

/-- no default-flagged non-presence container of the level has a fellow instance or sits in a case (the shapes F179 a / F400 / F189) -/
def riskFree (X : SchemaX) (l : List DNode) : Prop :=
  ∀ x ∈ l, isNpContD X.base x = true → x.flags.dflt = true → (l.filter (·.sid == x.sid)).length ≤ 1 ∧ caseChain X x.sid = []

theorem delEvents_ne_nil (X : SchemaX) (cx : Cx) (np : Bool) (before : List DNode) (n : DNode) (h : np = true ∨ isNpContD X.base n = false) :
    delEvents X cx np before n ≠ [] := by
  unfold delEvents
  dsimp only
  rcases h with h | h
  · simp [h]
  · simp [h]

/-- a sequential deletion that records nothing deleted nothing, when every victim would be recorded -/
theorem delSeq_quiet (X : SchemaX) (cx : Cx) (np : Bool) (victim : DNode → Bool) : ∀ (rest kept : List DNode),
    (∀ x ∈ rest, victim x = true → np = true ∨ isNpContD X.base x = false) → (delSeq X cx np victim kept rest).2 = [] →
    ∀ x ∈ rest, victim x = false := by
  intro rest
  induction rest with
  | nil => intro _ _ _ x hx; cases hx
  | cons n ns ih =>
    intro kept hv he x hx
    unfold delSeq at he
    by_cases hn : victim n = true
    · simp only [hn, if_true] at he
      exfalso
      have := delEvents_ne_nil X cx np kept n (hv n (List.mem_cons_self ..) hn)
      exact this (List.append_eq_nil_iff.1 he).1
    · have hn' : victim n = false := by simpa using hn
      simp only [hn', Bool.false_eq_true, if_false] at he
      rcases List.mem_cons.1 hx with rfl | hx'
      · exact hn'
      · exact ih _ (fun y hy => hv y (List.mem_cons_of_mem _ hy)) he x hx'

theorem count_two (p : DNode → Bool) (x y : DNode) (hx : p x = true) (hy : p y = true) (a b c : List DNode) :
    2 ≤ ((a ++ x :: b ++ y :: c).filter p).length := by
  simp only [List.filter_append, List.filter_cons, hx, hy, if_true, List.length_append, List.length_cons]
  omega

theorem removeFirst_some (p : DNode → Bool) : ∀ (l l' : List DNode) (v : DNode), removeFirst p l = (l', some v) → v ∈ l ∧ p v = true
  | [], _, _, h => by simp [removeFirst] at h
  | x :: xs, l', v, h => by
    unfold removeFirst at h
    by_cases hp : p x = true
    · simp only [hp, if_true, Prod.mk.injEq, Option.some.injEq] at h
      exact ⟨by rw [← h.2]; exact List.mem_cons_self .., by rw [← h.2]; exact hp⟩
    · have hp' : p x = false := by simpa using hp
      simp only [hp', Bool.false_eq_true, if_false, Prod.mk.injEq] at h
      have := removeFirst_some p xs (removeFirst p xs).1 v (by rw [← h.2])
      exact ⟨List.mem_cons_of_mem _ this.1, this.2⟩

/-- in a risk-free level a default-flagged instance of the new node's schema node, other than the node itself, is not a non-presence container -/
theorem not_np_of_riskFree (X : SchemaX) (done tl : List DNode) (node x : DNode) (hr : riskFree X (done ++ node :: tl))
    (hx : x ∈ done ∨ x ∈ tl) (hs : x.sid = node.sid) (hd : x.flags.dflt = true) : isNpContD X.base x = false := by
  cases hnp : isNpContD X.base x with
  | false => rfl
  | true =>
    exfalso
    have hmem : x ∈ done ++ node :: tl := by
      rcases hx with h | h
      · exact List.mem_append_left _ h
      · exact List.mem_append_right _ (List.mem_cons_of_mem _ h)
    have hle := (hr x hmem hnp hd).1
    have hp1 : (fun (y : DNode) => y.sid == x.sid) x = true := by simp
    have hp2 : (fun (y : DNode) => y.sid == x.sid) node = true := by simp [hs]
    rcases hx with h | h
    · obtain ⟨a, b, rfl⟩ := List.append_of_mem h
      have := count_two (fun y => y.sid == x.sid) x node hp1 hp2 a b tl
      simp only [List.append_assoc, List.cons_append] at this hle
      omega
    · obtain ⟨a, b, rfl⟩ := List.append_of_mem h
      have := count_two (fun y => y.sid == x.sid) node x hp2 hp1 done a b
      simp only [List.append_assoc, List.cons_append] at this hle
      omega

end LyModel.Valid

namespace LyModel.Valid
open LyModel LyModel.Tree

/-- "remove old defaults of the new node" that records nothing removes nothing (risk-free level) -/
theorem autodelStep_quiet (X : SchemaX) (cx : Cx) (done tl : List DNode) (node : DNode) (hr : riskFree X (done ++ node :: tl))
    (he : (autodelStep X cx done node tl).2.2.2 = []) : autodelStep X cx done node tl = (done, false, tl, []) := by
  unfold autodelStep at he ⊢
  dsimp only at he ⊢
  by_cases hf : ((done ++ node :: tl).any fun x => x.sid == node.sid && !x.flags.dflt) = true
  · rw [if_pos hf] at he ⊢
    -- the node itself is not a victim that could go unrecorded
    have hnode : (node.sid == node.sid && node.flags.dflt) = true → isNpContD X.base node = false := by
      intro hv
      simp only [beq_self_eq_true, Bool.true_and] at hv
      cases hnp : isNpContD X.base node with
      | false => rfl
      | true =>
        exfalso
        have hle := (hr node (by simp) hnp hv).1
        obtain ⟨y, hy, hyp⟩ := List.any_eq_true.1 hf
        simp only [Bool.and_eq_true, beq_iff_eq, Bool.not_eq_true'] at hyp
        have hp1 : (fun (z : DNode) => z.sid == node.sid) node = true := by simp
        have hp2 : (fun (z : DNode) => z.sid == node.sid) y = true := by simp [hyp.1]
        rcases List.mem_append.1 hy with h | h
        · obtain ⟨a, b, rfl⟩ := List.append_of_mem h
          have := count_two (fun z => z.sid == node.sid) y node hp2 hp1 a b tl
          simp only [List.append_assoc, List.cons_append] at this hle
          omega
        · rcases List.mem_cons.1 h with rfl | h
          · rw [hv] at hyp; cases hyp.2
          · obtain ⟨a, b, rfl⟩ := List.append_of_mem h
            have := count_two (fun z => z.sid == node.sid) node y hp1 hp2 done a b
            simp only [List.append_assoc, List.cons_append] at this hle
            omega
    have h123 := he
    simp only [List.append_eq_nil_iff] at h123
    have v1 := delSeq_quiet X cx false (fun x => x.sid == node.sid && x.flags.dflt) done [] (by
      intro x hx hv
      simp only [Bool.and_eq_true, beq_iff_eq] at hv
      exact Or.inr (not_np_of_riskFree X done tl node x hr (Or.inl hx) hv.1 hv.2)) h123.1.1
    rw [delSeq_no_victims X cx false _ done [] v1] at h123 ⊢
    simp only [List.nil_append] at h123 ⊢
    have v2 := delSeq_quiet X cx false (fun x => x.sid == node.sid && x.flags.dflt) [node] done (by
      intro x hx hv
      rw [List.mem_singleton.1 hx] at hv ⊢
      exact Or.inr (hnode hv)) h123.1.2
    rw [delSeq_no_victims X cx false _ [node] done v2] at h123 ⊢
    have v3 := delSeq_quiet X cx false (fun x => x.sid == node.sid && x.flags.dflt) tl (done ++ [node]) (by
      intro x hx hv
      simp only [Bool.and_eq_true, beq_iff_eq] at hv
      exact Or.inr (not_np_of_riskFree X done tl node x hr (Or.inr hx) hv.1 hv.2)) h123.2
    rw [delSeq_no_victims X cx false _ tl (done ++ [node]) v3]
    have hvn := v2 node (List.mem_singleton.2 rfl)
    simp only [hvn, List.append_nil, List.length_append, List.length_cons, List.length_nil]
    congr 2
    simp
  · rw [if_neg hf] at he ⊢
    split
    · rfl
    · rename_i hll
      simp only [hll, Bool.false_eq_true, if_false] at he
      cases h1 : removeFirst (fun x => x.sid == node.sid && x.flags.dflt && !x.flags.new) done with
      | mk d' ov =>
        rw [h1] at he
        cases ov with
        | some v =>
          exfalso
          simp only at he
          obtain ⟨hv, hpv⟩ := removeFirst_some _ done d' v h1
          simp only [Bool.and_eq_true, beq_iff_eq] at hpv
          exact delEvents_ne_nil X cx false _ v (Or.inr (not_np_of_riskFree X done tl node v hr (Or.inl hv) hpv.1.1 hpv.1.2)) he
        | none =>
          simp only at he ⊢
          cases h2 : removeFirst (fun x => x.sid == node.sid && x.flags.dflt && !x.flags.new) tl with
          | mk t' ov2 =>
            rw [h2] at he
            cases ov2 with
            | some v =>
              exfalso
              simp only at he
              obtain ⟨hv, hpv⟩ := removeFirst_some _ tl t' v h2
              simp only [Bool.and_eq_true, beq_iff_eq] at hpv
              exact delEvents_ne_nil X cx false _ v (Or.inr (not_np_of_riskFree X done tl node v hr (Or.inr hv) hpv.1.1 hpv.1.2)) he
            | none => rfl

end LyModel.Valid

namespace LyModel.Valid
open LyModel LyModel.Tree

theorem ofEvs_evs (l : List Ev) : (Out.ofEvs l).evs = l := by
  unfold Out.ofEvs Out.evs
  induction l with
  | nil => rfl
  | cons e es ih => simp only [List.map_cons, List.filterMap_cons]; rw [ih]

theorem riskFree_replace (X : SchemaX) (a b : List DNode) (x x' : DNode) (hs : x'.sid = x.sid) (hd : x'.flags.dflt = x.flags.dflt)
    (h : riskFree X (a ++ x :: b)) : riskFree X (a ++ x' :: b) := by
  have hlen : ∀ s, ((a ++ x' :: b).filter (·.sid == s)).length = ((a ++ x :: b).filter (·.sid == s)).length := by
    intro s
    simp only [List.filter_append, List.filter_cons, hs, List.length_append]
    split <;> rfl
  intro y hy hnp hdf
  rw [hlen]
  rcases List.mem_append.1 hy with hy' | hy'
  · exact h y (List.mem_append_left _ hy') hnp hdf
  · rcases List.mem_cons.1 hy' with rfl | hy''
    · have hnp' : isNpContD X.base x = true := by unfold isNpContD at hnp ⊢; rw [← hs]; exact hnp
      have := h x (by simp) hnp' (by rw [← hd]; exact hdf)
      rw [hs]; exact this
    · exact h y (List.mem_append_right _ (List.mem_cons_of_mem _ hy'')) hnp hdf

theorem caseDfltVictim_nil (X : SchemaX) (all : List DNode) (n : DNode) (h : caseChain X n.sid = []) : caseDfltVictim X all n = false := by
  unfold caseDfltVictim
  simp [h]

/-- **the node loop of `lyd_validate_new` that records nothing deletes nothing** (risk-free level, any flags) -/
theorem newLoop_quiet (X : SchemaX) (o : VOpts) (cx : Cx) : ∀ (fuel : Nat) (rest done : List DNode) (last : Option Nat),
    rest.length < fuel → riskFree X (done ++ rest) → (newLoop X o cx fuel done rest last).2.evs = [] →
      (newLoop X o cx fuel done rest last).1 = done ++ rest.map normNew := by
  intro fuel
  induction fuel with
  | zero => intro rest done last h; omega
  | succ fuel ih =>
    intro rest done last hlen hr he
    cases rest with
    | nil => simp [newLoop]
    | cons node tl =>
      have hlen' : tl.length < fuel := by simp at hlen; omega
      unfold newLoop at he ⊢
      by_cases hc : (!(node.flags.new || node.flags.dflt)) = true
      · simp only [hc, if_true] at he ⊢
        have hnew : node.flags.new = false := by
          simp only [Bool.not_eq_true', Bool.or_eq_false_iff] at hc; exact hc.1
        rw [ih tl (done ++ [node]) last hlen' (by simpa using hr) he]
        simp [normNew, hnew]
      · have hc' : (!(node.flags.new || node.flags.dflt)) = false := by simpa using hc
        simp only [hc', Bool.false_eq_true, if_false] at he ⊢
        -- the auto-deletion step records nothing, so it removes nothing
        have hstep : (if (hasDefault X.base node.sid && last != some node.sid && node.flags.new) = true then autodelStep X cx done node tl
            else (done, false, tl, [])) = (done, false, tl, []) := by
          split
          · apply autodelStep_quiet X cx done tl node hr
            rename_i hd
            simp only [hd, if_true] at he
            by_cases h2 : (autodelStep X cx done node tl).2.1 = true
            · simp only [h2, if_true, Out.append_evs, ofEvs_evs, List.append_eq_nil_iff] at he
              exact he.1
            · have h2' : (autodelStep X cx done node tl).2.1 = false := by simpa using h2
              simp only [h2', Bool.false_eq_true, if_false] at he
              repeat' (split at he)
              all_goals (simp only [Out.append_evs, ofEvs_evs, List.append_eq_nil_iff] at he)
              all_goals (first | exact he.1.1.1 | exact he.1.1 | exact he.1)
          · rfl
        rw [hstep] at he ⊢
        simp only [Bool.false_eq_true, if_false, Out.ofEvs_nil, Out.empty_append] at he ⊢
        have hn1 : (if node.flags.new = true then clearNew node else node) = normNew node := rfl
        rw [hn1] at he ⊢
        have hr1 : riskFree X (done ++ normNew node :: tl) := riskFree_replace X done tl node (normNew node) (normNew_sid node) (normNew_dflt node) hr
        by_cases hv : ((normNew node).flags.dflt && caseDfltVictim X (done ++ normNew node :: tl) (normNew node)) = true
        · exfalso
          simp only [hv, if_true, Out.append_evs, ofEvs_evs, List.append_eq_nil_iff] at he
          simp only [Bool.and_eq_true] at hv
          cases hnp : isNpContD X.base (normNew node) with
          | true =>
            have := (hr1 (normNew node) (by simp) hnp hv.1).2
            rw [caseDfltVictim_nil X _ _ this] at hv
            cases hv.2
          | false => exact delEvents_ne_nil X cx _ done (normNew node) (Or.inr hnp) he.1.2
        · have hv' : ((normNew node).flags.dflt && caseDfltVictim X (done ++ normNew node :: tl) (normNew node)) = false := by simpa using hv
          simp only [hv', Bool.false_eq_true, if_false, Out.append_evs, List.append_eq_nil_iff] at he ⊢
          rw [ih tl (done ++ [normNew node]) _ hlen' (by simpa using hr1) he.2]
          simp

end LyModel.Valid

namespace LyModel.Valid
open LyModel LyModel.Tree

theorem casesStep_quiet (X : SchemaX) (cx : Cx) (choice : STree) (sibs : List DNode) (he : (casesStep X cx choice sibs).2.evs = []) :
    (casesStep X cx choice sibs).1 = sibs := by
  unfold casesStep at he ⊢
  split
  · rfl
  · rename_i old _ hsc
    rw [hsc] at he
    simp only [ofEvs_evs, List.map_eq_nil_iff] at he
    have v := delSeq_quiet X cx true (inSids old.dataSids) sibs [] (fun _ _ _ => Or.inl rfl) he
    rw [delSeq_no_victims X cx true _ sibs [] v]
    rfl
  · rfl

theorem casesStep_ops (X : SchemaX) (cx : Cx) (choice : STree) (sibs : List DNode) : ∀ e ∈ (casesStep X cx choice sibs).2.evs, e.op = .delete := by
  intro e he
  unfold casesStep at he
  split at he
  · simp [Out.err_evs] at he
  · simp only [ofEvs_evs, List.mem_map] at he
    obtain ⟨e', he', rfl⟩ := he
    exact (delSeq_evs X cx true _ sibs [] e' he').1
  · simp at he

theorem delCases_quiet (X : SchemaX) (cx : Cx) (E : List DNode) (kf : Nat) : ∀ (cs : List STree) (sibs : List DNode),
    (delCases X cx E kf cs sibs).2 = [] → (delCases X cx E kf cs sibs).1 = sibs
  | [], _, _ => by rw [delCases]
  | c :: rest, sibs, he => by
    rw [delCases] at he ⊢
    by_cases hk : (caseFound E c == kf) = true
    · simp only [hk, if_true] at he ⊢
      exact delCases_quiet X cx E kf rest sibs he
    · have hk' : (caseFound E c == kf) = false := by simpa using hk
      simp only [hk', Bool.false_eq_true, if_false, List.append_eq_nil_iff] at he ⊢
      have v := delSeq_quiet X cx true (inSids c.dataSids) sibs [] (fun _ _ _ => Or.inl rfl) he.1
      have h1 : (delSeq X cx true (inSids c.dataSids) [] sibs).1 = sibs := by
        rw [delSeq_no_victims X cx true _ sibs [] v]; rfl
      rw [h1] at he ⊢
      exact delCases_quiet X cx E kf rest sibs he.2

theorem delCases_ops (X : SchemaX) (cx : Cx) (E : List DNode) (kf : Nat) : ∀ (cs : List STree) (sibs : List DNode),
    ∀ e ∈ (delCases X cx E kf cs sibs).2, e.op = .delete
  | [], _, e, he => by rw [delCases] at he; cases he
  | c :: rest, sibs, e, he => by
    rw [delCases] at he
    split at he
    · exact delCases_ops X cx E kf rest sibs e he
    · dsimp only at he
      rcases List.mem_append.1 he with he | he
      · exact (delSeq_evs X cx true _ sibs [] e he).1
      · exact delCases_ops X cx E kf rest _ e he

theorem casesStepFix_quiet (X : SchemaX) (cx : Cx) (choice : STree) (sibs : List DNode) (he : (casesStepFix X cx choice sibs).2.evs = []) :
    (casesStepFix X cx choice sibs).1 = sibs := by
  unfold casesStepFix at he ⊢
  split
  · rfl
  · rfl
  · rename_i hsc
    rw [hsc] at he
    simp only [ofEvs_evs, List.map_eq_nil_iff] at he
    exact delCases_quiet X cx _ _ _ sibs he

theorem casesStepFix_ops (X : SchemaX) (cx : Cx) (choice : STree) (sibs : List DNode) :
    ∀ e ∈ (casesStepFix X cx choice sibs).2.evs, e.op = .delete := by
  intro e he
  unfold casesStepFix at he
  split at he
  · simp [Out.err_evs] at he
  · simp at he
  · simp only [ofEvs_evs, List.mem_map] at he
    obtain ⟨e', he', rfl⟩ := he
    exact delCases_ops X cx _ _ _ sibs e' he'

/-- both variants of `lyd_validate_cases` (F321): no event, no change; every event is a deletion -/
theorem casesStepQ_quiet (X : SchemaX) (cx : Cx) (choice : STree) (sibs : List DNode) (he : (casesStepQ X cx choice sibs).2.evs = []) :
    (casesStepQ X cx choice sibs).1 = sibs := by
  unfold casesStepQ at he ⊢
  split
  · rename_i h; simp only [h, if_true] at he; exact casesStep_quiet X cx choice sibs he
  · rename_i h; simp only [h, if_false] at he; exact casesStepFix_quiet X cx choice sibs he

theorem casesStepQ_ops (X : SchemaX) (cx : Cx) (choice : STree) (sibs : List DNode) :
    ∀ e ∈ (casesStepQ X cx choice sibs).2.evs, e.op = .delete := by
  intro e he
  unfold casesStepQ at he
  split at he
  · exact casesStep_ops X cx choice sibs e he
  · exact casesStepFix_ops X cx choice sibs e he

mutual
theorem choiceR_quiet_T (X : SchemaX) (cx : Cx) : ∀ (t : STree) (sibs : List DNode),
    ((choiceRNode X cx t sibs).2.evs = [] → (choiceRNode X cx t sibs).1 = sibs) ∧
    ((choiceRCase X cx t sibs).2.evs = [] → (choiceRCase X cx t sibs).1 = sibs) ∧
    (∀ e ∈ (choiceRNode X cx t sibs).2.evs, e.op = .delete) ∧ (∀ e ∈ (choiceRCase X cx t sibs).2.evs, e.op = .delete)
  | .mk s i ks, sibs => by
    refine ⟨?_, ?_, ?_, ?_⟩
    · rw [choiceRNode]
      split
      · split
        · intro _; rfl
        · dsimp only
          intro he
          rw [Out.append_evs, List.append_eq_nil_iff] at he
          have h1 := casesStepQ_quiet X cx (.mk s i ks) sibs he.1
          rw [h1] at he ⊢
          exact (choiceR_quiet_L X cx ks sibs).2.1 he.2
      · intro _; rfl
    · rw [choiceRCase]
      exact (choiceR_quiet_L X cx ks sibs).1
    · rw [choiceRNode]
      split
      · split
        · intro e he; simp at he
        · dsimp only
          intro e he
          rw [Out.append_evs, List.mem_append] at he
          rcases he with he | he
          · exact casesStepQ_ops X cx _ sibs e he
          · exact (choiceR_quiet_L X cx ks _).2.2.2 e he
      · intro e he; simp at he
    · rw [choiceRCase]
      exact (choiceR_quiet_L X cx ks sibs).2.2.1
theorem choiceR_quiet_L (X : SchemaX) (cx : Cx) : ∀ (ks : List STree) (sibs : List DNode),
    ((choiceRL X cx ks sibs).2.evs = [] → (choiceRL X cx ks sibs).1 = sibs) ∧
    ((choiceRCases X cx ks sibs).2.evs = [] → (choiceRCases X cx ks sibs).1 = sibs) ∧
    (∀ e ∈ (choiceRL X cx ks sibs).2.evs, e.op = .delete) ∧ (∀ e ∈ (choiceRCases X cx ks sibs).2.evs, e.op = .delete)
  | [], sibs => by
    rw [choiceRL, choiceRCases]
    exact ⟨fun _ => rfl, fun _ => rfl, by intro e he; simp at he, by intro e he; simp at he⟩
  | k :: rest, sibs => by
    refine ⟨?_, ?_, ?_, ?_⟩
    · rw [choiceRL]
      dsimp only
      intro he
      rw [Out.append_evs, List.append_eq_nil_iff] at he
      have h1 := (choiceR_quiet_T X cx k sibs).1 he.1
      rw [h1] at he ⊢
      exact (choiceR_quiet_L X cx rest sibs).1 he.2
    · rw [choiceRCases]
      dsimp only
      intro he
      rw [Out.append_evs, List.append_eq_nil_iff] at he
      have h1 := (choiceR_quiet_T X cx k sibs).2.1 he.1
      rw [h1] at he ⊢
      exact (choiceR_quiet_L X cx rest sibs).2.1 he.2
    · rw [choiceRL]
      dsimp only
      intro e he
      rw [Out.append_evs, List.mem_append] at he
      rcases he with he | he
      · exact (choiceR_quiet_T X cx k sibs).2.2.1 e he
      · exact (choiceR_quiet_L X cx rest _).2.2.1 e he
    · rw [choiceRCases]
      dsimp only
      intro e he
      rw [Out.append_evs, List.mem_append] at he
      rcases he with he | he
      · exact (choiceR_quiet_T X cx k sibs).2.2.2 e he
      · exact (choiceR_quiet_L X cx rest _).2.2.2 e he
end

end LyModel.Valid

namespace LyModel.Valid
open LyModel LyModel.Tree

theorem autodelStep_ops (X : SchemaX) (cx : Cx) (done tl : List DNode) (node : DNode) : ∀ e ∈ (autodelStep X cx done node tl).2.2.2, e.op = .delete := by
  intro e he
  by_cases hf : ((done ++ node :: tl).any fun x => x.sid == node.sid && !x.flags.dflt) = true
  · exact ((autodelStep_found X cx done tl node hf).2.2.2 e he).1
  · unfold autodelStep at he
    dsimp only at he
    rw [if_neg hf] at he
    split at he
    · cases he
    · split at he
      · exact (delEvents_spec X cx false _ _ e he).1
      · split at he
        · exact (delEvents_spec X cx false _ _ e he).1
        · cases he

theorem newLoop_ops (X : SchemaX) (o : VOpts) (cx : Cx) : ∀ (fuel : Nat) (rest done : List DNode) (last : Option Nat),
    ∀ e ∈ (newLoop X o cx fuel done rest last).2.evs, e.op = .delete := by
  intro fuel
  induction fuel with
  | zero => intro rest done last e he; simp [newLoop] at he
  | succ fuel ih =>
    intro rest done last e he
    cases rest with
    | nil => simp [newLoop] at he
    | cons node tl =>
      unfold newLoop at he
      by_cases hc : (!(node.flags.new || node.flags.dflt)) = true
      · simp only [hc, if_true] at he
        exact ih _ _ _ e he
      · have hc' : (!(node.flags.new || node.flags.dflt)) = false := by simpa using hc
        simp only [hc', Bool.false_eq_true, if_false] at he
        have hn1 : (if node.flags.new = true then clearNew node else node) = normNew node := rfl
        rw [hn1] at he
        -- the step, whatever it is: its events are deletions
        have key : ∀ (A : List DNode × Bool × List DNode × List Ev) (last' : Option Nat), (∀ e ∈ A.2.2.2, e.op = .delete) →
            e ∈ (if A.2.1 = true then ((newLoop X o cx fuel A.1 A.2.2.1 last').1, Out.ofEvs A.2.2.2 ++ (newLoop X o cx fuel A.1 A.2.2.1 last').2)
              else if ((normNew node).flags.dflt && caseDfltVictim X (A.1 ++ normNew node :: A.2.2.1) (normNew node)) = true then
                ((newLoop X o cx fuel A.1 A.2.2.1 last').1, Out.ofEvs A.2.2.2 ++ dupErr X o cx A.1 A.2.2.1 node ++
                  Out.ofEvs (delEvents X cx (!X.q.caseDfltNpViaKids) A.1 (normNew node)) ++ (newLoop X o cx fuel A.1 A.2.2.1 last').2)
              else ((newLoop X o cx fuel (A.1 ++ [normNew node]) A.2.2.1 last').1, Out.ofEvs A.2.2.2 ++ dupErr X o cx A.1 A.2.2.1 node ++
                  (newLoop X o cx fuel (A.1 ++ [normNew node]) A.2.2.1 last').2)).2.evs → e.op = .delete := by
          intro A last' hA hm
          split at hm
          · simp only [Out.append_evs, ofEvs_evs, List.mem_append] at hm
            rcases hm with hm | hm
            · exact hA e hm
            · exact ih _ _ _ e hm
          · split at hm
            · simp only [Out.append_evs, ofEvs_evs, List.mem_append, dupErr_evs, List.not_mem_nil, or_false] at hm
              rcases hm with (hm | hm) | hm
              · exact hA e hm
              · exact (delEvents_spec X cx _ _ _ e hm).1
              · exact ih _ _ _ e hm
            · simp only [Out.append_evs, ofEvs_evs, List.mem_append, dupErr_evs, List.not_mem_nil, or_false] at hm
              rcases hm with hm | hm
              · exact hA e hm
              · exact ih _ _ _ e hm
        by_cases hd : (hasDefault X.base node.sid && last != some node.sid && node.flags.new) = true
        · simp only [hd, if_true] at he
          exact key (autodelStep X cx done node tl) _ (autodelStep_ops X cx done tl node) he
        · have hd' : (hasDefault X.base node.sid && last != some node.sid && node.flags.new) = false := by simpa using hd
          simp only [hd', Bool.false_eq_true, if_false] at he
          exact key (done, false, tl, []) _ (by intro e he; cases he) he

end LyModel.Valid

namespace LyModel.Valid
open LyModel LyModel.Tree

theorem validateNew_ops (X : SchemaX) (o : VOpts) (cx : Cx) (sibs : List DNode) : ∀ e ∈ (validateNew X o cx sibs).2.evs, e.op = .delete := by
  intro e he
  unfold validateNew at he
  dsimp only at he
  rw [Out.append_evs, List.mem_append] at he
  rcases he with he | he
  · exact (choiceR_quiet_L X cx _ sibs).2.2.1 e he
  · exact newLoop_ops X o _ _ _ _ _ e he

/-- **`lyd_validate_new` that records nothing deletes nothing** (risk-free level, any flags) -/
theorem validateNew_quiet (X : SchemaX) (o : VOpts) (cx : Cx) (sibs : List DNode) (hr : riskFree X sibs)
    (he : (validateNew X o cx sibs).2.evs = []) : (validateNew X o cx sibs).1 = sibs.map normNew := by
  unfold validateNew at he ⊢
  dsimp only at he ⊢
  rw [Out.append_evs, List.append_eq_nil_iff] at he
  have h1 := (choiceR_quiet_L X cx (X.kidsOf cx.parent) sibs).1 he.1
  rw [h1] at he ⊢
  rw [newLoop_quiet X o cx.keysOld (sibs.length + 1) sibs [] none (by omega) (by simpa using hr) he.2]
  rfl

theorem npAtRiskL_false (X : SchemaX) (tw ic : Bool) (all : List DNode) : ∀ (l : List DNode), npAtRiskL X tw ic all l = false →
    ∀ n ∈ l, npRisk X tw ic all n = false ∧ npAtRiskN X tw ic n = false
  | [], _, n, hn => by cases hn
  | x :: xs, h, n, hn => by
    rw [npAtRiskL] at h
    simp only [Bool.or_eq_false_iff] at h
    rcases List.mem_cons.1 hn with rfl | hn'
    · exact ⟨h.1.1, h.1.2⟩
    · exact npAtRiskL_false X tw ic all xs h.2 n hn'

theorem riskFree_of_npAtRisk (X : SchemaX) (l : List DNode) (h : npAtRiskL X true true l l = false) : riskFree X l := by
  intro x hx hnp hd
  have := (npAtRiskL_false X true true l l h x hx).1
  unfold npRisk at this
  simp only [hnp, hd, Bool.true_and, Bool.or_eq_false_iff, decide_eq_false_iff_not, Bool.not_eq_false'] at this
  constructor
  · omega
  · have h2 := this.2
    simpa using h2

theorem npAtRiskN_normNew (X : SchemaX) (n : DNode) : npAtRiskN X true true (normNew n) = npAtRiskN X true true n := by
  unfold normNew
  split
  · cases n <;> rfl
  · rfl

theorem walkList_quiet (S : Schema) (f : List DNode → DNode → DNode × Out) :
    ∀ (l before : List DNode),
      (∀ n ∈ l, ∀ before, (∀ e ∈ (f before n).2.evs, e.op = .delete ∨ e.anc ≠ []) ∧ ((f before n).2.evs = [] → obsN S (f before n).1 = obsN S n)) →
      (∀ e ∈ (walkList f before l).2.evs, e.op = .delete ∨ e.anc ≠ []) ∧ ((walkList f before l).2.evs = [] → obsL S (walkList f before l).1 = obsL S l)
  | [], _, _ => by simp [walkList, obsL]
  | n :: ns, before, h => by
    rw [walkList]
    dsimp only
    obtain ⟨a1, a2⟩ := h n (List.mem_cons_self ..) before
    obtain ⟨b1, b2⟩ := walkList_quiet S f ns (before ++ [(f before n).1]) (fun k hk => h k (List.mem_cons_of_mem _ hk))
    constructor
    · intro e he
      simp only [Out.append_evs, List.mem_append] at he
      rcases he with he | he
      · exact a1 e he
      · exact b1 e he
    · intro he
      simp only [Out.append_evs, List.append_eq_nil_iff] at he
      simp only [obsL, a2 he.1, b2 he.2]

/-- **the subtree walk, any flag state, no non-presence container at risk**: every recorded change is a deletion or has a non-empty
ancestor path, and where nothing is recorded nothing changes (up to `obsN`) -/
theorem subtreeNode_quiet (X : SchemaX) (o : VOpts) (hok : OkBelowL X.base X.top) : ∀ (fuel : Nat) (n : DNode) (cx : Cx) (before : List DNode),
    npAtRiskN X true true n = false →
    (∀ e ∈ (subtreeNode X o fuel cx before n).2.evs, e.op = .delete ∨ e.anc ≠ []) ∧
    ((subtreeNode X o fuel cx before n).2.evs = [] → obsN X.base (subtreeNode X o fuel cx before n).1 = obsN X.base n)
  | 0, n, _, _, _ => by simp [subtreeNode]
  | fuel + 1, .term s f m v, _, _, _ => by simp [subtreeNode]
  | fuel + 1, .inner s f m ks, cx, before, hf => by
    rw [subtreeNode]
    dsimp only
    rw [npAtRiskN] at hf
    have hrf := riskFree_of_npAtRisk X ks hf
    have hkids := fun k hk => (npAtRiskL_false X true true ks ks hf k hk).2
    have hanc : (cx.descend X.base before (.inner s f m ks)).keysOld.anc ≠ [] := by
      apply keysOld_anc_ne
      simp [Cx.descend]
    have tr := implL_tr X o (cx.descend X.base before (.inner s f m ks)).keysOld (X.kidsOf (some s))
      (validateNew X o (cx.descend X.base before (.inner s f m ks)) ks).1 (okBelowL_kidsOf X hok (some s))
    have hw := walkList_quiet X.base (subtreeNode X o fuel (cx.descend X.base before (.inner s f m ks)).keysOld)
    constructor
    · intro e he
      simp only [Out.append_evs, List.mem_append] at he
      rcases he with (he | he) | he
      · exact Or.inl (validateNew_ops X o _ ks e he)
      · right; rw [(tr.at_ e he).1]; exact hanc
      · refine (hw _ [] ?_).1 e he
        intro k hk bf
        apply subtreeNode_quiet X o hok fuel k _ bf
        rw [tr.tree] at hk
        rcases mem_replay' X.base _ _ k hk with hk' | ⟨e', he', rfl⟩
        · obtain ⟨y, hy⟩ := validateNew_mem X o _ ks k hk'
          rw [hy.2, npAtRiskN_normNew]; exact hkids y hy.1
        · obtain ⟨k', _, _, _, _, _, h5, _, _⟩ := implL_below X o _ _ _ e' he'
          cases hn : e'.node with
          | term => rfl
          | inner s' f' m' kk =>
            rw [hn] at h5; simp only [DNode.kids] at h5; subst h5
            rfl
    · intro he
      simp only [Out.append_evs, List.append_eq_nil_iff] at he
      have n1 := validateNew_quiet X o (cx.descend X.base before (.inner s f m ks)) ks hrf he.1.1
      have h2 : (implL X o (cx.descend X.base before (.inner s f m ks)).keysOld (X.kidsOf (some s))
          (validateNew X o (cx.descend X.base before (.inner s f m ks)) ks).1).1 = ks.map normNew := by
        rw [tr.tree, he.1.2, n1]; rfl
      have h3 := (hw (ks.map normNew) [] (by
        intro k hk bf
        apply subtreeNode_quiet X o hok fuel k _ bf
        obtain ⟨z, hz, rfl⟩ := List.mem_map.1 hk
        rw [npAtRiskN_normNew]; exact hkids z hz)).2
      rw [h2] at he
      simp only [obsN, h2, h3 he.2, obsL_map_normNew]
where
  mem_replay' (S : Schema) : ∀ (es : List Ev) (sibs : List DNode) (n : DNode), n ∈ replay S sibs es → n ∈ sibs ∨ ∃ e ∈ es, n = e.node
    | [], _, _, h => Or.inl h
    | e :: es, sibs, n, h => by
      rcases mem_replay' S es (insertNode S sibs e.node) n h with h' | ⟨e', he', h'⟩
      · rcases (mem_insertNode S sibs e.node n).1 h' with rfl | h''
        · exact Or.inr ⟨e, List.mem_cons_self .., rfl⟩
        · exact Or.inl h''
      · exact Or.inr ⟨e', List.mem_cons_of_mem _ he', h'⟩
  /-- what `lyd_validate_new` hands back was there (at most without `LYD_NEW`) -/
  validateNew_mem (X : SchemaX) (o : VOpts) (cx : Cx) (sibs : List DNode) (x : DNode) (hx : x ∈ (validateNew X o cx sibs).1) :
      ∃ y ∈ sibs, x = normNew y := by
    unfold validateNew at hx
    dsimp only at hx
    rcases newLoop_out X o cx.keysOld _ _ [] none (by omega) x hx with h | ⟨y, hy, h⟩
    · cases h
    · exact ⟨y, (choiceR_sub_L X cx _ sibs).1 y hy, h⟩

end LyModel.Valid

namespace LyModel.Valid
open LyModel LyModel.Tree

/-- every recorded change of the validation is a creation on the top level, on a node that is not user-ordered -/
def topCreates (X : SchemaX) (o : VOpts) (t : List DNode) : Bool :=
  (validate X o t).evs.all fun e => e.op == .create && e.anc.isEmpty && !X.base.isUserOrd e.node.sid

/-- **`valdiff_exact` for trees in ANY flag state whose validation only adds top-level defaults** -/
theorem valdiff_top_any (X : SchemaX) (o : VOpts) (fx : Diff.Fixes) (t : List DNode)
    (hok : OkBelowL X.base X.top) (hrisk : npAtRiskL X true true t t = false) (htop : topCreates X o t = true)
    (hv : (validate X o t).errs = []) (hpe : (o.present && t.isEmpty) = false) :
    valdiffExact X o fx t = true ∧ ∃ D, validateDiff X o t = some D ∧ D.length = (validate X o t).evs.length := by
  obtain ⟨htree, hevs⟩ := validate_evs_eq X o t hpe
  have htop' : ∀ e ∈ (validate X o t).evs, e.op = .create ∧ e.anc = [] ∧ X.base.isUserOrd e.node.sid = false := by
    intro e he
    have := List.all_eq_true.1 htop e he
    simp only [Bool.and_eq_true, List.isEmpty_iff, Bool.not_eq_true'] at this
    have hop : e.op = .create := by
      cases h : e.op with
      | create => rfl
      | delete => rw [h] at this; exact absurd this.1.1 (by decide)
    exact ⟨hop, this.1.2, this.2⟩
  -- `lyd_validate_new` on the top level records nothing (its events would be deletions)
  have n2 : (validateNew X o {} t).2.evs = [] := by
    cases hc : (validateNew X o {} t).2.evs with
    | nil => rfl
    | cons e es =>
      exfalso
      have he : e ∈ (validateNew X o {} t).2.evs := by rw [hc]; exact List.mem_cons_self ..
      have h1 := validateNew_ops X o {} t e he
      have h2 := (htop' e (by rw [hevs]; simp only [Out.append_evs, List.mem_append]; exact Or.inl (Or.inl (Or.inl he)))).1
      rw [h1] at h2; cases h2
  have n1 := validateNew_quiet X o {} t (riskFree_of_npAtRisk X t hrisk) n2
  have hkids := fun k hk => (npAtRiskL_false X true true t t hrisk k hk).2
  have tr := implL_tr X o {} X.top (validateNew X o {} t).1 hok
  have hw := walkList_quiet X.base (subtreeNode X o (walkFuel X t) {}) (implL X o {} X.top (validateNew X o {} t).1).1 []
    (by
      intro k hk bf
      apply subtreeNode_quiet X o hok (walkFuel X t) k _ bf
      rw [tr.tree] at hk
      rcases subtreeNode_quiet.mem_replay' X.base _ _ k hk with hk' | ⟨e', he', rfl⟩
      · rw [n1] at hk'
        obtain ⟨z, hz, rfl⟩ := List.mem_map.1 hk'
        rw [npAtRiskN_normNew]; exact hkids z hz
      · obtain ⟨k', _, _, _, _, _, h5, _, _⟩ := implL_below X o _ _ _ e' he'
        cases hn : e'.node with
        | term => rfl
        | inner s' f' m' kk =>
          rw [hn] at h5; simp only [DNode.kids] at h5; subst h5
          rfl)
  have h3 : (subtreeKids X o (walkFuel X t) {} [] (implL X o {} X.top (validateNew X o {} t).1).1).2.evs = [] := by
    cases hc : (subtreeKids X o (walkFuel X t) {} [] (implL X o {} X.top (validateNew X o {} t).1).1).2.evs with
    | nil => rfl
    | cons e es =>
      exfalso
      have he : e ∈ (subtreeKids X o (walkFuel X t) {} [] (implL X o {} X.top (validateNew X o {} t).1).1).2.evs := by
        rw [hc]; exact List.mem_cons_self ..
      have hin := htop' e (by rw [hevs]; simp only [Out.append_evs, List.mem_append]; exact Or.inl (Or.inr he))
      rcases hw.1 e he with h | h
      · rw [hin.1] at h; cases h
      · exact h hin.2.1
  have hevs' : (validate X o t).evs = (implL X o {} X.top (validateNew X o {} t).1).2.evs := by
    rw [hevs]
    simp only [Out.append_evs, n2, h3, finalR_evs, List.nil_append, List.append_nil]
  obtain ⟨D, r, hD, hap, hobs, hlen⟩ := implL_valdiff X o fx {} X.top (validateNew X o {} t).1 t rfl hok
    (by intro e he; exact (htop' e (by rw [hevs']; exact he)).2.2) (by rw [n1, obsL_map_normNew])
  have hvd : validateDiff X o t = some D := validateDiff_of_valDiff X o t D hv (by rw [hevs']; exact hD)
  refine ⟨?_, D, hvd, by rw [hevs']; exact hlen⟩
  unfold valdiffExact valdiffApply
  rw [hvd]
  simp only [hap]
  have : obsL X.base (validate X o t).tree = obsL X.base r := by
    rw [htree, finalR_obs, hobs]
    exact hw.2 h3
  rw [this]
  exact beqL_refl' _

end LyModel.Valid
