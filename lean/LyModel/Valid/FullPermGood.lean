import LyModel.Valid.FullPipe
import LyModel.Valid.LemmasPerm
/-!
# Reordering siblings keeps a freshly built tree freshly built

`goodL_perm`: `goodL` (every node carries exactly `LYD_NEW`, is an instance of a data node of its level, a term node iff its schema
node is a leaf / leaf-list, sibling lists shorter than 2³²) is invariant under `TreePerm`; so are the length, the height and the fuel
of the subtree walk.
-/
namespace LyModel.Valid
open LyModel LyModel.Tree

theorem length_perm {S : Schema} {t t' : List DNode} (h : TreePerm S t t') : t'.length = t.length := by
  induction h with
  | refl l => rfl
  | swap a b l _ _ => rfl
  | cons a _ ih => simp only [List.length_cons, ih]
  | kids s f m l _ _ => rfl
  | trans _ _ ih1 ih2 => exact ih2.trans ih1

theorem heightL_perm {S : Schema} {t t' : List DNode} (h : TreePerm S t t') : heightL t' = heightL t := by
  induction h with
  | refl l => rfl
  | swap a b l _ _ =>
    simp only [heightL]
    exact Nat.max_left_comm _ _ _
  | cons a _ ih => simp only [heightL, ih]
  | kids s f m l _ ih => simp only [heightL, DNode.height, ih]
  | trans _ _ ih1 ih2 => exact ih2.trans ih1

theorem walkFuel_perm (X : SchemaX) {t t' : List DNode} (h : TreePerm X.base t t') : walkFuel X t' = walkFuel X t := by
  unfold walkFuel
  rw [heightL_perm h]

/-- **a reordered fresh tree is a fresh tree of the schema** -/
theorem goodL_perm (X : SchemaX) {t t' : List DNode} (h : TreePerm X.base t t') :
    ∀ {sk : List STree}, goodL X sk t = true → goodL X sk t' = true := by
  induction h with
  | refl l => intro sk hg; exact hg
  | swap a b l _ _ =>
    intro sk hg
    unfold goodL goodL at hg ⊢
    simp only [Bool.and_eq_true] at hg ⊢
    exact ⟨hg.2.1, hg.1, hg.2.2⟩
  | cons a _ ih =>
    intro sk hg
    unfold goodL at hg ⊢
    simp only [Bool.and_eq_true] at hg ⊢
    exact ⟨hg.1, ih hg.2⟩
  | kids s f m l hks ih =>
    intro sk hg
    unfold goodL at hg ⊢
    simp only [Bool.and_eq_true, DNode.sid] at hg ⊢
    refine ⟨⟨hg.1.1, ?_⟩, hg.2⟩
    have h1 := hg.1.2
    rw [goodN_inner] at h1 ⊢
    exact ⟨h1.1, h1.2.1, h1.2.2.1, by rw [length_perm hks]; exact h1.2.2.2.1, ih h1.2.2.2.2⟩
  | trans _ _ ih1 ih2 => intro sk hg; exact ih2 (ih1 hg)

end LyModel.Valid
