import LyModel.Valid.FullSound
import LyModel.Valid.FullComplete
import LyModel.Valid.FullBuild
/-!
# C02, full schema language: `lyd_validate` against the specification (assembly of the level theorems at the top level)
-/
namespace LyModel.Valid
open LyModel LyModel.Tree

theorem validate_errs_pipe (X : SchemaX) (o : VOpts) (t : List DNode) (hpe : (o.present && t.isEmpty) = false) :
    (validate X o t).errs = pipeErrs X o (walkFuel X t) {} {} {} {} X.top t := by
  rw [VResult_errs_eq X o t hpe]
  unfold pipeErrs pipeTree subtreeKids finalR
  simp only [Out.append_errs, implL_errs, List.append_nil, List.append_assoc]

theorem belowL_top_id (X : SchemaX) : ∀ k, BelowL k X.top → BelowL k X.top := fun _ h => h

section main
variable (X : SchemaX) (o : VOpts) (hop : o.operational = false) (hU : UniqBridge X o) (hq : X.q.implicitInnerCase = false)
  (hl : KidsLookupOk X) (hio : InfoOk X) (hs : FullSane X o) (t : List DNode) (hg : goodL X X.top t = true)
  (hlen0 : t.length ≤ uint32Max) (hh : sheightL X.top ≤ walkFuel X t)
include hop hU hq hl hio hs hg hlen0 hh

/-- every logged error names a violated constraint family -/
theorem validate_full_sound : ∀ e ∈ (validate X o t).errs, e.kind ∈ violations X o t := by
  intro e he
  by_cases hpe : (o.present && t.isEmpty) = true
  · unfold validate at he
    simp only [hpe, if_true] at he
    cases he
  · have hpe' : (o.present && t.isEmpty) = false := by simpa using hpe
    rw [validate_errs_pipe X o t hpe'] at he
    unfold violations
    simp only [hpe', Bool.false_eq_true, if_false]
    rw [List.mem_append]
    left
    exact level_main_sound X o hop hU hq hl hio hs (walkFuel X t) X.top t {} {} {} {} hh (belowL_top_id X) hs.top rfl rfl hg hlen0 e he

/-- accepted iff valid -/
theorem validate_full_iff : (buildL X.base t = none ∧ (validate X o t).errs = []) ↔ Valid X o t := by
  have hfr : isFreshL t = true := goodL_fresh X X.top t hg
  unfold Valid
  by_cases hpe : (o.present && t.isEmpty) = true
  · have ht : t = [] := by
      simp only [Bool.and_eq_true, List.isEmpty_iff] at hpe; exact hpe.2
    subst ht
    unfold violations validate
    simp only [hpe, if_true, iff_true]
    exact ⟨rfl, rfl⟩
  · have hpe' : (o.present && t.isEmpty) = false := by simpa using hpe
    have hviol : violations X o t = specL X o X.top (explicitL t) := by
      unfold violations
      simp only [hpe', Bool.false_eq_true, if_false, dfltStateL_fresh X.base t hfr, Bool.and_false, List.append_nil]
    rw [hviol]
    constructor
    · rintro ⟨hb, he⟩
      apply List.eq_nil_iff_forall_not_mem.2
      intro K hK
      rcases level_main_complete X o hop hU hq hl hio hs (walkFuel X t) X.top t {} {} {} {} hh (belowL_top_id X) hs.top rfl rfl hg hlen0
        K hK with h | h
      · exact h hb
      · rw [← validate_errs_pipe X o t hpe'] at h
        exact h he
    · intro hv
      refine ⟨?_, ?_⟩
      · apply Classical.byContradiction
        intro hb
        rcases build_sound X o hl hio hs (walkFuel X t) X.top t hh (belowL_top_id X) hs.top hg hb with h | h
        · rw [hv] at h; cases h
        · rw [hv] at h; cases h
      · apply List.eq_nil_iff_forall_not_mem.2
        intro e he
        have := validate_full_sound X o hop hU hq hl hio hs t hg hlen0 hh e he
        rw [hviol, hv] at this
        cases this

end main

end LyModel.Valid
