import LyModel.Valid.XpLemmasW
import LyModel.Valid.XpTag
/-!
# The error-tag companion of `validateX_ok_iff_w`: every error of `validateX` is explained

when the `when` phase deletes nothing: by an error of `validate` of the same kind, by a violated XPath-dependent constraint of the
accessible tree, or by the `when` phase itself.
-/
namespace LyModel.Valid
open LyModel LyModel.Tree

theorem validateX_error_tag_w (X : SchemaX) (C : XCons) (o : VOpts) (t : List DNode) (hpe : (o.present && t.isEmpty) = false)
    (hacc : obsL X.base (validate X o t).tree = obsL X.base (rfcComplete X o t))
    (hcc : cfgClosedL X.base true (rfcComplete X o t) = true)
    (hev : (whenPhase X C o (preFinal X o t)).2.evs = []) :
    ∀ e ∈ (validateX X C o t).errs,
      (∃ e' ∈ (validate X o t).errs, e'.kind = e.kind) ∨
      (e.kind = .noMust ∧ EKind.noMust ∈ xpViolations X.base C (rfcComplete X o t)) ∨
      (e.kind = .xpErr ∧ (EKind.noMust ∈ xpViolations X.base C (rfcComplete X o t) ∨ e ∈ (whenPhase X C o (preFinal X o t)).2.errs)) ∨
      (e.kind = .noReqInst ∧ EKind.noReqInst ∈ xpViolations X.base C (rfcComplete X o t)) ∨
      (e.kind = .noWhen ∧ e ∈ (whenPhase X C o (preFinal X o t)).2.errs) := by
  intro e he
  have hsW : shapeL (whenPhase X C o (preFinal X o t)).1 = shapeL (preFinal X o t) := whenPhase_shape X C o _ hev
  have hsh : shapeL (preFinal X o t) = shapeL (rfcComplete X o t) := by
    rw [← shapeL_finalR X o {} (preFinal X o t), ← validate_tree_preFinal X o t hpe]
    exact shape_of_obs X.base hacc
  have hsh' : shapeL (whenPhase X C o (preFinal X o t)).1 = shapeL (rfcComplete X o t) := hsW.trans hsh
  have hcc' : cfgClosedL X.base true (whenPhase X C o (preFinal X o t)).1 = true := by
    rw [cfgClosedL_of_shape X.base hsh']; exact hcc
  rw [← xpViolations_of_shape X.base C hsh']
  rw [(xw_validateX_unfold X C o t hpe).1] at he
  rw [VResult_errs_eq X o t hpe]
  have hpf : preFinal X o t = (subtreeKids X o (walkFuel X t) {} [] (implL X o {} X.top (validateNew X o {} t).1).1).1 := rfl
  rw [← hpf]
  simp only [Out.append_errs, List.mem_append] at he ⊢
  rcases he with ((((he | he) | he) | he) | he) | he
  · exact Or.inl ⟨e, Or.inl (Or.inl (Or.inl he)), rfl⟩
  · exact Or.inl ⟨e, Or.inl (Or.inl (Or.inr he)), rfl⟩
  · exact Or.inl ⟨e, Or.inl (Or.inr he), rfl⟩
  · rcases whenPhase_kinds X C o _ e he with hk | hk
    · exact Or.inr (Or.inr (Or.inr (Or.inr ⟨hk, he⟩)))
    · exact Or.inr (Or.inr (Or.inl ⟨hk, Or.inr he⟩))
  · exact Or.inr (Or.inr (Or.inr (Or.inl (xt_lref_viol X C {} _ e he))))
  · rcases xt_finalRX_mem X C o {} _ e he with h | ⟨hk, hb⟩
    · left
      have hkin : e.kind ∈ xw_kinds (finalR X o {} (whenPhase X C o (preFinal X o t)).1).2 := by
        unfold xw_kinds; exact List.mem_map_of_mem h
      rw [xw_finalR_kinds X o {} hsW] at hkin
      unfold xw_kinds at hkin
      obtain ⟨e', he', hk'⟩ := List.mem_map.1 hkin
      exact ⟨e', Or.inr he', hk'⟩
    · have hv := xt_trav_viol X C o _ hcc' hb
      rcases hk with hk | hk
      · exact Or.inr (Or.inl ⟨hk, hv⟩)
      · exact Or.inr (Or.inr (Or.inl ⟨hk, Or.inl hv⟩))

end LyModel.Valid
