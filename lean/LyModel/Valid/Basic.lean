import LyModel.Valid.SchemaExt
import LyModel.Generated.ValidConsts
/-!
# Validation model, common part: options, errors, the change events of the validation diff, error paths

Every phase of the model is a total function that returns what it made of the siblings together with an `Out`: the change
events (`lyd_val_diff_add`) and the errors it logged, in order.  The model always *continues* after an error the way the C
does under `LYD_VALIDATE_MULTI_ERROR` (`LY_VAL_ERR_GOTO`); without that option libyang stops at the first error, which is
the head of the model's error list because both executions coincide up to that point.  A tree is handed back only when the
error list is empty.
Core Lean only.
-/
namespace LyModel.Valid
open LyModel LyModel.Tree

/-- `LYD_VALIDATE_*` (option bits: `LyModel.Generated.ValidConsts`) -/
structure VOpts where
  noState : Bool := false
  present : Bool := false
  multiError : Bool := false
  operational : Bool := false
  deriving Repr, BEq, DecidableEq, Inhabited

def hasBit (n bit : Nat) : Bool := n / bit % 2 == 1

def VOpts.ofNat (n : Nat) : VOpts :=
  { noState := hasBit n Generated.LYD_VALIDATE_NO_STATE, present := hasBit n Generated.LYD_VALIDATE_PRESENT,
    multiError := hasBit n Generated.LYD_VALIDATE_MULTI_ERROR, operational := hasBit n Generated.LYD_VALIDATE_OPERATIONAL }

/-- closed enum of the validation errors (`LY_VCODE_*` of ly_common.h; all carry `LYVE_DATA`) -/
inductive EKind where
  | dup | dupCase | noMand | noMandChoice | noMin | noMax | noUniq | unexpState | badValue | noKey
  /-- XPath-dependent constraints (LyModel/Valid/XpValid.lean): `must` false, leafref without target instance, `when` false on an
  explicit node, an expression that cannot be evaluated -/
  | noMust | noReqInst | noWhen | xpErr
  deriving Repr, BEq, DecidableEq, Inhabited

def EKind.name : EKind → String
  | .dup => "Dup" | .dupCase => "DupCase" | .noMand => "NoMand" | .noMandChoice => "NoMandChoice" | .noMin => "NoMin"
  | .noMax => "NoMax" | .noUniq => "NoUniq" | .unexpState => "UnexpState" | .badValue => "BadValue" | .noKey => "NoKey"
  | .noMust => "NoMust" | .noReqInst => "NoReqInst" | .noWhen => "NoWhen" | .xpErr => "Other"

/-- the error-app-tag `LOGVAL_APPTAG` attaches (RFC 7950 §15) -/
def EKind.appTag : EKind → String
  | .noMandChoice => "missing-choice" | .noMin => "too-few-elements" | .noMax => "too-many-elements"
  | .noUniq => "data-not-unique" | .noMust => "must-violation" | .noReqInst => "instance-required" | _ => "-"

structure VErr where
  kind : EKind
  /-- the data path of the error item, or `S` followed by the schema path when libyang has only a schema location -/
  path : Bytes
  deriving Repr, BEq, DecidableEq, Inhabited

def VErr.tok (e : VErr) : String := e.kind.name ++ ":" ++ e.kind.appTag ++ ":" ++ Hex.enc e.path

inductive EvOp where
  | create | delete
  deriving Repr, BEq, DecidableEq, Inhabited

/-- where a change event comes from: `lyd_new_implicit` and `lyd_validate_cases` hand a failure of `lyd_val_diff_add` on
(`LY_CHECK_RET`), `lyd_validate_autodel_node_del` ignores it -/
inductive EvSrc where
  | implicit | cases | autodel
  deriving Repr, BEq, DecidableEq, Inhabited

/-- one call of `lyd_val_diff_add(node, op, diff)` -/
structure Ev where
  op : EvOp
  /-- the ancestors of the node at that moment, outermost first (flags as they were; children dropped, list keys kept) -/
  anc : List DNode
  node : DNode
  /-- `yang:key` / `yang:value` / `yang:position` of a user-ordered create (the `orig-` ones of a delete in the repaired code) -/
  anchor : Option (String × Bytes) := none
  src : EvSrc := .autodel
  deriving Repr, Inhabited

/-- what a phase leaves behind, in the order it happened: change events and logged errors -/
inductive Item where
  | ev (e : Ev)
  | err (e : VErr)
  deriving Repr, Inhabited

structure Out where
  items : List Item := []
  deriving Repr, Inhabited

instance : Append Out := ⟨fun a b => { items := a.items ++ b.items }⟩

def Out.evs (o : Out) : List Ev := o.items.filterMap fun | .ev e => some e | .err _ => none
def Out.errs (o : Out) : List VErr := o.items.filterMap fun | .err e => some e | .ev _ => none

def Out.err (k : EKind) (path : Bytes) : Out := { items := [.err { kind := k, path := path }] }
def Out.ofEvs (evs : List Ev) : Out := { items := evs.map .ev }

@[simp] theorem Out.append_items (a b : Out) : (a ++ b).items = a.items ++ b.items := rfl
@[simp] theorem Out.append_errs (a b : Out) : (a ++ b).errs = a.errs ++ b.errs := by
  simp [Out.errs, List.filterMap_append]
@[simp] theorem Out.append_evs (a b : Out) : (a ++ b).evs = a.evs ++ b.evs := by
  simp [Out.evs, List.filterMap_append]
theorem Out.ext' {a b : Out} (h : a.items = b.items) : a = b := by
  cases a; cases b; simp_all
@[simp] theorem Out.empty_items : ({} : Out).items = [] := rfl
@[simp] theorem Out.empty_append (a : Out) : ({} : Out) ++ a = a := Out.ext' (by simp)
@[simp] theorem Out.append_empty (a : Out) : a ++ ({} : Out) = a := Out.ext' (by simp)
theorem Out.append_assoc (a b c : Out) : a ++ b ++ c = a ++ (b ++ c) := Out.ext' (by simp [List.append_assoc])
@[simp] theorem Out.ofEvs_nil : Out.ofEvs [] = {} := rfl
@[simp] theorem Out.empty_errs : ({} : Out).errs = [] := rfl
@[simp] theorem Out.empty_evs : ({} : Out).evs = [] := rfl

/-! ## where we are in the data tree -/

/-- the parent of the sibling list being processed -/
structure Cx where
  /-- data path of the parent (`[]` at the top level) -/
  path : Bytes := []
  /-- ancestors, outermost first, as `LYD_DUP_WITH_PARENTS` copies them -/
  anc : List DNode := []
  /-- schema id of the parent, `none` at the top level -/
  parent : Option Nat := none
  deriving Repr, Inhabited

def bs (s : String) : Bytes := bytesOfString s

def quoted (v : Bytes) : Bytes :=
  let q : UInt8 := if v.contains 39 then 34 else 39
  [q] ++ v ++ [q]

/-- `lyd_list_pos`: 1-based position among the instances of its schema node; `before` = the preceding siblings -/
def posOf (before : List DNode) (sid : Nat) : Nat := (before.filter (·.sid == sid)).length + 1

/-- predicates of `lyd_path(…, LYD_PATH_STD)`: keys of a keyed list, value of a configuration leaf-list, position of a
key-less list / state leaf-list instance -/
def predOf (S : Schema) (before : List DNode) (n : DNode) : Bytes :=
  match S.get? n.sid with
  | none => []
  | some sn =>
    match sn.kind with
    | .list =>
      if sn.nkeys == 0 then [91] ++ bs (toString (posOf before n.sid)) ++ [93]
      else (keysOf S n.kids).flatMap fun k => [91] ++ bs (S.name k.sid) ++ [61] ++ quoted k.val ++ [93]
    | .leaflist =>
      if sn.config then [91, 46, 61] ++ quoted n.val ++ [93]
      else [91] ++ bs (toString (posOf before n.sid)) ++ [93]
    | _ => []

/-- one step of a data path; the module name is printed on top-level nodes only (one module) -/
def segOf (S : Schema) (top : Bool) (before : List DNode) (n : DNode) : Bytes :=
  [47] ++ (if top then bs S.modName ++ [58] else []) ++ bs (S.name n.sid) ++ predOf S before n

def Cx.pathOf (cx : Cx) (S : Schema) (before : List DNode) (n : DNode) : Bytes :=
  cx.path ++ segOf S cx.parent.isNone before n

def clearNew (n : DNode) : DNode := n.setFlags { n.flags with new := false }

/-- `LYD_DUP_WITH_PARENTS` copy of a parent: no children except the keys of a list -/
def shallow (S : Schema) : DNode → DNode
  | .inner s f m ks => .inner s f m (keysOf S ks)
  | t => t

def Cx.descend (cx : Cx) (S : Schema) (before : List DNode) (n : DNode) : Cx :=
  { path := cx.pathOf S before n, anc := cx.anc ++ [shallow S n], parent := some n.sid }

/-- the context once `lyd_validate_new` has passed the keys of the parent (they come first): their `LYD_NEW` is gone, which
is what a later `LYD_DUP_WITH_PARENTS | LYD_DUP_WITH_FLAGS` copy of the parent shows -/
def Cx.keysOld (cx : Cx) : Cx :=
  match cx.anc.getLast? with
  | some p => { cx with anc := cx.anc.dropLast ++ [p.setKids (p.kids.map clearNew)] }
  | none => cx

/-- `lysc_path(node, LYSC_PATH_LOG)`: every schema ancestor (choice and case too), module name on the first step -/
def schemaPath (S : Schema) (sid : Nat) : Bytes :=
  let rec go (fuel : Nat) (sid : Nat) (acc : Bytes) : Bytes :=
    match fuel with
    | 0 => acc
    | fuel + 1 =>
      match sparent S sid with
      | none => [47] ++ bs S.modName ++ [58] ++ bs (S.name sid) ++ acc
      | some p => go fuel p ([47] ++ bs (S.name sid) ++ acc)
  go (S.nodes.length + 1) sid []

/-- error location when only a schema node is on libyang's location stack -/
def schemaLoc (S : Schema) (sid : Nat) : Bytes := [83] ++ schemaPath S sid

/-! ## small helpers over sibling lists -/

def instsOf (sibs : List DNode) (sid : Nat) : List DNode := sibs.filter (·.sid == sid)

def hasInst (sibs : List DNode) (sid : Nat) : Bool := sibs.any (·.sid == sid)

/-- data of a case / choice among the siblings (`lys_getnext_data` over the flattened schema children) -/
def inSids (ds : List Nat) (n : DNode) : Bool := ds.contains n.sid

/-- `lysc_is_np_cont` on the data node's schema -/
def isNpContD (S : Schema) (n : DNode) : Bool := S.isNpCont n.sid

def keyVals (S : Schema) (n : DNode) : List Bytes := (keysOf S n.kids).map (·.val)

end LyModel.Valid
