import LyModel.Valid.Implicit
/-!
# `lyd_validate_final_r` and `lyd_validate_siblings_schema_r` (validation.c)

Per sibling level: the checks of the nodes themselves (state data under `LYD_VALIDATE_NO_STATE`), then the schema-based
restrictions — the choices of the level first (`lyd_validate_mandatory` for a mandatory choice, recursion into the case
that has data), then per node `lyd_validate_minmax`, `lyd_validate_unique`, `lyd_validate_mandatory` — then the children,
and `lyd_np_cont_dflt_set` on the way back.
Core Lean only.
-/
namespace LyModel.Valid
open LyModel LyModel.Tree

/-! ## min-elements / max-elements -/

structure MM where
  count : Nat
  min : Nat
  /-- the instance the loop stopped at (`iter`), `none` when it ran off the end -/
  iter : Option (DNode × Nat)
  deriving Repr

/-- the counting loop of `lyd_validate_minmax` with its two early exits; instances travel with their sibling index -/
def minmaxLoop (max : Nat) : List (DNode × Nat) → (count min : Nat) → MM
  | [], count, min => ⟨count, min, none⟩
  | x :: xs, count, min =>
    let count := count + 1
    if min != 0 && count == min then
      -- satisfied
      if max == 0 then ⟨count, 0, some x⟩          -- nothing more to check
      else if count > max then ⟨count, 0, some x⟩
      else minmaxLoop max xs count 0
    else if max != 0 && count > max then ⟨count, min, some x⟩
    else minmaxLoop max xs count min

inductive MMVerdict where
  | ok | tooFew | tooMany (at_ : DNode × Nat)
  deriving Repr

/-- `lyd_validate_minmax(first, parent, snode, min, max, …)` on the instances of `snode` -/
def minmaxCheck (min max : Nat) (insts : List (DNode × Nat)) : MMVerdict :=
  let r := minmaxLoop max insts 0 min
  if r.min != 0 then .tooFew
  else if max != 0 && !(r.count ≤ max) then
    match r.iter with
    | some x => .tooMany x
    | none => .ok
  else .ok

/-- instances of `sid` with their index among the siblings -/
def instsIdx (sibs : List DNode) (sid : Nat) : List (DNode × Nat) := sibs.zipIdx.filter (·.1.sid == sid)

def uint32Max : Nat := 4294967295

def minmaxOut (S : Schema) (o : VOpts) (cx : Cx) (sibs : List DNode) (k : STree) : Out :=
  let i := k.info
  if i.min == 0 && i.max == 0 then {}
  else
    -- the compiled schema has UINT32_MAX for "unbounded"
    match minmaxCheck i.min (if i.max == 0 then uint32Max else i.max) (instsIdx sibs k.sid) with
    | .ok => {}
    | .tooFew => if o.operational then {} else Out.err .noMin (schemaLoc S k.sid)
    | .tooMany (n, idx) => if o.operational then {} else Out.err .noMax (cx.pathOf S (sibs.take idx) n)

/-! ## unique -/

/-- the data ancestors of `leaf` below the list `lst`, outermost first, `leaf` itself last -/
def uniqChain (S : Schema) (lst leaf : Nat) : List Nat :=
  let rec go (fuel : Nat) (sid : Nat) (acc : List Nat) : List Nat :=
    match fuel with
    | 0 => acc
    | fuel + 1 =>
      if sid == lst then acc
      else match S.dataParent sid with
        | some p => go fuel p (sid :: acc)
        | none => sid :: acc
  go (S.nodes.length + 1) leaf []

/-- `lyd_val_uniq_find_leaf` -/
def uniqFind (chain : List Nat) (inst : DNode) : Option DNode :=
  chain.foldl (fun (cur : Option DNode) sid => cur.bind fun n => n.kids.find? (·.sid == sid)) (some inst)

/-! The value of a leaf inside a list entry with RFC 7950 §7.6.1 "default in use": the leaf's instance, else its default if
every container on the way exists or is a non-presence container and every case on the way is the selected one (or the
default one when the choice has no data). -/

/-- does the case / choice with data ids `ds` have data among the siblings? -/
def hasData (sibs : List DNode) (ds : List Nat) : Bool := sibs.any (inSids ds)

/-- schema path (choice and case included) from one of `ks` down to the node `target` -/
def pathTo : (fuel : Nat) → List STree → Nat → Option (List STree)
  | 0, _, _ => none
  | _ + 1, [], _ => none
  | fuel + 1, k :: ks, target =>
    if k.sid == target then some [k]
    else match pathTo fuel k.kids target with
      | some p => some (k :: p)
      | none => pathTo fuel ks target

/-- walk the schema path inside the entry; `none` = the leaf has no value there and no default in use -/
def leafValInUse : List STree → (lvl : List DNode) → Option Bytes
  | [], _ => none
  | [leaf], lvl =>
    match lvl.find? (·.sid == leaf.sid) with
    | some d => some d.val
    | none => leaf.info.dflts.head?
  | k :: rest, lvl =>
    match k.info.kind with
    | .container =>
      match lvl.find? (·.sid == k.sid) with
      | some c => leafValInUse rest c.kids
      | none => if k.info.presence then none else leafValInUse rest []
    | .choice =>
      match rest with
      | cs :: rest' =>
        if hasData lvl k.dataSids then
          (if hasData lvl cs.dataSids then leafValInUse rest' lvl else none)
        else if k.info.dfltCase == some cs.info.name then leafValInUse rest' lvl
        else none
      | [] => none
    | _ => none


/-- the value the comparison uses: the instance's, else the schema default of the leaf — whatever the ancestors in the
defective code (F175), only when that default is in use in the repaired one (`lyd_val_uniq_dflt_in_use`) -/
def uniqVal (X : SchemaX) (lst : Nat) (inst : DNode) (leaf : Nat) : Option Bytes :=
  let S := X.base
  match uniqFind (uniqChain S lst leaf) inst with
  | some d => some d.val
  | none =>
    if X.q.uniqueDefaultAlways then (S.get? leaf).bind (·.dflts.head?)
    else
      match X.node? lst with
      | some lt => (pathTo (S.nodes.length + 1) lt.kids leaf).bind fun p => leafValInUse p inst.kids
      | none => none

/-- all values of one `unique` statement, `none` when one is missing ("unique set is incomplete") -/
def uniqTuple (X : SchemaX) (lst : Nat) (u : List Nat) (inst : DNode) : Option (List Bytes) :=
  u.mapM (uniqVal X lst inst)

/-- `lyd_val_uniq_list_equal` for one unique statement: every leaf set on both sides and equal, at least one leaf -/
def uniqEqual (X : SchemaX) (lst : Nat) (u : List Nat) (a b : DNode) : Bool :=
  !u.isEmpty && u.all fun leaf =>
    match uniqVal X lst a leaf, uniqVal X lst b leaf with
    | some x, some y => x == y
    | _, _ => false

/-- `lyht_insert(uniqtables[u], &inst, hash, NULL)` with the `lyd_val_uniq_list_equal` callback.  The table of unique statement
`u` holds, in insertion order, the instances seen so far whose tuple for `u` is complete (the others were skipped), each under
the hash of its tuple; the insert fails on the first record with the same hash that the callback calls equal. -/
def utFind (X : SchemaX) (lst : Nat) (hash : List Bytes → Nat) (u : List Nat) (seen : List (DNode × Nat)) (inst : DNode × Nat) :
    Option (DNode × Nat) :=
  match uniqTuple X lst u inst.1 with
  | none => none          -- skip this list instance since its unique set is incomplete
  | some vals =>
    seen.find? fun r =>
      match uniqTuple X lst u r.1 with
      | some rv => hash rv == hash vals && uniqEqual X lst u inst.1 r.1
      | none => false

/-- the hash-table path (more than two instances): instances in order, per instance every unique statement in order;
result = the instance found equal (the EARLIER one, `second` of the callback) -/
def uniqueHash (X : SchemaX) (lst : Nat) (hash : List Bytes → Nat) (uniques : List (List Nat)) :
    (seen rest : List (DNode × Nat)) → Option (DNode × Nat)
  | _, [] => none
  | seen, inst :: rest =>
    match uniques.findSome? (fun u => utFind X lst hash u seen inst) with
    | some hit => some hit
    | none => uniqueHash X lst hash uniques (seen ++ [inst]) rest

/-- `lyd_validate_unique`: nothing for fewer than two instances, the direct comparison for exactly two (reported on the
second), the hash tables otherwise (reported on the earlier instance) -/
def uniqueCheck (X : SchemaX) (lst : Nat) (hash : List Bytes → Nat) (uniques : List (List Nat)) (insts : List (DNode × Nat)) :
    Option (DNode × Nat) :=
  match insts with
  | [a, b] => if uniques.any (fun u => uniqEqual X lst u a.1 b.1) then some b else none
  | _ :: _ :: _ :: _ => uniqueHash X lst hash uniques [] insts
  | _ => none

def uniqueOut (X : SchemaX) (o : VOpts) (cx : Cx) (sibs : List DNode) (k : STree) : Out :=
  let us := X.uniquesOf k.sid
  if us.isEmpty || o.operational then {}
  else
    match uniqueCheck X k.sid (fun _ => 0) us (instsIdx sibs k.sid) with
    | some (n, idx) => Out.err .noUniq (cx.pathOf X.base (sibs.take idx) n)
    | none => {}

/-! ## mandatory -/

/-- location of `lyd_validate_mandatory`'s error: the data parent, or the schema node at the top level -/
def mandLoc (S : Schema) (cx : Cx) (sid : Nat) : Bytes :=
  if cx.parent.isNone then schemaLoc S sid else cx.path

/-! ## `lyd_validate_siblings_schema_r` -/

/-- the non-choice nodes of a level -/
def schemaNodes (X : SchemaX) (o : VOpts) (cx : Cx) (sibs : List DNode) : List STree → Out
  | [] => {}
  | k :: ks =>
    let i := k.info
    let o1 : Out :=
      if i.kind == .choice || (o.noState && !i.config) then {}
      else
        match i.kind with
        | .list => minmaxOut X.base o cx sibs k ++ uniqueOut X o cx sibs k
        | .leaflist => minmaxOut X.base o cx sibs k
        | _ =>
          if i.mandatory && !hasInst sibs k.sid && !o.operational then Out.err .noMand (mandLoc X.base cx k.sid) else {}
    o1 ++ schemaNodes X o cx sibs ks

mutual
/-- the choices of a level -/
def schemaChoices (X : SchemaX) (o : VOpts) (cx : Cx) (sibs : List DNode) : List STree → Out
  | [] => {}
  | k :: rest => schemaChoice X o cx sibs k ++ schemaChoices X o cx sibs rest
/-- a mandatory choice has data; the case that has data is validated -/
def schemaChoice (X : SchemaX) (o : VOpts) (cx : Cx) (sibs : List DNode) : STree → Out
  | .mk s i cases =>
    if i.kind != .choice || (o.noState && !i.config) then {}
    else
      let om : Out :=
        if i.mandatory && !(sibs.any (inSids (dataSidsL cases))) && !o.operational then
          Out.err .noMandChoice (mandLoc X.base cx s)
        else {}
      om ++ schemaCases X o cx sibs cases
/-- find the existing case, if any: validate only this case -/
def schemaCases (X : SchemaX) (o : VOpts) (cx : Cx) (sibs : List DNode) : List STree → Out
  | [] => {}
  | c :: rest =>
    if sibs.any (inSids c.dataSids) then schemaCase X o cx sibs c else schemaCases X o cx sibs rest
/-- the restrictions of a case: its own choices first, then its other nodes -/
def schemaCase (X : SchemaX) (o : VOpts) (cx : Cx) (sibs : List DNode) : STree → Out
  | .mk _ _ ks => schemaChoices X o cx sibs ks ++ schemaNodes X o cx sibs ks
end

/-- `lyd_validate_siblings_schema_r` for the schema children `ks`: the choices first, then the other nodes -/
def schemaRL (X : SchemaX) (o : VOpts) (cx : Cx) (sibs : List DNode) (ks : List STree) : Out :=
  schemaChoices X o cx sibs ks ++ schemaNodes X o cx sibs ks

/-! ## `lyd_validate_final_r` -/

/-- restrictions of the nodes themselves: no state data under `LYD_VALIDATE_NO_STATE` -/
def nodeChecks (S : Schema) (o : VOpts) (cx : Cx) : (before rest : List DNode) → Out
  | _, [] => {}
  | before, n :: ns =>
    (if o.noState && !S.config n.sid then Out.err .unexpState (cx.pathOf S before n) else {})
      ++ nodeChecks S o cx (before ++ [n]) ns

def levelChecks (X : SchemaX) (o : VOpts) (cx : Cx) (sibs : List DNode) : Out :=
  nodeChecks X.base o cx [] sibs ++ schemaRL X o cx sibs (X.kidsOf cx.parent)

/-- `lyd_np_cont_dflt_set`: a non-presence container all of whose children are default becomes default -/
def npSet (S : Schema) : DNode → DNode
  | .inner s f m ks => if S.isNpCont s && !f.dflt && ks.all (·.flags.dflt) then .inner s { f with dflt := true } m ks else .inner s f m ks
  | t => t

mutual
def finalNode (X : SchemaX) (o : VOpts) (cx : Cx) (before : List DNode) : DNode → DNode × Out
  | .inner s f m ks =>
    let cx' := cx.descend X.base before (.inner s f m ks)
    let o1 := levelChecks X o cx' ks
    let r := finalKids X o cx' [] ks
    (npSet X.base (.inner s f m r.1), o1 ++ r.2)
  | t => (t, {})
def finalKids (X : SchemaX) (o : VOpts) (cx : Cx) (before : List DNode) : List DNode → List DNode × Out
  | [] => ([], {})
  | n :: ns =>
    let r1 := finalNode X o cx before n
    let r2 := finalKids X o cx (before ++ [n]) ns
    (r1.1 :: r2.1, r1.2 ++ r2.2)
end

/-- `lyd_validate_final_r(first, parent, sparent, …)` -/
def finalR (X : SchemaX) (o : VOpts) (cx : Cx) (sibs : List DNode) : List DNode × Out :=
  let o1 := levelChecks X o cx sibs
  let r := finalKids X o cx [] sibs
  (r.1, o1 ++ r.2)

end LyModel.Valid
