import LyModel.Valid.XpLemmas
import LyModel.Valid.FullPipe
/-!
# In the accessible tree `config false` is inherited

`cfgClosed_rfcComplete`: for a freshly built instance of the schema (`goodL`) the explicit data plus the defaults in use
(`rfcComplete`) has state nodes only below state nodes — because `config false` is inherited in the schema (`FullSane.cfg`) and every
node of the completion is an instance of a schema node below its parent's schema node.  This discharges the hypothesis `hcc` of
`validateX_ok_iff`.
-/
namespace LyModel.Valid
open LyModel LyModel.Tree

theorem cfgClosedL_all (S : Schema) (b : Bool) : ∀ (l : List DNode), cfgClosedL S b l = true ↔ ∀ n ∈ l, cfgClosedN S b n = true := by
  intro l
  induction l with
  | nil => rw [cfgClosedL]; simp
  | cons x xs ih => rw [cfgClosedL, Bool.and_eq_true, ih]; simp

theorem cfgClosedN_npSet (S : Schema) (b : Bool) (n : DNode) : cfgClosedN S b (npSet S n) = cfgClosedN S b n := by
  rw [← cfgClosedN_shape S (npSet S n), shapeN_npSet, cfgClosedN_shape]

/-- the schema side: the nodes at or below the level are nodes of the schema, and below a state parent they are state nodes -/
structure CfgLevel (X : SchemaX) (sk : List STree) (pcfg : Bool) : Prop where
  top : ∀ k, BelowL k sk → BelowL k X.top
  st : pcfg = false → ∀ k, BelowL k sk → k.info.config = false

theorem cfg_of_info {X : SchemaX} (hio : InfoOk X) {k : STree} (hk : BelowL k X.top) : X.base.config k.sid = k.info.config :=
  (infoFacts_of_get X.base k (hio k hk)).cfg

/-- the level of the children of a node of the schema -/
theorem CfgLevel.kids {X : SchemaX} {o : VOpts} (hs : FullSane X o) {k : STree} (hk : BelowL k X.top) :
    CfgLevel X k.kids k.info.config :=
  ⟨fun _ hb => belowL_trans hk (below_of_kids hb), fun hc k' hb => hs.cfg k k' hk (below_of_kids hb) hc⟩

mutual
theorem dataSids_below : ∀ (t : STree) (sid : Nat), sid ∈ t.dataSids → ∃ k, Below k t ∧ k.sid = sid
  | .mk s i ks, sid, h => by
    rw [dataSids_mk] at h
    split at h
    · obtain ⟨k, hk, hs⟩ := dataSidsL_below ks sid h
      exact ⟨k, Below.kid _ _ _ _ hk, hs⟩
    · rw [List.mem_singleton] at h
      exact ⟨_, Below.self _, h.symm⟩
theorem dataSidsL_below : ∀ (l : List STree) (sid : Nat), sid ∈ dataSidsL l → ∃ k, BelowL k l ∧ k.sid = sid
  | [], sid, h => by rw [dataSidsL_nil] at h; cases h
  | t :: ts, sid, h => by
    rw [dataSidsL_cons, List.mem_append] at h
    rcases h with h | h
    · obtain ⟨k, hk, hs⟩ := dataSids_below t sid h
      exact ⟨k, BelowL.head _ _ _ hk, hs⟩
    · obtain ⟨k, hk, hs⟩ := dataSidsL_below ts sid h
      exact ⟨k, BelowL.tail _ _ _ hk, hs⟩
end

/-! ## the instance -/

mutual
theorem cfgClosedN_good (X : SchemaX) (o : VOpts) (hl : KidsLookupOk X) (hio : InfoOk X) (hs : FullSane X o) :
    ∀ (n : DNode) (sk : List STree) (pcfg : Bool), CfgLevel X sk pcfg → n.sid ∈ dataSidsL sk → goodN X n = true →
    cfgClosedN X.base pcfg n = true
  | .inner s f m ks, sk, pcfg, hL, hm, hg => by
    obtain ⟨k, hk, hks⟩ := dataSidsL_below sk s hm
    have hkt := hL.top k hk
    have hcfg : X.base.config s = k.info.config := by rw [← hks]; exact cfg_of_info hio hkt
    rw [goodN_inner] at hg
    rw [cfgClosedN, Bool.and_eq_true]
    constructor
    · cases pcfg with
      | true => rfl
      | false => rw [hcfg, hL.st rfl k hk]; rfl
    · have hgk := hg.2.2.2.2
      rw [← hks, hl k hkt] at hgk
      rw [hcfg]
      exact cfgClosedL_good X o hl hio hs ks k.kids k.info.config (CfgLevel.kids hs hkt) hgk
  | .term s f m v, sk, pcfg, hL, hm, _ => by
    obtain ⟨k, hk, hks⟩ := dataSidsL_below sk s hm
    have hkt := hL.top k hk
    have hcfg : X.base.config s = k.info.config := by rw [← hks]; exact cfg_of_info hio hkt
    rw [cfgClosedN]
    cases pcfg with
    | true => rfl
    | false => rw [hcfg, hL.st rfl k hk]; rfl
theorem cfgClosedL_good (X : SchemaX) (o : VOpts) (hl : KidsLookupOk X) (hio : InfoOk X) (hs : FullSane X o) :
    ∀ (l : List DNode) (sk : List STree) (pcfg : Bool), CfgLevel X sk pcfg → goodL X sk l = true → cfgClosedL X.base pcfg l = true
  | [], _, _, _, _ => by rw [cfgClosedL]
  | n :: ns, sk, pcfg, hL, hg => by
    unfold goodL at hg
    simp only [Bool.and_eq_true, List.contains_iff_mem] at hg
    rw [cfgClosedL, cfgClosedN_good X o hl hio hs n sk pcfg hL hg.1.1 hg.1.2, cfgClosedL_good X o hl hio hs ns sk pcfg hL hg.2]
    rfl
end

mutual
theorem cfgClosedN_explicit (S : Schema) (b : Bool) : ∀ (n n' : DNode), cfgClosedN S b n = true → explicitNode n = some n' →
    cfgClosedN S b n' = true
  | .inner s f m ks, n', h, he => by
    rw [explicitNode] at he
    split at he
    · cases he
    · injection he with he
      subst he
      rw [cfgClosedN, Bool.and_eq_true] at h ⊢
      exact ⟨h.1, cfgClosedL_explicit S _ ks h.2⟩
  | .term s f m v, n', h, he => by
    rw [explicitNode] at he
    split at he
    · cases he
    · injection he with he
      subst he
      rw [cfgClosedN] at h ⊢
      exact h
theorem cfgClosedL_explicit (S : Schema) (b : Bool) : ∀ (l : List DNode), cfgClosedL S b l = true → cfgClosedL S b (explicitL l) = true
  | [], _ => by rw [explicitL, cfgClosedL]
  | n :: ns, h => by
    rw [cfgClosedL, Bool.and_eq_true] at h
    rw [explicitL]
    cases he : explicitNode n with
    | none => exact cfgClosedL_explicit S b ns h.2
    | some n' =>
      dsimp only
      rw [cfgClosedL, cfgClosedN_explicit S b n n' h.1 he, cfgClosedL_explicit S b ns h.2]
      rfl
end

/-! ## the completion -/

theorem cfgClosedL_insert (S : Schema) (b : Bool) (l : List DNode) (n : DNode) (hl : cfgClosedL S b l = true)
    (hn : cfgClosedN S b n = true) : cfgClosedL S b (insertNode S l n) = true := by
  rw [cfgClosedL_all] at hl ⊢
  intro x hx
  rcases (mem_insertNode S l n x).1 hx with rfl | hx
  · exact hn
  · exact hl x hx

theorem cfgClosedL_foldInsert (S : Schema) (b : Bool) (s : Nat) (hs : (b || !S.config s) = true) : ∀ (ds : List Bytes) (l : List DNode),
    cfgClosedL S b l = true → cfgClosedL S b (ds.foldl (fun acc d => insertNode S acc (.term s dfltFlags [] d)) l) = true := by
  intro ds
  induction ds with
  | nil => intro l h; exact h
  | cons d ds ih =>
    intro l h
    rw [List.foldl_cons]
    exact ih _ (cfgClosedL_insert S b l _ h (by rw [cfgClosedN]; exact hs))

/-- replacing the children of the instances of a schema node by closed ones -/
theorem cfgClosedL_mapKids (S : Schema) (b : Bool) (s : Nat) (g : List DNode → List DNode) (np : Bool)
    (hg : ∀ ks, cfgClosedL S (S.config s) ks = true → cfgClosedL S (S.config s) (g ks) = true) (l : List DNode)
    (h : cfgClosedL S b l = true) :
    cfgClosedL S b (l.map fun n => if n.sid == s then (if np then npSet S (n.setKids (g n.kids)) else n.setKids (g n.kids)) else n) = true := by
  rw [cfgClosedL_all] at h ⊢
  intro x hx
  obtain ⟨n, hn, rfl⟩ := List.mem_map.1 hx
  have hcn := h n hn
  by_cases hs : (n.sid == s) = true
  · simp only [hs, if_true]
    have hset : cfgClosedN S b (n.setKids (g n.kids)) = true := by
      cases n with
      | inner s' f m ks =>
        have hs' : s' = s := by simpa [DNode.sid] using hs
        subst hs'
        simp only [DNode.setKids, DNode.kids]
        rw [cfgClosedN, Bool.and_eq_true] at hcn ⊢
        exact ⟨hcn.1, hg ks hcn.2⟩
      | term s' f m v => exact hcn
    cases np with
    | true => simp only [if_true]; rw [cfgClosedN_npSet]; exact hset
    | false => exact hset
  · simp only [hs, Bool.false_eq_true, if_false]
    exact hcn

mutual
theorem cfgClosed_rfcNode (X : SchemaX) (o : VOpts) (hio : InfoOk X) (hs : FullSane X o) :
    ∀ (t : STree) (sibs : List DNode) (pcfg : Bool), BelowL t X.top → (pcfg = false → t.info.config = false) →
    cfgClosedL X.base pcfg sibs = true → cfgClosedL X.base pcfg (rfcNode X o t sibs) = true
  | .mk s i ks, sibs, pcfg, ht, hst, h => by
    have hcfg : X.base.config s = i.config := cfg_of_info hio ht
    have hhead : (pcfg || !X.base.config s) = true := by
      cases pcfg with
      | true => rfl
      | false =>
        have hi : i.config = false := hst rfl
        rw [hcfg, hi]; rfl
    have hK : CfgLevel X ks i.config := CfgLevel.kids hs ht
    have hkids : ∀ l, cfgClosedL X.base (X.base.config s) l = true → cfgClosedL X.base (X.base.config s) (rfcL X o ks l) = true := by
      intro l hl
      rw [hcfg] at hl ⊢
      exact cfgClosed_rfcL X o hio hs ks l i.config hK.top hK.st hl
    rw [rfcNode]
    split
    · exact h
    · split
      · -- leaf
        split
        · exact cfgClosedL_insert _ _ _ _ h (by rw [cfgClosedN]; exact hhead)
        · exact h
      · -- leaf-list
        split
        · exact h
        · exact cfgClosedL_foldInsert _ _ _ hhead _ _ h
      · -- container
        split
        · exact cfgClosedL_mapKids X.base pcfg s (rfcL X o ks) true hkids sibs h
        · split
          · exact h
          · refine cfgClosedL_insert _ _ _ _ h ?_
            rw [cfgClosedN, Bool.and_eq_true]
            exact ⟨hhead, hkids [] (by rw [cfgClosedL])⟩
      · -- list
        exact cfgClosedL_mapKids X.base pcfg s (rfcL X o ks) false hkids sibs h
      · -- choice
        exact cfgClosed_rfcCases X o hio hs _ _ ks sibs pcfg (fun k hk => belowL_trans ht (below_of_kids hk))
          (fun hp k hk => by
            have := hst hp
            exact hs.cfg _ k ht (below_of_kids hk) this) h
      · -- case
        exact cfgClosed_rfcL X o hio hs ks sibs pcfg (fun k hk => belowL_trans ht (below_of_kids hk))
          (fun hp k hk => hs.cfg _ k ht (below_of_kids hk) (hst hp)) h
theorem cfgClosed_rfcL (X : SchemaX) (o : VOpts) (hio : InfoOk X) (hs : FullSane X o) :
    ∀ (sk : List STree) (sibs : List DNode) (pcfg : Bool), (∀ k, BelowL k sk → BelowL k X.top) →
    (pcfg = false → ∀ k, BelowL k sk → k.info.config = false) →
    cfgClosedL X.base pcfg sibs = true → cfgClosedL X.base pcfg (rfcL X o sk sibs) = true
  | [], sibs, _, _, _, h => by rw [rfcL]; exact h
  | k :: ks, sibs, pcfg, htop, hst, h => by
    rw [rfcL]
    refine cfgClosed_rfcL X o hio hs ks _ pcfg (fun k' hk' => htop k' (BelowL.tail _ _ _ hk'))
      (fun hp k' hk' => hst hp k' (BelowL.tail _ _ _ hk')) ?_
    exact cfgClosed_rfcNode X o hio hs k sibs pcfg (htop k (BelowL.head _ _ _ (Below.self _)))
      (fun hp => hst hp k (BelowL.head _ _ _ (Below.self _))) h
theorem cfgClosed_rfcCases (X : SchemaX) (o : VOpts) (hio : InfoOk X) (hs : FullSane X o) (dflt : Option String) (anyData : Bool) :
    ∀ (cs : List STree) (sibs : List DNode) (pcfg : Bool), (∀ k, BelowL k cs → BelowL k X.top) →
    (pcfg = false → ∀ k, BelowL k cs → k.info.config = false) →
    cfgClosedL X.base pcfg sibs = true → cfgClosedL X.base pcfg (rfcCases X o dflt anyData cs sibs) = true
  | [], sibs, _, _, _, h => by rw [rfcCases]; exact h
  | c :: rest, sibs, pcfg, htop, hst, h => by
    rw [rfcCases]
    have h1 := cfgClosed_rfcNode X o hio hs c sibs pcfg (htop c (BelowL.head _ _ _ (Below.self _)))
        (fun hp => hst hp c (BelowL.head _ _ _ (Below.self _))) h
    have h2 := cfgClosed_rfcCases X o hio hs dflt anyData rest sibs pcfg (fun k' hk' => htop k' (BelowL.tail _ _ _ hk'))
        (fun hp k' hk' => hst hp k' (BelowL.tail _ _ _ hk')) h
    split <;> split <;> first | exact h1 | exact h2
end

/-- **in the accessible tree of a freshly built instance, `config false` is inherited** -/
theorem cfgClosed_rfcComplete (X : SchemaX) (o : VOpts) (hl : KidsLookupOk X) (hio : InfoOk X) (hs : FullSane X o) (t : List DNode)
    (hg : goodL X X.top t = true) : cfgClosedL X.base true (rfcComplete X o t) = true := by
  unfold rfcComplete explicitPart
  have hL : CfgLevel X X.top true := ⟨fun _ h => h, fun h => by cases h⟩
  exact cfgClosed_rfcL X o hio hs X.top _ true hL.top hL.st
    (cfgClosedL_explicit _ _ _ (cfgClosedL_good X o hl hio hs t X.top true hL hg))

end LyModel.Valid
