import LyModel.Valid.FullPipe
import LyModel.Valid.FullDup
import LyModel.Valid.FullImpl2
/-!
# C02, full schema language: what is known about one sibling level after `lyd_validate_new`, `lyd_new_implicit` and the walk

`level_facts`: for a fresh sibling list `ks` of a sane level `sk` — `L1 = ks.map normNew` is what `lyd_validate_new` leaves,
`L2` what `lyd_new_implicit` makes of it, `L3 = pipeTree …` the result of the walk; `E = explicitL ks` the explicit data.
-/
namespace LyModel.Valid
open LyModel LyModel.Tree

theorem hasInst_explicit_fresh {ks : List DNode} (hfr : isFreshL ks = true) (sid : Nat) : hasInst (explicitL ks) sid = hasInst ks sid := by
  rw [explicitL_fresh ks hfr]
  exact hasInst_map_sid exN_sid ks sid

theorem hasInst_explicit_fresh_fun {ks : List DNode} (hfr : isFreshL ks = true) : hasInst (explicitL ks) = hasInst ks :=
  funext (hasInst_explicit_fresh hfr)

theorem normNew_dflt_fresh {y : DNode} (h : isFreshN y = true) : (normNew y).flags.dflt = false := by
  have hf := isFreshN_flags h
  unfold normNew clearNew
  rw [hf]
  cases y <;> rfl

/-- the facts about one level -/
structure LevelFacts (X : SchemaX) (o : VOpts) (fuel : Nat) (cx1 cx2 cx3 : Cx) (sk : List STree) (ks : List DNode) : Prop where
  r1tree : (validateNew X o cx1 ks).1 = ks.map normNew
  hE : hasInst (explicitL ks) = hasInst ks
  sel : Sel o (hasInst (explicitL ks)) (hasInst (pipeTree X o fuel cx1 cx2 cx3 sk ks)) sk
  cnt : LvCnt X.base (explicitL ks) (pipeTree X o fuel cx1 cx2 cx3 sk ks)
  /-- every explicit node is on the completed level -/
  keeps : ∀ y ∈ ks, normNew y ∈ (implL X o cx2 sk (ks.map normNew)).1
  /-- the nodes of the completed level: explicit ones, or implicit instances of schema nodes in use that had no instance -/
  cases : ∀ a ∈ (implL X o cx2 sk (ks.map normNew)).1, (∃ y ∈ ks, a = normNew y) ∨
    (hasInst ks a.sid = false ∧ wantL o (hasInst (explicitL ks)) sk a.sid = true ∧ ∃ k0, BelowL k0 sk ∧ ImplNodeOf k0 a)
  /-- a schema node in use has an instance on the completed level -/
  wanted : ∀ sid, wantL o (hasInst (explicitL ks)) sk sid = true → ∃ a ∈ (implL X o cx2 sk (ks.map normNew)).1, a.sid = sid
  tree : pipeTree X o fuel cx1 cx2 cx3 sk ks = (walkList (subtreeNode X o fuel cx3) [] (implL X o cx2 sk (ks.map normNew)).1).1
  sidL3 : ∀ sid, hasInst (pipeTree X o fuel cx1 cx2 cx3 sk ks) sid = hasInst (implL X o cx2 sk (ks.map normNew)).1 sid

theorem level_facts (X : SchemaX) (o : VOpts) (hop : o.operational = false) (hq : X.q.implicitInnerCase = false) (fuel : Nat)
    (cx1 cx2 cx3 : Cx) (sk : List STree) (ks : List DNode) (hls : LevelSane sk) (hg : goodL X sk ks = true)
    (hlen : ks.length ≤ uint32Max) (hio : ∀ k, BelowL k sk → X.base.get? k.sid = some k.info) :
    LevelFacts X o fuel cx1 cx2 cx3 sk ks := by
  have hfr : isFreshL ks = true := goodL_fresh X sk ks hg
  have hall := (isFreshL_all ks).1 hfr
  have hr1 := (validateNew_fresh_full X o cx1 hop ks hfr).1
  have hEf := hasInst_explicit_fresh_fun hfr
  have hL1 : ∀ sid, hasInst (ks.map normNew) sid = hasInst ks sid := fun sid => hasInst_map_sid normNew_sid ks sid
  have hL1f : hasInst (ks.map normNew) = hasInst ks := funext hL1
  have htree : pipeTree X o fuel cx1 cx2 cx3 sk ks = (walkList (subtreeNode X o fuel cx3) [] (implL X o cx2 sk (ks.map normNew)).1).1 := by
    unfold pipeTree; rw [hr1]
  have hrel := walkList_rel2_sid X o fuel cx3 (implL X o cx2 sk (ks.map normNew)).1 []
  have hsid3 : ∀ sid, hasInst (pipeTree X o fuel cx1 cx2 cx3 sk ks) sid = hasInst (implL X o cx2 sk (ks.map normNew)).1 sid := by
    intro sid; rw [htree]; exact rel2_hasInst hrel sid
  have hexact := implL_exact X o cx2 hq sk hls.kinds hls.nodup (ks.map normNew)
  have hnd1 : ∀ n ∈ ks.map normNew, n.flags.dflt = false := by
    intro n hn
    obtain ⟨y, hy, rfl⟩ := List.mem_map.1 hn
    exact normNew_dflt_fresh (hall y hy)
  refine ⟨hr1, hEf, ?_, ⟨?_, ?_, ?_⟩, ?_, ?_, ?_, htree, hsid3⟩
  · intro sid _
    rw [hsid3, hexact, hL1f, hEf]
  · intro sid hs
    rw [hEf] at hs
    rw [htree, rel2_instsOf_length hrel sid, implL_keepI X o cx2 sk (ks.map normNew) sid (by rw [hL1]; exact hs),
      instsOf_map_sid_length normNew_sid, explicitL_fresh ks hfr, instsOf_map_sid_length exN_sid]
  · rw [explicitL_fresh ks hfr, List.length_map]; exact hlen
  · intro sid hs
    rw [hEf] at hs
    have hc := implL_cnt X o cx2 sk (ks.map normNew) (dfltBound X.base)
      (fun k hk => by rw [dfltBound_of_get (hio k hk)]; exact Nat.le_refl _) sid
    have h0 : (instsOf (ks.map normNew) sid).length = 0 := instsOf_len_zero (by rw [hL1]; exact hs)
    rw [htree, rel2_instsOf_length hrel sid]
    omega
  · intro y hy
    exact implL_keeps X o cx2 sk _ _ (List.mem_map_of_mem hy)
  · intro a ha
    rcases implL_nodes_below X o cx2 sk (ks.map normNew) a ha with h | ⟨k0, hk0, hno⟩
    · left
      obtain ⟨y, hy, rfl⟩ := List.mem_map.1 h
      exact ⟨y, hy, rfl⟩
    · by_cases hmem : a ∈ ks.map normNew
      · left
        obtain ⟨y, hy, rfl⟩ := List.mem_map.1 hmem
        exact ⟨y, hy, rfl⟩
      · right
        have hd : a.flags.dflt = true := by rw [hno.2.1]; rfl
        have hni := implL_added_noInst X o cx2 sk (ks.map normNew) hnd1 a ha hd
        rw [hL1] at hni
        refine ⟨hni, ?_, k0, hk0, hno⟩
        have h3 : hasInst (implL X o cx2 sk (ks.map normNew)).1 a.sid = true := by
          unfold hasInst; exact List.any_eq_true.2 ⟨a, ha, by simp⟩
        rw [hexact, hL1, hni, Bool.false_or, hL1f, ← hEf] at h3
        exact h3
  · intro sid hw
    have h3 : hasInst (implL X o cx2 sk (ks.map normNew)).1 sid = true := by
      rw [hexact, hL1f, ← hEf, hw]; simp
    unfold hasInst at h3
    obtain ⟨a, ha, hs⟩ := List.any_eq_true.1 h3
    exact ⟨a, ha, by simpa using hs⟩

end LyModel.Valid
