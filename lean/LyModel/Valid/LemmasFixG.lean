import LyModel.Valid.LemmasCasesFix
import LyModel.Valid.LemmasCaseStable
/-!
# C07 idempotence for the REPAIRED `lyd_validate_cases` (F321, `casesCountDefault = false`), part 1: the invariant

`fxG ch l`: all nodes of the choice `ch` among the siblings `l` lie in one case (`fxOne`), or no case of `ch` has explicit data
(`fxNoExpl`).  The repaired step establishes it (unless it reports DUPCASE), every later phase of the validation keeps it, and on
siblings without new nodes it makes the step a no-op.
-/
namespace LyModel.Valid
open LyModel LyModel.Tree

mutual
/-- the choices `lyd_validate_choice_r` visits on a level: the choices of the level and, recursively, the ones in their cases -/
def fxChT : STree → List STree
  | .mk s i ks => if i.kind == .choice then .mk s i ks :: fxChCases ks else []
def fxChCases : List STree → List STree
  | [] => []
  | c :: rest => fxChCase c ++ fxChCases rest
def fxChCase : STree → List STree
  | .mk _ _ ks => fxChL ks
def fxChL : List STree → List STree
  | [] => []
  | k :: ks => fxChT k ++ fxChL ks
end

def fxOne (ch : STree) (l : List DNode) : Prop :=
  ∀ c ∈ ch.kids, ∀ n ∈ l, inSids c.dataSids n = true → ∀ n' ∈ l, inSids (dataSidsL ch.kids) n' = true → inSids c.dataSids n' = true

def fxNoExpl (ch : STree) (l : List DNode) : Prop :=
  ∀ n ∈ l, inSids (dataSidsL ch.kids) n = true → n.flags.dflt = true

def fxG (ch : STree) (l : List DNode) : Prop := fxOne ch l ∨ fxNoExpl ch l

/-- `l'` arises from `l` by removing nodes and turning explicit nodes into default ones -/
def fxSub (l' l : List DNode) : Prop := ∀ x ∈ l', ∃ y ∈ l, y.sid = x.sid ∧ (y.flags.dflt = true → x.flags.dflt = true)

theorem fxSub_refl (l : List DNode) : fxSub l l := fun x hx => ⟨x, hx, rfl, id⟩

theorem fxSub_trans {a b c : List DNode} (h1 : fxSub a b) (h2 : fxSub b c) : fxSub a c := by
  intro x hx
  obtain ⟨y, hy, e1, f1⟩ := h1 x hx
  obtain ⟨z, hz, e2, f2⟩ := h2 y hy
  exact ⟨z, hz, e2.trans e1, fun h => f1 (f2 h)⟩

theorem fxSub_of_mem {l' l : List DNode} (h : ∀ x ∈ l', x ∈ l) : fxSub l' l := fun x hx => ⟨x, h x hx, rfl, id⟩

theorem inSids_congr {ds : List Nat} {x y : DNode} (h : y.sid = x.sid) : inSids ds x = inSids ds y := by
  unfold inSids; rw [h]

theorem fxG_mono {ch : STree} {l' l : List DNode} (hs : fxSub l' l) (h : fxG ch l) : fxG ch l' := by
  rcases h with h | h
  · left
    intro c hc n hn hin n' hn' hin'
    obtain ⟨y, hy, e, _⟩ := hs n hn
    obtain ⟨y', hy', e', _⟩ := hs n' hn'
    rw [inSids_congr e'] at hin' ⊢
    rw [inSids_congr e] at hin
    exact h c hc y hy hin y' hy' hin'
  · right
    intro n hn hin
    obtain ⟨y, hy, e, f⟩ := hs n hn
    rw [inSids_congr e] at hin
    exact f (h y hy hin)

/-- adding default-flagged nodes of schema nodes outside the choice keeps the invariant -/
theorem fxG_add {ch : STree} {l l' : List DNode} (h : fxG ch l)
    (hadd : ∀ x ∈ l', x ∈ l ∨ (inSids (dataSidsL ch.kids) x = false)) : fxG ch l' := by
  rcases h with h | h
  · left
    intro c hc n hn hin n' hn' hin'
    have hnl : n ∈ l := by
      rcases hadd n hn with h1 | h1
      · exact h1
      · exfalso
        have : inSids (dataSidsL ch.kids) n = true := by
          unfold inSids at hin ⊢
          exact List.contains_iff_mem.2 (dataSids_sub_L hc _ (List.contains_iff_mem.1 hin))
        rw [h1] at this; cases this
    have hnl' : n' ∈ l := by
      rcases hadd n' hn' with h1 | h1
      · exact h1
      · rw [h1] at hin'; cases hin'
    exact h c hc n hnl hin n' hnl' hin'
  · right
    intro n hn hin
    rcases hadd n hn with h1 | h1
    · exact h n h1 hin
    · rw [h1] at hin; cases hin

theorem delCases_removes (X : SchemaX) (cx : Cx) (E : List DNode) (kf : Nat) : ∀ (cases : List STree) (sibs : List DNode),
    ∀ x ∈ (delCases X cx E kf cases sibs).1, ∀ c ∈ cases, caseFound E c ≠ kf → inSids c.dataSids x = false := by
  intro cases
  induction cases with
  | nil => intro sibs x _ c hc; cases hc
  | cons c0 rest ih =>
    intro sibs x hx c hc hne
    rw [delCases] at hx
    split at hx
    · rename_i hk
      rcases List.mem_cons.1 hc with rfl | hc'
      · exact absurd (by simpa using hk) hne
      · exact ih sibs x hx c hc' hne
    · rcases List.mem_cons.1 hc with rfl | hc'
      · have := delCases_sub X cx E kf rest _ x hx
        simp only [delSeq_fst, List.nil_append] at this
        have := (List.mem_filter.1 this).2
        simpa using this
      · exact ih _ x hx c hc' hne

/-- no DUPCASE ("data for both cases") among the logged errors -/
def noDupErr (es : List VErr) : Prop := ∀ e ∈ es, e.kind ≠ .dupCase

theorem noDupErr_append (a b : List VErr) : noDupErr (a ++ b) ↔ noDupErr a ∧ noDupErr b := by
  unfold noDupErr
  constructor
  · intro h; exact ⟨fun e he => h e (List.mem_append_left _ he), fun e he => h e (List.mem_append_right _ he)⟩
  · rintro ⟨h1, h2⟩ e he
    rcases List.mem_append.1 he with he | he
    · exact h1 e he
    · exact h2 e he

theorem noDupErr_nil : noDupErr [] := fun _ h => by cases h

/-- **the repaired step establishes the invariant** unless it reports DUPCASE -/
theorem casesStepFix_fxG (X : SchemaX) (cx : Cx) (ch : STree) (sibs : List DNode) (he : noDupErr (casesStepFix X cx ch sibs).2.errs) :
    fxG ch (casesStepFix X cx ch sibs).1 := by
  unfold casesStepFix at he ⊢
  cases hsc : scanCases (explSibs sibs) ch.kids none none with
  | none =>
    rw [hsc] at he
    exact absurd rfl (he { kind := .dupCase, path := schemaLoc X.base ch.sid } (by simp [Out.err, Out.errs]))
  | some p =>
    obtain ⟨old', new'⟩ := p
    obtain ⟨a1, a2, _, _, _, _⟩ := scanCases_some (explSibs sibs) ch.kids none none old' new' hsc
    -- the cases whose data stay: found = kf; there is at most one
    have key : ∀ kf, (kf = 2 ∧ new'.isSome = true ∨ kf = 1 ∧ new' = none) →
        fxOne ch (delCases X cx (explSibs sibs) kf ch.kids sibs).1 := by
      intro kf hkf c hc n hn hin n' hn' hin'
      have hf : caseFound (explSibs sibs) c = kf := by
        by_cases h : caseFound (explSibs sibs) c = kf
        · exact h
        · have := delCases_removes X cx _ kf ch.kids sibs n hn c hc h
          rw [this] at hin; cases hin
      obtain ⟨c', hc', hin''⟩ := mem_dataSidsL (List.contains_iff_mem.1 hin')
      have hf' : caseFound (explSibs sibs) c' = kf := by
        by_cases h : caseFound (explSibs sibs) c' = kf
        · exact h
        · have := delCases_removes X cx _ kf ch.kids sibs n' hn' c' hc' h
          unfold inSids at this
          rw [List.contains_iff_mem.2 hin''] at this; cases this
      have hcc : c' = c := by
        rcases hkf with ⟨rfl, _⟩ | ⟨rfl, _⟩
        · have e1 := a2 c hc hf
          have e2 := a2 c' hc' hf'
          rw [e1] at e2
          exact (Option.some.inj e2).symm
        · have e1 := a1 c hc hf
          have e2 := a1 c' hc' hf'
          rw [e1] at e2
          exact (Option.some.inj e2).symm
      rw [← hcc]
      unfold inSids
      exact List.contains_iff_mem.2 hin''
    cases old' with
    | none =>
      cases new' with
      | none =>
        right
        intro n hn hin
        cases hd : n.flags.dflt with
        | true => rfl
        | false =>
          exfalso
          obtain ⟨c, hc, hinc⟩ := mem_dataSidsL (List.contains_iff_mem.1 hin)
          have hE : n ∈ explSibs sibs := by
            unfold explSibs; exact List.mem_filter.2 ⟨hn, by simp [hd]⟩
          rcases caseFound_le (explSibs sibs) c with h0 | h1 | h2
          · have := caseFound_zero h0 n hE
            unfold inSids at this
            rw [List.contains_iff_mem.2 hinc] at this; cases this
          · have := a1 c hc h1; cases this
          · have := a2 c hc h2; cases this
      | some nw => exact Or.inl (key 2 (Or.inl ⟨rfl, rfl⟩))
    | some od =>
      cases new' with
      | none => exact Or.inl (key 1 (Or.inr ⟨rfl, rfl⟩))
      | some nw => exact Or.inl (key 2 (Or.inl ⟨rfl, rfl⟩))

end LyModel.Valid

namespace LyModel.Valid
open LyModel LyModel.Tree

theorem explSibs_noNew {sibs : List DNode} (hn : ∀ n ∈ sibs, n.flags.new = false) : ∀ n ∈ explSibs sibs, n.flags.new = false :=
  fun n h => hn n (explSibs_sub h).1

/-- **with the invariant, on siblings without new nodes, the repaired step does nothing and records nothing** -/
theorem casesStepFix_noop (X : SchemaX) (cx : Cx) (ch : STree) (sibs : List DNode) (hn : ∀ n ∈ sibs, n.flags.new = false)
    (hg : fxG ch sibs) : (casesStepFix X cx ch sibs).1 = sibs ∧ (casesStepFix X cx ch sibs).2.evs = [] := by
  unfold casesStepFix
  cases hsc : scanCases (explSibs sibs) ch.kids none none with
  | none => exact ⟨rfl, rfl⟩
  | some p =>
    obtain ⟨old', new'⟩ := p
    obtain ⟨a1, a2, _, _, a5, a6⟩ := scanCases_some (explSibs sibs) ch.kids none none old' new' hsc
    have hnew : new' = none := by
      rcases a6 with h | ⟨c, _, h2⟩
      · exact h
      · exact absurd h2 (caseFound_ne2 _ c (explSibs_noNew hn))
    subst hnew
    cases old' with
    | none => exact ⟨rfl, rfl⟩
    | some od =>
      have hno : ∀ c ∈ ch.kids, caseFound (explSibs sibs) c ≠ 1 → ∀ n ∈ sibs, inSids c.dataSids n = false := by
        intro c hc hne n hnm
        cases hin : inSids c.dataSids n with
        | false => rfl
        | true =>
          exfalso
          -- the old case has an explicit node
          obtain ⟨c1, hc1, hf1⟩ : ∃ c1 ∈ ch.kids, caseFound (explSibs sibs) c1 = 1 := by
            rcases a5 with h | h
            · cases h
            · exact h
          obtain ⟨z, hz, hzin⟩ := caseFound_one hf1
          obtain ⟨hzs, hzd⟩ := explSibs_sub hz
          have hzL : inSids (dataSidsL ch.kids) z = true := by
            unfold inSids at hzin ⊢
            exact List.contains_iff_mem.2 (dataSids_sub_L hc1 _ (List.contains_iff_mem.1 hzin))
          rcases hg with h1 | h2
          · -- all nodes of the choice are in `c`: so is the explicit one
            have := h1 c hc n hnm hin z hzs hzL
            rcases caseFound_of_inst hz this with h1' | h2'
            · exact hne h1'
            · exact caseFound_ne2 _ c (explSibs_noNew hn) h2'
          · have := h2 z hzs hzL
            rw [hzd] at this; cases this
      have h1 : (if (none : Option STree).isSome = true then 2 else 1) = 1 := rfl
      simp only [h1]
      rw [delCases_noop X cx _ 1 ch.kids sibs hno]
      exact ⟨rfl, rfl⟩

theorem casesStepQ_fix {X : SchemaX} (hq : X.q.casesCountDefault = false) (cx : Cx) (choice : STree) (sibs : List DNode) :
    casesStepQ X cx choice sibs = casesStepFix X cx choice sibs := by
  unfold casesStepQ
  rw [hq]; rfl

theorem mem_fxChT_self {s : Nat} {i : SNode} {ks : List STree} (h : i.kind = .choice) : STree.mk s i ks ∈ fxChT (.mk s i ks) := by
  rw [fxChT]; simp [h]

mutual
/-- `lyd_validate_choice_r` of the repaired variant, second run: nothing happens -/
theorem choiceR_fix_noop_T (X : SchemaX) (hq : X.q.casesCountDefault = false) (cx : Cx) : ∀ (t : STree) (sibs : List DNode),
    (∀ n ∈ sibs, n.flags.new = false) →
    ((∀ ch ∈ fxChT t, fxG ch sibs) → (choiceRNode X cx t sibs).1 = sibs ∧ (choiceRNode X cx t sibs).2.evs = []) ∧
    ((∀ ch ∈ fxChCase t, fxG ch sibs) → (choiceRCase X cx t sibs).1 = sibs ∧ (choiceRCase X cx t sibs).2.evs = [])
  | .mk s i ks, sibs, hn => by
    have ihL := choiceR_fix_noop_L X hq cx ks sibs hn
    constructor
    · intro hg
      rw [choiceRNode]
      split
      · rename_i hk
        have hk' : i.kind = .choice := by simpa using hk
        split
        · exact ⟨rfl, rfl⟩
        · rw [casesStepQ_fix hq]
          obtain ⟨h1, h2⟩ := casesStepFix_noop X cx (.mk s i ks) sibs hn (hg _ (mem_fxChT_self hk'))
          dsimp only
          have h3 := ihL.2 (by
            intro ch hch
            apply hg
            rw [fxChT]; simp only [hk, if_true]
            exact List.mem_cons_of_mem _ hch)
          rw [h1, Out.append_evs, h2, h3.1, h3.2]
          exact ⟨rfl, rfl⟩
      · exact ⟨rfl, rfl⟩
    · intro hg
      rw [choiceRCase]
      exact ihL.1 (by intro ch hch; apply hg; rw [fxChCase]; exact hch)
theorem choiceR_fix_noop_L (X : SchemaX) (hq : X.q.casesCountDefault = false) (cx : Cx) : ∀ (ks : List STree) (sibs : List DNode),
    (∀ n ∈ sibs, n.flags.new = false) →
    ((∀ ch ∈ fxChL ks, fxG ch sibs) → (choiceRL X cx ks sibs).1 = sibs ∧ (choiceRL X cx ks sibs).2.evs = []) ∧
    ((∀ ch ∈ fxChCases ks, fxG ch sibs) → (choiceRCases X cx ks sibs).1 = sibs ∧ (choiceRCases X cx ks sibs).2.evs = [])
  | [], sibs, _ => by
    rw [choiceRL, choiceRCases]
    exact ⟨fun _ => ⟨rfl, rfl⟩, fun _ => ⟨rfl, rfl⟩⟩
  | k :: rest, sibs, hn => by
    have ihT := choiceR_fix_noop_T X hq cx k sibs hn
    have ihL := choiceR_fix_noop_L X hq cx rest sibs hn
    constructor
    · intro hg
      rw [choiceRL]
      dsimp only
      have h1 := ihT.1 (by intro ch hch; apply hg; rw [fxChL]; exact List.mem_append_left _ hch)
      have h2 := ihL.1 (by intro ch hch; apply hg; rw [fxChL]; exact List.mem_append_right _ hch)
      rw [h1.1, Out.append_evs, h1.2, h2.1, h2.2]
      exact ⟨rfl, rfl⟩
    · intro hg
      rw [choiceRCases]
      dsimp only
      have h1 := ihT.2 (by intro ch hch; apply hg; rw [fxChCases]; exact List.mem_append_left _ hch)
      have h2 := ihL.2 (by intro ch hch; apply hg; rw [fxChCases]; exact List.mem_append_right _ hch)
      rw [h1.1, Out.append_evs, h1.2, h2.1, h2.2]
      exact ⟨rfl, rfl⟩
end

mutual
/-- `lyd_validate_choice_r` of the repaired variant establishes the invariant for every choice it visits (unless DUPCASE is reported) -/
theorem choiceR_fix_est_T (X : SchemaX) (hq : X.q.casesCountDefault = false) (cx : Cx) : ∀ (t : STree) (sibs : List DNode),
    (noDupErr (choiceRNode X cx t sibs).2.errs → (∀ ch ∈ fxChT t, fxG ch (choiceRNode X cx t sibs).1) ∧ fxSub (choiceRNode X cx t sibs).1 sibs) ∧
    (noDupErr (choiceRCase X cx t sibs).2.errs → (∀ ch ∈ fxChCase t, fxG ch (choiceRCase X cx t sibs).1) ∧ fxSub (choiceRCase X cx t sibs).1 sibs)
  | .mk s i ks, sibs => by
    constructor
    · intro he
      rw [choiceRNode] at he ⊢
      by_cases hk : (i.kind == .choice) = true
      · simp only [hk, if_true] at he ⊢
        by_cases hem : sibs.isEmpty = true
        · simp only [hem, if_true]
          have : sibs = [] := List.isEmpty_iff.1 hem
          subst this
          refine ⟨?_, fxSub_refl _⟩
          intro ch _
          exact Or.inr (fun n hn => by cases hn)
        · have hem' : sibs.isEmpty = false := by simpa using hem
          simp only [hem', Bool.false_eq_true, if_false] at he ⊢
          rw [casesStepQ_fix hq] at he ⊢
          rw [Out.append_errs, noDupErr_append] at he
          have g1 := casesStepFix_fxG X cx (.mk s i ks) sibs he.1
          have s1 : fxSub (casesStepFix X cx (.mk s i ks) sibs).1 sibs := fxSub_of_mem (casesStepFix_sub X cx _ sibs)
          obtain ⟨g2, s2⟩ := (choiceR_fix_est_L X hq cx ks (casesStepFix X cx (.mk s i ks) sibs).1).2 he.2
          refine ⟨?_, fxSub_trans s2 s1⟩
          intro ch hch
          rw [fxChT] at hch
          simp only [hk, if_true] at hch
          rcases List.mem_cons.1 hch with rfl | hch'
          · exact fxG_mono s2 g1
          · exact g2 ch hch'
      · have hk' : (i.kind == .choice) = false := by simpa using hk
        simp only [hk', Bool.false_eq_true, if_false]
        refine ⟨?_, fxSub_refl _⟩
        intro ch hch
        rw [fxChT] at hch
        simp [hk'] at hch
    · intro he
      rw [choiceRCase] at he ⊢
      obtain ⟨g, s'⟩ := (choiceR_fix_est_L X hq cx ks sibs).1 he
      exact ⟨fun ch hch => g ch (by rw [fxChCase] at hch; exact hch), s'⟩
theorem choiceR_fix_est_L (X : SchemaX) (hq : X.q.casesCountDefault = false) (cx : Cx) : ∀ (ks : List STree) (sibs : List DNode),
    (noDupErr (choiceRL X cx ks sibs).2.errs → (∀ ch ∈ fxChL ks, fxG ch (choiceRL X cx ks sibs).1) ∧ fxSub (choiceRL X cx ks sibs).1 sibs) ∧
    (noDupErr (choiceRCases X cx ks sibs).2.errs → (∀ ch ∈ fxChCases ks, fxG ch (choiceRCases X cx ks sibs).1) ∧ fxSub (choiceRCases X cx ks sibs).1 sibs)
  | [], sibs => by
    rw [choiceRL, choiceRCases]
    exact ⟨fun _ => ⟨fun ch hch => (by rw [fxChL] at hch; cases hch), fxSub_refl _⟩,
      fun _ => ⟨fun ch hch => (by rw [fxChCases] at hch; cases hch), fxSub_refl _⟩⟩
  | k :: rest, sibs => by
    constructor
    · intro he
      rw [choiceRL] at he ⊢
      dsimp only at he ⊢
      rw [Out.append_errs, noDupErr_append] at he
      obtain ⟨g1, s1⟩ := (choiceR_fix_est_T X hq cx k sibs).1 he.1
      obtain ⟨g2, s2⟩ := (choiceR_fix_est_L X hq cx rest (choiceRNode X cx k sibs).1).1 he.2
      refine ⟨?_, fxSub_trans s2 s1⟩
      intro ch hch
      rw [fxChL] at hch
      rcases List.mem_append.1 hch with h | h
      · exact fxG_mono s2 (g1 ch h)
      · exact g2 ch h
    · intro he
      rw [choiceRCases] at he ⊢
      dsimp only at he ⊢
      rw [Out.append_errs, noDupErr_append] at he
      obtain ⟨g1, s1⟩ := (choiceR_fix_est_T X hq cx k sibs).2 he.1
      obtain ⟨g2, s2⟩ := (choiceR_fix_est_L X hq cx rest (choiceRCase X cx k sibs).1).2 he.2
      refine ⟨?_, fxSub_trans s2 s1⟩
      intro ch hch
      rw [fxChCases] at hch
      rcases List.mem_append.1 hch with h | h
      · exact fxG_mono s2 (g1 ch h)
      · exact g2 ch h
end

end LyModel.Valid
