import LyModel.Valid.Implicit
/-! Helper lemmas about `lyd_new_implicit` (C07): every change event is the creation of a default node with a schema default value. -/
namespace LyModel.Valid
open LyModel LyModel.Tree

/-- the property of a change event: creation of a node flagged default (only), without children, which — if terminal — has a
schema default value of its schema node `k` -/
def IsImplicitOf (k : STree) (e : Ev) : Prop :=
  e.op = .create ∧ e.src = .implicit ∧ e.node.sid = k.sid ∧ e.node.flags = dfltFlags ∧ e.node.kids = [] ∧
    (e.node.isTerm = true → e.node.val ∈ k.info.dflts) ∧ (e.node.isTerm = false → k.isNpCont = true)

def IsImplicit (ks : List STree) (e : Ev) : Prop := ∃ k, k ∈ ks ∧ IsImplicitOf k e

theorem addImplicit_evs (S : Schema) (cx : Cx) (sibs : List DNode) (n : DNode) :
    ∃ a, (addImplicit S cx sibs n).2.evs = [{ op := .create, anc := cx.anc, node := n, anchor := a, src := .implicit }] := by
  unfold addImplicit
  exact ⟨_, rfl⟩

theorem implLeafList_evs (S : Schema) (cx : Cx) (k : STree) : ∀ (ds : List Bytes) (acc : List DNode × Out),
    (∀ d ∈ ds, d ∈ k.info.dflts) → (∀ e ∈ acc.2.evs, IsImplicitOf k e) →
    ∀ e ∈ (implLeafList S cx k.sid ds acc).2.evs, IsImplicitOf k e := by
  intro ds
  induction ds with
  | nil => intro acc _ h; simpa [implLeafList] using h
  | cons d ds ih =>
    intro acc hd h
    unfold implLeafList
    apply ih
    · intro d' hd'; exact hd d' (List.mem_cons_of_mem _ hd')
    · intro e he
      simp only [Out.append_evs, List.mem_append] at he
      rcases he with he | he
      · exact h e he
      · obtain ⟨a, ha⟩ := addImplicit_evs S cx acc.1 (.term k.sid dfltFlags [] d)
        rw [ha] at he
        simp only [List.mem_singleton] at he
        subst he
        refine ⟨rfl, rfl, rfl, rfl, rfl, ?_, ?_⟩
        · intro _; exact hd d (List.mem_cons_self ..)
        · intro h; cases h

/-- one schema node: only a default leaf, default leaf-list instances or a non-presence container are created -/
theorem implNode_evs (S : Schema) (o : VOpts) (cx : Cx) (k : STree) (sibs : List DNode) :
    ∀ e ∈ (implNode S o cx k sibs).2.evs, IsImplicitOf k e := by
  intro e he
  unfold implNode at he
  dsimp only at he
  split at he
  · simp at he
  · cases hkind : k.info.kind with
    | container =>
      simp only [hkind] at he
      split at he
      · simp at he
      · rename_i hp
        obtain ⟨a, ha⟩ := addImplicit_evs S cx sibs (.inner k.sid dfltFlags [] [])
        rw [ha] at he
        simp only [List.mem_singleton] at he
        subst he
        refine ⟨rfl, rfl, rfl, rfl, rfl, ?_, ?_⟩
        · intro h; cases h
        · intro _; simp [STree.isNpCont, hkind, hp]
    | leaf =>
      simp only [hkind] at he
      split at he
      · rename_i d ds hd
        obtain ⟨a, ha⟩ := addImplicit_evs S cx sibs (.term k.sid dfltFlags [] d)
        rw [ha] at he
        simp only [List.mem_singleton] at he
        subst he
        refine ⟨rfl, rfl, rfl, rfl, rfl, ?_, ?_⟩
        · intro _; rw [hd]; exact List.mem_cons_self ..
        · intro h; cases h
      · simp at he
    | leaflist =>
      simp only [hkind] at he
      exact implLeafList_evs S cx k k.info.dflts (sibs, {}) (fun d hd => hd) (by simp) e he
    | list => simp [hkind] at he
    | choice => simp [hkind] at he
    | case => simp [hkind] at he

/-- the non-choice nodes of a level: only default leaves, default leaf-list instances and non-presence containers are created -/
theorem implNodes_evs (S : Schema) (o : VOpts) (cx : Cx) : ∀ (ks : List STree) (sibs : List DNode),
    ∀ e ∈ (implNodes S o cx ks sibs).2.evs, IsImplicit ks e := by
  intro ks
  induction ks with
  | nil => intro sibs e he; simp [implNodes] at he
  | cons k ks ih =>
    intro sibs e he
    unfold implNodes at he
    simp only [Out.append_evs, List.mem_append] at he
    rcases he with he | he
    · exact ⟨k, List.mem_cons_self .., implNode_evs S o cx k sibs e he⟩
    · obtain ⟨k', hk', h⟩ := ih _ e he
      exact ⟨k', List.mem_cons_of_mem _ hk', h⟩

end LyModel.Valid

namespace LyModel.Valid
open LyModel LyModel.Tree

/-! ## membership in the result of `lyd_insert_node` -/

theorem mem_insertBySchema (n : DNode) : ∀ (l : List DNode) (x : DNode), x ∈ insertBySchema n l ↔ x = n ∨ x ∈ l := by
  intro l
  induction l with
  | nil => intro x; simp [insertBySchema]
  | cons y ys ih =>
    intro x
    unfold insertBySchema
    split
    · simp
    · simp only [List.mem_cons, ih]
      constructor
      · rintro (h | h | h) <;> simp [h]
      · rintro (h | h | h) <;> simp [h]

theorem mem_insertSorted (S : Schema) (n : DNode) : ∀ (l : List DNode) (x : DNode), x ∈ insertSorted S n l ↔ x = n ∨ x ∈ l := by
  intro l
  induction l with
  | nil => intro x; simp [insertSorted]
  | cons y ys ih =>
    intro x
    unfold insertSorted
    split
    · simp
    · split
      · simp
      · simp only [List.mem_cons, ih]
        constructor
        · rintro (h | h | h) <;> simp [h]
        · rintro (h | h | h) <;> simp [h]

theorem mem_insertNode (S : Schema) (l : List DNode) (n x : DNode) : x ∈ insertNode S l n ↔ x = n ∨ x ∈ l := by
  unfold insertNode
  split
  · exact mem_insertSorted S n l x
  · exact mem_insertBySchema n l x

theorem hasInst_insertNode (S : Schema) (l : List DNode) (n : DNode) (sid : Nat) :
    hasInst (insertNode S l n) sid = (n.sid == sid || hasInst l sid) := by
  unfold hasInst
  rw [Bool.eq_iff_iff]
  simp only [List.any_eq_true, Bool.or_eq_true, mem_insertNode]
  constructor
  · rintro ⟨x, hx | hx, h⟩
    · subst hx; exact Or.inl h
    · exact Or.inr ⟨x, hx, h⟩
  · rintro (h | ⟨x, hx, h⟩)
    · exact ⟨n, Or.inl rfl, h⟩
    · exact ⟨x, Or.inr hx, h⟩

/-! ## every event of `lyd_new_implicit` is the creation of a default node (mutual induction over the schema recursion) -/

mutual
/-- `k` is `t` or a schema descendant of it -/
inductive Below : STree → STree → Prop where
  | self (t : STree) : Below t t
  | kid (k : STree) (s : Nat) (i : SNode) (ks : List STree) : BelowL k ks → Below k (.mk s i ks)
inductive BelowL : STree → List STree → Prop where
  | head (k t : STree) (ts : List STree) : Below k t → BelowL k (t :: ts)
  | tail (k t : STree) (ts : List STree) : BelowL k ts → BelowL k (t :: ts)
end

theorem BelowL.of_mem {k : STree} {ks : List STree} (h : k ∈ ks) : BelowL k ks := by
  induction ks with
  | nil => cases h
  | cons t ts ih =>
    cases h with
    | head => exact BelowL.head _ _ _ (Below.self _)
    | tail _ h => exact BelowL.tail _ _ _ (ih h)

/-- all events of an output are implicit creations of schema nodes below `ks` -/
def EvsBelowL (ks : List STree) (out : Out) : Prop := ∀ e ∈ out.evs, ∃ k, BelowL k ks ∧ IsImplicitOf k e
def EvsBelow (t : STree) (out : Out) : Prop := ∀ e ∈ out.evs, ∃ k, Below k t ∧ IsImplicitOf k e

theorem EvsBelowL.empty (ks : List STree) : EvsBelowL ks {} := by intro e he; simp at he
theorem EvsBelow.empty (t : STree) : EvsBelow t {} := by intro e he; simp at he

theorem EvsBelowL.append {ks : List STree} {a b : Out} (ha : EvsBelowL ks a) (hb : EvsBelowL ks b) : EvsBelowL ks (a ++ b) := by
  intro e he
  simp only [Out.append_evs, List.mem_append] at he
  rcases he with he | he
  · exact ha e he
  · exact hb e he

theorem EvsBelowL.cons_head {t : STree} {ts : List STree} {a : Out} (h : EvsBelow t a) : EvsBelowL (t :: ts) a := by
  intro e he
  obtain ⟨k, hk, hi⟩ := h e he
  exact ⟨k, BelowL.head _ _ _ hk, hi⟩

theorem EvsBelowL.cons_tail {t : STree} {ts : List STree} {a : Out} (h : EvsBelowL ts a) : EvsBelowL (t :: ts) a := by
  intro e he
  obtain ⟨k, hk, hi⟩ := h e he
  exact ⟨k, BelowL.tail _ _ _ hk, hi⟩

theorem EvsBelow.of_kids {s : Nat} {i : SNode} {ks : List STree} {a : Out} (h : EvsBelowL ks a) : EvsBelow (.mk s i ks) a := by
  intro e he
  obtain ⟨k, hk, hi⟩ := h e he
  exact ⟨k, Below.kid _ _ _ _ hk, hi⟩

theorem implNodes_below (S : Schema) (o : VOpts) (cx : Cx) (ks : List STree) (sibs : List DNode) :
    EvsBelowL ks (implNodes S o cx ks sibs).2 := by
  intro e he
  obtain ⟨k, hk, hi⟩ := implNodes_evs S o cx ks sibs e he
  exact ⟨k, BelowL.of_mem hk, hi⟩

/-- **every change `lyd_new_implicit` makes is the creation of a default node**: flagged default only, without children, a
non-presence container or a terminal node carrying a default value of its schema node — whichever variant of the code -/
theorem implChoices_below (X : SchemaX) (o : VOpts) (cx : Cx) (ks : List STree) (sibs : List DNode) :
    EvsBelowL ks (implChoices X o cx ks sibs).2 := by
  apply implChoices.induct X o cx
    (motive_1 := fun ks sibs => EvsBelowL ks (implChoices X o cx ks sibs).2)
    (motive_2 := fun t sibs => EvsBelow t (implChoice X o cx t sibs).2)
    (motive_3 := fun sid ks sibs => EvsBelowL ks (implCaseHolding X o cx sid ks sibs).2)
    (motive_4 := fun t sibs => EvsBelow t (implCase X o cx t sibs).2)
    (motive_5 := fun target ks sibs => EvsBelowL ks (implInto X o cx target ks sibs).2)
    (motive_6 := fun target t sibs => EvsBelow t (implIntoCase X o cx target t sibs).2)
    (motive_7 := fun target ks sibs => EvsBelowL ks (implIntoKids X o cx target ks sibs).2)
    (motive_8 := fun target t sibs => EvsBelow t (implIntoChoice X o cx target t sibs).2)
    (motive_9 := fun nm ks sibs => EvsBelowL ks (implCaseNamed X o cx nm ks sibs).2)
  -- implChoice
  · intro sid i cases sibs h
    unfold implChoice; simp only [h, if_true]; exact EvsBelow.empty _
  · intro sid i cases sibs h hfd nm hnm ih
    unfold implChoice; simp only [h, Bool.false_eq_true, if_false, hfd, hnm]; exact EvsBelow.of_kids ih
  · intro sid i cases sibs h hfd hnm
    unfold implChoice; simp only [h, Bool.false_eq_true, if_false, hfd, hnm]; exact EvsBelow.empty _
  · intro sid i cases sibs h node hfd hq target ht ih
    unfold implChoice; simp only [h, Bool.false_eq_true, if_false, hfd, hq, if_true, ht]; exact EvsBelow.of_kids ih
  · intro sid i cases sibs h node hfd hq ht
    unfold implChoice; simp only [h, Bool.false_eq_true, if_false, hfd, hq, if_true, ht]; exact EvsBelow.empty _
  · intro sid i cases sibs h node hfd hq ih
    unfold implChoice; simp only [h, Bool.false_eq_true, if_false, hfd, hq]; exact EvsBelow.of_kids ih
  -- implCase
  · intro sid i cases sibs ih
    unfold implCase
    exact EvsBelow.of_kids (EvsBelowL.append ih (implNodes_below _ _ _ _ _))
  -- implIntoCase
  · intro target sid i cases sibs ih
    unfold implIntoCase; exact EvsBelow.of_kids ih
  -- implIntoChoice
  · intro target sid i cases sibs h ih
    unfold implIntoChoice; simp only [h, if_true]; exact EvsBelow.of_kids ih
  · intro target sid i cases sibs h
    unfold implIntoChoice; simp only [h, Bool.false_eq_true, if_false]; exact EvsBelow.empty _
  -- implChoices
  · intro sibs; unfold implChoices; exact EvsBelowL.empty _
  · intro k ks sibs _ ih1 ih2
    unfold implChoices
    exact EvsBelowL.append (EvsBelowL.cons_head ih1) (EvsBelowL.cons_tail ih2)
  -- implCaseHolding
  · intro sid sibs; unfold implCaseHolding; exact EvsBelowL.empty _
  · intro sid k ks sibs h ih
    unfold implCaseHolding; simp only [h, if_true]; exact EvsBelowL.cons_head ih
  · intro sid k ks sibs h ih
    unfold implCaseHolding; simp only [h, Bool.false_eq_true, if_false]; exact EvsBelowL.cons_tail ih
  -- implInto
  · intro target sibs; unfold implInto; exact EvsBelowL.empty _
  · intro target k ks sibs _ ih1 ih2 ih3
    unfold implInto
    refine EvsBelowL.append ?_ (EvsBelowL.cons_tail ih3)
    split
    · exact EvsBelowL.cons_head ih1
    · exact EvsBelowL.cons_head ih2
  -- implIntoKids
  · intro target sibs; unfold implIntoKids; exact EvsBelowL.empty _
  · intro target k ks sibs _ ih1 ih2
    unfold implIntoKids
    exact EvsBelowL.append (EvsBelowL.cons_head ih1) (EvsBelowL.cons_tail ih2)
  -- implCaseNamed
  · intro nm sibs; unfold implCaseNamed; exact EvsBelowL.empty _
  · intro nm k ks sibs h ih
    unfold implCaseNamed; simp only [h, if_true]; exact EvsBelowL.cons_head ih
  · intro nm k ks sibs h ih
    unfold implCaseNamed; simp only [h, Bool.false_eq_true, if_false]; exact EvsBelowL.cons_tail ih

theorem implL_below (X : SchemaX) (o : VOpts) (cx : Cx) (ks : List STree) (sibs : List DNode) :
    EvsBelowL ks (implL X o cx ks sibs).2 := by
  unfold implL
  exact EvsBelowL.append (implChoices_below X o cx ks sibs) (implNodes_below _ _ _ _ _)

end LyModel.Valid
